// Start-up table: which goroutines the package starts, from where, and under which conditions;
// and, for every goroutine root (and the closures it hands to in-package helpers), the in-package
// functions it calls in its straight-line prefix (before any branching statement).
//
// Used by C14 ("always eventual"): the expiration sweeper must be started by Serve whatever the
// configured role is, and every round of it must run both sweeps. A `go` statement that moves
// under an `if`, or a sweep call that moves behind a conditional return, changes the table and the
// theorem over it (coq/Props/C14st.v) no longer computes to true.
package main

import (
	"fmt"
	"go/ast"
	"go/types"
	"sort"
	"strings"
)

type goStart struct {
	starter, root string
	guards        []string // conditions of the enclosing if / for / switch / select statements, outermost first
	quietExits    int      // earlier statements on the way that can leave the starter without an error
}

type closureArg struct {
	fn, callee, closure string
}

type startupInfo struct {
	starts   []goStart
	must     map[string][]string // function or closure -> in-package callees of its straight-line prefix
	closures []closureArg
	bodies   map[string]*ast.BlockStmt
}

func condText(e ast.Expr) string {
	if e == nil {
		return ""
	}
	return types.ExprString(e)
}

// containsQuietExit: does the statement contain (outside function literals) a return that reports no
// error, i.e. one with no results or whose results are all the literal nil
func containsQuietExit(st ast.Stmt) bool {
	found := false
	ast.Inspect(st, func(n ast.Node) bool {
		switch x := n.(type) {
		case *ast.FuncLit:
			return false
		case *ast.ReturnStmt:
			quiet := true
			for _, r := range x.Results {
				if id, ok := r.(*ast.Ident); !ok || id.Name != "nil" {
					quiet = false
				}
			}
			if quiet {
				found = true
			}
		}
		return true
	})
	return found
}

// goStartsOf walks one function body (key = its table name) and records every go statement with the
// guards in force; go-launched literals are named key$goN in source order (the naming of genMutators)
// and walked as functions of their own.
func (si *startupInfo) goStartsOf(key string, body *ast.BlockStmt) {
	goN := 0
	var walkList func(list []ast.Stmt, guards []string, quiet int)
	var walkStmt func(st ast.Stmt, guards []string, quiet int)
	with := func(g []string, c string) []string {
		out := append([]string{}, g...)
		return append(out, c)
	}
	var walkExpr func(n ast.Node, guards []string, quiet int)
	walkExpr = func(n ast.Node, guards []string, quiet int) {
		if n == nil {
			return
		}
		ast.Inspect(n, func(m ast.Node) bool {
			if fl, ok := m.(*ast.FuncLit); ok {
				// a literal that is not launched by `go` here: runs (if at all) when its receiver decides
				walkList(fl.Body.List, with(guards, "closure"), quiet)
				return false
			}
			return true
		})
	}
	walkStmt = func(st ast.Stmt, guards []string, quiet int) {
		switch x := st.(type) {
		case nil:
		case *ast.GoStmt:
			if fl, ok := x.Call.Fun.(*ast.FuncLit); ok {
				goN++
				k := fmt.Sprintf("%s$go%d", key, goN)
				si.starts = append(si.starts, goStart{key, k, guards, quiet})
				si.bodies[k] = fl.Body
				si.goStartsOf(k, fl.Body)
			} else if ck := calleeKey(x.Call); ck != "" {
				si.starts = append(si.starts, goStart{key, ck, guards, quiet})
			}
			for _, a := range x.Call.Args {
				walkExpr(a, guards, quiet)
			}
		case *ast.BlockStmt:
			walkList(x.List, guards, quiet)
		case *ast.IfStmt:
			walkStmt(x.Init, guards, quiet)
			walkExpr(x.Cond, guards, quiet)
			c := condText(x.Cond)
			walkList(x.Body.List, with(guards, c), quiet)
			if x.Else != nil {
				walkStmt(x.Else, with(guards, "!("+c+")"), quiet)
			}
		case *ast.ForStmt:
			walkStmt(x.Init, guards, quiet)
			walkList(x.Body.List, with(guards, strings.TrimSpace("for "+condText(x.Cond))), quiet)
		case *ast.RangeStmt:
			walkList(x.Body.List, with(guards, "range "+condText(x.X)), quiet)
		case *ast.SwitchStmt:
			walkStmt(x.Init, guards, quiet)
			for _, cc := range x.Body.List {
				cl := cc.(*ast.CaseClause)
				var es []string
				for _, e := range cl.List {
					es = append(es, condText(e))
				}
				walkList(cl.Body, with(guards, strings.TrimSpace("switch "+condText(x.Tag))+" case "+strings.Join(es, ", ")), quiet)
			}
		case *ast.TypeSwitchStmt:
			for _, cc := range x.Body.List {
				walkList(cc.(*ast.CaseClause).Body, with(guards, "type switch case"), quiet)
			}
		case *ast.SelectStmt:
			for _, cc := range x.Body.List {
				walkList(cc.(*ast.CommClause).Body, with(guards, "select case"), quiet)
			}
		case *ast.LabeledStmt:
			walkStmt(x.Stmt, guards, quiet)
		default:
			walkExpr(st, guards, quiet)
		}
	}
	walkList = func(list []ast.Stmt, guards []string, quiet int) {
		q := quiet
		for _, st := range list {
			walkStmt(st, guards, q)
			if containsQuietExit(st) {
				q++
			}
		}
	}
	walkList(body.List, nil, 0)
}

// mustCallsOf: the in-package callees of the leading simple statements of a body (expression,
// assignment, declaration, defer, send, inc/dec); the first statement of any other kind ends the
// prefix. Literals passed to an in-package callee inside the prefix are named key$fnN and analysed too.
func (si *startupInfo) mustCallsOf(key string, body *ast.BlockStmt) {
	if _, done := si.must[key]; done {
		return
	}
	si.must[key] = []string{}
	fnN := 0
	seen := map[string]bool{}
	var collect func(n ast.Node)
	collect = func(n ast.Node) {
		ast.Inspect(n, func(m ast.Node) bool {
			switch x := m.(type) {
			case *ast.FuncLit:
				return false
			case *ast.CallExpr:
				ck := calleeKey(x)
				if ck != "" && !seen[ck] {
					seen[ck] = true
					si.must[key] = append(si.must[key], ck)
				}
				for _, a := range x.Args {
					if fl, ok := a.(*ast.FuncLit); ok && ck != "" {
						fnN++
						k := fmt.Sprintf("%s$fn%d", key, fnN)
						si.closures = append(si.closures, closureArg{key, ck, k})
						si.bodies[k] = fl.Body
						si.mustCallsOf(k, fl.Body)
					}
				}
			}
			return true
		})
	}
	for _, st := range body.List {
		switch x := st.(type) {
		case *ast.ExprStmt, *ast.AssignStmt, *ast.DeclStmt, *ast.SendStmt, *ast.IncDecStmt:
			collect(st)
		case *ast.DeferStmt:
			collect(x.Call)
		default:
			return
		}
	}
}

func trimServer(s string) string { return strings.TrimPrefix(s, "Server.") }

func genStartup() string {
	si := &startupInfo{must: map[string][]string{}, bodies: map[string]*ast.BlockStmt{}}
	keys := []string{}
	for k := range funcs {
		keys = append(keys, k)
	}
	sort.Strings(keys)
	for _, k := range keys {
		si.bodies[k] = funcs[k].Body
		si.goStartsOf(k, funcs[k].Body)
	}
	if funcs["Serve"] == nil {
		fail("start-up function Serve not found")
	}
	// straight-line prefixes of every goroutine root (closures they pass on are added on the way)
	roots := []string{}
	seenRoot := map[string]bool{}
	for _, g := range si.starts {
		if !seenRoot[g.root] && si.bodies[g.root] != nil {
			seenRoot[g.root] = true
			roots = append(roots, g.root)
		}
	}
	sort.Strings(roots)
	for _, k := range roots {
		si.mustCallsOf(k, si.bodies[k])
	}
	sort.SliceStable(si.starts, func(i, j int) bool {
		if si.starts[i].starter != si.starts[j].starter {
			return si.starts[i].starter < si.starts[j].starter
		}
		return si.starts[i].root < si.starts[j].root
	})
	var sb strings.Builder
	sb.WriteString("(* GENERATED by /verif/t38x from /repo on every check run. Do not edit. *)\nFrom Coq Require Import String List Bool.\nImport ListNotations.\nOpen Scope string_scope.\n\n")
	sb.WriteString("(* every `go` statement of internal/server: (function containing it, root of the goroutine,\n   conditions of the if / for / switch / select / closure levels enclosing it inside that function,\n   outermost first, number of earlier statements on the way that can return without an error) *)\n")
	sb.WriteString("Definition go_starts : list (string * string * list string * nat) :=\n  [")
	for i, g := range si.starts {
		if i > 0 {
			sb.WriteString(";\n   ")
		}
		fmt.Fprintf(&sb, "(%s, %s, %s, %d)", coqStr(trimServer(g.starter)), coqStr(trimServer(g.root)), coqStrList(g.guards), g.quietExits)
	}
	sb.WriteString("].\n\n")
	sb.WriteString("(* per goroutine root and per closure it hands to an in-package function: the in-package functions\n   called by its leading simple statements, i.e. before the first if / for / switch / select / return *)\n")
	sb.WriteString("Definition must_calls : list (string * list string) :=\n  [")
	mk := []string{}
	for k := range si.must {
		mk = append(mk, k)
	}
	sort.Strings(mk)
	for i, k := range mk {
		if i > 0 {
			sb.WriteString(";\n   ")
		}
		cs := []string{}
		for _, c := range si.must[k] {
			cs = append(cs, trimServer(c))
		}
		fmt.Fprintf(&sb, "(%s, %s)", coqStr(trimServer(k)), coqStrList(cs))
	}
	sb.WriteString("].\n\n")
	sb.WriteString("(* (function, in-package callee, closure): the closure is an argument of that call in the prefix *)\n")
	sb.WriteString("Definition closure_args : list (string * string * string) :=\n  [")
	sort.SliceStable(si.closures, func(i, j int) bool { return si.closures[i].closure < si.closures[j].closure })
	for i, c := range si.closures {
		if i > 0 {
			sb.WriteString(";\n   ")
		}
		fmt.Fprintf(&sb, "(%s, %s, %s)", coqStr(trimServer(c.fn)), coqStr(trimServer(c.callee)), coqStr(trimServer(c.closure)))
	}
	sb.WriteString("].\n")
	return sb.String()
}
