// The follower side of replication as guarded statements (coq/Gen/FollowSteps.v), used by C06.
//
// followStartOver, followReset, followCheckSome, followHandleCommand and followStep are rendered
// generically: every leaf statement in program order together with the conditions of the `if` /
// `for` / `switch` statements that enclose it (an `else` branch carries the negated condition).
// No statement is looked for by name and nothing is dropped.
//
// coq/Model/FollowGen.v runs these lists with a small abstract interpreter:
//   - a STALE follow generation (guard `int(s.followc.Load()) != followc` true) must return with
//     errNoLongerFollowing before it reaches any statement other than taking/releasing s.mu
//     (followStep at its top, followCheckSome and followHandleCommand right after the lock): these
//     are the guarded steps of the generation model; a guard that is dropped or moved below an
//     effect makes `stale_run` answer SEffect and the obligations of
//     coq/Proofs/FollowGenProofs.v (gen_guards_transcribed) no longer compute;
//   - followStartOver is run for both values of `s.aof != nil` (--appendonly yes / no): the
//     operations it performs (recreate the log, reset dataset + aofsz) are the model's start-over,
//     and the theorems about followers without a log are stated over that list.
package main

import (
	"go/ast"
	"go/types"
	"strings"
)

type gstmt struct {
	guards []string
	text   string
	effs   []string
}

// recvName is the receiver identifier of the function being rendered ("s")
var recvName string

// rootedAtRecv returns the selector chain "s.a.b" if e is such a chain rooted at the receiver.
func rootedAtRecv(e ast.Expr) (string, bool) {
	switch x := e.(type) {
	case *ast.Ident:
		return x.Name, x.Name == recvName && recvName != ""
	case *ast.SelectorExpr:
		if t, ok := rootedAtRecv(x.X); ok {
			return t + "." + x.Sel.Name, true
		}
	case *ast.IndexExpr:
		return rootedAtRecv(x.X)
	case *ast.ParenExpr:
		return rootedAtRecv(x.X)
	case *ast.StarExpr:
		return rootedAtRecv(x.X)
	}
	return "", false
}

// stmtEffects: what the statement does to / asks of the server object, read off the syntax:
// "set s.f" for every assignment (or ++/--) whose target is rooted at the receiver, "call s.a.b" for
// every call whose function is a selector chain rooted at the receiver ("defer call" / "go call"
// when deferred / spawned), in source order.
func stmtEffects(st ast.Stmt) []string {
	var out []string
	prefix := ""
	switch x := st.(type) {
	case *ast.DeferStmt:
		prefix = "defer "
		_ = x
	case *ast.GoStmt:
		prefix = "go "
	}
	ast.Inspect(st, func(n ast.Node) bool {
		switch y := n.(type) {
		case *ast.AssignStmt:
			for _, l := range y.Lhs {
				if t, ok := rootedAtRecv(l); ok && t != recvName {
					out = append(out, "set "+t)
				}
			}
		case *ast.IncDecStmt:
			if t, ok := rootedAtRecv(y.X); ok && t != recvName {
				out = append(out, "set "+t)
			}
		case *ast.CallExpr:
			if t, ok := rootedAtRecv(y.Fun); ok {
				out = append(out, prefix+"call "+t)
			}
		}
		return true
	})
	return out
}

func asciiDots(s string) string { return strings.ReplaceAll(s, "\u2026", "...") }

func flattenStmts(list []ast.Stmt, guards []string, out *[]gstmt) {
	with := func(g string) []string { return append(append([]string{}, guards...), asciiDots(g)) }
	var cur ast.Stmt
	emit := func(t string) {
		if t != "" {
			*out = append(*out, gstmt{append([]string{}, guards...), asciiDots(t), stmtEffects(cur)})
		}
	}
	for _, st := range list {
		cur = st
		switch x := st.(type) {
		case *ast.IfStmt:
			if x.Init != nil {
				cur = x.Init
				emit(simpleStmtText(x.Init))
			}
			cond := types.ExprString(x.Cond)
			flattenStmts(x.Body.List, with(cond), out)
			switch e := x.Else.(type) {
			case *ast.BlockStmt:
				flattenStmts(e.List, with("!("+cond+")"), out)
			case *ast.IfStmt:
				flattenStmts([]ast.Stmt{e}, with("!("+cond+")"), out)
			}
		case *ast.ForStmt:
			if x.Init != nil {
				cur = x.Init
				emit(simpleStmtText(x.Init))
			}
			g := "for"
			if x.Cond != nil {
				g = "for " + types.ExprString(x.Cond)
			}
			body := append([]ast.Stmt{}, x.Body.List...)
			if x.Post != nil {
				body = append(body, x.Post)
			}
			flattenStmts(body, with(g), out)
		case *ast.RangeStmt:
			flattenStmts(x.Body.List, with("range "+types.ExprString(x.X)), out)
		case *ast.SwitchStmt:
			if x.Init != nil {
				cur = x.Init
				emit(simpleStmtText(x.Init))
			}
			tag := ""
			if x.Tag != nil {
				tag = types.ExprString(x.Tag)
			}
			for _, c := range x.Body.List {
				cc, ok := c.(*ast.CaseClause)
				if !ok {
					continue
				}
				g := "switch " + tag + " default"
				if cc.List != nil {
					var es []string
					for _, e := range cc.List {
						es = append(es, types.ExprString(e))
					}
					g = "switch " + tag + " case " + strings.Join(es, ", ")
				}
				flattenStmts(cc.Body, with(g), out)
			}
		case *ast.BlockStmt:
			flattenStmts(x.List, guards, out)
		case *ast.BranchStmt:
			t := x.Tok.String()
			if x.Label != nil {
				t += " " + x.Label.Name
			}
			emit(t)
		case *ast.EmptyStmt:
		default:
			t := simpleStmtText(st)
			if t == "" {
				t = "?stmt@" + pos(st)
				fail("follow steps: statement shape not rendered at %s", pos(st))
			}
			emit(t)
		}
	}
}

func genFollowSteps() string {
	var sb strings.Builder
	sb.WriteString("(* GENERATED by /verif/t38x from /repo on every check run. Do not edit. *)\nFrom Coq Require Import String List.\nImport ListNotations.\nOpen Scope string_scope.\n\n")
	sb.WriteString("(* every leaf statement of the function in program order: (conditions of the enclosing if / for /\n   switch statements, outermost first, an else branch carries the negated condition; the statement;\n   what it does to the server object s: \"set s.f\" = assignment to a field, \"call s.a.b\" = call of a\n   method / of a method of a field, in source order) *)\n")
	for _, fn := range []struct{ key, name string }{
		{"Server.followStartOver", "follow_start_over"},
		{"Server.followReset", "follow_reset"},
		{"Server.followCheckSome", "follow_check_some"},
		{"Server.followHandleCommand", "follow_handle_command"},
		{"Server.followStep", "follow_step"},
		{"Server.follow", "follow_loop"},
	} {
		fd := funcs[fn.key]
		if fd == nil {
			fail("%s not found", fn.key)
			continue
		}
		var out []gstmt
		recvName = ""
		if fd.Recv != nil && len(fd.Recv.List) > 0 && len(fd.Recv.List[0].Names) > 0 {
			recvName = fd.Recv.List[0].Names[0].Name
		}
		flattenStmts(fd.Body.List, nil, &out)
		sb.WriteString("Definition " + fn.name + " : list (list string * string * list string) :=\n  [")
		for i, g := range out {
			if i > 0 {
				sb.WriteString(";\n   ")
			}
			sb.WriteString("(" + coqStrList(g.guards) + ", " + coqStr(g.text) + ", " + coqStrList(g.effs) + ")")
		}
		sb.WriteString("].\n\n")
	}
	return sb.String()
}
