// The replay-error policy of start-up (C03): which errors of a replayed command loadAOF survives.
//
//   - internal/server/aof.go, func commandErrIsFatal(err error) bool — evaluated symbolically, once
//     for every package-level sentinel `var errX = errors.New("...")` of internal/server and once
//     for "any other error". The body may be any combination of `return <bool expr>`,
//     `if <bool expr> { ... } [else ...]`, `switch err { case a, b: ... default: ... }` and
//     `switch { case <bool expr>: ... }`; a bool expr is built from `err == X`, `err != X`,
//     `errors.Is(err, X)`, `!`, `&&`, `||`, parentheses, true, false. Anything else is an error.
//   - internal/server/aof.go, func loadAOF: the statement that applies a record must be
//     `if _, _, err := s.command(&msg, nil); err != nil { if commandErrIsFatal(err) { return err } }`.
//
//   - internal/server/aof.go, func writeAOF: the commands that the shrink log (the tail of a rewritten
//     file) carries not as sent but as `SET key id OBJECT|STRING <resulting document>`:
//     `if s.shrinking { ... switch strings.ToLower(args[0]) { case "jset", "jdel": nargs = []string{"SET", ...} } ...
//     s.shrinklog = append(s.shrinklog, nargs) }`.
//
// coq/Gen/ReplayTol.v carries the result as a table (sentinel, message, fatal?) plus the verdict for
// other errors. coq/Model/ReplayTol.v reads it as the `fatal` predicate of the loader model and
// coq/Proofs/KsReplayTol.v proves over it that no error a logged keyspace command can return on
// replay stops the load; a sentinel that moves from "tolerated" to "fatal" breaks that proof.
package main

import (
	"fmt"
	"go/ast"
	"go/token"
	"go/types"
	"sort"
	"strings"
)

type sentinel struct {
	name, msg string
	obj       types.Object
}

// package-level `var errX = errors.New("literal")`
func errorSentinels() []sentinel {
	var out []sentinel
	for _, f := range pkg.Syntax {
		for _, d := range f.Decls {
			gd, ok := d.(*ast.GenDecl)
			if !ok || gd.Tok != token.VAR {
				continue
			}
			for _, sp := range gd.Specs {
				vs, ok := sp.(*ast.ValueSpec)
				if !ok || len(vs.Names) != 1 || len(vs.Values) != 1 {
					continue
				}
				call, ok := vs.Values[0].(*ast.CallExpr)
				if !ok || types.ExprString(call.Fun) != "errors.New" || len(call.Args) != 1 {
					continue
				}
				msg, ok := strLit(call.Args[0])
				if !ok {
					continue
				}
				obj := info.Defs[vs.Names[0]]
				if obj == nil {
					continue
				}
				out = append(out, sentinel{vs.Names[0].Name, msg, obj})
			}
		}
	}
	sort.Slice(out, func(i, j int) bool { return out[i].name < out[j].name })
	return out
}

// symbolic evaluation of a func(err error) bool for err := x (nil object = an error that is none of
// the sentinels)
type errEval struct {
	param types.Object
	x     types.Object
	bad   string
}

func (ev *errEval) fail(n ast.Node, what string) {
	if ev.bad == "" {
		ev.bad = fmt.Sprintf("%s: %s", pos(n), what)
	}
}

func (ev *errEval) isParam(e ast.Expr) bool {
	id, ok := e.(*ast.Ident)
	return ok && info.Uses[id] == ev.param
}

// the object a comparison operand denotes: a package-level variable, or (nil, true) for `nil`
func (ev *errEval) operand(e ast.Expr) (types.Object, bool, bool) {
	id, ok := e.(*ast.Ident)
	if !ok {
		ev.fail(e, "comparison operand is not an identifier: "+types.ExprString(e))
		return nil, false, false
	}
	o := info.Uses[id]
	if _, isNil := o.(*types.Nil); isNil {
		return nil, true, true
	}
	v, ok := o.(*types.Var)
	if !ok || v.Parent() != pkg.Types.Scope() {
		ev.fail(e, "comparison operand is not a package-level variable: "+id.Name)
		return nil, false, false
	}
	return v, false, true
}

func (ev *errEval) equals(e ast.Expr) bool {
	o, isNil, ok := ev.operand(e)
	if !ok || isNil { // the error being classified is never nil
		return false
	}
	return ev.x != nil && o == ev.x
}

func (ev *errEval) boolExpr(e ast.Expr) bool {
	switch x := e.(type) {
	case *ast.ParenExpr:
		return ev.boolExpr(x.X)
	case *ast.Ident:
		if c, ok := info.Uses[x].(*types.Const); ok && c.Parent() == types.Universe {
			return x.Name == "true"
		}
	case *ast.UnaryExpr:
		if x.Op == token.NOT {
			return !ev.boolExpr(x.X)
		}
	case *ast.BinaryExpr:
		switch x.Op {
		case token.LOR:
			l := ev.boolExpr(x.X)
			r := ev.boolExpr(x.Y)
			return l || r
		case token.LAND:
			l := ev.boolExpr(x.X)
			r := ev.boolExpr(x.Y)
			return l && r
		case token.EQL, token.NEQ:
			var other ast.Expr
			if ev.isParam(x.X) {
				other = x.Y
			} else if ev.isParam(x.Y) {
				other = x.X
			} else {
				ev.fail(x, "comparison does not involve the error parameter: "+types.ExprString(x))
				return false
			}
			eq := ev.equals(other)
			if x.Op == token.NEQ {
				return !eq
			}
			return eq
		}
	case *ast.CallExpr:
		if types.ExprString(x.Fun) == "errors.Is" && len(x.Args) == 2 && ev.isParam(x.Args[0]) {
			return ev.equals(x.Args[1])
		}
	}
	ev.fail(e, "unrecognised boolean expression: "+types.ExprString(e))
	return false
}

// stmts: (returned?, value)
func (ev *errEval) stmts(l []ast.Stmt) (bool, bool) {
	for _, st := range l {
		if done, v := ev.stmt(st); done {
			return true, v
		}
		if ev.bad != "" {
			return true, false
		}
	}
	return false, false
}

func (ev *errEval) stmt(st ast.Stmt) (bool, bool) {
	switch x := st.(type) {
	case *ast.ReturnStmt:
		if len(x.Results) != 1 {
			ev.fail(x, "return without exactly one result")
			return true, false
		}
		return true, ev.boolExpr(x.Results[0])
	case *ast.BlockStmt:
		return ev.stmts(x.List)
	case *ast.IfStmt:
		if x.Init != nil {
			ev.fail(x, "if statement with an init clause")
			return true, false
		}
		if ev.boolExpr(x.Cond) {
			return ev.stmts(x.Body.List)
		}
		if x.Else != nil {
			return ev.stmt(x.Else)
		}
		return false, false
	case *ast.SwitchStmt:
		if x.Init != nil {
			ev.fail(x, "switch statement with an init clause")
			return true, false
		}
		if x.Tag != nil && !ev.isParam(x.Tag) {
			ev.fail(x, "switch over something else than the error parameter: "+types.ExprString(x.Tag))
			return true, false
		}
		var chosen, deflt *ast.CaseClause
		for _, c := range x.Body.List {
			cc := c.(*ast.CaseClause)
			for _, s := range cc.Body {
				if b, ok := s.(*ast.BranchStmt); ok && b.Tok == token.FALLTHROUGH {
					ev.fail(b, "fallthrough")
					return true, false
				}
			}
			if cc.List == nil {
				deflt = cc
				continue
			}
			for _, e := range cc.List {
				var hit bool
				if x.Tag != nil {
					hit = ev.equals(e)
				} else {
					hit = ev.boolExpr(e)
				}
				if hit && chosen == nil {
					chosen = cc
				}
			}
		}
		if chosen == nil {
			chosen = deflt
		}
		if chosen == nil {
			return false, false
		}
		return ev.stmts(chosen.Body)
	case *ast.EmptyStmt:
		return false, false
	}
	ev.fail(st, "unrecognised statement")
	return true, false
}

func classifyErr(fd *ast.FuncDecl, param types.Object, x types.Object) (bool, string) {
	ev := &errEval{param: param, x: x}
	done, v := ev.stmts(fd.Body.List)
	if ev.bad != "" {
		return false, ev.bad
	}
	if !done {
		return false, pos(fd) + ": a path through the function does not return"
	}
	return v, ""
}

// loadAOF applies a record with s.command and consults commandErrIsFatal on its error, nothing else
func loadConsultsTable() bool {
	fd := funcs["Server.loadAOF"]
	if fd == nil {
		fail("replaytol: Server.loadAOF not found")
		return false
	}
	found := 0
	good := 0
	ast.Inspect(fd.Body, func(n ast.Node) bool {
		is, ok := n.(*ast.IfStmt)
		if !ok || is.Init == nil {
			return true
		}
		as, ok := is.Init.(*ast.AssignStmt)
		if !ok || len(as.Rhs) != 1 {
			return true
		}
		call, ok := as.Rhs[0].(*ast.CallExpr)
		if !ok || types.ExprString(call.Fun) != "s.command" {
			return true
		}
		found++
		if types.ExprString(is.Cond) != "err != nil" || is.Else != nil || len(is.Body.List) != 1 {
			fail("replaytol: %s: loadAOF's handling of a record's error is not `if err != nil { if commandErrIsFatal(err) { return err } }`", pos(is))
			return true
		}
		inner, ok := is.Body.List[0].(*ast.IfStmt)
		if !ok || inner.Init != nil || inner.Else != nil || types.ExprString(inner.Cond) != "commandErrIsFatal(err)" || len(inner.Body.List) != 1 {
			fail("replaytol: %s: loadAOF does not decide on a record's error with commandErrIsFatal(err) alone", pos(is))
			return true
		}
		ret, ok := inner.Body.List[0].(*ast.ReturnStmt)
		if !ok || len(ret.Results) != 1 || types.ExprString(ret.Results[0]) != "err" {
			fail("replaytol: %s: a fatal record error is not returned by loadAOF", pos(inner))
			return true
		}
		good++
		return true
	})
	if found != 1 {
		fail("replaytol: loadAOF applies records with s.command in %d places (expected 1)", found)
	}
	return found == 1 && good == 1
}

// the command names whose shrink-log record is rewritten into a SET of the resulting object
func shrinklogAsSet() []string {
	fd := funcs["Server.writeAOF"]
	if fd == nil {
		fail("replaytol: Server.writeAOF not found")
		return nil
	}
	var out []string
	isSetLit := func(e ast.Expr) bool {
		cl, ok := e.(*ast.CompositeLit)
		if !ok || types.ExprString(cl.Type) != "[]string" || len(cl.Elts) == 0 {
			return false
		}
		v, ok := strLit(cl.Elts[0])
		return ok && v == "SET"
	}
	// does the statement list end, on every path, with `nargs = []string{"SET", ...}`
	var endsWithSet func(l []ast.Stmt) bool
	endsWithSet = func(l []ast.Stmt) bool {
		if len(l) == 0 {
			return false
		}
		switch x := l[len(l)-1].(type) {
		case *ast.AssignStmt:
			return len(x.Lhs) == 1 && len(x.Rhs) == 1 && types.ExprString(x.Lhs[0]) == "nargs" && isSetLit(x.Rhs[0])
		case *ast.IfStmt:
			eb, ok := x.Else.(*ast.BlockStmt)
			return ok && endsWithSet(x.Body.List) && endsWithSet(eb.List)
		case *ast.BlockStmt:
			return endsWithSet(x.List)
		}
		return false
	}
	for _, st := range fd.Body.List {
		is, ok := st.(*ast.IfStmt)
		if !ok || types.ExprString(is.Cond) != "s.shrinking" {
			continue
		}
		appended := false
		for _, b := range is.Body.List {
			if as, ok := b.(*ast.AssignStmt); ok && len(as.Lhs) == 1 && len(as.Rhs) == 1 &&
				types.ExprString(as.Lhs[0]) == "s.shrinklog" && types.ExprString(as.Rhs[0]) == "append(s.shrinklog, nargs)" {
				appended = true
			}
		}
		if !appended {
			fail("replaytol: %s: writeAOF's shrinking branch does not end in s.shrinklog = append(s.shrinklog, nargs)", pos(is))
			continue
		}
		ast.Inspect(is.Body, func(n ast.Node) bool {
			sw, ok := n.(*ast.SwitchStmt)
			if !ok || sw.Tag == nil || types.ExprString(sw.Tag) != "strings.ToLower(args[0])" {
				return true
			}
			for _, c := range sw.Body.List {
				cc := c.(*ast.CaseClause)
				if !endsWithSet(cc.Body) {
					continue
				}
				for _, e := range cc.List {
					if v, ok := strLit(e); ok {
						out = append(out, v)
					}
				}
			}
			return false
		})
	}
	sort.Strings(out)
	return out
}

func genReplayTol() string {
	var sb strings.Builder
	sb.WriteString("(* GENERATED by /verif/t38x from /repo on every check run. Do not edit. *)\nFrom Coq Require Import String List Bool.\nImport ListNotations.\nOpen Scope string_scope.\n\n")
	fd := funcs["commandErrIsFatal"]
	var rows []string
	other := true
	if fd == nil || fd.Type.Params == nil || len(fd.Type.Params.List) != 1 || len(fd.Type.Params.List[0].Names) != 1 ||
		fd.Type.Results == nil || len(fd.Type.Results.List) != 1 || types.ExprString(fd.Type.Results.List[0].Type) != "bool" {
		fail("replaytol: commandErrIsFatal(err error) bool not found")
	} else {
		param := info.Defs[fd.Type.Params.List[0].Names[0]]
		sents := errorSentinels()
		byMsg := map[string]bool{}
		seen := map[string]bool{}
		for _, s := range sents {
			v, bad := classifyErr(fd, param, s.obj)
			if bad != "" {
				fail("replaytol: commandErrIsFatal: %s", bad)
				break
			}
			if prev, ok := byMsg[s.msg]; ok && prev != v {
				fail("replaytol: two error values with the text %q are classified differently", s.msg)
			}
			byMsg[s.msg] = v
			if seen[s.msg] {
				continue
			}
			seen[s.msg] = true
			rows = append(rows, fmt.Sprintf("(%s, %s, %s)", coqStr(s.name), coqStr(s.msg), coqBool(v)))
		}
		v, bad := classifyErr(fd, param, nil)
		if bad != "" {
			fail("replaytol: commandErrIsFatal: %s", bad)
		}
		other = v
	}
	consults := loadConsultsTable()
	sb.WriteString("(* commandErrIsFatal (aof.go) evaluated on every package-level `var errX = errors.New(\"...\")` of\n   internal/server: (variable, error text, is fatal when a replayed command returns it) *)\n")
	sb.WriteString("Definition replay_err_table : list (string * string * bool) :=\n  [" + strings.Join(rows, ";\n   ") + "].\n\n")
	sb.WriteString("(* ... and on an error that is none of them *)\n")
	fmt.Fprintf(&sb, "Definition replay_err_other_fatal : bool := %s.\n\n", coqBool(other))
	sb.WriteString("(* loadAOF applies a record with s.command in exactly one place and stops exactly when\n   commandErrIsFatal(err) says so *)\n")
	fmt.Fprintf(&sb, "Definition load_consults_table : bool := %s.\n\n", coqBool(consults))
	sb.WriteString("(* writeAOF: the commands whose record in the shrink log (the tail of a rewritten file) is not the\n   command as sent but `SET key id OBJECT|STRING <the resulting document>` *)\n")
	fmt.Fprintf(&sb, "Definition shrinklog_as_set : list string := %s.\n", coqStrList(shrinklogAsSet()))
	return sb.String()
}
