// Gen/LuaGlobals.v: every site that puts a global into a pooled interpreter (luaSetRawGlobals with a
// non-nil value: KEYS, ARGV, DEADLINE, EVAL_CMD of cmdEvalUnified; ARGV of the WHEREEVAL parser; ID, FIELDS,
// PROPERTIES, ARGV of whereevalT.match) with HOW that global is removed again:
//   "defer"  a deferred luaSetRawGlobals(... key: lua.LNil ...) in the same function: runs on every way out
//   "close"  the function belongs to the WHEREEVAL borrower and whereevalT.Close sets the key to nil before
//            it Puts the interpreter back
//   "plain"  only a non-deferred removal in the same function: skipped by every early return
//   "none"   never removed
// An idle interpreter's global table is exactly the allow-list (Gen/LuaAllow.v) iff every entry is
// "defer" or "close" (coq/Model/LuaGlobals.v, Proofs/LuaGlobalsProofs.v) (C18).
//
// Gen/ReplyFlush.v: the reply blocks of netServe (`if len(client.out) > 0 { ... Write(client.out) }`): what
// decides whether the append-only buffer is flushed before the replies go out. The only decision under
// which "reply sent => every record of the request is in the file" holds for requests that log from inside
// a script (luaTile38AtomicRW / NonAtomic call writeAOF themselves) is the server-wide flag that writeAOF sets.
package main

import (
	"fmt"
	"go/ast"
	"sort"
	"strings"
)

type gsite struct {
	fn       string
	keys     []string
	removal  bool // all values are lua.LNil
	deferred bool
}

func rawGlobalsSites() []gsite {
	var out []gsite
	keys := []string{}
	for k := range funcs {
		keys = append(keys, k)
	}
	sort.Strings(keys)
	for _, key := range keys {
		fd := funcs[key]
		if key == "luaSetRawGlobals" {
			continue
		}
		var visit func(n ast.Node, deferred bool)
		visit = func(n ast.Node, deferred bool) {
			ast.Inspect(n, func(m ast.Node) bool {
				switch x := m.(type) {
				case *ast.DeferStmt:
					// defer luaSetRawGlobals(...)  or  defer func() { ... }()
					if fl, ok := x.Call.Fun.(*ast.FuncLit); ok {
						visit(fl.Body, true)
					} else {
						visit(x.Call, true)
					}
					return false
				case *ast.CallExpr:
					id, ok := x.Fun.(*ast.Ident)
					if !ok || id.Name != "luaSetRawGlobals" {
						return true
					}
					if len(x.Args) != 2 {
						fail("%s %s: luaSetRawGlobals with %d arguments", key, pos(x), len(x.Args))
						return true
					}
					cl, ok := x.Args[1].(*ast.CompositeLit)
					if !ok {
						fail("%s %s: luaSetRawGlobals with a map that is not a literal", key, pos(x))
						return true
					}
					s := gsite{fn: key, removal: true, deferred: deferred}
					for _, el := range cl.Elts {
						kv, ok := el.(*ast.KeyValueExpr)
						if !ok {
							fail("%s %s: unknown map element", key, pos(el))
							continue
						}
						name, ok := strLit(kv.Key)
						if !ok {
							fail("%s %s: global with a non-literal name", key, pos(kv))
							continue
						}
						s.keys = append(s.keys, name)
						if strings.TrimSpace(exprText(kv.Value)) != "lua LNil" {
							s.removal = false
						}
					}
					out = append(out, s)
				}
				return true
			})
		}
		visit(fd.Body, false)
		// other ways to write a global of an interpreter outside its construction
		if key != "lStatePool.New" && key != "openBaseSubset" && key != "openOsSubset" {
			ast.Inspect(fd.Body, func(m ast.Node) bool {
				if call, ok := m.(*ast.CallExpr); ok {
					if sel, ok := call.Fun.(*ast.SelectorExpr); ok && sel.Sel.Name == "SetGlobal" {
						fail("%s %s: SetGlobal outside the construction of an interpreter", key, pos(call))
					}
				}
				return true
			})
		}
	}
	return out
}

func genLuaGlobals() string {
	sites := rawGlobalsSites()
	// the WHEREEVAL borrower: the pool user whose interpreter goes back in a Close(), that Close, and the
	// methods of the same receiver type
	closeFn := ""
	var closeSession []string
	for k, fd := range funcs {
		if strings.HasSuffix(k, ".Close") {
			ast.Inspect(fd.Body, func(n ast.Node) bool {
				if call, ok := n.(*ast.CallExpr); ok && poolCall(call, "Put") {
					closeFn = k
				}
				return true
			})
		}
	}
	recv := strings.TrimSuffix(closeFn, ".Close")
	for k, fd := range funcs {
		if closeFn != "" && strings.HasPrefix(k, recv+".") && k != closeFn {
			closeSession = append(closeSession, k)
		}
		gets, deferPut := false, false
		ast.Inspect(fd.Body, func(n ast.Node) bool {
			if call, ok := n.(*ast.CallExpr); ok && poolCall(call, "Get") {
				gets = true
			}
			if ds, ok := n.(*ast.DeferStmt); ok && poolCall(ds.Call, "Put") {
				deferPut = true
			}
			return true
		})
		if gets && !deferPut && !strings.HasPrefix(k, "lStatePool.") {
			closeSession = append(closeSession, k)
		}
	}
	sort.Strings(closeSession)
	var closeRemoves []string
	for _, s := range sites {
		if s.fn == closeFn && s.removal {
			closeRemoves = append(closeRemoves, s.keys...)
		}
	}
	sort.Strings(closeRemoves)
	inClose := func(fn string) bool {
		for _, c := range closeSession {
			if c == fn {
				return true
			}
		}
		return false
	}
	has := func(l []string, s string) bool {
		for _, x := range l {
			if x == s {
				return true
			}
		}
		return false
	}
	type entry struct{ fn, key, removal string }
	var entries []entry
	for _, s := range sites {
		if s.removal {
			continue
		}
		for _, k := range s.keys {
			rem := "none"
			for _, t := range sites {
				if t.fn == s.fn && t.removal && has(t.keys, k) {
					if t.deferred {
						rem = "defer"
						break
					}
					rem = "plain"
				}
			}
			if rem != "defer" && inClose(s.fn) && has(closeRemoves, k) {
				rem = "close"
			}
			dup := false
			for _, e := range entries {
				if e.fn == s.fn && e.key == k {
					dup = true
				}
			}
			if !dup {
				entries = append(entries, entry{s.fn, k, rem})
			}
		}
	}
	sort.Slice(entries, func(i, j int) bool {
		if entries[i].fn != entries[j].fn {
			return entries[i].fn < entries[j].fn
		}
		return entries[i].key < entries[j].key
	})
	var sb strings.Builder
	sb.WriteString(header)
	sb.WriteString("(* (function, (global it sets on a pooled interpreter, how the global is removed again)) *)\n")
	sb.WriteString("Definition global_sets : list (string * (string * string)) :=\n  [")
	for i, e := range entries {
		if i > 0 {
			sb.WriteString(";\n   ")
		}
		fmt.Fprintf(&sb, "(%s, (%s, %s))", coqStr(e.fn), coqStr(e.key), coqStr(e.removal))
	}
	sb.WriteString("].\n\n")
	fmt.Fprintf(&sb, "(* the borrower that returns its interpreter in %s: its functions, and the globals that Close removes *)\n", closeFn)
	fmt.Fprintf(&sb, "Definition close_session_fns : list string := %s.\n", coqStrList(closeSession))
	fmt.Fprintf(&sb, "Definition close_removes : list string := %s.\n", coqStrList(closeRemoves))
	// every removal site: (function, (global, "defer" | "plain"))
	sb.WriteString("\n(* every luaSetRawGlobals(... name: lua.LNil ...) site: (function, (global, deferred or a plain statement)) *)\n")
	sb.WriteString("Definition global_removals : list (string * (string * string)) :=\n  [")
	first := true
	for _, t := range sites {
		if !t.removal {
			continue
		}
		kind := "plain"
		if t.deferred {
			kind = "defer"
		}
		ks := append([]string{}, t.keys...)
		sort.Strings(ks)
		for _, k := range ks {
			if !first {
				sb.WriteString(";\n   ")
			}
			first = false
			fmt.Fprintf(&sb, "(%s, (%s, %s))", coqStr(t.fn), coqStr(k), coqStr(kind))
		}
	}
	sb.WriteString("].\n\n")
	// the functions that RUN Lua code on a borrowed interpreter (PCall)
	var runners []string
	for k, fd := range funcs {
		if strings.HasPrefix(k, "lStatePool.") {
			continue
		}
		if callsMethodDeep(fd.Body, "PCall") {
			runners = append(runners, k)
		}
	}
	sort.Strings(runners)
	fmt.Fprintf(&sb, "(* functions that run Lua code on a borrowed interpreter (PCall) *)\nDefinition script_runners : list string := %s.\n", coqStrList(runners))
	fmt.Fprintf(&sb, "(* names the __newindex guard of the global table lets a script create (it must refuse every name) *)\nDefinition newindex_passthrough : list string := %s.\n", coqStrList(newindexPassthrough()))
	return sb.String()
}

// the __newindex handler installed on the global table in lStatePool.New: `lockNewGlobals := func(ls) int {
// ls.RaiseError(...); return 0 }`. Any statement before the RaiseError is a way past the guard: a switch /
// if on the name with string literals is recorded as a pass-through list, anything else is an unknown shape.
func newindexPassthrough() []string {
	fd := funcs["lStatePool.New"]
	if fd == nil {
		return nil
	}
	var lit *ast.FuncLit
	ast.Inspect(fd.Body, func(n ast.Node) bool {
		if as, ok := n.(*ast.AssignStmt); ok && len(as.Lhs) == 1 && len(as.Rhs) == 1 {
			if id, ok := as.Lhs[0].(*ast.Ident); ok && id.Name == "lockNewGlobals" {
				if fl, ok := as.Rhs[0].(*ast.FuncLit); ok {
					lit = fl
				}
			}
		}
		return true
	})
	if lit == nil {
		fail("lStatePool.New: the __newindex handler lockNewGlobals was not found")
		return nil
	}
	// it must be the function installed as __newindex of the metatable of the globals
	if !strings.Contains(exprText(fd.Body), `"__newindex" L NewFunction lockNewGlobals`) {
		fail("lStatePool.New: lockNewGlobals is not installed as __newindex")
	}
	var names []string
	raised := false
	for _, st := range lit.Body.List {
		switch x := st.(type) {
		case *ast.ExprStmt:
			if call, ok := x.X.(*ast.CallExpr); ok {
				if sel, ok := call.Fun.(*ast.SelectorExpr); ok && sel.Sel.Name == "RaiseError" {
					raised = true
					continue
				}
			}
			fail("lockNewGlobals %s: unknown statement", pos(st))
		case *ast.ReturnStmt:
			if !raised {
				fail("lockNewGlobals %s: returns before refusing", pos(st))
			}
		case *ast.SwitchStmt:
			if raised {
				continue
			}
			for _, cc := range x.Body.List {
				c := cc.(*ast.CaseClause)
				if c.List == nil {
					fail("lockNewGlobals %s: a default branch before the refusal", pos(c))
				}
				for _, e := range c.List {
					if s, ok := strLit(e); ok {
						names = append(names, s)
					} else {
						fail("lockNewGlobals %s: a case that is not a name literal", pos(e))
					}
				}
			}
		default:
			if !raised {
				fail("lockNewGlobals %s: a statement of unknown shape before the refusal", pos(st))
			}
		}
	}
	if !raised {
		fail("lockNewGlobals: no RaiseError")
	}
	sort.Strings(names)
	return names
}

// ---------- netServe reply blocks ----------

func genReplyFlush() string {
	fd := funcs["Server.netServe"]
	type site struct {
		where, guard string
		ok           bool
	}
	var sitesOut []site
	if fd == nil {
		fail("Server.netServe not found")
	} else {
		ast.Inspect(fd.Body, func(n ast.Node) bool {
			is, ok := n.(*ast.IfStmt)
			if !ok || strings.TrimSpace(exprText(is.Cond)) != "(>) len client out 0" {
				return true
			}
			// the socket write of client.out
			writes := 0
			ast.Inspect(is.Body, func(m ast.Node) bool {
				if call, ok := m.(*ast.CallExpr); ok {
					if sel, ok := call.Fun.(*ast.SelectorExpr); ok && sel.Sel.Name == "Write" && len(call.Args) == 1 &&
						strings.TrimSpace(exprText(call.Args[0])) == "client out" {
						writes++
					}
				}
				return true
			})
			if writes != 1 {
				fail("netServe %s: a reply block with %d socket writes of client.out", pos(is), writes)
				return true
			}
			// the statement of the block that flushes
			var flushIf *ast.IfStmt
			nflush := 0
			for _, st := range is.Body.List {
				if callsMethodDeep(st, "flushAOF") {
					nflush++
					if x, ok := st.(*ast.IfStmt); ok {
						flushIf = x
					}
				}
			}
			s := site{where: fmt.Sprintf("reply block %d", len(sitesOut)+1)}
			if nflush != 1 || flushIf == nil {
				s.guard = "(no single guarded flush)"
				fail("netServe %s: the reply block does not have exactly one `if ... { flush }` statement before the write (%d)", pos(is), nflush)
			} else {
				s.guard = strings.TrimSpace(exprText(flushIf.Cond))
				body := exprText(flushIf.Body)
				locked := strings.Contains(body, "s mu Lock") && strings.Contains(body, "s mu Unlock")
				// exactly `s.aofdirty.Load()`: the flag writeAOF sets, nothing per connection in front of it
				call, isCall := flushIf.Cond.(*ast.CallExpr)
				s.ok = isCall && s.guard == "s aofdirty Load" && len(call.Args) == 0 && locked && flushIf.Else == nil
			}
			sitesOut = append(sitesOut, s)
			return true
		})
	}
	if len(sitesOut) == 0 {
		fail("netServe: no reply block found")
	}
	// writeAOF raises the flag whenever it appends
	flagInWriteAOF := false
	if w := funcs["Server.writeAOF"]; w != nil {
		flagInWriteAOF = strings.Contains(exprText(w.Body), "s aofdirty Store true")
	}
	all := flagInWriteAOF
	var sb strings.Builder
	sb.WriteString(header)
	sb.WriteString("(* reply blocks of netServe: (where, the condition in front of the pre-reply flush, is it exactly the\n   server-wide flag with the flush under the exclusive lock) *)\n")
	sb.WriteString("Definition reply_sites : list (string * (string * bool)) :=\n  [")
	for i, s := range sitesOut {
		if i > 0 {
			sb.WriteString(";\n   ")
		}
		fmt.Fprintf(&sb, "(%s, (%s, %s))", coqStr(s.where), coqStr(s.guard), coqBool(s.ok))
		all = all && s.ok
	}
	sb.WriteString("].\n\n")
	fmt.Fprintf(&sb, "Definition flag_raised_in_writeaof : bool := %s.\n", coqBool(flagInWriteAOF))
	fmt.Fprintf(&sb, "(* every reply block flushes whenever ANY request has appended since the last flush *)\nDefinition reply_flush_on_global_flag : bool := %s.\n", coqBool(all && len(sitesOut) > 0))
	return sb.String()
}

func callsMethodDeep(n ast.Node, name string) bool {
	found := false
	ast.Inspect(n, func(m ast.Node) bool {
		if call, ok := m.(*ast.CallExpr); ok {
			if sel, ok := call.Fun.(*ast.SelectorExpr); ok && sel.Sel.Name == name {
				found = true
			}
		}
		return true
	})
	return found
}
