// Gen/PkgVars.v: package-level state of package server, and the pool discipline of its functions (C11).
//
// The lockset tables of Gen/Mutators.v (`singleton_types`, `shared_writes`) cover the state hanging off the
// Server value. State that lives in package-level variables is shared by every connection in the same way
// and is not reachable from a Server field; it is listed here:
//
//   pkg_vars         every package-level variable of package server (name, type)
//   pkg_var_writes   every statement outside init that writes such a variable, writes through it, calls a
//                    mutating method on it or takes its address: (variable, (function, (how, guard))) where
//                    guard = the package-level mutexes held around the statement, "sync" / "atomic" for values
//                    that synchronise themselves (sync.Pool, sync.Map, atomics), "" when there is none
//   pool_puts        every function that hands memory back to a sync.Pool (directly, or by calling a function
//                    of this package that does): (function, ((pool, deferred | inline), (is the memory a
//                    parameter of the function, the ways in which something that may still reference that
//                    memory leaves the function)))
//
// The last table is an escape analysis keyed on Put. What a Put gives away is the memory its argument points
// to; everything in the function that may refer to that memory or into it (taken out of it by a selector,
// index, slice, method call — `buf.Bytes()` —, wrapped into another value — `resp.BytesValue(b)` —, stored
// into a local structure) must stay in the function. Ways out: "return" (a returned value, also a named
// result), "store:<param>" (stored into memory the caller handed in, the receiver included), "store:global",
// "go" (a goroutine or a channel). A function whose Put argument IS one of its parameters is a wrapper
// (`exprPool.Put`); its callers are judged as if they called Put themselves.
// Values of basic types, strings (immutable, `buf.String()` copies) and `error`s carry no reference.
// Calls into other packages are assumed to keep their arguments only in their result or in their receiver;
// calls inside the package use summaries (returns / retains / puts per parameter) iterated to a fixpoint.
// coq/Model/PoolAlias.v states what the tables must satisfy; Proofs/PoolAliasProofs.v proves it for the
// generated tables, so a reply built in a recycled buffer that is still referenced after the Put breaks
// the proof (c11_no_reply_aliases_pooled_memory).
package main

import (
	"fmt"
	"go/ast"
	"go/token"
	"go/types"
	"sort"
	"strings"
)

// ---------- package-level variables ----------

func pvIsPkgVar(obj types.Object) bool {
	v, ok := obj.(*types.Var)
	return ok && !v.IsField() && v.Parent() == pkg.Types.Scope()
}

func pvObj(id *ast.Ident) types.Object {
	if o := info.Uses[id]; o != nil {
		return o
	}
	return info.Defs[id]
}

// root of a selector / index / slice / deref / address / assertion chain; plain = the expression is the identifier itself
func pvRoot(e ast.Expr) (id *ast.Ident, plain bool) {
	plain = true
	for {
		switch x := e.(type) {
		case *ast.Ident:
			return x, plain
		case *ast.ParenExpr:
			e = x.X
		case *ast.SelectorExpr:
			if s, ok := info.Selections[x]; !ok || s.Kind() != types.FieldVal {
				return nil, false // package-qualified name or method value
			}
			plain = false
			e = x.X
		case *ast.IndexExpr:
			plain = false
			e = x.X
		case *ast.SliceExpr:
			plain = false
			e = x.X
		case *ast.StarExpr:
			plain = false
			e = x.X
		case *ast.TypeAssertExpr:
			plain = false
			e = x.X
		case *ast.UnaryExpr:
			if x.Op != token.AND {
				return nil, false
			}
			plain = false
			e = x.X
		default:
			return nil, false
		}
	}
}

func pvTypeStr(t types.Type) string {
	return types.TypeString(t, func(p *types.Package) string {
		if p == pkg.Types {
			return ""
		}
		return p.Name()
	})
}

func pvSyncKind(t types.Type) (pkgPath, name string) {
	if p, ok := t.(*types.Pointer); ok {
		t = p.Elem()
	}
	if n, ok := t.(*types.Named); ok && n.Obj().Pkg() != nil {
		return n.Obj().Pkg().Path(), n.Obj().Name()
	}
	return "", ""
}

type pvWrite struct{ v, fn, how, guard, site string }

// pvPoolMutators: sync.Pool / sync.Map methods that change the container (Pool.Get removes an element)
var pvSyncMutators = map[string]bool{"Store": true, "Delete": true, "LoadOrStore": true, "LoadAndDelete": true, "Swap": true,
	"CompareAndSwap": true, "CompareAndDelete": true, "Clear": true, "Put": true, "Get": true}

type pvWalker struct {
	fn        string
	held      []string
	writes    *[]pvWrite
	atomicArg map[ast.Node]bool // &v that is the first argument of a sync/atomic function
}

func (w *pvWalker) guard() string {
	h := append([]string{}, w.held...)
	sort.Strings(h)
	return strings.Join(h, "+")
}

func (w *pvWalker) add(v, how, guard string, n ast.Node) {
	*w.writes = append(*w.writes, pvWrite{v, w.fn, how, guard, pos(n)})
}

// package-level mutex call: M.Lock() / M.RLock() / M.Unlock() / M.RUnlock() with M a package-level variable
func pvMutexCall(call *ast.CallExpr) (name, method string) {
	sel, ok := call.Fun.(*ast.SelectorExpr)
	if !ok {
		return "", ""
	}
	id, ok := sel.X.(*ast.Ident)
	if !ok || !pvIsPkgVar(pvObj(id)) {
		return "", ""
	}
	if pp, n := pvSyncKind(pvObj(id).Type()); pp != "sync" || (n != "Mutex" && n != "RWMutex") {
		return "", ""
	}
	return id.Name, sel.Sel.Name
}

func pvTerminates(b *ast.BlockStmt) bool {
	if b == nil || len(b.List) == 0 {
		return false
	}
	switch s := b.List[len(b.List)-1].(type) {
	case *ast.ReturnStmt:
		return true
	case *ast.BranchStmt:
		return s.Tok == token.CONTINUE || s.Tok == token.BREAK || s.Tok == token.GOTO
	case *ast.ExprStmt:
		if c, ok := s.X.(*ast.CallExpr); ok {
			if id, ok := c.Fun.(*ast.Ident); ok && id.Name == "panic" {
				return true
			}
		}
	}
	return false
}

func pvIntersect(a, b []string) []string {
	var out []string
	for _, x := range a {
		for _, y := range b {
			if x == y {
				out = append(out, x)
				break
			}
		}
	}
	return out
}

// exprs: record the writes found in an expression (calls, address-of, function literals)
func (w *pvWalker) exprs(n ast.Node) {
	if n == nil {
		return
	}
	ast.Inspect(n, func(m ast.Node) bool {
		switch x := m.(type) {
		case *ast.FuncLit:
			// a closure runs later (goroutine, callback): nothing of the enclosing lock state is known to hold
			sub := &pvWalker{fn: w.fn, writes: w.writes}
			sub.block(x.Body)
			return false
		case *ast.UnaryExpr:
			if x.Op == token.AND {
				if id, _ := pvRoot(x.X); id != nil && pvIsPkgVar(pvObj(id)) && !w.atomicArg[x] {
					w.add(id.Name, "addr", w.guard(), x)
				}
			}
		case *ast.CallExpr:
			if id, ok := x.Fun.(*ast.Ident); ok {
				if b, ok := info.Uses[id].(*types.Builtin); ok && len(x.Args) > 0 {
					switch b.Name() {
					case "delete", "clear", "copy":
						if r, _ := pvRoot(x.Args[0]); r != nil && pvIsPkgVar(pvObj(r)) {
							w.add(r.Name, b.Name(), w.guard(), x)
						}
					}
				}
				return true
			}
			sel, ok := x.Fun.(*ast.SelectorExpr)
			if !ok {
				return true
			}
			// atomic.AddUint32(&v, 1) and friends: the address goes to sync/atomic only
			if fn, ok := info.Uses[sel.Sel].(*types.Func); ok && fn.Pkg() != nil && fn.Pkg().Path() == "sync/atomic" && len(x.Args) > 0 {
				if u, ok := x.Args[0].(*ast.UnaryExpr); ok && u.Op == token.AND {
					if id, _ := pvRoot(u.X); id != nil && pvIsPkgVar(pvObj(id)) {
						if w.atomicArg == nil {
							w.atomicArg = map[ast.Node]bool{}
						}
						w.atomicArg[u] = true
						if !strings.HasPrefix(fn.Name(), "Load") {
							w.add(id.Name, "atomic."+fn.Name(), "atomic", x)
						}
					}
				}
				return true
			}
			if s, isMethod := info.Selections[sel]; !isMethod || s.Kind() != types.MethodVal {
				return true
			}
			r, _ := pvRoot(sel.X)
			if r == nil || !pvIsPkgVar(pvObj(r)) {
				return true
			}
			pp, tn := pvSyncKind(info.TypeOf(sel.X))
			switch {
			case pp == "sync" && (tn == "Pool" || tn == "Map"):
				if pvSyncMutators[sel.Sel.Name] {
					w.add(r.Name, "sync."+tn+"."+sel.Sel.Name, "sync", x)
				}
			case pp == "sync":
				// Mutex / RWMutex / Once / WaitGroup / Cond: synchronisers, not data
			case pp == "sync/atomic" || pp == "go.uber.org/atomic":
				if atomicSetters[sel.Sel.Name] {
					w.add(r.Name, "atomic."+sel.Sel.Name, "atomic", x)
				}
			default:
				if mutatingMethods[sel.Sel.Name] {
					w.add(r.Name, "call:"+sel.Sel.Name, w.guard(), x)
				}
			}
		}
		return true
	})
}

func (w *pvWalker) lhs(e ast.Expr, n ast.Node) {
	if id, _ := pvRoot(e); id != nil && pvIsPkgVar(pvObj(id)) {
		how := "assign"
		if _, plain := pvRoot(e); !plain {
			how = "assign-through"
		}
		w.add(id.Name, how, w.guard(), n)
	}
}

func (w *pvWalker) branch(b *ast.BlockStmt) (after []string, terminates bool) {
	saved := append([]string{}, w.held...)
	w.block(b)
	after = w.held
	w.held = saved
	return after, pvTerminates(b)
}

func (w *pvWalker) block(b *ast.BlockStmt) {
	if b == nil {
		return
	}
	for _, st := range b.List {
		w.stmt(st)
	}
}

func (w *pvWalker) stmt(st ast.Stmt) {
	switch s := st.(type) {
	case nil:
	case *ast.BlockStmt:
		w.block(s)
	case *ast.ExprStmt:
		if call, ok := s.X.(*ast.CallExpr); ok {
			if m, meth := pvMutexCall(call); m != "" {
				switch meth {
				case "Lock", "RLock":
					w.held = append(w.held, m)
				case "Unlock", "RUnlock":
					w.held = removeStr(w.held, m)
				}
				return
			}
		}
		w.exprs(s.X)
	case *ast.DeferStmt:
		if m, _ := pvMutexCall(s.Call); m != "" {
			return // deferred unlock: held to the end of the function
		}
		w.exprs(s.Call)
	case *ast.GoStmt:
		w.exprs(s.Call)
	case *ast.AssignStmt:
		for _, r := range s.Rhs {
			w.exprs(r)
		}
		for _, l := range s.Lhs {
			w.exprs(l)
			if s.Tok != token.DEFINE {
				w.lhs(l, s)
			}
		}
	case *ast.IncDecStmt:
		w.lhs(s.X, s)
	case *ast.SendStmt:
		w.exprs(s.Chan)
		w.exprs(s.Value)
	case *ast.ReturnStmt:
		for _, r := range s.Results {
			w.exprs(r)
		}
	case *ast.DeclStmt:
		w.exprs(s.Decl)
	case *ast.LabeledStmt:
		w.stmt(s.Stmt)
	case *ast.IfStmt:
		w.stmt(s.Init)
		w.exprs(s.Cond)
		before := append([]string{}, w.held...)
		a1, t1 := w.branch(s.Body)
		a2, t2 := before, false
		if s.Else != nil {
			saved := append([]string{}, w.held...)
			w.stmt(s.Else)
			a2 = w.held
			w.held = saved
			if eb, ok := s.Else.(*ast.BlockStmt); ok {
				t2 = pvTerminates(eb)
			}
		}
		switch {
		case t1 && t2:
			w.held = before
		case t1:
			w.held = a2
		case t2:
			w.held = a1
		default:
			w.held = pvIntersect(a1, a2)
		}
	case *ast.ForStmt:
		w.stmt(s.Init)
		w.exprs(s.Cond)
		w.stmt(s.Post)
		a, _ := w.branch(s.Body)
		w.held = pvIntersect(w.held, a)
	case *ast.RangeStmt:
		w.exprs(s.X)
		if s.Tok == token.ASSIGN {
			if s.Key != nil {
				w.lhs(s.Key, s)
			}
			if s.Value != nil {
				w.lhs(s.Value, s)
			}
		}
		a, _ := w.branch(s.Body)
		w.held = pvIntersect(w.held, a)
	case *ast.SwitchStmt:
		w.stmt(s.Init)
		w.exprs(s.Tag)
		w.clauses(s.Body)
	case *ast.TypeSwitchStmt:
		w.stmt(s.Init)
		w.stmt(s.Assign)
		w.clauses(s.Body)
	case *ast.SelectStmt:
		w.clauses(s.Body)
	case *ast.BranchStmt, *ast.EmptyStmt:
	default:
		fail("pkgvars: %s %s: statement of an unknown kind %T", w.fn, pos(st), st)
	}
}

func (w *pvWalker) clauses(b *ast.BlockStmt) {
	held := append([]string{}, w.held...)
	out := held
	for _, c := range b.List {
		w.held = append([]string{}, held...)
		var body []ast.Stmt
		switch cc := c.(type) {
		case *ast.CaseClause:
			for _, e := range cc.List {
				w.exprs(e)
			}
			body = cc.Body
		case *ast.CommClause:
			w.stmt(cc.Comm)
			body = cc.Body
		}
		blk := &ast.BlockStmt{List: body}
		w.block(blk)
		if !pvTerminates(blk) {
			out = pvIntersect(out, w.held)
		}
	}
	w.held = out
}

// ---------- pool discipline: what may still reference memory that was handed back to a pool ----------

var pvRefMemo = map[types.Type]int{} // 1 no, 2 yes, 3 in progress

// pvRefCarrying: can a value of type t hold a reference to mutable memory (strings and errors: no)
func pvRefCarrying(t types.Type) bool {
	if t == nil {
		return false
	}
	if t == types.Universe.Lookup("error").Type() {
		return false
	}
	switch pvRefMemo[t] {
	case 1:
		return false
	case 2:
		return true
	case 3:
		return false // recursion through a pointer is decided by the pointer itself
	}
	pvRefMemo[t] = 3
	r := false
	switch u := t.Underlying().(type) {
	case *types.Basic:
		r = u.Kind() == types.UnsafePointer
	case *types.Pointer, *types.Slice, *types.Map, *types.Chan, *types.Signature, *types.Interface:
		r = true
	case *types.Struct:
		for i := 0; i < u.NumFields(); i++ {
			if pvRefCarrying(u.Field(i).Type()) {
				r = true
				break
			}
		}
	case *types.Array:
		r = pvRefCarrying(u.Elem())
	case *types.Tuple:
		for i := 0; i < u.Len(); i++ {
			if pvRefCarrying(u.At(i).Type()) {
				r = true
			}
		}
	default:
		r = true
	}
	if r {
		pvRefMemo[t] = 2
	} else {
		pvRefMemo[t] = 1
	}
	return r
}

// nodes of the per-function graph: local variables (parameters and named results included) and three sinks
type pvNode struct {
	obj  types.Object // nil for the sinks
	sink string       // "RESULT" | "GLOBAL" | "GO"
}

type pvRef struct {
	n     pvNode
	alias bool // the value IS (part of) n's memory; otherwise it only holds a reference to it
}

type pvSummary struct {
	retAlias map[int]bool         // the result may be (part of) parameter i's memory
	retHolds map[int]bool         // the result may hold a reference into parameter i's memory
	keepIn   map[int]map[int]bool // parameter j's memory may end up holding a reference into parameter i's: keepIn[i][j]
	keepOut  map[int]bool         // parameter i's memory may be referenced from a global / goroutine / channel afterwards
	puts     map[int]string       // parameter i's memory is handed back to this pool
}

func (s *pvSummary) size() int {
	n := len(s.retAlias) + len(s.retHolds) + len(s.keepOut) + len(s.puts)
	for _, m := range s.keepIn {
		n += len(m)
	}
	return n
}

var pvSum = map[string]*pvSummary{}

type pvPut struct {
	pool     string
	deferred bool
	args     []pvRef
	site     string
}

type pvGraph struct {
	key    string
	fd     *ast.FuncDecl
	params []types.Object // receiver first
	local  map[types.Object]bool
	alias  map[pvNode]map[pvNode]bool // symmetric
	holds  map[pvNode]map[pvNode]bool // holds[a][b]: a may hold a reference into b's memory
	puts   []pvPut
}

var (
	pvResult = pvNode{sink: "RESULT"}
	pvGlobal = pvNode{sink: "GLOBAL"}
	pvGo     = pvNode{sink: "GO"}
)

func (g *pvGraph) edge(m map[pvNode]map[pvNode]bool, a, b pvNode) {
	if m[a] == nil {
		m[a] = map[pvNode]bool{}
	}
	m[a][b] = true
}

// flow: the value described by refs is assigned to (plain) / stored into (not plain) node dst
func (g *pvGraph) flow(dst pvNode, plain bool, refs []pvRef) {
	for _, r := range refs {
		if r.n == dst {
			continue
		}
		if plain && r.alias {
			g.edge(g.alias, dst, r.n)
			g.edge(g.alias, r.n, dst)
		} else {
			g.edge(g.holds, dst, r.n)
		}
	}
}

func (g *pvGraph) nodeOf(id *ast.Ident) (pvNode, bool) {
	obj := pvObj(id)
	if obj == nil {
		return pvNode{}, false
	}
	if pvIsPkgVar(obj) {
		return pvGlobal, true
	}
	if _, ok := obj.(*types.Var); ok && g.local[obj] {
		return pvNode{obj: obj}, true
	}
	return pvNode{}, false
}

// sync.Pool method call?
func pvPoolCall(call *ast.CallExpr, method string) (string, bool) {
	sel, ok := call.Fun.(*ast.SelectorExpr)
	if !ok || sel.Sel.Name != method {
		return "", false
	}
	if pp, n := pvSyncKind(info.TypeOf(sel.X)); pp != "sync" || n != "Pool" {
		return "", false
	}
	return pvPoolName(sel.X), true
}

// name of a pool expression: the package-level variable, or Type.field for a field
func pvPoolName(e ast.Expr) string {
	switch x := e.(type) {
	case *ast.ParenExpr:
		return pvPoolName(x.X)
	case *ast.StarExpr:
		return pvPoolName(x.X)
	case *ast.UnaryExpr:
		return pvPoolName(x.X)
	case *ast.Ident:
		return x.Name
	case *ast.SelectorExpr:
		if s, ok := info.Selections[x]; ok && s.Kind() == types.FieldVal {
			return namedOf(s.Recv()) + "." + x.Sel.Name
		}
		return x.Sel.Name
	}
	return "?"
}

func pvDowngrade(refs []pvRef) []pvRef {
	out := make([]pvRef, len(refs))
	for i, r := range refs {
		out[i] = pvRef{r.n, false}
	}
	return out
}

// argument expressions of a call in the callee's parameter numbering (receiver = 0 for methods)
func pvCallArgs(call *ast.CallExpr, sig *types.Signature) (args []ast.Expr, index []int) {
	shift := 0
	if sig.Recv() != nil {
		if sel, ok := call.Fun.(*ast.SelectorExpr); ok {
			args, index = append(args, sel.X), append(index, 0)
		}
		shift = 1
	}
	np := sig.Params().Len()
	for i, a := range call.Args {
		k := i
		if k >= np {
			k = np - 1
		}
		args, index = append(args, a), append(index, k+shift)
	}
	return
}

// refs: what the value of e may reference. Side effects of calls inside e are recorded by g.calls.
func (g *pvGraph) refs(e ast.Expr) []pvRef {
	if e == nil {
		return nil
	}
	if tv, ok := info.Types[e]; ok {
		if tv.IsType() || !pvRefCarrying(tv.Type) {
			return nil
		}
	}
	switch x := e.(type) {
	case *ast.Ident:
		if n, ok := g.nodeOf(x); ok && n != pvGlobal {
			return []pvRef{{n, true}}
		}
		return nil
	case *ast.ParenExpr:
		return g.refs(x.X)
	case *ast.SelectorExpr:
		if s, ok := info.Selections[x]; ok && s.Kind() == types.FieldVal {
			return g.sub(x.X)
		}
		if _, ok := info.Selections[x]; ok {
			return pvDowngrade(g.sub(x.X)) // method value: closes over the receiver
		}
		return nil // package-qualified name
	case *ast.IndexExpr:
		return g.sub(x.X)
	case *ast.SliceExpr:
		return g.sub(x.X)
	case *ast.StarExpr:
		return g.sub(x.X)
	case *ast.TypeAssertExpr:
		return g.sub(x.X)
	case *ast.UnaryExpr:
		if x.Op == token.AND {
			return g.sub(x.X)
		}
		return pvDowngrade(g.sub(x.X))
	case *ast.BinaryExpr:
		return pvDowngrade(append(g.sub(x.X), g.sub(x.Y)...))
	case *ast.KeyValueExpr:
		return g.refs(x.Value)
	case *ast.CompositeLit:
		var out []pvRef
		for _, el := range x.Elts {
			out = append(out, pvDowngrade(g.refs(el))...)
		}
		return out
	case *ast.FuncLit:
		var out []pvRef
		ast.Inspect(x.Body, func(n ast.Node) bool {
			if id, ok := n.(*ast.Ident); ok {
				if nd, ok := g.nodeOf(id); ok && nd != pvGlobal && pvRefCarrying(nd.obj.Type()) && !(nd.obj.Pos() >= x.Pos() && nd.obj.Pos() < x.End()) {
					out = append(out, pvRef{nd, false})
				}
			}
			return true
		})
		return out
	case *ast.CallExpr:
		return g.callRefs(x)
	}
	return nil
}

// sub: references of a sub-expression regardless of its own type (a value taken out of a structure)
func (g *pvGraph) sub(e ast.Expr) []pvRef {
	switch x := e.(type) {
	case *ast.Ident:
		if n, ok := g.nodeOf(x); ok && n != pvGlobal {
			return []pvRef{{n, true}}
		}
		return nil
	case *ast.ParenExpr:
		return g.sub(x.X)
	case *ast.SelectorExpr:
		if s, ok := info.Selections[x]; ok && s.Kind() == types.FieldVal {
			return g.sub(x.X)
		}
	case *ast.IndexExpr:
		return g.sub(x.X)
	case *ast.SliceExpr:
		return g.sub(x.X)
	case *ast.StarExpr:
		return g.sub(x.X)
	case *ast.TypeAssertExpr:
		return g.sub(x.X)
	case *ast.UnaryExpr:
		if x.Op == token.AND {
			return g.sub(x.X)
		}
	}
	return g.refs(e)
}

func (g *pvGraph) callRefs(call *ast.CallExpr) []pvRef {
	// conversion
	if tv, ok := info.Types[call.Fun]; ok && tv.IsType() {
		if len(call.Args) == 1 {
			return g.refs(call.Args[0])
		}
		return nil
	}
	if id, ok := call.Fun.(*ast.Ident); ok {
		if b, ok := info.Uses[id].(*types.Builtin); ok {
			switch b.Name() {
			case "append":
				var out []pvRef
				// the result is the first argument's memory (or a copy of it); the appended elements are copied,
				// so they matter only when they hold references themselves (refs decides that by their type
				// for single elements; for `s...` by the element type)
				for i, a := range call.Args {
					if i == 0 {
						out = append(out, g.refs(a)...)
						continue
					}
					if i == len(call.Args)-1 && call.Ellipsis.IsValid() {
						if t := info.TypeOf(a); t != nil {
							if sl, ok := t.Underlying().(*types.Slice); ok && !pvRefCarrying(sl.Elem()) {
								continue
							}
							if b, ok := t.Underlying().(*types.Basic); ok && b.Info()&types.IsString != 0 {
								continue
							}
						}
					}
					out = append(out, pvDowngrade(g.refs(a))...)
				}
				return out
			case "new", "make", "len", "cap", "copy", "delete", "clear", "panic", "print", "println", "real", "imag", "complex":
				return nil
			case "min", "max", "recover":
				return nil
			default:
				fail("pkgvars: %s %s: builtin %s is not known to the escape analysis", g.key, pos(call), b.Name())
				return nil
			}
		}
	}
	if _, ok := pvPoolCall(call, "Get"); ok {
		return nil // what a pool hands out is not part of anything the caller already holds
	}
	if key := calleeKey(call); key != "" && funcs[key] != nil {
		sum := pvSum[key]
		var out []pvRef
		if sum == nil {
			return nil
		}
		fn := pvCalleeFunc(call)
		args, index := pvCallArgs(call, fn.Type().(*types.Signature))
		for k, a := range args {
			switch {
			case sum.retAlias[index[k]]:
				out = append(out, g.sub(a)...)
			case sum.retHolds[index[k]]:
				out = append(out, pvDowngrade(g.sub(a))...)
			}
		}
		return out
	}
	// another package, an interface method or a function value: the result may be taken out of the receiver
	// (`buf.Bytes()`) or wrap an argument (`resp.BytesValue(b)`)
	var out []pvRef
	if sel, ok := call.Fun.(*ast.SelectorExpr); ok {
		if s, ok := info.Selections[sel]; ok && s.Kind() == types.MethodVal {
			out = append(out, g.sub(sel.X)...)
		}
	} else if _, isLit := call.Fun.(*ast.FuncLit); !isLit {
		out = append(out, pvDowngrade(g.refs(call.Fun))...)
	}
	for _, a := range call.Args {
		out = append(out, g.refs(a)...)
	}
	return out
}

func pvCalleeFunc(call *ast.CallExpr) *types.Func {
	var obj types.Object
	switch f := call.Fun.(type) {
	case *ast.Ident:
		obj = info.Uses[f]
	case *ast.SelectorExpr:
		obj = info.Uses[f.Sel]
	}
	fn, _ := obj.(*types.Func)
	return fn
}

// calls: side effects of one call (what the callee may store where, what it hands back to a pool)
func (g *pvGraph) calls(call *ast.CallExpr, deferred, spawned bool) {
	if spawned {
		for _, a := range call.Args {
			g.flow(pvGo, false, g.refs(a))
		}
		if sel, ok := call.Fun.(*ast.SelectorExpr); ok {
			g.flow(pvGo, false, g.sub(sel.X))
		}
		g.flow(pvGo, false, g.refs(call.Fun))
	}
	if pool, ok := pvPoolCall(call, "Put"); ok && len(call.Args) == 1 {
		g.puts = append(g.puts, pvPut{pool, deferred, g.sub(call.Args[0]), pos(call)})
		return
	}
	if tv, ok := info.Types[call.Fun]; ok && tv.IsType() {
		return
	}
	if id, ok := call.Fun.(*ast.Ident); ok {
		if _, ok := info.Uses[id].(*types.Builtin); ok {
			return
		}
	}
	if key := calleeKey(call); key != "" && funcs[key] != nil {
		sum := pvSum[key]
		if sum == nil {
			return
		}
		fn := pvCalleeFunc(call)
		args, index := pvCallArgs(call, fn.Type().(*types.Signature))
		for k, a := range args {
			i := index[k]
			if pool, ok := sum.puts[i]; ok {
				g.puts = append(g.puts, pvPut{pool, deferred, g.sub(a), pos(call)})
			}
			if sum.keepOut[i] {
				g.flow(pvGlobal, false, g.sub(a))
			}
			for j := range sum.keepIn[i] {
				for k2, b := range args {
					if index[k2] == j && k2 != k {
						g.storeInto(b, g.sub(a))
					}
				}
			}
		}
		return
	}
	// another package / interface / function value: a method may keep its arguments in its receiver
	if sel, ok := call.Fun.(*ast.SelectorExpr); ok {
		if s, ok := info.Selections[sel]; ok && s.Kind() == types.MethodVal {
			for _, a := range call.Args {
				g.storeInto(sel.X, g.refs(a))
			}
		}
	}
}

// storeInto: refs are stored into the memory designated by e
func (g *pvGraph) storeInto(e ast.Expr, refs []pvRef) {
	if len(refs) == 0 {
		return
	}
	id, _ := pvRoot(e)
	if id == nil {
		// a call result or something else without a name: memory of whatever the expression was made from;
		// when nothing local went into it, it may be anything
		into := g.sub(e)
		for _, r := range into {
			g.flow(r.n, false, refs)
		}
		if len(into) == 0 {
			g.flow(pvGlobal, false, refs)
		}
		return
	}
	if n, ok := g.nodeOf(id); ok {
		g.flow(n, false, refs)
	}
}

func (g *pvGraph) assign(lhs ast.Expr, refs []pvRef) {
	if len(refs) == 0 {
		return
	}
	if id, ok := lhs.(*ast.Ident); ok {
		if id.Name == "_" {
			return
		}
		if n, ok := g.nodeOf(id); ok {
			g.flow(n, n != pvGlobal, refs)
		}
		return
	}
	g.storeInto(lhs, refs)
}

func (g *pvGraph) build() {
	fd := g.fd
	g.alias, g.holds, g.puts = map[pvNode]map[pvNode]bool{}, map[pvNode]map[pvNode]bool{}, nil
	// named results are the result
	if fd.Type.Results != nil {
		for _, f := range fd.Type.Results.List {
			for _, nm := range f.Names {
				if obj := info.Defs[nm]; obj != nil && pvRefCarrying(obj.Type()) {
					g.flow(pvResult, true, []pvRef{{pvNode{obj: obj}, true}})
				}
			}
		}
	}
	var walk func(n ast.Node, deferred bool)
	walk = func(n ast.Node, deferred bool) {
		ast.Inspect(n, func(m ast.Node) bool {
			switch x := m.(type) {
			case *ast.DeferStmt:
				g.calls(x.Call, true, false)
				for _, a := range x.Call.Args {
					walk(a, deferred)
				}
				if fl, ok := x.Call.Fun.(*ast.FuncLit); ok {
					walk(fl.Body, true)
				} else {
					walk(x.Call.Fun, deferred)
				}
				return false
			case *ast.GoStmt:
				g.calls(x.Call, deferred, true)
				for _, a := range x.Call.Args {
					walk(a, deferred)
				}
				walk(x.Call.Fun, deferred)
				return false
			case *ast.CallExpr:
				g.calls(x, deferred, false)
			case *ast.AssignStmt:
				if len(x.Lhs) == len(x.Rhs) {
					for i := range x.Lhs {
						g.assign(x.Lhs[i], g.refs(x.Rhs[i]))
					}
				} else if len(x.Rhs) == 1 {
					r := g.refs(x.Rhs[0])
					if _, isCall := x.Rhs[0].(*ast.CallExpr); !isCall {
						r = g.sub(x.Rhs[0]) // v, ok := m[k] / x.(T) / <-ch
					}
					for _, l := range x.Lhs {
						if t := info.TypeOf(l); t != nil && !pvRefCarrying(t) {
							continue
						}
						g.assign(l, r)
					}
				}
			case *ast.ValueSpec:
				if len(x.Names) == len(x.Values) {
					for i := range x.Names {
						g.assign(x.Names[i], g.refs(x.Values[i]))
					}
				} else if len(x.Values) == 1 {
					for _, nm := range x.Names {
						g.assign(nm, g.refs(x.Values[0]))
					}
				}
			case *ast.RangeStmt:
				r := g.sub(x.X)
				for _, l := range []ast.Expr{x.Key, x.Value} {
					if l != nil {
						if t := info.TypeOf(l); t != nil && pvRefCarrying(t) {
							g.assign(l, r)
						}
					}
				}
			case *ast.SendStmt:
				g.flow(pvGo, false, g.refs(x.Value))
			case *ast.ReturnStmt:
				// (a return inside a function literal is counted as a return of the function as well: the
				// literal's caller is unknown)
				for _, r := range x.Results {
					g.flow(pvResult, true, g.refs(r))
				}
			}
			return true
		})
	}
	walk(fd.Body, false)
}

// closure of start under alias edges
func (g *pvGraph) aliasClosure(start []pvNode) map[pvNode]bool {
	seen := map[pvNode]bool{}
	work := append([]pvNode{}, start...)
	for len(work) > 0 {
		n := work[len(work)-1]
		work = work[:len(work)-1]
		if seen[n] {
			continue
		}
		seen[n] = true
		for m := range g.alias[n] {
			work = append(work, m)
		}
	}
	return seen
}

// everything that may hold a reference into the memory of a node of set (set included)
func (g *pvGraph) holders(set map[pvNode]bool) map[pvNode]bool {
	out := map[pvNode]bool{}
	for n := range set {
		out[n] = true
	}
	for changed := true; changed; {
		changed = false
		for a, bs := range g.holds {
			if out[a] {
				continue
			}
			for b := range bs {
				if out[b] {
					out[a] = true
					changed = true
					break
				}
			}
		}
		for a, bs := range g.alias {
			if out[a] {
				continue
			}
			for b := range bs {
				if out[b] {
					out[a] = true
					changed = true
					break
				}
			}
		}
	}
	return out
}

func (g *pvGraph) paramIndex(obj types.Object) int {
	for i, p := range g.params {
		if p == obj {
			return i
		}
	}
	return -1
}

func pvNewGraph(key string, fd *ast.FuncDecl) *pvGraph {
	g := &pvGraph{key: key, fd: fd, local: map[types.Object]bool{}}
	add := func(fl *ast.FieldList, isParam bool) {
		if fl == nil {
			return
		}
		for _, f := range fl.List {
			if len(f.Names) == 0 && isParam {
				g.params = append(g.params, nil) // unnamed: cannot be used in the body
			}
			for _, nm := range f.Names {
				obj := info.Defs[nm]
				if isParam {
					g.params = append(g.params, obj)
				}
				if obj != nil {
					g.local[obj] = true
				}
			}
		}
	}
	add(fd.Recv, true)
	add(fd.Type.Params, true)
	add(fd.Type.Results, false)
	ast.Inspect(fd.Body, func(n ast.Node) bool {
		if id, ok := n.(*ast.Ident); ok {
			if obj := info.Defs[id]; obj != nil {
				if _, isVar := obj.(*types.Var); isVar {
					g.local[obj] = true
				}
			}
		}
		return true
	})
	return g
}

type pvPutRow struct {
	fn, pool, mode string
	wrapper        bool
	escapes        []string
}

func (g *pvGraph) summarise() (*pvSummary, []pvPutRow) {
	sum := &pvSummary{retAlias: map[int]bool{}, retHolds: map[int]bool{}, keepIn: map[int]map[int]bool{}, keepOut: map[int]bool{}, puts: map[int]string{}}
	for i, p := range g.params {
		if p == nil || !pvRefCarrying(p.Type()) {
			continue
		}
		a := g.aliasClosure([]pvNode{{obj: p}})
		h := g.holders(a)
		if a[pvResult] {
			sum.retAlias[i] = true
		}
		if h[pvResult] {
			sum.retHolds[i] = true
		}
		if h[pvGlobal] || h[pvGo] {
			sum.keepOut[i] = true
		}
		for n := range h {
			if n.obj == nil || a[n] {
				continue
			}
			if j := g.paramIndex(n.obj); j >= 0 && j != i {
				if sum.keepIn[i] == nil {
					sum.keepIn[i] = map[int]bool{}
				}
				sum.keepIn[i][j] = true
			}
		}
	}
	var rows []pvPutRow
	for _, p := range g.puts {
		var start []pvNode
		for _, r := range p.args {
			start = append(start, r.n)
		}
		a := g.aliasClosure(start)
		h := g.holders(a)
		row := pvPutRow{fn: g.key, pool: p.pool, mode: "inline"}
		if p.deferred {
			row.mode = "deferred"
		}
		esc := map[string]bool{}
		for n := range h {
			switch {
			case n == pvResult:
				esc["return"] = true
			case n == pvGlobal:
				esc["store:global"] = true
			case n == pvGo:
				esc["go"] = true
			case n.obj != nil:
				if i := g.paramIndex(n.obj); i >= 0 {
					if a[n] {
						row.wrapper = true
						sum.puts[i] = p.pool
					} else if pvRefCarrying(n.obj.Type()) {
						esc["store:"+n.obj.Name()] = true
					}
				}
			}
		}
		if row.wrapper {
			// the memory belongs to the caller: that it is also the result / the parameter is not an escape of
			// this function; the caller is judged with the summary
			delete(esc, "return")
		}
		for e := range esc {
			row.escapes = append(row.escapes, e)
		}
		sort.Strings(row.escapes)
		rows = append(rows, row)
	}
	return sum, rows
}

func genPkgVars() string {
	// --- variables and their writes
	type pv struct{ name, typ string }
	var vars []pv
	scope := pkg.Types.Scope()
	for _, n := range scope.Names() {
		if v, ok := scope.Lookup(n).(*types.Var); ok {
			vars = append(vars, pv{n, pvTypeStr(v.Type())})
		}
	}
	keys := []string{}
	for k := range funcs {
		keys = append(keys, k)
	}
	sort.Strings(keys)
	var writes []pvWrite
	for _, key := range keys {
		if key == "init" {
			continue
		}
		w := &pvWalker{fn: key, writes: &writes}
		w.block(funcs[key].Body)
	}
	sort.SliceStable(writes, func(i, j int) bool {
		a, b := writes[i], writes[j]
		if a.v != b.v {
			return a.v < b.v
		}
		if a.fn != b.fn {
			return a.fn < b.fn
		}
		return a.site < b.site
	})
	// --- pool discipline: summaries to a fixpoint, then the rows
	graphs := map[string]*pvGraph{}
	for _, key := range keys {
		graphs[key] = pvNewGraph(key, funcs[key])
		pvSum[key] = &pvSummary{retAlias: map[int]bool{}, retHolds: map[int]bool{}, keepIn: map[int]map[int]bool{}, keepOut: map[int]bool{}, puts: map[int]string{}}
	}
	var rows []pvPutRow
	for iter := 0; ; iter++ {
		if iter > 40 {
			fail("pkgvars: the escape summaries did not reach a fixpoint in 40 rounds")
			break
		}
		changed := false
		rows = nil
		next := map[string]*pvSummary{}
		for _, key := range keys {
			g := graphs[key]
			g.build()
			sum, r := g.summarise()
			// monotone: keep what earlier rounds established
			old := pvSum[key]
			for i := range old.retAlias {
				sum.retAlias[i] = true
			}
			for i := range old.retHolds {
				sum.retHolds[i] = true
			}
			for i := range old.keepOut {
				sum.keepOut[i] = true
			}
			for i, m := range old.keepIn {
				for j := range m {
					if sum.keepIn[i] == nil {
						sum.keepIn[i] = map[int]bool{}
					}
					sum.keepIn[i][j] = true
				}
			}
			for i, p := range old.puts {
				if _, ok := sum.puts[i]; !ok {
					sum.puts[i] = p
				}
			}
			if sum.size() != old.size() {
				changed = true
			}
			next[key] = sum
			rows = append(rows, r...)
		}
		pvSum = next
		if !changed {
			break
		}
	}
	sort.SliceStable(rows, func(i, j int) bool {
		if rows[i].fn != rows[j].fn {
			return rows[i].fn < rows[j].fn
		}
		return rows[i].pool < rows[j].pool
	})
	// users of Pool.Get, for the record (the analysis itself is keyed on Put)
	var gets []string
	for _, key := range keys {
		seen := map[string]bool{}
		ast.Inspect(funcs[key].Body, func(n ast.Node) bool {
			if call, ok := n.(*ast.CallExpr); ok {
				if pool, ok := pvPoolCall(call, "Get"); ok && !seen[pool] {
					seen[pool] = true
					gets = append(gets, key+" <- "+pool)
				}
			}
			return true
		})
	}
	var sb strings.Builder
	sb.WriteString(header)
	sb.WriteString("(* every package-level variable of package server: (name, type) *)\n")
	sb.WriteString("Definition pkg_vars : list (string * string) :=\n  [")
	for i, v := range vars {
		if i > 0 {
			sb.WriteString(";\n   ")
		}
		fmt.Fprintf(&sb, "(%s, %s)", coqStr(v.name), coqStr(v.typ))
	}
	sb.WriteString("].\n\n")
	sb.WriteString("(* statements outside init that write a package-level variable, write through it, call a mutating\n   method on it or take its address: (variable, (function, (how, guard))) *)\n")
	sb.WriteString("Definition pkg_var_writes : list (string * (string * (string * string))) :=\n  [")
	for i, w := range writes {
		if i > 0 {
			sb.WriteString(";\n   ")
		}
		fmt.Fprintf(&sb, "(%s, (%s, (%s, %s)))", coqStr(w.v), coqStr(w.fn+" "+w.site), coqStr(w.how), coqStr(w.guard))
	}
	sb.WriteString("].\n\n")
	sb.WriteString("(* functions that hand memory back to a sync.Pool, directly or through a function of this package:\n   (function, ((pool, deferred | inline), (the memory is a parameter of the function (wrapper), ways in which\n   something that may still reference the memory leaves the function))) *)\n")
	sb.WriteString("Definition pool_puts : list (string * ((string * string) * (bool * list string))) :=\n  [")
	for i, r := range rows {
		if i > 0 {
			sb.WriteString(";\n   ")
		}
		fmt.Fprintf(&sb, "(%s, ((%s, %s), (%s, %s)))", coqStr(r.fn), coqStr(r.pool), coqStr(r.mode), coqBool(r.wrapper), coqStrList(r.escapes))
	}
	sb.WriteString("].\n\n")
	fmt.Fprintf(&sb, "(* functions that take memory out of a sync.Pool *)\nDefinition pool_gets : list string := %s.\n", coqStrList(gets))
	return sb.String()
}
