// Gen/LiveHandover.v: what netServe's hand-over to live mode does to the connection's PipelineReader.
//
// A connection whose command "goes live" (SUBSCRIBE, PSUBSCRIBE, a FENCE search, MONITOR, AOF) leaves the
// loop of netServe; goLive and the live loops (liveSubscription, liveMonitor, liveAOF, the reader goroutine
// of goLive) go on calling ReadMessages. The PipelineReader holds the carry-over buffer (the bytes of a
// partially received next command), so the replies stay independent of the TCP segmentation across the
// switch only if the live loop reads from the SAME reader, state included. Extracted here, generically:
//   - the reader netServe calls ReadMessages on (aliases `pr := &client.pr` resolved);
//   - every left-hand side assigned anywhere inside the `if err.Error() == goingLive { ... }` block;
//   - every call of that block that is given the reader (callee, argument);
//   - the reader argument of the goLive call;
//   - for goLive and every live* function with a *PipelineReader parameter: the parameter, the receiver of
//     each ReadMessages call, every assignment to the parameter, and what goLive passes on;
//   - whether the block looks at the rest of the messages of the hand-over read at all.
// C16: coq/Model/HandoverFacts.v (reader_survives) and Proofs/PipelineLiveProofs.v (handover_keeps_reader)
// state the obligation over these facts; coq/Model/PipelineLive.v is the connection model across the switch.
package main

import (
	"bytes"
	"fmt"
	"go/ast"
	"go/printer"
	"go/token"
	"go/types"
	"sort"
	"strings"
)

// the source text of a node, white space collapsed
func srcText(n ast.Node) string {
	var b bytes.Buffer
	printer.Fprint(&b, fset, n)
	return strings.Join(strings.Fields(b.String()), " ")
}

// a statement of a loop body, nested loops reduced to their header
func skeletonText(st ast.Stmt) string {
	switch x := st.(type) {
	case *ast.RangeStmt:
		t := "for "
		if x.Key != nil {
			t += types.ExprString(x.Key)
		}
		if x.Value != nil {
			t += ", " + types.ExprString(x.Value)
		}
		return t + " " + x.Tok.String() + " range " + types.ExprString(x.X) + " {...}"
	case *ast.ForStmt:
		return "for {...}"
	}
	return srcText(st)
}

// left-hand sides assigned in the body of a method, the receiver replaced by the text of the reader
func methodAssigns(fd *ast.FuncDecl, reader string) (assigns []string, calls []string) {
	recv := ""
	if fd.Recv != nil && len(fd.Recv.List) > 0 && len(fd.Recv.List[0].Names) > 0 {
		recv = fd.Recv.List[0].Names[0].Name
	}
	subst := func(t string) (string, bool) {
		switch {
		case t == recv:
			return "&" + reader, true
		case t == "*"+recv:
			return "*&" + reader, true
		case strings.HasPrefix(t, recv+"."):
			return reader + t[len(recv):], true
		}
		return t, false
	}
	ast.Inspect(fd.Body, func(n ast.Node) bool {
		switch x := n.(type) {
		case *ast.AssignStmt:
			for _, l := range x.Lhs {
				if t, ok := subst(types.ExprString(l)); ok {
					assigns = append(assigns, t)
				}
			}
		case *ast.CallExpr:
			uses := false
			for _, a := range x.Args {
				if mentions(a, recv) {
					uses = true
				}
			}
			if sel, ok := x.Fun.(*ast.SelectorExpr); ok && mentions(sel.X, recv) {
				uses = true
			}
			if uses {
				calls = append(calls, types.ExprString(x.Fun))
			}
		}
		return true
	})
	return
}

func isPipelineReaderPtr(t types.Type) bool {
	p, ok := t.(*types.Pointer)
	if !ok {
		return false
	}
	n, ok := p.Elem().(*types.Named)
	return ok && n.Obj().Name() == "PipelineReader"
}

// the text of e with local aliases (x := <expr>) substituted
func resolveAlias(e ast.Expr, alias map[string]string) string {
	s := types.ExprString(e)
	if id, ok := e.(*ast.Ident); ok {
		if a, ok := alias[id.Name]; ok {
			return a
		}
	}
	return s
}

func mentions(n ast.Node, text string) bool {
	found := false
	ast.Inspect(n, func(x ast.Node) bool {
		if e, ok := x.(ast.Expr); ok && types.ExprString(e) == text {
			found = true
		}
		return !found
	})
	return found
}

func genLiveHandover() string {
	fd := funcs["Server.netServe"]
	if fd == nil {
		fail("livehandover: Server.netServe not found")
		return ""
	}
	// 1. the ReadMessages call of the connection loop and the reader it is called on
	alias := map[string]string{}
	var readReader, msgsVar string
	var liveIf *ast.IfStmt
	nReads, nLive := 0, 0
	ast.Inspect(fd.Body, func(n ast.Node) bool {
		switch x := n.(type) {
		case *ast.AssignStmt:
			if x.Tok == token.DEFINE && len(x.Lhs) == 1 && len(x.Rhs) == 1 {
				if id, ok := x.Lhs[0].(*ast.Ident); ok {
					if isPipelineReaderPtr(info.TypeOf(x.Rhs[0])) {
						alias[id.Name] = types.ExprString(x.Rhs[0])
					}
				}
			}
			if len(x.Rhs) == 1 {
				if c, ok := x.Rhs[0].(*ast.CallExpr); ok {
					if sel, ok := c.Fun.(*ast.SelectorExpr); ok && sel.Sel.Name == "ReadMessages" && liveIf == nil {
						nReads++
						readReader = strings.TrimPrefix(resolveAlias(sel.X, alias), "&")
						if id, ok := x.Lhs[0].(*ast.Ident); ok {
							msgsVar = id.Name
						}
					}
				}
			}
		case *ast.IfStmt:
			if b, ok := x.Cond.(*ast.BinaryExpr); ok && b.Op == token.EQL &&
				(types.ExprString(b.Y) == "goingLive" || types.ExprString(b.X) == "goingLive") {
				nLive++
				liveIf = x
				return false
			}
		}
		return true
	})
	if nReads != 1 || nLive != 1 || readReader == "" {
		fail("livehandover: netServe: expected one ReadMessages call and one `== goingLive` block before it, got %d / %d", nReads, nLive)
		return ""
	}
	// 2. the hand-over block
	var assigns []string
	type rcall struct{ callee, arg string }
	var rcalls []rcall
	var mcalls []string
	goliveReader := ""
	nGoLive := 0
	ast.Inspect(liveIf.Body, func(n ast.Node) bool {
		switch x := n.(type) {
		case *ast.AssignStmt:
			for _, l := range x.Lhs {
				assigns = append(assigns, types.ExprString(l))
			}
		case *ast.IncDecStmt:
			assigns = append(assigns, types.ExprString(x.X))
		case *ast.RangeStmt:
			if x.Key != nil {
				assigns = append(assigns, types.ExprString(x.Key))
			}
			if x.Value != nil {
				assigns = append(assigns, types.ExprString(x.Value))
			}
		case *ast.CallExpr:
			callee := types.ExprString(x.Fun)
			for i, a := range x.Args {
				if mentions(a, readReader) {
					rcalls = append(rcalls, rcall{callee, types.ExprString(a)})
					if strings.HasSuffix(callee, ".goLive") || callee == "goLive" {
						if isPipelineReaderPtr(info.TypeOf(a)) {
							goliveReader = types.ExprString(a)
						}
						_ = i
					}
				}
			}
			if strings.HasSuffix(callee, ".goLive") || callee == "goLive" {
				nGoLive++
			}
			// a method called ON the reader: what its body assigns of the reader counts as assigned here
			if sel, ok := x.Fun.(*ast.SelectorExpr); ok && mentions(sel.X, readReader) {
				mcalls = append(mcalls, srcText(x))
				if md := funcs["PipelineReader."+sel.Sel.Name]; md != nil && types.ExprString(sel.X) == readReader {
					as, cs := methodAssigns(md, readReader)
					assigns = append(assigns, as...)
					for _, c := range cs {
						rcalls = append(rcalls, rcall{c, "(inside " + sel.Sel.Name + ")"})
					}
				} else {
					rcalls = append(rcalls, rcall{callee, "(receiver)"})
				}
			}
		}
		return true
	})
	if nGoLive != 1 {
		fail("livehandover: netServe: expected exactly one goLive call in the hand-over block, got %d", nGoLive)
	}
	usesMsgs := msgsVar != "" && mentions(liveIf.Body, msgsVar)

	// 3. the live loops: readers they read from
	type triple struct{ fn, param, recv string }
	var live []triple
	keys := []string{}
	for k := range funcs {
		keys = append(keys, k)
	}
	sort.Strings(keys)
	for _, key := range keys {
		f := funcs[key]
		base := key[strings.LastIndex(key, ".")+1:]
		if base != "goLive" && !strings.HasPrefix(base, "live") {
			continue
		}
		param := ""
		if f.Type.Params != nil {
			for _, fld := range f.Type.Params.List {
				if isPipelineReaderPtr(info.TypeOf(fld.Type)) {
					for _, nm := range fld.Names {
						param = nm.Name
					}
				}
			}
		}
		if param == "" {
			continue
		}
		ast.Inspect(f.Body, func(n ast.Node) bool {
			switch x := n.(type) {
			case *ast.AssignStmt:
				for _, l := range x.Lhs {
					t := types.ExprString(l)
					if t == param || t == "*"+param || t == param+".buf" {
						live = append(live, triple{base, param, "assigned:" + t})
					}
				}
			case *ast.CallExpr:
				if sel, ok := x.Fun.(*ast.SelectorExpr); ok && sel.Sel.Name == "ReadMessages" {
					live = append(live, triple{base, param, types.ExprString(sel.X)})
				}
				for _, a := range x.Args {
					if isPipelineReaderPtr(info.TypeOf(a)) {
						callee := types.ExprString(x.Fun)
						live = append(live, triple{base + "->" + callee[strings.LastIndex(callee, ".")+1:], param, types.ExprString(a)})
					}
				}
			}
			return true
		})
	}
	if len(live) == 0 {
		fail("livehandover: no live loop with a *PipelineReader parameter found")
	}

	// 4. the loop over the messages of a read that contains the hand-over: its value variable
	loopVar := ""
	ast.Inspect(fd.Body, func(n ast.Node) bool {
		if rs, ok := n.(*ast.RangeStmt); ok && msgsVar != "" && types.ExprString(rs.X) == msgsVar && rs.Value != nil {
			inside := false
			ast.Inspect(rs.Body, func(m ast.Node) bool {
				if m == ast.Node(liveIf) {
					inside = true
				}
				return !inside
			})
			if inside {
				loopVar = types.ExprString(rs.Value)
			}
		}
		return true
	})
	// 5. the reader's side of handing messages back: every PipelineReader method the block calls, whole;
	//    ReadMessages: the statements before its first label and its last two statements
	var methodBodies [][2]string
	seen := map[string]bool{}
	ast.Inspect(liveIf.Body, func(n ast.Node) bool {
		if c, ok := n.(*ast.CallExpr); ok {
			if sel, ok := c.Fun.(*ast.SelectorExpr); ok && types.ExprString(sel.X) == readReader {
				if md := funcs["PipelineReader."+sel.Sel.Name]; md != nil && !seen[sel.Sel.Name] {
					seen[sel.Sel.Name] = true
					var sts []string
					for _, st := range md.Body.List {
						sts = append(sts, srcText(st))
					}
					methodBodies = append(methodBodies, [2]string{sel.Sel.Name, strings.Join(sts, " ;; ")})
				}
			}
		}
		return true
	})
	var rmHead, rmTail []string
	if rm := funcs["PipelineReader.ReadMessages"]; rm != nil {
		for _, st := range rm.Body.List {
			if _, ok := st.(*ast.LabeledStmt); ok {
				break
			}
			rmHead = append(rmHead, srcText(st))
		}
		l := rm.Body.List
		for i := len(l) - 2; i >= 0 && i < len(l); i++ {
			rmTail = append(rmTail, srcText(l[i]))
		}
	} else {
		fail("livehandover: PipelineReader.ReadMessages not found")
	}
	// 6. the read loop of liveSubscription: the statements of the body of its last `for { ... }`, nested loops as headers
	var subLoop []string
	if ls := funcs["Server.liveSubscription"]; ls != nil {
		var last *ast.ForStmt
		for _, st := range ls.Body.List {
			if f, ok := st.(*ast.ForStmt); ok && f.Cond == nil && f.Init == nil {
				last = f
			}
		}
		if last == nil {
			fail("livehandover: liveSubscription: no read loop `for { ... }` at the top level")
		} else {
			for _, st := range last.Body.List {
				subLoop = append(subLoop, skeletonText(st))
			}
		}
	} else {
		fail("livehandover: Server.liveSubscription not found")
	}

	var b strings.Builder
	b.WriteString("(* GENERATED by /verif/t38x from /repo on every check run. Do not edit. *)\n")
	b.WriteString("From Coq Require Import String List Bool.\nImport ListNotations.\nOpen Scope string_scope.\n\n")
	b.WriteString("(* netServe: the reader the connection loop calls ReadMessages on *)\n")
	fmt.Fprintf(&b, "Definition handover_read_reader : string := %s.\n", coqStr(readReader))
	b.WriteString("(* the reader argument of the goLive call of the hand-over block *)\n")
	fmt.Fprintf(&b, "Definition handover_golive_reader : string := %s.\n", coqStr(goliveReader))
	b.WriteString("(* every left-hand side assigned inside `if err.Error() == goingLive { ... }`, in program order *)\n")
	fmt.Fprintf(&b, "Definition handover_assigns : list string :=\n  %s.\n", coqStrList(assigns))
	b.WriteString("(* calls of the hand-over block that are given the reader: (callee, argument) *)\n")
	b.WriteString("Definition handover_reader_calls : list (string * string) :=\n  [")
	for i, c := range rcalls {
		if i > 0 {
			b.WriteString(";\n   ")
		}
		fmt.Fprintf(&b, "(%s, %s)", coqStr(c.callee), coqStr(c.arg))
	}
	b.WriteString("].\n")
	b.WriteString("(* the live loops: (function[->callee], *PipelineReader parameter, receiver of ReadMessages / argument passed on / assigned:<lhs>) *)\n")
	b.WriteString("Definition live_readers : list (string * string * string) :=\n  [")
	for i, t := range live {
		if i > 0 {
			b.WriteString(";\n   ")
		}
		fmt.Fprintf(&b, "(%s, %s, %s)", coqStr(t.fn), coqStr(t.param), coqStr(t.recv))
	}
	b.WriteString("].\n")
	b.WriteString("(* the hand-over block looks at the messages of the hand-over read (the commands that follow the live one) *)\n")
	fmt.Fprintf(&b, "Definition handover_uses_rest : bool := %v.\n", usesMsgs)
	b.WriteString("(* methods called on the reader inside the hand-over block (their assignments to the reader are part of handover_assigns) *)\n")
	fmt.Fprintf(&b, "Definition handover_reader_method_calls : list string :=\n  %s.\n", coqStrList(mcalls))
	b.WriteString("(* the value variable of the `for ... range msgs` loop that contains the hand-over block *)\n")
	fmt.Fprintf(&b, "Definition handover_loop_var : string := %s.\n", coqStr(loopVar))
	b.WriteString("(* those methods, whole: (name, statements joined by ;;) *)\n")
	b.WriteString("Definition reader_methods : list (string * string) :=\n  [")
	for i, m := range methodBodies {
		if i > 0 {
			b.WriteString(";\n   ")
		}
		fmt.Fprintf(&b, "(%s, %s)", coqStr(m[0]), coqStr(m[1]))
	}
	b.WriteString("].\n")
	b.WriteString("(* ReadMessages: the statements before its first label, and its last two statements *)\n")
	fmt.Fprintf(&b, "Definition readmessages_head : list string :=\n  %s.\n", coqStrList(rmHead))
	fmt.Fprintf(&b, "Definition readmessages_tail : list string :=\n  %s.\n", coqStrList(rmTail))
	b.WriteString("(* liveSubscription: the statements of its read loop, nested loops as headers *)\n")
	fmt.Fprintf(&b, "Definition live_subscription_loop : list string :=\n  %s.\n", coqStrList(subLoop))
	return b.String()
}
