// Gen/LuaPool.v: who takes interpreters from the shared pool (lStatePool) and what each of them does to
// the per-interpreter eval mode (lStatePool.evalcmd, a sync.Map *lua.LState -> "eval" | "evalro" | ...).
//
// tile38.call / tile38.pcall choose the atomic read-write, read-only or non-atomic path by that entry;
// an interpreter WITHOUT an entry is refused by luaTile38Call. WHEREEVAL filters and SCRIPT LOAD take
// interpreters from the same pool and rely on exactly that. The property of the source that makes this
// sound is local to each pool user and is what is extracted here:
//   - a user that Stores a mode must remove it again on EVERY way out: the statement right after the
//     Store is `defer <pool>.evalcmd.Delete(<the same interpreter>)`;
//   - every other user of <pool>.Get() contains no Store at all;
//   - nobody else Stores.
// (C18; coq/Model/LuaPool.v runs the pool over these flags, Proofs/LuaPoolProofs.v proves that then no
// idle interpreter ever carries a mode, for every history.)
package main

import (
	"fmt"
	"go/ast"
	"go/types"
	"sort"
	"strings"
)

// x is an expression of type lStatePool / *lStatePool
func isPoolExpr(e ast.Expr) bool {
	tv, ok := info.Types[e]
	if !ok {
		return false
	}
	t := tv.Type
	if p, ok := t.(*types.Pointer); ok {
		t = p.Elem()
	}
	n, ok := t.(*types.Named)
	return ok && n.Obj().Name() == "lStatePool"
}

// call is <pool>.<method>(...)
func poolCall(call *ast.CallExpr, method string) bool {
	sel, ok := call.Fun.(*ast.SelectorExpr)
	return ok && sel.Sel.Name == method && isPoolExpr(sel.X)
}

// call is <pool>.evalcmd.<method>(...)
func evalcmdCall(call *ast.CallExpr, method string) bool {
	sel, ok := call.Fun.(*ast.SelectorExpr)
	if !ok || sel.Sel.Name != method {
		return false
	}
	inner, ok := sel.X.(*ast.SelectorExpr)
	return ok && inner.Sel.Name == "evalcmd" && isPoolExpr(inner.X)
}

func firstArgIdent(call *ast.CallExpr) string {
	if len(call.Args) == 0 {
		return ""
	}
	if id, ok := call.Args[0].(*ast.Ident); ok {
		return id.Name
	}
	return ""
}

func genLuaPool() string {
	type user struct {
		fn              string
		stores, deletes bool
		put             string
	}
	var users []user
	var storeFns, deleteFns, loadFns []string
	keys := []string{}
	for k := range funcs {
		keys = append(keys, k)
	}
	sort.Strings(keys)
	for _, key := range keys {
		fd := funcs[key]
		if strings.HasPrefix(key, "lStatePool.") && key != "lStatePool.New" {
			// the pool's own methods: only Prune may touch the registry (it may drop entries)
			ast.Inspect(fd.Body, func(n ast.Node) bool {
				if call, ok := n.(*ast.CallExpr); ok && evalcmdCall(call, "Store") {
					fail("%s %s: the pool itself registers an eval mode", key, pos(call))
				}
				return true
			})
			continue
		}
		gets, stores, loads := 0, 0, 0
		ast.Inspect(fd.Body, func(n ast.Node) bool {
			if call, ok := n.(*ast.CallExpr); ok {
				switch {
				case poolCall(call, "Get"):
					gets++
				case evalcmdCall(call, "Store"):
					stores++
				case evalcmdCall(call, "Load"), evalcmdCall(call, "Range"), evalcmdCall(call, "LoadOrStore"), evalcmdCall(call, "Swap"), evalcmdCall(call, "CompareAndSwap"):
					loads++
					if !evalcmdCall(call, "Load") {
						fail("%s %s: unknown access to the eval-mode registry", key, pos(call))
					}
				}
			}
			return true
		})
		if loads > 0 {
			loadFns = append(loadFns, key)
		}
		// every Store must be a statement of a block, directly followed by the deferred Delete of the same interpreter
		guarded := 0
		ast.Inspect(fd.Body, func(n ast.Node) bool {
			blk, ok := n.(*ast.BlockStmt)
			if !ok {
				return true
			}
			for i, st := range blk.List {
				es, ok := st.(*ast.ExprStmt)
				if !ok {
					continue
				}
				call, ok := es.X.(*ast.CallExpr)
				if !ok || !evalcmdCall(call, "Store") {
					continue
				}
				if i+1 < len(blk.List) {
					if ds, ok := blk.List[i+1].(*ast.DeferStmt); ok && evalcmdCall(ds.Call, "Delete") &&
						firstArgIdent(ds.Call) != "" && firstArgIdent(ds.Call) == firstArgIdent(call) {
						guarded++
					}
				}
			}
			return true
		})
		hasDelete := false
		ast.Inspect(fd.Body, func(n ast.Node) bool {
			if call, ok := n.(*ast.CallExpr); ok && evalcmdCall(call, "Delete") {
				hasDelete = true
			}
			return true
		})
		if stores > 0 {
			storeFns = append(storeFns, key)
		}
		if hasDelete {
			deleteFns = append(deleteFns, key)
		}
		if gets == 0 {
			if stores > 0 {
				fail("%s: registers an eval mode for an interpreter it did not take from the pool", key)
			}
			continue
		}
		if gets > 1 {
			fail("%s: takes %d interpreters from the pool in one function body (unknown shape)", key, gets)
		}
		// how the interpreter goes back: a deferred Put in the same function, or handed to a value whose Close() Puts it
		put := "none"
		ast.Inspect(fd.Body, func(n ast.Node) bool {
			if ds, ok := n.(*ast.DeferStmt); ok && poolCall(ds.Call, "Put") {
				put = "defer"
			}
			return true
		})
		if put == "none" {
			for k2, fd2 := range funcs {
				if strings.HasSuffix(k2, ".Close") {
					ast.Inspect(fd2.Body, func(n ast.Node) bool {
						if call, ok := n.(*ast.CallExpr); ok && poolCall(call, "Put") {
							put = "close:" + k2
						}
						return true
					})
				}
			}
		}
		users = append(users, user{key, stores > 0, stores > 0 && guarded == stores, put})
	}
	// tile38.call reads the mode with Load and leaves it "" when there is no entry
	defEmpty := false
	if fd := funcs["lStatePool.New"]; fd != nil {
		assigns, inLoadIf := 0, 0
		ast.Inspect(fd.Body, func(n ast.Node) bool {
			if ifs, ok := n.(*ast.IfStmt); ok && ifs.Init != nil {
				if as, ok := ifs.Init.(*ast.AssignStmt); ok && len(as.Rhs) == 1 {
					if call, ok := as.Rhs[0].(*ast.CallExpr); ok && evalcmdCall(call, "Load") {
						if id, ok := ifs.Cond.(*ast.Ident); ok && id.Name == "ok" && ifs.Else == nil {
							ast.Inspect(ifs.Body, func(m ast.Node) bool {
								if a2, ok := m.(*ast.AssignStmt); ok && len(a2.Lhs) == 1 {
									if id, ok := a2.Lhs[0].(*ast.Ident); ok && id.Name == "evalCmd" {
										inLoadIf++
									}
								}
								return true
							})
						}
					}
				}
			}
			if a2, ok := n.(*ast.AssignStmt); ok {
				for _, l := range a2.Lhs {
					if id, ok := l.(*ast.Ident); ok && id.Name == "evalCmd" {
						// `evalCmd, args := getArgs(ls)` in call / pcall defines new variables: not counted
						if a2.Tok.String() == "=" {
							assigns++
						}
					}
				}
			}
			return true
		})
		defEmpty = assigns == 1 && inLoadIf == 1
		if !defEmpty {
			fail("lStatePool.New: getArgs no longer reads the eval mode only from the registry (assignments to evalCmd: %d, inside `if v, ok := evalcmd.Load(ls); ok`: %d)", assigns, inLoadIf)
		}
	}
	var sb strings.Builder
	sb.WriteString(header)
	sb.WriteString("(* users of lStatePool.Get: (function, (registers an eval mode, every Store is directly followed by the\n   deferred Delete of the same interpreter), how the interpreter is returned) *)\n")
	sb.WriteString("Definition pool_users : list (string * ((bool * bool) * string)) :=\n  [")
	for i, u := range users {
		if i > 0 {
			sb.WriteString(";\n   ")
		}
		fmt.Fprintf(&sb, "(%s, ((%s, %s), %s))", coqStr(u.fn), coqBool(u.stores), coqBool(u.deletes), coqStr(u.put))
	}
	sb.WriteString("].\n\n")
	fmt.Fprintf(&sb, "Definition evalcmd_store_fns : list string := %s.\n", coqStrList(storeFns))
	fmt.Fprintf(&sb, "Definition evalcmd_delete_fns : list string := %s.\n", coqStrList(deleteFns))
	fmt.Fprintf(&sb, "Definition evalcmd_load_fns : list string := %s.\n", coqStrList(loadFns))
	fmt.Fprintf(&sb, "Definition mode_lookup_defaults_to_empty : bool := %s.\n", coqBool(defEmpty))
	return sb.String()
}
