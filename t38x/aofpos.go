// Every use of the server's log descriptor `Server.aof` in internal/server (C03, the append discipline).
//
// The log is opened with O_CREATE|O_RDWR, NOT O_APPEND: flushAOF's `s.aof.Write(s.aofbuf)` appends only
// because the file position of that one descriptor is at the end of the file whenever a flush runs.
// "The file is the concatenation of the flushed records" — what the replay theorems take as the log —
// therefore needs: nothing but the audited start-up / rewrite / resync code moves that position.
//
// coq/Gen/AofPos.v lists, per function (closures count for the function that contains them), every
// occurrence of the field and of every local variable that was assigned from it (aliases, followed
// transitively inside the function):
//
//	(function, "call",   method)          s.aof.M(...)            / alias.M(...)
//	(function, "assign", rhs)             s.aof = rhs             (a new descriptor: position 0)
//	(function, "nil",    "")              s.aof == nil / != nil
//	(function, "alias",  variable)        x := s.aof              (x is followed like s.aof)
//	(function, "arg",    callee#index)    f(.., s.aof, ..)        the descriptor leaves the function
//	(function, "other",  syntax)          anything else (returned, stored in a struct, sent, ...)
//
// An occurrence through an alias carries the alias in its third component ("Seek via f").
// coq/Model/AofPos.v classifies them; coq/Props/C03pos.v proves over the table that every use outside
// the audited set is position-neutral.
package main

import (
	"fmt"
	"go/ast"
	"go/token"
	"go/types"
	"sort"
	"strings"
)

type aofUse struct {
	fn, kind, detail string
}

func isServerAofField(e ast.Expr) bool {
	sel, ok := e.(*ast.SelectorExpr)
	if !ok || sel.Sel.Name != "aof" {
		return false
	}
	s, ok := info.Selections[sel]
	if !ok || s.Kind() != types.FieldVal {
		return false
	}
	t := s.Recv()
	if p, ok := t.(*types.Pointer); ok {
		t = p.Elem()
	}
	n, ok := t.(*types.Named)
	return ok && n.Obj().Name() == "Server"
}

func aofUsesOf(fn string, fd *ast.FuncDecl) []aofUse {
	var out []aofUse
	aliases := map[types.Object]string{}
	done := map[types.Object]bool{}
	// one sweep: classify every occurrence of `match` with its syntactic context
	sweep := func(match func(e ast.Expr) bool, via string) {
		var stack []ast.Node
		suffix := ""
		if via != "" {
			suffix = " via " + via
		}
		ast.Inspect(fd.Body, func(n ast.Node) bool {
			if n == nil {
				stack = stack[:len(stack)-1]
				return true
			}
			stack = append(stack, n)
			e, ok := n.(ast.Expr)
			if !ok || !match(e) {
				return true
			}
			var parent, grand ast.Node
			if len(stack) >= 2 {
				parent = stack[len(stack)-2]
			}
			if len(stack) >= 3 {
				grand = stack[len(stack)-3]
			}
			switch p := parent.(type) {
			case *ast.SelectorExpr:
				if p.X == e {
					if c, ok := grand.(*ast.CallExpr); ok && c.Fun == p {
						out = append(out, aofUse{fn, "call", p.Sel.Name + suffix})
					} else {
						out = append(out, aofUse{fn, "other", "method value " + p.Sel.Name + suffix})
					}
					return false
				}
			case *ast.BinaryExpr:
				other := p.X
				if other == e {
					other = p.Y
				}
				if id, ok := other.(*ast.Ident); ok && id.Name == "nil" && (p.Op == token.EQL || p.Op == token.NEQ) {
					out = append(out, aofUse{fn, "nil", via})
					return false
				}
			case *ast.AssignStmt:
				for i, l := range p.Lhs {
					if l == e {
						rhs := ""
						if len(p.Rhs) == len(p.Lhs) {
							rhs = types.ExprString(p.Rhs[i])
						} else if len(p.Rhs) == 1 {
							rhs = types.ExprString(p.Rhs[0])
						}
						if via != "" && p.Tok == token.DEFINE {
							return false // the definition of the alias itself
						}
						out = append(out, aofUse{fn, "assign", rhs + suffix})
						return false
					}
				}
				for i, rr := range p.Rhs {
					if rr == e && len(p.Rhs) == len(p.Lhs) {
						if id, ok := p.Lhs[i].(*ast.Ident); ok {
							obj := info.Defs[id]
							if obj == nil {
								obj = info.Uses[id]
							}
							if obj != nil && id.Name != "_" {
								aliases[obj] = id.Name
								out = append(out, aofUse{fn, "alias", id.Name + suffix})
								return false
							}
						}
					}
				}
			case *ast.ValueSpec:
				for i, v := range p.Values {
					if v == e && len(p.Values) == len(p.Names) && p.Names[i].Name != "_" {
						if obj := info.Defs[p.Names[i]]; obj != nil {
							aliases[obj] = p.Names[i].Name
							out = append(out, aofUse{fn, "alias", p.Names[i].Name + suffix})
							return false
						}
					}
				}
			case *ast.CallExpr:
				for i, a := range p.Args {
					if a == e {
						out = append(out, aofUse{fn, "arg", fmt.Sprintf("%s#%d%s", types.ExprString(p.Fun), i, suffix)})
						return false
					}
				}
			}
			out = append(out, aofUse{fn, "other", fmt.Sprintf("%T%s", parent, suffix)})
			return false
		})
	}
	sweep(isServerAofField, "")
	for changed := true; changed; {
		changed = false
		for obj, name := range aliases {
			if done[obj] {
				continue
			}
			done[obj] = true
			changed = true
			o := obj
			sweep(func(e ast.Expr) bool {
				id, ok := e.(*ast.Ident)
				return ok && info.Uses[id] == o
			}, name)
		}
	}
	return out
}

func genAofPos() string {
	var sb strings.Builder
	sb.WriteString("(* GENERATED by /verif/t38x from /repo on every check run. Do not edit. *)\nFrom Coq Require Import String List.\nImport ListNotations.\nOpen Scope string_scope.\n\n")
	var names []string
	for n := range funcs {
		names = append(names, n)
	}
	sort.Strings(names)
	var rows []string
	for _, n := range names {
		us := aofUsesOf(n, funcs[n])
		sort.SliceStable(us, func(i, j int) bool {
			if us[i].kind != us[j].kind {
				return us[i].kind < us[j].kind
			}
			return us[i].detail < us[j].detail
		})
		for _, u := range us {
			rows = append(rows, fmt.Sprintf("(%s, %s, %s)", coqStr(u.fn), coqStr(u.kind), coqStr(u.detail)))
		}
	}
	if len(rows) == 0 {
		fail("aofpos: no use of Server.aof found")
	}
	// how the descriptor is opened: the flags of every os.OpenFile assigned to it
	appendFlag := false
	for _, fd := range funcs {
		ast.Inspect(fd.Body, func(n ast.Node) bool {
			c, ok := n.(*ast.CallExpr)
			if ok && types.ExprString(c.Fun) == "os.OpenFile" && len(c.Args) == 3 && strings.Contains(types.ExprString(c.Args[1]), "O_APPEND") {
				appendFlag = true
			}
			return true
		})
	}
	sb.WriteString("(* every occurrence of Server.aof and of its local aliases: (function, kind, detail) — see t38x/aofpos.go *)\n")
	sb.WriteString("Definition aof_uses : list (string * string * string) :=\n  [" + strings.Join(rows, ";\n   ") + "].\n\n")
	sb.WriteString("(* some os.OpenFile of the package passes O_APPEND (then the position would not matter) *)\n")
	fmt.Fprintf(&sb, "Definition some_open_with_o_append : bool := %s.\n", coqBool(appendFlag))
	return sb.String()
}
