// Command t38x regenerates coq/Gen/*.v from /repo's current working tree.
//
// It re-extracts what is tabular in internal/server: the lock/dispatch table of
// handleInputCommand, the command dispatch of Server.command and commandInScript,
// the three script tables, the order of the gate statements, per-function mutation
// effects with their lock context (a lockset analysis over the package call graph)
// and a few constants. Recognisers are strict: a shape they do not understand is
// an error (exit 1), never a silent default.
package main

import (
	"flag"
	"fmt"
	"go/ast"
	"go/constant"
	"go/token"
	"go/types"
	"os"
	"path/filepath"
	"sort"
	"strconv"
	"strings"

	"golang.org/x/tools/go/packages"
)

var (
	fset  *token.FileSet
	info  *types.Info
	pkg   *packages.Package
	funcs = map[string]*ast.FuncDecl{} // "Recv.Name" or "Name"
	errs  []string
)

func fail(format string, a ...interface{}) {
	errs = append(errs, fmt.Sprintf(format, a...))
}

func pos(n ast.Node) string {
	p := fset.Position(n.Pos())
	return fmt.Sprintf("%s:%d", filepath.Base(p.Filename), p.Line)
}

func funcKey(fd *ast.FuncDecl) string {
	if fd.Recv != nil && len(fd.Recv.List) > 0 {
		t := fd.Recv.List[0].Type
		if st, ok := t.(*ast.StarExpr); ok {
			t = st.X
		}
		if id, ok := t.(*ast.Ident); ok {
			return id.Name + "." + fd.Name.Name
		}
		if ix, ok := t.(*ast.IndexExpr); ok {
			if id, ok := ix.X.(*ast.Ident); ok {
				return id.Name + "." + fd.Name.Name
			}
		}
	}
	return fd.Name.Name
}

func main() {
	repo := flag.String("repo", "/repo", "")
	out := flag.String("out", "/verif/coq/Gen", "")
	flag.Parse()
	cfg := &packages.Config{
		Mode: packages.NeedName | packages.NeedSyntax | packages.NeedTypes | packages.NeedTypesInfo | packages.NeedFiles,
		Dir:  *repo,
		Env:  append(os.Environ(), "GOFLAGS=-mod=mod", "GOPROXY=off"),
	}
	pkgs, err := packages.Load(cfg, "./internal/server")
	if err != nil || len(pkgs) != 1 {
		fmt.Fprintln(os.Stderr, "t38x: cannot load internal/server:", err)
		os.Exit(1)
	}
	pkg = pkgs[0]
	if len(pkg.Errors) > 0 {
		fmt.Fprintln(os.Stderr, "t38x: internal/server does not type-check:", pkg.Errors)
		os.Exit(1)
	}
	fset = pkg.Fset
	info = pkg.TypesInfo
	for _, f := range pkg.Syntax {
		for _, d := range f.Decls {
			if fd, ok := d.(*ast.FuncDecl); ok && fd.Body != nil {
				funcs[funcKey(fd)] = fd
			}
		}
	}
	os.MkdirAll(*out, 0o755)
	files := map[string]string{}
	files["LockTable.v"] = genLockTable()
	files["Dispatch.v"] = genDispatch()
	files["ScriptTables.v"] = genScriptTables()
	files["AuthGate.v"] = genAuthGate()
	files["Mutators.v"] = genMutators()
	files["Consts.v"] = genConsts()
	files["CommandTable.v"] = genCommandTable(*repo)
	files["LuaAllow.v"] = genLuaAllow()
	files["LuaGlobals.v"] = genLuaGlobals() // t38x/luaglobals.go: globals borrowers set on pooled interpreters and how they are removed (C18)
	files["ReplyFlush.v"] = genReplyFlush() // t38x/luaglobals.go: what decides the pre-reply flush in netServe (C18)
	files["LuaPool.v"] = genLuaPool() // t38x/luapool.go: users of the interpreter pool and the eval-mode registry (C18)
	files["Startup.v"] = genStartup() // t38x/startup.go: go statements with their guards (C14)
	files["RoleGates.v"] = genRoleGates() // t38x/rolegates.go: arm statement order, READONLY, protected-mode, followStep lpos (C15)
	files["GlobMeta.v"] = genGlobMeta(*repo) // t38x/globmeta.go: glob.IsGlob case list + the ROAM clause's pattern-vs-literal call sites (C20)
	files["SetHookOrder.v"] = genSetHookOrder() // t38x/sethookorder.go: cmdSetHook's registry statements in source order (C20: re-defined roaming fences)
	files["SetOld.v"] = genSetOld()         // t38x/setold.go: where cmdSET's d.old comes from + the fenceMatchRoam call (C20)
	files["HookEquals.v"] = genHookEquals() // t38x/hookequals.go: the tests of (*Hook).Equals, field and comparison (C20)
	files["ShrinkFinal.v"] = genShrinkFinal() // t38x/shrinkfinal.go: statements of the final section of aofshrink (C09)
	files["LiveHandover.v"] = genLiveHandover() // t38x/livehandover.go: what netServe's hand-over to live mode does to the PipelineReader (C16)
	files["MvtArgs.v"] = genMvtArgs() // t38x/mvtargs.go: the HTTP tile-path rewrite and its call site (C16)
	files["FollowSteps.v"] = genFollowSteps() // t38x/followsteps.go: guarded statements of the follower side of replication (C06)
	files["ShrinkEntry.v"] = genShrinkEntry() // t38x/shrinkentry.go: entry section + epilogue of aofshrink, writes of s.shrinklog / s.shrinking (C08: a refused AOFSHRINK changes nothing)
	files["SocketWrites.v"] = genSocketWrites() // t38x/socketwrites.go: every write to a socket / unknown writer, reply blocks of netServe, Client.Write (C08: replies leave after the flush only)
	files["ReplayTol.v"] = genReplayTol() // t38x/replaytol.go: commandErrIsFatal evaluated on every error sentinel + its use in loadAOF (C03)
	files["AofPos.v"] = genAofPos() // t38x/aofpos.go: every use of Server.aof and of its local aliases (C03: the append discipline)
	files["PkgVars.v"] = genPkgVars() // t38x/pkgvars.go: package-level variables and their writes; what leaves a function that hands memory back to a sync.Pool (C11)
	files["HookRetention.v"] = genHookRetention() // t38x/hookretention.go: origin of the options of every Tx.Set, writes through the shared hook-log defaults (C10)
	files["FieldBin.v"] = genFieldBin(*repo) // t38x/fieldbin.go: fake slice headers (size-header windows), binary.PutUvarint buffers and the uvarint body of internal/field/list_binary.go (C01: packed field lists)
	if len(errs) > 0 {
		for _, e := range errs {
			fmt.Fprintln(os.Stderr, "t38x: obligation broken:", e)
		}
		os.Exit(1)
	}
	names := []string{}
	for n := range files {
		names = append(names, n)
	}
	sort.Strings(names)
	for _, n := range names {
		p := filepath.Join(*out, n)
		old, _ := os.ReadFile(p)
		if string(old) != files[n] { // keep mtimes stable when nothing changed
			if err := os.WriteFile(p, []byte(files[n]), 0o644); err != nil {
				fmt.Fprintln(os.Stderr, err)
				os.Exit(1)
			}
		}
	}
	fmt.Printf("t38x: %d files up to date in %s\n", len(names), *out)
}

// ---------- helpers ----------

func coqStr(s string) string { return `"` + strings.ReplaceAll(s, `"`, `""`) + `"` }

func coqStrList(l []string) string {
	q := make([]string, len(l))
	for i, s := range l {
		q[i] = coqStr(s)
	}
	return "[" + strings.Join(q, "; ") + "]"
}

func coqBool(b bool) string {
	if b {
		return "true"
	}
	return "false"
}

const header = "(* GENERATED by /verif/t38x from /repo on every check run. Do not edit. *)\nFrom Coq Require Import String List Bool.\nFrom T38 Require Import Model.Tables.\nImport ListNotations.\nOpen Scope string_scope.\n\n"

func strLit(e ast.Expr) (string, bool) {
	bl, ok := e.(*ast.BasicLit)
	if !ok || bl.Kind != token.STRING {
		return "", false
	}
	s, err := strconv.Unquote(bl.Value)
	return s, err == nil
}

// isCommandSwitch: switch msg.Command() { ... }
func isCommandSwitch(s *ast.SwitchStmt) bool {
	call, ok := s.Tag.(*ast.CallExpr)
	if !ok {
		return false
	}
	sel, ok := call.Fun.(*ast.SelectorExpr)
	return ok && sel.Sel.Name == "Command"
}

func exprText(e ast.Node) string {
	var sb strings.Builder
	ast.Inspect(e, func(n ast.Node) bool {
		switch x := n.(type) {
		case *ast.Ident:
			sb.WriteString(x.Name)
			sb.WriteByte(' ')
		case *ast.BasicLit:
			sb.WriteString(x.Value)
			sb.WriteByte(' ')
		case *ast.BinaryExpr:
			sb.WriteString("(" + x.Op.String() + ") ")
		case *ast.UnaryExpr:
			sb.WriteString("(" + x.Op.String() + ") ")
		}
		return true
	})
	return sb.String()
}

// server lock call: <x>.mu.<Method>() where <x>.mu is the field `mu` of type Server
func serverLockCall(e ast.Expr) string {
	call, ok := e.(*ast.CallExpr)
	if !ok {
		return ""
	}
	sel, ok := call.Fun.(*ast.SelectorExpr)
	if !ok {
		return ""
	}
	inner, ok := sel.X.(*ast.SelectorExpr)
	if !ok || inner.Sel.Name != "mu" {
		return ""
	}
	if s, ok := info.Selections[inner]; ok {
		if named := namedOf(s.Recv()); named == "Server" {
			return sel.Sel.Name
		}
	}
	return ""
}

func namedOf(t types.Type) string {
	for {
		switch x := t.(type) {
		case *types.Pointer:
			t = x.Elem()
			continue
		case *types.Named:
			return x.Obj().Name()
		}
		return ""
	}
}

func namedPkgOf(t types.Type) string {
	for {
		switch x := t.(type) {
		case *types.Pointer:
			t = x.Elem()
			continue
		case *types.Named:
			if x.Obj().Pkg() != nil {
				return x.Obj().Pkg().Path() + "." + x.Obj().Name()
			}
			return x.Obj().Name()
		}
		return ""
	}
}

// ---------- lock table / script tables ----------

type arm struct {
	cmds                                   []string
	lock                                   string // LExcl LShared LNone
	write, follower, readonly, caughtup    bool
	reject                                 string // "" | "readonly" | "notsupported"
	fallthru                               bool
	isDefault                              bool
}

// classifyArmBody recognises the statements allowed inside a lock-table arm.
func classifyArmBody(where string, body []ast.Stmt, a *arm) {
	a.lock = "LNone"
	for i := 0; i < len(body); i++ {
		st := body[i]
		switch x := st.(type) {
		case *ast.ExprStmt:
			switch serverLockCall(x.X) {
			case "Lock":
				a.lock = "LExcl"
				if !nextIsDeferUnlock(body, i, "Unlock") {
					fail("%s %s: s.mu.Lock() not followed by defer s.mu.Unlock()", where, pos(st))
				}
				i++
				continue
			case "RLock":
				a.lock = "LShared"
				if !nextIsDeferUnlock(body, i, "RUnlock") {
					fail("%s %s: s.mu.RLock() not followed by defer s.mu.RUnlock()", where, pos(st))
				}
				i++
				continue
			}
			fail("%s %s: unknown statement in arm: %s", where, pos(st), exprText(st))
		case *ast.AssignStmt:
			if len(x.Lhs) == 1 && len(x.Rhs) == 1 {
				if id, ok := x.Lhs[0].(*ast.Ident); ok && id.Name == "write" {
					if v, ok := x.Rhs[0].(*ast.Ident); ok && v.Name == "true" {
						a.write = true
						continue
					}
				}
			}
			fail("%s %s: unknown assignment in arm", where, pos(st))
		case *ast.IfStmt:
			c := exprText(x.Cond)
			ret := exprText(x.Body)
			switch {
			case strings.Contains(c, "followHost") && strings.Contains(c, "caughtUpOnce"):
				if !(strings.Contains(ret, "catching up to leader") || strings.Contains(ret, "errCatchingUp")) {
					fail("%s %s: caught-up test does not return the catching-up error", where, pos(st))
				}
				a.caughtup = true
			case strings.Contains(c, "followHost") && strings.Contains(c, `(!=) `):
				if !(strings.Contains(ret, "not the leader") || strings.Contains(ret, "errNotLeader")) {
					fail("%s %s: follower test does not return the not-the-leader error", where, pos(st))
				}
				a.follower = true
			case strings.Contains(c, "readOnly"):
				if !(strings.Contains(ret, "read only") || strings.Contains(ret, "errReadOnly")) {
					fail("%s %s: read-only test does not return the read-only error", where, pos(st))
				}
				a.readonly = true
			default:
				fail("%s %s: unknown if in arm: %s", where, pos(st), c)
			}
			if _, ok := x.Body.List[len(x.Body.List)-1].(*ast.ReturnStmt); !ok || x.Else != nil {
				fail("%s %s: gate test must end in a return and have no else", where, pos(st))
			}
		case *ast.BranchStmt:
			if x.Tok == token.FALLTHROUGH {
				a.fallthru = true
			} else {
				fail("%s %s: unexpected branch statement", where, pos(st))
			}
		case *ast.ReturnStmt:
			t := exprText(x)
			switch {
			case strings.Contains(t, "errReadOnly"):
				a.reject = "readonly"
			case strings.Contains(t, "errCmdNotSupported"):
				a.reject = "notsupported"
			default:
				fail("%s %s: unknown return in arm: %s", where, pos(st), t)
			}
		case *ast.DeferStmt:
			fail("%s %s: defer without preceding lock", where, pos(st))
		default:
			fail("%s %s: unknown statement kind in arm", where, pos(st))
		}
	}
}

func nextIsDeferUnlock(body []ast.Stmt, i int, m string) bool {
	if i+1 >= len(body) {
		return false
	}
	d, ok := body[i+1].(*ast.DeferStmt)
	return ok && serverLockCall(d.Call) == m
}

func findCommandSwitch(fn string, mustHave string) *ast.SwitchStmt {
	fd := funcs[fn]
	if fd == nil {
		fail("function %s not found", fn)
		return nil
	}
	var found *ast.SwitchStmt
	ast.Inspect(fd.Body, func(n ast.Node) bool {
		if _, ok := n.(*ast.FuncLit); ok {
			return false
		}
		if s, ok := n.(*ast.SwitchStmt); ok && isCommandSwitch(s) {
			for _, c := range s.Body.List {
				for _, e := range c.(*ast.CaseClause).List {
					if v, ok := strLit(e); ok && v == mustHave && found == nil {
						found = s
					}
				}
			}
		}
		return true
	})
	if found == nil {
		fail("%s: no `switch msg.Command()` containing case %q", fn, mustHave)
	}
	return found
}

func readArms(fn string, sw *ast.SwitchStmt) (arms []arm, def arm) {
	hasDefault := false
	for _, c := range sw.Body.List {
		cc := c.(*ast.CaseClause)
		var a arm
		for _, e := range cc.List {
			v, ok := strLit(e)
			if !ok {
				fail("%s %s: case label is not a string literal", fn, pos(e))
				continue
			}
			a.cmds = append(a.cmds, v)
		}
		classifyArmBody(fn, cc.Body, &a)
		if cc.List == nil {
			a.isDefault = true
			hasDefault = true
		}
		arms = append(arms, a)
	}
	// fallthrough: inherit the checks (not the lock) of the following arm
	for i := len(arms) - 1; i >= 0; i-- {
		if arms[i].fallthru {
			if i+1 >= len(arms) {
				fail("%s: fallthrough in last arm", fn)
				continue
			}
			n := arms[i+1]
			arms[i].follower = arms[i].follower || n.follower
			arms[i].readonly = arms[i].readonly || n.readonly
			arms[i].caughtup = arms[i].caughtup || n.caughtup
			if n.lock != "LNone" || n.write {
				fail("%s: fallthrough into an arm that locks or writes", fn)
			}
		}
	}
	var rest []arm
	for _, a := range arms {
		if a.isDefault {
			def = a
		} else {
			rest = append(rest, a)
		}
	}
	if !hasDefault {
		def = arm{lock: "LNone"}
	}
	return rest, def
}

func armCoq(a arm) string {
	rej := "RNo"
	switch a.reject {
	case "readonly":
		rej = "RReadOnly"
	case "notsupported":
		rej = "RNotSupported"
	}
	return fmt.Sprintf("mkArm %s %s %s %s %s %s %s", coqStrList(a.cmds), a.lock, coqBool(a.write),
		coqBool(a.follower), coqBool(a.readonly), coqBool(a.caughtup), rej)
}

// writeAOF under `if write` after the command ran
func logsOnWrite(fn string) bool {
	fd := funcs[fn]
	found := false
	if fd == nil {
		return false
	}
	ast.Inspect(fd.Body, func(n ast.Node) bool {
		if is, ok := n.(*ast.IfStmt); ok {
			if id, ok := is.Cond.(*ast.Ident); ok && id.Name == "write" {
				if strings.Contains(exprText(is.Body), "writeAOF") {
					found = true
				}
			}
		}
		return true
	})
	return found
}

func tableCoq(name, fn string, arms []arm, def arm) string {
	var sb strings.Builder
	fmt.Fprintf(&sb, "(* from %s *)\nDefinition %s : table := mkTable\n  [", fn, name)
	for i, a := range arms {
		if i > 0 {
			sb.WriteString(";\n   ")
		}
		sb.WriteString(armCoq(a))
	}
	fmt.Fprintf(&sb, "]\n  (%s)\n  %s.\n\n", armCoq(def), coqBool(logsOnWrite(fn)))
	return sb.String()
}

func genLockTable() string {
	sw := findCommandSwitch("Server.handleInputCommand", "set")
	if sw == nil {
		return ""
	}
	arms, def := readArms("Server.handleInputCommand", sw)
	return header + tableCoq("lock_table", "Server.handleInputCommand", arms, def)
}

func genScriptTables() string {
	var sb strings.Builder
	sb.WriteString(header)
	for _, x := range [][2]string{{"script_rw", "Server.luaTile38AtomicRW"}, {"script_ro", "Server.luaTile38AtomicRO"}, {"script_na", "Server.luaTile38NonAtomic"}} {
		sw := findCommandSwitch(x[1], "set")
		if sw == nil {
			continue
		}
		arms, def := readArms(x[1], sw)
		sb.WriteString(tableCoq(x[0], x[1], arms, def))
	}
	// deny list of luaTile38Call and the evalcmd -> variant switch
	fd := funcs["Server.luaTile38Call"]
	if fd == nil {
		fail("luaTile38Call not found")
		return sb.String()
	}
	var deny []string
	variants := map[string]string{}
	ast.Inspect(fd.Body, func(n ast.Node) bool {
		s, ok := n.(*ast.SwitchStmt)
		if !ok {
			return true
		}
		if isCommandSwitch(s) {
			for _, c := range s.Body.List {
				cc := c.(*ast.CaseClause)
				if !strings.Contains(exprText(&ast.BlockStmt{List: cc.Body}), "errCmdNotSupported") {
					fail("luaTile38Call %s: deny arm does not return errCmdNotSupported", pos(cc))
				}
				for _, e := range cc.List {
					if v, ok := strLit(e); ok {
						deny = append(deny, v)
					}
				}
			}
		} else if id, ok := s.Tag.(*ast.Ident); ok && id.Name == "evalcmd" {
			for _, c := range s.Body.List {
				cc := c.(*ast.CaseClause)
				t := exprText(&ast.BlockStmt{List: cc.Body})
				v := ""
				switch {
				case strings.Contains(t, "luaTile38AtomicRW"):
					v = "script_rw"
				case strings.Contains(t, "luaTile38AtomicRO"):
					v = "script_ro"
				case strings.Contains(t, "luaTile38NonAtomic"):
					v = "script_na"
				default:
					fail("luaTile38Call %s: unknown variant arm", pos(cc))
				}
				for _, e := range cc.List {
					if s, ok := strLit(e); ok {
						variants[s] = v
					}
				}
			}
		}
		return true
	})
	fmt.Fprintf(&sb, "Definition script_deny : list string := %s.\n\n", coqStrList(deny))
	var ks []string
	for k := range variants {
		ks = append(ks, k)
	}
	sort.Strings(ks)
	sb.WriteString("Definition script_variant : list (string * table) :=\n  [")
	for i, k := range ks {
		if i > 0 {
			sb.WriteString("; ")
		}
		fmt.Fprintf(&sb, "(%s, %s)", coqStr(k), variants[k])
	}
	sb.WriteString("].\n")
	return sb.String()
}

// ---------- dispatch ----------

type handler struct {
	cmd, fn string
	details bool
	devOnly bool // the arm starts with `if !s.opts.DevMode { err = unknown command; return }`
}

func readDispatch(fn string) []handler {
	sw := findCommandSwitch(fn, "set")
	if sw == nil {
		return nil
	}
	var hs []handler
	for _, c := range sw.Body.List {
		cc := c.(*ast.CaseClause)
		if cc.List == nil {
			continue
		}
		// the handler: first call of a method cmdXXX / other in the body
		callee, details := "", false
		for _, st := range cc.Body {
			ast.Inspect(st, func(n ast.Node) bool {
				if as, ok := n.(*ast.AssignStmt); ok && callee == "" {
					for _, r := range as.Rhs {
						if call, ok := r.(*ast.CallExpr); ok {
							if sel, ok := call.Fun.(*ast.SelectorExpr); ok && strings.HasPrefix(sel.Sel.Name, "cmd") {
								callee = sel.Sel.Name
								for _, l := range as.Lhs {
									if id, ok := l.(*ast.Ident); ok && id.Name == "d" {
										details = true
									}
								}
							}
						}
					}
				}
				if g, ok := n.(*ast.GoStmt); ok && callee == "" {
					if sel, ok := g.Call.Fun.(*ast.SelectorExpr); ok {
						callee = "go:" + sel.Sel.Name
					}
				}
				return true
			})
		}
		if callee == "" {
			callee = "inline"
		}
		devOnly := false
		if len(cc.Body) > 0 {
			if is, ok := cc.Body[0].(*ast.IfStmt); ok && strings.Contains(exprText(is.Cond), "(!) s opts DevMode") {
				if _, ok := is.Body.List[len(is.Body.List)-1].(*ast.ReturnStmt); ok && strings.Contains(exprText(is.Body), "unknown command") {
					devOnly = true
				}
			}
		}
		for _, e := range cc.List {
			if v, ok := strLit(e); ok {
				hs = append(hs, handler{v, callee, details, devOnly})
			} else {
				fail("%s %s: non-literal case", fn, pos(e))
			}
		}
	}
	return hs
}

func genDispatch() string {
	var sb strings.Builder
	sb.WriteString(header)
	for _, x := range [][2]string{{"dispatch", "Server.command"}, {"dispatch_script", "Server.commandInScript"}} {
		hs := readDispatch(x[1])
		fmt.Fprintf(&sb, "(* from %s: command name, handler, does the handler return commandDetails *)\nDefinition %s : list handler :=\n  [", x[1], x[0])
		for i, h := range hs {
			if i > 0 {
				sb.WriteString(";\n   ")
			}
			fmt.Fprintf(&sb, "mkH %s %s %s", coqStr(h.cmd), coqStr(h.fn), coqBool(h.details))
		}
		sb.WriteString("].\n\n")
		if x[0] == "dispatch" {
			var dev []string
			for _, h := range hs {
				if h.devOnly {
					dev = append(dev, h.cmd)
				}
			}
			fmt.Fprintf(&sb, "(* commands whose arm refuses with unknown-command unless the server runs with --dev *)\nDefinition dev_only : list string := %s.\n\n", coqStrList(dev))
		}
	}
	return sb.String()
}

// ---------- gate order ----------

// genAuthGate records the order of the gate statements of handleInputCommand and
// the exemption lists they mention.
func genAuthGate() string {
	fd := funcs["Server.handleInputCommand"]
	if fd == nil {
		fail("handleInputCommand not found")
		return ""
	}
	type ev struct {
		p    token.Pos
		name string
	}
	var evs []ev
	var early, authExempt, loadingExempt []string
	var authdSite *ast.AssignStmt // the one recognised `client.authd = true`
	cmpStrings := func(e ast.Expr, op token.Token) []string {
		var out []string
		ast.Inspect(e, func(n ast.Node) bool {
			if b, ok := n.(*ast.BinaryExpr); ok && b.Op == op {
				if id, ok := b.X.(*ast.Ident); ok && id.Name == "cmd" {
					if s, ok := strLit(b.Y); ok {
						out = append(out, s)
					}
				}
			}
			return true
		})
		return out
	}
	for _, st := range fd.Body.List {
		switch x := st.(type) {
		case *ast.IfStmt:
			c := exprText(x.Cond)
			switch {
			case strings.Contains(c, `"ping"`) && strings.Contains(c, `"echo"`):
				evs = append(evs, ev{x.Pos(), "GEarlyReply"})
				early = cmpStrings(x.Cond, token.EQL)
				if _, ok := x.Body.List[len(x.Body.List)-1].(*ast.ReturnStmt); !ok {
					fail("handleInputCommand %s: ping/echo block does not end in return", pos(x))
				}
			case strings.Contains(c, "loadedAndReady"):
				evs = append(evs, ev{x.Pos(), "GLoading"})
				ast.Inspect(x.Body, func(n ast.Node) bool {
					if cc, ok := n.(*ast.CaseClause); ok {
						for _, e := range cc.List {
							if s, ok := strLit(e); ok {
								loadingExempt = append(loadingExempt, s)
							}
						}
					}
					return true
				})
			case strings.Contains(c, `"hello"`):
				evs = append(evs, ev{x.Pos(), "GHello"})
			case strings.Contains(c, `"timeout"`):
				evs = append(evs, ev{x.Pos(), "GTimeoutRewrite"})
			case strings.Contains(c, "authd"):
				evs = append(evs, ev{x.Pos(), "GAuth"})
				authExempt = cmpStrings(x.Cond, token.NEQ)
				body := exprText(x.Body)
				if !strings.Contains(body, "requirePass") || !strings.Contains(body, `"authentication required"`) || !strings.Contains(body, `"invalid password"`) {
					fail("handleInputCommand %s: auth block lost one of its refusals", pos(x))
				}
				// the only way past the block without a matching password is requirePass() == ""
				authdSite = checkAuthBlock(fd, x)
			case strings.Contains(c, "write") && strings.Contains(exprText(x.Body), "writeAOF"):
				evs = append(evs, ev{x.Pos(), "GWriteAOF"})
			}
		case *ast.SwitchStmt:
			if isCommandSwitch(x) {
				evs = append(evs, ev{x.Pos(), "GLockSwitch"})
			}
		case *ast.AssignStmt:
			if strings.Contains(exprText(x), "s command msg client") || callsMethod(x, "command") {
				evs = append(evs, ev{x.Pos(), "GCommand"})
			}
		}
	}
	sort.Slice(evs, func(i, j int) bool { return evs[i].p < evs[j].p })
	var names []string
	nAuth := 0
	for _, e := range evs {
		names = append(names, e.name)
		if e.name == "GAuth" {
			nAuth++
		}
	}
	if nAuth != 1 {
		fail("handleInputCommand: expected exactly one password block (if !client.authd ...), found %d", nAuth)
	}
	// every write to Client.authd anywhere in the package must be that one recognised statement
	authdWrites := countAuthdWrites(authdSite)
	// netServe: protected-mode refusal before the first read, quit handled before dispatch
	ns := funcs["Server.netServe"]
	protectedBeforeRead := false
	quitInNetServe := false
	if ns != nil {
		var pProt, pRead token.Pos
		ast.Inspect(ns.Body, func(n ast.Node) bool {
			if call, ok := n.(*ast.CallExpr); ok {
				if sel, ok := call.Fun.(*ast.SelectorExpr); ok {
					if sel.Sel.Name == "isProtected" && pProt == 0 {
						pProt = call.Pos()
					}
					if sel.Sel.Name == "Read" && pRead == 0 {
						if id, ok := sel.X.(*ast.Ident); ok && id.Name == "conn" {
							pRead = call.Pos()
						}
					}
				}
			}
			if b, ok := n.(*ast.BinaryExpr); ok && b.Op == token.EQL {
				if s, ok := strLit(b.Y); ok && s == "quit" {
					quitInNetServe = true
				}
			}
			return true
		})
		protectedBeforeRead = pProt != 0 && pRead != 0 && pProt < pRead
	} else {
		fail("netServe not found")
	}
	var sb strings.Builder
	sb.WriteString(header)
	fmt.Fprintf(&sb, "(* order of the gate statements in Server.handleInputCommand *)\nDefinition gate_order : list gate_step := [%s].\n", strings.Join(names, "; "))
	fmt.Fprintf(&sb, "Definition early_reply_cmds : list string := %s.\n", coqStrList(early))
	fmt.Fprintf(&sb, "Definition loading_exempt : list string := %s.\n", coqStrList(loadingExempt))
	fmt.Fprintf(&sb, "Definition auth_exempt : list string := %s.\n", coqStrList(authExempt))
	fmt.Fprintf(&sb, "(* number of statements in package server that can change Client.authd (assignments, composite\n   literals naming the field, address-of, whole-struct copies); the recognised one is `client.authd = true`\n   in the requirePass() != \"\" branch of the password block, after the comparison that returns \"invalid password\" *)\nDefinition authd_assignments : nat := %d.\n", authdWrites)
	fmt.Fprintf(&sb, "Definition protected_refusal_before_first_read : bool := %s.\n", coqBool(protectedBeforeRead))
	fmt.Fprintf(&sb, "Definition quit_handled_in_net_serve : bool := %s.\n", coqBool(quitInNetServe))
	return sb.String()
}

func callsMethod(n ast.Node, name string) bool {
	found := false
	ast.Inspect(n, func(m ast.Node) bool {
		if _, ok := m.(*ast.FuncLit); ok {
			return false
		}
		if call, ok := m.(*ast.CallExpr); ok {
			if sel, ok := call.Fun.(*ast.SelectorExpr); ok && sel.Sel.Name == name {
				found = true
			}
		}
		return true
	})
	return found
}

// isCallTo: e is a call <...>.<name>(...)
func isCallTo(e ast.Expr, name string) bool {
	call, ok := e.(*ast.CallExpr)
	if !ok {
		return false
	}
	sel, ok := call.Fun.(*ast.SelectorExpr)
	return ok && sel.Sel.Name == name
}

// isClientAuthd: e is a selector of the field `authd` of (a pointer to) the struct type Client
func isClientAuthd(e ast.Expr) bool {
	for {
		p, ok := e.(*ast.ParenExpr)
		if !ok {
			break
		}
		e = p.X
	}
	sel, ok := e.(*ast.SelectorExpr)
	if !ok || sel.Sel.Name != "authd" {
		return false
	}
	if s, ok := info.Selections[sel]; ok {
		return namedOf(s.Recv()) == "Client"
	}
	return false
}

func isUniverseTrue(e ast.Expr) bool {
	id, ok := e.(*ast.Ident)
	if !ok || id.Name != "true" {
		return false
	}
	c, ok := info.Uses[id].(*types.Const)
	return ok && c.Parent() == types.Universe
}

// returnsWriteErr: the block's last statement is `return writeErr("<text>")`
func returnsWriteErr(b *ast.BlockStmt, text string) bool {
	if len(b.List) == 0 {
		return false
	}
	ret, ok := b.List[len(b.List)-1].(*ast.ReturnStmt)
	if !ok || len(ret.Results) != 1 {
		return false
	}
	call, ok := ret.Results[0].(*ast.CallExpr)
	if !ok || len(call.Args) != 1 {
		return false
	}
	if id, ok := call.Fun.(*ast.Ident); !ok || id.Name != "writeErr" {
		return false
	}
	s, ok := strLit(call.Args[0])
	return ok && s == text
}

// checkAuthBlock: the password block is
//
//	if <cond mentioning authd> {
//	    if s.config.requirePass() != "" {
//	        ... return writeErr("authentication required") ...
//	        if s.config.requirePass() != <password> { return writeErr("invalid password") }
//	        client.authd = true            <- top-level statement of this branch, after the comparison
//	        ...
//	    } else if msg.Command() == "auth" { return writeErr("invalid password") }   (no further else)
//	}
//
// It returns the recognised assignment (nil when the shape is not understood). That any OTHER
// write to Client.authd is an error is checked by countAuthdWrites over the whole package.
func checkAuthBlock(fd *ast.FuncDecl, x *ast.IfStmt) *ast.AssignStmt {
	if x.Else != nil {
		fail("auth block %s: the password block has an else branch", pos(x))
	}
	if len(x.Body.List) != 1 {
		fail("auth block %s: expected a single if/else-if", pos(x))
		return nil
	}
	inner, ok := x.Body.List[0].(*ast.IfStmt)
	if !ok || inner.Init != nil {
		fail("auth block %s: first statement is not the requirePass test", pos(x))
		return nil
	}
	cond, ok := inner.Cond.(*ast.BinaryExpr)
	if !ok || cond.Op != token.NEQ || !isCallTo(cond.X, "requirePass") {
		fail("auth block %s: first statement is not `requirePass() != \"\"`", pos(x))
		return nil
	}
	if s, ok := strLit(cond.Y); !ok || s != "" {
		fail("auth block %s: first statement is not `requirePass() != \"\"`", pos(x))
		return nil
	}
	// the else side: nothing, or `else if msg.Command() == "auth" { return writeErr("invalid password") }`
	switch e := inner.Else.(type) {
	case nil:
	case *ast.IfStmt:
		c, ok := e.Cond.(*ast.BinaryExpr)
		s, isLit := "", false
		if ok {
			s, isLit = strLit(c.Y)
		}
		if !ok || c.Op != token.EQL || !isCallTo(c.X, "Command") || !isLit || s != "auth" ||
			!returnsWriteErr(e.Body, "invalid password") || len(e.Body.List) != 1 {
			fail("auth block %s: the no-password side is not `else if msg.Command() == \"auth\" { return writeErr(\"invalid password\") }`", pos(e))
		}
		if e.Else != nil {
			fail("auth block %s: the no-password side has a further else branch (a connection must gain nothing while no password is set)", pos(e.Else))
		}
	default:
		fail("auth block %s: the requirePass test has an unconditional else branch (a connection must gain nothing while no password is set)", pos(inner.Else))
	}
	// the client parameter of handleInputCommand
	var clientObj types.Object
	for _, f := range fd.Type.Params.List {
		for _, n := range f.Names {
			if namedOf(info.TypeOf(f.Type)) == "Client" {
				clientObj = info.Defs[n]
			}
		}
	}
	sawCmp := token.Pos(0)
	var site *ast.AssignStmt
	for _, st := range inner.Body.List {
		if is, ok := st.(*ast.IfStmt); ok {
			if c, ok := is.Cond.(*ast.BinaryExpr); ok && c.Op == token.NEQ && is.Init == nil && is.Else == nil &&
				(isCallTo(c.X, "requirePass") || isCallTo(c.Y, "requirePass")) && strings.Contains(exprText(c), "password") &&
				returnsWriteErr(is.Body, "invalid password") {
				sawCmp = is.Pos()
			}
		}
		if as, ok := st.(*ast.AssignStmt); ok && len(as.Lhs) == 1 && len(as.Rhs) == 1 && isClientAuthd(as.Lhs[0]) {
			if site != nil {
				fail("auth block %s: Client.authd is assigned twice in the password branch", pos(as))
				continue
			}
			var id *ast.Ident
			isId := false
			if sel, ok := as.Lhs[0].(*ast.SelectorExpr); ok {
				id, isId = sel.X.(*ast.Ident)
			}
			if as.Tok != token.ASSIGN || !isUniverseTrue(as.Rhs[0]) || !isId || clientObj == nil || info.Uses[id] != clientObj {
				fail("auth block %s: expected `client.authd = true` on the connection being served", pos(as))
				continue
			}
			site = as
		}
	}
	if sawCmp == 0 || site == nil || site.Pos() < sawCmp {
		fail("auth block %s: client.authd = true is not guarded by the password comparison", pos(x))
		return nil
	}
	return site
}

// countAuthdWrites walks every file of the package and counts the statements that can change the
// field authd of a Client: assignments / inc-dec with the field on the left, composite literals of
// Client that name it (or are positional), taking its address, and whole-struct assignments to a
// Client value. Every one that is not `allowed` is an error.
func countAuthdWrites(allowed *ast.AssignStmt) int {
	n := 0
	bad := func(node ast.Node, what string) {
		n++
		fail("%s: %s — the only place a connection may become authenticated is `client.authd = true` after the password comparison in handleInputCommand", pos(node), what)
	}
	isClientStruct := func(t types.Type) bool {
		if t == nil {
			return false
		}
		if _, isPtr := t.(*types.Pointer); isPtr {
			return false
		}
		return namedOf(t) == "Client"
	}
	for _, f := range pkg.Syntax {
		ast.Inspect(f, func(m ast.Node) bool {
			switch x := m.(type) {
			case *ast.AssignStmt:
				for _, l := range x.Lhs {
					if isClientAuthd(l) {
						if x == allowed {
							n++
						} else {
							bad(x, "assignment to Client.authd")
						}
					} else if id, ok := l.(*ast.Ident); ok && id.Name == "_" {
						// blank
					} else if x.Tok == token.ASSIGN && isClientStruct(info.TypeOf(l)) {
						bad(x, "whole-struct assignment to a Client (copies authd)")
					}
				}
			case *ast.IncDecStmt:
				if isClientAuthd(x.X) {
					bad(x, "inc/dec of Client.authd")
				}
			case *ast.UnaryExpr:
				if x.Op == token.AND && isClientAuthd(x.X) {
					bad(x, "address of Client.authd taken")
				}
			case *ast.CompositeLit:
				if isClientStruct(info.TypeOf(x)) {
					for _, el := range x.Elts {
						kv, ok := el.(*ast.KeyValueExpr)
						if !ok {
							bad(x, "positional Client literal (sets authd)")
							break
						}
						if id, ok := kv.Key.(*ast.Ident); ok && id.Name == "authd" {
							bad(kv, "Client literal sets authd")
						}
					}
				}
			}
			return true
		})
	}
	if allowed == nil && n == 0 {
		fail("no assignment to Client.authd found at all")
	}
	return n
}

// ---------- effects (lockset analysis) ----------

var guardedFields = map[string]bool{"cols": true, "hooks": true, "hooksOut": true, "hookTree": true, "hookCross": true,
	"hookExpires": true, "groupHooks": true, "groupObjects": true, "aofbuf": true, "aofsz": true, "shrinklog": true, "shrinking": true}

var mutatingMethods = map[string]bool{"Set": true, "Delete": true, "Clear": true, "Insert": true, "Replace": true,
	"ReplaceOrInsert": true, "Load": true, "DeleteHint": true, "SetHint": true, "DeleteMin": true, "DeleteMax": true, "PopMin": true, "PopMax": true, "Reset": true, "Truncate": true}

// Calls from Lua into the server go through luaTile38Call, which dispatches on the script
// tables (Gen/ScriptTables.v). The analysis stops there: what a script sub-command may do is
// decided by those tables and by the effects of luaTile38AtomicRW/RO/NonAtomic, which are
// entry points of their own.
const scriptBoundary = "Server.luaTile38Call"

// Commands are dispatched through handleInputCommand, whose locking is described by the lock
// table (Gen/LockTable.v) and checked per command against the effects of each handler. The
// call-graph closure therefore stops at handleInputCommand: what the per-connection goroutine does
// around it (the pre-write flush, going live) is then judged on its own.
const dispatchBoundary = "Server.handleInputCommand"

// methods of *collection.Collection that hand out objects
var collectionReads = map[string]bool{"Get": true, "Scan": true, "ScanRange": true, "SearchValues": true,
	"SearchValuesRange": true, "ScanGreaterOrEqual": true, "Within": true, "Intersects": true, "Nearby": true,
	"ScanExpires": true}

type effect struct {
	st   string // guarded structure
	ctx  int    // 0 none, 1 shared, 2 excl : lock acquired locally around the site
	site string
}

type callEdge struct {
	callee string
	ctx    int
	own    string // own mutexes (of shared server state) held around the call site
}

// one event of the lock history of a function body, in source order: a server lock acquisition
// (acq = 1 shared, 2 exclusive) or a synchronous call
type lockEvent struct {
	acq    int
	callee string
}

type fnInfo struct {
	direct []effect
	shared []swrite // writes to shared server state (see "shared server state" below)
	calls  []callEdge
	locks  bool // contains a server lock call
	goes   []string
	events []lockEvent
}

var fninfo = map[string]*fnInfo{}

func ctxName(c int) string { return []string{"CNone", "CShared", "CExcl"}[c] }

// rootServerField: s.cols / s.hooks ... (possibly nested) -> field name if guarded
func rootServerField(e ast.Expr) string {
	for {
		switch x := e.(type) {
		case *ast.SelectorExpr:
			if s, ok := info.Selections[x]; ok && s.Kind() == types.FieldVal && namedOf(s.Recv()) == "Server" && guardedFields[x.Sel.Name] {
				return x.Sel.Name
			}
			e = x.X
		case *ast.IndexExpr:
			e = x.X
		case *ast.StarExpr:
			e = x.X
		case *ast.ParenExpr:
			e = x.X
		case *ast.CallExpr:
			return ""
		default:
			return ""
		}
	}
}

func calleeKey(call *ast.CallExpr) string {
	var obj types.Object
	switch f := call.Fun.(type) {
	case *ast.Ident:
		obj = info.Uses[f]
	case *ast.SelectorExpr:
		obj = info.Uses[f.Sel]
	}
	fn, ok := obj.(*types.Func)
	if !ok || fn.Pkg() == nil || fn.Pkg().Path() != pkg.PkgPath {
		return ""
	}
	sig := fn.Type().(*types.Signature)
	if sig.Recv() != nil {
		return namedOf(sig.Recv().Type()) + "." + fn.Name()
	}
	return fn.Name()
}

func analyseFunc(key string, body *ast.BlockStmt) {
	fi := &fnInfo{}
	fninfo[key] = fi
	goN := 0
	var walkStmts func(list []ast.Stmt, ctx int, own []string)
	var walkNode func(n ast.Node, ctx int, own []string)
	walkNode = func(n ast.Node, ctx int, own []string) {
		if n == nil {
			return
		}
		ast.Inspect(n, func(m ast.Node) bool {
			switch x := m.(type) {
			case *ast.BlockStmt:
				walkStmts(x.List, ctx, own)
				return false
			case *ast.CaseClause:
				for _, e := range x.List {
					walkNode(e, ctx, own)
				}
				walkStmts(x.Body, ctx, own)
				return false
			case *ast.CommClause:
				walkNode(x.Comm, ctx, own)
				walkStmts(x.Body, ctx, own)
				return false
			case *ast.GoStmt:
				// a new thread: nothing is inherited
				if fl, ok := x.Call.Fun.(*ast.FuncLit); ok {
					goN++
					k := fmt.Sprintf("%s$go%d", key, goN)
					analyseFunc(k, fl.Body)
					fi.goes = append(fi.goes, k)
				} else if ck := calleeKey(x.Call); ck != "" {
					fi.goes = append(fi.goes, ck)
				}
				for _, a := range x.Call.Args {
					walkNode(a, ctx, own)
				}
				return false
			case *ast.FuncLit:
				// closures run synchronously in the context where they are written (iterators,
				// deferred functions); over-approximation
				walkStmts(x.Body.List, ctx, own)
				return false
			case *ast.CallExpr:
				if sel, ok := x.Fun.(*ast.SelectorExpr); ok {
					if serverLockCall(x) != "" {
						fi.locks = true
					}
					if tv, ok := info.Types[sel.X]; ok && collectionReads[sel.Sel.Name] &&
						namedPkgOf(tv.Type) == "github.com/tidwall/tile38/internal/collection.Collection" {
						fi.direct = append(fi.direct, effect{"read:Collection", ctx, pos(x)})
					}
					if mutatingMethods[sel.Sel.Name] {
						if f := rootServerField(sel.X); f != "" {
							fi.direct = append(fi.direct, effect{f, ctx, pos(x)})
						} else if tv, ok := info.Types[sel.X]; ok && namedPkgOf(tv.Type) == "github.com/tidwall/tile38/internal/collection.Collection" &&
							(sel.Sel.Name == "Set" || sel.Sel.Name == "Delete") {
							fi.direct = append(fi.direct, effect{"Collection", ctx, pos(x)})
						}
					}
				}
				if ck := calleeKey(x); ck != "" && ck != scriptBoundary && ck != dispatchBoundary {
					fi.calls = append(fi.calls, callEdge{ck, ctx, ownName(own)})
					fi.events = append(fi.events, lockEvent{0, ck})
				}
				fi.shared = append(fi.shared, sharedCallWrites(x, ctx, own)...)
				return true
			case *ast.AssignStmt:
				for _, l := range x.Lhs {
					if f := rootServerField(l); f != "" {
						fi.direct = append(fi.direct, effect{f, ctx, pos(x)})
					}
					if _, isIdent := l.(*ast.Ident); !isIdent {
						if f := sharedTarget(l); f != "" {
							fi.shared = append(fi.shared, swrite{f, ctx, ownName(own), pos(x)})
						}
					}
				}
				return true
			case *ast.IncDecStmt:
				if f := rootServerField(x.X); f != "" {
					fi.direct = append(fi.direct, effect{f, ctx, pos(x)})
				}
				if _, isIdent := x.X.(*ast.Ident); !isIdent {
					if f := sharedTarget(x.X); f != "" {
						fi.shared = append(fi.shared, swrite{f, ctx, ownName(own), pos(x)})
					}
				}
				return true
			}
			return true
		})
	}
	walkStmts = func(list []ast.Stmt, ctx int, own []string) {
		cur := ctx
		held := append([]string(nil), own...) // own mutexes of shared state held (exclusively) here
		for _, st := range list {
			if es, ok := st.(*ast.ExprStmt); ok {
				switch serverLockCall(es.X) {
				case "Lock", "LockLowPriority":
					fi.locks = true
					fi.events = append(fi.events, lockEvent{2, ""})
					cur = 2
					continue
				case "RLock":
					fi.locks = true
					fi.events = append(fi.events, lockEvent{1, ""})
					if cur < 1 {
						cur = 1
					}
					continue
				case "Unlock", "RUnlock":
					cur = ctx
					continue
				}
				if name, m := ownLockCall(es.X); name != "" {
					switch m {
					case "Lock":
						held = append(held, name)
					case "Unlock":
						held = removeStr(held, name)
					}
					continue
				}
			}
			if ds, ok := st.(*ast.DeferStmt); ok {
				if m := serverLockCall(ds.Call); m == "Unlock" || m == "RUnlock" {
					continue // region lasts to the end of this block
				}
				if name, m := ownLockCall(ds.Call); name != "" && (m == "Unlock" || m == "RUnlock") {
					continue // held to the end of this block
				}
				walkNode(ds.Call, cur, held)
				continue
			}
			walkNode(st, cur, held)
		}
	}
	walkStmts(body.List, 0, nil)
}

// ---------- shared server state (generalised lockset analysis) ----------
//
// Shared server state = the fields of every struct type the Server holds a single instance of:
// Server itself and, transitively, the struct types declared in this package that are the type of
// a (pointer or value) field of such a type (exprPool, lStatePool, lScriptMap, Config, pubsub, ...).
// Element types of maps / slices / channels are per-item, not single instances, and are left out.
//
// A write is an assignment, an inc/dec, a mutating container call (mutatingMethods, the atomic
// setters, delete / clear / copy) whose target is rooted, through selectors / indexing /
// dereferences only, at a value of such a type (the Server receiver, the receiver of a method of a
// singleton type, any other variable of such a pointer type) or at a local variable that was
// initialised from such a field chain without an intervening call (an alias: `ctx := p.ctx`).
// What a call hands out (`p.pool.Get()`: a sync.Pool hand-out, `newX()`) is not an alias.
// Each write is recorded with its server-lock context and with the mutexes *of shared state* that
// are held exclusively around it (own lock), or "atomic" / "sync" when the target is a sync/atomic
// value that synchronises itself.

type swrite struct {
	field string // "Type.field"
	ctx   int
	guard string // "" | "atomic" | "sync" | "Server.connsmu" | "a+b"
	site  string
}

var (
	singletons = map[string]bool{}
	aliasOf    = map[types.Object]string{}
)

var atomicSetters = map[string]bool{"Store": true, "Add": true, "Swap": true, "CompareAndSwap": true, "CAS": true,
	"Inc": true, "Dec": true, "Sub": true, "Toggle": true, "And": true, "Or": true}

// sync.Map / sync.Pool methods that change the container (Load / Range / Get do not)
var syncSetters = map[string]bool{"Store": true, "Delete": true, "LoadOrStore": true, "LoadAndDelete": true, "Swap": true,
	"CompareAndSwap": true, "CompareAndDelete": true, "Clear": true, "Put": true}

func ownName(own []string) string {
	if len(own) == 0 {
		return ""
	}
	l := append([]string(nil), own...)
	sort.Strings(l)
	var out []string
	for i, s := range l {
		if i == 0 || s != l[i-1] {
			out = append(out, s)
		}
	}
	return strings.Join(out, "+")
}

func removeStr(l []string, s string) []string {
	for i := len(l) - 1; i >= 0; i-- {
		if l[i] == s {
			return append(append([]string(nil), l[:i]...), l[i+1:]...)
		}
	}
	return l
}

func joinGuards(a, b string) string {
	if a == "" {
		return b
	}
	if b == "" {
		return a
	}
	return ownName(append(strings.Split(a, "+"), strings.Split(b, "+")...))
}

func localStruct(t types.Type) (*types.Named, *types.Struct) {
	if p, ok := t.(*types.Pointer); ok {
		t = p.Elem()
	}
	n, ok := t.(*types.Named)
	if !ok || n.Obj().Pkg() == nil || n.Obj().Pkg().Path() != pkg.PkgPath {
		return nil, nil
	}
	st, ok := n.Underlying().(*types.Struct)
	if !ok {
		return nil, nil
	}
	return n, st
}

func computeSingletons() {
	obj := pkg.Types.Scope().Lookup("Server")
	if obj == nil {
		fail("type Server not found")
		return
	}
	var visit func(t types.Type)
	visit = func(t types.Type) {
		n, st := localStruct(t)
		if n == nil || singletons[n.Obj().Name()] {
			return
		}
		singletons[n.Obj().Name()] = true
		for i := 0; i < st.NumFields(); i++ {
			visit(st.Field(i).Type())
		}
	}
	visit(obj.Type())
}

func isSingleton(t types.Type) string {
	n, _ := localStruct(t)
	if n != nil && singletons[n.Obj().Name()] {
		return n.Obj().Name()
	}
	return ""
}

func isRefType(t types.Type) bool {
	if t == nil {
		return false
	}
	switch t.Underlying().(type) {
	case *types.Pointer, *types.Map, *types.Slice:
		return true
	}
	return false
}

// sharedTarget: e designates (part of) a field of shared server state -> "Type.field", else "".
// Only selectors, indexing, dereferences, parentheses and type assertions are looked through; a
// call ends the chain. A chain that never passes through a pointer / map / slice and is rooted at
// a local struct value works on a copy and is not shared.
func sharedTarget(e ast.Expr) string {
	name := ""
	viaRef := false
	for {
		switch x := e.(type) {
		case *ast.SelectorExpr:
			if s, ok := info.Selections[x]; ok && s.Kind() == types.FieldVal {
				if name == "" {
					if t := isSingleton(s.Recv()); t != "" {
						name = t + "." + x.Sel.Name
					}
				}
				if isRefType(info.TypeOf(x.X)) {
					viaRef = true
				}
				e = x.X
				continue
			}
			return "" // package-qualified identifier or method value
		case *ast.IndexExpr:
			if isRefType(info.TypeOf(x.X)) {
				viaRef = true
			}
			e = x.X
		case *ast.SliceExpr:
			viaRef = true
			e = x.X
		case *ast.StarExpr:
			viaRef = true
			e = x.X
		case *ast.ParenExpr:
			e = x.X
		case *ast.TypeAssertExpr:
			e = x.X
		case *ast.UnaryExpr:
			if x.Op != token.AND {
				return ""
			}
			e = x.X
		case *ast.Ident:
			obj := info.Uses[x]
			if obj == nil {
				obj = info.Defs[x]
			}
			if name != "" {
				if viaRef {
					return name
				}
				if v, ok := obj.(*types.Var); ok && v.Parent() == pkg.Types.Scope() {
					return name // package-level value
				}
				return "" // a local copy of the struct
			}
			if a, ok := aliasOf[obj]; ok && viaRef {
				return a
			}
			return ""
		default:
			return ""
		}
	}
}

// computeAliases: local variables bound (`:=`, `=`, `var x = `) to a call-free chain that
// designates shared state and whose type lets a later write through them land in that state.
// Flow-insensitive (a variable that is an alias somewhere in the package is one everywhere).
func computeAliases() {
	bind := func(lhs ast.Expr, rhs ast.Expr) {
		id, ok := lhs.(*ast.Ident)
		if !ok || id.Name == "_" {
			return
		}
		obj := info.Defs[id]
		if obj == nil {
			obj = info.Uses[id]
		}
		v, ok := obj.(*types.Var)
		if !ok || v.IsField() || v.Parent() == pkg.Types.Scope() || !isRefType(v.Type()) {
			return
		}
		if isSingleton(v.Type()) != "" {
			return // a pointer to a singleton struct is recognised by its type already
		}
		// the chain must reach shared state by itself: pretend one more dereference
		if t := sharedTarget(&ast.StarExpr{X: rhs}); t != "" {
			aliasOf[obj] = t
		}
	}
	for round := 0; round < 3; round++ { // aliases of aliases
		for _, f := range pkg.Syntax {
			ast.Inspect(f, func(n ast.Node) bool {
				switch x := n.(type) {
				case *ast.AssignStmt:
					if len(x.Lhs) == len(x.Rhs) {
						for i := range x.Lhs {
							bind(x.Lhs[i], x.Rhs[i])
						}
					}
				case *ast.ValueSpec:
					if len(x.Names) == len(x.Values) {
						for i := range x.Names {
							bind(x.Names[i], x.Values[i])
						}
					}
				}
				return true
			})
		}
	}
}

func typePkgPath(t types.Type) string {
	for {
		switch x := t.(type) {
		case *types.Pointer:
			t = x.Elem()
			continue
		case *types.Named:
			if x.Obj().Pkg() != nil {
				return x.Obj().Pkg().Path()
			}
		}
		return ""
	}
}

// ownLockCall: <m>.Lock() / Unlock() / RLock() / RUnlock() on a sync mutex (or sync.Locker) that is
// part of shared server state and is not the server lock -> ("Type.field", method)
func ownLockCall(e ast.Expr) (string, string) {
	call, ok := e.(*ast.CallExpr)
	if !ok || len(call.Args) != 0 {
		return "", ""
	}
	sel, ok := call.Fun.(*ast.SelectorExpr)
	if !ok {
		return "", ""
	}
	switch sel.Sel.Name {
	case "Lock", "Unlock", "RLock", "RUnlock":
	default:
		return "", ""
	}
	if serverLockCall(e) != "" {
		return "", ""
	}
	t := info.TypeOf(sel.X)
	if t == nil {
		return "", ""
	}
	if p := typePkgPath(t); p != "sync" {
		return "", ""
	}
	name := sharedTarget(&ast.StarExpr{X: sel.X})
	if name == "" {
		return "", ""
	}
	return name, sel.Sel.Name
}

// sharedCallWrites: mutating container calls / atomic setters / delete, clear, copy on shared state
func sharedCallWrites(x *ast.CallExpr, ctx int, own []string) []swrite {
	var out []swrite
	if id, ok := x.Fun.(*ast.Ident); ok {
		if b, ok := info.Uses[id].(*types.Builtin); ok && len(x.Args) > 0 {
			switch b.Name() {
			case "delete", "clear", "copy":
				if f := sharedTarget(&ast.StarExpr{X: x.Args[0]}); f != "" {
					out = append(out, swrite{f, ctx, ownName(own), pos(x)})
				}
			}
		}
		return out
	}
	sel, ok := x.Fun.(*ast.SelectorExpr)
	if !ok {
		return nil
	}
	if _, isMethod := info.Selections[sel]; !isMethod {
		return nil
	}
	if calleeKey(x) != "" {
		return nil // a method of this package: its body is analysed through the call graph
	}
	t := info.TypeOf(sel.X)
	if t == nil {
		return nil
	}
	pp := typePkgPath(t)
	guard := ownName(own)
	switch {
	case pp == "sync/atomic" || pp == "go.uber.org/atomic":
		if !atomicSetters[sel.Sel.Name] {
			return nil
		}
		guard = joinGuards(guard, "atomic")
	case pp == "sync":
		if !syncSetters[sel.Sel.Name] {
			return nil
		}
		guard = joinGuards(guard, "sync")
	default:
		if !mutatingMethods[sel.Sel.Name] {
			return nil
		}
	}
	if f := sharedTarget(&ast.StarExpr{X: sel.X}); f != "" {
		out = append(out, swrite{f, ctx, guard, pos(x)})
	}
	return out
}

// sharedClosure: shared-state writes reachable from root, with the strongest server lock and the
// own mutexes acquired locally (in root or on the call path) around each
func sharedClosure(root string) []swrite {
	type key struct {
		fn  string
		ctx int
		own string
	}
	seen := map[key]bool{}
	var out []swrite
	dedup := map[string]bool{}
	var visit func(fn string, ctx int, own string)
	visit = func(fn string, ctx int, own string) {
		k := key{fn, ctx, own}
		if seen[k] {
			return
		}
		seen[k] = true
		fi := fninfo[fn]
		if fi == nil {
			return
		}
		for _, e := range fi.shared {
			ee := swrite{e.field, maxi(e.ctx, ctx), joinGuards(e.guard, own), e.site}
			id := fmt.Sprintf("%s/%d/%s/%s", ee.field, ee.ctx, ee.guard, ee.site)
			if !dedup[id] {
				dedup[id] = true
				out = append(out, ee)
			}
		}
		for _, c := range fi.calls {
			visit(c.callee, maxi(ctx, c.ctx), joinGuards(own, c.own))
		}
	}
	visit(root, 0, "")
	sort.Slice(out, func(i, j int) bool {
		a, b := out[i], out[j]
		if a.field != b.field {
			return a.field < b.field
		}
		if a.site != b.site {
			return a.site < b.site
		}
		if a.ctx != b.ctx {
			return a.ctx < b.ctx
		}
		return a.guard < b.guard
	})
	return out
}

// lockRegions: the server lock acquisitions of root and of everything it calls synchronously, in
// source order (a callee's acquisitions at its first call site; recursion cut)
func lockRegions(root string) []int {
	var out []int
	seen := map[string]bool{}
	var visit func(fn string)
	visit = func(fn string) {
		if seen[fn] {
			return
		}
		seen[fn] = true
		fi := fninfo[fn]
		if fi == nil {
			return
		}
		for _, ev := range fi.events {
			if ev.acq != 0 {
				out = append(out, ev.acq)
			} else {
				visit(ev.callee)
			}
		}
	}
	visit(root)
	return out
}

func maxi(a, b int) int {
	if a > b {
		return a
	}
	return b
}

// closure: effects reachable from fn with the locally acquired context
func closure(root string) []effect {
	type key struct {
		fn  string
		ctx int
	}
	seen := map[key]bool{}
	var out []effect
	dedup := map[string]bool{}
	var visit func(fn string, ctx int)
	visit = func(fn string, ctx int) {
		k := key{fn, ctx}
		if seen[k] {
			return
		}
		seen[k] = true
		fi := fninfo[fn]
		if fi == nil {
			return
		}
		for _, e := range fi.direct {
			ee := effect{e.st, maxi(e.ctx, ctx), e.site}
			id := fmt.Sprintf("%s/%d/%s", ee.st, ee.ctx, ee.site)
			if !dedup[id] {
				dedup[id] = true
				out = append(out, ee)
			}
		}
		for _, c := range fi.calls {
			visit(c.callee, maxi(ctx, c.ctx))
		}
	}
	visit(root, 0)
	sort.Slice(out, func(i, j int) bool {
		if out[i].st != out[j].st {
			return out[i].st < out[j].st
		}
		if out[i].site != out[j].site {
			return out[i].site < out[j].site
		}
		return out[i].ctx < out[j].ctx
	})
	return out
}

// callsLock: does fn (transitively, synchronously) call a server lock method
func callsLock(root string) bool {
	seen := map[string]bool{}
	var visit func(fn string) bool
	visit = func(fn string) bool {
		if seen[fn] {
			return false
		}
		seen[fn] = true
		fi := fninfo[fn]
		if fi == nil {
			return false
		}
		if fi.locks {
			return true
		}
		for _, c := range fi.calls {
			if visit(c.callee) {
				return true
			}
		}
		return false
	}
	return visit(root)
}

func genMutators() string {
	keys := []string{}
	for k := range funcs {
		keys = append(keys, k)
	}
	sort.Strings(keys)
	computeSingletons()
	computeAliases()
	for _, k := range keys {
		analyseFunc(k, funcs[k].Body)
	}
	// entry points: every dispatch handler, every goroutine target, and the named background loops
	entries := map[string]bool{}
	for _, fn := range []string{"Server.command", "Server.commandInScript"} {
		for _, h := range readDispatch(fn) {
			if strings.HasPrefix(h.fn, "cmd") {
				entries["Server."+h.fn] = true
			}
			if strings.HasPrefix(h.fn, "go:") {
				entries["Server."+strings.TrimPrefix(h.fn, "go:")] = true
			}
		}
	}
	for k, fi := range fninfo {
		_ = k
		for _, g := range fi.goes {
			entries[g] = true
		}
	}
	for _, e := range []string{"Server.writeAOF", "Server.flushAOF", "Server.loadAOF", "Server.followHandleCommand",
		"Server.backgroundExpireObjects", "Server.backgroundExpireHooks", "Server.luaTile38AtomicRW",
		"Server.luaTile38AtomicRO", "Server.luaTile38NonAtomic", "Server.cmdEvalUnified"} {
		if funcs[e] == nil {
			fail("entry point %s not found", e)
		}
		entries[e] = true
	}
	var es []string
	for e := range entries {
		if fninfo[e] != nil {
			es = append(es, e)
		}
	}
	sort.Strings(es)
	var sb strings.Builder
	sb.WriteString(header)
	sb.WriteString("(* per entry point: (guarded structure, strongest server lock acquired locally around the\n   mutation site, site) for every mutation reachable through synchronous calls; and whether the\n   entry point (transitively) calls a server lock method itself *)\n")
	sb.WriteString("Definition effects : list (string * list mut) :=\n  [")
	for i, e := range es {
		if i > 0 {
			sb.WriteString(";\n   ")
		}
		fmt.Fprintf(&sb, "(%s, [", coqStr(strings.TrimPrefix(e, "Server.")))
		for j, m := range closure(e) {
			if j > 0 {
				sb.WriteString("; ")
			}
			fmt.Fprintf(&sb, "mkMut %s %s %s", coqStr(m.st), ctxName(m.ctx), coqStr(m.site))
		}
		sb.WriteString("])")
	}
	sb.WriteString("].\n\n")
	var goes []string
	seenGo := map[string]bool{}
	for _, fi := range fninfo {
		for _, g := range fi.goes {
			if !seenGo[g] && fninfo[g] != nil {
				seenGo[g] = true
				goes = append(goes, strings.TrimPrefix(g, "Server."))
			}
		}
	}
	sort.Strings(goes)
	fmt.Fprintf(&sb, "(* roots of every goroutine started in the package (`go f()` / `go func(){...}()`) *)\nDefinition go_entries : list string := %s.\n\n", coqStrList(goes))
	sb.WriteString("Definition takes_lock : list (string * bool) :=\n  [")
	for i, e := range es {
		if i > 0 {
			sb.WriteString("; ")
		}
		fmt.Fprintf(&sb, "(%s, %s)", coqStr(strings.TrimPrefix(e, "Server.")), coqBool(callsLock(e)))
	}
	sb.WriteString("].\n\n")
	// shared server state
	var sing []string
	for t := range singletons {
		sing = append(sing, t)
	}
	sort.Strings(sing)
	fmt.Fprintf(&sb, "(* struct types the Server holds a single instance of (Server, and transitively the struct types of\n   this package that are the type of a field of one) *)\nDefinition singleton_types : list string := %s.\n\n", coqStrList(sing))
	sb.WriteString("(* per entry point: every write to a field of such a type reachable through synchronous calls:\n   (Type.field, strongest server lock acquired locally around the site, own guard, site); own guard =\n   the mutexes of shared state held exclusively around the site (in the function or on the call path),\n   \"atomic\" / \"sync\" for sync/atomic values, \"\" when there is none *)\n")
	sb.WriteString("Definition shared_writes : list (string * list (string * ctx * string * string)) :=\n  [")
	for i, e := range es {
		if i > 0 {
			sb.WriteString(";\n   ")
		}
		fmt.Fprintf(&sb, "(%s, [", coqStr(strings.TrimPrefix(e, "Server.")))
		for j, w := range sharedClosure(e) {
			if j > 0 {
				sb.WriteString("; ")
			}
			fmt.Fprintf(&sb, "(%s, %s, %s, %s)", coqStr(w.field), ctxName(w.ctx), coqStr(w.guard), coqStr(w.site))
		}
		sb.WriteString("])")
	}
	sb.WriteString("].\n\n")
	sb.WriteString("(* per entry point: the server lock acquisitions of the entry point and of everything it calls\n   synchronously, in source order *)\nDefinition lock_regions : list (string * list ctx) :=\n  [")
	for i, e := range es {
		if i > 0 {
			sb.WriteString("; ")
		}
		var rs []string
		for _, a := range lockRegions(e) {
			rs = append(rs, ctxName(a))
		}
		fmt.Fprintf(&sb, "(%s, [%s])", coqStr(strings.TrimPrefix(e, "Server.")), strings.Join(rs, "; "))
	}
	sb.WriteString("].\n")
	sb.WriteString(genQueues())
	return sb.String()
}

// ---------- queue discipline of the hand-over slices ----------

// isFieldOf: e is exactly the selector <x>.<field> of the struct type typ
func isFieldOf(e ast.Expr, typ, field string) bool {
	for {
		p, ok := e.(*ast.ParenExpr)
		if !ok {
			break
		}
		e = p.X
	}
	sel, ok := e.(*ast.SelectorExpr)
	if !ok || sel.Sel.Name != field {
		return false
	}
	if s, ok := info.Selections[sel]; ok && s.Kind() == types.FieldVal {
		return namedOf(s.Recv()) == typ
	}
	return false
}

func isIntLit(e ast.Expr, v string) bool {
	bl, ok := e.(*ast.BasicLit)
	return ok && bl.Kind == token.INT && bl.Value == v
}

// queueDiscipline reads every statement of the package that assigns the slice field typ.field and
// every element read in a function that pops from it. Recognised:
//
//	F = append(F, x...)            push at the back          F = append(xs, F...)     push at the front
//	F = F[1:]   with reads F[0]    pop from the front        F = F[:n]  with reads F[<not 0>]   pop from the back
//	F = nil                         (empty) reset             F[i] = nil               slot clearing, ignored
//
// anything else is an error. Returns (every push is at the back, every pop is from the front).
func queueDiscipline(typ, field string) (pushBack, popFront bool) {
	where := typ + "." + field
	pushes, pops := 0, 0
	pushBack, popFront = true, true
	keys := []string{}
	for k := range funcs {
		keys = append(keys, k)
	}
	sort.Strings(keys)
	for _, k := range keys {
		fd := funcs[k]
		popsHere := 0
		frontPopHere, backPopHere := false, false
		lhs := map[ast.Expr]bool{}
		ast.Inspect(fd.Body, func(n ast.Node) bool {
			as, ok := n.(*ast.AssignStmt)
			if !ok {
				return true
			}
			for i, l := range as.Lhs {
				lhs[l] = true
				if ix, ok := l.(*ast.IndexExpr); ok {
					lhs[ix] = true
				}
				if !isFieldOf(l, typ, field) {
					continue
				}
				if len(as.Lhs) != len(as.Rhs) || as.Tok != token.ASSIGN {
					fail("queue %s %s: unknown assignment shape", where, pos(as))
					continue
				}
				switch r := as.Rhs[i].(type) {
				case *ast.Ident:
					if r.Name != "nil" {
						fail("queue %s %s: assigned from %s", where, pos(as), r.Name)
					}
				case *ast.CallExpr:
					id, ok := r.Fun.(*ast.Ident)
					if !ok || id.Name != "append" || len(r.Args) < 2 {
						fail("queue %s %s: assigned from an unknown call", where, pos(as))
						continue
					}
					switch {
					case isFieldOf(r.Args[0], typ, field):
						pushes++
					case r.Ellipsis.IsValid() && isFieldOf(r.Args[len(r.Args)-1], typ, field):
						pushes++
						pushBack = false
					default:
						fail("queue %s %s: append that does not extend the queue", where, pos(as))
					}
				case *ast.SliceExpr:
					if !isFieldOf(r.X, typ, field) || r.Slice3 {
						fail("queue %s %s: resliced from something else", where, pos(as))
						continue
					}
					switch {
					case r.Low != nil && r.High == nil && isIntLit(r.Low, "1"):
						pops++
						popsHere++
						frontPopHere = true
					case r.Low == nil && r.High != nil:
						pops++
						popsHere++
						backPopHere = true
						popFront = false
					default:
						fail("queue %s %s: unknown reslice", where, pos(as))
					}
				default:
					fail("queue %s %s: unknown right-hand side", where, pos(as))
				}
			}
			return true
		})
		if popsHere == 0 {
			continue
		}
		// the element that is taken: every read F[i] in a popping function
		ast.Inspect(fd.Body, func(n ast.Node) bool {
			ix, ok := n.(*ast.IndexExpr)
			if !ok || lhs[ix] || !isFieldOf(ix.X, typ, field) {
				return true
			}
			zero := isIntLit(ix.Index, "0")
			if zero && backPopHere || !zero && frontPopHere {
				fail("queue %s %s: the element read and the end that is cut off disagree", where, pos(ix))
			}
			if !zero {
				popFront = false
			}
			return true
		})
	}
	if pushes == 0 || pops == 0 {
		fail("queue %s: expected at least one push and one pop (found %d, %d)", where, pushes, pops)
	}
	return
}

// ---------- cells of the hand-over queues ----------
//
// Server.lstack keeps POINTERS to commandDetails; processLives / goLive read what they point to
// later, after the writer has released the server lock. What the consumer reads for entry i is the
// details of write i only if the cell that was pushed is not pushed again and not written again.
// For every queue field of queue_disc that is shared state, t38x finds the functions that push one
// of their pointer parameters (directly: `Q = append(Q, p)`, or the elements of a slice field of
// it: `Q = append(Q, p.f...)`), closes that over wrappers that pass their own parameter on, and
// classifies the argument at every call site, and every element appended to such a slice field:
//
//	fresh:  &T{...} / nil / &v where v is a local variable declared inside every loop and closure
//	        that encloses the site (one cell per iteration), that is handed to no other pushing
//	        site, and that is not assigned after the site
//	shared: anything else (a variable that outlives the iteration, an unknown expression)

type retainer struct {
	fn    string // funcKey
	param int    // index in the parameter list (receiver not counted)
	elems string // "" or the slice field of the parameter whose elements are pushed
}

type cellSite struct {
	site, how string
	fresh     bool
}

func paramIndex(fd *ast.FuncDecl, obj types.Object) int {
	i := 0
	for _, f := range fd.Type.Params.List {
		for _, n := range f.Names {
			if info.Defs[n] == obj {
				return i
			}
			i++
		}
		if len(f.Names) == 0 {
			i++
		}
	}
	return -1
}

func identObj(e ast.Expr) types.Object {
	for {
		p, ok := e.(*ast.ParenExpr)
		if !ok {
			break
		}
		e = p.X
	}
	if id, ok := e.(*ast.Ident); ok {
		return info.Uses[id]
	}
	return nil
}

// enclosing returns the chain of nodes from the function body down to the node at position p
func enclosing(root ast.Node, p token.Pos) []ast.Node {
	var path []ast.Node
	ast.Inspect(root, func(n ast.Node) bool {
		if n == nil {
			return false
		}
		if n.Pos() <= p && p < n.End() {
			path = append(path, n)
			return true
		}
		return false
	})
	return path
}

func queueCells(typ, field string) []cellSite {
	var out []cellSite
	// 1. direct retainers
	var rets []retainer
	has := func(r retainer) bool {
		for _, x := range rets {
			if x == r {
				return true
			}
		}
		return false
	}
	keys := []string{}
	for k := range funcs {
		keys = append(keys, k)
	}
	sort.Strings(keys)
	for _, k := range keys {
		fd := funcs[k]
		ast.Inspect(fd.Body, func(n ast.Node) bool {
			as, ok := n.(*ast.AssignStmt)
			if !ok || len(as.Lhs) != len(as.Rhs) {
				return true
			}
			for i, l := range as.Lhs {
				if !isFieldOf(l, typ, field) {
					continue
				}
				call, ok := as.Rhs[i].(*ast.CallExpr)
				if !ok {
					continue
				}
				if id, ok := call.Fun.(*ast.Ident); !ok || id.Name != "append" {
					continue
				}
				for j, a := range call.Args[1:] {
					last := j == len(call.Args)-2
					if obj := identObj(a); obj != nil {
						if pi := paramIndex(fd, obj); pi >= 0 {
							if _, isPtr := obj.Type().Underlying().(*types.Pointer); isPtr && !has(retainer{k, pi, ""}) {
								rets = append(rets, retainer{k, pi, ""})
							}
						}
						continue
					}
					if sel, ok := a.(*ast.SelectorExpr); ok && last && call.Ellipsis.IsValid() {
						if obj := identObj(sel.X); obj != nil {
							ef := namedOf(obj.Type()) + "." + sel.Sel.Name
							if pi := paramIndex(fd, obj); pi >= 0 && !has(retainer{k, pi, ef}) {
								rets = append(rets, retainer{k, pi, ef})
							}
						}
					}
				}
			}
			return true
		})
	}
	if len(rets) == 0 {
		return nil
	}
	// 2. call sites (and wrappers that pass their own parameter on), to a fixpoint
	type csite struct {
		fd   *ast.FuncDecl
		call *ast.CallExpr
		arg  ast.Expr
	}
	var sites []csite
	seenCall := map[*ast.CallExpr]bool{}
	for changed := true; changed; {
		changed = false
		for _, k := range keys {
			fd := funcs[k]
			ast.Inspect(fd.Body, func(n ast.Node) bool {
				call, ok := n.(*ast.CallExpr)
				if !ok {
					return true
				}
				ck := calleeKey(call)
				for _, r := range rets {
					if r.fn != ck || r.param >= len(call.Args) {
						continue
					}
					a := call.Args[r.param]
					if obj := identObj(a); obj != nil {
						if pi := paramIndex(fd, obj); pi >= 0 {
							if _, isPtr := obj.Type().Underlying().(*types.Pointer); isPtr {
								if !has(retainer{k, pi, r.elems}) {
									rets = append(rets, retainer{k, pi, r.elems})
									changed = true
								}
								continue
							}
						}
					}
					if r.elems == "" && !seenCall[call] {
						seenCall[call] = true
						sites = append(sites, csite{fd, call, a})
					}
				}
				return true
			})
		}
	}
	// how often each variable is handed to a pushing site
	handed := map[types.Object]int{}
	addrVar := func(e ast.Expr) types.Object {
		u, ok := e.(*ast.UnaryExpr)
		if !ok || u.Op != token.AND {
			return nil
		}
		return identObj(u.X)
	}
	for _, c := range sites {
		if v := addrVar(c.arg); v != nil {
			handed[v]++
		}
	}
	classify := func(fd *ast.FuncDecl, at ast.Node, e ast.Expr) (string, bool) {
		for {
			p, ok := e.(*ast.ParenExpr)
			if !ok {
				break
			}
			e = p.X
		}
		if id, ok := e.(*ast.Ident); ok && id.Name == "nil" {
			return "nil", true
		}
		u, ok := e.(*ast.UnaryExpr)
		if !ok || u.Op != token.AND {
			return "unknown expression", false
		}
		if _, ok := u.X.(*ast.CompositeLit); ok {
			return "new literal", true
		}
		obj := identObj(u.X)
		v, ok := obj.(*types.Var)
		if !ok || v.IsField() || v.Parent() == pkg.Types.Scope() {
			return "address of a non-local", false
		}
		for _, n := range enclosing(fd.Body, at.Pos()) {
			switch n.(type) {
			case *ast.ForStmt, *ast.RangeStmt, *ast.FuncLit:
				if !(n.Pos() <= v.Pos() && v.Pos() < n.End()) {
					return "&" + v.Name() + ": declared outside the loop / closure around the site", false
				}
			}
		}
		if handed[obj] > 1 {
			return "&" + v.Name() + ": handed to more than one pushing site", false
		}
		written := false
		ast.Inspect(fd.Body, func(n ast.Node) bool {
			if n == nil || n.Pos() < at.End() {
				return true
			}
			switch x := n.(type) {
			case *ast.AssignStmt:
				for _, l := range x.Lhs {
					r := l
					for {
						switch y := r.(type) {
						case *ast.SelectorExpr:
							r = y.X
							continue
						case *ast.IndexExpr:
							r = y.X
							continue
						case *ast.ParenExpr:
							r = y.X
							continue
						}
						break
					}
					if identObj(r) == obj {
						written = true
					}
				}
			case *ast.IncDecStmt:
				if identObj(x.X) == obj {
					written = true
				}
			}
			return true
		})
		if written {
			return "&" + v.Name() + ": assigned after the site", false
		}
		return "&" + v.Name() + ": one variable per call", true
	}
	for _, c := range sites {
		how, fresh := classify(c.fd, c.call, c.arg)
		out = append(out, cellSite{pos(c.call), how, fresh})
	}
	// 3. elements of the slice fields that are pushed with `...`
	elemFields := map[string]bool{}
	for _, r := range rets {
		if r.elems != "" {
			elemFields[r.elems] = true
		}
	}
	for _, k := range keys {
		fd := funcs[k]
		// local slices that are assigned to such a field in this function
		feeds := map[types.Object]bool{}
		ast.Inspect(fd.Body, func(n ast.Node) bool {
			as, ok := n.(*ast.AssignStmt)
			if !ok || len(as.Lhs) != len(as.Rhs) {
				return true
			}
			for i, l := range as.Lhs {
				if sel, ok := l.(*ast.SelectorExpr); ok {
					if s, ok := info.Selections[sel]; ok && s.Kind() == types.FieldVal && elemFields[namedOf(s.Recv())+"."+sel.Sel.Name] {
						if obj := identObj(as.Rhs[i]); obj != nil {
							feeds[obj] = true
						} else if id, ok := as.Rhs[i].(*ast.Ident); !ok || id.Name != "nil" {
							if call, ok := as.Rhs[i].(*ast.CallExpr); ok {
								if f, ok := call.Fun.(*ast.Ident); ok && f.Name == "append" && !call.Ellipsis.IsValid() {
									for _, a := range call.Args[1:] {
										how, fresh := classify(fd, as, a)
										out = append(out, cellSite{pos(a), how, fresh})
									}
									continue
								}
							}
							out = append(out, cellSite{pos(as), "unknown expression assigned to ." + sel.Sel.Name, false})
						}
					}
				}
			}
			return true
		})
		if len(feeds) == 0 {
			continue
		}
		ast.Inspect(fd.Body, func(n ast.Node) bool {
			as, ok := n.(*ast.AssignStmt)
			if !ok || len(as.Lhs) != len(as.Rhs) {
				return true
			}
			for i, l := range as.Lhs {
				id, ok := l.(*ast.Ident)
				if !ok {
					continue
				}
				obj := info.Uses[id]
				if obj == nil {
					obj = info.Defs[id]
				}
				if !feeds[obj] {
					continue
				}
				switch r := as.Rhs[i].(type) {
				case *ast.CallExpr:
					f, ok := r.Fun.(*ast.Ident)
					if ok && f.Name == "append" && !r.Ellipsis.IsValid() && identObj(r.Args[0]) == obj {
						for _, a := range r.Args[1:] {
							how, fresh := classify(fd, as, a)
							out = append(out, cellSite{pos(a), how, fresh})
						}
						continue
					}
					if ok && f.Name == "make" {
						continue
					}
					out = append(out, cellSite{pos(as), "unknown expression feeding a pushed slice", false})
				case *ast.Ident:
					if r.Name != "nil" {
						out = append(out, cellSite{pos(as), "unknown expression feeding a pushed slice", false})
					}
				default:
					out = append(out, cellSite{pos(as), "unknown expression feeding a pushed slice", false})
				}
			}
			return true
		})
	}
	sort.Slice(out, func(i, j int) bool { return out[i].site < out[j].site })
	return out
}

func genQueues() string {
	var sb strings.Builder
	sb.WriteString("\n(* the slices that hand a logged write over to the live fence connections (aof.go writeAOF ->\n   Server.lstack -> live.go processLives -> liveBuffer.details -> goLive): (field, (every push appends at\n   the back, every pop takes the element at the front)) *)\nDefinition queue_disc : list (string * (bool * bool)) :=\n  [")
	for i, q := range [][2]string{{"Server", "lstack"}, {"liveBuffer", "details"}} {
		if i > 0 {
			sb.WriteString("; ")
		}
		pb, pf := queueDiscipline(q[0], q[1])
		fmt.Fprintf(&sb, "(%s, (%s, %s))", coqStr(q[0]+"."+q[1]), coqBool(pb), coqBool(pf))
	}
	sb.WriteString("].\n")
	sb.WriteString("\n(* the cells behind the entries of those queues: Server.lstack keeps pointers, the live fence\n   connections read what they point to after the writer released the lock. Every site that hands a\n   cell to a pushing function (call sites of writeAOF and of its wrappers) or appends an element to a\n   slice whose elements are pushed: (site, (is the cell one that no other push and no later assignment\n   touches, how)) *)\nDefinition queue_cells : list (string * (bool * string)) :=\n  [")
	first := true
	for _, q := range [][2]string{{"Server", "lstack"}} {
		for _, c := range queueCells(q[0], q[1]) {
			if !first {
				sb.WriteString(";\n   ")
			}
			first = false
			fmt.Fprintf(&sb, "(%s, (%s, %s))", coqStr(c.site), coqBool(c.fresh), coqStr(c.how))
		}
	}
	if first {
		fail("queue cells: no site hands a cell to Server.lstack")
	}
	sb.WriteString("].\n")
	return sb.String()
}

// ---------- constants ----------

func genConsts() string {
	var sb strings.Builder
	sb.WriteString("(* GENERATED by /verif/t38x from /repo on every check run. Do not edit. *)\nFrom Coq Require Import ZArith.\nOpen Scope Z_scope.\n\n")
	want := map[string]bool{"maxkeys": true, "maxids": true, "checksumsz": true, "bgExpireDelay": true, "maxchunk": true}
	names := []string{}
	vals := map[string]string{}
	scope := pkg.Types.Scope()
	for _, n := range scope.Names() {
		if c, ok := scope.Lookup(n).(*types.Const); ok && want[n] {
			if c.Val().Kind() == constant.Int {
				vals[n] = c.Val().ExactString()
				names = append(names, n)
			}
		}
	}
	// function-local constants (maxkeys / maxids live inside aofshrink)
	for _, f := range pkg.Syntax {
		ast.Inspect(f, func(n ast.Node) bool {
			if vs, ok := n.(*ast.ValueSpec); ok {
				for _, id := range vs.Names {
					if want[id.Name] && vals[id.Name] == "" {
						if c, ok := info.Defs[id].(*types.Const); ok && c.Val().Kind() == constant.Int {
							vals[id.Name] = c.Val().ExactString()
							names = append(names, id.Name)
						}
					}
				}
			}
			return true
		})
	}
	sort.Strings(names)
	for _, n := range names {
		fmt.Fprintf(&sb, "Definition c_%s : Z := %s.\n", n, vals[n])
	}
	return sb.String()
}

func genCommandTable(repo string) string {
	// core/commands.json: top-level keys are the documented command names
	b, err := os.ReadFile(filepath.Join(repo, "core", "commands.json"))
	if err != nil {
		fail("cannot read core/commands.json: %v", err)
		return ""
	}
	// a tiny scanner: top-level object keys
	var names []string
	depth := 0
	inStr := false
	esc := false
	var cur strings.Builder
	var last string
	for _, c := range string(b) {
		if inStr {
			if esc {
				esc = false
				cur.WriteRune(c)
				continue
			}
			if c == '\\' {
				esc = true
				continue
			}
			if c == '"' {
				inStr = false
				last = cur.String()
				continue
			}
			cur.WriteRune(c)
			continue
		}
		switch c {
		case '"':
			inStr = true
			cur.Reset()
		case '{', '[':
			depth++
		case '}', ']':
			depth--
		case ':':
			if depth == 1 {
				names = append(names, strings.ToLower(last))
			}
		}
	}
	sort.Strings(names)
	return header + fmt.Sprintf("(* documented commands: top-level keys of core/commands.json, lower-cased *)\nDefinition documented_commands : list string := %s.\n", coqStrList(names))
}

// ---------- Lua sandbox allow-list ----------

func mapKeys(fn string, varName string) []string {
	fd := funcs[fn]
	var out []string
	if fd == nil {
		fail("function %s not found", fn)
		return nil
	}
	ast.Inspect(fd.Body, func(n ast.Node) bool {
		var names []*ast.Ident
		var values []ast.Expr
		switch x := n.(type) {
		case *ast.AssignStmt:
			for _, l := range x.Lhs {
				if id, ok := l.(*ast.Ident); ok {
					names = append(names, id)
				}
			}
			values = x.Rhs
		case *ast.ValueSpec:
			names = x.Names
			values = x.Values
		}
		for i, id := range names {
			if id.Name == varName && i < len(values) {
				if cl, ok := values[i].(*ast.CompositeLit); ok {
					for _, el := range cl.Elts {
						if kv, ok := el.(*ast.KeyValueExpr); ok {
							if s, ok := strLit(kv.Key); ok {
								out = append(out, s)
							}
						}
					}
				}
			}
		}
		return true
	})
	if out == nil {
		fail("%s: map literal %s not found", fn, varName)
	}
	sort.Strings(out)
	return out
}

func genLuaAllow() string {
	fd := funcs["lStatePool.New"]
	if fd == nil {
		fail("lStatePool.New not found")
		return ""
	}
	// SkipOpenLibs: true
	skip := strings.Contains(exprText(fd.Body), "SkipOpenLibs true")
	// allowedModules: {lua.XLibName, fn}
	var mods []string
	ast.Inspect(fd.Body, func(n ast.Node) bool {
		if as, ok := n.(*ast.AssignStmt); ok && len(as.Lhs) == 1 {
			if id, ok := as.Lhs[0].(*ast.Ident); ok && id.Name == "allowedModules" {
				if cl, ok := as.Rhs[0].(*ast.CompositeLit); ok {
					for _, el := range cl.Elts {
						if inner, ok := el.(*ast.CompositeLit); ok && len(inner.Elts) == 2 {
							mods = append(mods, strings.TrimSpace(strings.ReplaceAll(exprText(inner.Elts[0]), " ", "."))+"="+strings.TrimSpace(strings.ReplaceAll(exprText(inner.Elts[1]), " ", ".")))
						} else {
							fail("lStatePool.New %s: unknown allowedModules element", pos(el))
						}
					}
				}
			}
		}
		return true
	})
	// globals set directly in New / openBaseSubset
	var globals []string
	for _, fn := range []string{"lStatePool.New", "openBaseSubset"} {
		ast.Inspect(funcs[fn].Body, func(n ast.Node) bool {
			if call, ok := n.(*ast.CallExpr); ok {
				if sel, ok := call.Fun.(*ast.SelectorExpr); ok && sel.Sel.Name == "SetGlobal" && len(call.Args) == 2 {
					if s, ok := strLit(call.Args[0]); ok {
						globals = append(globals, s)
					} else {
						fail("%s %s: SetGlobal with a non-literal name", fn, pos(call))
					}
				}
			}
			return true
		})
	}
	sort.Strings(globals)
	newindex := strings.Contains(exprText(fd.Body), `"__newindex"`) && strings.Contains(exprText(fd.Body), "SetMetatable")
	var sb strings.Builder
	sb.WriteString(header)
	fmt.Fprintf(&sb, "Definition lua_skip_open_libs : bool := %s.\n", coqBool(skip))
	fmt.Fprintf(&sb, "Definition lua_modules : list string := %s.\n", coqStrList(mods))
	fmt.Fprintf(&sb, "Definition lua_set_globals : list string := %s.\n", coqStrList(globals))
	fmt.Fprintf(&sb, "Definition lua_tile38_exports : list string := %s.\n", coqStrList(mapKeys("lStatePool.New", "exports")))
	fmt.Fprintf(&sb, "Definition lua_base_fns : list string := %s.\n", coqStrList(mapKeys("openBaseSubset", "basefns")))
	fmt.Fprintf(&sb, "Definition lua_os_fns : list string := %s.\n", coqStrList(mapKeys("openOsSubset", "osfns")))
	fmt.Fprintf(&sb, "Definition lua_newindex_locked : bool := %s.\n", coqBool(newindex))
	// how the interpreter itself is configured: the lua.Options of NewState and every method called on the new
	// state (SetMx starts a watchdog that os.Exit()s the whole process, OpenLibs opens io/os/..., SetContext ...)
	var opts, methods []string
	stateVar := ""
	ast.Inspect(fd.Body, func(n ast.Node) bool {
		if as, ok := n.(*ast.AssignStmt); ok && len(as.Lhs) == 1 && len(as.Rhs) == 1 {
			if call, ok := as.Rhs[0].(*ast.CallExpr); ok && strings.TrimSpace(exprText(call.Fun)) == "lua NewState" {
				if id, ok := as.Lhs[0].(*ast.Ident); ok {
					stateVar = id.Name
				}
				for _, a := range call.Args {
					cl, ok := a.(*ast.CompositeLit)
					if !ok {
						fail("lStatePool.New %s: NewState with options that are not a literal", pos(a))
						continue
					}
					for _, el := range cl.Elts {
						if kv, ok := el.(*ast.KeyValueExpr); ok {
							opts = append(opts, strings.TrimSpace(exprText(kv.Key))+"="+strings.TrimSpace(exprText(kv.Value)))
						} else {
							fail("lStatePool.New %s: unknown option element", pos(el))
						}
					}
				}
			}
		}
		return true
	})
	if stateVar == "" {
		fail("lStatePool.New: lua.NewState not found")
	}
	seen := map[string]bool{}
	ast.Inspect(fd.Body, func(n ast.Node) bool {
		if call, ok := n.(*ast.CallExpr); ok {
			if sel, ok := call.Fun.(*ast.SelectorExpr); ok {
				if id, ok := sel.X.(*ast.Ident); ok && id.Name == stateVar && !seen[sel.Sel.Name] {
					seen[sel.Sel.Name] = true
					methods = append(methods, sel.Sel.Name)
				}
			}
		}
		return true
	})
	sort.Strings(opts)
	sort.Strings(methods)
	fmt.Fprintf(&sb, "Definition lua_newstate_options : list string := %s.\n", coqStrList(opts))
	fmt.Fprintf(&sb, "Definition lua_state_methods : list string := %s.\n", coqStrList(methods))
	return sb.String()
}
