#!/bin/sh
# re-runs `try_seed.py check` for every seeded change under /tmp/out-C*/N (serial: /repo is patched in place)
cd /verif
for d in /tmp/out-C*/[1-9]; do
  [ -f $d/patch.diff ] || continue
  p=$(basename $(dirname $d) | sed 's/out-//'); n=$(basename $d)
  [ -n "$ONLY" ] && ! echo " $ONLY " | grep -q " $p/$n \| $p " && continue
  python3 tools/try_seed.py check $p $n > $d/check.log 2>&1
  echo "$p/$n $(grep -c VIOLATION $d/check.log) $(grep -E '^C[0-9]+ rc' $d/check.log | tr '\n' ' ')"
done
git -C /repo status --short
