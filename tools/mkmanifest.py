#!/usr/bin/env python3
"""Regenerates MANIFEST.json from the table below (one entry per claimed property)."""
import json, subprocess, os
V = os.path.dirname(os.path.dirname(os.path.abspath(__file__)))
props = [json.loads(l) for l in open(os.path.join(V, "properties.jsonl"))]

import glob
CLAIMS = {}
for f in sorted(glob.glob(os.path.join(V, "tools", "claims", "C*.json"))):
    CLAIMS[os.path.basename(f)[:-5]] = json.load(open(f))
REASON_TODO = "check not built yet in this round; the design for it is DESIGN.md section 5 (no technique limitation)"

commits = subprocess.run(["git", "-C", "/repo", "log", "--format=%H %s"], capture_output=True, text=True).stdout.strip().split("\n")
hook_commits = [c.split()[0] for c in commits if " verif hook" in c]

m = {
 "version": 1,
 "setup_cmd": "./setup.sh",
 "hooks": {"guard": "verif",
   "enable": "go build -tags verif (./check builds /repo/cmd/tile38-server and the harness with the tag on every run)",
   "baseline_off_cmd": "cd /repo && GOFLAGS=-mod=mod GOPROXY=off go test -vet=off -count=1 -timeout 25m ./...",
   "source_commits": hook_commits, "add_only": True},
 "engines": [
   {"name": "coq", "path": "coq/", "serves_properties": sorted(CLAIMS),
    "kind_free_text": "Coq 8.16.1 development: Base (bytes, utf8), Model (executable Gallina transcriptions of the Go code), Gen (tables regenerated from /repo by t38x on every run), Proofs (lemmas), Props (one file of theorems + Print Assumptions per property)"},
   {"name": "t38x", "path": "t38x/", "serves_properties": sorted(CLAIMS),
    "kind_free_text": "Go translator (go/parser+go/ast): re-extracts dispatch/lock tables, script tables, constants and statement orders from /repo into coq/Gen/*.v; strict recognisers"},
   {"name": "harness", "path": "harness/", "serves_properties": sorted(CLAIMS),
    "kind_free_text": "Go correspondence harness: drives /repo (in-package through verifapi, black-box through a server built with -tags verif) and the extracted OCaml model on the same inputs; direct property oracles; failing-input search"}],
 "checks": [], "not_applicable": [],
 "notes": "Every claimed property is decided by machine-checked proof in Coq over models tied to /repo on every run (translator and/or correspondence). ./check <id> prints KNOWN-FINDING lines for defects listed in known_findings.json and VIOLATION lines otherwise.",
}
for p in props:
    i = p["id"]
    if i in CLAIMS:
        c = CLAIMS[i]
        m["checks"].append({
          "property_id": i,
          "quick_cmd": "./check %s --tier quick" % i,
          "thorough_cmd": "./check %s --tier thorough" % i,
          "evidence_file": "/verif/evidence/%s.json" % i,
          "replay_cmd_template": "./check %s --replay {path}" % i,
          "engine": "coq",
          "level_claimed": {"category": "proof", "text": c["text"], "design_ref": c["design"]},
          "level_note": c["note"],
          "technique": c["technique"]})
    else:
        m["not_applicable"].append({"property_id": i, "reason": REASON_TODO})
json.dump(m, open(os.path.join(V, "MANIFEST.json"), "w"), indent=1)
print("claimed:", sorted(CLAIMS))
