#!/usr/bin/env python3
"""keep_all.py : copies every confirmed seeded change under /tmp/out-C*/N into /verif/seeded/<prop>-<n>/ with the
latest detection result (farm.json or check.json, whichever is newer).  meta.json: property, what it needs to
manifest (the section of the seeder's notes.md about that), what was run, what the check printed."""
import glob, json, os, re, shutil
def needs(notes):
    # the section whose heading talks about what it needs / trigger / manifest
    secs = re.split(r"\n(?=#+ )", notes)
    for s in secs:
        h = s.split("\n", 1)[0].lower()
        if re.search(r"need|manifest|trigger", h):
            return " ".join(s.split("\n", 1)[1].split())[:900] if "\n" in s else ""
    m = re.search(r"(?is)(what (?:it needs|manifests it)|trigger)[^\n]*\n(.{40,900}?)(\n\n|\Z)", notes)
    if m:
        return " ".join(m.group(2).split())
    for para in notes.split("\n\n"):
        if re.search(r"(?i)\b(needs?|trigger|manifest)", para):
            return " ".join(para.split())[:900]
    return "see notes.md"
for d in sorted(glob.glob("/tmp/out-C*/[1-9]*")):
    if not os.path.exists(d + "/patch.diff") or not os.path.exists(d + "/confirm.json"):
        continue
    conf = json.load(open(d + "/confirm.json"))
    if not conf.get("confirmed"):
        continue
    prop, n = d.split("/")[2][4:], d.split("/")[3]
    cands = [f for f in (d + "/farm.json", d + "/check.json") if os.path.exists(f)]
    if not cands:
        continue
    res = max(cands, key=os.path.getmtime)
    chk = json.load(open(res))
    if not all(isinstance(v, dict) and "rc" in v for v in chk.values()):
        continue
    name = "%s-%s" % (prop, n)
    dst = "/verif/seeded/" + name
    os.makedirs(dst, exist_ok=True)
    shutil.copy(d + "/patch.diff", dst + "/patch.diff")
    rebased = os.path.exists(d + "/patch.orig.diff")
    if rebased:
        shutil.copy(d + "/patch.orig.diff", dst + "/patch.orig.diff")
    if os.path.isdir(dst + "/demo"):
        shutil.rmtree(dst + "/demo")
    if os.path.isdir(d + "/demo"):
        shutil.copytree(d + "/demo", dst + "/demo", ignore=shutil.ignore_patterns("*.test", "tile38-server*", "*.o", "bin", "data*", "*.aof", "*.out"))
    notes = open(d + "/notes.md").read() if os.path.exists(d + "/notes.md") else ""
    if notes:
        open(dst + "/notes.md", "w").write(notes)
    title = next((l.lstrip("# ").strip() for l in notes.split("\n") if l.strip()), "")
    files = sorted(set(l.split(" b/")[-1] for l in open(d + "/patch.diff").read().split("\n") if l.startswith("diff --git")))
    detected = {p: {"exit": r["rc"], "verdict": [l for l in r["lines"] if l.startswith(("VIOLATION", "BROKEN", "FAILING-INPUT"))][:4]} for p, r in chk.items()}
    farm = res.endswith("farm.json")
    meta = {
        "property": prop, "name": name, "title": title, "files_changed": files,
        "round": {"1":1,"2":1,"3":1,"4":2,"5":2,"6":2,"7":3,"8":3,"9":4,"10":4,"11":5,"12":5}.get(n, 0),
        "needs_to_manifest": needs(notes),
        "rebased": ("patch.diff is the seeder's change re-applied by hand onto /repo's current HEAD after later fix: commits touched the same lines (patch.orig.diff is what the seeder delivered); demo re-confirmed on the rebased patch" if rebased else False),
        "confirmed": {"demo_passes_without_patch": conf.get("demo_without_patch_rc") == 0,
                      "demo_fails_with_patch": conf.get("demo_with_patch_rc", 0) != 0,
                      "build_and_suite_pass_with_patch": conf.get("suite_with_patch_rc") == 0,
                      "how": "tools/try_seed.py demo: scratch worktree of /repo HEAD, demo/run.sh before and after `git apply patch.diff`, go build ./... && go test ./..."},
        "checks_run": {"how": ("tools/farm.py: private copies of /repo (HEAD) and /verif bind-mounted in a private mount+network namespace; git -C /repo apply patch.diff; ./check %s --tier quick" % prop) if farm else
                              "tools/try_seed.py check: git -C /repo apply patch.diff; ./check <prop> --tier quick; git -C /repo apply -R patch.diff",
                       "results": detected},
        "caught": any(r["rc"] != 0 for r in chk.values()),
    }
    json.dump(meta, open(dst + "/meta.json", "w"), indent=1)
    print(name, "caught" if meta["caught"] else "MISSED", "|", meta["needs_to_manifest"][:100])
