#!/bin/sh
# builds and tests /repo's HEAD commit (not the working tree) in a scratch worktree
set -e
export GOFLAGS=-mod=mod GOPROXY=off
rm -rf /tmp/wt-head; git -C /repo worktree prune
git -C /repo worktree add -q --detach /tmp/wt-head HEAD
cd /tmp/wt-head
go build ./... && go build -tags verif ./... && go vet -tags verif ./verifapi/ >/dev/null 2>&1 || true
go test -vet=off -count=1 ./... 2>&1 | grep -v "no test files" | tail -15
cd /; git -C /repo worktree remove --force /tmp/wt-head
