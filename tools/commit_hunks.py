#!/usr/bin/env python3
"""commit_hunks.py <repo> <message> <path> <regex> [<path> <regex> ...]
Stages only the diff hunks of <path> whose added/removed lines match <regex> (or the whole file when
regex is '.' and the file is untracked) and commits them, leaving every other working-tree change alone."""
import re, subprocess, sys, tempfile
repo, msg = sys.argv[1], sys.argv[2]
pairs = list(zip(sys.argv[3::2], sys.argv[4::2]))
for path, rx in pairs:
    st = subprocess.run(["git", "-C", repo, "status", "--porcelain", "--", path], capture_output=True, text=True).stdout
    if st.startswith("??"):
        subprocess.check_call(["git", "-C", repo, "add", "--", path])
        continue
    d = subprocess.run(["git", "-C", repo, "diff", "-U0", "--", path], capture_output=True, text=True).stdout
    head, hunks, cur = [], [], None
    for line in d.split("\n"):
        if line.startswith("@@"):
            cur = [line]
            hunks.append(cur)
        elif cur is None:
            head.append(line)
        else:
            cur.append(line)
    keep = [h for h in hunks if any(re.search(rx, l[1:]) for l in h[1:] if l[:1] in "+-")]
    if not keep:
        sys.exit("no hunk of %s matches %s" % (path, rx))
    patch = "\n".join(head) + "\n" + "\n".join("\n".join(h) for h in keep)
    if not patch.endswith("\n"):
        patch += "\n"
    with tempfile.NamedTemporaryFile("w", suffix=".diff", delete=False) as f:
        f.write(patch)
    subprocess.check_call(["git", "-C", repo, "apply", "--cached", "--unidiff-zero", f.name])
subprocess.check_call(["git", "-C", repo, "commit", "-q", "-m", msg])
print(subprocess.run(["git", "-C", repo, "log", "--oneline", "-1"], capture_output=True, text=True).stdout)
