#!/usr/bin/env python3
"""commit_hunks.py <repo> <message> <path> <regex> [<path> <regex> ...]
Stages only the diff hunks of <path> whose added/removed lines match <regex> (or the whole file when
regex is '.' and the file is untracked) and commits them, leaving every other working-tree change alone."""
import re, subprocess, sys, tempfile
repo, msg = sys.argv[1], sys.argv[2]
pairs = list(zip(sys.argv[3::2], sys.argv[4::2]))
for path, rx in pairs:
    st = subprocess.run(["git", "-C", repo, "status", "--porcelain", "--", path], capture_output=True, text=True).stdout
    if st.startswith("??"):
        subprocess.check_call(["git", "-C", repo, "add", "--", path])
        continue
    d = subprocess.run(["git", "-C", repo, "diff", "-U0", "--", path], capture_output=True, text=True).stdout
    head, hunks, cur = [], [], None
    for line in d.split("\n"):
        if line.startswith("@@"):
            cur = [line]
            hunks.append(cur)
        elif cur is None:
            head.append(line)
        else:
            cur.append(line)
    keep = [h for h in hunks if any(re.search(rx, l[1:]) for l in h[1:] if l[:1] in "+-")]
    if not keep:
        sys.exit("no hunk of %s matches %s" % (path, rx))
    # the new-side line numbers of a -U0 hunk count the hunks we drop: recompute them from the
    # old side and the kept hunks only (git apply --unidiff-zero positions insertions by them)
    delta = 0
    for h in keep:
        m = re.match(r"@@ -(\d+)(?:,(\d+))? \+(\d+)(?:,(\d+))? @@(.*)", h[0])
        a = int(m.group(1)); b = int(m.group(2)) if m.group(2) is not None else 1
        d = int(m.group(4)) if m.group(4) is not None else 1
        c = a + delta + (1 if b == 0 else 0)
        if d == 0:
            c = a + delta - 1 if b > 0 else c
        h[0] = "@@ -%d,%d +%d,%d @@%s" % (a, b, c, d, m.group(5))
        delta += d - b
    patch = "\n".join(head) + "\n" + "\n".join("\n".join(h) for h in keep)
    if not patch.endswith("\n"):
        patch += "\n"
    with tempfile.NamedTemporaryFile("w", suffix=".diff", delete=False) as f:
        f.write(patch)
    subprocess.check_call(["git", "-C", repo, "apply", "--cached", "--unidiff-zero", f.name])
subprocess.check_call(["git", "-C", repo, "commit", "-q", "-m", msg])
print(subprocess.run(["git", "-C", repo, "log", "--oneline", "-1"], capture_output=True, text=True).stdout)
