#!/bin/sh
cd /verif
while pgrep -f recheck_seeds.sh >/dev/null; do sleep 20; done
while pgrep -f link_round3.sh >/dev/null; do sleep 20; done
for d in /tmp/out-C*/[78]; do
  [ -f $d/patch.diff ] || continue
  p=$(basename $(dirname $d) | sed 's/out-//'); n=$(basename $d)
  python3 tools/try_seed.py check $p $n > $d/check.log 2>&1
  echo "$p/$n $(grep -c VIOLATION $d/check.log) $(grep -E '^C[0-9]+ rc' $d/check.log | tr '\n' ' ')"
done
git -C /repo status --short
