#!/usr/bin/env python3
"""farm.py [-j N] <prop>/<n> ...   (or: farm.py -j N all | round3)

Parallel evaluation of seeded changes without touching /repo or /verif: every worker owns a private copy
of both (under /par/<slot>/) and runs in private mount + network namespaces where those copies are bind-
mounted over /repo and /verif, so all hard-coded paths and ports work and workers cannot disturb each other
or the engineers working in the real trees.  The copy of /verif is a snapshot of the WORKING TREE taken when
the job starts (sources + coq build + ocaml drivers; binaries are rebuilt by ./check), /repo's copy is a
checkout of its HEAD commit.  Results: /tmp/out-<prop>/<n>/farm.json + farm.log (same format as check.json)."""
import json, os, subprocess, sys, time, glob, concurrent.futures as cf
ENV = dict(os.environ, GOFLAGS="-mod=mod", GOPROXY="off")
def sh(cmd, timeout=3600):
    p = subprocess.run(cmd, shell=True, env=ENV, stdout=subprocess.PIPE, stderr=subprocess.STDOUT, text=True, errors="replace", timeout=timeout)
    return p.returncode, p.stdout
def job(slot, prop, n, props):
    base = "/par/%d" % slot
    src = "/tmp/out-%s/%s" % (prop, n)
    os.makedirs(base, exist_ok=True)
    head = subprocess.run("git -C /repo rev-parse HEAD", shell=True, capture_output=True, text=True).stdout.strip()
    if not os.path.isdir(base + "/repo/.git"):
        sh("rm -rf %s/repo; git clone -q /repo %s/repo" % (base, base))
    rc, out = sh("cd %s/repo && git reset -q --hard && git clean -qfdx && git fetch -q origin && git checkout -q --detach %s && git reset -q --hard %s && git clean -qfdx && test -z \"$(git status --porcelain)\" && test $(git rev-parse HEAD) = %s" % (base, head, head, head))
    if rc != 0:
        raise RuntimeError("could not reset the private copy of /repo in %s: %s" % (base, out[-300:]))
    # tag-guarded hook files that engineers added to /repo's working tree but that are not committed yet
    sh("cd /repo && git ls-files --others --exclude-standard -z | rsync -a --from0 --files-from=- /repo/ %s/repo/" % base)
    sh("mkdir -p %s/verif && rsync -a --delete --exclude=.git --exclude='.work/*/' --exclude='.work/*.bak*' --exclude=replays /verif/ %s/verif/ && mkdir -p %s/verif/.work/bin" % (base, base, base))
    # binaries: hard-link copy is unsafe (go build rewrites in place) -> plain copy of what exists, rebuilt anyway when stale
    sh("cp -u /verif/.work/bin/* %s/verif/.work/bin/ 2>/dev/null" % base)
    inner = ("set -e; ip link set lo up; mount --bind %s/repo /repo; mount --bind %s/verif /verif; cd /verif; "
             "%s" % (base, base, "" if n.startswith("clean") else "git -C /repo apply %s/patch.diff || { echo FARM-PATCH-DOES-NOT-APPLY; exit 3; }; " % src))
    if n.startswith("clean"):
        src = "/verif/.work/farmclean/%s-%s" % (prop, n)
        os.makedirs(src, exist_ok=True)
    results = {}
    for p in props:
        t0 = time.time()
        rc, out = sh("GOCACHE=%s/gocache unshare -m -n sh -c '%s VERIF_SEED=%s ./check %s --tier %s'" % (base, inner, SEED, p, TIER), timeout=3000 if TIER == "quick" else 14000)
        lines = [l for l in out.split("\n") if l.startswith(("VIOLATION", "BROKEN", "FAILING-INPUT", "OK ", "KNOWN-FINDING", "FARM-PATCH"))]
        if rc != 0 and not any(l.startswith("VIOLATION") for l in lines):
            lines.append("FARM-NO-VERDICT rc=%d: %s" % (rc, " ".join(out.split())[-300:]))
        results[p] = {"rc": rc, "wall_s": round(time.time() - t0, 1), "lines": [l[:400] for l in lines[:12]]}
        open(os.path.join(src, "farm.log"), "w").write(out[-20000:])
    json.dump(results, open(os.path.join(src, "farm.json"), "w"), indent=1)
    return prop, n, results
TIER = os.environ.get("FARM_TIER", "quick")
SEED = os.environ.get("FARM_SEED", "20260925")
def main():
    a = sys.argv[1:]
    j = 6
    global TIER, SEED
    if a and a[0] == "-j":
        j = int(a[1]); a = a[2:]
    jobs = []
    if a and a[0] in ("all", "round3"):
        pat = "[1-9]*" if a[0] == "all" else "[78]"
        for d in sorted(glob.glob("/tmp/out-C*/" + pat)):
            if os.path.exists(d + "/patch.diff"):
                jobs.append((d.split("/")[2][4:], d.split("/")[3]))
    else:
        for x in a:
            p, n = x.split("/")
            jobs.append((p, n))   # n may be "<n>@<other property>" : evaluate the change of p with the check of another property
    import queue
    slots = queue.Queue()
    for s in range(j):
        slots.put(s)
    def run(pn):
        s = slots.get()
        try:
            n, _, other = pn[1].partition("@")
            return job(s, pn[0], n, [other or pn[0]])
        except Exception as e:
            return pn[0], pn[1], {"error": str(e)}
        finally:
            slots.put(s)
    with cf.ThreadPoolExecutor(j) as ex:
        for prop, n, res in ex.map(run, jobs):
            print("%s/%s" % (prop, n), {k: (v.get("rc") if isinstance(v, dict) else v) for k, v in res.items()},
                  "no-failing-input" if any("no-failing-input-found" in l for v in res.values() if isinstance(v, dict) for l in v.get("lines", [])) else "", flush=True)
    # the private copies and their per-slot Go build caches are scratch: remove them (each path-specific
    # build leaves its own cache entries; an earlier shared cache grew to 83 GB)
    if os.environ.get("FARM_KEEP") != "1":
        for s_ in range(j):
            sh("rm -rf /par/%d/verif /par/%d/repo /par/%d/gocache" % (s_, s_, s_))
main()
