#!/usr/bin/env python3
"""set_fix_commit.py <finding-id> <commit-hash> : marks a known-findings entry fixed by that /repo commit."""
import glob, json, re, subprocess, sys
fid, h = sys.argv[1], sys.argv[2]
subj = subprocess.run(["git", "-C", "/repo", "log", "-1", "--format=%s", h], capture_output=True, text=True).stdout.strip()
assert subj.startswith("fix:"), subj
done = False
for f in ["/verif/known_findings.json"] + sorted(glob.glob("/verif/known_findings.d/*.json")):
    d = json.load(open(f))
    for e in d["findings"]:
        if e.get("id") == fid:
            e["status"] = "fixed"
            e["commit"] = "%s %s" % (h[:7], subj)
            e.pop("why_not_fixed", None)
            w = re.sub(r"^fixed: property=C\d+ (?:[0-9a-f]{7} )?", "", e["what"])
            e["what"] = "fixed: property=%s %s %s" % (e["property"], h[:7], w)
            done = True
    if done:
        json.dump(d, open(f, "w"), indent=1)
        break
print("updated" if done else "NOT FOUND", fid)
