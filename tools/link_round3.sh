#!/bin/sh
# links finished round-3 seeds /tmp/out3-Cxx/{1,2} as /tmp/out-Cxx/{7,8} and confirms their demos
for d in /tmp/out3-C*/[12]; do
  [ -f $d/patch.diff ] && [ -f $d/demo/run.sh ] || continue
  p=$(basename $(dirname $d) | sed 's/out3-//'); n=$(basename $d); m=$((n+6))
  [ -e /tmp/out-$p/$m ] || ln -s $d /tmp/out-$p/$m
  [ -f $d/confirm.json ] || (cd /verif && python3 tools/try_seed.py demo $p $m > $d/confirm.log 2>&1; echo "$p/$m $(grep -o '"confirmed": [a-z]*' $d/confirm.log)")
done
