#!/usr/bin/env python3
"""try_seed.py demo <prop> <n>   : confirm a seeded change (/tmp/out-<prop>/<n>) in a scratch worktree of /repo HEAD:
                                   demo passes without the patch, fails with it; build + test suite pass with it.
   try_seed.py check <prop> <n> [<check-prop>...] : apply the patch to /repo, run ./check for the property (and any
                                   others named), undo the patch with `git apply -R`, record what was detected.
   try_seed.py keep <prop> <n> <name> : copy into /verif/seeded/<name>/ (patch.diff, demo/, notes.md, meta.json skeleton)."""
import json, os, shutil, subprocess, sys, time
ENV = dict(os.environ, GOFLAGS="-mod=mod", GOPROXY="off")
def sh(cmd, cwd=None, timeout=1800):
    p = subprocess.run(cmd, cwd=cwd, shell=isinstance(cmd, str), env=ENV, stdout=subprocess.PIPE, stderr=subprocess.STDOUT, text=True, errors="replace", timeout=timeout)
    return p.returncode, p.stdout
mode, prop, n = sys.argv[1], sys.argv[2], sys.argv[3]
src = "/tmp/out-%s/%s" % (prop, n)
if not os.path.isdir(src):
    src = "/verif/seeded/%s" % n if os.path.isdir("/verif/seeded/%s" % n) else src
patch = os.path.join(src, "patch.diff")
if mode == "demo":
    wt = "/tmp/try-%s-%s" % (prop, n)
    sh("git -C /repo worktree remove --force %s; rm -rf %s" % (wt, wt))
    rc, out = sh("git -C /repo worktree add -q --detach %s HEAD" % wt)
    res = {"prop": prop, "n": n}
    run = os.path.join(src, "demo", "run.sh")
    rc0, out0 = sh("bash %s %s" % (run, wt), timeout=900)
    res["demo_without_patch_rc"] = rc0
    rca, outa = sh("git apply %s" % patch, cwd=wt)
    res["patch_applies"] = rca == 0
    if rca != 0:
        res["apply_error"] = outa[-500:]
    else:
        rcb, outb = sh("go build ./... && go test -vet=off -count=1 ./... 2>&1 | grep -v 'no test files' | tail -15", cwd=wt)
        res["suite_with_patch_rc"] = rcb
        res["suite_tail"] = outb[-600:]
        rc1, out1 = sh("bash %s %s" % (run, wt), timeout=900)
        res["demo_with_patch_rc"] = rc1
        res["demo_with_patch_tail"] = out1[-800:]
    res["demo_without_patch_tail"] = out0[-400:]
    res["confirmed"] = rc0 == 0 and res.get("patch_applies") and res.get("suite_with_patch_rc") == 0 and res.get("demo_with_patch_rc", 0) != 0
    sh("git -C /repo worktree remove --force %s; rm -rf %s" % (wt, wt))
    json.dump(res, open(os.path.join(src, "confirm.json"), "w"), indent=1)
    print(json.dumps({k: res[k] for k in res if not k.endswith("tail")}, indent=1))
elif mode == "check":
    props = sys.argv[4:] or [prop]
    rc, out = sh("git -C /repo apply --check %s" % patch)
    if rc != 0:
        print("patch does not apply to /repo:", out[-400:]); sys.exit(2)
    sh("git -C /repo apply %s" % patch)
    results = {}
    try:
        for p in props:
            t0 = time.time()
            rc, out = sh("./check %s --tier quick" % p, cwd="/verif", timeout=2400)
            lines = [l for l in out.split("\n") if l.startswith(("VIOLATION", "BROKEN", "FAILING-INPUT", "OK ", "KNOWN-FINDING"))]
            results[p] = {"rc": rc, "wall_s": round(time.time() - t0, 1), "lines": [l[:400] for l in lines[:12]]}
    finally:
        rc, out = sh("git -C /repo apply -R %s" % patch)
        if rc != 0:
            print("!!! could not undo the patch:", out)
    json.dump(results, open(os.path.join(src, "check.json"), "w"), indent=1)
    for p, r in results.items():
        print(p, "rc=%d" % r["rc"], "%.0fs" % r["wall_s"])
        for l in r["lines"]:
            print("   ", l[:300])
elif mode == "keep":
    name = sys.argv[4]
    dst = "/verif/seeded/%s" % name
    os.makedirs(dst, exist_ok=True)
    shutil.copy(patch, os.path.join(dst, "patch.diff"))
    if os.path.isdir(os.path.join(dst, "demo")):
        shutil.rmtree(os.path.join(dst, "demo"))
    shutil.copytree(os.path.join(src, "demo"), os.path.join(dst, "demo"))
    for f in ("notes.md", "confirm.json", "check.json"):
        if os.path.exists(os.path.join(src, f)):
            shutil.copy(os.path.join(src, f), os.path.join(dst, f))
    print("kept", dst)
