#!/usr/bin/env python3
"""try_seed.py demo <prop> <n>   : confirm a seeded change (/tmp/out-<prop>/<n>) in a scratch worktree of /repo HEAD:
                                   demo passes without the patch, fails with it; build + test suite pass with it.
   try_seed.py check <prop> <n> [<check-prop>...] : apply the patch to /repo, run ./check for the property (and any
                                   others named), undo the patch with `git apply -R`, record what was detected.
   try_seed.py keep <prop> <n> <name> : copy into /verif/seeded/<name>/ (patch.diff, demo/, notes.md, meta.json skeleton)."""
import json, os, shutil, subprocess, sys, time
ENV = dict(os.environ, GOFLAGS="-mod=mod", GOPROXY="off")
def sh(cmd, cwd=None, timeout=1800):
    p = subprocess.run(cmd, cwd=cwd, shell=isinstance(cmd, str), env=ENV, stdout=subprocess.PIPE, stderr=subprocess.STDOUT, text=True, errors="replace", timeout=timeout)
    return p.returncode, p.stdout
import fcntl
mode, prop = sys.argv[1], sys.argv[2]
n = sys.argv[3] if len(sys.argv) > 3 else ""
def seed_lock():
    """/repo is shared: only one seeded patch (or clean check run by a strengthener) at a time"""
    os.makedirs("/verif/.work", exist_ok=True)
    f = open("/verif/.work/seed.lock", "w")
    fcntl.flock(f, fcntl.LOCK_EX)
    return f
if mode == "clean":
    # try_seed.py clean <prop> [VERIF_SEED] : run ./check on the unmutated tree, serialised with seeded runs
    lk = seed_lock()
    env_seed = ("VERIF_SEED=%s " % n) if n else ""
    rc, out = sh(env_seed + "./check %s --tier quick" % prop, cwd="/verif", timeout=2400) if False else (None, None)
    p = subprocess.run(env_seed + "./check %s --tier quick" % prop, cwd="/verif", shell=True, env=ENV, stdout=subprocess.PIPE, stderr=subprocess.STDOUT, text=True, errors="replace", timeout=2400)
    for l in p.stdout.split("\n"):
        if l.startswith(("VIOLATION", "BROKEN", "FAILING-INPUT", "OK ", "KNOWN-FINDING")):
            print(l[:400])
    sys.exit(p.returncode)
src = "/tmp/out-%s/%s" % (prop, n)
if not os.path.isdir(src):
    src = "/verif/seeded/%s" % n if os.path.isdir("/verif/seeded/%s" % n) else src
patch = os.path.join(src, "patch.diff")
if mode == "demo":
    wt = "/tmp/try-%s-%s" % (prop, n)
    sh("git -C /repo worktree remove --force %s; rm -rf %s" % (wt, wt))
    rc, out = sh("git -C /repo worktree add -q --detach %s HEAD" % wt)
    res = {"prop": prop, "n": n}
    run = os.path.join(src, "demo", "run.sh")
    rc0, out0 = sh("bash %s %s" % (run, wt), timeout=900)
    res["demo_without_patch_rc"] = rc0
    rca, outa = sh("git apply %s" % patch, cwd=wt)
    res["patch_applies"] = rca == 0
    if rca != 0:
        res["apply_error"] = outa[-500:]
    else:
        rcb, outb = sh("go build ./... && unshare -n sh -c 'ip link set lo up; go test -vet=off -count=1 ./... 2>&1' | grep -v 'no test files' | tail -15", cwd=wt)
        if "FAIL" in outb:
            rcb = 1
        res["suite_with_patch_rc"] = rcb
        res["suite_tail"] = outb[-600:]
        rc1, out1 = sh("bash %s %s" % (run, wt), timeout=900)
        res["demo_with_patch_rc"] = rc1
        res["demo_with_patch_tail"] = out1[-800:]
    res["demo_without_patch_tail"] = out0[-400:]
    res["confirmed"] = rc0 == 0 and res.get("patch_applies") and res.get("suite_with_patch_rc") == 0 and res.get("demo_with_patch_rc", 0) != 0
    sh("git -C /repo worktree remove --force %s; rm -rf %s" % (wt, wt))
    json.dump(res, open(os.path.join(src, "confirm.json"), "w"), indent=1)
    print(json.dumps({k: res[k] for k in res if not k.endswith("tail")}, indent=1))
elif mode == "check":
    props = sys.argv[4:] or [prop]
    lk = seed_lock()
    rc, out = sh("git -C /repo apply --check %s" % patch)
    if rc != 0:
        print("patch does not apply to /repo:", out[-400:]); sys.exit(2)
    sh("git -C /repo apply %s" % patch)
    results = {}
    # evidence files are rewritten by every check run: keep the clean-tree ones
    saved = {}
    for p in props:
        ev = "/verif/evidence/%s.json" % p
        if os.path.exists(ev):
            saved[ev] = open(ev).read()
    try:
        for p in props:
            t0 = time.time()
            rc, out = sh("./check %s --tier quick" % p, cwd="/verif", timeout=2400)
            lines = [l for l in out.split("\n") if l.startswith(("VIOLATION", "BROKEN", "FAILING-INPUT", "OK ", "KNOWN-FINDING"))]
            results[p] = {"rc": rc, "wall_s": round(time.time() - t0, 1), "lines": [l[:400] for l in lines[:12]]}
    finally:
        rc, out = sh("git -C /repo apply -R %s" % patch)
        if rc != 0:
            print("!!! could not undo the patch:", out)
        for ev, txt in saved.items():
            open(ev, "w").write(txt)
    json.dump(results, open(os.path.join(src, "check.json"), "w"), indent=1)
    for p, r in results.items():
        print(p, "rc=%d" % r["rc"], "%.0fs" % r["wall_s"])
        for l in r["lines"]:
            print("   ", l[:300])
elif mode == "keep":
    name = sys.argv[4]
    dst = "/verif/seeded/%s" % name
    os.makedirs(dst, exist_ok=True)
    shutil.copy(patch, os.path.join(dst, "patch.diff"))
    if os.path.isdir(os.path.join(dst, "demo")):
        shutil.rmtree(os.path.join(dst, "demo"))
    shutil.copytree(os.path.join(src, "demo"), os.path.join(dst, "demo"),
                    ignore=shutil.ignore_patterns("*.test", "tile38-server*", "*.o", "bin", "data*", "*.aof"))
    for f in ("notes.md",):
        if os.path.exists(os.path.join(src, f)):
            shutil.copy(os.path.join(src, f), os.path.join(dst, f))
    conf = json.load(open(os.path.join(src, "confirm.json"))) if os.path.exists(os.path.join(src, "confirm.json")) else {}
    chk = json.load(open(os.path.join(src, "check.json"))) if os.path.exists(os.path.join(src, "check.json")) else {}
    notes = open(os.path.join(src, "notes.md")).read() if os.path.exists(os.path.join(src, "notes.md")) else ""
    title = next((l.lstrip("# ").strip() for l in notes.split("\n") if l.strip()), "")
    files = sorted(set(l.split(" b/")[-1] for l in open(patch).read().split("\n") if l.startswith("diff --git")))
    detected = {p: {"exit": r["rc"], "verdict": [l for l in r["lines"] if l.startswith(("VIOLATION", "BROKEN", "FAILING-INPUT"))][:4]} for p, r in chk.items()}
    meta = {
        "property": prop, "name": name, "title": title, "files_changed": files,
        "needs_to_manifest": "see notes.md (written by the independent sub-agent that produced the change)",
        "confirmed": {"demo_passes_without_patch": conf.get("demo_without_patch_rc") == 0,
                      "demo_fails_with_patch": conf.get("demo_with_patch_rc", 0) != 0,
                      "build_and_suite_pass_with_patch": conf.get("suite_with_patch_rc") == 0,
                      "how": "tools/try_seed.py demo: scratch worktree of /repo HEAD, demo/run.sh before and after `git apply patch.diff`, go build ./... && go test ./..."},
        "checks_run": {"how": "tools/try_seed.py check: git -C /repo apply patch.diff; ./check <prop> --tier quick; git -C /repo apply -R patch.diff", "results": detected},
        "caught": any(r["rc"] != 0 for r in chk.values()),
    }
    json.dump(meta, open(os.path.join(dst, "meta.json"), "w"), indent=1)
    print("kept", dst, "caught=", meta["caught"])
