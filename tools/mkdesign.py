#!/usr/bin/env python3
"""Regenerates the generated parts of DESIGN.md (between <!-- BEGIN:x --> / <!-- END:x --> markers):
   asbuilt  : per property — theorems (from coq/Props), claim text, trusted/assumed, pointer to docs/notes
   findings : genuine defects (known_findings*.json) with disposition and fix commit
   seeded   : seeded changes kept under seeded/ and which check catches them
"""
import glob, json, os, re, subprocess
V = os.path.dirname(os.path.dirname(os.path.abspath(__file__)))
props = [json.loads(l) for l in open(os.path.join(V, "properties.jsonl"))]

def strip_comments(s):
    out, depth, i = [], 0, 0
    while i < len(s):
        if s.startswith("(*", i): depth += 1; i += 2
        elif s.startswith("*)", i) and depth > 0: depth -= 1; i += 2
        else:
            if depth == 0: out.append(s[i])
            i += 1
    return "".join(out)

def theorems(pid):
    names = []
    files = [os.path.join(V, "coq", "Props", pid + ".v")] + sorted(
        f for f in glob.glob(os.path.join(V, "coq", "Props", pid + "*.v")) if re.fullmatch(re.escape(pid) + r"[a-z]+\.v", os.path.basename(f)))
    for f in files:
        if os.path.exists(f):
            names += re.findall(r"^\s*(?:Theorem|Corollary)\s+([A-Za-z0-9_']+)", strip_comments(open(f).read()), re.M)
    return names

def asbuilt():
    out = []
    for p in props:
        i = p["id"]
        cf = os.path.join(V, "tools", "claims", i + ".json")
        out.append("### %s — %s\n" % (i, p["title"]))
        if not os.path.exists(cf):
            out.append("*not claimed*\n")
            continue
        c = json.load(open(cf))
        th = theorems(i)
        ev = os.path.join(V, "evidence", i + ".json")
        axioms = ""
        if os.path.exists(ev):
            e = json.load(open(ev))
            axioms = e["coverage"].get("print_assumptions", "")
        out.append("*Theorems* (`coq/Props/%s*.v`, %d): %s.\n" % (i, len(th), ", ".join("`%s`" % t for t in th)))
        if axioms:
            out.append("*Print Assumptions*: %s.\n" % axioms)
        out.append("*What is decided and how it is tied to the source.* %s\n" % c["text"])
        out.append("*Trusted / assumed / partial.* %s\n" % c["note"])
        out.append("*Technique*: %s. Details, model description, correspondence design and deviations from the round-0 plan: `docs/notes/%s.md`.\n" % (c["technique"], i))
    return "\n".join(out)

def git_fix_commits():
    log = subprocess.run(["git", "-C", "/repo", "log", "--format=%h %s"], capture_output=True, text=True).stdout.strip().split("\n")
    return [l for l in log if l.split(" ", 1)[1].startswith("fix:")]

def findings():
    fs = json.load(open(os.path.join(V, "known_findings.json")))["findings"]
    for q in sorted(glob.glob(os.path.join(V, "known_findings.d", "*.json"))):
        fs += json.load(open(q))["findings"]
    fixes = git_fix_commits()
    out = ["| property | id | status | what fails (input / witness) | disposition |", "|---|---|---|---|---|"]
    for f in sorted(fs, key=lambda f: (f["property"], f.get("status", ""), f.get("id", ""))):
        what = f["what"].replace("|", "\\|").replace("\n", " ")
        if f.get("status") == "fixed":
            c = f.get("commit", "")
            key = c.split("—")[0].strip()[:40]
            h = next((x.split()[0] for x in fixes if key and key[5:30] in x), "")
            disp = "repaired: `%s` %s" % (h, c.replace("|", "\\|")[:160])
        else:
            disp = "open known finding: " + (f.get("why_not_fixed", "") or "").replace("|", "\\|")[:400]
        out.append("| %s | %s | %s | %s | %s |" % (f["property"], f.get("id", ""), f.get("status", ""), what[:500], disp))
    out.append("")
    out.append("`fix:` commits in /repo (oldest last):")
    out.append("")
    for x in fixes:
        out.append("* `%s`" % x)
    return "\n".join(out)

def seeded():
    out = ["| seeded change | property | files | caught by `./check` | how it shows |", "|---|---|---|---|---|"]
    for d in sorted(glob.glob(os.path.join(V, "seeded", "*"))):
        mf = os.path.join(d, "meta.json")
        if not os.path.exists(mf):
            continue
        m = json.load(open(mf))
        res = m["checks_run"]["results"]
        how = "; ".join("%s: %s" % (p, " / ".join(v[:110] for v in r["verdict"][:2])) for p, r in res.items())
        out.append("| `seeded/%s` — %s | %s | %s | %s | %s |" % (m["name"], m["title"].replace("|", "\\|")[:140], m["property"], ", ".join(m["files_changed"]), "yes" if m["caught"] else "**no**", how.replace("|", "\\|")[:420]))
    return "\n".join(out)

def main():
    p = os.path.join(V, "DESIGN.md")
    s = open(p).read()
    for name, gen in (("asbuilt", asbuilt), ("findings", findings), ("seeded", seeded)):
        b, e = "<!-- BEGIN:%s -->" % name, "<!-- END:%s -->" % name
        if b in s and e in s:
            s = s[:s.index(b) + len(b)] + "\n" + gen() + "\n" + s[s.index(e):]
    open(p, "w").write(s)
    print("DESIGN.md regenerated")
main()
