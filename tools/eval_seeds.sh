#!/bin/sh
# evaluates every seeded change under /tmp/out-*/N that has a patch but no check.json yet
cd /verif
for d in /tmp/out-C*/[1-5]; do
  [ -f $d/patch.diff ] || continue
  p=$(basename $(dirname $d) | sed 's/out-//'); n=$(basename $d)
  if [ ! -f $d/confirm.json ] || [ "$1" = "force" ]; then python3 tools/try_seed.py demo $p $n > $d/confirm.log 2>&1; fi
  if [ ! -f $d/check.json ] || [ "$1" = "force" ]; then python3 tools/try_seed.py check $p $n > $d/check.log 2>&1; fi
done
python3 - <<'PY'
import glob, json, os
for d in sorted(glob.glob('/tmp/out-C*/[1-5]')):
    c = json.load(open(d+'/confirm.json')) if os.path.exists(d+'/confirm.json') else {}
    k = json.load(open(d+'/check.json')) if os.path.exists(d+'/check.json') else {}
    caught = {p: r['rc'] for p, r in k.items()}
    nfi = any('no-failing-input-found' in l for r in k.values() for l in r['lines'])
    print(d[9:], 'confirmed=%s' % c.get('confirmed'), 'check=%s' % caught, 'no-failing-input' if nfi else '')
PY
