#!/bin/sh
# link_round.sh <round> <offset> : links finished seeds /tmp/out<round>-Cxx/{1,2} as /tmp/out-Cxx/{offset+1,offset+2}
# and confirms their demos (6 in parallel; suite retried up to 3 times because two sub-tests of ./tests are flaky under load)
R=$1; OFF=$2
for d in /tmp/out$R-C*/[12]; do
  [ -f $d/patch.diff ] && [ -f $d/demo/run.sh ] || continue
  p=$(basename $(dirname $d) | sed "s/out$R-//"); n=$(basename $d); m=$((n+OFF))
  [ -e /tmp/out-$p/$m ] || ln -s $d /tmp/out-$p/$m
  [ -f $d/confirm.json ] && grep -q '"confirmed": true' $d/confirm.json || echo "$p $m"
done | xargs -P 6 -L 1 sh -c 'cd /verif; for t in 1 2 3; do python3 tools/try_seed.py demo $0 $1 > /tmp/out-$0/$1/confirm.log 2>&1; grep -q "\"confirmed\": true" /tmp/out-$0/$1/confirm.log && break; done; echo "$0/$1 $(grep -o "\"confirmed\": [a-z]*" /tmp/out-$0/$1/confirm.log)"'
