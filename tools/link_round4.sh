#!/bin/sh
# links finished round-4 seeds /tmp/out4-Cxx/{1,2} as /tmp/out-Cxx/{9,10} and confirms their demos (parallel, isolated netns)
for d in /tmp/out4-C*/[12]; do
  [ -f $d/patch.diff ] && [ -f $d/demo/run.sh ] || continue
  p=$(basename $(dirname $d) | sed 's/out4-//'); n=$(basename $d); m=$((n+8))
  [ -e /tmp/out-$p/$m ] || ln -s $d /tmp/out-$p/$m
  [ -f $d/confirm.json ] || echo "$p $m"
done | xargs -P 6 -L 1 sh -c 'cd /verif && python3 tools/try_seed.py demo $0 $1 > /tmp/out-$0/$1/confirm.log 2>&1; echo "$0/$1 $(grep -o "\"confirmed\": [a-z]*" /tmp/out-$0/$1/confirm.log)"'
