(* Extraction of the expiry model. ExtrOcamlBasic only. *)
From Coq Require Import Extraction ExtrOcamlBasic ZArith NArith.
From T38 Require Import Base.Bytes Model.Expire.
Extraction Language OCaml.
Extraction "model.ml" Z.add Z.of_N Nat.add apply sweep ttl cnew objs expires.
