(* request handlers of the expiry model driver.
   expire_run <op>... where op = S:<hexid>:<val>:<ex> | E:<hexid>:<ex> | P:<hexid> | D:<hexid> | W:<now>
   reply: objs as id=val/ex sorted by id ; expiry index order ; ids deleted by each sweep *)
open Model
open Conv

let handle (toks : Stdlib.String.t list) : Stdlib.String.t =
  match toks with
  | "expire_run" :: ops ->
      let c = ref cnew in
      let log = Buffer.create 64 in
      Stdlib.List.iter (fun o ->
        match Stdlib.String.split_on_char ':' o with
        | ["S"; id; v; ex] -> c := apply !c (OSet (bytes_of_hex id, nat_of_int (int_of_string v), z_of_string ex))
        | ["E"; id; ex] -> c := apply !c (OExpire (bytes_of_hex id, z_of_string ex))
        | ["P"; id] -> c := apply !c (OPersist (bytes_of_hex id))
        | ["D"; id] -> c := apply !c (ODel (bytes_of_hex id))
        | ["W"; now] ->
            let (c', dels) = sweep (z_of_string now) !c in
            c := c';
            Buffer.add_string log ("[" ^ Stdlib.String.concat "," (Stdlib.List.map hex_of_bytes dels) ^ "]")
        | _ -> failwith ("bad op " ^ o)) ops;
      let os = Stdlib.List.map (fun (id, o) -> (hex_of_bytes id, Printf.sprintf "%d/%s" (int_of_nat o.o_val) (string_of_z o.o_ex))) (objs !c) in
      let os = Stdlib.List.sort compare os in
      Printf.sprintf "%s | %s | %s"
        (Stdlib.String.concat "," (Stdlib.List.map (fun (i, s) -> i ^ "=" ^ s) os))
        (Stdlib.String.concat "," (Stdlib.List.map (fun e -> hex_of_bytes (snd e)) (expires !c)))
        (Buffer.contents log)
  | _ -> "?unknown"
