(* request handlers of the notification-queue model driver (C10)

   hooksim <h> <enq> <outcomes>
       enq      = writes in AOF order, ';' separated; one write = ',' separated <hook>.<msg> ("-" = none at all)
       outcomes = string of 0/1: result of the successive sends of hook h's manager ("-" = none)
     All writes are enqueued (time 0), then the manager of h runs proc rounds (take, send) consuming
     the outcomes until they are used up and nothing is pending (after the outcomes: healthy).
     An optional fourth argument k inserts a process restart (Restart event: qidx read back from the
     persisted "hook:idx") after the k-th write.
     reply: attempts=<msg,...> delivered=<msg,...> pending=<msg,...> expected=<msg,...>
   pubsub <t> <events>      events ',' separated: r<c>.<t> R<p>.<t> (register exact / pattern), u<c>.<t> U<p>.<t>,
                            s<c>.<m> (publish snapshot), a (append one), d<t> (drain); pattern p matches channel c iff c / 100 = p
     reply: out=<m,...> view=<m,...> expected=<m,...>
   live <b> <k> <events>    events: r<b>.<k> u<b> w<k>.<d> p v<b>
     reply: out=<d,...> view=<d,...>
   hookttl                  reply: the retention of the property in ms (Queues.hook_ttl)
   retention <own|shared> <h> <events>
       the queue with the shared options record as state (Model/HookRetention.v); own = Hook.proc re-inserts with
       an options value of its own (the proved variant), shared = it assigns the TTL through the shared pointer.
       events ',' separated, times in ms: e<t>.<hook>.<msg>[+<hook>.<msg>...] (one write), t<t>.<hook> (the manager
       takes the queue), f<t>.<hook>.<0/1 string or -> (it sends: outcomes; on failure re-inserts), R<t> (restart)
     reply: ttls=<msg>:<ttl>,... (what every message got when it was queued) default=<ms> delivered=<msg,...> pending=<msg,...> (of hook h) *)
open Model
open Conv

let split c s = if s = "" || s = "-" then [] else String.split_on_char c s
let ni s = n_of_int (int_of_string s)
let lst l = match l with [] -> "-" | _ -> String.concat "," (List.map (fun x -> string_of_int (int_of_n x)) l)
let pair s = match String.split_on_char '.' s with [a; b] -> (a, b) | _ -> failwith "pair"

let hooksim h enq outs restart_after =
  let h = ni h in
  let writes = List.map (fun w -> List.map (fun hm -> let (a, b) = pair hm in (ni a, ni b)) (split ',' w)) (split ';' enq) in
  (* restart_after = k >= 0: the process is killed and restarted after the k-th write (managers idle) *)
  let evs = List.concat (List.mapi (fun i w ->
    (if i = restart_after then [Restart (z_of_int 0)] else []) @ [Enq (z_of_int 0, w)]) writes) in
  let evs = if restart_after >= List.length writes then evs @ [Restart (z_of_int 0)] else evs in
  let q = ref (qrun hq_init evs) in
  let outs = ref (if outs = "-" then [] else List.init (String.length outs) (fun i -> outs.[i] = '1')) in
  let attempts = ref [] in
  let rounds = ref 0 in
  let continue = ref true in
  while !continue && !rounds < 10000 do
    incr rounds;
    q := qstep !q (Mgr (h, z_of_int 1, []));            (* first transaction *)
    let tk = taken_list !q h in
    let (sent, unsent) = send_all !outs tk in
    let tried = sent @ (match unsent with [] -> [] | e :: _ -> [e]) in
    attempts := !attempts @ List.map (fun e -> e.e_msg) tried;
    q := qstep !q (Mgr (h, z_of_int 1, !outs));          (* sends + second transaction *)
    let used = List.length tried in
    outs := (let rec drop n l = if n <= 0 then l else match l with [] -> [] | _ :: r -> drop (n - 1) r in drop used !outs);
    if tried = [] || (!outs = [] && pending !q h = []) then continue := false
  done;
  Printf.sprintf "attempts=%s delivered=%s pending=%s expected=%s" (lst !attempts)
    (lst (List.map (fun e -> e.e_msg) (!q.q_delivered h))) (lst (List.map (fun e -> e.e_msg) (pending !q h)))
    (lst (enq_msgs h evs))

let pm p c = int_of_n c / 100 = int_of_n p

let pev s =
  let body = String.sub s 1 (String.length s - 1) in
  match s.[0] with
  | 'r' -> let (c, t) = pair body in PReg (false, ni c, nat_of_int (int_of_string t))
  | 'R' -> let (c, t) = pair body in PReg (true, ni c, nat_of_int (int_of_string t))
  | 'u' -> let (c, t) = pair body in PUnreg (false, ni c, nat_of_int (int_of_string t))
  | 'U' -> let (c, t) = pair body in PUnreg (true, ni c, nat_of_int (int_of_string t))
  | 's' -> let (c, m) = pair body in PSnap (ni c, ni m)
  | 'a' -> PAppend
  | 'd' -> PDrain (nat_of_int (int_of_string body))
  | _ -> failwith "pev"

let lev s =
  let body = String.sub s 1 (String.length s - 1) in
  match s.[0] with
  | 'r' -> let (b, k) = pair body in LReg (nat_of_int (int_of_string b), ni k)
  | 'u' -> LUnreg (nat_of_int (int_of_string body))
  | 'w' -> let (k, d) = pair body in LWrite (ni k, ni d)
  | 'p' -> LProc
  | 'v' -> LDeliver (nat_of_int (int_of_string body))
  | _ -> failwith "lev"

let qev_of s =
  let body = String.sub s 1 (String.length s - 1) in
  let zi x = z_of_int (int_of_string x) in
  match s.[0], String.split_on_char '.' body with
  | 'e', t :: rest ->
      let rest = String.split_on_char '+' (String.concat "." rest) in
      Enq (zi t, List.map (fun hm -> let (a, b) = pair hm in (ni a, ni b)) rest)
  | 't', [t; h] -> Mgr (ni h, zi t, [])
  | 'f', [t; h; o] -> Mgr (ni h, zi t, if o = "-" then [] else List.init (String.length o) (fun i -> o.[i] = '1'))
  | 'R', [t] -> Restart (zi t)
  | _ -> failwith "qev"

let retention variant h evs =
  let v = match variant with "own" -> RetryOwn | "shared" -> RetryThroughDefault | _ -> failwith "variant" in
  let h = ni h in
  let evs = List.map qev_of (split ',' evs) in
  let s0 = rq_init hook_ttl in
  let s = rrun v hook_ttl s0 evs in
  let ttls = fresh_ttls v hook_ttl s0 evs in
  Printf.sprintf "ttls=%s default=%d delivered=%s pending=%s"
    (match ttls with [] -> "-" | _ -> String.concat "," (List.map (fun (m, t) -> Printf.sprintf "%d:%d" (int_of_n m) (int_of_z t)) ttls))
    (int_of_z s.r_def)
    (lst (List.map (fun e -> e.e_msg) (s.r_q.q_delivered h))) (lst (List.map (fun e -> e.e_msg) (pending s.r_q h)))

let handle (toks : string list) : string =
  match toks with
  | ["hookttl"] -> string_of_int (int_of_z hook_ttl)
  | ["retention"; v; h; evs] -> retention v h evs
  | ["hooksim"; h; enq; outs] -> hooksim h enq outs (-1)
  | ["hooksim"; h; enq; outs; k] -> hooksim h enq outs (int_of_string k)
  | ["pubsub"; t; evs] ->
      let t = nat_of_int (int_of_string t) in
      let evs = List.map pev (split ',' evs) in
      let s = prun pm ps_init evs in
      Printf.sprintf "out=%s view=%s expected=%s" (lst (List.map (fun m -> m.pm_body) (s.ps_out t)))
        (lst (List.map (fun m -> m.pm_body) (ps_view s t)))
        (lst (List.map (fun m -> m.pm_body) (expected pm t { ts_exact = []; ts_pat = [] } evs)))
  | ["live"; b; k; evs] ->
      let b = nat_of_int (int_of_string b) and k = ni k in
      let evs = List.map lev (split ',' evs) in
      let s = lrun { lv_lives = []; lv_stack = []; lv_details = (fun _ -> []); lv_out = (fun _ -> []) } evs in
      Printf.sprintf "out=%s view=%s" (lst (s.lv_out b)) (lst (lv_view s b k))
  | _ -> "?unknown"
