(* Extraction of the notification queue models (C10). ExtrOcamlBasic only. *)
From Coq Require Import Extraction ExtrOcamlBasic ZArith NArith.
From T38 Require Import Model.Queues Model.HookRetention.
Extraction Language OCaml.
Extraction "model.ml" Z.add Z.of_N Nat.add hq_init qstep qrun pending taken_list enq_msgs send_all
  ps_init pstep prun ps_view expected lstep lrun lv_view writes_on mkLV
  hook_ttl rq_init rstep rrun fresh_ttls.
