(* request handlers of the keyspace reply model driver (cluster "ksreply"): Model/KsReply.v exec_k, the
   two renderings of its abstract result and the two projections.  Oracles are tables filled by the
   harness on demand exactly as in the "ks" driver: a lookup that misses raises Need, the request
   answers "?need <oracle> <args>", the harness computes the value by calling the library directly
   (verifapi) and sends "orc <oracle> <args> = <value>", then repeats the request.  The model state
   only changes when a request completes. *)
open Model
open Conv

exception Need of string

let tbl : (string, string list) Hashtbl.t = Hashtbl.create 4096
let h = hex_of_bytes
let look (name : string) (args : string list) : string list =
  let k = String.concat " " (name :: args) in
  match Hashtbl.find_opt tbl k with Some v -> v | None -> raise (Need k)

let value_of_toks = function
  | [k; d] -> { v_kind = n_of_int (int_of_string k); v_data = bytes_of_hex d }
  | _ -> failwith "bad value"

let geo_args (g : geo) = [bool_str g.g_spatial; h g.g_text]

let forc : foracle = {
  fo_valueof = (fun d -> value_of_toks (look "valueof" [h d]));
  fo_trim = (fun s -> match look "trim" [h s] with [x] -> bytes_of_hex x | _ -> failwith "bad trim");
  fo_gjson = (fun j p -> match look "gjson" [h j; h p] with ["none"] -> None | l -> Some (value_of_toks l));
}

let ores_of = function
  | ["ok"; x] -> OOk (bytes_of_hex x)
  | ["err"; x] -> OErr (bytes_of_hex x)
  | _ -> failwith "bad ores"

let orc : oracle = {
  o_f = forc;
  o_float_ok = (fun s -> look "float_ok" [h s] = ["1"]);
  o_dur = (fun s -> match look "dur" [h s] with [x] -> z_of_string x | _ -> failwith "bad dur");
  o_int = (fun s -> match look "int" [h s] with ["none"] -> None | [x] -> Some (z_of_string x) | _ -> failwith "bad int");
  o_uint = (fun s -> match look "uint" [h s] with ["none"] -> None | [x] -> Some (match z_of_string x with Z0 -> N0 | Zpos p -> Npos p | Zneg _ -> N0) | _ -> failwith "bad uint");
  o_lower = (fun s -> s);
  o_mkgeo = (fun k args ->
    match look "mkgeo" (string_of_int (int_of_n k) :: List.map h args) with
    | ["ok"; sp; t] -> GOk { g_spatial = (sp = "1"); g_text = bytes_of_hex t }
    | ["err"; m] -> GErr (bytes_of_hex m)
    | _ -> failwith "bad mkgeo");
  o_point = (fun g -> List.map bytes_of_hex (look "point" (geo_args g)));
  o_bounds = (fun g -> List.map bytes_of_hex (look "bounds" (geo_args g)));
  o_hash = (fun g p -> match look "hash" (geo_args g @ [string_of_z p]) with [x] -> bytes_of_hex x | _ -> failwith "bad hash");
  o_sjson_set = (fun raw j p v -> ores_of (look "sjson_set" [bool_str raw; h j; h p; h v]));
  o_sjson_del = (fun j p -> ores_of (look "sjson_del" [h j; h p]));
  o_jget = (fun j p raw ->
    match look "jget" [h j; (match p with None -> "~" | Some p -> h p); bool_str raw] with
    | ["none"] -> None | [x] -> Some (bytes_of_hex x) | _ -> failwith "bad jget");
}

(* canonical reply text, the same on the Go side (c01 / c17 harness) *)
let rec show (r : reply) : string =
  match r with
  | RInt n -> "i" ^ string_of_z n
  | RBulk b -> "b" ^ h b
  | RNil -> "n"
  | RArr l -> "a(" ^ String.concat "," (List.map show l) ^ ")"
  | RErr m -> "e" ^ h m
  | ROk s -> "s" ^ h s
  | RUnmodelled -> "u"

let show_cgeo = function
  | CGText t -> "T" ^ h t
  | CGCoords cs -> "C" ^ String.concat "/" (List.map h cs)
  | CGHash x -> "H" ^ h x

let show_conv (c : conv) : string =
  match c with
  | CErr l -> "err:" ^ h l
  | CNeg -> "neg"
  | CDone -> "done"
  | CObj (g, fs) -> "obj:" ^ show_cgeo g ^ ":" ^ String.concat "," (List.map (fun (n, d) -> h n ^ "=" ^ h d) fs)
  | CVal d -> "val:" ^ h d
  | CBool b -> "bool:" ^ bool_str b
  | CInt n -> "int:" ^ string_of_z n
  | CType t -> "type:" ^ h t
  | CKeys l -> "keys:" ^ String.concat "," (List.map h l)
  | CJget v -> "jget:" ^ h v

let show_ask (a : ask) : string =
  match a with
  | AAck -> "ack" | ASet -> "set" | ACount -> "count" | AFound -> "found" | APersist -> "persist" | AJdel -> "jdel"
  | AObjGet (k, w) -> Printf.sprintf "objget%d%s" (int_of_n k) (bool_str w)
  | AObjSet (k, w) -> Printf.sprintf "objset%d%s" (int_of_n k) (bool_str w)
  | AObjFset (k, w) -> Printf.sprintf "objfset%d%s" (int_of_n k) (bool_str w)
  | AFget -> "fget" | AExists -> "exists" | ATtl -> "ttl" | AType -> "type" | AKeys -> "keys" | AJget -> "jget"

let st : state ref = ref []

let env_of now flags hooks = {
  e_now = z_of_string now;
  e_follower = String.length flags > 0 && flags.[0] = '1';
  e_caughtup = String.length flags > 1 && flags.[1] = '1';
  e_readonly = String.length flags > 2 && flags.[2] = '1';
  e_hookkeys = hooks;
}

let has_deadline ex = match ex with Z0 -> "0" | _ -> "1"

let dump_fields (fs : flist) =
  String.concat "," (List.map (fun (n, v) -> h n ^ ":" ^ h v.v_data) (fl_scan fs))

let dump_impl () =
  String.concat ";" (List.concat_map (fun (k, c) ->
    List.map (fun (i, o) ->
      Printf.sprintf "k=%s i=%s o=%s f=%s d=%s" (h k) (h i) (h o.o_geo.g_text) (dump_fields o.o_fields) (has_deadline o.o_ex)) c) !st)
  ^ "|" ^ String.concat "," (List.map (fun (k, c) -> h k ^ ":" ^ string_of_int (List.length c)) !st)

let rec split_at_eq acc = function
  | [] -> (List.rev acc, [])
  | "=" :: r -> (List.rev acc, r)
  | x :: r -> split_at_eq (x :: acc) r

let opt_conv = function Some c -> show_conv c | None -> "none"

let handle (toks : string list) : string =
  try
    match toks with
    | ["reset"] -> st := []; "ok"
    | "orc" :: rest ->
        let (k, v) = split_at_eq [] rest in
        Hashtbl.replace tbl (String.concat " " k) v; "ok"
    (* stepk <now> <flags fcr> <elapsed hex> <args hex...> :
         K <cmd> <ask> <handler> R <resp reply> X <exec reply> J <json doc | none> T <printed tree> V <tree valid>
           CJ <conveyed by JSON> CR <conveyed by RESP> CK <conv_of> L <logged> *)
    | "stepk" :: now :: flags :: d :: args ->
        let e = env_of now flags [] in
        let a = List.map bytes_of_hex args in
        let d = bytes_of_hex d in
        (match exec_k orc e !st a with
         | KPanic -> "PANIC"
         | KUnmodelled -> "U"
         | KDone (s', c, ao, hn, k, log) ->
             (* C01's exec on the same state: c17_ks_resp_is_c01_reply says it answers resp_reply k *)
             let xr = (match exec orc true e !st a with Done (_, r, _) -> show r | Panic -> "PANIC") in
             st := s';
             let ask = (match ao with Some x -> x | None -> AFget) in
             let tree = json_tree k d in
             let doc = json_doc hn k d in
             let r = resp_reply k in
             Printf.sprintf "K %s %s %s R %s X %s J %s T %s V %s CJ %s CR %s CK %s L %d"
               (h c) (match ao with Some x -> show_ask x | None -> "early") (h hn)
               (show r) xr
               (match doc with Some v -> h v | None -> "none")
               (h (jprint tree)) (bool_str (valid_json (jprint tree)))
               (opt_conv (conveys_json c ask tree)) (opt_conv (conveys_resp ask r)) (show_conv (conv_of ask k))
               (List.length log))
    | ["dump"] -> dump_impl ()
    | ["float_text"; s] -> bool_str (float_text (bytes_of_hex s))
    | ["valid_json"; s] -> bool_str (valid_json (bytes_of_hex s))
    | _ -> "?unknown"
  with Need k -> "?need " ^ k
