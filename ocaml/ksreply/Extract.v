(* Extraction of the keyspace reply model in both output modes (C17 on C01's model). ExtrOcamlBasic only. *)
From Coq Require Import Extraction ExtrOcamlBasic.
From T38 Require Import Base.Bytes Base.SMap Model.Field Model.Object Model.Spec Model.Glob Model.Keyspace Model.Json Model.Templates Model.KsReply.
From T38 Require Model.RespOut.
From T38 Require Gen.Templates.  (* json_doc instantiates the regenerated templates: rebuild when coq/Gen changes *)
Extraction Language OCaml.
Extraction "model.ml" Z.add Z.of_N Nat.add
  exec_k exec json_doc json_tree jprint resp_reply rval_of conveys_json conveys_resp conv_of
  float_text is_dec_text valid_json fl_scan RespOut.resp_print.
