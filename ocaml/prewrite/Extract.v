(* Extraction of the pre-write protocol model (C08). ExtrOcamlBasic only. *)
From Coq Require Import Extraction ExtrOcamlBasic ZArith NArith.
From T38 Require Import Model.Prewrite.
Extraction Language OCaml.
Extraction "model.ml" Z.add Z.of_N Nat.add init step trace run_sched acked_in_file mkVariant mkBatch.
