(* request handlers of the pre-write model driver (C08)

   trace <store_locked 0|1> <detach_prewrite 0|1> <flusher_swap 0|1> <flag_in_writeaof 0|1> <detach_store_locked 0|1> <flusher_store 0|1> <nprogs> <prog>... <sched>
     (in a batch a trailing "~", before the optional "!", says its commands are written by Lua scripts)
     prog  = F                      background flusher
           | C<batch>/<batch>/...   connection; batch = comma separated command ids, "_" = no write
                                    command, a trailing "!" = the batch ends by going live
     sched = comma separated thread indices ("-" = empty)
   reply: one word per step (and one for the initial state first):
     <pc>.<pc>...:<lock|->:<dirty>:<buf>:<file>:<acked>:<acked_in_file>   lists comma separated, "-" = empty *)
open Model
open Conv

let split c s = if s = "" then [] else String.split_on_char c s

let parse_batch (s : string) : batch =
  let detach = String.length s > 0 && s.[String.length s - 1] = '!' in
  let s = if detach then String.sub s 0 (String.length s - 1) else s in
  let script = String.length s > 0 && s.[String.length s - 1] = '~' in
  let s = if script then String.sub s 0 (String.length s - 1) else s in
  let cmds = if s = "_" || s = "" then [] else List.map (fun x -> n_of_int (int_of_string x)) (split ',' s) in
  { b_cmds = cmds; b_detach = detach; b_script = script }

let parse_prog (s : string) : prog =
  if s = "F" then PFlusher
  else PConn (List.map parse_batch (split '/' (String.sub s 1 (String.length s - 1))))

let pc_str = function
  | CMD -> "CMD" | L2 -> "L2" | L3 -> "L3" | L4 -> "L4" | P1 -> "P1" | P2 -> "P2" | P3 -> "P3"
  | P4 -> "P4" | P4U -> "P4U" | P5 -> "P5" | P6 -> "P6" | DONE -> "DONE" | F1 -> "F1" | FL -> "FL" | F2 -> "F2" | F3 -> "F3"

let lst l = match l with [] -> "-" | _ -> String.concat "," (List.map (fun x -> string_of_int (int_of_n x)) l)

let show (n : int) (st : state) : string =
  let pcs = List.init n (fun i -> pc_str (st.threads (nat_of_int i)).t_pc) in
  Printf.sprintf "%s:%s:%s:%s:%s:%s:%s" (String.concat "." pcs)
    (match st.lock with None -> "-" | Some t -> string_of_int (int_of_nat t))
    (bool_str st.dirty) (lst st.buf) (lst st.file) (lst st.acked) (bool_str (acked_in_file st))

let handle (toks : string list) : string =
  match toks with
  | "trace" :: sl :: dp :: fs :: fw :: dl :: fst :: n :: rest ->
      let n = int_of_string n in
      let v = { v_store_locked = (sl = "1"); v_detach_prewrite = (dp = "1"); v_flusher_swap = (fs = "1"); v_flag_in_writeaof = (fw = "1"); v_detach_store_locked = (dl = "1"); v_flusher_store = (fst = "1") } in
      let progs = List.filteri (fun i _ -> i < n) rest in
      let sched = match List.filteri (fun i _ -> i >= n) rest with
        | [s] when s <> "-" -> List.map (fun x -> nat_of_int (int_of_string x)) (split ',' s)
        | _ -> [] in
      let st0 = init v (List.map parse_prog progs) in
      String.concat " " (List.map (show n) (st0 :: trace v st0 sched))
  | _ -> "?unknown"
