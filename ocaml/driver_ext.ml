(* further request handlers are added here, one match arm per model entry point *)
let handle (_toks : string list) : string option = None
