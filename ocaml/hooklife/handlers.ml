(* request handlers of the hook / channel life-cycle model driver (Model/HookLife.v).

   Byte strings are hex ("-" = empty). States live in a table keyed by a session name.
     new S                       fresh empty registry, empty log
     cmd S <now> <orc> a0 a1 ..  Model.exec at clock <now>; reply "<updated> <reply>"; appends the record when updated
     sweep S <now>               Model.sweep; reply = the records it logged, "|"-separated
     dump S                      registry with exact deadlines ; index order
     er S                        registry with deadlines erased to a flag (the ≈ex view)
     log S                       the log so far
     replay S T <n> <clk0> <dclk>   T := the first n records (n < 0: all) of S's log replayed from the empty
                                 registry with Model.replay_at, record i at clock clk0 + i*dclk
     guard S key newkey          Model.rename_guard
   <orc> = the oracle table of this command, sections separated by ";" :
     t:<piece>=<trimmed>/...   strings.TrimSpace
     v:<url>=<0|1>/...         endpoint validation
     d:<token>=<ns|x>/...      ParseFloat + Duration (x = ParseFloat error)
     f:<n>=<k<hexkey>|e<hexmsg>>/...  fence parse of the last n tokens of the command
   reply = i:<n> | ok | e:<hexmsg> | l:<item>|<item>...
   item  = name,key,ttl,ep+ep..,arg+arg..,k=v+k=v..   *)
open Model
open Conv

type sess = { mutable st : state; mutable log : (n list list * oracle) list (* newest first *) }
let tbl : (Stdlib.String.t, sess) Hashtbl.t = Hashtbl.create 16

let split c s = if s = "" then [] else Stdlib.String.split_on_char c s
let cut c s =
  match Stdlib.String.index_opt s c with
  | Some i -> (Stdlib.String.sub s 0 i, Stdlib.String.sub s (i + 1) (Stdlib.String.length s - i - 1))
  | None -> (s, "")

let no_oracle : oracle =
  { o_trim = (fun b -> b); o_valid = (fun _ -> false); o_dur = (fun _ -> None); o_fence = (fun _ _ -> FErr []) }

let parse_oracle (s : Stdlib.String.t) : oracle =
  let trim = ref [] and valid = ref [] and dur = ref [] and fence = ref [] in
  Stdlib.List.iter (fun sec ->
    let (tag, body) = cut ':' sec in
    Stdlib.List.iter (fun ent ->
      let (k, v) = cut '=' ent in
      match tag with
      | "t" -> trim := (bytes_of_hex k, bytes_of_hex v) :: !trim
      | "v" -> valid := (bytes_of_hex k, v = "1") :: !valid
      | "d" -> dur := (bytes_of_hex k, (if v = "x" then None else Some (z_of_string v))) :: !dur
      | "f" ->
          let r = if Stdlib.String.length v > 0 && v.[0] = 'k'
                  then FOk (bytes_of_hex (Stdlib.String.sub v 1 (Stdlib.String.length v - 1)))
                  else FErr (bytes_of_hex (Stdlib.String.sub v 1 (Stdlib.String.length v - 1))) in
          fence := (int_of_string k, r) :: !fence
      | _ -> failwith ("bad oracle section " ^ tag)) (split '/' body)) (split ';' s);
  let missing what = failwith ("oracle table has no entry for this " ^ what) in
  { o_trim = (fun b -> try Stdlib.List.assoc b !trim with Not_found -> missing "trim");
    o_valid = (fun b -> try Stdlib.List.assoc b !valid with Not_found -> missing "url");
    o_dur = (fun b -> try Stdlib.List.assoc b !dur with Not_found -> missing "duration");
    o_fence = (fun _ rest -> try Stdlib.List.assoc (Stdlib.List.length rest) !fence with Not_found -> missing "fence") }

let hexl sep l = Stdlib.String.concat sep (Stdlib.List.map hex_of_bytes l)
let metas_str m = Stdlib.String.concat "+" (Stdlib.List.map (fun (k, v) -> hex_of_bytes k ^ "=" ^ hex_of_bytes v) m)
let item_str (it : litem) =
  Printf.sprintf "%s,%s,%s,%s,%s,%s" (hex_of_bytes it.l_name) (hex_of_bytes it.l_key) (string_of_z it.l_ttl)
    (hexl "+" it.l_eps) (hexl "+" it.l_args) (metas_str it.l_metas)
let reply_str (r : reply) =
  match r with
  | RInt n -> "i:" ^ string_of_z n
  | ROk -> "ok"
  | RErr m -> "e:" ^ hex_of_bytes m
  | RList l -> "l:" ^ Stdlib.String.concat "|" (Stdlib.List.map item_str l)
let hook_str (h : hook) =
  Printf.sprintf "%s,%s,%s,%s,%s,%s,%s" (hex_of_bytes h.h_name) (if h.h_chan then "chan" else "hook") (hex_of_bytes h.h_key)
    (match h.h_ex with Some d -> string_of_z d | None -> "none")
    (hexl "+" h.h_eps) (hexl "+" h.h_args) (metas_str h.h_metas)
let rec_str (r : n list list) = hexl "+" r

let sess name = try Hashtbl.find tbl name with Not_found -> failwith ("no session " ^ name)

let handle (toks : Stdlib.String.t list) : Stdlib.String.t =
  match toks with
  | ["new"; s] -> Hashtbl.replace tbl s { st = empty; log = [] }; "ok"
  | "cmd" :: s :: now :: orc :: args ->
      let x = sess s in
      let o = parse_oracle (if orc = "." then "" else orc) in
      let a = Stdlib.List.map bytes_of_hex args in
      let ((st', r), upd) = exec o (z_of_string now) x.st a in
      x.st <- st';
      if upd then x.log <- (a, o) :: x.log;
      bool_str upd ^ " " ^ reply_str r
  | ["sweep"; s; now] ->
      let x = sess s in
      let (st', recs) = sweep (z_of_string now) x.st in
      x.st <- st';
      Stdlib.List.iter (fun r -> x.log <- (r, no_oracle) :: x.log) recs;
      "log:" ^ Stdlib.String.concat "|" (Stdlib.List.map rec_str recs)
  | ["dump"; s] ->
      let x = sess s in
      Printf.sprintf "%s ; %s"
        (Stdlib.String.concat "|" (Stdlib.List.map (fun (_, h) -> hook_str h) (hooks x.st)))
        (Stdlib.String.concat "|" (Stdlib.List.map (fun (d, n) -> string_of_z d ^ ":" ^ hex_of_bytes n) (hexp x.st)))
  | ["er"; s] ->
      let x = sess s in
      Stdlib.String.concat "|" (Stdlib.List.map (fun (_, h) -> hook_str h) (er x.st))
  | ["log"; s] ->
      let x = sess s in
      Stdlib.String.concat "|" (Stdlib.List.rev_map (fun (r, _) -> rec_str r) x.log)
  | ["replay"; s; t; n; clk0; dclk] ->
      let x = sess s in
      let recs = Stdlib.List.rev x.log in
      let n = int_of_string n in
      let recs = if n < 0 then recs else Stdlib.List.filteri (fun i _ -> i < n) recs in
      (* replay_at takes one oracle; every record carries its own table, so the records are replayed
         one at a time with the clock function shifted accordingly *)
      let c0 = z_of_string clk0 and dc = z_of_string dclk in
      let st = ref empty in
      Stdlib.List.iteri (fun i (r, o) ->
        let clk = (fun _ -> Z.add c0 (Z.mul (z_of_int i) dc)) in
        st := replay_at o clk O [r] !st) recs;
      Hashtbl.replace tbl t { st = !st; log = [] };
      "ok " ^ string_of_int (Stdlib.List.length recs)
  | ["guard"; s; key; newkey] ->
      let x = sess s in
      (match rename_guard x.st (bytes_of_hex key) (bytes_of_hex newkey) with
       | None -> "none"
       | Some m -> "e:" ^ hex_of_bytes m)
  | _ -> "?unknown"
