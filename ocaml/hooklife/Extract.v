(* Extraction of the hook / channel life-cycle model. ExtrOcamlBasic only. *)
From Coq Require Import Extraction ExtrOcamlBasic ZArith NArith.
From T38 Require Import Base.Bytes Base.SMap Model.HookLife.
Extraction Language OCaml.
Extraction "model.ml" Z.add Z.mul Z.of_N Nat.add exec sweep rename_guard replay_at er empty hooks hexp.
