(* glue between OCaml ints / hex strings and the extracted Coq datatypes *)
open Model

let rec pos_of_int (i : int) : positive =
  if i <= 1 then XH else if i land 1 = 1 then XI (pos_of_int (i lsr 1)) else XO (pos_of_int (i lsr 1))
let n_of_int (i : int) : n = if i <= 0 then N0 else Npos (pos_of_int i)
let rec int_of_pos (p : positive) : int =
  match p with XH -> 1 | XO q -> 2 * int_of_pos q | XI q -> 2 * int_of_pos q + 1
let int_of_n (x : n) : int = match x with N0 -> 0 | Npos p -> int_of_pos p
let rec nat_of_int (i : int) : nat = if i <= 0 then O else S (nat_of_int (i - 1))
let rec int_of_nat (x : nat) : int = match x with O -> 0 | S y -> 1 + int_of_nat y
let z_of_int (i : int) : z =
  if i = 0 then Z0 else if i > 0 then Zpos (pos_of_int i) else Zneg (pos_of_int (-i))
let int_of_z (x : z) : int = match x with Z0 -> 0 | Zpos p -> int_of_pos p | Zneg p -> - (int_of_pos p)

(* decimal string <-> Z for values beyond OCaml int *)
let z_of_string (s : Stdlib.String.t) : z =
  let neg = Stdlib.String.length s > 0 && s.[0] = '-' in
  let digits = if neg then Stdlib.String.sub s 1 (Stdlib.String.length s - 1) else s in
  (* build positive by repeated *10 + d on an arbitrary-precision bit list *)
  let bits = ref [] in (* little endian bool list *)
  let mul10_add d =
    (* bits := bits*10 + d *)
    let rec to_int_list = function [] -> [] | b :: r -> (if b then 1 else 0) :: to_int_list r in
    let l = to_int_list !bits in
    let rec go l carry = match l with
      | [] -> if carry = 0 then [] else (carry land 1) :: go [] (carry lsr 1)
      | x :: r -> let v = x * 10 + carry in (v land 1) :: go r (v lsr 1) in
    let r = go l d in
    bits := Stdlib.List.map (fun x -> x = 1) r in
  Stdlib.String.iter (fun c -> mul10_add (Stdlib.Char.code c - 48)) digits;
  let rec strip l = match l with [] -> [] | false :: r -> (match strip r with [] -> [] | r' -> false :: r') | true :: r -> true :: strip r in
  let l = strip !bits in
  let rec pos_of_bits l = match l with
    | [] -> XH | [true] -> XH
    | true :: r -> XI (pos_of_bits r)
    | false :: r -> XO (pos_of_bits r) in
  match l with [] -> Z0 | _ -> if neg then Zneg (pos_of_bits l) else Zpos (pos_of_bits l)

let string_of_z (x : z) : Stdlib.String.t =
  (* convert via repeated division by 10 on bit list: simple, sizes are small *)
  let rec bits_of_pos p = match p with XH -> [true] | XO q -> false :: bits_of_pos q | XI q -> true :: bits_of_pos q in
  let to_dec bits =
    (* bits little endian; produce decimal digits by double-and-add from the top *)
    let digits = ref [0] in (* little endian decimal *)
    let double_add b =
      let rec go l carry = match l with
        | [] -> if carry = 0 then [] else [carry]
        | d :: r -> let v = d * 2 + carry in (v mod 10) :: go r (v / 10) in
      digits := go !digits (if b then 1 else 0) in
    Stdlib.List.iter double_add (Stdlib.List.rev bits);
    Stdlib.String.concat "" (Stdlib.List.rev_map string_of_int !digits) in
  match x with
  | Z0 -> "0"
  | Zpos p -> to_dec (bits_of_pos p)
  | Zneg p -> "-" ^ to_dec (bits_of_pos p)

let hexval c =
  match c with
  | '0'..'9' -> Stdlib.Char.code c - 48
  | 'a'..'f' -> Stdlib.Char.code c - 87
  | 'A'..'F' -> Stdlib.Char.code c - 55
  | _ -> failwith "bad hex"

(* "-" is the empty string *)
let bytes_of_hex (s : Stdlib.String.t) : n list =
  if s = "-" then [] else begin
    let len = Stdlib.String.length s / 2 in
    let rec go i acc = if i < 0 then acc else
      go (i - 1) (n_of_int (hexval s.[2*i] * 16 + hexval s.[2*i+1]) :: acc) in
    go (len - 1) []
  end

let hex_of_bytes (b : n list) : Stdlib.String.t =
  match b with
  | [] -> "-"
  | _ -> Stdlib.String.concat "" (Stdlib.List.map (fun x -> Printf.sprintf "%02x" (int_of_n x)) b)

let bool_str b = if b then "1" else "0"
