(* request handlers of the float32 rounding model driver (C02): IEEE bit patterns as decimal integers;
   a NaN result is printed as -1 *)
open Model
open Conv

let handle (toks : string list) : string =
  match toks with
  | ["down"; b] -> string_of_z (down_bits (z_of_string b))
  | ["up"; b] -> string_of_z (up_bits (z_of_string b))
  | "both" :: bs ->
      String.concat " " (List.map (fun b -> let z = z_of_string b in
        string_of_z (down_bits z) ^ ":" ^ string_of_z (up_bits z)) bs)
  | _ -> "?unknown"
