(* Extraction of the float32 rounding model (C02). ExtrOcamlBasic only. *)
From Coq Require Import Extraction ExtrOcamlBasic.
From Coq Require Import ZArith.
From T38 Require Import Model.Float32.
Extraction Language OCaml.
Extraction "model.ml" Z.add Z.of_N Nat.add down_bits up_bits.
