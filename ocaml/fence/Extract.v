(* Extraction of the static-fence and hook-registry models (C05). ExtrOcamlBasic only. *)
From Coq Require Import Extraction ExtrOcamlBasic.
From T38 Require Import Base.Bytes Model.Glob Model.Fence Model.HookReg Model.Queues Model.FenceQueue.
Extraction Language OCaml.
Extraction "model.ml" Z.add Z.of_N Nat.add glob_match fence_match doc_msgs weight
  reg_empty reg_step candidates hooks hooksOut hookTree hookCross hookExpires
  hq_init qstep qrun pending taken_list send_all hist webhook_accepted webhook_owed webhook_stream channel_stream live_stream msg_decode.
