(* request handlers of the fence model driver (C05)
   fm <acc> <D:6 bits nil,in,out,enter,exit,cross> <cmd> <obj> <old> <glob> <spatial> <nofields> <cross> <written>
      obj/old: "-" (nil) or two bits sp,flt            -> "ok k1,k2" | "fuel"
   doc <D> <cmd> <old> <new> <cross>                   -> "k1,k2"
   reg_reset | reg_set <name> <chan> <key> <D> <area|-> <expires> <equal_prev>
   reg_del <name> <chan> | reg_pdel <pattern> <chan> | reg_flush
   cands <key> <old|-> <new|->                          -> sorted candidate names
   reg_dump                                             -> hooks|out|tree|cross|expires (sorted names)
   rectangles: minx,miny,maxx,maxy as decimal integers *)
open Model
open Conv

let bit s i = s.[i] = '1'
let dset_of s = { d_nil = bit s 0; d_inside = bit s 1; d_outside = bit s 2; d_enter = bit s 3; d_exit = bit s 4; d_cross = bit s 5 }
let cmd_of = function "set" -> CSet | "fset" -> CFset | "del" -> CDel | "drop" -> CDrop | _ -> COther
let otest_of s = if s = "-" then None else Some { o_sp = bit s 0; o_flt = bit s 1 }
let kind_str = function DInside -> "inside" | DOutside -> "outside" | DEnter -> "enter" | DExit -> "exit" | DCross -> "cross"
let msg_str = function FM k -> kind_str k | FDel -> "del" | FDrop -> "drop"
let rect_of s =
  if s = "-" then None else
  match String.split_on_char ',' s with
  | [a; b; c; d] -> Some { minx = z_of_string a; miny = z_of_string b; maxx = z_of_string c; maxy = z_of_string d }
  | _ -> failwith "bad rect"

let reg = ref reg_empty
let names l = String.concat "," (List.sort compare (List.map (fun h -> hex_of_bytes h.h_name) l))

let handle (toks : string list) : string =
  match toks with
  | ["fm"; acc; d; c; obj; old; g; sp; nf; cr; wr] ->
      let x = { c_cmd = cmd_of c; c_obj = otest_of obj; c_old = otest_of old; c_glob = (g = "1");
                c_spatial = (sp = "1"); c_nofields = (nf = "1"); c_cross = (cr = "1"); c_written = (wr = "1") } in
      (match fence_match (acc = "1") (dset_of d) x with
       | FOk l -> "ok " ^ String.concat "," (List.map msg_str l)
       | FFuel -> "fuel")
  | ["doc"; d; c; old; nw; cr] ->
      (match otest_of nw with
       | None -> "?new"
       | Some n -> "ok " ^ String.concat "," (List.map kind_str (doc_msgs (dset_of d) (cmd_of c) (otest_of old) n (cr = "1"))))
  | ["reg_reset"] -> reg := reg_empty; "ok"
  | ["reg_set"; name; chan; key; d; area; ex; eq] ->
      let h = { h_name = bytes_of_hex name; h_chan = (chan = "1"); h_key = bytes_of_hex key; h_detect = dset_of d;
                h_area = rect_of area; h_expires = (ex = "1") } in
      reg := reg_step !reg (RSet (h, eq = "1")); "ok"
  | ["reg_del"; name; chan] -> reg := reg_step !reg (RDel (bytes_of_hex name, chan = "1")); "ok"
  | ["reg_pdel"; pat; chan] ->
      let p = bytes_of_hex pat in
      reg := reg_step !reg (RPDel ((fun n -> match glob_match p n with WTrue -> true | _ -> false), chan = "1")); "ok"
  | ["reg_flush"] -> reg := reg_step !reg RFlush; "ok"
  | ["cands"; key; old; nw] ->
      let l = candidates !reg (bytes_of_hex key) (rect_of old) (rect_of nw) in
      "ok " ^ String.concat "," (List.sort_uniq compare (List.map (fun h -> hex_of_bytes h.h_name) l))
  | ["reg_dump"] ->
      Printf.sprintf "ok %s|%s|%s|%s|%s" (names !reg.hooks) (names !reg.hooksOut) (names !reg.hookTree)
        (names !reg.hookCross) (names !reg.hookExpires)
  | _ -> "?unknown"
