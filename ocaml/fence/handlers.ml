(* request handlers of the fence model driver (C05)
   fm <acc> <D:6 bits nil,in,out,enter,exit,cross> <cmd> <obj> <old> <glob> <spatial> <nofields> <cross> <written>
      obj/old: "-" (nil) or two bits sp,flt            -> "ok k1,k2" | "fuel"
   doc <D> <cmd> <old> <new> <cross>                   -> "k1,k2"
   reg_reset | reg_set <name> <chan> <key> <D> <area|-> <expires> <equal_prev>
   reg_del <name> <chan> | reg_pdel <pattern> <chan> | reg_flush
   cands <key> <old|-> <new|->                          -> sorted candidate names
   reg_dump                                             -> hooks|out|tree|cross|expires (sorted names)
   sinksim <hook> <chan> <key> <D> <outcomes> <writes>  the webhook path end to end (Model/FenceQueue.v) for a webhook,
      a channel and a live connection with one fence definition, against the registry built with reg_set:
      writes   = ';' separated, one write = wkey/old|-/new|-/acc/cmd/obj/old/glob/spatial/nofields/cross/written
                 (rectangles for getQueueCandidates, then the arguments of fm)
      outcomes = string of 0/1: results of the successive sends of the webhook's manager ("-" = none; afterwards healthy)
      All writes are enqueued through queue_hooks (candidates of the registry, every candidate evaluated on the given
      case), then the manager runs proc rounds (take, send) until the outcomes are used up and nothing is owed.
      reply: accepted=<k,..> attempts=<k,..> queued=<k,..> channel=<k,..> live=<k,..>
   rectangles: minx,miny,maxx,maxy as decimal integers *)
open Model
open Conv

let bit s i = s.[i] = '1'
let dset_of s = { d_nil = bit s 0; d_inside = bit s 1; d_outside = bit s 2; d_enter = bit s 3; d_exit = bit s 4; d_cross = bit s 5 }
let cmd_of = function "set" -> CSet | "fset" -> CFset | "del" -> CDel | "drop" -> CDrop | _ -> COther
let otest_of s = if s = "-" then None else Some { o_sp = bit s 0; o_flt = bit s 1 }
let kind_str = function DInside -> "inside" | DOutside -> "outside" | DEnter -> "enter" | DExit -> "exit" | DCross -> "cross"
let msg_str = function FM k -> kind_str k | FDel -> "del" | FDrop -> "drop"
let rect_of s =
  if s = "-" then None else
  match String.split_on_char ',' s with
  | [a; b; c; d] -> Some { minx = z_of_string a; miny = z_of_string b; maxx = z_of_string c; maxy = z_of_string d }
  | _ -> failwith "bad rect"

let reg = ref reg_empty
let names l = String.concat "," (List.sort compare (List.map (fun h -> hex_of_bytes h.h_name) l))

let case_of c obj old g sp nf cr wr =
  { c_cmd = cmd_of c; c_obj = otest_of obj; c_old = otest_of old; c_glob = (g = "1");
    c_spatial = (sp = "1"); c_nofields = (nf = "1"); c_cross = (cr = "1"); c_written = (wr = "1") }

let mlist l = match l with [] -> "-" | _ -> String.concat "," (List.map msg_str l)

(* queue identities: one number per distinct hook name (injective) *)
let ids : (string, int) Hashtbl.t = Hashtbl.create 64
let nm (b : n list) : n =
  let k = hex_of_bytes b in
  match Hashtbl.find_opt ids k with
  | Some i -> n_of_int i
  | None -> let i = Hashtbl.length ids + 1 in Hashtbl.add ids k i; n_of_int i

let sinksim hook chan key d outs writes =
  let hookn = bytes_of_hex hook and chann = bytes_of_hex chan and k = bytes_of_hex key in
  let hx = match List.find_opt (fun h -> h.h_name = hookn) !reg.hooks with
    | Some h -> h | None -> failwith "sinksim: unknown hook" in
  let uniq l = List.sort_uniq (fun a b -> compare (hex_of_bytes a.h_name) (hex_of_bytes b.h_name)) l in
  let one w =
    match String.split_on_char '/' w with
    | [wk; old_r; new_r; acc; c; obj; old; g; sp; nf; cr; wr] ->
        let x = case_of c obj old g sp nf cr wr in
        let wk = bytes_of_hex wk in
        SWrite { w_now = z_of_int 0; w_key = wk; w_cl = uniq (candidates !reg wk (rect_of old_r) (rect_of new_r));
                 w_cf = (fun _ -> x); w_af = (fun _ -> acc = "1") }
    | _ -> failwith "sinksim: bad write" in
  let evs = List.map one (if writes = "-" then [] else String.split_on_char ';' writes) in
  let h = nm hookn in
  let q = ref (qrun hq_init (hist nm evs)) in
  let outs = ref (if outs = "-" then [] else List.init (String.length outs) (fun i -> outs.[i] = '1')) in
  let attempts = ref [] in
  let rounds = ref 0 in
  let continue = ref true in
  while !continue && !rounds < 10000 do
    incr rounds;
    q := qstep !q (Mgr (h, z_of_int 1, []));            (* first transaction of proc *)
    let tk = taken_list !q h in
    let (sent, unsent) = send_all !outs tk in
    let tried = sent @ (match unsent with [] -> [] | e :: _ -> [e]) in
    attempts := !attempts @ List.map (fun e -> msg_decode e.e_msg) tried;
    q := qstep !q (Mgr (h, z_of_int 1, !outs));          (* the sends + second transaction *)
    let used = List.length tried in
    outs := (let rec drop n l = if n <= 0 then l else match l with [] -> [] | _ :: r -> drop (n - 1) r in drop used !outs);
    if tried = [] || (!outs = [] && pending !q h = []) then continue := false
  done;
  Printf.sprintf "accepted=%s attempts=%s queued=%s channel=%s live=%s"
    (mlist (List.map (fun e -> msg_decode e.e_msg) (!q.q_delivered h))) (mlist !attempts)
    (mlist (webhook_stream evs hookn)) (mlist (channel_stream evs chann)) (mlist (live_stream k (dset_of d) hx evs))

let handle (toks : string list) : string =
  match toks with
  | ["fm"; acc; d; c; obj; old; g; sp; nf; cr; wr] ->
      let x = { c_cmd = cmd_of c; c_obj = otest_of obj; c_old = otest_of old; c_glob = (g = "1");
                c_spatial = (sp = "1"); c_nofields = (nf = "1"); c_cross = (cr = "1"); c_written = (wr = "1") } in
      (match fence_match (acc = "1") (dset_of d) x with
       | FOk l -> "ok " ^ String.concat "," (List.map msg_str l)
       | FFuel -> "fuel")
  | ["doc"; d; c; old; nw; cr] ->
      (match otest_of nw with
       | None -> "?new"
       | Some n -> "ok " ^ String.concat "," (List.map kind_str (doc_msgs (dset_of d) (cmd_of c) (otest_of old) n (cr = "1"))))
  | ["reg_reset"] -> reg := reg_empty; "ok"
  | ["reg_set"; name; chan; key; d; area; ex; eq] ->
      let h = { h_name = bytes_of_hex name; h_chan = (chan = "1"); h_key = bytes_of_hex key; h_detect = dset_of d;
                h_area = rect_of area; h_expires = (ex = "1") } in
      reg := reg_step !reg (RSet (h, eq = "1")); "ok"
  | ["reg_del"; name; chan] -> reg := reg_step !reg (RDel (bytes_of_hex name, chan = "1")); "ok"
  | ["reg_pdel"; pat; chan] ->
      let p = bytes_of_hex pat in
      reg := reg_step !reg (RPDel ((fun n -> match glob_match p n with WTrue -> true | _ -> false), chan = "1")); "ok"
  | ["reg_flush"] -> reg := reg_step !reg RFlush; "ok"
  | ["cands"; key; old; nw] ->
      let l = candidates !reg (bytes_of_hex key) (rect_of old) (rect_of nw) in
      "ok " ^ String.concat "," (List.sort_uniq compare (List.map (fun h -> hex_of_bytes h.h_name) l))
  | ["sinksim"; hook; chan; key; d; outs; writes] -> sinksim hook chan key d outs writes
  | ["reg_dump"] ->
      Printf.sprintf "ok %s|%s|%s|%s|%s" (names !reg.hooks) (names !reg.hooksOut) (names !reg.hookTree)
        (names !reg.hookCross) (names !reg.hookExpires)
  | _ -> "?unknown"
