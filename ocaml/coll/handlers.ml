(* request handlers of the collection model driver (C19): the driver holds one collection *)
open Model
open Conv

let st : coll ref = ref cnew

let ids (l : obj list) : string =
  match l with [] -> "-" | _ -> String.concat "," (List.map (fun o -> hex_of_bytes o.o_id) l)

let sp_entry ((r, o) : rect32 * obj) : string =
  Printf.sprintf "%s:%s:%s:%s:%s" (hex_of_bytes o.o_id)
    (string_of_z (bits_of_f32 r.r32_minx)) (string_of_z (bits_of_f32 r.r32_miny))
    (string_of_z (bits_of_f32 r.r32_maxx)) (string_of_z (bits_of_f32 r.r32_maxy))

let summary () : string =
  let c = !st in
  let sp = List.sort compare (List.map sp_entry (c_spatial c)) in
  Printf.sprintf "C=%s S=%s P=%s W=%s ids=%s vals=%s ex=%s sp=%s"
    (string_of_z (ccount c)) (string_of_z (cstring_count c)) (string_of_z (cpoint_count c))
    (string_of_z (ctotal_weight c)) (ids (scan_ids c)) (ids (search_values c)) (ids (scan_expires c))
    (match sp with [] -> "-" | _ -> String.concat "," sp)

let handle (toks : string list) : string =
  match toks with
  | ["new"] -> st := cnew; "ok"
  | ["set"; id; spatial; empty; np; w; str; ex; a; b; c; d] ->
      let o = { o_id = bytes_of_hex id; o_spatial = (spatial = "1"); o_empty = (empty = "1");
                o_npoints = z_of_string np; o_weight = z_of_string w; o_str = bytes_of_hex str;
                o_ex = z_of_string ex;
                o_rect = rect64_of_bits (z_of_string a) (z_of_string b) (z_of_string c) (z_of_string d) } in
      st := cset !st o; summary ()
  | ["del"; id] -> st := cdelete !st (bytes_of_hex id); summary ()
  | ["get"; id] ->
      (match cget !st (bytes_of_hex id) with
       | None -> "nil"
       | Some o -> Printf.sprintf "%s %s %s" (hex_of_bytes o.o_id) (hex_of_bytes o.o_str) (string_of_z o.o_ex))
  | ["summary"] -> summary ()
  | ["bounds_ok"; a; b; c; d] ->
      bool_str (bounds_ok !st (rect64_of_bits (z_of_string a) (z_of_string b) (z_of_string c) (z_of_string d)))
  | ["bounds_exact"; a; b; c; d] ->
      bool_str (bounds_exact !st (rect64_of_bits (z_of_string a) (z_of_string b) (z_of_string c) (z_of_string d)))
  | ["geo_search"; a; b; c; d] ->
      (* Model/Search.geo_search on the current spatial index: candidate ids, sorted *)
      let l = geo_search (c_spatial !st) (rect64_of_bits (z_of_string a) (z_of_string b) (z_of_string c) (z_of_string d)) in
      (match List.sort compare (List.map (fun o -> hex_of_bytes o.o_id) l) with
       | [] -> "-" | s -> String.concat "," s)
  | "scan_sel" :: d :: limit :: idslimit :: gs ->
      (* Model/CollSel on the current collection: SCAN MATCH gs.. [DESC] LIMIT idslimit IDS and
         ... LIMIT limit COUNT  -> <COUNT reply> <n> {id}   (ids in reply order) *)
      let globs = List.map bytes_of_hex gs and lim = n_of_int (int_of_string limit)
      and ilim = n_of_int (int_of_string idslimit) in
      let l = coll_scan_ids globs (d = "1") !st ilim in
      String.concat " " (string_of_int (int_of_n (coll_scan_count globs (d = "1") !st lim)) ::
        string_of_int (List.length l) :: List.map hex_of_bytes l)
  | "search_sel" :: d :: limit :: idslimit :: gs ->
      let globs = List.map bytes_of_hex gs and lim = n_of_int (int_of_string limit)
      and ilim = n_of_int (int_of_string idslimit) in
      let l = coll_search_ids globs (d = "1") !st ilim in
      String.concat " " (string_of_int (int_of_n (coll_search_count globs (d = "1") !st lim)) ::
        string_of_int (List.length l) :: List.map hex_of_bytes l)
  | ["count_at"; cursor; limit] ->
      (* the unfiltered COUNT shortcut with CURSOR and LIMIT: <SCAN COUNT> <SEARCH COUNT> *)
      let cur = n_of_int (int_of_string cursor) and lim = n_of_int (int_of_string limit) in
      Printf.sprintf "%d %d" (int_of_n (coll_scan_count_at !st cur lim)) (int_of_n (coll_search_count_at !st cur lim))
  | ["set_bounds"; a; b; c; d] ->
      (* Model/SetBounds.set_bounds_rect on the four parsed numbers of SET ... BOUNDS (IEEE bits):
         -> bits of minx miny maxx maxy, ordered? *)
      let f x = f64_of_bits (z_of_string x) in
      let r = set_bounds_rect (f a) (f b) (f c) (f d) in
      Printf.sprintf "%s %s %s %s %s" (string_of_z (bits_of_f64 r.r64_minx)) (string_of_z (bits_of_f64 r.r64_miny))
        (string_of_z (bits_of_f64 r.r64_maxx)) (string_of_z (bits_of_f64 r.r64_maxy)) (bool_str (rect_ordered r))
  | _ -> "?unknown"
