(* Extraction of the collection model (C19). ExtrOcamlBasic only. *)
From Coq Require Import Extraction ExtrOcamlBasic.
From T38 Require Import Base.Bytes Model.Float32 Model.Collection Model.Search Model.Glob Model.GlobSel Model.CollSel Model.SetBounds.
Extraction Language OCaml.
Extraction "model.ml" Z.add Z.of_N Nat.add cnew cset cdelete cget ccount cstring_count cpoint_count
  ctotal_weight scan_ids search_values spatial_list scan_expires c_spatial bounds_ok bounds_exact
  rect64_of_bits f64_of_bits bits_of_f32 bits_of_f64 geo_search intersects32 rtree_rect
  coll_scan_ids coll_search_ids coll_scan_count coll_search_count scan_hit search_hit
  coll_scan_count_at coll_search_count_at set_bounds_rect set_bounds_rect_pinned rect_ordered.
