(* Extraction of the follower resync model (check_some and its helpers). ExtrOcamlBasic only. *)
From Coq Require Import Extraction ExtrOcamlBasic ZArith NArith List.
From T38 Require Import Base.Bytes Model.Follow Model.FollowGen Model.FollowTol.
Extraction Language OCaml.
Extraction "model.ml" Z.add Z.of_N Nat.add check_some flen blen bytes_eqb run toy_app grun gstep phase_of proved_cfg pinned_cfg proved_ops proved_tolerated mem_name state_only_name.
