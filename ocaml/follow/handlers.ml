(* request handlers of the follower resync model driver.
   check_some <pinned|fixed1|repaired> <csz> <F> <L> : F, L = comma separated records ("-" = empty file); a record is a '+'-joined list of
   segments  h<hex> (literal bytes)  z<n> (n bytes 0)  o<n> (n bytes 1).
   MD5 is instantiated by the identity (digest = the block itself), which is injective as the model assumes.
   reply: pos=<p> action=<small|startover|intact|truncate:<p>:<keep>|error|fuel> probes=<pos:size:match|...> *)
open Model

let rec rep x n acc = if n <= 0 then acc else rep x (n - 1) (x :: acc)

let seg_bytes (s : Stdlib.String.t) (tail : n list) : n list =
  let body = Stdlib.String.sub s 1 (Stdlib.String.length s - 1) in
  match s.[0] with
  | 'h' -> Stdlib.List.rev_append (Stdlib.List.rev (Conv.bytes_of_hex body)) tail
  | 'z' -> rep N0 (int_of_string body) tail
  | 'o' -> rep (Npos XH) (int_of_string body) tail
  | _ -> failwith "bad segment"

let record_of (s : Stdlib.String.t) : n list =
  let segs = Stdlib.String.split_on_char '+' s in
  Stdlib.List.fold_left (fun tail seg -> seg_bytes seg tail) [] (Stdlib.List.rev segs)

let file_of (s : Stdlib.String.t) : n list list =
  if s = "-" then [] else Stdlib.List.map record_of (Stdlib.String.split_on_char ',' s)

(* an OCaml string as a Coq string (ExtrOcamlBasic keeps Coq's string/ascii datatypes) *)
let coq_string_of (s : Stdlib.String.t) : string =
  let bit c i = (Char.code c lsr i) land 1 = 1 in
  let rec go i acc = if i < 0 then acc else
    let c = s.[i] in
    go (i - 1) (String (Ascii (bit c 0, bit c 1, bit c 2, bit c 3, bit c 4, bit c 5, bit c 6, bit c 7), acc)) in
  go (Stdlib.String.length s - 1) EmptyString

let handle (toks : Stdlib.String.t list) : Stdlib.String.t =
  match toks with
  | ["check_some"; md; csz; f; l] ->
      let f = file_of f and l = file_of l in
      let (res, probes) = check_some (fun b -> b) bytes_eqb (Conv.z_of_int (int_of_string csz)) (match md with "pinned" -> Pinned | "fixed1" -> Fixed1 | _ -> Repaired) f (flen f) l in
      let ps = Stdlib.String.concat "|" (Stdlib.List.map (fun ((p, sz), m) ->
        Printf.sprintf "%d:%d:%s" (Conv.int_of_z p) (Conv.int_of_z sz) (if m then "match" else "mismatch")) probes) in
      let (pos, act) = (match res with
        | CSStartOverSmall -> (0, "small")
        | CSStartOver -> (0, "startover")
        | CSIntact p -> (Conv.int_of_z p, "intact")
        | CSTruncate (p, keep) -> (Conv.int_of_z p, Printf.sprintf "truncate:%d:%d" (Conv.int_of_z p) (Conv.int_of_nat keep))
        | CSError -> (-1, "error")
        | CSFuel -> (-1, "fuel")) in
      Printf.sprintf "pos=%d action=%s probes=%s" pos act ps
  (* handshake_flag <prev caught_up 0|1> <n leader appends> : the caught-up flag of the model after
     [EDrop; EAppend x n; EBegin; EAppend x n] from a follower whose flag was <prev> (toy semantics, real csz) *)
  | ["handshake_flag"; prev; n] ->
      let p = (prev = "1") in
      let f = { f_file = []; f_mem = []; f_aofsz = Z0; f_cup = p; f_once = p; f_ses = None; f_broken = false } in
      let r = [Npos XH; Npos XH; Npos XH; Npos XH] in
      let rec apps k acc = if k <= 0 then acc else apps (k - 1) (EAppend r :: acc) in
      let k = int_of_string n in
      let es = EDrop :: apps k (EBegin :: apps k []) in
      let (_, f') = run (fun b -> b) bytes_eqb (Conv.z_of_int 524288) [] toy_app Repaired ([], f) es in
      Conv.bool_str f'.f_cup
  (* session_after <shrink|follow|drop|restart|pause|append|own> <bulk|tailing> : does the model's follower still
     have its replication session after that event?  bulk = the event happens before anything of the stream has been
     handled (initial bulk copy), tailing = after everything has been handled *)
  | ["session_after"; ev; phase] ->
      let r k = [Npos XH; Npos (Conv.pos_of_int k); Npos XH; Npos XH] in
      let l = [r 7; r 8; r 9] in
      let f = { f_file = []; f_mem = []; f_aofsz = Z0; f_cup = false; f_once = false; f_ses = None; f_broken = false } in
      let pre = EConnect :: (if phase = "tailing" then [EDeliver; EDeliver; EDeliver] else [EDeliver]) in
      let e = (match ev with
        | "shrink" -> EShrink [r 9] | "follow" -> EFollow [r 5] | "drop" -> EDrop | "restart" -> ERestart
        | "pause" -> EPause | "append" -> EAppend (r 4) | _ -> EOwn [Npos (XO XH); Npos (Conv.pos_of_int 7); Npos XH]) in
      let (_, f') = run (fun b -> b) bytes_eqb (Conv.z_of_int 524288) [] toy_app Repaired (l, f) (pre @ [e]) in
      (match f'.f_ses with None -> "none" | Some _ -> "some")
  (* stale_attempt <proved|norecheck> <follower appendonly 0|1> : Model/FollowGen.v on the schedule "F follows A and catches up;
     the connection drops, the reconnect attempt of generation 1 is held inside its handshake; FOLLOW B, generation 2 catches
     up with B; A's SERVER reply is let through and generation 1 goes on": does generation 1 get as far as sending AOF <pos>
     to A (aof=1) or does it end in followCheckSome (aof=0), and is the follower's log / dataset / aofsz still B's copy?
     proved = the configuration of the theorems (c06g_guards_from_source), norecheck = without the test in followCheckSome *)
  | ["stale_attempt"; which; aof] ->
      let cfg = (match which with
        | "norecheck" -> { c_top = true; c_check = false; c_cmd = true; c_aofg = true; c_flagg = true }
        | _ -> proved_cfg) in
      let aofb = (aof = "1") in
      let r k = [Npos XH; Npos (Conv.pos_of_int k); Npos XH; Npos XH] in
      let la = [r 7; r 8] and lb = [r 5; r 6] in
      let run w es = grun (fun b -> b) bytes_eqb (Conv.z_of_int 524288) [] toy_app cfg aofb proved_ops w es in
      let w0 = { w_data = { d_file = []; d_mem = []; d_aofsz = Z0 }; w_cup = false; w_cur = O; w_atts = [] } in
      let i0 = O and i1 = S O in
      let pre = [GFollow; GTopCheck i0; GClear i0; GServer (i0, la); GCheck (i0, la); GAof (i0, la); GDeliver i0; GDeliver i0; GFlag i0;
                 GFail i0; GTopCheck i0; GClear i0;
                 GFollow; GTopCheck i1; GClear i1; GServer (i1, lb); GCheck (i1, lb); GAof (i1, lb); GDeliver i1; GDeliver i1; GFlag i1] in
      let w1 = run w0 pre in
      let w2 = run w1 [GServer (i0, la); GCheck (i0, la)] in
      let sent = (match phase_of w2 i0 with Some (PChecked (_, _)) -> true | _ -> false) in
      Printf.sprintf "aof=%d data=%s caught_up=%s" (if sent then 1 else 0) (if w2.w_data = w1.w_data then "kept" else "changed")
        (Conv.bool_str w2.w_cup)
  (* stale_flag <proved|pinned> : the schedule "leader A has an empty log; generation 1 passes followCheckSome and its AOF 0 is
     held; FOLLOW B, generation 2 has handled one of B's two records; A's AOF reply is let through": the server-wide flag
     before and after that reply *)
  | ["stale_flag"; which] ->
      let cfg = (match which with "pinned" -> pinned_cfg | _ -> proved_cfg) in
      let r k = [Npos XH; Npos (Conv.pos_of_int k); Npos XH; Npos XH] in
      let lb = [r 5; r 6] in
      let run w es = grun (fun b -> b) bytes_eqb (Conv.z_of_int 524288) [] toy_app cfg true proved_ops w es in
      let w0 = { w_data = { d_file = []; d_mem = []; d_aofsz = Z0 }; w_cup = false; w_cur = O; w_atts = [] } in
      let i0 = O and i1 = S O in
      let w1 = run w0 [GFollow; GTopCheck i0; GClear i0; GServer (i0, []); GCheck (i0, []);
                       GFollow; GTopCheck i1; GClear i1; GServer (i1, lb); GCheck (i1, lb); GAof (i1, lb); GDeliver i1] in
      let w2 = run w1 [GAof (i0, [])] in
      Printf.sprintf "before=%s after=%s" (Conv.bool_str w1.w_cup) (Conv.bool_str w2.w_cup)
  (* stream_error <sentinel> : what followHandleCommand does with a streamed command that returns that error, by the tolerated
     set the theorems are stated for (Model/FollowTol.v proved_tolerated; c06t_tolerated_from_source): skip = the record is
     skipped and the stream goes on, fatal = the attempt fails (retry, not caught up); state_only = the model's classification *)
  | ["stream_error"; name] ->
      let n = coq_string_of name in
      Printf.sprintf "%s state_only=%s" (if mem_name n proved_tolerated then "skip" else "fatal") (Conv.bool_str (state_only_name n))
  | _ -> "?unknown"
