(* Extraction of the connection model across the hand-over to live mode (C16). ExtrOcamlBasic only. *)
From Coq Require Import Extraction ExtrOcamlBasic.
From T38 Require Import Base.Bytes Model.Resp Model.Pipeline Model.PipelineLive Model.MvtArgs.
Extraction Language OCaml.
Extraction "model.ml" Z.add Z.of_N Nat.add read_cmd_fixed http_parse live_run live_spec acted_all ho_pinned ho_repaired
  mvt_filter mvt_entry mvt_reject_exact4 mvt_reject_below4.
