(* request handlers of the pipelive model driver (Model/PipelineLive.v)
     live <kpe> <chunk hex>...   run the connection model over the chunks; <kpe> = three 0/1 flags
                                 (keep the carry-over buffer, pass the rest of the hand-over read on,
                                 a live loop handles the messages of a read before its error)
     spec <stream hex>           the specification on the whole stream
   reply: O|X <live 0/1> <#normal> <#live> <#dropped at hand-over> <pending err 0/1> <#dropped by a live error> <buf len | err>
          followed by the handled messages "n:<args>" / "l:<args>" and the unhandled ones "d:<args>" / "e:<args>" *)
open Model
open Conv

let perr_str = function
  | EMultiBulk -> "multibulk"
  | EBulk -> "bulk"
  | EExpected c -> Printf.sprintf "expected:%d" (int_of_n c)
  | EMessage -> "message"
  | EQuotes -> "quotes"

let cerr_str = function
  | EParse e -> perr_str e
  | EPanicRecovered -> "recovered"
  | EHttp c -> Printf.sprintf "http:%d" (int_of_n c)

let str_of_bytes (b : n list) : string =
  Stdlib.String.init (Stdlib.List.length b) (fun i -> Char.chr ((int_of_n (Stdlib.List.nth b i)) land 255))

(* which messages go live: SUBSCRIBE / PSUBSCRIBE, and a NEARBY / WITHIN / INTERSECTS search with FENCE
   (the theorems hold for every classifier; this is the one the harness's streams need) *)
let golive (m : msg) : bool =
  match Stdlib.List.map (fun a -> Stdlib.String.lowercase_ascii (str_of_bytes a)) m.m_args with
  | ("subscribe" | "psubscribe") :: _ -> true
  | ("nearby" | "within" | "intersects") :: rest -> Stdlib.List.mem "fence" rest
  | _ -> false

let args_str (args : n list list) : string =
  match args with
  | [] -> "_"
  | _ -> Stdlib.String.concat "," (Stdlib.List.map hex_of_bytes args)

let tagged tag ms = Stdlib.List.map (fun m -> tag ^ ":" ^ args_str m.m_args) ms

let res_str (r : live_res) : string =
  let line hd lv n l d pe de last =
    Stdlib.String.concat " "
      ([hd; bool_str lv; string_of_int (Stdlib.List.length n); string_of_int (Stdlib.List.length l);
        string_of_int (Stdlib.List.length d); (match pe with Some _ -> "1" | None -> "0");
        string_of_int (Stdlib.List.length de); last]
       @ tagged "n" n @ tagged "d" d @ tagged "l" l @ tagged "e" de) in
  match r with
  | LOpen (lv, n, l, d, pe, de, b) -> line "O" lv n l d pe de (string_of_int (Stdlib.List.length b))
  | LClosed (lv, n, l, d, pe, de, e) -> line "X" lv n l d pe de (cerr_str e)
  | LCrashed -> "P"
  | LNoFuel -> "U"

let flags (s : string) : handover =
  { ho_keep_buf = (s.[0] = '1'); ho_pass_rest = (s.[1] = '1'); ho_live_err_keeps = (s.[2] = '1') }

let handle (toks : string list) : string =
  match toks with
  | "live" :: kpe :: chunks when Stdlib.String.length kpe = 3 ->
      res_str (live_run (flags kpe) (read_cmd_fixed http_parse) golive (Stdlib.List.map bytes_of_hex chunks))
  | [("mvtf" | "mvte") as w; g; path] ->
      (* mvtf: mvtFilterHTTPArgs on a path; mvte: the call site of handleInputCommand on msg.Args[0];
         g = e (len(parts) != 4, the source) | b (len(parts) < 4) *)
      let reject = if g = "b" then mvt_reject_below4 else mvt_reject_exact4 in
      let p = bytes_of_hex (if path = "_" then "" else path) in
      (match (if w = "mvtf" then mvt_filter reject p else mvt_entry reject p) with
       | MPanic -> "P"
       | MNo -> "N"
       | MYes (k, z, x, y) -> Printf.sprintf "Y %s" (args_str [k; z; x; y]))
  | ["spec"; stream] -> res_str (live_spec (read_cmd_fixed http_parse) golive (bytes_of_hex stream))
  | _ -> "?unknown"
