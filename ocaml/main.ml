(* Line-protocol main loop shared by all model drivers: one request per line, one reply per line. *)
let () =
  try
    while true do
      let line = input_line stdin in
      let toks = Stdlib.List.filter (fun s -> s <> "") (Stdlib.String.split_on_char ' ' line) in
      let out = try Handlers.handle toks with e -> "!exn " ^ Printexc.to_string e in
      print_string out; print_char '\n'; flush stdout
    done
  with End_of_file -> ()
