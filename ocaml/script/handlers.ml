(* request handlers of the script / concurrency model driver (Model/Script.v + Model/ScriptKs.v).

   new                                   forget everything
   req <tid> <nwords> <hexword>... [stmt...]   append a request to connection tid; for a script command the
                                         statements describe what its Lua text does:
        C <prot 0|1> <nargs> <arg>...    tile38.call / tile38.pcall; arg = h<hex> literal, n<i> = tostring(tonumber(result i)+1),
                                         r<i> = result i (a string) itself
        I <i> <hex of canonical text> <k>  if result i prints as that text, run the next k statements, else skip them
        F <hex>                          the Lua code itself raises an error
                                         the script returns the array of the canonical texts of all results
   init                                  the initial global state (empty dataset) -> state id
   step <sid> <tid>                      one micro-step of connection tid  -> <sid'> <ok|blocked|done> <event>...
   unit <sid> <tid>                      micro-steps of tid until it holds no server lock again (at least one)
   sched <sid> <t,t,t...>                an explicit schedule
   state <sid> / aof <sid> / hist <sid> / locks <sid>
   replay <w,w,w>|<w,w,w>|...            start-up on that log from the empty dataset -> dataset
   pool <n> <op>...                      the interpreter pool (Model/LuaPool.v over Gen/LuaPool.v) from n idle interpreters:
        g.<u>.<e|f|l>.<mode>  Get by request u in cmdEvalUnified / the WHEREEVAL parser / cmdScriptLoad
        s.<u>  Store     c.<u>  tile38.call     x.<u>  way out     p.<k>  Prune drops k
                                         -> per call  <u>:<mode found or ->:<rw|ro|na|refused> ... | idle interpreters
   globals <n> <op>...                   what borrowers leave in the global tables (Model/LuaGlobals.v over Gen/LuaGlobals.v):
        b.<u>.<0|1>  borrow (1: returned in Close())   i.<u>.<fn>.<0|1>[~name=v|~name=nil ...]  one invocation of fn
                                         (1: left by an early return) and what its Lua code assigns
        r.<u>  return                    -> <interpreter>:<extra global>,... for every idle interpreter that has any | idle
   flush <op>...                         the reply path (Model/ScriptFlush.v over Gen/ReplyFlush.v) on the programs given by `req`:
        s.<u> micro-step   r.<u> netServe writes u's replies   y background flush
                                         -> records in the log, records in the file, dirty flag, replies sent u:n:file ... *)
open Model

let hex = Conv.hex_of_bytes
let unhex = Conv.bytes_of_hex
let nat = Conv.nat_of_int
let int_of_nat = Conv.int_of_nat

let bytes_of_ocaml (s : Stdlib.String.t) : bytes =
  Stdlib.List.init (Stdlib.String.length s) (fun i -> Conv.n_of_int (Stdlib.Char.code s.[i]))
let ocaml_of_bytes (b : bytes) : Stdlib.String.t =
  let buf = Buffer.create 16 in
  Stdlib.List.iter (fun x -> Buffer.add_char buf (Stdlib.Char.chr (Conv.int_of_n x land 255))) b;
  Buffer.contents buf

let ocaml_string_of (s : Model.string) : Stdlib.String.t = ocaml_of_bytes (bytes_of_string s)

let lock_str = function LExcl -> "excl" | LShared -> "shared" | LNone -> "none"

let herr_str = function
  | EKeyNotFound -> "keynotfound" | ENArgs -> "nargs" | EUnmodelled -> "unmodelled"
  | ELua _ -> "lua"

let cerr_str = function
  | CNotSupported -> "-notsupported" | CReadOnly -> "-readonly" | CNotLeader -> "-notleader"
  | CCatchingUp -> "-catchingup" | CUnknown -> "-unknown"
  | CHandler m -> "-" ^ herr_str m
  | CScript m -> "-" ^ herr_str m

(* the canonical text of a value; strings raw (the harness only uses [A-Za-z0-9._-]) *)
let rec val_str = function
  | VOk -> "+OK"
  | VInt z -> ":" ^ Conv.string_of_z z
  | VBulk b -> "$" ^ ocaml_of_bytes b
  | VNil -> "nil"
  | VArr l -> "[" ^ Stdlib.String.concat "," (Stdlib.List.map val_str l) ^ "]"

let reply_str = function Inl v -> val_str v | Inr er -> cerr_str er
let hreply_str = function Inl v -> val_str v | Inr m -> "-" ^ herr_str m

(* tokens must not contain spaces: texts go out hex-encoded *)
let hx (s : Stdlib.String.t) : Stdlib.String.t = hex (bytes_of_ocaml s)

(* ---- scripts ---- *)
type arg = Lit of bytes | Succ of int | Res of int
type stmt = SCall of bool * arg list | SIf of int * Stdlib.String.t * int | SFail of bytes

let rec parse_stmts (toks : Stdlib.String.t list) : stmt list =
  match toks with
  | [] -> []
  | "C" :: prot :: n :: rest ->
      let n = int_of_string n in
      let rec take k l acc = if k = 0 then (Stdlib.List.rev acc, l) else
        match l with x :: r -> take (k - 1) r (x :: acc) | [] -> failwith "short call" in
      let (args, rest') = take n rest [] in
      let arg a =
        let body = Stdlib.String.sub a 1 (Stdlib.String.length a - 1) in
        match a.[0] with
        | 'h' -> Lit (unhex body) | 'n' -> Succ (int_of_string body) | 'r' -> Res (int_of_string body)
        | _ -> failwith "bad arg" in
      SCall (prot = "1", Stdlib.List.map arg args) :: parse_stmts rest'
  | "I" :: i :: pat :: k :: rest -> SIf (int_of_string i, ocaml_of_bytes (unhex pat), int_of_string k) :: parse_stmts rest
  | "F" :: m :: rest -> SFail (unhex m) :: parse_stmts rest
  | t :: _ -> failwith ("bad statement " ^ t)

let rec drop k l = if k <= 0 then l else match l with [] -> [] | _ :: r -> drop (k - 1) r

let arith_error : (kval, kerr) prog = Fail (CScript (ELua (bytes_of_ocaml "arith")))

(* the call strategy of a statement list, given the results so far (in order) *)
let rec build (stmts : stmt list) (results : (kval, kerr) reply list) : (kval, kerr) prog =
  match stmts with
  | [] -> Ret (VArr (Stdlib.List.map (fun r -> VBulk (bytes_of_ocaml (reply_str r))) results))
  | SFail m :: _ -> Fail (CScript (ELua m))
  | SIf (i, pat, k) :: rest ->
      (* R[i] of a call that was never made is nil: the comparison is false *)
      (match Stdlib.List.nth_opt results (i - 1) with
       | Some r when reply_str r = pat -> build rest results
       | _ -> build (drop k rest) results)
  | SCall (prot, args) :: rest ->
      let exception Arith in
      (try
        let conv = function
          | Lit b -> b
          | Res i -> (match Stdlib.List.nth_opt results (i - 1) with Some (Inl (VBulk b)) -> b | _ -> raise Arith)
          | Succ i ->
              (match Stdlib.List.nth_opt results (i - 1) with
               | Some (Inl (VBulk b)) ->
                   (match int_of_string_opt (ocaml_of_bytes b) with
                    | Some n -> bytes_of_ocaml (string_of_int (n + 1))
                    | None -> raise Arith)
               | _ -> raise Arith) in
        let c = Stdlib.List.map conv args in
        Call (prot, c, fun r -> build rest (results @ [r]))
      with Arith -> arith_error)

(* ---- global states ---- *)
let programs : (int, (kval, kerr) req list) Hashtbl.t = Hashtbl.create 16
let states : (int, (kstate, kval, kerr) gstate) Hashtbl.t = Hashtbl.create 1024
let next_sid = ref 0

let put g = let s = !next_sid in Hashtbl.replace states s g; incr next_sid; s
let st sid = Hashtbl.find states (int_of_string sid)

let words_str (c : cmd) = Stdlib.String.concat "," (Stdlib.List.map hex c)

let kind_str (k : (kstate, kval, kerr) ekind) =
  match k with
  | KStart l -> "start|" ^ lock_str l
  | KEnter -> "enter"
  | KExec (c, _, _, r, upd, lg) ->
      Printf.sprintf "exec|%s|%s|%s|%s" (words_str c) (hx (hreply_str r)) (Conv.bool_str upd) (Conv.bool_str lg)
  | KRefused (c, er) -> Printf.sprintf "refused|%s|%s" (words_str c) (hx (cerr_str er))
  | KAcq l -> "acq|" ^ lock_str l
  | KRel l -> "rel|" ^ lock_str l
  | KAns r -> "ans|" ^ hx (reply_str r)
  | KEnd l -> "end|" ^ lock_str l

let event_str (ev : (kstate, kval, kerr) event) =
  Printf.sprintf "%d.%d.%d|%s|%s|%d|%s" (int_of_nat ev.e_tid) (int_of_nat ev.e_rid) (int_of_nat ev.e_cid)
    (ocaml_string_of ev.e_name) (lock_str ev.e_held) (int_of_nat ev.e_pos) (kind_str ev.e_kind)

let state_str (s : kstate) =
  Stdlib.String.concat ";"
    (Stdlib.List.concat_map (fun (k, col) ->
       Stdlib.List.map (fun (id, v) -> Printf.sprintf "%s/%s=%s" (hex k) (hex id) (hex v)) col) s)

let holds_nothing g t =
  let ts = g.th (nat t) in
  outerh kcname ts = LNone && innerh ts = LNone

(* one micro-step; the events it appended *)
let micro g t =
  let n0 = Stdlib.List.length g.hist in
  let g' = kstep g (nat t) in
  let evs = drop n0 g'.hist in
  (g', evs)

let status g t evs =
  if evs <> [] then "ok" else
  let ts = g.th (nat t) in
  match ts.t_pc, ts.t_todo with
  | PIdle, [] -> "done"
  | _ -> "blocked"

let handle (toks : Stdlib.String.t list) : Stdlib.String.t =
  match toks with
  | ["new"] -> Hashtbl.reset programs; Hashtbl.reset states; next_sid := 0; "ok"
  | "req" :: tid :: n :: rest ->
      let tid = int_of_string tid and n = int_of_string n in
      let rec take k l acc = if k = 0 then (Stdlib.List.rev acc, l) else
        match l with x :: r -> take (k - 1) r (x :: acc) | [] -> failwith "short request" in
      let (words, stmts) = take n rest [] in
      let p = match stmts with [] -> Ret VNil | _ -> build (parse_stmts stmts) [] in
      let q = { q_cmd = Stdlib.List.map unhex words; q_prog = p } in
      let old = try Hashtbl.find programs tid with Not_found -> [] in
      Hashtbl.replace programs tid (old @ [q]); "ok"
  | ["init"] ->
      let progs t = try Hashtbl.find programs (int_of_nat t) with Not_found -> [] in
      string_of_int (put (kinit [] progs))
  | ["step"; sid; tid] ->
      let g = st sid and t = int_of_string tid in
      let (g', evs) = micro g t in
      Printf.sprintf "%d %s %s" (if evs = [] then int_of_string sid else put g') (status g t evs)
        (Stdlib.String.concat " " (Stdlib.List.map event_str evs))
  | ["unit"; sid; tid] ->
      let g = st sid and t = int_of_string tid in
      let (g1, evs1) = micro g t in
      if evs1 = [] then Printf.sprintf "%s %s" sid (status g t evs1) else begin
        let rec go g acc fuel =
          if holds_nothing g t || fuel = 0 then (g, acc) else
          let (g', evs) = micro g t in
          if evs = [] then (g, acc) else go g' (acc @ evs) (fuel - 1) in
        let (g', evs) = go g1 evs1 100000 in
        Printf.sprintf "%d ok %s" (put g') (Stdlib.String.concat " " (Stdlib.List.map event_str evs))
      end
  | ["sched"; sid; l] ->
      let g = st sid in
      let sched = Stdlib.List.map (fun x -> nat (int_of_string x)) (Stdlib.String.split_on_char ',' l) in
      let g' = krun g sched in
      Printf.sprintf "%d %d" (put g') (Stdlib.List.length g'.hist)
  | ["state"; sid] -> "=" ^ state_str (st sid).shared
  | ["aof"; sid] ->
      "=" ^ Stdlib.String.concat ";" (Stdlib.List.map (fun r ->
        Printf.sprintf "%d.%d:%s" (int_of_nat r.r_tid) (int_of_nat r.r_rid) (words_str r.r_cmd)) (st sid).log)
  | ["hist"; sid] -> "=" ^ Stdlib.String.concat " " (Stdlib.List.map event_str (st sid).hist)
  | ["locks"; sid] ->
      let g = st sid in
      Printf.sprintf "wr=%s rd=%s" (match g.wr with Some t -> string_of_int (int_of_nat t) | None -> "-")
        (Stdlib.String.concat "," (Stdlib.List.map (fun t -> string_of_int (int_of_nat t)) g.rd))
  | ["replay"] -> "=" ^ state_str (kreplay [] [])
  | ["replay"; l] ->
      let cmds = Stdlib.List.map (fun c -> Stdlib.List.map unhex (Stdlib.String.split_on_char ',' c))
                   (Stdlib.String.split_on_char '|' l) in
      "=" ^ state_str (kreplay cmds [])
  | "pool" :: n :: ops ->
      let coq_string s = string_of_bytes (bytes_of_ocaml s) in
      let fn_of = function
        | "e" -> coq_string "Server.cmdEvalUnified"
        | "f" -> coq_string "Server.parseSearchScanBaseTokens"
        | "l" -> coq_string "Server.cmdScriptLoad"
        | k -> coq_string k in
      let op t = match Stdlib.String.split_on_char '.' t with
        | ["g"; u; k; m] -> OGet (nat (int_of_string u), fn_of k, coq_string m)
        | ["s"; u] -> OStore (nat (int_of_string u))
        | ["c"; u] -> OCall (nat (int_of_string u))
        | ["x"; u] -> OExit (nat (int_of_string u))
        | ["p"; k] -> OPrune (nat (int_of_string k))
        | _ -> failwith ("bad pool op " ^ t) in
      let p = src_run (pinit (nat (int_of_string n))) (Stdlib.List.map op ops) in
      let routed c = match route c.c_found with
        | None -> "refused"
        | Some t -> if t = script_rw then "rw" else if t = script_ro then "ro" else if t = script_na then "na" else "other" in
      let call c = Printf.sprintf "%d:%s:%s" (int_of_nat c.c_user)
        (match c.c_found with Some m -> ocaml_string_of m | None -> "-") (routed c) in
      Stdlib.String.concat " " (Stdlib.List.map call p.calls) ^ " | " ^
      Stdlib.String.concat "," (Stdlib.List.map (fun x -> string_of_int (int_of_nat x)) p.saved)
  | "globals" :: n :: ops ->
      let coq_string s = string_of_bytes (bytes_of_ocaml s) in
      let rec op t =
        match Stdlib.String.split_on_char '~' t with
        | head :: (_ :: _ as assigns) ->
            (* i.<u>.<fn>.<early>~<name>=v~<name>=nil : what the Lua code of the invocation assigns *)
            let asg a = match Stdlib.String.split_on_char '=' a with
              | [nm; "nil"] -> { a_name = coq_string nm; a_nil = true }
              | nm :: _ -> { a_name = coq_string nm; a_nil = false }
              | [] -> failwith "bad assignment" in
            (match op head with
             | GInvoke (u, fn, early, _) -> GInvoke (u, fn, early, Stdlib.List.map asg assigns)
             | o -> o)
        | _ ->
        match Stdlib.String.split_on_char '.' t with
        | ["b"; u; c] -> GBorrow (nat (int_of_string u), c = "1")
        | "i" :: u :: rest ->
            let rest = Stdlib.List.rev rest in
            (match rest with
             | early :: fnrev -> GInvoke (nat (int_of_string u), coq_string (Stdlib.String.concat "." (Stdlib.List.rev fnrev)), early = "1", [])
             | [] -> failwith "bad invoke")
        | ["r"; u] -> GReturn (nat (int_of_string u))
        | _ -> failwith ("bad globals op " ^ t) in
      let p = grun (ginit (nat (int_of_string n))) (Stdlib.List.map op ops) in
      let line x = match Stdlib.List.map (fun nm -> "+" ^ ocaml_string_of nm) (extras_of p.g_extra x) @
                           Stdlib.List.map (fun nm -> "-" ^ ocaml_string_of nm) (extras_of p.g_gone x) with
        | [] -> []
        | l -> [Printf.sprintf "%d:%s" (int_of_nat x) (Stdlib.String.concat "," l)] in
      Stdlib.String.concat " " (Stdlib.List.concat_map line p.g_idle) ^ " | " ^
      Stdlib.String.concat "," (Stdlib.List.map (fun x -> string_of_int (int_of_nat x)) p.g_idle)
  | "flush" :: ops ->
      let progs t = try Hashtbl.find programs (int_of_nat t) with Not_found -> [] in
      let op t = match Stdlib.String.split_on_char '.' t with
        | ["s"; u] -> FStep (nat (int_of_string u))
        | ["r"; u] -> FReply (nat (int_of_string u))
        | ["y"] -> FSync
        | _ -> failwith ("bad flush op " ^ t) in
      let f = frun kcname khandler leader (finit [] progs) (Stdlib.List.map op ops) in
      Printf.sprintf "%d %d %s %s" (Stdlib.List.length f.f_g.log) (int_of_nat f.f_file) (Conv.bool_str f.f_dirty)
        (Stdlib.String.concat " " (Stdlib.List.map (fun (u, (n, fl)) ->
           Printf.sprintf "%d:%d:%d" (int_of_nat u) (int_of_nat n) (int_of_nat fl)) f.f_sends))
  | _ -> "?unknown"
