(* Extraction of the script / concurrency model (Model/Script.v over the regenerated tables) with the
   string-object instance Model/ScriptKs.v. ExtrOcamlBasic only. *)
From Coq Require Import Extraction ExtrOcamlBasic String ZArith NArith.
From T38 Require Import Base.Bytes Model.Tables Gen.LockTable Gen.ScriptTables Gen.Dispatch Model.Gate Model.Replay
  Model.Script Model.ScriptKs Gen.LuaPool Model.LuaPool Gen.LuaGlobals Model.LuaGlobals Gen.ReplyFlush Model.ScriptFlush.
Extraction Language OCaml.
Extraction "model.ml" Z.add Z.of_N Nat.add kplan kstep krun kinit kreplay kcname khandler leader
  bytes_of_string string_of_bytes outerh innerh outer_lock
  src_run pinit route user_flags pool_users script_rw script_ro script_na
  grun ginit extras_of frun finit.
