(* request handlers of the query-area parser driver (C02, Model/AreaParse.v).

   area <mode> <cmd> <b1> <b2> <b3> <n> tok*n <k> entry*k
     mode = search : cmd in nearby|within|intersects, b1 b2 b3 = fence clip outb      -> search_area
     mode = parse  : cmd ignored,                     b1 = doClip                     -> parse_area
     mode = tail   : cmd ignored,                     b1 = intersects, b2 = a1nil     -> test_tail
   tokens are hex ("-" = empty).  Oracle entries (computed by the harness from direct library calls):
     T:<tok>:<strings.ToLower(tok)>:<ParseFloat bits | ->:<geojson.Parse ok 0|1>
     S:<lat>:<lon>:<meters>:<b1>:<b2>:<0|1>        sector polygon parses
     G:<key>:<id>:<K|I|F>                          key missing | id missing | found
   Replies: see [show_*].  qk <hex> / qkinv <level> <x> <y> / pint <hex> / puint <hex> / fcmp <a> <b>. *)
open Model
open Conv

let rec show_area (a : area) : Stdlib.String.t =
  let z = string_of_z in
  match a with
  | ANil -> "nil"
  | APoint (lat, lon) -> Printf.sprintf "point(%s,%s)" (z lat) (z lon)
  | ACircle (lat, lon, m) -> Printf.sprintf "circle(%s,%s,%s)" (z lat) (z lon) (z m)
  | ASector (lat, lon, m, b1, b2) -> Printf.sprintf "sector(%s,%s,%s,%s,%s)" (z lat) (z lon) (z m) (z b1) (z b2)
  | ABounds (a, b, c, d) -> Printf.sprintf "bounds(%s,%s,%s,%s)" (z a) (z b) (z c) (z d)
  | AHash h -> Printf.sprintf "hash(%s)" (hex_of_bytes h)
  | ATile (x, y, l) -> Printf.sprintf "tile(%s,%s,%s)" (z x) (z y) (z l)
  | AMvt (x, y, l) -> Printf.sprintf "mvt(%s,%s,%s)" (z x) (z y) (z l)
  | AObject j -> Printf.sprintf "object(%s)" (hex_of_bytes j)
  | AGet (k, i) -> Printf.sprintf "get(%s,%s)" (hex_of_bytes k) (hex_of_bytes i)
  | AClip (a, c) -> Printf.sprintf "clip(%s;%s)" (show_area a) (show_area c)

let show_err (e : perr) : Stdlib.String.t =
  match e with
  | EGeoJSON _ -> "err-lib"
  | ESector _ -> "err-lib"
  | _ -> "err " ^ hex_of_bytes (err_text e)

let split_colon s = Stdlib.String.split_on_char ':' s

let build_oracles (entries : Stdlib.String.t list) =
  let toks = ref [] and secs = ref [] and gets = ref [] in
  Stdlib.List.iter (fun e ->
    match split_colon e with
    | ["T"; t; l; f; g] ->
        toks := (bytes_of_hex t, (bytes_of_hex l, (if f = "-" then None else Some (z_of_string f)), g = "1")) :: !toks
    | ["S"; a; b; c; d; e5; ok] ->
        secs := ((z_of_string a, z_of_string b, z_of_string c, z_of_string d, z_of_string e5), ok = "1") :: !secs
    | ["G"; k; i; r] ->
        gets := ((bytes_of_hex k, bytes_of_hex i), (match r with "F" -> LFound | "I" -> LNoId | _ -> LNoKey)) :: !gets
    | _ -> failwith ("bad oracle entry " ^ e)) entries;
  let find t = try Some (Stdlib.List.assoc t !toks) with Not_found -> None in
  let lower t = match find t with Some (l, _, _) -> l | None -> failwith ("no lower for " ^ hex_of_bytes t) in
  let pf t = match find t with Some (_, f, _) -> f | None -> failwith ("no float for " ^ hex_of_bytes t) in
  let gj t = match find t with Some (_, _, g) -> g | None -> failwith ("no gj for " ^ hex_of_bytes t) in
  let sec a b c d e = try Stdlib.List.assoc (a, b, c, d, e) !secs with Not_found -> failwith "no sector oracle" in
  let lookup k i = try Stdlib.List.assoc (k, i) !gets with Not_found -> LNoKey in
  (lower, pf, gj, sec, lookup)

let rec take n l = if n <= 0 then ([], l) else match l with [] -> failwith "short" | x :: r -> let (a, b) = take (n - 1) r in (x :: a, b)

let b s = s = "1"

let handle (toks : Stdlib.String.t list) : Stdlib.String.t =
  match toks with
  | "area" :: mode :: cmd :: b1 :: b2 :: b3 :: n :: rest ->
      let (tk, rest) = take (int_of_string n) rest in
      let vs = Stdlib.List.map bytes_of_hex tk in
      let entries = match rest with [] -> [] | _ :: e -> e in
      let (lower, pf, gj, sec, lookup) = build_oracles entries in
      (match mode with
       | "search" ->
           let c = match cmd with "nearby" -> CNearby | "within" -> CWithin | _ -> CIntersects in
           (match search_area lower pf gj sec lookup c (b b1) (b b2) (b b3) vs with
            | Ok r ->
                let (p, tz) = r.s_tile in let (tx, ty) = p in
                Printf.sprintf "ok %s %s %s,%s,%s %s %s %s" (show_area r.s_obj) (bool_str r.s_outreset)
                  (string_of_z tx) (string_of_z ty) (string_of_z tz) (bool_str r.s_mvt) (bool_str r.s_clip)
                  (match r.s_roam with
                   | None -> "-"
                   | Some ro -> Printf.sprintf "roam(%s,%s,%s,%s)" (hex_of_bytes ro.r_key) (hex_of_bytes ro.r_id)
                                  (string_of_z ro.r_meters) (hex_of_bytes ro.r_scan))
            | Err e -> show_err e
            | Panic -> "panic"
            | NoFuel -> "nofuel")
       | "parse" ->
           (match parse_area lower pf gj sec lookup (b b1) vs with
            | Ok (rest, a) -> Printf.sprintf "ok %s %d" (show_area a) (Stdlib.List.length rest)
            | Err e -> show_err e
            | Panic -> "panic"
            | NoFuel -> "nofuel")
       | "tail" ->
           (match test_tail lower pf gj sec lookup (b b1) (b b2) vs with
            | TOk (dc, a) -> Printf.sprintf "ok %s %s" (bool_str dc) (show_area a)
            | TErr e -> show_err e
            | TPanic -> "panic"
            | TNoFuel -> "nofuel"
            | TOutside -> "outside")
       | _ -> "?unknown")
  | ["qk"; k] ->
      (match quadkey_to_tilexy (bytes_of_hex k) with
       | Some ((x, y), l) -> Printf.sprintf "%s %s %s" (string_of_z x) (string_of_z y) (string_of_z l)
       | None -> "panic")
  | ["qkb"; k] ->
      (match quadkey_to_bounds (bytes_of_hex k) with
       | Ok (Some a) -> "ok " ^ show_area a
       | Ok None -> "invalid"
       | _ -> "panic")
  | ["qkinv"; l; x; y] -> hex_of_bytes (tilexy_to_quadkey (nat_of_int (int_of_string l)) (z_of_string x) (z_of_string y))
  | ["pint"; s] -> (match parse_int64 (bytes_of_hex s) with Some v -> string_of_z v | None -> "err")
  | ["puint"; s] -> (match parse_uint64 (bytes_of_hex s) with Some v -> string_of_z v | None -> "err")
  | ["fcmp"; a; c] ->
      let a = z_of_string a and c = z_of_string c in
      Printf.sprintf "%s %s %s" (bool_str (f_lt0 a)) (bool_str (f_finite a)) (bool_str (f_eq a c))
  | _ -> "?unknown"
