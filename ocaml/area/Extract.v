(* Extraction of the query-area parsers (C02: Model/AreaParse.v). ExtrOcamlBasic only. *)
From Coq Require Import Extraction ExtrOcamlBasic.
From Coq Require Import ZArith NArith.
From T38 Require Import Model.AreaParse.
Extraction Language OCaml.
Extraction "model.ml" Z.add Z.of_N Nat.add
  search_area parse_area test_tail quadkey_to_tilexy tilexy_to_quadkey quadkey_to_bounds err_text
  parse_int64 parse_uint64 f_lt0 f_finite f_eq.
