(* Extraction of the C17 models (jsonString, the JSON recogniser, the template checker).
   ExtrOcamlBasic only: N / positive / nat / Z stay Coq datatypes. *)
From Coq Require Import Extraction ExtrOcamlBasic.
From T38 Require Import Base.Bytes Base.Utf8 Model.Json Model.Templates Model.WsFrame Model.RespOut Model.JsonScan Model.JsonMode Model.Mvt Model.ClientList.
From T38 Require Gen.Templates.  (* the base64 encodings named by the two MVT sites: rebuild when coq/Gen changes *)
Extraction Language OCaml.
Extraction "model.ml" Z.add Z.of_N Nat.add json_string valid_json tmpl_ok is_int_text string_safe ws_header ws_decode resp_parse resp_print resp_in_image render_json render_resp proj_json proj_resp abs_of serve sub_msg
  mvt_member mvt_http decode encode Gen.Templates.mvt_json_encoding Gen.Templates.mvt_http_decoding
  json_entries cut_first.
