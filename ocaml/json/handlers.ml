(* request handlers of the json model driver *)
open Model
open Conv

let rec canon (v : rval) : string =
  match v with
  | RSimple s -> "S:" ^ hex_of_bytes s
  | RErr s -> "E:" ^ hex_of_bytes s
  | RInt z -> "I:" ^ string_of_z z
  | RBulk s -> "B:" ^ hex_of_bytes s
  | RNull -> "N"
  | RNullArr -> "N"
  | RArr l -> "A[" ^ String.concat "," (List.map canon l) ^ "]"

(* JSON tree of the scan model as text: strings and tokens carried as hex *)
let rec jcanon (j : jval) : string =
  match j with
  | JStr s -> "{\"$s\":\"" ^ hex_of_bytes s ^ "\"}"
  | JTok t -> "{\"$t\":\"" ^ hex_of_bytes t ^ "\"}"
  | JNum n -> string_of_int (int_of_n n)
  | JArr l -> "[" ^ String.concat "," (List.map jcanon l) ^ "]"
  | JObj m -> "{" ^ String.concat "," (List.map (fun (k, v) -> "\"" ^ hex_of_bytes k ^ "\":" ^ jcanon v) m) ^ "}"

let tval_of kind hex = if kind = "s" then TStr (bytes_of_hex hex) else TTok (bytes_of_hex hex)

let parse_item (tok : string) : item =
  match String.split_on_char ':' tok with
  | id :: ok :: obj :: dout :: pos :: dist :: fields :: more ->
      let fl fields = if fields = "." then [] else
        List.map (fun f -> match String.split_on_char '=' f with
          | [n; k; v] -> (bytes_of_hex n, tval_of k v)
          | _ -> failwith "bad field") (String.split_on_char ';' fields) in
      (* optional 8th component: the names answered through a JSON path (field.List.Get) *)
      { it_id = bytes_of_hex id; it_obj = tval_of ok obj; it_fields = fl fields;
        it_jpath = (match more with [jp] -> fl jp | _ -> []);
        it_distout = (dout = "1"); it_dist = bytes_of_hex dist; it_dist_pos = (pos = "1") }
  | _ -> failwith "bad item"

let handle (toks : string list) : string =
  match toks with
  | ["json_string"; s] -> hex_of_bytes (json_string (bytes_of_hex s))
  | ["valid_json"; s] -> bool_str (valid_json (bytes_of_hex s))
  | ["is_int_text"; s] -> bool_str (is_int_text (bytes_of_hex s))
  | ["string_safe"; s] -> bool_str (string_safe (bytes_of_hex s))
  | ["resp_image"; b] ->
      let bs = bytes_of_hex b in
      if resp_in_image bs then
        (match resp_parse bs with Some (v, _) -> "1 " ^ canon v | None -> "0")
      else "0"
  | "scan_render" :: out :: nof :: count :: cursor :: names :: items ->
      let o = (match out with "ids" -> OIds | "count" -> OCount | _ -> OObjects) in
      let r = { sr_out = o; sr_nofields = (nof = "1");
                sr_names = (if names = "." then [] else List.map bytes_of_hex (String.split_on_char ',' names));
                sr_items = List.map parse_item items;
                sr_count = n_of_int (int_of_string count); sr_cursor = n_of_int (int_of_string cursor) } in
      let j = render_json r and v = render_resp r in
      let agree = (proj_json o j = Some (abs_of r)) && (proj_resp o v = Some (abs_of r)) in
      Printf.sprintf "%s %s %s" (jcanon j) (canon v) (bool_str agree)
  | ["modes"; dflt; parsed; packets] ->
      let om c = if c = 'j' then OJson else OResp in
      let d = (match dflt with "j" -> Some OJson | "r" -> Some OResp | _ -> None) in
      let ps = List.map (fun p ->
        List.map (fun c -> match c with 'J' -> POutput OJson | 'R' -> POutput OResp | 'H' -> PHello true | 'h' -> PHello false | _ -> POther)
          (List.init (String.length p) (String.get p))) (String.split_on_char '|' packets) in
      String.concat "" (List.map (fun m -> match m with OJson -> "j" | OResp -> "r") (serve d (om parsed.[0]) None ps))
  (* mvt <tile> <json reply> : the "mvt" member writeFoot writes and what the HTTP .mvt route answers,
     with the encodings the source names at the two sites (coq/Gen/Templates.v) *)
  | ["mvt"; tile; res] ->
      let t = bytes_of_hex tile in
      let m = mvt_member mvt_json_encoding t in
      (match m, mvt_http mvt_http_decoding (bytes_of_hex res) m with
       | Some mem, Some r ->
           Printf.sprintf "%s %d %s %s" (hex_of_bytes mem) (int_of_n r.h_status)
             (match r.h_ctype with CTJson -> "json" | CTMvt -> "mvt") (hex_of_bytes r.h_body)
       | _, _ -> "none")
  | ["b64"; kind; dir; s] ->
      let k = if kind = "std" then BStd else BRawStd in
      if dir = "enc" then hex_of_bytes (encode k (bytes_of_hex s))
      else (match decode k (bytes_of_hex s) with Some b -> "ok " ^ hex_of_bytes b | None -> "err")
  (* clientlist <RESP text of CLIENT LIST> : the members the JSON arm recovers, entry by entry *)
  | ["clientlist"; buf] ->
      let es = json_entries cut_first (bytes_of_hex buf) in
      if es = [] then "." else
      String.concat ";" (List.map (fun m ->
        String.concat "," (List.map (fun (k, v) -> hex_of_bytes k ^ "=" ^ hex_of_bytes v) m)) es)
  | ["sub_msg"; p] -> hex_of_bytes (sub_msg (bytes_of_hex p))
  | ["ws_header"; n] -> hex_of_bytes (ws_header (n_of_int (int_of_string n)))
  | ["ws_decode"; f] ->
      (match ws_decode (bytes_of_hex f) with Some p -> hex_of_bytes p | None -> "none")
  | _ -> "?unknown"
