(* request handlers of the json model driver *)
open Model
open Conv

let handle (toks : string list) : string =
  match toks with
  | ["json_string"; s] -> hex_of_bytes (json_string (bytes_of_hex s))
  | ["valid_json"; s] -> bool_str (valid_json (bytes_of_hex s))
  | ["is_int_text"; s] -> bool_str (is_int_text (bytes_of_hex s))
  | ["string_safe"; s] -> bool_str (string_safe (bytes_of_hex s))
  | ["ws_header"; n] -> hex_of_bytes (ws_header (n_of_int (int_of_string n)))
  | ["ws_decode"; f] ->
      (match ws_decode (bytes_of_hex f) with Some p -> hex_of_bytes p | None -> "none")
  | _ -> "?unknown"
