(* request handlers of the shrink model driver (C09); stateful: one scenario at a time.

   Byte strings are hex ("-" = empty). A field update is two tokens <name> <json|z> (z = zero value).
   Canonical command text (also the format of `out`, `log`, and what the harness builds itself):
     set <k> <i> <ex 0|1> <geo> [<name>:<json|z>]*     fset <k> <i> [<name>:<json|z>]+
     expire <k> <i>   persist <k> <i>   del <k> <i>   pdel <k> <prefix>   drop <k>
     rename <a> <b>   flushdb
     hset <name> <chan 0|1> <ex 0|1> <body>   hdel <name> <chan>   hpdel <prefix> <chan>
   Lists are joined with ",". *)
open Model

let hx = Conv.bytes_of_hex
let xh = Conv.hex_of_bytes
let b01 b = if b then "1" else "0"

let mk = ref maxkeys
let mi = ref maxids
(* objects: live dataset, rewrite, shrinklog, shrinking flag; hooks: registry, hooks phase, log *)
let r : run ref = ref (idle [])
(* the content of the open log file and s.aofbuf, object commands only (Model/ShrinkBuf.v); every
   transition of the object side goes through the extracted bstep with the proved final_ops *)
let bfile : cmd list ref = ref []
let bbuf : cmd list ref = ref []
(* s.shrinkrst: a follower dropped its dataset while the rewrite was running *)
let breset : bool ref = ref false
let bs () = { b_run = !r; b_file = !bfile; b_buf = !bbuf; b_reset = !breset }
let bdo e = let b = bstep !mk !mi final_ops true (bs ()) e in r := b.b_run; bfile := b.b_file; bbuf := b.b_buf; breset := b.b_reset
let hr : hrun ref = ref (hrun_init [])
(* the shrinklog in arrival order (object and hook commands interleaved; FLUSHDB once) *)
let merged : Stdlib.String.t list ref = ref []

let fu_str (n, v) = xh n ^ ":" ^ (match v with Some x -> xh x | None -> "z")
let fus_str us = Stdlib.String.concat "" (Stdlib.List.map (fun u -> " " ^ fu_str u) us)

let cmd_str = function
  | CSet (k, i, us, ex, geo) -> Printf.sprintf "set %s %s %s %s%s" (xh k) (xh i) (b01 ex) (xh geo) (fus_str us)
  | CFset (k, i, us) -> Printf.sprintf "fset %s %s%s" (xh k) (xh i) (fus_str us)
  | CExpire (k, i) -> Printf.sprintf "expire %s %s" (xh k) (xh i)
  | CPersist (k, i) -> Printf.sprintf "persist %s %s" (xh k) (xh i)
  | CDel (k, i) -> Printf.sprintf "del %s %s" (xh k) (xh i)
  | CPdel (k, p) -> Printf.sprintf "pdel %s %s" (xh k) (xh p)
  | CDrop k -> Printf.sprintf "drop %s" (xh k)
  | CRename (a, b) -> Printf.sprintf "rename %s %s" (xh a) (xh b)
  | CFlushdb -> "flushdb"

let hcmd_str = function
  | HSet (n, h) -> Printf.sprintf "hset %s %s %s %s" (xh n) (b01 h.h_chan) (b01 h.h_ex) (xh h.h_body)
  | HDel (n, c) -> Printf.sprintf "hdel %s %s" (xh n) (b01 c)
  | HPdel (p, c) -> Printf.sprintf "hpdel %s %s" (xh p) (b01 c)
  | HFlush -> "flushdb"

let join = function [] -> "-" | l -> Stdlib.String.concat "," l
let cmds_str l = join (Stdlib.List.map cmd_str l)
let hcmds_str l = join (Stdlib.List.map hcmd_str l)

let obj_str k i o =
  Printf.sprintf "%s %s %s %s%s" (xh k) (xh i) (b01 o.o_dl) (xh o.o_geo)
    (fus_str (Stdlib.List.map (fun (n, v) -> (n, Some v)) o.o_fields))

let dump (s : st) = join (Stdlib.List.map (fun ((k, i), o) -> obj_str k i o) (flatten s))
let hdump (g : hreg) =
  join (Stdlib.List.map (fun (n, h) -> Printf.sprintf "%s %s %s %s" (xh n) (b01 h.h_chan) (b01 h.h_ex) (xh h.h_body)) g)

let gate () =
  let sh = !r.r_sh in
  if not !r.r_shrinking then "idle" else
  match sh.sh_pos with
  | AtKeys -> Printf.sprintf "keys %s -" (xh sh.sh_nextkey)
  | AtIds nid -> (match sh.sh_keys with
                  | [] -> "panic"
                  | k0 :: _ -> Printf.sprintf "ids %s %s" (xh k0) (xh nid))
  | ScanDone ->
      (match !hr.hr_sh.hs_pos with
       | HNames -> "hooknames - -"
       | HEmit (n :: _) -> Printf.sprintf "hook %s -" (xh n)
       | HEmit [] -> "hook ? -"
       | HDone -> "final - -")

let rec parse_fus toks =
  match toks with
  | [] -> Some []
  | n :: v :: rest ->
      (match parse_fus rest with
       | Some l -> Some ((hx n, (if v = "z" then None else Some (hx v))) :: l)
       | None -> None)
  | _ -> None

let parse_cmd toks =
  match toks with
  | "set" :: k :: i :: ex :: geo :: fs ->
      (match parse_fus fs with Some us -> Some (CSet (hx k, hx i, us, ex = "1", hx geo)) | None -> None)
  | "fset" :: k :: i :: fs ->
      (match parse_fus fs with Some us -> Some (CFset (hx k, hx i, us)) | None -> None)
  | ["expire"; k; i] -> Some (CExpire (hx k, hx i))
  | ["persist"; k; i] -> Some (CPersist (hx k, hx i))
  | ["del"; k; i] -> Some (CDel (hx k, hx i))
  | ["pdel"; k; p] -> Some (CPdel (hx k, hx p))
  | ["drop"; k] -> Some (CDrop (hx k))
  | ["rename"; a; b] -> Some (CRename (hx a, hx b))
  | _ -> None

let parse_hcmd toks =
  match toks with
  | ["hset"; n; c; ex; body] -> Some (HSet (hx n, { h_chan = (c = "1"); h_body = hx body; h_ex = (ex = "1") }))
  | ["hdel"; n; c] -> Some (HDel (hx n, c = "1"))
  | ["hpdel"; p; c] -> Some (HPdel (hx p, c = "1"))
  | _ -> None

let cp_name = function
  | CP_final_locked -> "final-locked" | CP_before_append -> "before-append" | CP_after_append -> "after-append"
  | CP_after_sync -> "after-sync" | CP_after_close_live -> "after-close-live" | CP_after_close_new -> "after-close-new"
  | CP_after_rename_bak -> "after-rename-bak" | CP_after_rename_live -> "after-rename-live"
  | CP_after_reopen -> "after-reopen" | CP_after_remove_bak -> "after-remove-bak"

let present = function Some _ -> "1" | None -> "0"

let reset () = r := idle []; hr := hrun_init []; merged := []; bfile := []; bbuf := []; breset := false

let outcome_str = function
  | Updated -> "updated" | NotUpdated -> "notupdated" | ErrKeyNotFound -> "err:keynotfound" | ErrIdNotFound -> "err:idnotfound"

(* an object command; hooks are untouched.  flush: the connection's packet ends here, its pre-write
   step writes the buffer to the open file before the reply goes out *)
let do_w ?(flush = true) c =
  let (_, o) = exec !r.r_live c in
  bdo (BE (W c));
  if flush then bdo BFlush;
  if !r.r_shrinking && logged o then merged := cmd_str c :: !merged;
  outcome_str o

(* a hook command: logged while the rewrite is running *)
let do_h c =
  let (g, o) = hexec !hr.hr_live c in
  if !r.r_shrinking then begin
    hr := hdo_ev !hr (HW c);
    if hlogged o then merged := hcmd_str c :: !merged
  end else
    hr := { !hr with hr_live = (match o with HFatal -> !hr.hr_live | _ -> g) };
  (match o with HUpdated -> "updated" | HNotUpdated -> "notupdated" | HFatal -> "fatal")

let start_rewrite () =
  r := do_ev !mk !mi !r Req;
  hr := hrun_init !hr.hr_live;
  merged := []

let handle (toks : Stdlib.String.t list) : Stdlib.String.t =
  match toks with
  | ["consts"] -> Printf.sprintf "%d %d" (Conv.int_of_nat maxkeys) (Conv.int_of_nat maxids)
  | ["new"] -> mk := maxkeys; mi := maxids; reset (); "ok"
  | ["new"; a; b] -> mk := Conv.nat_of_int (int_of_string a); mi := Conv.nat_of_int (int_of_string b); reset (); "ok"
  (* FLUSHDB clears both the dataset and the hook registry; one log record *)
  | ["w"; "flushdb"] ->
      let sh = !r.r_shrinking in
      ignore (do_w CFlushdb);
      (* do_w has pushed "flushdb" on the merged log when shrinking; the hook side must not push again *)
      if sh then hr := hdo_ev !hr (HW HFlush) else hr := { !hr with hr_live = [] };
      "updated"
  | "w" :: rest ->
      (match parse_cmd rest with
       | Some c ->
           (* the reserved-field-name checks of SET and FSET, both on the stored (trimmed) name; field.Make trims *)
           (match exec_n trim_ws trim_ws trim_ws !r.r_live c with
            | None -> "err:invalid"
            | Some _ -> do_w (norm trim_ws c))
       | None -> (match parse_hcmd rest with Some c -> do_h c | None -> "?bad command"))
  (* an AOFSHRINK request: starts a rewrite, or is ignored while one is running *)
  (* a command of a packet that is still being processed: it stays in the write buffer *)
  | "wb" :: rest ->
      (match parse_cmd rest with
       | Some c -> do_w ~flush:false c
       | None -> "?bad command")
  | ["flush"] -> bdo BFlush; "ok"
  (* a follower starts over: log recreated, dataset and hooks cleared, nothing reaches the shrinklog *)
  | ["reset"] -> bdo BReset; hr := { !hr with hr_live = [] }; merged := []; "ok"
  | ["breset"] -> b01 !breset
  (* the final section of the running rewrite and its epilogue *)
  | ["final"] ->
      if !r.r_shrinking && sh_done !r.r_sh && gate () = "final - -" then (bdo BFinal; merged := []; "ok") else "?not at the final section"
  | ["bfile"] -> cmds_str !bfile
  | ["bbuf"] -> cmds_str !bbuf
  | ["breplayed"] -> dump (replay (blog (bs ())) [])
  (* bufat <cpname>: how many of n pending commands are still buffered after a crash there *)
  | ["bufat"; name] ->
      (match Stdlib.List.filter (fun c -> cp_name c = name) all_cpoints with
       | [c] ->
           let fi = { f_live = []; f_pend = [CFlushdb]; f_snap = []; f_slog = [] } in
           let (_, buf) = crash_atb fi c in
           (match buf with [] -> "empty" | _ -> "pending")
       | _ -> "?bad crash point")
  (* geoenc <requirevalid 0|1> point <lat> <lon> | pointz <lat> <lon> <z> | rect <minlat> <minlon> <maxlat> <maxlon>,
     numbers as nan / +inf / -inf / hex of the text of a finite number (prefixed with ! when it is outside the valid
     range of its axis): the payload arguments of the snapshot record, and whether the loader reads the same object back *)
  | "geoenc" :: rv :: kind :: nums ->
      let num t = match Stdlib.String.lowercase_ascii t with
        | "nan" -> NaN | "+inf" -> PInf | "-inf" -> NInf
        | _ -> if Stdlib.String.length t > 0 && t.[0] = '!' then Fin (hx (Stdlib.String.sub t 1 (Stdlib.String.length t - 1)), false)
               else Fin (hx t, true) in
      let ns = Stdlib.List.map num nums in
      let g = (match kind, ns with
        | "point", [y; x] -> Some (GPoint (y, x))
        | "pointz", [y; x; z] -> Some (GPointZ (y, x, z))
        | "rect", [a; b; c; d] -> Some (GRect (a, b, c, d))
        | _ -> None) in
      (match g with
       | None -> "?bad geometry"
       | Some g ->
           let show = function NaN -> "NaN" | PInf -> "+Inf" | NInf -> "-Inf" | Fin (t, _) -> xh t in
           let p = enc g in
           let form = (match p with
             | PObject (_, _) -> "object"
             | PPoint a -> Stdlib.String.concat " " ("point" :: Stdlib.List.map show a)
             | PBounds a -> Stdlib.String.concat " " ("bounds" :: Stdlib.List.map show a)) in
           let back = (match dec (rv = "1") p with Some g' -> if coords g' = coords g then "same" else "changed" | None -> "refused") in
           form ^ " | " ^ back)
  (* startupat <cpname> <legacy 0|1>: what the start-up serves after a crash there when a legacy file
     with other data is (not) in the directory: acknowledged | legacy | empty | none *)
  | ["startupat"; name; leg] ->
      (match Stdlib.List.filter (fun c -> cp_name c = name) all_cpoints with
       | [c] ->
           let n97 = Conv.n_of_int 97 and n49 = Conv.n_of_int 49 and n120 = Conv.n_of_int 120 and n111 = Conv.n_of_int 111 in
           let a = CSet ([n97], [n49], [], false, [n120]) and o = CSet ([n111], [n49], [], false, [n120]) in
           let fi = { f_live = [a]; f_pend = []; f_snap = [a]; f_slog = [] } in
           let dflt = [Conv.n_of_int 100] and legacy = [Conv.n_of_int 108] in
           let rest = if leg = "1" then [(legacy, [o])] else [] in
           (match startup startup_ops dflt legacy dflt (to_fs dflt (crash_at fi c) rest) with
            | None -> "none"
            | Some s -> if s = replay [a] [] then "acknowledged" else if s = replay [o] [] then "legacy" else if s = [] then "empty" else "other")
       | _ -> "?bad crash point")
  | ["req"] -> if !r.r_shrinking then (r := do_ev !mk !mi !r Req; "ignored") else (start_rewrite (); "started " ^ gate ())
  | ["begin"] -> if !r.r_shrinking then "?already shrinking" else (start_rewrite (); gate ())
  | ["gate"] -> gate ()
  (* the next locked section: of the scan loops, then of the hooks phase *)
  | ["step"] ->
      (if sh_done !r.r_sh then hr := hdo_ev !hr HStep else r := do_ev !mk !mi !r Step);
      gate ()
  (* the final section has run and the deferred epilogue cleared flag and log *)
  | ["end"] -> r := end_rewrite !r; "ok"
  | ["out"] -> cmds_str !r.r_sh.sh_out
  | ["hout"] -> hcmds_str !hr.hr_sh.hs_out
  | ["log"] -> join (Stdlib.List.rev !merged)
  | ["live"] -> dump !r.r_live
  | ["hlive"] -> hdump !hr.hr_live
  | ["replayed"] -> dump (replay (newfile !r) [])
  | ["hreplayed"] -> hdump (hreplay (hnewfile !hr) [])
  | ["hreplayed_orig"] -> (match hreplay_orig (hnewfile !hr) [] with Some g -> hdump g | None -> "fatal")
  | ["ttl"; ex; now] -> Conv.string_of_z (obj_ttl_tenths (Conv.z_of_string ex) (Conv.z_of_string now))
  | ["hookttl"; ex; now] -> Conv.string_of_z (hook_ttl_tenths (Conv.z_of_string ex) (Conv.z_of_string now))
  | ["cpoints"] -> Stdlib.String.concat "," (Stdlib.List.map cp_name all_cpoints)
  (* crashdir <cpname>: which files exist after a crash there *)
  | ["crashdir"; name] ->
      (match Stdlib.List.filter (fun c -> cp_name c = name) all_cpoints with
       | [c] ->
           let fi = { f_live = []; f_pend = []; f_snap = []; f_slog = [] } in
           let d = crash_at fi c in
           Printf.sprintf "live=%s bak=%s shrink=%s" (present d.d_live) (present d.d_bak) (present d.d_shrink)
       | _ -> "?bad crash point")
  (* leftover <cpname>: files present after the repaired start-up on the directory a crash at
     <cpname> left, and after a complete second rewrite on it *)
  | ["leftover"; name] ->
      (match Stdlib.List.filter (fun c -> cp_name c = name) all_cpoints with
       | [c] ->
           let fi = { f_live = []; f_pend = []; f_snap = []; f_slog = [] } in
           let st d = Printf.sprintf "live=%s bak=%s shrink=%s" (present d.d_live) (present d.d_bak) (present d.d_shrink) in
           let d1 = startup_dir (crash_at fi c) in
           st d1 ^ " | " ^ st (rewrite_dir d1 fi)
       | _ -> "?bad crash point")
  | _ -> "?unknown"
