(* request handlers of the shrink model driver (C09); stateful: one scenario at a time *)
open Model

let hx = Conv.bytes_of_hex
let xh = Conv.hex_of_bytes

let mk = ref maxkeys
let mi = ref maxids
(* the whole server-side state of the model: live dataset, rewrite, shrinklog, shrinking flag *)
let r : run ref = ref (idle [])

let cmd_str = function
  | CSet (k, i, v) -> Printf.sprintf "set %s %s %s" (xh k) (xh i) (xh v)
  | CDel (k, i) -> Printf.sprintf "del %s %s" (xh k) (xh i)
  | CDrop k -> Printf.sprintf "drop %s" (xh k)
  | CRename (a, b) -> Printf.sprintf "rename %s %s" (xh a) (xh b)
  | CFlushdb -> "flushdb"

let cmds_str l = match l with [] -> "-" | _ -> Stdlib.String.concat "," (Stdlib.List.map cmd_str l)

let dump (s : st) =
  match flatten s with
  | [] -> "-"
  | l -> Stdlib.String.concat "," (Stdlib.List.map (fun ((k, i), v) -> Printf.sprintf "%s %s %s" (xh k) (xh i) (xh v)) l)

let gate () =
  let sh = !r.r_sh in
  if not !r.r_shrinking then "idle" else
  match sh.sh_pos with
  | AtKeys -> Printf.sprintf "keys %s -" (xh sh.sh_nextkey)
  | AtIds nid -> (match sh.sh_keys with
                  | [] -> "panic"
                  | k0 :: _ -> Printf.sprintf "ids %s %s" (xh k0) (xh nid))
  | ScanDone -> "scandone"

let parse_cmd toks =
  match toks with
  | ["set"; k; i; v] -> Some (CSet (hx k, hx i, hx v))
  | ["del"; k; i] -> Some (CDel (hx k, hx i))
  | ["drop"; k] -> Some (CDrop (hx k))
  | ["rename"; a; b] -> Some (CRename (hx a, hx b))
  | ["flushdb"] -> Some CFlushdb
  | _ -> None

let cp_name = function
  | CP_final_locked -> "final-locked" | CP_before_append -> "before-append" | CP_after_append -> "after-append"
  | CP_after_sync -> "after-sync" | CP_after_close_live -> "after-close-live" | CP_after_close_new -> "after-close-new"
  | CP_after_rename_bak -> "after-rename-bak" | CP_after_rename_live -> "after-rename-live"
  | CP_after_reopen -> "after-reopen" | CP_after_remove_bak -> "after-remove-bak"

let present = function Some _ -> "1" | None -> "0"

let handle (toks : Stdlib.String.t list) : Stdlib.String.t =
  match toks with
  | ["consts"] -> Printf.sprintf "%d %d" (Conv.int_of_nat maxkeys) (Conv.int_of_nat maxids)
  | ["new"] -> mk := maxkeys; mi := maxids; r := idle []; "ok"
  | ["new"; a; b] -> mk := Conv.nat_of_int (int_of_string a); mi := Conv.nat_of_int (int_of_string b); r := idle []; "ok"
  | "w" :: rest ->
      (match parse_cmd rest with
       | None -> "?bad command"
       | Some c ->
           let (_, o) = exec !r.r_live c in
           r := do_ev !mk !mi !r (W c);
           (match o with Updated -> "updated" | NotUpdated -> "notupdated" | ErrKeyNotFound -> "err:keynotfound"))
  (* an AOFSHRINK request: starts a rewrite, or is ignored while one is running *)
  | ["req"] -> let was = !r.r_shrinking in r := do_ev !mk !mi !r Req; if was then "ignored" else "started " ^ gate ()
  | ["begin"] -> if !r.r_shrinking then "?already shrinking" else (r := do_ev !mk !mi !r Req; gate ())
  | ["gate"] -> gate ()
  | ["step"] -> r := do_ev !mk !mi !r Step; gate ()
  (* the final section has run and the deferred epilogue cleared flag and log *)
  | ["end"] -> r := end_rewrite !r; "ok"
  | ["out"] -> cmds_str !r.r_sh.sh_out
  | ["log"] -> cmds_str !r.r_log
  | ["live"] -> dump !r.r_live
  | ["replayed"] -> dump (replay (newfile !r) [])
  | ["cpoints"] -> Stdlib.String.concat "," (Stdlib.List.map cp_name all_cpoints)
  (* crash <cpname>: directory after a crash there, for the current scenario with everything
     flushed (f_pend = []) and the live file = "the log so far"; reports which files exist and
     which file the repaired / original start-up loads *)
  | ["crashdir"; name] ->
      (match Stdlib.List.filter (fun c -> cp_name c = name) all_cpoints with
       | [c] ->
           let fi = { f_live = []; f_pend = []; f_snap = []; f_slog = [] } in
           let d = crash_at fi c in
           Printf.sprintf "live=%s bak=%s shrink=%s" (present d.d_live) (present d.d_bak) (present d.d_shrink)
       | _ -> "?bad crash point")
  (* leftover <cpname>: files present after the repaired start-up on the directory a crash at
     <cpname> left, and after a complete second rewrite on it *)
  | ["leftover"; name] ->
      (match Stdlib.List.filter (fun c -> cp_name c = name) all_cpoints with
       | [c] ->
           let fi = { f_live = []; f_pend = []; f_snap = []; f_slog = [] } in
           let st d = Printf.sprintf "live=%s bak=%s shrink=%s" (present d.d_live) (present d.d_bak) (present d.d_shrink) in
           let d1 = startup_dir (crash_at fi c) in
           st d1 ^ " | " ^ st (rewrite_dir d1 fi)
       | _ -> "?bad crash point")
  | _ -> "?unknown"
