(* Extraction of the AOFSHRINK model (C09). ExtrOcamlBasic only.
   Depends on the regenerated table Gen.ShrinkFinal (reserved field names) through Model.ShrinkLoad. *)
From Coq Require Import Extraction ExtrOcamlBasic ZArith NArith List.
From T38 Require Import Base.Bytes Base.SMap Model.Shrink Model.ShrinkBuf Model.ShrinkLoad.
Extraction Language OCaml.
Extraction "model.ml" Z.add Z.of_N Nat.add exec replay lookup logged shrink_init step sh_done
  newfile maxkeys maxids do_ev request end_rewrite idle run_init create_shrink write_snap crash_from rewrite_dir startup_dir hexec hreplay hreplay_orig hstep hdo_ev hrun_init hnewfile hlogged hs_done obj_ttl_tenths hook_ttl_tenths rec_cmd flatten crash_at recover_dir recover_dir_orig all_cpoints cp_index final_ops bstep blog crash_atb trim_ws exec_n norm enc dec coords startup startup_ops to_fs.
