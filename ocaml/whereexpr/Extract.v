(* Extraction of the WHERE "<expr>" model (C12). ExtrOcamlBasic only. *)
From Coq Require Import Extraction ExtrOcamlBasic.
From Coq Require Import ZArith.
From T38 Require Import Base.Bytes Model.Float32 Model.Where Model.WhereExpr Model.WhereExprF64 Model.WhereExprScan Model.WhereExprTree.
Extraction Language OCaml.
Extraction "model.ml" Z.add Z.of_N Nat.add eval match_expr f64_oracle f64_of_bits bits_of_f64 read_group
  parse_string detect_expr_token steps_of parse_float_dec fmt_f64 squash trim value_to_expr to_eobj
  scan_expr_ids clauses_match where_make read_ident unescape_string f_to_Z
  print wf den den_match.
