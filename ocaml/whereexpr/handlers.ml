(* request handlers of the WHERE "<expr>" model driver (C12)

   value tokens (same spelling as /repo/internal/server/verif_whereexpr.go):
     U  N  B0 B1  F<bits, decimal>  Fnan  I<dec>  W<dec>  S<hex>  C<hex>  OT  OJ<hex>  A<n>{:<hex>}
   field tokens are those of the glob driver:  <kind 0..5>:<data hex>:<num>
   an object is   <id hex> <type hex | ~> <String() hex> <nfields> {name val}
   oracle tables  <nrx> {pattern subject 1|0|e}  <ngl> {str pattern 1|0}  <njs> {raw path value}
                  <nmb> {object-id ident value|~}     (gjson.Get(Members(), ident); ~ = does not exist) *)
open Model
open Conv

let kind_of_string s =
  match s with
  | "0" -> KNull | "1" -> KFalse | "2" -> KNumber | "3" -> KString | "4" -> KTrue | "5" -> KJSON
  | _ -> failwith "bad kind"
let num_of_string s =
  match s with
  | "nan" -> NaN | "-inf" -> NegInf | "+inf" -> PosInf
  | _ -> Fin (z_of_string s)
let field_value_of_tok (t : string) : value =
  match Stdlib.String.split_on_char ':' t with
  | [k; d; n] -> { v_kind = kind_of_string k; v_data = bytes_of_hex d; v_num = num_of_string n }
  | _ -> failwith "bad value"

let rec take n l = if n <= 0 then ([], l) else
  match l with [] -> failwith "short" | x :: r -> let (a, b) = take (n - 1) r in (x :: a, b)

let sub_from s i = Stdlib.String.sub s i (Stdlib.String.length s - i)

let show_value v =
  match v with
  | VUndef -> "U" | VNull -> "N"
  | VBool b -> if b then "B1" else "B0"
  | VFloat f -> let z = bits_of_f64 f in (match z with Zneg _ -> "Fnan" | _ -> "F" ^ string_of_z z)
  | VInt z -> "I" ^ string_of_z z
  | VUint z -> "W" ^ string_of_z z
  | VStr s -> "S" ^ hex_of_bytes s
  | VFunc s -> "C" ^ hex_of_bytes s
  | VThis -> "OT"
  | VJson r -> "OJ" ^ hex_of_bytes r
  | VArr l -> Stdlib.String.concat ":" (("A" ^ string_of_int (Stdlib.List.length l)) :: Stdlib.List.map hex_of_bytes l)

let parse_value (t : string) =
  if t = "U" then VUndef else if t = "N" then VNull
  else if t = "B1" then VBool true else if t = "B0" then VBool false
  else if t = "Fnan" then VFloat (f64_of_bits (z_of_string "9221120237041090560"))
  else if t = "OT" then VThis
  else if Stdlib.String.length t >= 2 && Stdlib.String.sub t 0 2 = "OJ" then VJson (bytes_of_hex (sub_from t 2))
  else match t.[0] with
    | 'F' -> VFloat (f64_of_bits (z_of_string (sub_from t 1)))
    | 'I' -> VInt (z_of_string (sub_from t 1))
    | 'W' -> VUint (z_of_string (sub_from t 1))
    | 'S' -> VStr (bytes_of_hex (sub_from t 1))
    | 'C' -> VFunc (bytes_of_hex (sub_from t 1))
    | 'A' -> (match Stdlib.String.split_on_char ':' t with
              | _ :: items -> VArr (Stdlib.List.map bytes_of_hex items)
              | [] -> failwith "bad array")
    | _ -> failwith "bad value token"

let show_err e = match e with ESyntax -> "syntax" | EUndef -> "undef" | EOther -> "other"
let show_res show r =
  match r with
  | Ok v -> "ok " ^ show v
  | Err e -> "err " ^ show_err e
  | Panic -> "panic" | NoFuel -> "nofuel" | Outside -> "outside"

(* <id> <type|~> <str> <nfields> {name val} *)
let parse_sobj toks =
  match toks with
  | id :: ty :: str :: n :: r ->
      let (fl, rest) = take (2 * int_of_string n) r in
      let rec pairs l = match l with a :: b :: r -> (bytes_of_hex a, field_value_of_tok b) :: pairs r | _ -> [] in
      ({ so_id = bytes_of_hex id; so_type = (if ty = "~" then None else Some (bytes_of_hex ty));
         so_str = bytes_of_hex str; so_fields = pairs fl }, rest)
  | _ -> failwith "short object"

let beq (a : n list) (b : n list) = (a = b)

(* tables -> oracle *)
let parse_oracle toks =
  let triple k l = let rec go k l acc = if k = 0 then (Stdlib.List.rev acc, l) else
      match l with a :: b :: c :: r -> go (k - 1) r ((a, b, c) :: acc) | _ -> failwith "short table" in go k l [] in
  match toks with
  | [] -> (f64_oracle (fun _ _ -> None) (fun _ _ -> None) (fun _ _ -> None), (fun _ _ -> None), [])
  | nrx :: r ->
      let (rx, r) = triple (int_of_string nrx) r in
      (match r with
       | ngl :: r ->
           let (gl, r) = triple (int_of_string ngl) r in
           (match r with
            | njs :: r ->
                let (js, r) = triple (int_of_string njs) r in
                let rx = Stdlib.List.map (fun (a, b, c) -> (bytes_of_hex a, bytes_of_hex b, c)) rx in
                let gl = Stdlib.List.map (fun (a, b, c) -> (bytes_of_hex a, bytes_of_hex b, c)) gl in
                let js = Stdlib.List.map (fun (a, b, c) -> (bytes_of_hex a, bytes_of_hex b, parse_value c)) js in
                let frx p s = match Stdlib.List.find_opt (fun (a, b, _) -> beq a p && beq b s) rx with
                  | Some (_, _, "e") -> Some None | Some (_, _, c) -> Some (Some (c = "1")) | None -> None in
                let fgl s p = match Stdlib.List.find_opt (fun (a, b, _) -> beq a s && beq b p) gl with
                  | Some (_, _, c) -> Some (c = "1") | None -> None in
                let fjs raw path = match Stdlib.List.find_opt (fun (a, b, _) -> beq a raw && beq b path) js with
                  | Some (_, _, v) -> Some v | None -> None in
                (match r with
                 | nmb :: r ->
                     let (mb, r) = triple (int_of_string nmb) r in
                     let mb = Stdlib.List.map (fun (a, b, c) -> (bytes_of_hex a, bytes_of_hex b, c)) mb in
                     let fmb oid ident = match Stdlib.List.find_opt (fun (a, b, _) -> beq a oid && beq b ident) mb with
                       | Some (_, _, "~") -> Some None | Some (_, _, c) -> Some (Some (parse_value c)) | None -> None in
                     (f64_oracle frx fgl fjs, fmb, r)
                 | [] -> (f64_oracle frx fgl fjs, (fun _ _ -> None), []))
            | [] -> failwith "short tables")
       | [] -> failwith "short tables")

(* filter trees (Model.WhereExprTree), prefix notation:
     a f:<hex> | a n:<dec> | a s:<hex> | a t | a F | a 0        atoms (field, number, string, true, false, null)
     A <atom>                 BAtom
     C <lt|le|gt|ge|eq|ne> <atom> <atom>
     N <tree>     & <tree> <tree>     | <tree> <tree> *)
let parse_atom toks =
  match toks with
  | "a" :: t :: r ->
      let a =
        if t = "t" then ABool true else if t = "F" then ABool false else if t = "0" then ANull
        else match t.[0] with
          | 'f' -> AField (bytes_of_hex (sub_from t 2))
          | 'n' -> ANum (z_of_string (sub_from t 2))
          | 's' -> AStr (bytes_of_hex (sub_from t 2))
          | _ -> failwith "bad atom" in
      (a, r)
  | _ -> failwith "bad atom"
let cmp_of s = match s with
  | "lt" -> CLt | "le" -> CLe | "gt" -> CGt | "ge" -> CGe | "eq" -> CEq | "ne" -> CNe | _ -> failwith "bad cmp"
let rec parse_tree toks =
  match toks with
  | "A" :: r -> let (a, r) = parse_atom r in (BAtom a, r)
  | "C" :: op :: r -> let (a, r) = parse_atom r in let (b, r) = parse_atom r in (BCmp (cmp_of op, a, b), r)
  | "N" :: r -> let (x, r) = parse_tree r in (BNot x, r)
  | "&" :: r -> let (x, r) = parse_tree r in let (y, r) = parse_tree r in (BAnd (x, y), r)
  | "|" :: r -> let (x, r) = parse_tree r in let (y, r) = parse_tree r in (BOr (x, y), r)
  | _ -> failwith "bad tree"

let show_opt_group r = match r with
  | Ok g -> "ok " ^ hex_of_bytes g | Err e -> "err " ^ show_err e | Panic -> "panic" | NoFuel -> "nofuel" | Outside -> "outside"

let handle (toks : string list) : string =
  match toks with
  | "wx_eval" :: e :: rest ->
      (* wx_eval <expr> <object> [tables] -> ok <value> | err <kind> | panic | nofuel | outside *)
      let (o, rest) = parse_sobj rest in
      let (orc, mt, _) = parse_oracle rest in
      show_res show_value (eval orc (to_eobj orc (mt o.so_id) o) (bytes_of_hex e))
  | "wx_match" :: e :: rest ->
      let (o, rest) = parse_sobj rest in
      let (orc, mt, _) = parse_oracle rest in
      show_res bool_str (match_expr orc (to_eobj orc (mt o.so_id) o) (bytes_of_hex e))
  | "wx_scan" :: d :: nobj :: rest ->
      (* wx_scan <desc> <nobj> {object} <nclauses> {E <expr> | R <name> <minx> <min> <maxx> <max>} [tables]
         -> ok <count> {id} | ... ; objects in ascending id order *)
      let rec objs k l acc = if k = 0 then (Stdlib.List.rev acc, l) else
        let (o, r) = parse_sobj l in objs (k - 1) r (o :: acc) in
      let (os, rest) = objs (int_of_string nobj) rest [] in
      (match rest with
       | nc :: rest ->
           let rec cls k l acc = if k = 0 then (Stdlib.List.rev acc, l) else
             match l with
             | "E" :: e :: r -> cls (k - 1) r (WExpr (bytes_of_hex e) :: acc)
             | "R" :: name :: minx :: mn :: maxx :: mx :: r ->
                 cls (k - 1) r (WRange (bytes_of_hex name,
                   where_make (minx = "1") (field_value_of_tok mn) (maxx = "1") (field_value_of_tok mx)) :: acc)
             | _ -> failwith "bad clause" in
           let (cs, rest) = cls (int_of_string nc) rest [] in
           let (orc, mt, _) = parse_oracle rest in
           show_res (fun ids -> Stdlib.String.concat " " (string_of_int (Stdlib.List.length ids) :: Stdlib.List.map hex_of_bytes ids))
             (scan_expr_ids orc mt (d = "1") os cs)
       | [] -> failwith "short scan")
  | "tree_print" :: rest ->
      (* tree_print <tree> -> <wf 1|0> <text hex> *)
      let (t, _) = parse_tree rest in
      bool_str (wf t) ^ " " ^ hex_of_bytes (print t)
  | "tree_match" :: rest ->
      (* tree_match <tree> <object> [tables] -> den_match: ok 1|0 | ... *)
      let (t, rest) = parse_tree rest in
      let (o, rest) = parse_sobj rest in
      let (orc, mt, _) = parse_oracle rest in
      show_res bool_str (den_match orc (to_eobj orc (mt o.so_id) o) t)
  | ["read_group"; d] -> show_opt_group (read_group (bytes_of_hex d))
  | ["parse_string"; d] ->
      (match parse_string (bytes_of_hex d) with
       | Ok None -> "ok none"
       | Ok (Some (s, n)) -> Printf.sprintf "ok %s %d" (hex_of_bytes s) (int_of_nat n)
       | Err e -> "err " ^ show_err e | Panic -> "panic" | NoFuel -> "nofuel" | Outside -> "outside")
  | ["trim"; d] -> hex_of_bytes (trim (bytes_of_hex d))
  | ["steps_of"; d] -> string_of_int (int_of_n (steps_of (bytes_of_hex d)))
  | ["read_ident"; d] -> (match read_ident (bytes_of_hex d) with None -> "none" | Some i -> "ok " ^ hex_of_bytes i)
  | "detect" :: vs ->
      (match detect_expr_token (Stdlib.List.map bytes_of_hex vs) with
       | Ok b -> bool_str b | Panic -> "panic" | _ -> "?")
  | ["pf"; d] ->
      (* strconv.ParseFloat as the instance answers it: none (outside) | err | F<bits> *)
      (match parse_float_dec (bytes_of_hex d) with
       | None -> "none" | Some None -> "err" | Some (Some f) -> show_value (VFloat f))
  | ["ftoa"; b] ->
      (match fmt_f64 (f64_of_bits (z_of_string b)) with None -> "none" | Some s -> "ok " ^ hex_of_bytes s)
  | ["ftoi"; b] -> string_of_z (f_to_Z (f64_of_bits (z_of_string b)))
  | _ -> "?unknown"
