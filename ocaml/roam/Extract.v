(* Extraction of the roaming-fence model (C20). ExtrOcamlBasic only. *)
From Coq Require Import Extraction ExtrOcamlBasic.
From T38 Require Import Base.Bytes Model.Glob Model.Roam Model.Fence Model.HookReg Model.HookRegOps Model.RoamSet Model.HookDef Gen.HookEquals.
Extraction Language OCaml.
Extraction "model.ml" Z.add Z.of_N Nat.add is_glob roam_parse roam_msgs fence_match_roam round_mm scan_ids reg_run roam_hook selected set_details old_as_is hook_equals_by equals_checks.
