(* request handlers of the roam model driver (C20)
   roam <pattern> <radius> <nodwell> <detect_nil> <self> <has_old> { <id> <in_old> <in_new> <d_old> <d_new> <d_rev> }*
   geometry index 0 = previous position, 1 = new position, 2+k = k-th object of the roam
   collection (in the order given); distances are decimal integers ordering like the float64s
   isglob <pattern>   Model.Roam.is_glob (glob.IsGlob), "1" / "0" *)
open Model
open Conv

let handle (toks : string list) : string =
  match toks with
  | "roam" :: pat :: radius :: nodwell :: detnil :: self :: hasold :: rest ->
      let rec parse k l acc = match l with
        | id :: io :: inw :: dold :: dnew :: drev :: tl ->
            parse (k + 1) tl ((k, bytes_of_hex id, io = "1", inw = "1", z_of_string dold, z_of_string dnew, z_of_string drev) :: acc)
        | [] -> List.rev acc
        | _ -> failwith "bad neighbour record" in
      let nbs = parse 2 rest [] in
      let find k = List.find (fun (k', _, _, _, _, _, _) -> k' = k) nbs in
      let dist (a : int) (b : int) : z =
        if a = 0 && b >= 2 then (let (_, _, _, _, d, _, _) = find b in d)
        else if a = 1 && b >= 2 then (let (_, _, _, _, _, d, _) = find b in d)
        else if a >= 2 && b = 1 then (let (_, _, _, _, _, _, d) = find a in d)
        else failwith "distance not supplied" in
      let in_rect (c : int) (_ : z) (o : int) : bool =
        if c = 0 && o >= 2 then (let (_, _, i, _, _, _, _) = find o in i)
        else if c = 1 && o >= 2 then (let (_, _, _, i, _, _, _) = find o in i)
        else failwith "rect test not supplied" in
      let col = List.map (fun (k, id, _, _, _, _, _) -> { o_id = id; o_geo = k }) nbs in
      let sw = roam_parse (bytes_of_hex pat) (z_of_string radius) (nodwell = "1") (detnil = "1") in
      let selfid = bytes_of_hex self in
      let obj = { o_id = selfid; o_geo = 1 } in
      let old = if hasold = "1" then Some { o_id = selfid; o_geo = 0 } else None in
      (match roam_msgs dist in_rect col sw obj old with
       | None -> "FUEL"
       | Some l ->
           "ok" ^ String.concat "" (List.map (fun (k, m) ->
             Printf.sprintf " %s:%s:%s" (match k with Nearby -> "nearby" | Faraway -> "faraway")
               (hex_of_bytes m.m_id) (string_of_z m.m_meters)) l))
  | "regsel" :: name :: key :: ops ->
      (* is the hook <name> among getQueueCandidates' candidates for a SET on <key> after the history <ops>
         S,<name>,<chan>,<key>,<detect_nil>,<equal_prev>   SETCHAN / SETHOOK of a roaming fence
         D,<name>,<chan>   DELCHAN / DELHOOK        P,<prefix>,<chan>   PDELCHAN / PDELHOOK <prefix>*        F   FLUSHDB *)
      let rec is_prefix p l = match p, l with
        | [], _ -> true
        | x :: p', y :: l' -> x = y && is_prefix p' l'
        | _ -> false in
      let op t = match String.split_on_char ',' t with
        | ["S"; n; ch; k; dn; eq] -> RSet (roam_hook (bytes_of_hex n) (ch = "1") (bytes_of_hex k) (dn = "1"), eq = "1")
        | ["D"; n; ch] -> RDel (bytes_of_hex n, ch = "1")
        | ["P"; pre; ch] -> let pb = bytes_of_hex pre in RPDel ((fun n -> is_prefix pb n), ch = "1")
        | ["F"] -> RFlush
        | _ -> failwith "bad registry op" in
      let r = reg_run (List.map op ops) in
      let q = Some { minx = Z0; miny = Z0; maxx = Z0; maxy = Z0 } in
      if selected r (bytes_of_hex name) (bytes_of_hex key) q q then "1" else "0"
  | "setold" :: now :: id :: objs ->
      (* cmdSET's commandDetails.old (Model.RoamSet.set_details old_as_is) for a SET of <id> at clock <now> on the
         collection <objs> = <idhex>,<deadline or -> ... : "1" when there is a previous object, "0" otherwise *)
      let mk t = match String.split_on_char ',' t with
        | [i; d] -> { s_id = bytes_of_hex i; s_geo = (); s_exp = (if d = "-" then None else Some (z_of_string d)) }
        | _ -> failwith "bad stored object" in
      let col = List.map mk objs in
      let o = { s_id = bytes_of_hex id; s_geo = (); s_exp = None } in
      (match snd (set_details (fun n x -> old_as_is n x) (z_of_string now) col o) with Some _ -> "1" | None -> "0")
  | "hequals" :: rest ->
      (* Hook.Equals with the tests read from the source (Gen.HookEquals.equals_checks):
         hequals <key> <name> <expires> E <endpoint>* M <name>:<value>* A <arg>* / <the same for the second definition> *)
      let rec split_at sep acc = function
        | [] -> (List.rev acc, [])
        | x :: tl when x = sep -> (List.rev acc, tl)
        | x :: tl -> split_at sep (x :: acc) tl in
      let def toks = match toks with
        | k :: n :: x :: "E" :: tl ->
            let (eps, tl) = split_at "M" [] tl in
            let (ms, args) = split_at "A" [] tl in
            let meta t = match String.split_on_char ':' t with
              | [a; b] -> (bytes_of_hex a, bytes_of_hex b) | _ -> failwith "bad meta" in
            { hd_key = bytes_of_hex k; hd_name = bytes_of_hex n; hd_endpoints = List.map bytes_of_hex eps;
              hd_metas = List.map meta ms; hd_expires = z_of_string x; hd_args = List.map bytes_of_hex args }
        | _ -> failwith "bad definition" in
      let (a, b) = split_at "/" [] rest in
      if hook_equals_by equals_checks (def a) (def b) then "1" else "0"
  | ["isglob"; pat] -> if is_glob (bytes_of_hex pat) then "1" else "0"
  | ["round"; d] -> string_of_z (round_mm (z_of_string d))
  | "scan" :: mid :: scan :: ids ->
      "ok" ^ String.concat "" (List.map (fun (self, i) -> (if self then " self:" else " ") ^ hex_of_bytes i)
        (scan_ids (List.map bytes_of_hex ids) (bytes_of_hex mid) (bytes_of_hex scan)))
  | _ -> "?unknown"
