(* Extraction of the RESP / AOF-load / pipeline-reader models. ExtrOcamlBasic only. *)
From Coq Require Import Extraction ExtrOcamlBasic.
From T38 Require Import Base.Bytes Model.Resp Model.Aof Model.Pipeline.
Extraction Language OCaml.
Extraction "model.ml" Z.add Z.of_N Nat.add enc encs read_next load_aof load_aof_sz load_whole
  sniff read_cmd read_cmd_fixed rm_step conn_run http_parse sock_read_size pipeline_buf_size serve_reads.
