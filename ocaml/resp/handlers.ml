(* request handlers of the resp model driver (Model/Resp.v, Aof.v, Pipeline.v) *)
open Model
open Conv

let perr_str = function
  | EMultiBulk -> "multibulk"
  | EBulk -> "bulk"
  | EExpected c -> Printf.sprintf "expected:%d" (int_of_n c)
  | EMessage -> "message"
  | EQuotes -> "quotes"

let cerr_str = function
  | EParse e -> perr_str e
  | EPanicRecovered -> "recovered"
  | EHttp c -> Printf.sprintf "http:%d" (int_of_n c)

let args_str (args : n list list) : string =
  match args with
  | [] -> "_"
  | _ -> String.concat "," (List.map hex_of_bytes args)

let kind_str = function Redis -> "0" | Tile38 -> "1" | Telnet -> "2"
let ckind_str = function KRedis -> "0" | KNative -> "1" | KTelnet -> "2" | KHttp -> "9999"

let http_stub (p : n list) : cres = http_parse p

let msgs_str (ms : msg list) : string =
  match ms with
  | [] -> "."
  | _ -> String.concat " " (List.map (fun m -> ckind_str m.m_kind ^ ":" ^ args_str m.m_args) ms)

let load_str = function
  | Loaded (cmds, sz) ->
      Printf.sprintf "L %s %d%s" (string_of_z sz) (List.length cmds)
        (String.concat "" (List.map (fun c -> " " ^ args_str c) cmds))
  | LoadErr e -> "E " ^ perr_str e
  | LoadPanic -> "P"
  | LoadFuel -> "U"

let cres_str = function
  | CComplete (args, k, rest) -> Printf.sprintf "C %s %d %s" (ckind_str k) (List.length rest) (args_str args)
  | CIncomplete -> "I"
  | CErr e -> "E " ^ cerr_str e
  | CPanic -> "P"
  | CFuel -> "U"

let handle (toks : string list) : string =
  match toks with
  | ["rn"; p] ->
      (match read_next (bytes_of_hex p) with
       | Complete (args, k, rest) -> Printf.sprintf "C %s %d %s" (kind_str k) (List.length rest) (args_str args)
       | Incomplete -> "I"
       | Err e -> "E " ^ perr_str e
       | Panic -> "P"
       | Fuel -> "U")
  | "enc" :: args -> hex_of_bytes (enc (List.map bytes_of_hex args))
  | ["load"; f] -> load_str (load_aof (bytes_of_hex f))
  | ["loadw"; f] -> load_str (load_whole (bytes_of_hex f))
  | ["loadsz"; csz; f] -> load_str (load_aof_sz (nat_of_int (int_of_string csz)) (bytes_of_hex f))
  | ["sniff"; p] ->
      (match sniff (bytes_of_hex p) with
       | SIncomplete -> "I" | SHttp -> "H" | SRedcon -> "R" | SPanic -> "P")
  | ["rc"; fixed; p] ->
      let f = if fixed = "1" then read_cmd_fixed http_stub else read_cmd http_stub in
      cres_str (f (bytes_of_hex p))
  | ["sizes"] -> Printf.sprintf "%d %d" (int_of_n sock_read_size) (int_of_n pipeline_buf_size)
  | "serve" :: psz :: reads ->
      (match serve_reads (read_cmd_fixed http_stub) (nat_of_int (int_of_string psz)) (List.map bytes_of_hex reads) [] [] [] with
       | SOpen (ms, buf, parked) -> Printf.sprintf "O %d %d %s" (List.length buf) (List.length parked) (msgs_str ms)
       | SClosed (ms, e) -> Printf.sprintf "X %s %s" (cerr_str e) (msgs_str ms)
       | SCrashed -> "P"
       | SNoFuel -> "U")
  | ["http"; p] -> cres_str (http_parse (bytes_of_hex p))
  | "conn" :: fixed :: chunks ->
      let f = if fixed = "1" then read_cmd_fixed http_stub else read_cmd http_stub in
      (match conn_run f (List.map bytes_of_hex chunks) [] [] with
       | Open (ms, buf) -> Printf.sprintf "O %d %s" (List.length buf) (msgs_str ms)
       | Closed (ms, e) -> Printf.sprintf "X %s %s" (cerr_str e) (msgs_str ms)
       | Crashed -> "P"
       | NoFuel -> "U")
  | _ -> "?unknown"
