(* Extraction of the C12 selecting iterations (Model/GlobSel.v). ExtrOcamlBasic only. *)
From Coq Require Import Extraction ExtrOcamlBasic.
From T38 Require Import Base.Bytes Model.Glob Model.GlobSel Model.Resp Model.GlobSelEsc.
Extraction Language OCaml.
Extraction "model.ml" Z.add Z.of_N Nat.add multi_glob_parse scan_multi search_multi out_items out_count hook_walk pdel_hooks
  shortcut_count glob_test Z.to_N pdel_select transport_words.
