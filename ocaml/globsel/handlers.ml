(* request handlers of the C12 selection model driver (Model/GlobSel.v); stateless.
   every list reply is  <n> {item}  so that an empty list and the empty string stay apart *)
open Model
open Conv

let rec take n l = if n <= 0 then ([], l) else
  match l with [] -> failwith "short" | x :: r -> let (a, b) = take (n - 1) r in (x :: a, b)
let rec pairs f l = match l with a :: b :: r -> f a b :: pairs f r | [] -> [] | _ -> failwith "odd"
let list_reply (l : n list list) : string =
  Stdlib.String.concat " " (string_of_int (Stdlib.List.length l) :: Stdlib.List.map hex_of_bytes l)

let handle (toks : string list) : string =
  match toks with
  | "scan_multi" :: d :: lim :: ng :: rest ->
      (* scan_multi <desc> <limit> <nglobs> {glob} {id fok}   (ids in ascending order; fok = the
         verdict of the field filter on that object)  ->  <count of the COUNT form> <n> {id of the IDS form} *)
      let (gs, es) = take (int_of_string ng) rest in
      let es = pairs (fun i f -> (bytes_of_hex i, f = "1")) es in
      let fok id = (try Stdlib.List.assoc id es with Not_found -> false) in
      let globs = Stdlib.List.map bytes_of_hex gs in
      let limit = Z.to_N (z_of_string lim) in
      let ids = Stdlib.List.map fst es in
      let items = out_items (scan_multi globs fok limit false (d = "1") ids) in
      let cnt = out_count (scan_multi globs fok limit true (d = "1") ids) in
      string_of_z (Z.of_N cnt) ^ " " ^ list_reply items
  | "search_multi" :: d :: lim :: ng :: rest ->
      (* search_multi <desc> <limit> <nglobs> {glob} {value id fok}   (entries in (value, id) order) *)
      let (gs, es) = take (int_of_string ng) rest in
      let rec triples l = match l with v :: i :: f :: r -> ((bytes_of_hex v, bytes_of_hex i), f = "1") :: triples r
                                     | [] -> [] | _ -> failwith "triples" in
      let es = triples es in
      let fok e = (try Stdlib.List.assoc e es with Not_found -> false) in
      let globs = Stdlib.List.map bytes_of_hex gs in
      let limit = Z.to_N (z_of_string lim) in
      let vs = Stdlib.List.map fst es in
      let items = out_items (search_multi globs fok limit false (d = "1") vs) in
      let cnt = out_count (search_multi globs fok limit true (d = "1") vs) in
      string_of_z (Z.of_N cnt) ^ " " ^ list_reply (Stdlib.List.map snd items)
  | "multi_glob_parse" :: d :: ps ->
      let (a, b) = multi_glob_parse (Stdlib.List.map bytes_of_hex ps) (d = "1") in
      Printf.sprintf "%s %s" (hex_of_bytes a) (hex_of_bytes b)
  | "hook_walk" :: ch :: p :: es ->
      (* hook_walk <channel> <pattern> {name kind}   (entries in name order) *)
      list_reply (hook_walk (bytes_of_hex p) (ch = "1") (pairs (fun n k -> (bytes_of_hex n, k = "1")) es))
  | "pdel_hooks" :: ch :: p :: es ->
      (* -> <deleted> <nsurvivors> {name kind} *)
      let (cnt, rest) = pdel_hooks (bytes_of_hex p) (ch = "1") (pairs (fun n k -> (bytes_of_hex n, k = "1")) es) in
      Stdlib.String.concat " " (string_of_int (int_of_nat cnt) :: string_of_int (Stdlib.List.length rest) ::
        Stdlib.List.concat_map (fun (n, k) -> [hex_of_bytes n; bool_str k]) rest)
  | ["shortcut_count"; counter; cursor; limit] ->
      string_of_z (Z.of_N (shortcut_count (z_of_string counter)
         (Z.to_N (z_of_string cursor)) (Z.to_N (z_of_string limit))))
  | "pdel_select" :: p :: ids ->
      (* pdel_select <pattern> {id}   (ids in ascending order) -> <n> {deleted id} *)
      list_reply (pdel_select (bytes_of_hex p) (Stdlib.List.map bytes_of_hex ids))
  | ["transport_words"; line] ->
      (* the argument vector readNativeMessageLine makes of a command line -> <n> {arg} | panic | fuel *)
      (match transport_words (bytes_of_hex line) with
       | TOk args -> list_reply args
       | TPanic -> "panic"
       | TFuel -> "fuel")
  | _ -> "?unknown"
