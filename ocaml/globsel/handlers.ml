(* request handlers of the C12 selection model driver (Model/GlobSel.v); stateless.
   every list reply is  <n> {item}  so that an empty list and the empty string stay apart *)
open Model
open Conv

let rec take n l = if n <= 0 then ([], l) else
  match l with [] -> failwith "short" | x :: r -> let (a, b) = take (n - 1) r in (x :: a, b)
let rec pairs f l = match l with a :: b :: r -> f a b :: pairs f r | [] -> [] | _ -> failwith "odd"
let list_reply (l : n list list) : string =
  Stdlib.String.concat " " (string_of_int (Stdlib.List.length l) :: Stdlib.List.map hex_of_bytes l)

let handle (toks : string list) : string =
  match toks with
  | "scan_multi" :: d :: ng :: rest ->
      (* scan_multi <desc> <nglobs> {glob} {id}   (ids in ascending order) *)
      let (gs, ids) = take (int_of_string ng) rest in
      list_reply (scan_multi (Stdlib.List.map bytes_of_hex gs) (d = "1") (Stdlib.List.map bytes_of_hex ids))
  | "search_multi" :: d :: ng :: rest ->
      (* search_multi <desc> <nglobs> {glob} {value id}   (entries in (value, id) order) *)
      let (gs, vs) = take (int_of_string ng) rest in
      list_reply (search_multi (Stdlib.List.map bytes_of_hex gs) (d = "1")
                    (pairs (fun v i -> (bytes_of_hex v, bytes_of_hex i)) vs))
  | "multi_glob_parse" :: d :: ps ->
      let (a, b) = multi_glob_parse (Stdlib.List.map bytes_of_hex ps) (d = "1") in
      Printf.sprintf "%s %s" (hex_of_bytes a) (hex_of_bytes b)
  | "hook_walk" :: ch :: p :: es ->
      (* hook_walk <channel> <pattern> {name kind}   (entries in name order) *)
      list_reply (hook_walk (bytes_of_hex p) (ch = "1") (pairs (fun n k -> (bytes_of_hex n, k = "1")) es))
  | "pdel_hooks" :: ch :: p :: es ->
      (* -> <deleted> <nsurvivors> {name kind} *)
      let (cnt, rest) = pdel_hooks (bytes_of_hex p) (ch = "1") (pairs (fun n k -> (bytes_of_hex n, k = "1")) es) in
      Stdlib.String.concat " " (string_of_int (int_of_nat cnt) :: string_of_int (Stdlib.List.length rest) ::
        Stdlib.List.concat_map (fun (n, k) -> [hex_of_bytes n; bool_str k]) rest)
  | ["shortcut_count"; counter; cursor; limit] ->
      string_of_z (Z.of_N (shortcut_count (z_of_string counter)
         (Z.to_N (z_of_string cursor)) (Z.to_N (z_of_string limit))))
  | _ -> "?unknown"
