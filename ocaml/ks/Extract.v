(* Extraction of the keyspace model (C01 and the properties building on it). ExtrOcamlBasic only. *)
From Coq Require Import Extraction ExtrOcamlBasic.
From T38 Require Import Base.Bytes Base.SMap Model.Field Model.Object Model.Spec Model.Glob Model.Keyspace Model.FieldBin.
Extraction Language OCaml.
Extraction "model.ml" Z.add Z.of_N Nat.add
  exec sexec_cmd abs vis fl_set fl_get fl_get_old fl_scan fl_make
  make_head head_id head_expires put_varint varint is_json_number write_err lower
  str_equals_ci value_same is_zero
  bl_set bl_scan bl_len bl_get weight ptob lenN put_uv.
