(* request handlers of the keyspace model driver (cluster "ks").
   Oracles (opaque library behaviour) are tables filled by the harness on demand: a lookup that
   misses raises Need, the request answers "?need <oracle> <args>", the harness computes the value by
   calling the library directly (verifapi) and sends "orc <oracle> <args> = <value>", then repeats
   the request. The model state only changes when a request completes. *)
open Model
open Conv

exception Need of string

(* hex <-> bytes for long strings (a 2 MiB field value is a 2M-element list): the 256 byte values
   are shared, the hex text is built in a Buffer *)
let ntab = Array.init 256 n_of_int
let bytes_of_hex (s : string) : n list =
  if s = "-" then [] else begin
    let len = String.length s / 2 in
    let rec go i acc = if i < 0 then acc else
      go (i - 1) (ntab.(hexval s.[2*i] * 16 + hexval s.[2*i+1]) :: acc) in
    go (len - 1) []
  end
let hexdig = "0123456789abcdef"
let hex_of_bytes (b : n list) : string =
  match b with
  | [] -> "-"
  | _ ->
      let buf = Buffer.create 256 in
      List.iter (fun x -> let v = int_of_n x in
        if v > 255 then Buffer.add_string buf (Printf.sprintf "%02x" v)
        else begin Buffer.add_char buf hexdig.[v lsr 4]; Buffer.add_char buf hexdig.[v land 15] end) b;
      Buffer.contents buf

let tbl : (string, string list) Hashtbl.t = Hashtbl.create 4096
let h = hex_of_bytes
let look (name : string) (args : string list) : string list =
  let k = String.concat " " (name :: args) in
  match Hashtbl.find_opt tbl k with Some v -> v | None -> raise (Need k)

let value_of_toks = function
  | [k; d] -> { v_kind = n_of_int (int_of_string k); v_data = bytes_of_hex d }
  | _ -> failwith "bad value"

let geo_args (g : geo) = [bool_str g.g_spatial; h g.g_text]

let forc : foracle = {
  fo_valueof = (fun d -> value_of_toks (look "valueof" [h d]));
  fo_trim = (fun s -> match look "trim" [h s] with [x] -> bytes_of_hex x | _ -> failwith "bad trim");
  fo_gjson = (fun j p -> match look "gjson" [h j; h p] with ["none"] -> None | l -> Some (value_of_toks l));
}

let ores_of = function
  | ["ok"; x] -> OOk (bytes_of_hex x)
  | ["err"; x] -> OErr (bytes_of_hex x)
  | _ -> failwith "bad ores"

let orc : oracle = {
  o_f = forc;
  o_float_ok = (fun s -> look "float_ok" [h s] = ["1"]);
  o_dur = (fun s -> match look "dur" [h s] with [x] -> z_of_string x | _ -> failwith "bad dur");
  o_int = (fun s -> match look "int" [h s] with ["none"] -> None | [x] -> Some (z_of_string x) | _ -> failwith "bad int");
  o_uint = (fun s -> match look "uint" [h s] with ["none"] -> None | [x] -> Some (match z_of_string x with Z0 -> N0 | Zpos p -> Npos p | Zneg _ -> N0) | _ -> failwith "bad uint");
  o_lower = (fun s -> s);
  o_mkgeo = (fun k args ->
    match look "mkgeo" (string_of_int (int_of_n k) :: List.map h args) with
    | ["ok"; sp; t] -> GOk { g_spatial = (sp = "1"); g_text = bytes_of_hex t }
    | ["err"; m] -> GErr (bytes_of_hex m)
    | _ -> failwith "bad mkgeo");
  o_point = (fun g -> List.map bytes_of_hex (look "point" (geo_args g)));
  o_bounds = (fun g -> List.map bytes_of_hex (look "bounds" (geo_args g)));
  o_hash = (fun g p -> match look "hash" (geo_args g @ [string_of_z p]) with [x] -> bytes_of_hex x | _ -> failwith "bad hash");
  o_sjson_set = (fun raw j p v -> ores_of (look "sjson_set" [bool_str raw; h j; h p; h v]));
  o_sjson_del = (fun j p -> ores_of (look "sjson_del" [h j; h p]));
  o_jget = (fun j p raw ->
    match look "jget" [h j; (match p with None -> "~" | Some p -> h p); bool_str raw] with
    | ["none"] -> None | [x] -> Some (bytes_of_hex x) | _ -> failwith "bad jget");
}

(* canonical reply text, the same on the Go side *)
let rec show (r : reply) : string =
  match r with
  | RInt n -> "i" ^ string_of_z n
  | RBulk b -> "b" ^ h b
  | RNil -> "n"
  | RArr l -> "a(" ^ String.concat "," (List.map show l) ^ ")"
  | RErr m -> "e" ^ h m
  | ROk s -> "s" ^ h s
  | RUnmodelled -> "u"

let st : state ref = ref []
let sst : sstate ref = ref []

let env_of now flags hooks = {
  e_now = z_of_string now;
  e_follower = String.length flags > 0 && flags.[0] = '1';
  e_caughtup = String.length flags > 1 && flags.[1] = '1';
  e_readonly = String.length flags > 2 && flags.[2] = '1';
  e_hookkeys = hooks;
}

let has_deadline ex = match ex with Z0 -> "0" | _ -> "1"

let dump_fields (fs : flist) =
  String.concat "," (List.map (fun (n, v) -> h n ^ ":" ^ h v.v_data) (fl_scan fs))

let dump_impl () =
  String.concat ";" (List.concat_map (fun (k, c) ->
    List.map (fun (i, o) ->
      Printf.sprintf "k=%s i=%s o=%s f=%s d=%s" (h k) (h i) (h o.o_geo.g_text) (dump_fields o.o_fields) (has_deadline o.o_ex)) c) !st)
  ^ "|" ^ String.concat "," (List.map (fun (k, c) -> h k ^ ":" ^ string_of_int (List.length c)) !st)

let dump_spec () =
  String.concat ";" (List.concat_map (fun (k, c) ->
    List.map (fun (i, o) ->
      Printf.sprintf "k=%s i=%s o=%s f=%s d=%s" (h k) (h i) (h o.s_geo.g_text) (dump_fields o.s_fields) (has_deadline o.s_ex)) c) !sst)
  ^ "|" ^ String.concat "," (List.map (fun (k, c) -> h k ^ ":" ^ string_of_int (List.length c)) !sst)

let rec split_at_eq acc = function
  | [] -> (List.rev acc, [])
  | "=" :: r -> (List.rev acc, r)
  | x :: r -> split_at_eq (x :: acc) r

(* field list on the wire: name:kind:data,... ("." for the empty list) *)
let flist_of_string (s : string) : flist =
  if s = "." then [] else
  List.map (fun e -> match String.split_on_char ':' e with
    | [n; k; d] -> (bytes_of_hex n, { v_kind = n_of_int (int_of_string k); v_data = bytes_of_hex d })
    | _ -> failwith "bad flist") (String.split_on_char ',' s)
let string_of_flist (l : flist) : string =
  if l = [] then "." else
  String.concat "," (List.map (fun (n, v) -> Printf.sprintf "%s:%d:%s" (h n) (int_of_n v.v_kind) (h v.v_data)) l)
let show_field ((n, v) : field) = Printf.sprintf "%s:%d:%s" (h n) (int_of_n v.v_kind) (h v.v_data)


(* ---- packed field list ---- *)
let fbcur : n list option ref = ref None

(* data token: hex, or rep:<hexbyte>:<count> (count copies of one byte) *)
let fb_data (tok : string) : n list =
  match String.split_on_char ':' tok with
  | ["rep"; b; c] -> let x = ntab.(int_of_string ("0x" ^ b)) in List.init (int_of_string c) (fun _ -> x)
  | _ -> bytes_of_hex tok

(* long byte strings are shown as D<length>:<hash>:<hash>:<first 16>:<last 16> (the harness does the same) *)
let fb_digest (b : n list) : string =
  let len = List.length b in
  if len <= 2048 then h b else begin
    let h1 = ref 7 and h2 = ref 11 in
    List.iter (fun x -> let v = int_of_n x in
      h1 := (!h1 * 257 + v) mod 2147483647; h2 := (!h2 * 263 + v) mod 1000000007) b;
    let rec drop k l = if k <= 0 then l else match l with [] -> [] | _ :: r -> drop (k - 1) r in
    let first = List.filteri (fun i _ -> i < 16) (List.filteri (fun i _ -> i < 16) b) in
    Printf.sprintf "D%d:%d:%d:%s:%s" len !h1 !h2 (h first) (h (drop (len - 16) b))
  end

let fb_field ((n, v) : field) = Printf.sprintf "%s:%d:%s" (h n) (int_of_n v.v_kind) (fb_digest v.v_data)

let fb_sn : snames = {
  sn_store = (fun name -> match look "sstore" [h name] with [x] -> n_of_int (int_of_string x) | _ -> failwith "bad sstore");
  sn_load = (fun k -> match look "sload" [string_of_z (Z.of_N k)] with
                      | ["none"] -> None | [x] -> Some (bytes_of_hex x) | _ -> failwith "bad sload");
}

let fb_res (r : 'a res) (show : 'a -> string) : string =
  match r with Val a -> "ok " ^ show a | Crash -> "panic" | Wild -> "wild" | NoFuel -> "fuel"

let handle (toks : string list) : string =
  try
    match toks with
    | ["reset"] -> st := []; sst := []; "ok"
    | "orc" :: rest ->
        let (k, v) = split_at_eq [] rest in
        Hashtbl.replace tbl (String.concat " " k) v; "ok"
    | "exec" :: fixed :: now :: flags :: args ->
        let e = env_of now flags [] in
        let a = List.map bytes_of_hex args in
        let (ss', sr) = sexec_cmd orc e !sst a in
        (match exec orc (fixed = "1") e !st a with
         | Panic -> "PANIC S " ^ show sr
         | Done (s', r, log) ->
             st := s'; sst := ss';
             Printf.sprintf "R %s S %s L %d A %s" (show r) (show sr) (List.length log)
               (bool_str (abs s' = ss')))
    | ["dump"] -> dump_impl ()
    | ["sdump"] -> dump_spec ()
    | ["fl_set"; l; f] ->
        (match flist_of_string f with [fld] -> string_of_flist (fl_set (flist_of_string l) fld) | _ -> "?bad")
    | ["fl_get"; l; name] -> show_field (fl_get forc (flist_of_string l) (bytes_of_hex name))
    | ["fl_get_old"; l; name] -> show_field (fl_get_old forc (flist_of_string l) (bytes_of_hex name))
    | ["fl_scan"; l] -> string_of_flist (fl_scan (flist_of_string l))
    | ["head"; kind; id; ex] ->
        let hd = make_head (n_of_int (int_of_string kind)) (bytes_of_hex id) (z_of_string ex) in
        Printf.sprintf "%s %s %s" (h hd)
          (match head_id hd with Some i -> h i | None -> "panic")
          (match head_expires hd with Some x -> string_of_z x | None -> "panic")
    | ["head_dec"; hd] ->
        let hd = bytes_of_hex hd in
        Printf.sprintf "%s %s"
          (match head_id hd with Some i -> h i | None -> "panic")
          (match head_expires hd with Some x -> string_of_z x | None -> "panic")
    | ["is_json_number"; s] -> bool_str (is_json_number (bytes_of_hex s))
    | ["write_err"; c; m] -> h (write_err (bytes_of_hex c) (bytes_of_hex m))
    | ["str_equals_ci"; a; b] -> bool_str (str_equals_ci (bytes_of_hex a) (bytes_of_hex b))
    (* ---- packed field list (Model/FieldBin.v); the list under test is held here ---- *)
    | ["fb_reset"] -> fbcur := None; "ok"
    | ["fb_load"; raw] -> fbcur := (if raw = "nil" then None else Some (fb_data raw)); "ok"
    | ["fb_raw"] -> (match !fbcur with None -> "nil" | Some b -> fb_digest b)
    | ["fb_set"; peek; name; kind; data] ->
        fb_res (bl_set (n_of_int (int_of_string peek)) fb_sn !fbcur
                  (bytes_of_hex name, { v_kind = n_of_int (int_of_string kind); v_data = fb_data data }))
          (fun p -> fbcur := p; (match p with None -> "nil" | Some b -> fb_digest b))
    | ["fb_scan"; peek] ->
        fb_res (bl_scan (n_of_int (int_of_string peek)) fb_sn !fbcur)
          (fun l -> if l = [] then "." else String.concat "," (List.map fb_field l))
    | ["fb_get"; peek; name] ->
        fb_res (bl_get (n_of_int (int_of_string peek)) fb_sn forc !fbcur (bytes_of_hex name)) fb_field
    | ["fb_len"; peek] -> fb_res (bl_len (n_of_int (int_of_string peek)) !fbcur) (fun k -> string_of_z (Z.of_N k))
    | ["fb_weight"; peek] -> fb_res (weight (n_of_int (int_of_string peek)) !fbcur) (fun k -> string_of_z (Z.of_N k))
    | ["fb_header"; x] -> h (put_uv (match z_of_string x with Zpos p -> Npos p | _ -> N0))
    | _ -> "?unknown"
  with Need k -> "?need " ^ k
