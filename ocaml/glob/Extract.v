(* Extraction of the glob model. ExtrOcamlBasic only: bool, option, list, prod, unit, sumbool map
   to OCaml natives; N / positive / nat / Z stay Coq datatypes. *)
From Coq Require Import Extraction ExtrOcamlBasic.
From T38 Require Import Base.Bytes Base.Utf8 Model.Glob Model.Where.
Extraction Language OCaml.
Extraction "model.ml" Z.add Z.of_N Nat.add glob_match parse in_limits unlimited multi_glob_parse decode_rune
  value_less value_equals str_less_ci where_make match_field wherein_match get_field field_match scan_ids scan_count ZeroValue.
