(* request handlers of the glob model driver *)
open Model
open Conv

(* ---- WHERE / WHEREIN (Model.Where) ----
   a value is one token  <kind 0..5>:<data hex>:<num>  with num = nan | -inf | +inf | <thousandths> *)
let kind_of_string s =
  match s with
  | "0" -> KNull | "1" -> KFalse | "2" -> KNumber | "3" -> KString | "4" -> KTrue | "5" -> KJSON
  | _ -> failwith "bad kind"
let num_of_string s =
  match s with
  | "nan" -> NaN | "-inf" -> NegInf | "+inf" -> PosInf
  | _ -> Fin (z_of_string s)
let value_of_tok (t : string) : value =
  match Stdlib.String.split_on_char ':' t with
  | [k; d; n] -> { v_kind = kind_of_string k; v_data = bytes_of_hex d; v_num = num_of_string n }
  | _ -> failwith "bad value"
let rec take n l = if n <= 0 then ([], l) else
  match l with [] -> failwith "short" | x :: r -> let (a, b) = take (n - 1) r in (x :: a, b)
(* <nfields> {name val}  *)
let parse_fields toks =
  match toks with
  | n :: r ->
      let (fl, rest) = take (2 * int_of_string n) r in
      let rec pairs l = match l with a :: b :: r -> (bytes_of_hex a, value_of_tok b) :: pairs r | _ -> [] in
      (pairs fl, rest)
  | [] -> failwith "short"
(* <nwhere> {name minx min maxx max}  <nwherein> {name n {val}}  *)
let parse_filters toks =
  match toks with
  | nw :: r ->
      let rec wh k l acc = if k = 0 then (Stdlib.List.rev acc, l) else
        match l with
        | name :: minx :: mn :: maxx :: mx :: r ->
            wh (k - 1) r ((bytes_of_hex name, where_make (minx = "1") (value_of_tok mn) (maxx = "1") (value_of_tok mx)) :: acc)
        | _ -> failwith "short" in
      let (ws, r) = wh (int_of_string nw) r [] in
      (match r with
       | ni :: r ->
           let rec wi k l acc = if k = 0 then (Stdlib.List.rev acc, l) else
             match l with
             | name :: n :: r ->
                 let (vs, r) = take (int_of_string n) r in
                 wi (k - 1) r ((bytes_of_hex name, Stdlib.List.map value_of_tok vs) :: acc)
             | _ -> failwith "short" in
           let (wis, r) = wi (int_of_string ni) r [] in
           (ws, wis, r)
       | [] -> failwith "short")
  | [] -> failwith "short"

let handle (toks : string list) : string =
  match toks with
  | ["value_less"; a; b] -> bool_str (value_less (value_of_tok a) (value_of_tok b))
  | ["value_equals"; a; b] -> bool_str (value_equals (value_of_tok a) (value_of_tok b))
  | ["str_less_ci"; a; b] -> bool_str (str_less_ci (bytes_of_hex a) (bytes_of_hex b))
  | ["match_field"; minx; mn; maxx; mx; v] ->
      bool_str (match_field (where_make (minx = "1") (value_of_tok mn) (maxx = "1") (value_of_tok mx)) (value_of_tok v))
  | "wherein_match" :: v :: vals ->
      bool_str (wherein_match (Stdlib.List.map value_of_tok vals) (value_of_tok v))
  | "field_match" :: rest ->
      (* field_match <nfields> {name val} <nwhere> ... <nwherein> ... *)
      let (fs, rest) = parse_fields rest in
      let (ws, wis, _) = parse_filters rest in
      bool_str (field_match ws wis fs)
  | "where_scan" :: d :: nobj :: rest ->
      (* where_scan <desc> <nobj> {id <nfields> {name val}} <nwhere> ... <nwherein> ...
         -> <count> {id}  ; the objects must be given in ascending id order *)
      let rec objs k l acc = if k = 0 then (Stdlib.List.rev acc, l) else
        match l with
        | id :: r -> let (fs, r) = parse_fields r in objs (k - 1) r ((bytes_of_hex id, fs) :: acc)
        | [] -> failwith "short" in
      let (os, rest) = objs (int_of_string nobj) rest [] in
      let (ws, wis, _) = parse_filters rest in
      let ids = scan_ids (d = "1") os ws wis in
      let cnt = scan_count (d = "1") os ws wis in
      Stdlib.String.concat " " (string_of_int (int_of_nat cnt) :: Stdlib.List.map hex_of_bytes ids)
  | ["glob_match"; p; s] ->
      (match glob_match (bytes_of_hex p) (bytes_of_hex s) with
       | WTrue -> "T" | WFalse -> "F" | WBad -> "B" | WFuel -> "U")
  | ["glob_parse"; p; d] ->
      let g = parse (bytes_of_hex p) (d = "1") in
      Printf.sprintf "%s %s %s" (hex_of_bytes g.g_lim0) (hex_of_bytes g.g_lim1) (bool_str g.g_isglob)
  | ["glob_inlimits"; p; d; s] ->
      let g = parse (bytes_of_hex p) (d = "1") in
      bool_str (unlimited g || in_limits g (d = "1") (bytes_of_hex s))
  | "multi_glob_parse" :: d :: ps ->
      let (a, b) = multi_glob_parse (List.map bytes_of_hex ps) (d = "1") in
      Printf.sprintf "%s %s" (hex_of_bytes a) (hex_of_bytes b)
  | ["decode_rune"; s] ->
      let (r, n) = decode_rune (bytes_of_hex s) in
      Printf.sprintf "%d %d" (int_of_n r) (int_of_nat n)
  | _ -> "?unknown"
