(* request handlers of the glob model driver *)
open Model
open Conv

let handle (toks : string list) : string =
  match toks with
  | ["glob_match"; p; s] ->
      (match glob_match (bytes_of_hex p) (bytes_of_hex s) with
       | WTrue -> "T" | WFalse -> "F" | WBad -> "B" | WFuel -> "U")
  | ["glob_parse"; p; d] ->
      let g = parse (bytes_of_hex p) (d = "1") in
      Printf.sprintf "%s %s %s" (hex_of_bytes g.g_lim0) (hex_of_bytes g.g_lim1) (bool_str g.g_isglob)
  | ["glob_inlimits"; p; d; s] ->
      let g = parse (bytes_of_hex p) (d = "1") in
      bool_str (unlimited g || in_limits g (d = "1") (bytes_of_hex s))
  | "multi_glob_parse" :: d :: ps ->
      let (a, b) = multi_glob_parse (List.map bytes_of_hex ps) (d = "1") in
      Printf.sprintf "%s %s" (hex_of_bytes a) (hex_of_bytes b)
  | ["decode_rune"; s] ->
      let (r, n) = decode_rune (bytes_of_hex s) in
      Printf.sprintf "%d %d" (int_of_n r) (int_of_nat n)
  | _ -> "?unknown"
