#!/bin/sh
# ocaml/build.sh [name...] : extract the models of ocaml/<name>/Extract.v and build ocaml/<name>/driver.
# Without arguments every driver directory is built; a driver that fails to build is removed
# (so that a stale binary can never stand in for a model that no longer compiles) and the
# script exits non-zero after trying the others.
cd "$(dirname "$0")"
names="$*"
[ -z "$names" ] && names=$(for d in */Extract.v; do dirname "$d"; done)
rc=0
for n in $names; do
  (
    set -e
    cd "$n"
    rm -f driver
    cp ../conv.ml ../main.ml .
    coqc -Q ../../coq T38 Extract.v >/dev/null
    rm -f model.mli
    ocamlfind ocamlopt -O3 -w -a model.ml conv.ml handlers.ml main.ml -o driver 2>/dev/null || \
      ocamlfind ocamlopt -w -a model.ml conv.ml handlers.ml main.ml -o driver
  ) || { echo "ocaml/build.sh: driver '$n' FAILED" >&2; rm -f "$n/driver"; rc=1; }
done
exit $rc
