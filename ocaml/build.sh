#!/bin/sh
# extract the models and build the OCaml driver (run from anywhere)
set -e
cd "$(dirname "$0")"
coqc -Q ../coq T38 ../coq/Extract/Extract.v >/dev/null
rm -f model.mli
ocamlfind ocamlopt -O2 -w -a -package str model.ml conv.ml driver_ext.ml driver.ml -o driver 2>/dev/null || \
ocamlfind ocamlopt -w -a model.ml conv.ml driver_ext.ml driver.ml -o driver
