(* request handlers of the kNN model driver (C13)

   tree syntax (prefix, one token each):
     tree := L <n> { <id> <dist> }*n          a leaf with n items (id: small int, dist: integer)
           | N <n> { <lb> tree }*n            an inner node with n children, each with its key
           | E                                 tr.root == nil
   knn <tree>                                  -> "<id>:<dist>,..." | "-" | "FUEL"      (list queue)
   knnheap <tree>                              -> the same with the transcribed binary heap
   heap <key>...                               -> push the keys in this order, pop until empty:
                                                  the popped keys "k,k,..." (must be sorted)
   nearby <maxdist> <cursor> <limit> <mask> <tree>
        mask: letter a / r per item id (position = id), "-" = all accepted
        -> "<cursor> <id>:<dist>,..." | "FUEL"
   Items are (id, dist) with dist_item = snd; rectangles are their key, dist_rect = identity. *)
open Model
open Conv

let n_of_str (s : string) : n = Z.to_N (z_of_string s)
let str_of_n (x : n) : string = string_of_z (Z.of_N x)

type item = int * z

let rec parse_tree (toks : string list) : (item, z) tree option * string list =
  match toks with
  | "E" :: rest -> (None, rest)
  | _ -> let (t, rest) = parse_node toks in (Some t, rest)
and parse_node (toks : string list) : (item, z) tree * string list =
  match toks with
  | "L" :: n :: rest ->
      let rec go k rest acc =
        if k = 0 then (List.rev acc, rest) else
        match rest with
        | id :: d :: rest' -> go (k - 1) rest' ((z_of_int 0, (int_of_string id, z_of_string d)) :: acc)
        | _ -> failwith "bad leaf" in
      let (items, rest) = go (int_of_string n) rest [] in
      (Leaf items, rest)
  | "N" :: n :: rest ->
      let rec go k rest acc =
        if k = 0 then (List.rev acc, rest) else
        match rest with
        | lb :: rest' ->
            let (c, rest'') = parse_node rest' in
            go (k - 1) rest'' ((z_of_string lb, c) :: acc)
        | _ -> failwith "bad node" in
      let (cs, rest) = go (int_of_string n) rest [] in
      (Node cs, rest)
  | _ -> failwith "bad tree"

let dist_item (i : item) : z = snd i
let dist_rect (r : z) : z = r
let show (l : (item * z) list) : string =
  match l with
  | [] -> "-"
  | _ -> String.concat "," (List.map (fun ((id, _), k) -> Printf.sprintf "%d:%s" id (string_of_z k)) l)

let handle (toks : string list) : string =
  match toks with
  | "heap" :: keys ->
      let q = List.fold_left (fun q k -> heap_push q (z_of_string k, QItem (0, Z0))) [] keys in
      let rec drain q acc = match heap_pop q with
        | None -> List.rev acc
        | Some ((k, _), q') -> drain q' (string_of_z k :: acc) in
      (match drain q [] with [] -> "-" | l -> String.concat "," l)
  | "knnheap" :: t ->
      let (root, _) = parse_tree t in
      (match knn dist_item dist_rect heap_push heap_pop root with
       | Done l -> show l
       | OutOfFuel -> "FUEL")
  | "knn" :: t ->
      let (root, _) = parse_tree t in
      (match knn dist_item dist_rect list_push pop_min root with
       | Done l -> show l
       | OutOfFuel -> "FUEL")
  | "nearby" :: maxd :: cursor :: limit :: mask :: t ->
      let (root, _) = parse_tree t in
      let test (((id, _), _) : item * z) =
        mask = "-" || (id >= 0 && id < String.length mask && mask.[id] = 'a') in
      (match nearby_query dist_item dist_rect heap_push heap_pop test root (z_of_string maxd) (n_of_str cursor)
               (eff_limit (n_of_str limit)) with
       | Done (l, c) -> Printf.sprintf "%s %s" (str_of_n c) (show l)
       | OutOfFuel -> "FUEL")
  | _ -> "?unknown"
