(* Extraction of the NEARBY / kNN traversal model (C13). ExtrOcamlBasic only. *)
From Coq Require Import Extraction ExtrOcamlBasic ZArith NArith.
From T38 Require Import Model.Cursor Model.Knn.
Extraction Language OCaml.
Extraction "model.ml" Z.add Z.of_N Z.to_N Nat.add knn nearby_query pop_min list_push heap_push heap_pop eff_limit.
