(* request handlers of the cursor pagination model driver (C11)

   page  <limit> <cursor> <entries>      entries: one letter per index entry, in index order ("-" = none):
   pages <limit> <entries>                 a = accepted by the filters, r = rejected,
   unlimited <entries>                     s = the iterator's early exit fires at this entry
   count <limit> <cursor> <entries>        the integer a COUNT query answers (limit as given)
     replies:  page      -> "<cursor> <i,j,...>"   (0-based positions of the returned entries, "-" if none)
               pages     -> "<i,j,...>|<...>|..."  or "FUEL"
               unlimited -> "<i,j,...>"
   scan_range  <desc> <start> <end> <limit> <cursor> <mask> <id>...       ids ascending, hex
   search_range <desc> <start> <end> <limit> <cursor> <mask> <val>:<id>... entries in value/id order, hex
   nearby <maxdist> <limit> <cursor> <mask> <dist>...                       kNN order, integer distances
     mask: one letter per entry, a / r;   replies "<cursor> <i,j,...>" (positions in the given list) *)
open Model
open Conv

(* cursors and limits are uint64 on the wire: go through the arbitrary-precision Z *)
let n_of_str (s : string) : n = Z.to_N (z_of_string s)
let str_of_n (x : n) : string = string_of_z (Z.of_N x)

let entries_of (s : string) : (int * char) list =
  if s = "-" then [] else List.init (String.length s) (fun i -> (i, s.[i]))
let test_e (e : int * char) = snd e = 'a'
let stop_e (e : int * char) = snd e = 's'
let idxs (l : (int * char) list) : string =
  match l with [] -> "-" | _ -> String.concat "," (List.map (fun e -> string_of_int (fst e)) l)
let ints (l : int list) : string =
  match l with [] -> "-" | _ -> String.concat "," (List.map string_of_int l)

let index_of (x : 'a) (l : 'a list) : int =
  let rec go i = function [] -> -1 | y :: r -> if y = x then i else go (i + 1) r in go 0 l

let handle (toks : string list) : string =
  match toks with
  | ["page"; limit; cursor; es] ->
      let (items, c) = page test_e stop_e (entries_of es) (n_of_str cursor)
          (eff_limit (n_of_str limit)) in
      Printf.sprintf "%s %s" (str_of_n c) (idxs items)
  | ["pages"; limit; es] ->
      (match pages test_e stop_e (entries_of es) (eff_limit (n_of_str limit)) with
       | PagesFuel -> "FUEL"
       | Pages ps -> String.concat "|" (List.map idxs ps))
  | ["count"; limit; cursor; es] ->   (* COUNT output: the limit is taken as given (no default of 100) *)
      str_of_n (count_query test_e stop_e (entries_of es) (n_of_str cursor) (n_of_str limit))
  | ["unlimited"; es] -> idxs (unlimited test_e stop_e (entries_of es))
  | "scan_range" :: desc :: start :: end_ :: limit :: cursor :: mask :: ids ->
      let ids = List.map bytes_of_hex ids in
      let test id = let i = index_of id ids in i >= 0 && i < String.length mask && mask.[i] = 'a' in
      let (items, c) = scan_range_page test (desc = "1") (bytes_of_hex start) (bytes_of_hex end_) ids
          (n_of_str cursor) (eff_limit (n_of_str limit)) in
      Printf.sprintf "%s %s" (str_of_n c) (ints (List.map (fun id -> index_of id ids) items))
  | "search_range" :: desc :: start :: end_ :: limit :: cursor :: mask :: es ->
      let es = List.map (fun s -> match String.split_on_char ':' s with
          | [v; id] -> (bytes_of_hex v, bytes_of_hex id) | _ -> failwith "bad entry") es in
      let test e = let i = index_of e es in i >= 0 && i < String.length mask && mask.[i] = 'a' in
      let (items, c) = search_range_page test (desc = "1") (bytes_of_hex start) (bytes_of_hex end_) es
          (n_of_str cursor) (eff_limit (n_of_str limit)) in
      Printf.sprintf "%s %s" (str_of_n c) (ints (List.map (fun e -> index_of e es) items))
  | "nearby" :: maxd :: limit :: cursor :: mask :: ds ->
      (* entries are (position as a one-element byte string list is not needed: use the position
         encoded as bytes) *)
      let es = List.mapi (fun i d -> ([n_of_int i], z_of_string d)) ds in
      let test e = let i = index_of e es in i >= 0 && i < String.length mask && mask.[i] = 'a' in
      let (items, c) = nearby_page test (z_of_string maxd) es
          (n_of_str cursor) (eff_limit (n_of_str limit)) in
      Printf.sprintf "%s %s" (str_of_n c) (ints (List.map (fun e -> index_of e es) items))
  | _ -> "?unknown"
