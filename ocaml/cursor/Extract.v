(* Extraction of the cursor pagination model (C11). ExtrOcamlBasic only. *)
From Coq Require Import Extraction ExtrOcamlBasic.
From T38 Require Import Base.Bytes Model.Cursor.
Extraction Language OCaml.
Extraction "model.ml" Z.add Z.of_N Z.to_N Nat.add page pages unlimited eff_limit count_query count_shortcut
  scan_page scan_range_page search_page search_range_page geo_page nearby_page.
