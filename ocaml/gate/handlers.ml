(* request handlers of the gate model driver *)
open Model

let coq_string_of (s : Stdlib.String.t) : Model.string =
  let n = Stdlib.String.length s in
  let rec go i = if i >= n then EmptyString else
    let c = Stdlib.Char.code s.[i] in
    let b k = (c lsr k) land 1 = 1 in
    String (Ascii (b 0, b 1, b 2, b 3, b 4, b 5, b 6, b 7), go (i + 1)) in
  go 0

let ocaml_string_of (s : Model.string) : Stdlib.String.t =
  let buf = Buffer.create 16 in
  let rec go s = match s with
    | EmptyString -> ()
    | String (Ascii (b0, b1, b2, b3, b4, b5, b6, b7), r) ->
        let v x k = if x then 1 lsl k else 0 in
        Buffer.add_char buf (Stdlib.Char.chr (v b0 0 + v b1 1 + v b2 2 + v b3 3 + v b4 4 + v b5 5 + v b6 6 + v b7 7));
        go r in
  go s; Buffer.contents buf

let b s = s = "1"
let unhex (h : Stdlib.String.t) : Model.string =
  if h = "-" then coq_string_of "" else
  coq_string_of (Stdlib.String.init (Stdlib.String.length h / 2) (fun i -> Stdlib.Char.chr (Conv.hexval h.[2*i] * 16 + Conv.hexval h.[2*i+1])))
(* names are sent with '_' for ' ' (e.g. config_get) *)
let name s = coq_string_of (Stdlib.String.map (fun c -> if c = '_' then ' ' else c) s)
let lock_str = function LExcl -> "excl" | LShared -> "shared" | LNone -> "none"
let err_str = function
  | ELoading -> "loading" | EUnknownCmd -> "unknown" | EAuthRequired -> "authrequired"
  | EInvalidPassword -> "invalidpassword" | ENotLeader -> "notleader" | EReadOnly -> "readonly"
  | ECatchingUp -> "catchingup"

let handle (toks : Stdlib.String.t list) : Stdlib.String.t =
  match toks with
  (* gate outer inner loading follower caughtup readonly requirepass authd httpauth(n|0|1) authargok *)
  | ["gate"; outer; inner; lo; fo; cu; ro; rp; au; ha; ao] ->
      let e = { e_loading = b lo; e_follower = b fo; e_caughtup = b cu; e_readonly = b ro; e_requirepass = b rp } in
      let k = { k_authd = b au; k_http_auth = (match ha with "n" -> None | x -> Some (b x)); k_auth_arg_ok = b ao } in
      (match gate (name outer) (name inner) e k with
       | VEarly -> "early"
       | VErr er -> "err:" ^ err_str er
       | VAuthOK -> "authok"
       | VRun (l, w, fn) -> Printf.sprintf "run:%s:%s:%s" (lock_str l) (if w then "w" else "r") (ocaml_string_of fn))
  | ["script_gate"; variant; c; fo; cu; ro] ->
      let t = (match variant with "rw" -> script_rw | "ro" -> script_ro | _ -> script_na) in
      let e = { e_loading = false; e_follower = b fo; e_caughtup = b cu; e_readonly = b ro; e_requirepass = false } in
      (match script_gate t (name c) e with
       | SErrNotSupported -> "err:notsupported" | SErrReadOnly -> "err:readonly" | SErrNotLeader -> "err:notleader"
       | SErrCatchingUp -> "err:catchingup" | SErrUnknown -> "err:unknown"
       | SRun (l, w, fn) -> Printf.sprintf "run:%s:%s:%s" (lock_str l) (if w then "w" else "r") (ocaml_string_of fn))
  | ["changes"; c] -> Conv.bool_str (changes (name c))
  | ["reads_objects"; c] -> Conv.bool_str (reads_objects (name c))
  | ["changes_script"; c] -> Conv.bool_str (changes_script (name c))
  | ["reads_objects_script"; c] -> Conv.bool_str (reads_objects_script (name c))
  | ["all_commands"] -> Stdlib.String.concat "," (Stdlib.List.map ocaml_string_of all_command_names)
  | ["lua_names"] -> Stdlib.String.concat "," (Stdlib.List.map ocaml_string_of lua_names)
  | ["lua_globals"] -> Stdlib.String.concat "," (Stdlib.List.map ocaml_string_of (Stdlib.List.append lua_set_globals lua_base_fns))
  | ["lua_os"] -> Stdlib.String.concat "," (Stdlib.List.map ocaml_string_of lua_os_fns)
  | ["lua_tile38"] -> Stdlib.String.concat "," (Stdlib.List.map ocaml_string_of lua_tile38_exports)
  | ["lua_documented"] -> Stdlib.String.concat "," (Stdlib.List.map ocaml_string_of documented_allow)
  | ["lua_dangerous"] -> Stdlib.String.concat "," (Stdlib.List.map ocaml_string_of dangerous_names)
  | ["dev_only"] -> Stdlib.String.concat "," (Stdlib.List.map ocaml_string_of dev_only)
  (* role state (Model/RoleState.v); byte strings travel as hex, "-" = empty *)
  | ["readonly_cmd"; a; ro] ->
      (match readonly_cmd (unhex a) (b ro) with
       | (RoOK, r) -> "ok:" ^ Conv.bool_str r
       | (RoInvalid, r) -> "invalid:" ^ Conv.bool_str r)
  (* prun <event>... from the default state; event = s:<hex value> (CONFIG SET protected-mode) | w (REWRITE) | r (restart);
     reply: <stored mode, hex> <isProtected without password, default options> *)
  | "prun" :: evs ->
      let ev e = if e = "w" then PRewrite else if e = "r" then PRestart
        else PSet (unhex (Stdlib.String.sub e 2 (Stdlib.String.length e - 2))) in
      let st = prun (Stdlib.List.map ev evs) pstate0 in
      let m = ocaml_string_of st.p_mode in
      (if m = "" then "-" else Stdlib.String.concat "" (Stdlib.List.map (fun c -> Printf.sprintf "%02x" (Stdlib.Char.code c)) (Stdlib.List.of_seq (Stdlib.String.to_seq m))))
      ^ " " ^ Conv.bool_str (is_protected false false st.p_mode false)
  (* follow <pos> <aof_size> <hex command word>:<wire length>... : was setCaughtUp(true) called *)
  | "follow" :: pos :: aofsize :: msgs ->
      let msg t = (match Stdlib.String.split_on_char ':' t with
        | [c; l] -> { fm_cmd = unhex c; fm_len = Conv.z_of_string l; fm_logged = true }
        | _ -> failwith "bad message") in
      Conv.bool_str (follow_session (Conv.z_of_string pos) (Conv.z_of_string aofsize) (Stdlib.List.map msg msgs))
  | ["lower"; a] -> let m = ocaml_string_of (lower (unhex a)) in
      if m = "" then "-" else Stdlib.String.concat "" (Stdlib.List.map (fun c -> Printf.sprintf "%02x" (Stdlib.Char.code c)) (Stdlib.List.of_seq (Stdlib.String.to_seq m)))
  | _ -> "?unknown"
