(* Extraction of the gate model over the regenerated tables. ExtrOcamlBasic only. *)
From Coq Require Import Extraction ExtrOcamlBasic String ZArith NArith.
From T38 Require Import Model.Tables Model.Gate Gen.ScriptTables Gen.Dispatch Gen.AuthGate.
Extraction Language OCaml.
Extraction "model.ml" Z.add Z.of_N Nat.add gate script_gate script_rw script_ro script_na changes reads_objects
  changes_script reads_objects_script all_command_names dev_only auth_exempt early_reply_cmds.
