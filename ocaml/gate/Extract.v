(* Extraction of the gate model over the regenerated tables. ExtrOcamlBasic only. *)
From Coq Require Import Extraction ExtrOcamlBasic String ZArith NArith.
From T38 Require Import Model.Tables Model.Gate Model.Sandbox Gen.ScriptTables Gen.Dispatch Gen.AuthGate Gen.LuaAllow
  Model.RoleTypes Gen.RoleGates Model.RoleState.
Extraction Language OCaml.
Extraction "model.ml" Z.add Z.of_N Nat.add gate script_gate script_rw script_ro script_na changes reads_objects
  changes_script reads_objects_script all_command_names dev_only auth_exempt early_reply_cmds
  lua_names documented_allow dangerous_names lua_set_globals lua_os_fns lua_tile38_exports lua_base_fns
  readonly_cmd prun pstate0 is_protected follow_session lower.
