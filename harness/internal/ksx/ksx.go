// Package ksx drives an extracted keyspace model (ocaml/ks, ocaml/ksreply) whose opaque library
// behaviour is a set of oracle tables filled on demand: a request that needs a value answers
// "?need <oracle> <args>", the value is computed here by calling the library directly through
// /repo/verifapi (never through the server path under test) and sent back as
// "orc <oracle> <args> = <value>", then the request is repeated.  Same protocol and the same
// oracle computations as harness/cmd/c01.
package ksx

import (
	"strconv"
	"strings"
	"time"

	"github.com/tidwall/tile38/verifapi"
	"verifharness/internal/model"
)

func hexs(ss []string) []string {
	out := make([]string, len(ss))
	for i, s := range ss {
		out[i] = model.H(s)
	}
	return out
}

func oerr(s string, err error) []string {
	if err != nil {
		return []string{"err", model.H(err.Error())}
	}
	return []string{"ok", model.H(s)}
}

// Resolve computes one oracle value by calling the library directly.
func Resolve(name string, a []string) []string {
	u := make([]string, len(a))
	for i := range a {
		if len(a[i])%2 == 0 || a[i] == "-" {
			func() {
				defer func() { recover() }()
				u[i] = model.U(a[i])
			}()
		}
	}
	switch name {
	case "valueof":
		k, d := verifapi.KsValueOf(u[0])
		return []string{strconv.Itoa(k), model.H(d)}
	case "trim":
		return []string{model.H(strings.TrimSpace(u[0]))}
	case "gjson":
		ok, k, s, _ := verifapi.KsGjsonGet(u[0], u[1])
		if !ok {
			return []string{"none"}
		}
		return []string{strconv.Itoa(k), model.H(s)}
	case "float_ok":
		_, err := strconv.ParseFloat(u[0], 64)
		return []string{model.B(err == nil)}
	case "dur":
		x, _ := strconv.ParseFloat(u[0], 64)
		return []string{strconv.FormatInt(int64(float64(time.Second)*x), 10)}
	case "int":
		n, err := strconv.ParseInt(u[0], 10, 64)
		if err != nil {
			return []string{"none"}
		}
		return []string{strconv.FormatInt(n, 10)}
	case "uint":
		n, err := strconv.ParseUint(u[0], 10, 64)
		if err != nil {
			return []string{"none"}
		}
		return []string{strconv.FormatUint(n, 10)}
	case "mkgeo":
		kind, _ := strconv.Atoi(a[0])
		args := make([]string, len(a)-1)
		for i := range args {
			args[i] = model.U(a[i+1])
		}
		sp, text, err := verifapi.KsMakeGeo(kind, args)
		if err != nil {
			return []string{"err", model.H(err.Error())}
		}
		return []string{"ok", model.B(sp), model.H(text)}
	case "point":
		return hexs(verifapi.KsGeoPoint(a[0] == "1", u[1]))
	case "bounds":
		return hexs(verifapi.KsGeoBounds(a[0] == "1", u[1]))
	case "hash":
		p, _ := strconv.Atoi(a[2])
		return []string{model.H(verifapi.KsGeoHash(a[0] == "1", model.U(a[1]), p))}
	case "sjson_set":
		return oerr(verifapi.KsSjsonSet(a[0] == "1", u[1], u[2], u[3]))
	case "sjson_del":
		return oerr(verifapi.KsSjsonDelete(u[0], u[1]))
	case "jget":
		var ok bool
		var s, raw string
		if a[1] == "~" {
			ok, s, raw = verifapi.KsGjsonParse(u[0])
		} else {
			ok, _, s, raw = verifapi.KsGjsonGet(u[0], u[1])
		}
		if !ok {
			return []string{"none"}
		}
		if a[2] == "1" {
			return []string{model.H(raw)}
		}
		return []string{model.H(s)}
	}
	panic("unknown oracle " + name)
}

// Mdl is a model driver with on-demand oracles.
type Mdl struct {
	Drv  *model.Driver
	NOrc int
	// Seen is called with every oracle answer (name, decoded-as-sent arguments, value tokens) the first
	// time it is computed: the place to check what the theorems assume about library output.
	Seen func(name string, args, val []string)
}

// Start launches ocaml/<name>/driver.
func Start(name string) (*Mdl, error) {
	d, err := model.Start(name)
	if err != nil {
		return nil, err
	}
	return &Mdl{Drv: d}, nil
}

func (m *Mdl) Close() { m.Drv.Close() }

// Ask sends one request, answering the oracle questions it raises.
func (m *Mdl) Ask(toks ...string) string {
	for i := 0; i < 10000; i++ {
		r := m.Drv.Ask(toks...)
		if !strings.HasPrefix(r, "?need ") {
			return r
		}
		need := strings.Fields(r[len("?need "):])
		val := Resolve(need[0], need[1:])
		m.NOrc++
		if m.Seen != nil {
			m.Seen(need[0], need[1:], val)
		}
		line := append([]string{"orc"}, need...)
		line = append(line, "=")
		line = append(line, val...)
		m.Drv.Ask(line...)
	}
	panic("oracle loop")
}
