package respgen

import (
	"fmt"
	"net"
	"os"
	"strconv"
	"strings"
	"sync/atomic"

	"verifharness/internal/srv"
)

var nextPort int32

// ownPort hands out ports below the ephemeral range (other checks running in parallel take
// theirs from the kernel's ephemeral range).
func ownPort() int {
	if atomic.LoadInt32(&nextPort) == 0 {
		atomic.CompareAndSwapInt32(&nextPort, 0, int32(10000+(os.Getpid()*37)%18000))
	}
	for i := 0; i < 500; i++ {
		p := int(atomic.AddInt32(&nextPort, 1))
		if p > 31000 {
			atomic.StoreInt32(&nextPort, 10000)
			continue
		}
		l, err := net.Listen("tcp", "127.0.0.1:"+strconv.Itoa(p))
		if err != nil {
			continue
		}
		l.Close()
		return p
	}
	return srv.FreePort()
}

// StartServer starts a server and makes sure the process answering on the port is the one
// just started (SERVER reports its pid); a start that lost the race for its port is retried.
// prep is called before every attempt (e.g. to write the data directory).
func StartServer(dir string, prep func() error, extra ...string) (*srv.Server, error) {
	var lastErr error
	for try := 0; try < 5; try++ {
		if prep != nil {
			if err := prep(); err != nil {
				return nil, err
			}
		}
		s, err := srv.StartPort(dir, ownPort(), extra...)
		if err != nil {
			lastErr = err
			if s != nil && s.Alive() {
				s.Kill()
			}
			if strings.Contains(err.Error(), "address already in use") || strings.Contains(err.Error(), "bind:") {
				continue
			}
			return s, err
		}
		if pidOf(s) == s.Cmd.Process.Pid && s.Alive() {
			return s, nil
		}
		lastErr = fmt.Errorf("port %d is answered by another process", s.Port)
		s.Kill()
	}
	return nil, lastErr
}

func pidOf(s *srv.Server) int {
	c, err := s.Dial()
	if err != nil {
		return -1
	}
	defer c.Close()
	v, err := c.Do("SERVER")
	if err != nil {
		return -1
	}
	for i := 0; i+1 < len(v.Array); i += 2 {
		if v.Array[i].Str == "pid" {
			if v.Array[i+1].Kind == ':' {
				return int(v.Array[i+1].Int)
			}
			n, _ := strconv.Atoi(v.Array[i+1].Str)
			return n
		}
	}
	return -1
}
