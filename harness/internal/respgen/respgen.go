// Package respgen holds the generators and the model/implementation diff of the command
// framing parser shared by the C04 and C16 harnesses.
package respgen

import (
	"fmt"
	"math/rand"
	"strconv"
	"strings"

	"github.com/tidwall/tile38/verifapi"
	"verifharness/internal/hx"
	"verifharness/internal/model"
)

// ArgAlphabet: binary-safe argument bytes, including the framing characters.
var ArgAlphabet = []string{"a", "b", "k", "1", "7", "\r", "\n", "\r\n", "*", "$", "\x00", " ", "\"", "'", "\\", "{", "\xff", "é", "SET", "string"}

func RandArg(rng *rand.Rand, maxLen int) string {
	n := rng.Intn(maxLen + 1)
	var sb strings.Builder
	for i := 0; i < n; i++ {
		sb.WriteString(ArgAlphabet[rng.Intn(len(ArgAlphabet))])
	}
	return sb.String()
}

// Encode = redcon.AppendArray + AppendBulkString (through the real code).
func Encode(args ...string) []byte { return verifapi.AppendCommand(nil, args) }

func RandArgs(rng *rand.Rand) []string {
	n := 1 + rng.Intn(5)
	if rng.Intn(20) == 0 {
		n = 10 + rng.Intn(8)
	}
	args := make([]string, n)
	for i := range args {
		args[i] = RandArg(rng, 6)
	}
	return args
}

var interesting = []string{"-1", "-2", "-3", "-100", "-9", "0", "1", "2", "00", "-", "--1", "+1", "9223372036854775807", "9223372036854775806",
	"9223372036854775805", "9223372036854775808", "-9223372036854775808", "18446744073709551615", "18446744073709551614", "4611686018427387904",
	"2147483648", "-2147483648", "99999999999999999999", "1a", " 1", ""}

var rawAlphabet = []string{"*", "$", "\r", "\n", "\r\n", " ", "0", "1", "2", "3", "-", "\"", "'", "\\", "{", "a", "b", "set", "SET", "string", "STRING", "\x00", "\xff", "\xc4\xb0", "G", "P", "O", " HTTP/1.1", "/"}

func telnetLine(rng *rand.Rand) string {
	var sb strings.Builder
	n := 1 + rng.Intn(4)
	for i := 0; i < n; i++ {
		if i > 0 {
			sb.WriteString(strings.Repeat(" ", 1+rng.Intn(2)))
		}
		w := strings.NewReplacer("\r", "r", "\n", "n").Replace(RandArg(rng, 4))
		switch rng.Intn(4) {
		case 0:
			sb.WriteString("\"" + w + "\"")
		case 1:
			sb.WriteString("'" + w + "\\n\\x'")
		default:
			sb.WriteString(w)
		}
	}
	if rng.Intn(2) == 0 {
		sb.WriteString("\r")
	}
	sb.WriteString("\n")
	return sb.String()
}

func nativeLine(rng *rand.Rand) string {
	words := []string{"set", "SET", "k", "id", "string", "STRING", "strİng", "\"", "\"v w\"", "\"\"", "{\"a\": 1}", "", "x y", "point", "1", "{", "a\"", "\"a"}
	n := 1 + rng.Intn(6)
	var parts []string
	for i := 0; i < n; i++ {
		parts = append(parts, words[rng.Intn(len(words))])
	}
	line := strings.Join(parts, " ")
	ln := strconv.Itoa(len(line))
	switch rng.Intn(12) {
	case 0:
		ln = interesting[rng.Intn(len(interesting))]
	case 1:
		ln = strconv.Itoa(len(line) + rng.Intn(3) - 1)
	}
	return "$" + ln + " " + line + "\r\n"
}

// Mutate applies one random mutation to a byte string.
func Mutate(rng *rand.Rand, b []byte) []byte {
	b = append([]byte(nil), b...)
	if len(b) == 0 {
		return []byte(rawAlphabet[rng.Intn(len(rawAlphabet))])
	}
	switch rng.Intn(8) {
	case 0: // truncate
		return b[:rng.Intn(len(b))]
	case 1: // flip a byte
		b[rng.Intn(len(b))] = byte(rng.Intn(256))
	case 2: // insert
		i := rng.Intn(len(b) + 1)
		ins := rawAlphabet[rng.Intn(len(rawAlphabet))]
		b = append(b[:i], append([]byte(ins), b[i:]...)...)
	case 3: // delete
		i := rng.Intn(len(b))
		b = append(b[:i], b[i+1:]...)
	case 4, 5: // replace a length field
		var pos []int
		for i, c := range b {
			if (c == '$' || c == '*') && (i == 0 || b[i-1] == '\n') {
				pos = append(pos, i)
			}
		}
		if len(pos) > 0 {
			i := pos[rng.Intn(len(pos))]
			j := i + 1
			for j < len(b) && b[j] != '\r' && b[j] != ' ' {
				j++
			}
			v := interesting[rng.Intn(len(interesting))]
			b = append(b[:i+1], append([]byte(v), b[j:]...)...)
		}
	case 6: // drop a CR
		for i, c := range b {
			if c == '\r' && rng.Intn(3) == 0 {
				b = append(b[:i], b[i+1:]...)
				break
			}
		}
	case 7: // append junk
		b = append(b, rawAlphabet[rng.Intn(len(rawAlphabet))]...)
	}
	return b
}

// RandPacket returns (kind of generator, bytes).
func RandPacket(rng *rand.Rand) (string, []byte) {
	switch rng.Intn(10) {
	case 0, 1:
		b := Encode(RandArgs(rng)...)
		if rng.Intn(2) == 0 {
			b = append(b, Encode(RandArgs(rng)...)...)
		}
		return "resp-valid", b
	case 2, 3, 4:
		b := Encode(RandArgs(rng)...)
		n := 1 + rng.Intn(3)
		for i := 0; i < n; i++ {
			b = Mutate(rng, b)
		}
		return "resp-mutated", b
	case 5:
		b := []byte(telnetLine(rng))
		if rng.Intn(2) == 0 {
			b = Mutate(rng, b)
		}
		return "telnet", b
	case 6, 7:
		b := []byte(nativeLine(rng))
		if rng.Intn(3) == 0 {
			b = Mutate(rng, b)
		}
		return "native", b
	default:
		n := rng.Intn(12)
		var sb strings.Builder
		for i := 0; i < n; i++ {
			sb.WriteString(rawAlphabet[rng.Intn(len(rawAlphabet))])
		}
		return "raw", []byte(sb.String())
	}
}

// Corpus: fixed regression inputs, run first.
var Corpus = []string{
	"", "*", "*1", "*1\r", "*1\r\n", "*1\r\n$", "*1\r\n$3\r\nab", "*1\r\n$3\r\nabc\r", "*1\r\n$3\r\nabc\r\n", "*1\r\n$3\r\nabc\r\nX",
	"*0\r\n", "*\r\n", "*-\r\n", "*-1\r\n", "*1\n", "\n", "\r\n", "*1\r\n$-100\r\n", "*1\r\n$-2\r\n", "*1\r\n$-1\r\n", "*1\r\n$-1\r\nx",
	"*2\r\n$1\r\na\r\n$-3\r\n", "*2\r\n$100\r\n" + strings.Repeat("a", 100) + "\r\n$-100\r\n", "*1\r\n$9223372036854775807\r\n", "*1\r\n$9223372036854775806\r\nab",
	"*1\r\n$18446744073709551615\r\nabc", "*1\r\n$18446744073709551614\r\n", "*9223372036854775807\r\n$1\r\na\r\n", "*18446744073709551617\r\n$1\r\na\r\n",
	"*1\r\n#3\r\n", "*1\r\n$1\na\r\n", "*1\r\n$1\r\nabc", "*1\r\n$\r\n\r\n", "*1\r\n$-\r\n\r\n", "*1\r\n\xe9", "*1\r\n$0\r\n\r\n",
	"$3 abc\r\n", "$-1 abc\r\n", "$3 abcd\r\n", "$ \r\n", "$0 \r\n", "$17 SET k id STRING \"\r\n", "$20 SET k id STRING \"a b\"\r\n", "$18 set k id string \"\"\r\n",
	"$9223372036854775807 a\r\n", "$9223372036854775806 a\r\n", "$9223372036854775785 a\r\n", "$18 SET k id STR\xc4\xb0NG \"\r\n", "$11 {\"a\": 1} x\r\n", "$5 a  b \r\n",
	"SET k v\r\n", "SET k v\n", "SET \"k v\" 'a\\n\\tb'\r\n", "SET \"k\"v\r\n", "SET k\"v\"\r\n", "SET \"k\r\n", "\"\\\"\"\r\n", "  \r\n", "a\rb\n", "'\\", "''\n",
	"GET / HTTP/1.1\r\n\r\n", "G\r\n", "PING\r\n",
}

func errString(e string) string {
	switch {
	case e == "multibulk":
		return "Protocol error: invalid multibulk length"
	case e == "bulk":
		return "Protocol error: invalid bulk length"
	case e == "message":
		return "Protocol error: invalid message"
	case e == "quotes":
		return "Protocol error: unbalanced quotes in request"
	case strings.HasPrefix(e, "expected:"):
		n, _ := strconv.Atoi(e[len("expected:"):])
		return "Protocol error: expected '$', got '" + string(byte(n)) + "'"
	}
	return "?" + e
}

// Canon renders the implementation's outcome in the model driver's reply syntax.
func Canon(p verifapi.RespParsed) string {
	switch p.Outcome {
	case "complete":
		return fmt.Sprintf("C %d %d %s", p.Kind, p.Leftover, ArgsStr(p.Args))
	case "incomplete":
		return "I"
	case "panic":
		return "P"
	}
	return "E " + p.Err
}

func ArgsStr(args [][]byte) string {
	if len(args) == 0 {
		return "_"
	}
	hs := make([]string, len(args))
	for i, a := range args {
		hs[i] = model.H(string(a))
	}
	return strings.Join(hs, ",")
}

// CanonModel turns the model reply into the same syntax (error text expanded).
func CanonModel(m string) string {
	if strings.HasPrefix(m, "E ") {
		return "E " + errString(m[2:])
	}
	return m
}

// DiffParser compares redcon.ReadNextCommand with the model's read_next on one packet.
// Returns the implementation outcome class.
func DiffParser(r *hx.Result, drv *model.Driver, gen string, b []byte) string {
	impl := verifapi.ReadNextCommand(b)
	ic := Canon(impl)
	mc := CanonModel(drv.Ask("rn", model.H(string(b))))
	if ic != mc {
		r.Fail(hx.Failure{Kind: "correspondence", Signature: "read-next-model", What: "redcon.ReadNextCommand and the model read_next disagree",
			Case: map[string]string{"gen": gen, "packet": strconv.Quote(string(b))}, Impl: ic, Model: mc})
	}
	return impl.Outcome
}

// RandHTTP returns a mostly-valid HTTP request as tile38's readNextHTTPCommand understands it
// (request line, headers up to Content-Length / Authorization / websocket upgrade, body).
func RandHTTP(rng *rand.Rand) []byte {
	methods := []string{"GET", "GET", "GET", "POST", "POST", "OPTIONS", "PUT", "get", ""}
	paths := []string{"/ping", "/", "/SET+k+id+POINT+1+2", "/set%20k%20id%20string%20%22a%20b%22", "/GET+k+id", "/SET+k+id+STRING+\"", "/scan+k+limit+%31",
		"/%zz", "/%4", "/a%", "ping", "", "/{\"a\":1}", "/SET+k+id+STR%C4%B0NG+\"v\"", "/output+json", "/+", "/%00", "/set k id"}
	protos := []string{"HTTP/1.1", "HTTP/1.1", "HTTP/1.0", "HTTP/2.0", "HTTP/1.1 x"}
	sp := []string{"", " ", "  ", "\t", " \t ", "\u00a0", "\u2003", "\u0085", "\xa0", "\v"}
	var sb strings.Builder
	sb.WriteString(methods[rng.Intn(len(methods))] + " " + paths[rng.Intn(len(paths))] + " " + protos[rng.Intn(len(protos))] + "\r\n")
	body := ""
	if rng.Intn(2) == 0 {
		body = []string{"+fleet+h1+POINT+10+20", " fleet h1 POINT 10 20", "", " \"q\"", "x"}[rng.Intn(5)]
	}
	nh := rng.Intn(5)
	for i := 0; i < nh; i++ {
		switch rng.Intn(10) {
		case 0, 1, 2:
			cl := strconv.Itoa(len(body))
			switch rng.Intn(8) {
			case 0:
				cl = interesting[rng.Intn(len(interesting))]
			case 1:
				cl = strconv.Itoa(len(body) + rng.Intn(5) - 2)
			}
			name := []string{"Content-Length", "content-length", "CONTENT-LENGTH", "Content-Length ", "Content-Lengt"}[rng.Intn(5)]
			sb.WriteString(name + ":" + sp[rng.Intn(len(sp))] + cl + sp[rng.Intn(len(sp))] + "\r\n")
		case 3:
			sb.WriteString("Authorization: " + RandArg(rng, 3) + "\r\n")
		case 4:
			sb.WriteString("Accept-Encoding: gzip\r\n")
		case 5:
			sb.WriteString("Upgrade:" + sp[rng.Intn(len(sp))] + []string{"websocket", "WebSocket", "webSoc\u212aet", "h2c", ""}[rng.Intn(5)] + sp[rng.Intn(len(sp))] + "\r\n")
		case 6:
			sb.WriteString("Sec-WebSocket-Version: " + []string{"13", "12", "14", "x", "", "18446744073709551615", "18446744073709551616", "9223372036854775808"}[rng.Intn(8)] + "\r\n")
		case 7:
			sb.WriteString("Sec-WebSocket-Key:" + sp[rng.Intn(len(sp))] + []string{"dGhlIHNhbXBsZSBub25jZQ==", "", "k"}[rng.Intn(3)] + "\r\n")
		case 8:
			sb.WriteString([]string{"Host: x", "NoColonHeader", ": empty", "X-Content-Length: 5", "Content-Length", "\tfolded"}[rng.Intn(6)] + "\r\n")
		default:
			sb.WriteString("Host: localhost\r\n")
		}
	}
	sb.WriteString("\r\n")
	sb.WriteString(body)
	b := []byte(sb.String())
	if rng.Intn(3) == 0 {
		b = Mutate(rng, b)
	}
	return b
}
