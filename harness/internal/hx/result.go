// Package hx holds the result record every harness run hands to ./check.
package hx

import (
	"encoding/json"
	"os"
	"sort"
)

type Failure struct {
	Kind      string      `json:"kind"`      // "oracle" (property fails on the implementation) or "correspondence" (model != implementation)
	Signature string      `json:"signature"` // stable class of the failure, matched against known_findings.json
	What      string      `json:"what"`
	Case      interface{} `json:"case"`
	Impl      interface{} `json:"impl,omitempty"`
	Model     interface{} `json:"model,omitempty"`
}

type Result struct {
	Property     string                 `json:"property"`
	Tier         string                 `json:"tier"`
	Seed         int64                  `json:"seed"`
	Evaluations  int                    `json:"evaluations"`
	Nontrivial   int                    `json:"distinct_nontrivial"`
	Rule         string                 `json:"rule"`
	Samples      []interface{}          `json:"samples"`
	Distribution map[string]int         `json:"distribution"`
	TracesImpl   int                    `json:"traces_validated_against_impl"`
	Failures     []Failure              `json:"failures"`
	Extra        map[string]interface{} `json:"extra,omitempty"`
	Assumptions  []string               `json:"assumptions,omitempty"`
	Exhaustive   bool                   `json:"exhaustive,omitempty"`
	distinct     map[string]bool
}

func New(prop, tier string, seed int64) *Result {
	return &Result{Property: prop, Tier: tier, Seed: seed, Distribution: map[string]int{},
		distinct: map[string]bool{}, Extra: map[string]interface{}{}, Failures: []Failure{}, Samples: []interface{}{}}
}

// Count records one evaluated case; key is its canonical form, nontrivial says
// whether it is non-trivial by the property's rule.
func (r *Result) Count(key string, nontrivial bool) {
	r.Evaluations++
	if nontrivial && !r.distinct[key] {
		r.distinct[key] = true
		r.Nontrivial++
	}
}

func (r *Result) Dist(k string) { r.Distribution[k]++ }

func (r *Result) Sample(max int, s interface{}) {
	if len(r.Samples) < max {
		r.Samples = append(r.Samples, s)
	}
}

// Fail records a failure; at most maxPerSig per signature are kept.
func (r *Result) Fail(f Failure) {
	n := 0
	for _, g := range r.Failures {
		if g.Signature == f.Signature && g.Kind == f.Kind {
			n++
		}
	}
	r.Distribution["fail:"+f.Kind+":"+f.Signature]++
	if n < 3 {
		r.Failures = append(r.Failures, f)
	}
}

func (r *Result) Write(path string) error {
	sort.SliceStable(r.Failures, func(i, j int) bool { return r.Failures[i].Signature < r.Failures[j].Signature })
	b, err := json.MarshalIndent(r, "", " ")
	if err != nil {
		return err
	}
	return os.WriteFile(path, b, 0o644)
}
