package hx

import (
	"flag"
	"fmt"
	"os"
)

// Config is what ./check passes to a property harness.
type Config struct {
	Tier   string // quick | thorough
	Seed   int64
	Work   string // scratch directory for this run (removed by ./check)
	Search bool   // failing-input search mode (after a broken obligation / correspondence)
	Replay string
}

// Main is the entry point of every harness binary (harness/cmd/<cxx>/main.go):
//
//	func main() { hx.Main("C12", run) }
func Main(prop string, fn func(r *Result, cfg Config)) {
	fs := flag.NewFlagSet("harness", flag.ExitOnError)
	tier := fs.String("tier", "quick", "")
	seed := fs.Int64("seed", 1, "")
	out := fs.String("out", "", "")
	work := fs.String("work", "", "")
	search := fs.Bool("search", false, "")
	replay := fs.String("replay", "", "")
	fs.Parse(os.Args[1:])
	if *work == "" {
		os.MkdirAll("/verif/.work", 0o755)
		d, _ := os.MkdirTemp("/verif/.work", "h-")
		*work = d
		defer os.RemoveAll(d)
	}
	res := New(prop, *tier, *seed)
	fn(res, Config{Tier: *tier, Seed: *seed, Work: *work, Search: *search, Replay: *replay})
	if *out != "" {
		if err := res.Write(*out); err != nil {
			fmt.Fprintln(os.Stderr, err)
			os.Exit(2)
		}
	}
	fmt.Printf("harness %s: evaluations=%d nontrivial=%d failures=%d\n", prop, res.Evaluations, res.Nontrivial, len(res.Failures))
}
