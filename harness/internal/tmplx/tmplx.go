// Package tmplx is the C17 translator pass: it walks the AST of /repo/internal/server/*.go
// (go/parser + go/ast only) and turns every JSON-mode reply expression into a reply template
// of coq/Model/Templates.v.  String literals become Lit, calls are typed by callee, if/switch
// become Alt, loops and iterator callbacks become Star.  Shapes it does not understand are
// listed as "Unknown file:line", never dropped.  Output is deterministic.
package tmplx

import (
	"bytes"
	"fmt"
	"go/ast"
	"go/parser"
	"go/printer"
	"go/token"
	"os"
	"path/filepath"
	"sort"
	"strconv"
	"strings"
)

type T struct {
	Kind string // Lit HStr HInt HFloat HBool HDur HJson HRaw Seq Alt Star
	Lit  string
	A, B *T
	sep  bool // Alt produced by a separator loop: "" | item (, item)*
}

// popCloser removes a leading ] or } from the leftmost literal of t.
func popCloser(t *T) (string, *T, bool) {
	switch t.Kind {
	case "Lit":
		if len(t.Lit) > 0 && (t.Lit[0] == ']' || t.Lit[0] == '}') {
			return t.Lit[:1], lit(t.Lit[1:]), true
		}
	case "Seq":
		if c, a, ok := popCloser(t.A); ok {
			return c, seq(a, t.B), true
		}
	}
	return "", nil, false
}

func lit(s string) *T { return &T{Kind: "Lit", Lit: s} }
func hole(k string) *T { return &T{Kind: k} }
func seq(a, b *T) *T {
	if a == nil {
		return b
	}
	if b == nil {
		return a
	}
	// a separator loop leaves the automaton in "just opened" (no item) or "value completed"
	// (items): the closing bracket that follows joins the two, so it is moved into both branches
	if a.Kind == "Alt" && a.sep {
		if c, rest, ok := popCloser(b); ok {
			return seq(&T{Kind: "Alt", A: seq(a.A, lit(c)), B: seq(a.B, lit(c))}, rest)
		}
	}
	if a.Kind == "Seq" && a.B.Kind == "Alt" && a.B.sep {
		if c, rest, ok := popCloser(b); ok {
			return seq(&T{Kind: "Seq", A: a.A, B: &T{Kind: "Alt", A: seq(a.B.A, lit(c)), B: seq(a.B.B, lit(c))}}, rest)
		}
	}
	if a.Kind == "Lit" && b.Kind == "Lit" {
		return lit(a.Lit + b.Lit)
	}
	if a.Kind == "Lit" && a.Lit == "" {
		return b
	}
	if b.Kind == "Lit" && b.Lit == "" {
		return a
	}
	// keep literals adjacent across a right-nested sequence
	if a.Kind == "Seq" && a.B.Kind == "Lit" && b.Kind == "Lit" {
		return &T{Kind: "Seq", A: a.A, B: lit(a.B.Lit + b.Lit)}
	}
	return &T{Kind: "Seq", A: a, B: b}
}
func alt(a, b *T) *T {
	if a == nil {
		a = lit("")
	}
	if b == nil {
		b = lit("")
	}
	if a.String() == b.String() {
		return a
	}
	return &T{Kind: "Alt", A: a, B: b}
}
func star(a *T) *T {
	if a == nil || (a.Kind == "Lit" && a.Lit == "") {
		return nil
	}
	return &T{Kind: "Star", A: a}
}

func (t *T) String() string {
	if t == nil {
		return "Lit \"\""
	}
	switch t.Kind {
	case "Lit":
		return fmt.Sprintf("Lit %q", t.Lit)
	case "Seq", "Alt":
		return fmt.Sprintf("%s(%s, %s)", t.Kind, t.A, t.B)
	case "Star":
		return fmt.Sprintf("Star(%s)", t.A)
	}
	return t.Kind
}

// Coq renders the template as a term of Model/Templates.v (bytes as N lists).
func (t *T) Coq() string {
	if t == nil {
		return "(Lit [])"
	}
	switch t.Kind {
	case "Lit":
		var sb strings.Builder
		sb.WriteString("(Lit [")
		for i := 0; i < len(t.Lit); i++ {
			if i > 0 {
				sb.WriteString("; ")
			}
			sb.WriteString(strconv.Itoa(int(t.Lit[i])))
		}
		sb.WriteString("])")
		return sb.String()
	case "Seq", "Alt":
		return "(" + t.Kind + " " + t.A.Coq() + " " + t.B.Coq() + ")"
	case "Star":
		return "(Star " + t.A.Coq() + ")"
	}
	return t.Kind
}

// CountKind counts the nodes of the given kind.
func (t *T) CountKind(kind string) int { return t.count(kind) }

func (t *T) count(kind string) int {
	if t == nil {
		return 0
	}
	n := 0
	if t.Kind == kind {
		n++
	}
	return n + t.A.count(kind) + t.B.count(kind)
}

type Site struct {
	Name string // function (and sink) the template was taken from
	Pos  string // file:line
	Kind string // "doc" whole reply document | "value" helper producing a JSON value | "frag" fragment
	T    *T
}

type Output struct {
	ScanDocs []Site // whole replies of the scanWriter commands, assembled from fragments by scanGrammar
	Docs     []Site
	Values   []Site
	Frags    []Site
	Unknown  []string // file:line reason
	RawHoles []string // file:line expr  (HRaw holes, to be triaged)
	// the base64 encodings named by the two sites of the vector-tile reply path (Model/Mvt.v):
	// base64.<X>.EncodeToString in scanWriter.writeFoot, base64.<X>.DecodeString in handleInputCommand;
	// "?" when a site does not name exactly one
	MvtEncode, MvtDecode string
	// handleInputCommand's `if cmd == "hello"` branch switches msg.OutputType for its one reply: true when
	// the branch saves the mode (x := msg.OutputType) and every return of the branch is preceded by
	// msg.OutputType = x (netServe writes msg.OutputType back into client.outputType after the handler)
	HelloRestores bool
}

type xl struct {
	fset *token.FileSet
	out  *Output
	env  map[string]*T // per function: identifier -> template of the value it holds
	fn   string
}

func (x *xl) pos(n ast.Node) string {
	p := x.fset.Position(n.Pos())
	return filepath.Base(p.Filename) + ":" + strconv.Itoa(p.Line)
}

func (x *xl) src(n ast.Node) string {
	var b bytes.Buffer
	printer.Fprint(&b, x.fset, n)
	s := strings.Join(strings.Fields(b.String()), " ")
	if len(s) > 70 {
		s = s[:70] + "..."
	}
	return s
}

func callName(c *ast.CallExpr) string {
	switch f := c.Fun.(type) {
	case *ast.Ident:
		return f.Name
	case *ast.SelectorExpr:
		if id, ok := f.X.(*ast.Ident); ok {
			return id.Name + "." + f.Sel.Name
		}
		return "." + f.Sel.Name
	case *ast.ArrayType:
		return "[]byte"
	}
	return ""
}

// helpers of the package that return / append one JSON value and are themselves checked as
// "value" sites (their own templates are in Gen.value_templates)
var jsonValueHelpers = map[string]bool{"appendJSONSimplePoint": true, "appendJSONSimpleBounds": true,
	"appendJSONFloat": true, "appendJSONTimeFormat": true, "jsonTimeFormat": true, "ConvertToJSON": true}

// Triage of raw-text holes that sit in value position: (function, source text) -> what the text
// is, established by reading the code.  When the source text changes the entry no longer applies
// and the hole falls back to HRaw (which fails tmpl_ok in value position).
var triage = map[string]func() *T{
	// resArray holds "1" / "0" per sha argument
	`cmdScriptExists|strings.Join(resArray, ",")`: func() *T {
		r := alt(lit(""), seq(hole("HInt"), star(seq(lit(","), hole("HInt")))))
		r.sep = true
		return r
	},
}

func (x *xl) raw(e ast.Expr) *T {
	if f, ok := triage[x.fn+"|"+x.src(e)]; ok {
		return f()
	}
	x.out.RawHoles = append(x.out.RawHoles, x.pos(e)+" "+x.fn+": "+x.src(e))
	return hole("HRaw")
}

// exprT types an expression that produces text appended to a reply.
func (x *xl) exprT(e ast.Expr) *T {
	switch v := e.(type) {
	case *ast.BasicLit:
		switch v.Kind {
		case token.STRING:
			s, err := strconv.Unquote(v.Value)
			if err != nil {
				x.out.Unknown = append(x.out.Unknown, x.pos(e)+" unquotable string literal")
				return hole("HRaw")
			}
			return lit(s)
		case token.CHAR:
			r, _, _, err := strconv.UnquoteChar(v.Value[1:len(v.Value)-1], '\'')
			if err == nil && r < 128 {
				return lit(string(rune(r)))
			}
		}
	case *ast.ParenExpr:
		return x.exprT(v.X)
	case *ast.BinaryExpr:
		if v.Op == token.ADD {
			return seq(x.exprT(v.X), x.exprT(v.Y))
		}
	case *ast.Ident:
		if t, ok := x.env[v.Name]; ok {
			return t
		}
	case *ast.CallExpr:
		name := callName(v)
		switch name {
		case "string", "[]byte":
			if len(v.Args) == 1 {
				return x.exprT(v.Args[0])
			}
		case "jsonString":
			return hole("HStr")
		case "appendJSONString", "gjson.AppendJSONString":
			return hole("HStr")
		case "strconv.Itoa", "strconv.FormatInt", "strconv.FormatUint", "strconv.AppendInt", "strconv.AppendUint":
			return hole("HInt")
		case "strconv.FormatBool", "strconv.AppendBool":
			return hole("HBool")
		case "strconv.FormatFloat", "strconv.AppendFloat":
			return hole("HFloat")
		case "json.Marshal":
			return hole("HJson")
		case "fmt.Sprintf":
			return x.sprintfT(v)
		case "base64.RawStdEncoding.EncodeToString", ".EncodeToString":
			return x.raw(e) // base64 alphabet: string-safe, triaged
		}
		if jsonValueHelpers[name] {
			return hole("HJson")
		}
		if sel, ok := v.Fun.(*ast.SelectorExpr); ok {
			switch sel.Sel.Name {
			case "String":
				// time.Since(start).String()
				if in, ok := sel.X.(*ast.CallExpr); ok && callName(in) == "time.Since" {
					return hole("HDur")
				}
			case "JSON", "AppendJSON":
				// geojson.Object.JSON / AppendJSON, field.Value.JSON
				return hole("HJson")
			case "Bytes":
				if id, ok := sel.X.(*ast.Ident); ok {
					if t, ok := x.env[id.Name]; ok {
						return t
					}
				}
			}
		}
	}
	return x.raw(e)
}

func (x *xl) sprintfT(c *ast.CallExpr) *T {
	fl, ok := c.Args[0].(*ast.BasicLit)
	if !ok || fl.Kind != token.STRING {
		return x.raw(c)
	}
	f, _ := strconv.Unquote(fl.Value)
	var t *T
	arg := 1
	for i := 0; i < len(f); {
		j := strings.IndexByte(f[i:], '%')
		if j < 0 {
			t = seq(t, lit(f[i:]))
			break
		}
		t = seq(t, lit(f[i:i+j]))
		i += j
		if i+1 >= len(f) {
			x.out.Unknown = append(x.out.Unknown, x.pos(c)+" dangling % in format")
			break
		}
		verb := f[i+1]
		i += 2
		if verb == '%' {
			t = seq(t, lit("%"))
			continue
		}
		if arg >= len(c.Args) {
			x.out.Unknown = append(x.out.Unknown, x.pos(c)+" format has more verbs than arguments")
			break
		}
		a := c.Args[arg]
		arg++
		switch verb {
		case 'd':
			t = seq(t, hole("HInt"))
		case 's', 'v':
			if in, ok := a.(*ast.CallExpr); ok && callName(in) == "time.Since" {
				t = seq(t, hole("HDur")) // a time.Duration printed with %s / %v is its String()
			} else {
				t = seq(t, x.exprT(a))
			}
		default:
			x.out.Unknown = append(x.out.Unknown, x.pos(c)+" unsupported format verb %"+string(verb))
			t = seq(t, x.raw(a))
		}
	}
	return t
}

// ---------- statement level: writes to a sink ----------

func exprString(fset *token.FileSet, e ast.Expr) string {
	var b bytes.Buffer
	printer.Fprint(&b, fset, e)
	return b.String()
}

// writeOf returns the template written to sink by stmt when stmt is a write, and whether it is one.
func (x *xl) writeOf(s ast.Stmt, sink string) (*T, bool) {
	switch v := s.(type) {
	case *ast.ExprStmt:
		c, ok := v.X.(*ast.CallExpr)
		if !ok {
			return nil, false
		}
		sel, ok := c.Fun.(*ast.SelectorExpr)
		if !ok || exprString(x.fset, sel.X) != sink || len(c.Args) != 1 {
			return nil, false
		}
		switch sel.Sel.Name {
		case "WriteString", "Write", "WriteByte":
			return x.exprT(c.Args[0]), true
		}
	case *ast.AssignStmt:
		if len(v.Lhs) != 1 || len(v.Rhs) != 1 || exprString(x.fset, v.Lhs[0]) != sink {
			return nil, false
		}
		if v.Tok == token.ADD_ASSIGN {
			return x.exprT(v.Rhs[0]), true
		}
		c, ok := v.Rhs[0].(*ast.CallExpr)
		if !ok || len(c.Args) == 0 || exprString(x.fset, c.Args[0]) != sink {
			return nil, false
		}
		name := callName(c)
		if name == "append" {
			var t *T
			for _, a := range c.Args[1:] {
				t = seq(t, x.exprT(a))
			}
			return t, true
		}
		// dst = helper(dst, ...) : typed by the callee like any call
		return x.exprT(c), true
	}
	return nil, false
}

func isJSONCond(fset *token.FileSet, e ast.Expr) (json bool, known bool) {
	s := exprString(fset, e)
	switch {
	case strings.HasSuffix(s, "OutputType == JSON"), s == "json", s == "outputType == JSON":
		return true, true
	case strings.HasSuffix(s, "OutputType == RESP"), s == "!json", strings.HasSuffix(s, "OutputType != JSON"):
		return false, true
	}
	return false, false
}

func isCommaIdiom(x *xl, s ast.Stmt, sink string) bool {
	ifs, ok := s.(*ast.IfStmt)
	if !ok || ifs.Else != nil || ifs.Init != nil || len(ifs.Body.List) != 1 {
		return false
	}
	be, ok := ifs.Cond.(*ast.BinaryExpr)
	if !ok || be.Op != token.GTR {
		return false
	}
	if bl, ok := be.Y.(*ast.BasicLit); !ok || bl.Value != "0" {
		return false
	}
	saved := len(x.out.RawHoles)
	t, isW := x.writeOf(ifs.Body.List[0], sink)
	x.out.RawHoles = x.out.RawHoles[:saved]
	return isW && t != nil && t.Kind == "Lit" && t.Lit == ","
}

func (x *xl) hasWrite(n ast.Node, sink string) bool {
	found := false
	ast.Inspect(n, func(m ast.Node) bool {
		if s, ok := m.(ast.Stmt); ok && !found {
			saved, savedU := len(x.out.RawHoles), len(x.out.Unknown)
			if _, w := x.writeOf(s, sink); w {
				found = true
			}
			x.out.RawHoles, x.out.Unknown = x.out.RawHoles[:saved], x.out.Unknown[:savedU]
		}
		return !found
	})
	return found
}

// loopT translates the body of a loop / iterator callback.
func (x *xl) flattenJSON(body []ast.Stmt) []ast.Stmt {
	var out []ast.Stmt
	for _, s := range body {
		if ifs, ok := s.(*ast.IfStmt); ok && ifs.Init == nil {
			if js, known := isJSONCond(x.fset, ifs.Cond); known {
				if js {
					out = append(out, x.flattenJSON(ifs.Body.List)...)
				} else if ifs.Else != nil {
					if b, ok := ifs.Else.(*ast.BlockStmt); ok {
						out = append(out, x.flattenJSON(b.List)...)
					} else {
						out = append(out, ifs.Else)
					}
				}
				continue
			}
		}
		out = append(out, s)
	}
	return out
}

func (x *xl) loopT(body []ast.Stmt, sink string) *T {
	body = x.flattenJSON(body)
	// find the first statement that writes
	for i, s := range body {
		if !x.hasWrite(s, sink) {
			continue
		}
		if isCommaIdiom(x, s, sink) {
			rest := append(append([]ast.Stmt{}, body[:i]...), body[i+1:]...)
			item := x.stmtsT(rest, sink)
			// [item (, item)*]?
			r := alt(lit(""), seq(item, star(seq(lit(","), item))))
			if r.Kind == "Alt" {
				r.sep = true
			}
			return r
		}
		break
	}
	return star(x.stmtsT(body, sink))
}

func (x *xl) stmtsT(list []ast.Stmt, sink string) *T {
	var t *T
	for _, s := range list {
		t = seq(t, x.stmtT(s, sink))
	}
	return t
}

func (x *xl) stmtT(s ast.Stmt, sink string) *T {
	if t, ok := x.writeOf(s, sink); ok {
		return t
	}
	switch v := s.(type) {
	case *ast.BlockStmt:
		return x.stmtsT(v.List, sink)
	case *ast.IfStmt:
		if js, known := isJSONCond(x.fset, v.Cond); known {
			if js {
				return x.stmtsT(v.Body.List, sink)
			}
			if v.Else != nil {
				return x.stmtT(v.Else, sink)
			}
			return nil
		}
		if !x.hasWrite(v, sink) {
			return nil
		}
		var e *T
		if v.Else != nil {
			e = x.stmtT(v.Else, sink)
		}
		return alt(x.stmtsT(v.Body.List, sink), e)
	case *ast.SwitchStmt:
		if !x.hasWrite(v, sink) {
			return nil
		}
		tag := ""
		if v.Tag != nil {
			tag = exprString(x.fset, v.Tag)
		}
		var t *T
		first, hasDefault := true, false
		for _, cc := range v.Body.List {
			c := cc.(*ast.CaseClause)
			if strings.HasSuffix(tag, "OutputType") || tag == "outputType" {
				if len(c.List) == 1 && exprString(x.fset, c.List[0]) == "JSON" {
					return x.stmtsT(c.Body, sink)
				}
				continue
			}
			if c.List == nil {
				hasDefault = true
			}
			b := x.stmtsT(c.Body, sink)
			if b == nil {
				b = lit("")
			}
			if first {
				t, first = b, false
			} else {
				t = alt(t, b)
			}
		}
		if strings.HasSuffix(tag, "OutputType") || tag == "outputType" {
			return nil
		}
		if !hasDefault {
			t = alt(t, lit(""))
		}
		return t
	case *ast.ForStmt:
		if !x.hasWrite(v.Body, sink) {
			return nil
		}
		return x.loopT(v.Body.List, sink)
	case *ast.RangeStmt:
		if !x.hasWrite(v.Body, sink) {
			return nil
		}
		return x.loopT(v.Body.List, sink)
	case *ast.ExprStmt:
		// iterator with a callback: x.Scan(func(..) bool { ... })
		if c, ok := v.X.(*ast.CallExpr); ok {
			for _, a := range c.Args {
				if fl, ok := a.(*ast.FuncLit); ok && x.hasWrite(fl.Body, sink) {
					return x.loopT(fl.Body.List, sink)
				}
			}
			// a call that is handed the sink, or a scanWriter method: not followed
			for _, a := range c.Args {
				if exprString(x.fset, a) == sink {
					x.out.Unknown = append(x.out.Unknown, x.pos(s)+" "+x.fn+": sink passed to "+x.src(c.Fun))
				}
			}
			if sel, ok := c.Fun.(*ast.SelectorExpr); ok && strings.HasPrefix(sel.Sel.Name, "write") && exprString(x.fset, sel.X) == "sw" {
				x.out.Unknown = append(x.out.Unknown, x.pos(s)+" "+x.fn+": reply continued by "+x.src(c.Fun)+" (checked as fragments)")
			}
		}
	case *ast.AssignStmt:
		x.track(v)
	case *ast.DeclStmt:
	case *ast.ReturnStmt, *ast.IncDecStmt, *ast.DeferStmt, *ast.BranchStmt:
	default:
		if x.hasWrite(s, sink) {
			x.out.Unknown = append(x.out.Unknown, x.pos(s)+" "+x.fn+fmt.Sprintf(": statement %T containing a write", s))
		}
	}
	return nil
}

// track records what a local variable holds when that is recognisably reply text.
func (x *xl) track(v *ast.AssignStmt) {
	if len(v.Rhs) != 1 || len(v.Lhs) < 1 {
		return
	}
	id, ok := v.Lhs[0].(*ast.Ident)
	if !ok {
		return
	}
	c, ok := v.Rhs[0].(*ast.CallExpr)
	if !ok {
		return
	}
	switch callName(c) {
	case "json.Marshal":
		x.env[id.Name] = hole("HJson")
	}
}

// findSinks: expressions X such that the function writes a literal starting with {"ok": to X.
func (x *xl) findSinks(body *ast.BlockStmt) []string {
	seen := map[string]bool{}
	var out []string
	ast.Inspect(body, func(n ast.Node) bool {
		s, ok := n.(ast.Stmt)
		if !ok {
			return true
		}
		var sink string
		switch v := s.(type) {
		case *ast.ExprStmt:
			if c, ok := v.X.(*ast.CallExpr); ok {
				if sel, ok := c.Fun.(*ast.SelectorExpr); ok && len(c.Args) == 1 && (sel.Sel.Name == "WriteString" || sel.Sel.Name == "Write") {
					sink = exprString(x.fset, sel.X)
				}
			}
		case *ast.AssignStmt:
			if len(v.Lhs) == 1 && len(v.Rhs) == 1 {
				if c, ok := v.Rhs[0].(*ast.CallExpr); ok && callName(c) == "append" {
					sink = exprString(x.fset, v.Lhs[0])
				}
			}
		}
		if sink == "" || seen[sink] {
			return true
		}
		saved, savedU := len(x.out.RawHoles), len(x.out.Unknown)
		t, w := x.writeOf(s, sink)
		x.out.RawHoles, x.out.Unknown = x.out.RawHoles[:saved], x.out.Unknown[:savedU]
		if w && t != nil {
			h := t
			for h.Kind == "Seq" {
				h = h.A
			}
			if h.Kind == "Lit" && strings.HasPrefix(h.Lit, `{"ok":`) {
				seen[sink] = true
				out = append(out, sink)
			}
		}
		return true
	})
	return out
}

func headLit(t *T) string {
	for t != nil && t.Kind == "Seq" {
		t = t.A
	}
	if t != nil && t.Kind == "Lit" {
		return t.Lit
	}
	return ""
}

// Extract translates the package in repo/internal/server.
func Extract(repo string) (*Output, error) {
	dir := filepath.Join(repo, "internal", "server")
	ents, err := os.ReadDir(dir)
	if err != nil {
		return nil, err
	}
	var files []string
	for _, e := range ents {
		n := e.Name()
		if strings.HasSuffix(n, ".go") && !strings.HasSuffix(n, "_test.go") && !strings.HasPrefix(n, "verif_") {
			files = append(files, n)
		}
	}
	sort.Strings(files)
	out := &Output{}
	fset := token.NewFileSet()
	for _, fn := range files {
		f, err := parser.ParseFile(fset, filepath.Join(dir, fn), nil, 0)
		if err != nil {
			return nil, err
		}
		for _, d := range f.Decls {
			fd, ok := d.(*ast.FuncDecl)
			if !ok || fd.Body == nil {
				continue
			}
			x := &xl{fset: fset, out: out, env: map[string]*T{}, fn: fd.Name.Name}
			x.function(fd)
			switch fd.Name.Name {
			case "writeFoot":
				out.MvtEncode = joinSite(out.MvtEncode, base64Sites(fd, "EncodeToString"))
			case "handleInputCommand":
				out.MvtDecode = joinSite(out.MvtDecode, base64Sites(fd, "DecodeString"))
				out.HelloRestores = helloRestores(fd)
			}
		}
	}
	if out.MvtEncode == "" {
		out.MvtEncode = "?"
	}
	if out.MvtDecode == "" {
		out.MvtDecode = "?"
	}
	out.scanGrammar()
	return out, nil
}

// isMsgOutputType: the expression msg.OutputType
func isMsgOutputType(e ast.Expr) bool {
	sel, ok := e.(*ast.SelectorExpr)
	if !ok || sel.Sel.Name != "OutputType" {
		return false
	}
	id, ok := sel.X.(*ast.Ident)
	return ok && id.Name == "msg"
}

// helloRestores recognises, in the top-level `if cmd == "hello" { ... }` of the function: a
// statement `x := msg.OutputType` and, for every return statement of the block (at its top level;
// a return nested deeper makes the answer false), an earlier top-level `msg.OutputType = x` after
// the last assignment of another value to msg.OutputType.
func helloRestores(fd *ast.FuncDecl) bool {
	for _, st := range fd.Body.List {
		ifs, ok := st.(*ast.IfStmt)
		if !ok {
			continue
		}
		be, ok := ifs.Cond.(*ast.BinaryExpr)
		if !ok || be.Op != token.EQL {
			continue
		}
		id, ok1 := be.X.(*ast.Ident)
		lit, ok2 := be.Y.(*ast.BasicLit)
		if !ok1 || !ok2 || id.Name != "cmd" || lit.Value != `"hello"` {
			continue
		}
		saved := ""
		restored := false
		sawReturn := false
		for _, s := range ifs.Body.List {
			switch t := s.(type) {
			case *ast.AssignStmt:
				if len(t.Lhs) == 1 && len(t.Rhs) == 1 {
					if l, ok := t.Lhs[0].(*ast.Ident); ok && t.Tok == token.DEFINE && isMsgOutputType(t.Rhs[0]) {
						saved = l.Name
					}
					if isMsgOutputType(t.Lhs[0]) {
						r, ok := t.Rhs[0].(*ast.Ident)
						restored = ok && saved != "" && r.Name == saved
					}
				}
			case *ast.ReturnStmt:
				sawReturn = true
				if !restored {
					return false
				}
			default:
				// a nested statement that assigns msg.OutputType (the switch to RESP) un-restores; a nested return is not understood
				nested := false
				ast.Inspect(s, func(n ast.Node) bool {
					switch u := n.(type) {
					case *ast.ReturnStmt:
						nested = true
					case *ast.AssignStmt:
						for _, l := range u.Lhs {
							if isMsgOutputType(l) {
								restored = false
							}
						}
					}
					return true
				})
				if nested {
					return false
				}
			}
		}
		return sawReturn && saved != ""
	}
	return false
}

// base64Sites lists the encodings X of every call base64.X.<method>(...) in the function.
func base64Sites(fd *ast.FuncDecl, method string) []string {
	var found []string
	ast.Inspect(fd.Body, func(n ast.Node) bool {
		c, ok := n.(*ast.CallExpr)
		if !ok {
			return true
		}
		m, ok := c.Fun.(*ast.SelectorExpr)
		if !ok || m.Sel.Name != method {
			return true
		}
		e, ok := m.X.(*ast.SelectorExpr)
		if !ok {
			return true
		}
		if pkg, ok := e.X.(*ast.Ident); ok && pkg.Name == "base64" {
			found = append(found, e.Sel.Name)
		}
		return true
	})
	return found
}

// joinSite: exactly one site in the whole package, else "?"
func joinSite(have string, found []string) string {
	for _, f := range found {
		if have == "" {
			have = f
		} else {
			have = "?"
		}
	}
	return have
}

// scanGrammar assembles the whole reply of the scanWriter commands from the extracted fragments.
// The ORDER is written here by hand after internal/server/scanner.go: the handler writes
// {"ok":true, writeFoot writes the field-name list, the opening of the result list, one
// writeFilled per object, the closing bracket, count and cursor, the handler writes elapsed.
// Every piece must be one of the extracted fragments (looked up by function and by template), so
// a reply expression that changes or disappears breaks the assembly (listed as Unknown, the
// template is then missing and real replies no longer match); the harness checks that every real
// reply of these commands is an instance of the assembled template.
func (o *Output) scanGrammar() {
	missing := false
	need := func(fn string, want *T) *T {
		for _, f := range o.Frags {
			if strings.HasPrefix(f.Name, fn+":") && f.T.String() == want.String() {
				return f.T
			}
		}
		o.Unknown = append(o.Unknown, "scan grammar: no fragment "+want.String()+" in "+fn)
		missing = true
		return want
	}
	s3 := func(a, b, c *T) *T { return seq(seq(a, b), c) }
	list := func(open, item, comma, closer *T) *T {
		// open ( closer | item (comma item)* closer )
		return seq(open, &T{Kind: "Alt", A: closer, B: s3(item, star(seq(comma, item)), closer)})
	}
	wf, wl := "writeFoot", "writeFilled"
	comma := need(wl, lit(","))
	fieldsTop := list(need(wf, lit(`,"fields":[`)), need(wf, hole("HStr")), need(wf, lit(",")), need(wf, lit("]")))
	fieldsObj := list(need(wl, lit(`,"fields":{`)), need(wl, s3(hole("HStr"), lit(":"), hole("HJson"))), need(wl, lit(",")), need(wl, lit("}")))
	fieldsArr := list(need(wl, lit(`,"fields":[`)), need(wl, hole("HJson")), need(wl, lit(",")), need(wl, lit("]")))
	jsfields := &T{Kind: "Alt", A: lit(""), B: &T{Kind: "Alt", A: fieldsObj, B: fieldsArr}}
	dist := &T{Kind: "Alt", A: need(wl, seq(lit(`,"distance":`), hole("HJson"))), B: lit("")}
	idItem := &T{Kind: "Alt",
		A: need(wl, seq(seq(seq(seq(lit(`{"id":`), hole("HStr")), lit(`,"distance":`)), hole("HJson")), lit("}"))),
		B: need(wl, hole("HStr"))}
	objItem := func(payload *T) *T {
		return seq(seq(seq(seq(need(wl, seq(lit(`{"id":`), hole("HStr"))), payload), jsfields), dist), need(wl, lit("}")))
	}
	closeList := need(wf, lit("]"))
	kinds := []*T{
		list(need(wf, lit(`,"ids":[`)), idItem, comma, closeList),
		list(need(wf, lit(`,"objects":[`)), objItem(need(wl, seq(lit(`,"object":`), hole("HJson")))), comma, closeList),
		list(need(wf, lit(`,"points":[`)), objItem(need(wl, seq(lit(`,"point":`), hole("HJson")))), comma, closeList),
		list(need(wf, lit(`,"bounds":[`)), objItem(need(wl, seq(lit(`,"bounds":`), hole("HJson")))), comma, closeList),
		list(need(wf, lit(`,"hashes":[`)), objItem(need(wl, s3(lit(`,"hash":"`), hole("HRaw"), lit(`"`)))), comma, closeList),
		lit(""), // COUNT
	}
	var body *T
	for i, k := range kinds {
		if i == 0 {
			body = k
		} else {
			body = &T{Kind: "Alt", A: body, B: k}
		}
	}
	body = seq(&T{Kind: "Alt", A: fieldsTop, B: lit("")}, body)
	// MVT tiles: ,"mvt":" base64 "
	mvt := s3(need(wf, lit(`,"mvt":"`)), hole("HRaw"), need(wf, lit(`"`)))
	tail := seq(need(wf, seq(lit(`,"count":`), hole("HInt"))), need(wf, seq(lit(`,"cursor":`), hole("HInt"))))
	for _, fn := range []string{"cmdScan", "cmdNearby", "cmdWITHINorINTERSECTS", "cmdSearch"} {
		head := need(fn, lit(`{"ok":true`))
		elapsed := need(fn, s3(lit(`,"elapsed":"`), hole("HDur"), lit(`"}`)))
		doc := seq(seq(seq(head, &T{Kind: "Alt", A: mvt, B: body}), tail), elapsed)
		pos := ""
		for _, f := range o.Frags {
			if strings.HasPrefix(f.Name, fn+":") {
				pos = f.Pos
				break
			}
		}
		if !missing {
			o.ScanDocs = append(o.ScanDocs, Site{Name: fn + " + writeFoot + writeFilled", Pos: pos, Kind: "doc", T: doc})
		}
	}
}

func (x *xl) function(fd *ast.FuncDecl) {
	ast.Inspect(fd.Body, func(n ast.Node) bool {
		if a, ok := n.(*ast.AssignStmt); ok {
			x.track(a)
		}
		return true
	})
	covered := map[ast.Node]bool{} // write statements already part of a doc / value site
	// (a) builders: a sink that receives {"ok":...
	sinks := x.findSinks(fd.Body)
	for _, sink := range sinks {
		u0 := len(x.out.Unknown)
		t := x.stmtsT(fd.Body.List, sink)
		site := Site{Name: fd.Name.Name + ":" + sink, Pos: x.pos(fd), Kind: "doc", T: t}
		if len(x.out.Unknown) > u0 {
			// continued elsewhere: every write expression is kept as a fragment below
			continue
		}
		x.out.Docs = append(x.out.Docs, site)
		x.markWrites(fd.Body, sink, covered)
	}
	// (b) value helpers: func(dst []byte, ...) []byte appending to its first parameter
	if jsonValueHelpers[fd.Name.Name] && fd.Type.Params != nil && len(fd.Type.Params.List) > 0 && len(fd.Type.Params.List[0].Names) > 0 {
		sink := fd.Type.Params.List[0].Names[0].Name
		if x.hasWrite(fd.Body, sink) {
			t := x.stmtsT(fd.Body.List, sink)
			x.out.Values = append(x.out.Values, Site{Name: fd.Name.Name, Pos: x.pos(fd), Kind: "value", T: t})
			x.markWrites(fd.Body, sink, covered)
		}
	}
	// (c) one-expression documents: any expression whose leftmost literal starts with {"ok":
	ast.Inspect(fd.Body, func(n ast.Node) bool {
		e, ok := n.(ast.Expr)
		if !ok {
			return true
		}
		switch v := e.(type) {
		case *ast.BinaryExpr:
			if v.Op != token.ADD {
				return true
			}
		case *ast.BasicLit:
			if v.Kind != token.STRING {
				return true
			}
		case *ast.CallExpr:
			if callName(v) != "fmt.Sprintf" {
				return true
			}
		default:
			return true
		}
		saved, savedU := len(x.out.RawHoles), len(x.out.Unknown)
		t := x.exprT(e)
		h := headLit(t)
		if !strings.HasPrefix(h, `{"ok":`) {
			x.out.RawHoles, x.out.Unknown = x.out.RawHoles[:saved], x.out.Unknown[:savedU]
			return true
		}
		// a complete document ends with }: otherwise it is the opening write of a builder
		last := t
		for last.Kind == "Seq" {
			last = last.B
		}
		if last.Kind == "Lit" && strings.HasSuffix(last.Lit, "}") {
			x.out.Docs = append(x.out.Docs, Site{Name: fd.Name.Name, Pos: x.pos(e), Kind: "doc", T: t})
		} else {
			x.out.RawHoles, x.out.Unknown = x.out.RawHoles[:saved], x.out.Unknown[:savedU]
		}
		return false
	})
	// (d) fragments: the remaining write statements (to a writer or to a string accumulator)
	accum := map[string]bool{}
	ast.Inspect(fd.Body, func(n ast.Node) bool {
		if a, ok := n.(*ast.AssignStmt); ok && a.Tok == token.ADD_ASSIGN && len(a.Lhs) == 1 && len(a.Rhs) == 1 {
			hasStr := false
			ast.Inspect(a.Rhs[0], func(m ast.Node) bool {
				if bl, ok := m.(*ast.BasicLit); ok && bl.Kind == token.STRING {
					hasStr = true
				}
				return true
			})
			if id, ok := a.Lhs[0].(*ast.Ident); ok && hasStr {
				accum[id.Name] = true
			}
		}
		return true
	})
	ast.Inspect(fd.Body, func(n ast.Node) bool {
		s, ok := n.(ast.Stmt)
		if !ok || covered[s] {
			return true
		}
		var arg ast.Expr
		var sinkName string
		switch v := s.(type) {
		case *ast.ExprStmt:
			c, ok := v.X.(*ast.CallExpr)
			if !ok {
				return true
			}
			sel, ok := c.Fun.(*ast.SelectorExpr)
			if !ok || len(c.Args) != 1 || (sel.Sel.Name != "WriteString" && sel.Sel.Name != "WriteByte" && sel.Sel.Name != "Write") {
				return true
			}
			arg, sinkName = c.Args[0], exprString(x.fset, sel.X)
			if sinkName == "client" || sinkName == "conn" || sinkName == "w" || strings.HasPrefix(sinkName, "os.") {
				return true // transport level (HTTP headers, RESP frames), not reply text
			}
		case *ast.AssignStmt:
			if len(v.Lhs) != 1 || len(v.Rhs) != 1 {
				return true
			}
			id, ok := v.Lhs[0].(*ast.Ident)
			if !ok || !accum[id.Name] || (v.Tok != token.ADD_ASSIGN && v.Tok != token.ASSIGN) {
				return true
			}
			arg, sinkName = v.Rhs[0], id.Name
		default:
			return true
		}
		// flushing an accumulator or an inner buffer that is itself covered
		if id, ok := arg.(*ast.Ident); ok && accum[id.Name] {
			return true
		}
		if c, ok := arg.(*ast.CallExpr); ok {
			if sel, ok := c.Fun.(*ast.SelectorExpr); ok && sel.Sel.Name == "Bytes" && len(c.Args) == 0 {
				return true
			}
		}
		saved, savedU := len(x.out.RawHoles), len(x.out.Unknown)
		t := x.exprT(arg)
		typed := 0
		var walk func(t *T)
		walk = func(t *T) {
			if t == nil {
				return
			}
			if t.Kind == "Lit" && strings.ContainsAny(t.Lit, `{}[]":,`) {
				typed++
			}
			if strings.HasPrefix(t.Kind, "H") && t.Kind != "HRaw" {
				typed++
			}
			walk(t.A)
			walk(t.B)
		}
		walk(t)
		h := headLit(t)
		if strings.HasPrefix(h, "HTTP/") || strings.Contains(h, "\r\n") || strings.HasPrefix(h, "+") || strings.HasPrefix(h, "-") || strings.HasPrefix(h, "$") {
			x.out.RawHoles, x.out.Unknown = x.out.RawHoles[:saved], x.out.Unknown[:savedU]
			return true
		}
		if typed == 0 {
			x.out.RawHoles = x.out.RawHoles[:saved]
			if t.count("HRaw") > 0 && (strings.Contains(fd.Name.Name, "write") || strings.HasPrefix(fd.Name.Name, "cmd")) {
				x.out.Unknown = append(x.out.Unknown, x.pos(s)+" "+fd.Name.Name+": untyped write "+x.src(arg))
			}
			return true
		}
		x.out.Frags = append(x.out.Frags, Site{Name: fd.Name.Name + ":" + sinkName, Pos: x.pos(s), Kind: "frag", T: t})
		return true
	})
}

func (x *xl) markWrites(body *ast.BlockStmt, sink string, covered map[ast.Node]bool) {
	ast.Inspect(body, func(n ast.Node) bool {
		if s, ok := n.(ast.Stmt); ok {
			saved, savedU := len(x.out.RawHoles), len(x.out.Unknown)
			if _, w := x.writeOf(s, sink); w {
				covered[s] = true
			}
			x.out.RawHoles, x.out.Unknown = x.out.RawHoles[:saved], x.out.Unknown[:savedU]
		}
		return true
	})
}

func coqComment(s string) string {
	s = strings.ReplaceAll(s, "(*", "( *")
	s = strings.ReplaceAll(s, "*)", "* )")
	return strings.ReplaceAll(s, `"`, "'")
}

// Coq renders coq/Gen/Templates.v.
func (o *Output) Coq() string {
	var sb strings.Builder
	sb.WriteString("(* GENERATED by harness/cmd/tmplx (harness/internal/tmplx) from /repo/internal/server/*.go — do not edit.\n")
	sb.WriteString("   JSON-mode reply templates: doc = whole reply documents, value = helpers producing one JSON value,\n")
	sb.WriteString("   frag = single write expressions of replies that are assembled across functions. *)\n")
	sb.WriteString("From T38 Require Import Base.Bytes Model.Json Model.Templates.\nOpen Scope N_scope.\n\n")
	emit := func(name string, sites []Site) {
		sb.WriteString("Definition " + name + " : list tmpl := [\n")
		for i, s := range sites {
			sb.WriteString("  (* " + coqComment(s.Pos+" "+s.Name) + " *)\n  " + s.T.Coq())
			if i < len(sites)-1 {
				sb.WriteString(";")
			}
			sb.WriteString("\n")
		}
		sb.WriteString("].\n\n")
	}
	// the function (and sink) each template was extracted from, parallel to the template list:
	// Model/KsReply.v looks reply templates up by the name of the handler that writes them
	emitNames := func(name string, sites []Site) {
		sb.WriteString("Definition " + name + " : list bytes := [\n")
		for i, s := range sites {
			sb.WriteString("  (* " + coqComment(s.Name) + " *) [")
			for j := 0; j < len(s.Name); j++ {
				if j > 0 {
					sb.WriteString("; ")
				}
				sb.WriteString(strconv.Itoa(int(s.Name[j])))
			}
			sb.WriteString("]")
			if i < len(sites)-1 {
				sb.WriteString(";")
			}
			sb.WriteString("\n")
		}
		sb.WriteString("].\n\n")
	}
	emit("templates", o.Docs)
	emitNames("template_names", o.Docs)
	emit("scan_templates", o.ScanDocs)
	emit("value_templates", o.Values)
	emitNames("value_template_names", o.Values)
	emit("fragments", o.Frags)
	coqBytes := func(t string) string {
		var b strings.Builder
		b.WriteString("[")
		for j := 0; j < len(t); j++ {
			if j > 0 {
				b.WriteString("; ")
			}
			b.WriteString(strconv.Itoa(int(t[j])))
		}
		b.WriteString("]")
		return b.String()
	}
	sb.WriteString("(* the base64 encoding named by scanWriter.writeFoot for the \"mvt\" member (base64.<name>.EncodeToString)\n   and by handleInputCommand for the HTTP .mvt route (base64.<name>.DecodeString): Model/Mvt.v *)\n")
	sb.WriteString("Definition mvt_json_encoding : bytes := (* " + coqComment(o.MvtEncode) + " *) " + coqBytes(o.MvtEncode) + ".\n")
	sb.WriteString("Definition mvt_http_decoding : bytes := (* " + coqComment(o.MvtDecode) + " *) " + coqBytes(o.MvtDecode) + ".\n\n")
	sb.WriteString("(* handleInputCommand's HELLO branch puts msg.OutputType back before it returns (Model/JsonMode.v) *)\n")
	sb.WriteString(fmt.Sprintf("Definition hello_restores_output : bool := %v.\n\n", o.HelloRestores))
	sb.WriteString(fmt.Sprintf("Definition n_unknown : nat := %d%%nat.\n", len(o.Unknown)))
	for _, u := range o.Unknown {
		sb.WriteString("(* Unknown " + coqComment(u) + " *)\n")
	}
	for _, u := range o.RawHoles {
		sb.WriteString("(* HRaw " + coqComment(u) + " *)\n")
	}
	return sb.String()
}
