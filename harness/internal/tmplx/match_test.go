package tmplx

import "testing"

func TestMatch(t *testing.T) {
	o, err := Extract("/repo")
	if err != nil {
		t.Fatal(err)
	}
	yes := []string{
		`{"ok":true,"elapsed":"12.5µs"}`,
		`{"ok":false,"err":"id not found","elapsed":"1µs"}`,
		`{"ok":true,"ttl":-1,"elapsed":"1µs"}`,
		`{"ok":true,"object":{"type":"Point","coordinates":[1,2]},"fields":{"a":1,"b":"x"},"elapsed":"1µs"}`,
	}
	no := []string{
		`{"ok":true,"output":"json","elapsed":40ns}`,
		`{"ok":true,"ttl":01,"elapsed":"1µs"}`,
		`{"ok":true "elapsed":"1µs"}`,
		`{"ok":true,"elapsed":"1µs"}x`,
	}
	for _, s := range yes {
		if MatchAny(o.Docs, s) < 0 {
			t.Errorf("should match: %s", s)
		}
	}
	for _, s := range no {
		if MatchAny(o.Docs, s) >= 0 {
			t.Errorf("should not match: %s", s)
		}
	}
	scanYes := []string{
		`{"ok":true,"objects":[],"count":0,"cursor":0,"elapsed":"1µs"}`,
		`{"ok":true,"count":3,"cursor":0,"elapsed":"1µs"}`,
		`{"ok":true,"ids":["a",{"id":"b","distance":0}],"count":2,"cursor":0,"elapsed":"1µs"}`,
		`{"ok":true,"fields":["f"],"points":[{"id":"a","point":{"lat":1,"lon":2},"fields":[0],"distance":1.5}],"count":1,"cursor":5,"elapsed":"1µs"}`,
	}
	scanNo := []string{
		`{"ok":true,"ids":["a""b"],"count":2,"cursor":0,"elapsed":"1µs"}`,
		`{"ok":true,"ids":["a"],"cursor":0,"count":1,"elapsed":"1µs"}`,
		`{"ok":true,"objects":[{"id":"a","object":1,"distance":NaN}],"count":1,"cursor":0,"elapsed":"1µs"}`,
	}
	for _, s := range scanYes {
		if MatchAny(o.ScanDocs, s) < 0 {
			t.Errorf("should match scan: %s", s)
		}
	}
	for _, s := range scanNo {
		if MatchAny(o.ScanDocs, s) >= 0 {
			t.Errorf("should not match scan: %s", s)
		}
	}
}
