package tmplx

// Match decides whether s is an instance of the template t (the relation `inst` of
// coq/Proofs/JsonTmplProofs.v): literals match themselves, HStr one JSON string token, HInt
// -?(0|[1-9][0-9]*), HBool true|false, HDur / HRaw a run of string-safe bytes, HJson one JSON
// value (as encoding/json delimits it), Alt either branch, Star any number of iterations.
// Backtracking with continuations; inputs are replies of a few kilobytes.

import (
	"encoding/json"
	"strings"
)

func Match(t *T, s string) bool {
	return m(t, s, 0, func(j int) bool { return j == len(s) })
}

func jsonStringEnd(s string, i int) int {
	if i >= len(s) || s[i] != '"' {
		return -1
	}
	for j := i + 1; j < len(s); j++ {
		switch {
		case s[j] == '\\':
			j++
		case s[j] == '"':
			return j + 1
		case s[j] < 0x20:
			return -1
		}
	}
	return -1
}

// jsonValueEnd returns the end of the JSON value starting at i, or -1.
func jsonValueEnd(s string, i int) int {
	if i >= len(s) {
		return -1
	}
	d := json.NewDecoder(strings.NewReader(s[i:]))
	var raw json.RawMessage
	if err := d.Decode(&raw); err != nil {
		return -1
	}
	// the decoder skips leading white space; replies have none, so the value is a prefix
	if !strings.HasPrefix(s[i:], string(raw)) {
		return -1
	}
	return i + len(raw)
}

func m(t *T, s string, i int, k func(int) bool) bool {
	if t == nil {
		return k(i)
	}
	switch t.Kind {
	case "Lit":
		if strings.HasPrefix(s[i:], t.Lit) {
			return k(i + len(t.Lit))
		}
		return false
	case "HStr":
		if j := jsonStringEnd(s, i); j > 0 && json.Valid([]byte(s[i:j])) {
			return k(j)
		}
		return false
	case "HInt":
		j := i
		if j < len(s) && s[j] == '-' {
			j++
		}
		st := j
		for j < len(s) && s[j] >= '0' && s[j] <= '9' {
			j++
		}
		if j == st || (s[st] == '0' && j-st > 1) {
			return false
		}
		return k(j)
	case "HBool":
		for _, w := range []string{"true", "false"} {
			if strings.HasPrefix(s[i:], w) && k(i+len(w)) {
				return true
			}
		}
		return false
	case "HDur", "HRaw":
		// every string-safe run, longest first (the text is followed by a closing quote)
		j := i
		for j < len(s) && s[j] >= 0x20 && s[j] != '"' && s[j] != '\\' {
			j++
		}
		for ; j >= i; j-- {
			if k(j) {
				return true
			}
		}
		return false
	case "HJson":
		if j := jsonValueEnd(s, i); j > 0 {
			return k(j)
		}
		return false
	case "HFloat":
		return false
	case "Seq":
		return m(t.A, s, i, func(j int) bool { return m(t.B, s, j, k) })
	case "Alt":
		return m(t.A, s, i, k) || m(t.B, s, i, k)
	case "Star":
		if k(i) {
			return true
		}
		return m(t.A, s, i, func(j int) bool { return j > i && m(t, s, j, k) })
	}
	return false
}

// MatchAny returns the index of the first site whose template s is an instance of, or -1.
func MatchAny(sites []Site, s string) int {
	for i, st := range sites {
		if Match(st.T, s) {
			return i
		}
	}
	return -1
}
