// Package wxgen: objects, expression trees and printers for the WHERE "<expr>" half of C12.
package wxgen

import (
	"fmt"
	"math"
	"math/rand"
	"strconv"
	"strings"

	"verifharness/internal/model"

	"github.com/tidwall/tile38/verifapi"
)

// field kinds (gjson order, as in Model/Where.v)
const (
	KNull = iota
	KFalse
	KNumber
	KString
	KTrue
	KJSON
)

// Field is one stored field: the token sent to SET ... FIELD name tok, and what field.ValueOf makes of it.
type Field struct {
	Name string
	Tok  string
	Kind int
	Data string // Value.Data()
	Num  string // nan | -inf | +inf | thousandths (Numbers only, else "0")
	F    float64
}

func (f Field) enc() string { return fmt.Sprintf("%d:%s:%s", f.Kind, model.H(f.Data), f.Num) }

// Obj is one stored object: a POINT, or a string object when Str != nil.
type Obj struct {
	ID       string
	Lat, Lon float64
	Str      *string
	Fields   []Field
	wx       *verifapi.WxObject
}

func (o *Obj) Wx() verifapi.WxObject {
	if o.wx == nil {
		var fl [][2]string
		for _, f := range o.Fields {
			fl = append(fl, [2]string{f.Name, f.Tok})
		}
		w := verifapi.WxNewObject(o.ID, o.Lat, o.Lon, o.Str, fl)
		o.wx = &w
	}
	return *o.wx
}

func (o *Obj) Get(name string) (Field, bool) {
	for _, f := range o.Fields {
		if f.Name == name {
			return f, true
		}
	}
	return Field{}, false
}

// ModelToks: <id> <type|~> <String()> <nfields> {name val}
func (o *Obj) ModelToks() []string {
	ty := "~"
	if o.Str == nil {
		ty = model.H("Point")
	}
	t := []string{model.H(o.ID), ty, model.H(o.Wx().String()), strconv.Itoa(len(o.Fields))}
	for _, f := range o.Fields {
		t = append(t, model.H(f.Name), f.enc())
	}
	return t
}

func NumField(name string, th int64) Field {
	tok := fmtTh(th)
	return Field{Name: name, Tok: tok, Kind: KNumber, Data: tok, Num: strconv.FormatInt(th, 10), F: float64(th) / 1000}
}

// decimal spelling of an integer number of thousandths, no trailing zeros
func fmtTh(th int64) string {
	neg := th < 0
	if neg {
		th = -th
	}
	s := strconv.FormatInt(th/1000, 10)
	if fr := th % 1000; fr != 0 {
		s += "." + strings.TrimRight(fmt.Sprintf("%03d", fr), "0")
	}
	if neg {
		s = "-" + s
	}
	return s
}

func StrField(name, s string) Field {
	return Field{Name: name, Tok: s, Kind: KString, Data: s, Num: "0"}
}
func JSONField(name, s string) Field {
	return Field{Name: name, Tok: s, Kind: KJSON, Data: s, Num: "0"}
}
func LitField(name, lit string) Field {
	switch lit {
	case "true":
		return Field{Name: name, Tok: lit, Kind: KTrue, Data: lit, Num: "0"}
	case "false":
		return Field{Name: name, Tok: lit, Kind: KFalse, Data: lit, Num: "0"}
	case "null":
		return Field{Name: name, Tok: lit, Kind: KNull, Data: lit, Num: "0"}
	case "+inf":
		return Field{Name: name, Tok: lit, Kind: KNumber, Data: "+Inf", Num: "+inf", F: math.Inf(1)}
	case "-inf":
		return Field{Name: name, Tok: lit, Kind: KNumber, Data: "-Inf", Num: "-inf", F: math.Inf(-1)}
	case "nan":
		return Field{Name: name, Tok: lit, Kind: KNumber, Data: "NaN", Num: "nan", F: math.NaN()}
	}
	panic("bad literal field " + lit)
}

var numPool = []int64{1000, 2000, 2500, 3000, 5000, 5000, 7000, 10000, -1000, -2500, 500, 125, 100000, -7000, 4999, 5001, 12345678, 1}
var strPool = []string{"Hello", "hello", "HELLO", "abc", "aBc", "x", "truck", "Truck9", "zeta", "a b", "h*", "A-1"}
var JSONPool = []string{`{"a":{"b":3},"c":"x"}`, `{"a":1,"b":"Hi","c":[1,2]}`, `[1,2,3]`, `{"speed":55.5,"tags":{"x":true,"y":null}}`}

// RandObjects: fields f g (numbers, sometimes other kinds or missing), s (string), t (bool), n (null), j (JSON),
// age / e / size / price (identifiers ending in e: the scientific-notation quirk), id (shadowed by the pseudo-field).
func RandObjects(rng *rand.Rand, n int, numericOnly bool) []*Obj {
	var out []*Obj
	for i := 0; i < n; i++ {
		o := &Obj{ID: fmt.Sprintf("o%02d", i), Lat: float64(i / 9), Lon: float64(i % 9)}
		for _, name := range []string{"f", "g", "age", "price", "x1"} {
			switch k := rng.Intn(12); {
			case k == 0:
				// missing
			case k == 1 && !numericOnly:
				o.Fields = append(o.Fields, StrField(name, strPool[rng.Intn(len(strPool))]))
			case k == 2 && !numericOnly:
				o.Fields = append(o.Fields, LitField(name, []string{"true", "false", "null", "+inf", "-inf", "nan"}[rng.Intn(6)]))
			default:
				th := numPool[rng.Intn(len(numPool))]
				if rng.Intn(3) == 0 {
					th = int64(rng.Intn(20001) - 10000)
				}
				if th != 0 {
					o.Fields = append(o.Fields, NumField(name, th))
				}
			}
		}
		if !numericOnly {
			if rng.Intn(5) > 0 {
				o.Fields = append(o.Fields, StrField("s", strPool[rng.Intn(len(strPool))]))
			}
			if rng.Intn(3) > 0 {
				o.Fields = append(o.Fields, LitField("t", []string{"true", "false"}[rng.Intn(2)]))
			}
			if rng.Intn(3) == 0 {
				o.Fields = append(o.Fields, LitField("n", "null"))
			}
			if rng.Intn(2) == 0 {
				o.Fields = append(o.Fields, JSONField("j", JSONPool[rng.Intn(len(JSONPool))]))
			}
			if rng.Intn(4) == 0 {
				o.Fields = append(o.Fields, NumField("id", 99000))
			}
		}
		out = append(out, o)
	}
	return out
}

// ---------------------------------------------------------------- expression trees

// Node kinds: lit field un bin tern comma paren arr call member optmember index
type Node struct {
	Kind string
	Op   string
	Text string
	Kids []*Node
}

func Lit(s string) *Node          { return &Node{Kind: "lit", Text: s} }
func Ref(s string) *Node          { return &Node{Kind: "field", Text: s} }
func Un(op string, a *Node) *Node { return &Node{Kind: "un", Op: op, Kids: []*Node{a}} }
func Bin(op string, a, b *Node) *Node {
	return &Node{Kind: "bin", Op: op, Kids: []*Node{a, b}}
}

var binPrec = map[string]int{",": 1, "?:": 2, "||": 3, "??": 3, "&&": 4, "|": 5, "^": 6, "&": 7,
	"==": 8, "!=": 8, "===": 8, "!==": 8, "=~": 8, "<": 9, "<=": 9, ">": 9, ">=": 9, "+": 10, "-": 10, "*": 11, "/": 11, "%": 11}

func (n *Node) prec() int {
	switch n.Kind {
	case "bin":
		return binPrec[n.Op]
	case "tern":
		return 2
	case "comma":
		return 1
	case "un":
		if n.Op == "!" {
			return 8 // '!' is handled by the equality level of the evaluator
		}
		return 10 // '-' by the sums level
	}
	return 12
}

// Style of a printer: Space = "", " " or odd whitespace; Full = parenthesise every compound operand.
type Style struct {
	Space func() string
	Full  bool
	Extra func() bool // wrap in redundant parentheses
}

func (n *Node) Print(st Style) string {
	sp := st.Space
	wrap := func(k *Node, need bool) string {
		s := k.Print(st)
		if need || (st.Full && k.prec() < 12) || (st.Extra != nil && st.Extra()) {
			return "(" + sp() + s + sp() + ")"
		}
		return s
	}
	switch n.Kind {
	case "lit", "field":
		return n.Text
	case "paren":
		return "(" + sp() + n.Kids[0].Print(st) + sp() + ")"
	case "un":
		k := n.Kids[0]
		return n.Op + sp() + wrap(k, k.prec() < 12 && !(k.Kind == "un"))
	case "bin":
		p := n.prec()
		a, b := n.Kids[0], n.Kids[1]
		return wrap(a, a.prec() < p) + sp() + n.Op + sp() + wrap(b, b.prec() <= p)
	case "tern":
		return wrap(n.Kids[0], n.Kids[0].prec() <= 2) + sp() + "?" + sp() + wrap(n.Kids[1], n.Kids[1].prec() <= 2) + sp() + ":" + sp() + wrap(n.Kids[2], n.Kids[2].prec() < 2)
	case "comma":
		var parts []string
		for _, k := range n.Kids {
			parts = append(parts, wrap(k, k.prec() <= 1))
		}
		return strings.Join(parts, sp()+","+sp())
	case "arr":
		var parts []string
		for _, k := range n.Kids {
			parts = append(parts, wrap(k, k.prec() <= 1))
		}
		return "[" + sp() + strings.Join(parts, sp()+","+sp()) + sp() + "]"
	case "call": // Kids[0].Text(args...)
		var parts []string
		for _, k := range n.Kids[1:] {
			parts = append(parts, wrap(k, k.prec() <= 1))
		}
		return wrap(n.Kids[0], n.Kids[0].prec() < 12) + sp() + "." + sp() + n.Text + sp() + "(" + strings.Join(parts, ",") + ")"
	case "member":
		return wrap(n.Kids[0], n.Kids[0].prec() < 12) + sp() + "." + sp() + n.Text
	case "optmember":
		return wrap(n.Kids[0], n.Kids[0].prec() < 12) + sp() + "?." + sp() + n.Text
	case "index":
		return wrap(n.Kids[0], n.Kids[0].prec() < 12) + sp() + "[" + sp() + n.Kids[1].Print(st) + sp() + "]"
	}
	panic("bad node " + n.Kind)
}

// Paths: identifiers and string-literal contents (candidate JSON paths / patterns / subjects).
func (n *Node) Strings(acc map[string]bool) {
	switch n.Kind {
	case "field", "member", "optmember", "call":
		acc[n.Text] = true
	case "lit":
		if len(n.Text) >= 2 && (n.Text[0] == '"' || n.Text[0] == '\'') {
			if s, ok := plainString(n.Text); ok {
				acc[s] = true
			}
		}
	}
	for _, k := range n.Kids {
		k.Strings(acc)
	}
}

// plainString: the content of a quoted literal without escapes
func plainString(lit string) (string, bool) {
	if len(lit) < 2 || strings.Contains(lit, "\\") {
		return "", false
	}
	return lit[1 : len(lit)-1], true
}

var fieldNames = []string{"f", "g", "f", "g", "s", "t", "n", "j", "age", "price", "x1", "zz", "id", "type", "this", "e", "F"}
var numLits = []string{"0", "1", "2", "5", "5.0", "2.5", "10", "100", "7", "3", "4999", "5001", "0.125", ".5", "5.", "1e3", "1E2", "1e-3", "2.5e+2",
	"0x1F", "0XfF", "5u64", "7u64", "3i64", "-3i64", "9223372036854775807i64", "18446744073709551615u64", "123456789012345", "1234567890123456",
	"12345.678", "007", "00", "1000000", "99999999999999999999", "0.1", "0.2", "0.30000000000000004", "1e21", "1e400", "0x", "5x", "1_0", "1..2"}
var strLits = []string{`"hello"`, `'HELLO'`, `"Hello"`, `"abc"`, `"x"`, `""`, `''`, `"h*"`, `"H*"`, `"^H"`, `"^h.*o$"`, `"("`, `"a"`, `"b"`, `"c"`, `"a.b"`, `"5"`, `"2.5"`, `" 5 "`, `"0x10"`,
	`"NaN"`, `"Infinity"`, `"-Infinity"`, `"+Inf"`, `"true"`, `"it's"`, `'say "hi"'`, `"a\"b"`, `'a\'b'`, `"a\\"`, `"a\nb"`, `"\x41\x62"`, `"A"`, `"\u{1F600}"`, `"😀"`, `"\ud83d"`, `"\u{}"`,
	`"\u{110000}"`, `"\0\b\f\r\t\v\q"`, `"(a)"`, `"a,b"`, `"[1"`, `"a && b"`, `"é"`, "\"\xff\"", `"speed"`, `"tags.x"`}
var kwLits = []string{"true", "false", "null", "undefined", "NaN", "Infinity", "TRUE", "typeof", "new", "in", "void", "yield"}
var binOps = []string{"||", "&&", "==", "!=", "<", "<=", ">", ">=", "+", "-", "*", "/", "%", "||", "&&", "==", "<", ">", "===", "!==", "=~", "|", "&", "^", "??"}

// RandExpr: a mostly valid expression tree over the whole grammar.
func RandExpr(rng *rand.Rand, depth int) *Node {
	if depth <= 0 || rng.Intn(5) == 0 {
		return randAtom(rng, depth)
	}
	switch rng.Intn(16) {
	case 0:
		return Un("!", RandExpr(rng, depth-1))
	case 1:
		return Un("-", RandExpr(rng, depth-1))
	case 2:
		return &Node{Kind: "tern", Kids: []*Node{RandExpr(rng, depth-1), RandExpr(rng, depth-1), RandExpr(rng, depth-1)}}
	case 3:
		if rng.Intn(3) == 0 {
			return &Node{Kind: "comma", Kids: []*Node{RandExpr(rng, depth-1), RandExpr(rng, depth-1)}}
		}
		return &Node{Kind: "paren", Kids: []*Node{RandExpr(rng, depth-1)}}
	default:
		return Bin(binOps[rng.Intn(len(binOps))], RandExpr(rng, depth-1), RandExpr(rng, depth-1))
	}
}

func randAtom(rng *rand.Rand, depth int) *Node {
	switch rng.Intn(14) {
	case 0, 1, 2, 3:
		return Ref(fieldNames[rng.Intn(len(fieldNames))])
	case 4, 5, 6:
		return Lit(numLits[rng.Intn(len(numLits))])
	case 7, 8:
		return Lit(strLits[rng.Intn(len(strLits))])
	case 9:
		return Lit(kwLits[rng.Intn(len(kwLits))])
	case 10:
		base := Ref([]string{"j", "this", "s", "f", "zz", "j"}[rng.Intn(6)])
		name := []string{"a", "b", "c", "f", "s", "speed", "tags", "x", "match", "id"}[rng.Intn(10)]
		kind := []string{"member", "member", "optmember"}[rng.Intn(3)]
		n := &Node{Kind: kind, Text: name, Kids: []*Node{base}}
		if rng.Intn(2) == 0 {
			n = &Node{Kind: kind, Text: []string{"a", "b", "x", "y", "match"}[rng.Intn(5)], Kids: []*Node{n}}
		}
		return n
	case 11:
		base := Ref([]string{"j", "this", "s", "f"}[rng.Intn(4)])
		var idx *Node
		if depth > 0 && rng.Intn(3) == 0 {
			idx = RandExpr(rng, depth-1)
		} else {
			idx = Lit([]string{`"a"`, `"a.b"`, `"f"`, `'s'`, `"c"`, "0", `"tags.x"`}[rng.Intn(7)])
		}
		return &Node{Kind: "index", Kids: []*Node{base, idx}}
	case 12:
		n := &Node{Kind: "arr"}
		for i, k := 0, rng.Intn(4); i < k; i++ {
			if depth > 0 {
				n.Kids = append(n.Kids, RandExpr(rng, depth-1))
			} else {
				n.Kids = append(n.Kids, Lit(numLits[rng.Intn(8)]))
			}
		}
		return n
	default:
		base := Ref([]string{"s", "s", "f", "id", "this", "j"}[rng.Intn(6)])
		var recv *Node = base
		if rng.Intn(4) == 0 {
			recv = Lit(strLits[rng.Intn(8)])
		}
		n := &Node{Kind: "call", Text: []string{"match", "match", "match", "foo"}[rng.Intn(4)], Kids: []*Node{recv}}
		for i, k := 0, rng.Intn(3); i < k; i++ {
			n.Kids = append(n.Kids, Lit(strLits[rng.Intn(12)]))
		}
		return n
	}
}

// RandStyle picks a printer style.
func RandStyle(rng *rand.Rand) Style {
	ws := []string{" ", " ", "", "  ", "\t", "\n", " \r\n ", "\v", "\f"}
	switch rng.Intn(5) {
	case 0:
		return Style{Space: func() string { return "" }}
	case 1:
		return Style{Space: func() string { return " " }}
	case 2:
		return Style{Space: func() string { return " " }, Full: true}
	case 3:
		return Style{Space: func() string { return ws[rng.Intn(len(ws))] }, Extra: func() bool { return rng.Intn(6) == 0 }}
	default:
		return Style{Space: func() string { return []string{"", " "}[rng.Intn(2)] }, Extra: func() bool { return rng.Intn(10) == 0 }}
	}
}

var mutAlphabet = []string{"(", ")", "[", "]", "{", "}", "\"", "'", "\\", "!", "=", "<", ">", "&", "|", "?", ":", ".", ",", "+", "-", "*", "/", "%", "~", "^",
	" ", "e", "E", "0", "x", "_", "u64", "i64", "f", "1", "\x00", "\x1f", "\xff", "&&", "||", "==", "?.", "??", "\\u", "\\x", "\\u{"}

// Mutate: delete / insert / replace / duplicate / truncate.
func Mutate(rng *rand.Rand, s string) string {
	for k := 1 + rng.Intn(3); k > 0; k-- {
		pos := 0
		if len(s) > 0 {
			pos = rng.Intn(len(s) + 1)
		}
		tok := mutAlphabet[rng.Intn(len(mutAlphabet))]
		switch rng.Intn(5) {
		case 0:
			if pos < len(s) {
				s = s[:pos] + s[pos+1:]
			}
		case 1:
			s = s[:pos] + tok + s[pos:]
		case 2:
			if pos < len(s) {
				s = s[:pos] + tok + s[pos+1:]
			}
		case 3:
			s = s[:pos]
		default:
			s = s[pos:]
		}
	}
	return s
}

// Soup: random bytes from the operator alphabet.
func Soup(rng *rand.Rand, n int) string {
	var sb strings.Builder
	for i := 0; i < n; i++ {
		sb.WriteString(mutAlphabet[rng.Intn(len(mutAlphabet))])
	}
	return sb.String()
}
