package wxgen

import (
	"math/rand"
	"strconv"
	"strings"

	"verifharness/internal/model"
)

// BTree mirrors Model/WhereExprTree.v (bexpr): the trees the theorem c12_expr_print_eval speaks about.
// The text of a tree is produced by the extracted Coq printer (driver request tree_print), so the strings
// sent to the server are exactly the strings of the theorem.
type BTree struct {
	Op   string // A (atom) C (compare) N & |
	Cmp  string // lt le gt ge eq ne
	Atom [2]BAtom
	Kids []*BTree
}

type BAtom struct {
	Kind string // f n s t F 0
	Text string // field name / string content
	Num  int64
}

func (a BAtom) toks() []string {
	switch a.Kind {
	case "f":
		return []string{"a", "f:" + model.H(a.Text)}
	case "n":
		return []string{"a", "n:" + strconv.FormatInt(a.Num, 10)}
	case "s":
		return []string{"a", "s:" + model.H(a.Text)}
	}
	return []string{"a", a.Kind}
}

func (t *BTree) Toks() []string {
	switch t.Op {
	case "A":
		return append([]string{"A"}, t.Atom[0].toks()...)
	case "C":
		return append(append([]string{"C", t.Cmp}, t.Atom[0].toks()...), t.Atom[1].toks()...)
	case "N":
		return append([]string{"N"}, t.Kids[0].Toks()...)
	}
	return append(append([]string{t.Op}, t.Kids[0].Toks()...), t.Kids[1].Toks()...)
}

var cmpSym = map[string]string{"lt": "<", "le": "<=", "gt": ">", "ge": ">=", "eq": "==", "ne": "!="}

func (a BAtom) otree() *OTree {
	switch a.Kind {
	case "f":
		if a.Text == "s" {
			return &OTree{Op: "strfield", Kind: "s", Text: a.Text}
		}
		return &OTree{Op: "field", Kind: "n", Text: a.Text}
	case "n":
		return &OTree{Op: "lit", Kind: "n", Text: strconv.FormatInt(a.Num, 10), Num: float64(a.Num)}
	case "s":
		return &OTree{Op: "strlit", Kind: "s", Text: a.Text}
	case "t":
		return &OTree{Op: "true", Kind: "b", Text: "true"}
	case "F":
		return &OTree{Op: "false", Kind: "b", Text: "false"}
	}
	panic("no oracle form for atom " + a.Kind)
}

// OTree: the same filter for the client-side evaluation (documented meaning).
func (t *BTree) OTree() *OTree {
	switch t.Op {
	case "A":
		return t.Atom[0].otree()
	case "C":
		return &OTree{Op: cmpSym[t.Cmp], Kind: "b", Kids: []*OTree{t.Atom[0].otree(), t.Atom[1].otree()}}
	case "N":
		return &OTree{Op: "!", Kind: "b", Kids: []*OTree{t.Kids[0].OTree()}}
	case "&":
		return &OTree{Op: "&&", Kind: "b", Kids: []*OTree{t.Kids[0].OTree(), t.Kids[1].OTree()}}
	}
	return &OTree{Op: "||", Kind: "b", Kids: []*OTree{t.Kids[0].OTree(), t.Kids[1].OTree()}}
}

var btStrings = []string{"hello", "Hello", "abc", "x", "truck", "", "a b", "(x)", "a && b", "it's", "zeta", "h*", "1 < 2", "!", "é"}

func randNumAtom(rng *rand.Rand, names []string) BAtom {
	if rng.Intn(2) == 0 {
		return BAtom{Kind: "f", Text: names[rng.Intn(len(names))]}
	}
	n := []int64{0, 1, 2, 3, 5, 7, 10, 100, 4, 12345, 999999999999999, -1, -2, -5, -7, -10, -2500, -99999999999999}[rng.Intn(18)]
	return BAtom{Kind: "n", Num: n}
}

// RandBTree: a well-formed tree whose comparisons are number/number or string/string (so that the
// client-side oracle can speak about it).
func RandBTree(rng *rand.Rand, depth int, names []string, strs bool) *BTree {
	if depth <= 0 || rng.Intn(4) == 0 {
		if rng.Intn(12) == 0 {
			return &BTree{Op: "A", Atom: [2]BAtom{{Kind: []string{"t", "F"}[rng.Intn(2)]}}}
		}
		cmp := []string{"lt", "le", "gt", "ge", "eq", "ne"}[rng.Intn(6)]
		if strs && rng.Intn(4) == 0 {
			a, b := BAtom{Kind: "f", Text: "s"}, BAtom{Kind: "s", Text: btStrings[rng.Intn(len(btStrings))]}
			if rng.Intn(4) == 0 {
				a, b = b, a
			}
			return &BTree{Op: "C", Cmp: cmp, Atom: [2]BAtom{a, b}}
		}
		return &BTree{Op: "C", Cmp: cmp, Atom: [2]BAtom{randNumAtom(rng, names), randNumAtom(rng, names)}}
	}
	switch rng.Intn(5) {
	case 0:
		return &BTree{Op: "N", Kids: []*BTree{RandBTree(rng, depth-1, names, strs)}}
	case 1, 2:
		return &BTree{Op: "&", Kids: []*BTree{RandBTree(rng, depth-1, names, strs), RandBTree(rng, depth-1, names, strs)}}
	}
	return &BTree{Op: "|", Kids: []*BTree{RandBTree(rng, depth-1, names, strs), RandBTree(rng, depth-1, names, strs)}}
}

// Print asks the extracted Coq printer; the reply also says whether the tree is well formed.
func (t *BTree) Print(drv *model.Driver) (string, bool) {
	rep := strings.Fields(drv.Ask(append([]string{"tree_print"}, t.Toks()...)...))
	if len(rep) != 2 {
		panic("tree_print: " + strings.Join(rep, " "))
	}
	return model.U(rep[1]), rep[0] == "1"
}

// ModelHolds asks the extracted denotation (den_match) for one object.
func (t *BTree) ModelHolds(drv *model.Driver, o *Obj, tables []string) string {
	return drv.Ask(append(append(append([]string{"tree_match"}, t.Toks()...), o.ModelToks()...), tables...)...)
}
