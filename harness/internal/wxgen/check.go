package wxgen

import (
	"fmt"
	"math"
	"sort"
	"strconv"
	"strings"

	"verifharness/internal/model"

	"github.com/tidwall/tile38/verifapi"
)

// ImplEval: expr.Eval with the server's context on the object, canonical spelling:
// "ok <value>" | "err syntax|undef|other" | "panic <msg>"
func ImplEval(e string, o *Obj) string {
	val, errText, _, panicked := verifapi.WxEval(e, o.Wx())
	if panicked != "" {
		return "panic " + panicked
	}
	if errText != "" {
		return "err " + errClass(errText)
	}
	return "ok " + val
}

func plainIdent(s string) bool {
	if s == "" {
		return false
	}
	for _, c := range []byte(s) {
		if !(c == '$' || c == '_' || c >= 'A' && c <= 'Z' || c >= 'a' && c <= 'z' || c >= '0' && c <= '9') {
			return false
		}
	}
	return true
}

func errClass(t string) string {
	switch {
	case t == "SyntaxError":
		return "syntax"
	case strings.HasSuffix(t, " is not defined") && strings.HasPrefix(t, "ReferenceError: "),
		strings.HasPrefix(t, "Uncaught TypeError: Cannot read properties of undefined"):
		return "undef"
	}
	return "other"
}

// ImplMatch: whereT.matchExpr
func ImplMatch(e string, o *Obj) string {
	m, p := verifapi.WxMatch(e, o.Wx())
	if p != "" {
		return "panic " + p
	}
	return "ok " + model.B(m)
}

// Tables: the answers of the opaque libraries (regexp, tidwall/match, gjson) for every (subject, pattern) /
// (raw, path) pair that can come up when the strings in cand are used on the objects' values.
// Format: <nrx> {pattern subject 1|0|e} <ngl> {str pattern 1|0} <njs> {raw path value} <nmb> {object ident value|~}
func Tables(objs []*Obj, cand map[string]bool) []string {
	var strs []string
	for s := range cand {
		strs = append(strs, s)
	}
	sort.Strings(strs)
	if len(strs) > 12 {
		strs = strs[:12]
	}
	// JSON member access: closure over the raw values reachable through the candidate paths
	type jk struct{ raw, path string }
	js := map[jk]string{}
	var work []string
	seenRaw := map[string]bool{}
	for _, o := range objs {
		for _, f := range o.Fields {
			if f.Kind == KJSON && !seenRaw[f.Data] {
				seenRaw[f.Data] = true
				work = append(work, f.Data)
			}
		}
	}
	for depth := 0; depth < 3 && len(work) > 0; depth++ {
		var next []string
		for _, raw := range work {
			for _, p := range strs {
				v := verifapi.WxJSONGet(raw, p)
				js[jk{raw, p}] = v
				if strings.HasPrefix(v, "OJ") {
					r2 := model.U(v[2:])
					if !seenRaw[r2] {
						seenRaw[r2] = true
						next = append(next, r2)
					}
				}
			}
		}
		work = next
	}
	// subjects: String() of the values a receiver can have
	subj := map[string]bool{"undefined": true}
	for _, o := range objs {
		subj[o.ID] = true
		for _, f := range o.Fields {
			switch f.Kind {
			case KNumber:
				if f.Num == "nan" || f.Num == "+inf" || f.Num == "-inf" {
					subj[f.Data] = true
				} else {
					subj[verifapi.WxFtoa(math.Float64bits(f.F))] = true
				}
			case KString, KJSON:
				subj[f.Data] = true
			case KTrue, KFalse, KNull:
				subj[f.Data] = true
			}
		}
	}
	for _, s := range strs {
		subj[s] = true
	}
	var subjects []string
	for s := range subj {
		subjects = append(subjects, s)
	}
	sort.Strings(subjects)
	var rx, gl []string
	pats := append([]string{}, strs...)
	if !cand["undefined"] {
		pats = append(pats, "undefined")
	}
	for _, p := range pats {
		for _, s := range subjects {
			m, ok := verifapi.WxRegex(p, s)
			r := "e"
			if ok {
				r = model.B(m)
			}
			rx = append(rx, model.H(p), model.H(s), r)
			gl = append(gl, model.H(s), model.H(p), model.B(verifapi.WxGlobNoCase(s, p)))
		}
	}
	out := []string{strconv.Itoa(len(rx) / 3)}
	out = append(out, rx...)
	out = append(out, strconv.Itoa(len(gl)/3))
	out = append(out, gl...)
	var jkeys []jk
	for k := range js {
		jkeys = append(jkeys, k)
	}
	sort.Slice(jkeys, func(i, j int) bool {
		if jkeys[i].raw != jkeys[j].raw {
			return jkeys[i].raw < jkeys[j].raw
		}
		return jkeys[i].path < jkeys[j].path
	})
	out = append(out, strconv.Itoa(len(jkeys)))
	for _, k := range jkeys {
		out = append(out, model.H(k.raw), model.H(k.path), js[k])
	}
	// gjson.Get(Members(), ident) for candidate idents that are not plain identifiers
	var mb []string
	for _, o := range objs {
		for _, p := range strs {
			if plainIdent(p) {
				continue
			}
			ex, v := o.Wx().MembersGet(p)
			if !ex {
				v = "~"
			}
			mb = append(mb, model.H(o.ID), model.H(p), v)
		}
	}
	out = append(out, strconv.Itoa(len(mb)/3))
	out = append(out, mb...)
	return out
}

// ModelEval / ModelMatch: the extracted model on the same expression and object.
func ModelEval(drv *model.Driver, e string, o *Obj, tables []string) string {
	return drv.Ask(append(append([]string{"wx_eval", model.H(e)}, o.ModelToks()...), tables...)...)
}
func ModelMatch(drv *model.Driver, e string, o *Obj, tables []string) string {
	return drv.Ask(append(append([]string{"wx_match", model.H(e)}, o.ModelToks()...), tables...)...)
}

// ---------------------------------------------------------------- the documented meaning (oracle)

// Oracle trees: comparisons between numeric fields / numeric literals / sums and products of them, and between
// string fields and string literals, combined with && || ! and parentheses.  Eval computes what such a filter
// says, with float64 arithmetic, a missing field reading as 0 and strings compared without regard to ASCII case.
type OTree struct {
	Op   string // && || ! cmp(<,<=,>,>=,==,!=) num(+,-,*) lit field strlit strfield
	Kind string // "b" boolean, "n" number, "s" string
	Text string
	Num  float64
	Kids []*OTree
}

func (t *OTree) EvalNum(o *Obj) (float64, bool) {
	switch t.Op {
	case "lit":
		return t.Num, true
	case "field":
		f, ok := o.Get(t.Text)
		if !ok {
			return 0, true
		}
		if f.Kind != KNumber || f.Num == "nan" || f.Num == "+inf" || f.Num == "-inf" {
			return 0, false // outside what the oracle speaks about
		}
		return f.F, true
	case "neg":
		a, ok := t.Kids[0].EvalNum(o)
		return -a, ok
	}
	a, ok1 := t.Kids[0].EvalNum(o)
	b, ok2 := t.Kids[1].EvalNum(o)
	switch t.Op {
	case "+":
		return a + b, ok1 && ok2
	case "-":
		return a - b, ok1 && ok2
	case "*":
		return a * b, ok1 && ok2
	}
	panic("bad numeric op " + t.Op)
}

func (t *OTree) evalStr(o *Obj) (string, bool) {
	switch t.Op {
	case "strlit":
		return t.Text, true
	case "strfield":
		f, ok := o.Get(t.Text)
		if !ok || f.Kind != KString {
			return "", false
		}
		return f.Data, true
	}
	panic("bad string op " + t.Op)
}

func asciiLower(s string) string {
	b := []byte(s)
	for i, c := range b {
		if c >= 'A' && c <= 'Z' {
			b[i] = c + 32
		}
	}
	return string(b)
}

// EvalBool: (value, defined)
func (t *OTree) EvalBool(o *Obj) (bool, bool) {
	switch t.Op {
	case "&&":
		a, ok1 := t.Kids[0].EvalBool(o)
		b, ok2 := t.Kids[1].EvalBool(o)
		return a && b, ok1 && ok2
	case "||":
		a, ok1 := t.Kids[0].EvalBool(o)
		b, ok2 := t.Kids[1].EvalBool(o)
		return a || b, ok1 && ok2
	case "!":
		a, ok := t.Kids[0].EvalBool(o)
		return !a, ok
	case "true":
		return true, true
	case "false":
		return false, true
	}
	cmp := 0
	if t.Kids[0].Kind == "s" {
		a, ok1 := t.Kids[0].evalStr(o)
		b, ok2 := t.Kids[1].evalStr(o)
		if !ok1 || !ok2 {
			return false, false
		}
		cmp = strings.Compare(asciiLower(a), asciiLower(b))
	} else {
		a, ok1 := t.Kids[0].EvalNum(o)
		b, ok2 := t.Kids[1].EvalNum(o)
		if !ok1 || !ok2 {
			return false, false
		}
		if a < b {
			cmp = -1
		} else if a > b {
			cmp = 1
		}
	}
	switch t.Op {
	case "<":
		return cmp < 0, true
	case "<=":
		return cmp <= 0, true
	case ">":
		return cmp > 0, true
	case ">=":
		return cmp >= 0, true
	case "==":
		return cmp == 0, true
	case "!=":
		return cmp != 0, true
	}
	panic("bad op " + t.Op)
}

func (t *OTree) prec() int {
	switch t.Op {
	case "||":
		return 3
	case "&&":
		return 4
	case "==", "!=":
		return 8
	case "!":
		return 8
	case "<", "<=", ">", ">=":
		return 9
	case "+", "-", "neg":
		return 10
	case "*":
		return 11
	}
	return 12
}

// Print: compact = no blanks at all (the spelling that runs into the evaluator's scanning quirks), otherwise
// one blank around every binary operator and negative literals in parentheses.
func (t *OTree) Print(compact bool, full bool) string {
	sp := " "
	if compact {
		sp = ""
	}
	wrap := func(k *OTree, need bool) string {
		s := k.Print(compact, full)
		if compact && k.Op == "lit" && (k.Num < 0 || math.Signbit(k.Num)) && (t.Op == "+" || t.Op == "-") {
			return "(" + s + ")" // a--b and a+-b are not what is meant in any language
		}
		if need || (full && k.prec() < 12) {
			return "(" + s + ")"
		}
		return s
	}
	switch t.Op {
	case "lit":
		if t.Num < 0 || math.Signbit(t.Num) {
			if compact {
				return t.Text
			}
			return "(" + t.Text + ")"
		}
		return t.Text
	case "field", "strfield", "true", "false":
		return t.Text
	case "strlit":
		return strconv.Quote(t.Text)
	case "!":
		return "!" + wrap(t.Kids[0], t.Kids[0].prec() < 12)
	case "neg":
		return "-" + wrap(t.Kids[0], t.Kids[0].prec() < 12)
	}
	p := t.prec()
	return wrap(t.Kids[0], t.Kids[0].prec() < p) + sp + t.Op + sp + wrap(t.Kids[1], t.Kids[1].prec() <= p)
}

func (t *OTree) Describe() string { return t.Print(false, true) }

// known scanning quirks of the evaluator (see docs/notes/C12.md): an identifier (or number) ending in e / E
// directly followed by + or -, and a sign directly after * / %.
func QuirkOf(e string) string {
	b := []byte(e)
	inq := byte(0)
	for i := 0; i < len(b); i++ {
		c := b[i]
		if inq != 0 {
			if c == '\\' {
				i++
			} else if c == inq {
				inq = 0
			}
			continue
		}
		if c == '"' || c == '\'' {
			inq = c
			continue
		}
		if (c == '+' || c == '-') && i > 0 && (b[i-1] == 'e' || b[i-1] == 'E') {
			// scientific notation proper (digits before the e) is not a quirk
			j := i - 2
			for j >= 0 && (b[j] >= '0' && b[j] <= '9' || b[j] == '.') {
				j--
			}
			isNum := j < i-2 && (j < 0 || !(b[j] == '_' || b[j] == '$' || b[j] >= 'a' && b[j] <= 'z' || b[j] >= 'A' && b[j] <= 'Z'))
			if !isNum {
				return "ident-e-sign"
			}
		}
		if c == '*' || c == '/' || c == '%' {
			j := i + 1
			for j < len(b) && (b[j] == ' ' || b[j] == '\t') {
				j++
			}
			if j < len(b) && (b[j] == '-' || b[j] == '+') {
				return "sign-after-factor"
			}
		}
	}
	return ""
}

func fmtLit(th int64) (string, float64) {
	return fmtTh(th), float64(th) / 1000
}

var _ = fmt.Sprint
