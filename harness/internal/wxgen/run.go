package wxgen

import (
	"fmt"
	"math"
	"math/rand"
	"path/filepath"
	"sort"
	"strconv"
	"strings"
	"time"

	"verifharness/internal/hx"
	"verifharness/internal/model"
	"verifharness/internal/srv"

	"github.com/tidwall/tile38/verifapi"
)

const Rule = "WHERE \"<expr>\": in-package, expr.Eval with the server's extender vs the extracted Model.WhereExpr.eval on (expression, object) pairs: a fixed corpus, random trees over the whole grammar of the evaluator (all operators, ternary, comma, arrays, member / optional / computed access, match(), =~, every literal form) printed in five whitespace / parenthesis styles, byte-level mutations of them and operator soup; black-box, SCAN/SEARCH/WITHIN/INTERSECTS/NEARBY ... WHERE \"<expr>\" IDS against the model (correspondence) and, for comparison / && / || / ! trees over numeric and string fields, against a client-side evaluation (oracle), plus COUNT = |IDS|, DESC = reverse, WHERE f a b = WHERE \"f >= a && f <= b\" on finite numbers; non-trivial = distinct (expression, object) whose evaluation succeeds on an expression with an operator, resp. distinct query keeping a non-empty strict subset."

var Assumptions = []string{
	"WHERE expr: float64 arithmetic, strconv.ParseFloat / FormatFloat, regexp, tidwall/match and gjson are oracles of the model; the driver instance (Flocq binary64, exact decimal parsing, tables computed by direct library calls) is compared with the Go library on every literal and result it meets; cases the instance does not answer are counted as wx:outside and skipped",
	"WHERE expr oracle: a missing field reads as 0, strings compare without regard to ASCII case, objects whose field is not a finite number (resp. not a string) are left out of the oracle for comparisons on that field",
}

// the object of the fixed corpus
func corpusObject() *Obj {
	return &Obj{ID: "Obj1", Lat: 1, Lon: 2, Fields: []Field{NumField("f", 5000), NumField("g", 2500), StrField("s", "Hello"), LitField("t", "true"),
		LitField("n", "null"), JSONField("j", `{"a":{"b":3},"c":"x"}`), LitField("inf", "+inf"), LitField("nan", "nan"), NumField("e", 1000),
		NumField("age", 7000), NumField("id", 99000)}}
}

func caseOf(e string, o *Obj) map[string]interface{} {
	var fl []string
	for _, f := range o.Fields {
		fl = append(fl, f.Name+"="+f.Tok)
	}
	kind := "POINT"
	if o.Str != nil {
		kind = "STRING " + strconv.Quote(*o.Str)
	}
	return map[string]interface{}{"expr": fmt.Sprintf("%q", e), "object": o.ID + " " + kind, "fields": strings.Join(fl, " ")}
}

func hasOperator(e string) bool { return strings.ContainsAny(e, "<>=!&|+-*/%?,~^") }

type evalStats struct{ outside, compared int }

// compareOne: one (expression, object) pair, in package.
func compareOne(r *hx.Result, drv *model.Driver, e string, o *Obj, cand map[string]bool, kind string, st *evalStats) {
	tables := Tables([]*Obj{o}, cand)
	impl := ImplEval(e, o)
	mod := ModelEval(drv, e, o, tables)
	r.Dist("wx:" + kind)
	if mod == "outside" {
		st.outside++
		r.Dist("wx:outside")
		// the implementation must still not panic
		if strings.HasPrefix(impl, "panic") {
			r.Fail(hx.Failure{Kind: "oracle", Signature: "whereexpr-panic", What: "expr.Eval panicked: " + impl, Case: caseOf(e, o)})
		}
		r.Count(kind+"\x01"+e+"\x01"+o.ID, false)
		return
	}
	st.compared++
	r.Count(kind+"\x01"+e+"\x01"+o.ID, strings.HasPrefix(impl, "ok ") && hasOperator(e))
	if strings.HasPrefix(impl, "panic") {
		r.Fail(hx.Failure{Kind: "oracle", Signature: "whereexpr-panic", What: "expr.Eval panicked: " + impl, Case: caseOf(e, o)})
	}
	if impl != mod {
		r.Fail(hx.Failure{Kind: "correspondence", Signature: "whereexpr-eval-model",
			What: fmt.Sprintf("expr.Eval(%q) on %s differs from Model.WhereExpr.eval", e, o.ID), Case: caseOf(e, o), Impl: impl, Model: mod})
		return
	}
	im, mm := ImplMatch(e, o), ModelMatch(drv, e, o, tables)
	if mm == "outside" {
		r.Dist("wx:outside")
	} else if im != mm {
		r.Fail(hx.Failure{Kind: "correspondence", Signature: "whereexpr-match-model",
			What: fmt.Sprintf("matchExpr(%q) on %s differs from Model.WhereExpr.match_expr", e, o.ID), Case: caseOf(e, o), Impl: im, Model: mm})
	}
	if strings.HasPrefix(impl, "ok B") && hasOperator(e) {
		r.Sample(24, map[string]interface{}{"where_expr": e, "object": o.ID, "value": impl})
	}
}

// Corpus: expressions that once showed a particular behaviour of the evaluator.
var Corpus = []string{"f", "f == 5", "f < 10 && g > 2", "f < 10 AND g > 2", "!(f < 10)", "! f", "2*-3", "2 * -3", "age-1", "age - 1", "e-1", "f - -5", "f--5", "-f", "- 5", "-5", "--5", "+5",
	"1e-3", "1e3", ".5", "5.", "0x1F", "0x", "5u64", "-5i64", "5i64 / 2i64", "5i64 / 0i64", "5i64 % 0i64", "7u64 % 0u64", "-9223372036854775808i64 / -1i64", "9223372036854775807i64 + 1i64", "0u64 - 1u64",
	"inf", "inf > 5", "inf == \"+Inf\"", "nan", "nan == nan", "NaN == NaN", "n", "n == null", "n == undefined", "n == 0", "missing", "missing == 0", "t", "t == true", "t == 1",
	"s", "s == \"hello\"", "s == 'HELLO'", "s < \"i\"", "s + 1", "1 + s", "f + g", "f + \"1\"", "f * \"2\"", "\"10\" < \"9\"", "\"10\" < 9", "id", "type", "this", "this.f", "this.id", "this[\"f\"]", "this['s']",
	"j", "j.a", "j.a.b", "j.a.b == 3", "j.c", "j.x", "j.x.y", "j?.x?.y", "j.x?.y", "s.match(\"h*\")", "s.match(\"H*\")", "s.match", "f.match(\"5\")", "s =~ \"^H\"", "s =~ \"^h\"", "s =~ \"(\"", "f =~ \"5\"",
	"[1,2]", "[1,2] == \"1,2\"", "[1,2][0]", "[]", "()", "(", ")", "((f))", "(f", "f)", "f ==", "== f", "f = 5", "f === 5", "f === \"5\"", "f == \"5\"", "f !== 5", "f !=== 5", "f != 5", "f <> 5", "f >= 5", "f => 5", "f =< 5", "f <= 5", "f < = 5",
	"f ? 1 : 0", "f ? 0 : 1", "f > 10 ? 1 : 0", "a ? b : c ? d : e", "f ?? 3", "n ?? 3", "missing ?? 3", "undefined ?? 3", "1, 0", "0, 1", "f | 2", "f & 4", "f ^ 1", "f | g", "1 || 0", "0 || 0", "1 && 0", "1 & & 1", "1 | | 1", "f &&", "&& f", "f ||",
	"\"abc", "\"a\\\"b\"", "\"a\\x41b\"", "\"a\\u{1F600}b\"", "\"\\ud83d\"", "\"\\ud83d\\ude00\"", "\"\\ud83dx\"", "\"\\ud83d\\u0041\"", "\"\\ud83d\\u{de00}\"", "\"a\\qb\"", "\"a\nb\"", "'it''s'", "\"a\" \"b\"", "f g", "1 2",
	"true", "false", "TRUE", "null", "undefined", "Infinity", "-Infinity", "typeof f", "new f", "f.", ".f", "f..g", "$x", "_x", "9x", "x9", "\xc3\xa9", "1_0", "-0x1p4", "1e400", "99999999999999999999", "123456789012345", "1234567890123456", "-123456789012345", "00012",
	"- - 5", "-(5)", "-(f)", "(5)-(3)", "5 -3", "5-3", "5+-3", "5-+3", "5++3", "5+ +3", "5 * 3 + 2", "2 + 5 * 3", "10 / 4", "10 % 4", "10.5 % 4", "-7 % 3", "1/0", "-1/0", "0/0", "5 % 0", "!0", "!!0", "!!!0", "!\"a\"", "!\"\"", "!null",
	"f != 5 != 1", "1 < 2 < 3", "3 > 2 > 1", "2 == 2 == 2", "f ==~ 5", "f =~ 5", "!f == 0", "!(f == 0)", "!f.x", "!s.match(\"h*\")", "s.match(\"h*\") && f == 5", "s.match()", "s.match(", "s.match(\"h*\", 2)", "s.match(\"h*\")(\"x\")", "this.match(\"x\")", "f()", "f(1)",
	"{}", "f == {}", "f[", "f[]", "f[1]", "j[\"a\"]", "j[\"a.b\"]", "j[\"a\"][\"b\"]", "j [ \"a\" ] . b", "\tf\t==\t5\t", "f<6&&g>2||s==\"x\"", "f<6&&(g>2||s==\"x\")", "1 || 1 && 0", "(1 || 1) && 0", "0 && 1 || 1", "1 | 0 && 0", "1 == 1 & 1", "1 < 2 == 1", "1 + 2 < 4",
	"\"a\" + 1.5", "1e21 + \"a\"", "0.1 + 0.2 + \"\"", "-0 + \"\"", "true + 1", "true + true", "null + 1", "undefined + 1", "null + \"a\"", "[1,2] + 1", "[1,(2,3)]", "[(1,2),3]", "[1,(2,(3,4))]", "[1, 2 ? (3,4) : 5]", "[1,[2,(3,4)]]", "[1,2,]", "[ ]",
	"s.match((\"x\",\"h*\"))", "(1,2),3", "", " ", "price-10 > 0", "price - 10 > 0", "price+1", "f*-1 < 3", "f * (-1) < 3", "1E+2", "1E-2x", "f ?. x", "f?x:y", "a?.b ? 1 : 2", "1 ?? 2 ?? 3", "null ?? undefined ?? 3", "0xffffffffffffffff", "0x10000000000000000",
	"5 > 3 === true", "\"a\" === 'A'", "[1] == [1]", "[1] == [2]", "s.match === s.match", "1 ? : 2", "? 1 : 2", "1 ? 2", "1 : 2", "1 ? 2 : 3 : 4", "(1 ? 2 : 3) ? 4 : 5", "f > 1 ? g > 1 ? 1 : 2 : 3", "'\\u{41}\\u{42}'", "\"\\u{zz}\"", "\"\\u12\"", "\"\\x4\"",
}

func inPackage(r *hx.Result, cfg hx.Config, rng *rand.Rand, drv *model.Driver) {
	st := &evalStats{}
	co := corpusObject()
	str := "v-str"
	so := &Obj{ID: "S1", Str: &str, Fields: co.Fields[:4]}
	empty := ""
	eo := &Obj{ID: "S2", Str: &empty}
	// 1. corpus on the corpus object (and on a string object)
	for _, e := range Corpus {
		cand := map[string]bool{"h*": true, "H*": true, "^H": true, "^h": true, "(": true, "5": true, "x": true, "a": true, "b": true, "c": true, "a.b": true, "y": true}
		compareOne(r, drv, e, co, cand, "corpus", st)
		compareOne(r, drv, e, so, cand, "corpus", st)
	}
	for _, e := range []string{"this", "!this", "this ? 1 : 2", "type", "this.type", "type == \"Point\"", "id", "this + \"\"", "this && 1"} {
		compareOne(r, drv, e, eo, map[string]bool{}, "corpus", st)
	}
	// 2. generated
	n := 1500
	if cfg.Tier == "thorough" {
		n = 60000
	}
	if cfg.Search {
		n = 20000
	}
	var objs []*Obj
	for i := 0; i < n; i++ {
		if i%40 == 0 {
			objs = RandObjects(rng, 6, false)
			if rng.Intn(3) == 0 {
				s := []string{"", "text", "Hello"}[rng.Intn(3)]
				objs[0].Str = &s
			}
		}
		o := objs[rng.Intn(len(objs))]
		tree := RandExpr(rng, 1+rng.Intn(4))
		e := tree.Print(RandStyle(rng))
		kind := "tree"
		switch rng.Intn(10) {
		case 0, 1:
			e = Mutate(rng, e)
			kind = "mutated"
		case 2:
			e = Soup(rng, 1+rng.Intn(8))
			kind = "soup"
		}
		cand := map[string]bool{}
		tree.Strings(cand)
		compareOne(r, drv, e, o, cand, kind, st)
	}
	r.Extra["whereexpr_in_package"] = map[string]int{"compared": st.compared, "outside_model_vocabulary": st.outside}

	// 3. the oracle instance against the Go library: number literals and results
	lits := append([]string{}, numLits...)
	for i := 0; i < 300; i++ {
		switch rng.Intn(4) {
		case 0:
			lits = append(lits, fmtTh(int64(rng.Intn(2000001)-1000000)))
		case 1:
			lits = append(lits, fmt.Sprintf("%d.%de%d", rng.Intn(1000), rng.Intn(100000), rng.Intn(700)-350))
		case 2:
			lits = append(lits, strconv.FormatFloat(math.Float64frombits(rng.Uint64()), 'g', -1, 64))
		default:
			lits = append(lits, fmt.Sprintf("%s%d%s", []string{"", "-", "+"}[rng.Intn(3)], rng.Int63(), []string{"", ".5", "e3", "E-7", "e", "."}[rng.Intn(6)]))
		}
	}
	lits = append(lits, "inf", "-Inf", "+INFINITY", "nan", "NaN", "-nan", "infin", "", ".", "-", "e5", "1e", "1e+", "4.9e-324", "2.4e-324", "2.5e-324", "1.7976931348623157e308", "1.7976931348623159e308", "1e309", "0.000", "-0", "-0.0e5",
		"9007199254740993", "9007199254740992.5", "1e23", "8.41e21", "5e-324", "2.2250738585072011e-308", "0.1e1", "1e0005", "1e-99999999999", "1e99999999999")
	for _, l := range lits {
		bits, ok := verifapi.WxParseFloat(l)
		want := "err"
		if ok {
			want = "F" + strconv.FormatUint(bits, 10)
			if math.IsNaN(math.Float64frombits(bits)) {
				want = "Fnan"
			}
		}
		got := drv.Ask("pf", model.H(l))
		r.Dist("wx:lib-parsefloat")
		if got != "none" && got != want {
			r.Fail(hx.Failure{Kind: "correspondence", Signature: "whereexpr-oracle-parsefloat",
				What: fmt.Sprintf("strconv.ParseFloat(%q) differs from the oracle instance parse_float_dec", l), Case: l, Impl: want, Model: got})
		}
		if ok {
			f := math.Float64frombits(bits)
			got := drv.Ask("ftoa", strconv.FormatUint(bits, 10))
			if math.IsNaN(f) {
				got = drv.Ask("ftoa", "9221120237041090560")
			}
			want := "ok " + model.H(verifapi.WxFtoa(bits))
			if got != "none" && got != want {
				r.Fail(hx.Failure{Kind: "correspondence", Signature: "whereexpr-oracle-ftoa",
					What: fmt.Sprintf("conv.Ftoa(%v) differs from the oracle instance fmt_f64", f), Case: l, Impl: want, Model: got})
			}
			if !math.IsNaN(f) {
				gi := drv.Ask("ftoi", strconv.FormatUint(bits, 10))
				wi := strconv.FormatInt(verifapi.WxFtoi(bits), 10)
				if gi != wi {
					r.Fail(hx.Failure{Kind: "correspondence", Signature: "whereexpr-oracle-ftoi",
						What: fmt.Sprintf("conv.Ftoi(%v) differs from the oracle instance f_to_Z", f), Case: l, Impl: wi, Model: gi})
				}
			}
		}
	}

	// 4. detectExprToken
	toks := []string{"f", "5", "", "inf", "INF", "Inf", "+inf", "info", "i", "IDS", "a", "Z", "(5", "-1", "f > 5", "@", "[", "{", "z", "A", "`", "1e5", "nan"}
	for i := 0; i < 400; i++ {
		var vs []string
		for k := rng.Intn(4); k > 0; k-- {
			vs = append(vs, toks[rng.Intn(len(toks))])
		}
		b, p := verifapi.WxDetectExprToken(vs)
		impl := model.B(b)
		if p != "" {
			impl = "panic"
		}
		ht := []string{"detect"}
		for _, v := range vs {
			ht = append(ht, model.H(v))
		}
		mod := drv.Ask(ht...)
		r.Dist("wx:detect")
		if impl == "panic" {
			r.Fail(hx.Failure{Kind: "oracle", Signature: "whereexpr-detect-panic", What: fmt.Sprintf("detectExprToken(%q) panicked: %s", vs, p), Case: vs})
		}
		if impl != mod {
			r.Fail(hx.Failure{Kind: "correspondence", Signature: "whereexpr-detect-model", What: fmt.Sprintf("detectExprToken(%q) differs from the model", vs), Case: vs, Impl: impl, Model: mod})
		}
	}
}

// ---------------------------------------------------------------- oracle trees

func randONum(rng *rand.Rand, depth int, names []string) *OTree {
	if depth <= 0 || rng.Intn(3) > 0 {
		if rng.Intn(2) == 0 {
			return &OTree{Op: "field", Kind: "n", Text: names[rng.Intn(len(names))]}
		}
		th := numPool[rng.Intn(len(numPool))]
		if rng.Intn(3) == 0 {
			th = int64(rng.Intn(20001) - 10000)
		}
		txt, f := fmtLit(th)
		return &OTree{Op: "lit", Kind: "n", Text: txt, Num: f}
	}
	op := []string{"+", "-", "*"}[rng.Intn(3)]
	return &OTree{Op: op, Kind: "n", Kids: []*OTree{randONum(rng, depth-1, names), randONum(rng, depth-1, names)}}
}

func RandOTree(rng *rand.Rand, depth int, names []string, strs bool) *OTree {
	if depth <= 0 || rng.Intn(4) == 0 {
		op := []string{"<", "<=", ">", ">=", "==", "!="}[rng.Intn(6)]
		if strs && rng.Intn(4) == 0 {
			a := &OTree{Op: "strfield", Kind: "s", Text: "s"}
			b := &OTree{Op: "strlit", Kind: "s", Text: strPool[rng.Intn(len(strPool))]}
			if rng.Intn(4) == 0 {
				a, b = b, a
			}
			return &OTree{Op: op, Kind: "b", Kids: []*OTree{a, b}}
		}
		return &OTree{Op: op, Kind: "b", Kids: []*OTree{randONum(rng, 1, names), randONum(rng, 1, names)}}
	}
	switch rng.Intn(5) {
	case 0:
		return &OTree{Op: "!", Kind: "b", Kids: []*OTree{RandOTree(rng, depth-1, names, strs)}}
	case 1, 2:
		return &OTree{Op: "&&", Kind: "b", Kids: []*OTree{RandOTree(rng, depth-1, names, strs), RandOTree(rng, depth-1, names, strs)}}
	default:
		return &OTree{Op: "||", Kind: "b", Kids: []*OTree{RandOTree(rng, depth-1, names, strs), RandOTree(rng, depth-1, names, strs)}}
	}
}

// ---------------------------------------------------------------- black box

func idsOf(v srv.Value) ([]string, bool) {
	if v.Kind != '*' || len(v.Array) != 2 || v.Array[1].Kind != '*' {
		return nil, false
	}
	out := []string{}
	for _, e := range v.Array[1].Array {
		out = append(out, e.Str)
	}
	return out, true
}

func reverseStrings(a []string) []string {
	out := make([]string, len(a))
	for i, s := range a {
		out[len(a)-1-i] = s
	}
	return out
}

type clause struct {
	expr       string // expression form, or
	name       string // field form: name, bounds
	minx, maxx bool
	lo, hi     int64 // thousandths
}

func (c clause) args() []string {
	if c.name == "" {
		return []string{"WHERE", c.expr}
	}
	lo, hi := fmtTh(c.lo), fmtTh(c.hi)
	if c.minx {
		lo = "(" + lo
	}
	if c.maxx {
		hi = "(" + hi
	}
	return []string{"WHERE", c.name, lo, hi}
}

func (c clause) modelToks() []string {
	if c.name == "" {
		return []string{"E", model.H(c.expr)}
	}
	return []string{"R", model.H(c.name), model.B(c.minx), NumField("", c.lo).enc(), model.B(c.maxx), NumField("", c.hi).enc()}
}

func blackBox(r *hx.Result, cfg hx.Config, rng *rand.Rand, drv *model.Driver) {
	rounds, queries := 2, 90
	if cfg.Tier == "thorough" || cfg.Search {
		rounds, queries = 12, 500
	}
	for round := 0; round < rounds; round++ {
		s, err := srv.Start(filepath.Join(cfg.Work, fmt.Sprintf("c12x-%d", round)), "--appendonly", "no")
		if err != nil {
			panic(err)
		}
		func() {
			defer s.Kill()
			c := s.MustDial()
			defer c.Close()
			numericOnly := round%2 == 0
			objs := RandObjects(rng, 14+rng.Intn(14), numericOnly)
			var strObjs []*Obj
			for _, o := range objs {
				set := []string{"SET", "k", o.ID}
				sset := []string{"SET", "strs", o.ID}
				for _, f := range o.Fields {
					set = append(set, "FIELD", f.Name, f.Tok)
					sset = append(sset, "FIELD", f.Name, f.Tok)
				}
				if v := c.MustDo(append(set, "POINT", fmt.Sprint(o.Lat), fmt.Sprint(o.Lon))...); v.IsErr() {
					panic("SET failed: " + v.Str)
				}
				sv := "v-" + o.ID
				if v := c.MustDo(append(sset, "STRING", sv)...); v.IsErr() {
					panic("SET STRING failed: " + v.Str)
				}
				strObjs = append(strObjs, &Obj{ID: o.ID, Str: &sv, Fields: o.Fields})
			}
			objToks := func(list []*Obj) []string {
				t := []string{strconv.Itoa(len(list))}
				for _, o := range list {
					t = append(t, o.ModelToks()...)
				}
				return t
			}
			kToks, sToks := objToks(objs), objToks(strObjs)
			names := []string{"f", "g", "age", "price", "x1", "zz"}

			for qi := 0; qi < queries; qi++ {
				var cls []clause
				var ot *OTree
				var bt *BTree
				cand := map[string]bool{}
				kind := ""
				quirk := ""
				switch k := rng.Intn(12); {
				case k >= 10: // a tree of Model/WhereExprTree.v, printed by the extracted Coq printer
					bt = RandBTree(rng, 1+rng.Intn(3), names, !numericOnly)
					txt, wf := bt.Print(drv)
					if !wf {
						panic("generated tree is not well formed: " + txt)
					}
					ot = bt.OTree()
					cls = []clause{{expr: txt}}
					kind = "coq-tree"
				case k < 5: // oracle tree, safe spelling
					ot = RandOTree(rng, 1+rng.Intn(3), names, !numericOnly)
					cls = []clause{{expr: ot.Print(false, rng.Intn(3) == 0)}}
					kind = "oracle-tree"
				case k == 5: // oracle tree, compact spelling
					ot = RandOTree(rng, 1+rng.Intn(2), names, !numericOnly)
					cls = []clause{{expr: ot.Print(true, false)}}
					quirk = QuirkOf(cls[0].expr)
					kind = "oracle-tree-compact"
				case k == 6: // expression clause next to a field clause
					ot = RandOTree(rng, 1, names, false)
					lo := numPool[rng.Intn(len(numPool))]
					cls = []clause{{expr: ot.Print(false, false)}, {name: []string{"f", "g"}[rng.Intn(2)], lo: lo, hi: lo + int64(rng.Intn(9000)), minx: rng.Intn(2) == 0, maxx: rng.Intn(2) == 0}}
					if rng.Intn(2) == 0 {
						cls[0], cls[1] = cls[1], cls[0]
					}
					kind = "mixed-clauses"
				case k == 7: // mutated / soup
					e := RandExpr(rng, 2).Print(RandStyle(rng))
					if rng.Intn(2) == 0 {
						e = Mutate(rng, e)
					} else {
						e = Soup(rng, 1+rng.Intn(6))
					}
					cls = []clause{{expr: e}}
					kind = "malformed"
				default: // any tree
					t := RandExpr(rng, 1+rng.Intn(3))
					t.Strings(cand)
					cls = []clause{{expr: t.Print(RandStyle(rng))}}
					kind = "tree"
				}
				if cls[0].name == "" && cls[0].expr == "" {
					continue // an empty token after WHERE is not an expression clause
				}
				var args, ctoks []string
				for _, cl := range cls {
					args = append(args, cl.args()...)
					ctoks = append(ctoks, cl.modelToks()...)
				}
				show := fmt.Sprintf("%q", args)
				cs := map[string]interface{}{"round": round, "query": show}
				cmd := func(head []string, tail ...string) srv.Value {
					return c.MustDo(append(append(append([]string{}, head...), args...), tail...)...)
				}
				res := cmd([]string{"SCAN", "k"}, "IDS")
				asc, ok := idsOf(res)
				r.Dist("wxbb:" + kind)
				if !ok {
					// a WHERE clause the command parser refuses is fine for malformed input, not for a generated tree
					if kind != "malformed" && kind != "tree" {
						r.Fail(hx.Failure{Kind: "oracle", Signature: "whereexpr-rejected", What: fmt.Sprintf("SCAN k %s IDS was not answered with an id list: %s", show, res.String()), Case: cs})
					}
					r.Count("x"+strconv.Itoa(round)+"/"+show, false)
					continue
				}
				r.Count("x"+strconv.Itoa(round)+"/"+show, len(asc) > 0 && len(asc) < len(objs))
				tables := Tables(objs, cand)
				ask := func(desc bool, toks []string) (string, []string) {
					rep := drv.Ask(append(append(append([]string{"wx_scan", model.B(desc)}, toks...), append([]string{strconv.Itoa(len(cls))}, ctoks...)...), tables...)...)
					f := strings.Fields(rep)
					if len(f) < 2 || f[0] != "ok" {
						return rep, nil
					}
					ids := []string{}
					for _, h := range f[2:] {
						ids = append(ids, model.U(h))
					}
					return "ok", ids
				}
				// (a) the model
				mst, mids := ask(false, kToks)
				if mst == "outside" {
					r.Dist("wxbb:outside")
				} else if mst != "ok" || strings.Join(mids, " ") != strings.Join(asc, " ") {
					r.Fail(hx.Failure{Kind: "correspondence", Signature: "whereexpr-scan-model",
						What: fmt.Sprintf("SCAN k %s IDS differs from Model.WhereExprScan.scan_expr_ids", show), Case: cs, Impl: strings.Join(asc, " "), Model: mst + " " + strings.Join(mids, " ")})
				}
				// (a') the denotation of the tree (what c12_expr_print_eval says the text evaluates to)
				if bt != nil {
					var dids []string
					okAll := true
					for _, o := range objs {
						switch bt.ModelHolds(drv, o, tables) {
						case "ok 1":
							dids = append(dids, o.ID)
						case "ok 0":
						default:
							okAll = false
						}
					}
					if okAll && strings.Join(dids, " ") != strings.Join(asc, " ") {
						r.Fail(hx.Failure{Kind: "correspondence", Signature: "whereexpr-den-model",
							What: fmt.Sprintf("SCAN k %s IDS differs from the denotation Model.WhereExprTree.den_match of the tree", show), Case: cs,
							Impl: strings.Join(asc, " "), Model: strings.Join(dids, " ")})
					}
				}
				// (b) the documented meaning
				if ot != nil {
					var want, got []string
					skip := map[string]bool{}
					for _, o := range objs {
						keep, def := ot.EvalBool(o)
						for _, cl := range cls {
							if cl.name != "" {
								f, ok := o.Get(cl.name)
								v := 0.0
								if ok {
									v = f.F
									if f.Kind != KNumber || math.IsNaN(v) || math.IsInf(v, 0) {
										def = false
									}
								}
								lo, hi := float64(cl.lo)/1000, float64(cl.hi)/1000
								keep = keep && (v > lo || (!cl.minx && v == lo)) && (v < hi || (!cl.maxx && v == hi))
							}
						}
						if !def {
							skip[o.ID] = true
						} else if keep {
							want = append(want, o.ID)
						}
					}
					for _, id := range asc {
						if !skip[id] {
							got = append(got, id)
						}
					}
					if strings.Join(got, " ") != strings.Join(want, " ") {
						sig := "whereexpr-filter"
						if quirk != "" {
							sig = "whereexpr-quirk-" + quirk
						}
						r.Fail(hx.Failure{Kind: "oracle", Signature: sig,
							What: fmt.Sprintf("SCAN k %s IDS returned %v; the objects satisfying %s (missing field = 0) are %v", show, got, ot.Describe(), want), Case: cs})
					}
				}
				// COUNT = |IDS|, DESC = reverse
				if cv := cmd([]string{"SCAN", "k"}, "COUNT"); cv.Kind != ':' || int(cv.Int) != len(asc) {
					r.Fail(hx.Failure{Kind: "oracle", Signature: "whereexpr-count", What: fmt.Sprintf("SCAN k %s COUNT = %s but IDS returns %d ids", show, cv.String(), len(asc)), Case: cs})
				}
				if desc, ok := idsOf(cmd([]string{"SCAN", "k"}, "DESC", "IDS")); !ok || strings.Join(desc, " ") != strings.Join(reverseStrings(asc), " ") {
					r.Fail(hx.Failure{Kind: "oracle", Signature: "whereexpr-desc", What: fmt.Sprintf("SCAN k %s DESC IDS returned %v, ASC returned %v", show, desc, asc), Case: cs})
				}
				// the other commands through the same filter
				if qi%3 == 0 {
					// string objects: `this` and `type` read differently, so they have their own model run
					if sids, ok := idsOf(cmd([]string{"SEARCH", "strs"}, "IDS")); ok {
						mst, mids := ask(false, sToks)
						if mst == "ok" && strings.Join(mids, " ") != strings.Join(sids, " ") {
							r.Fail(hx.Failure{Kind: "correspondence", Signature: "whereexpr-search-model",
								What: fmt.Sprintf("SEARCH strs %s IDS differs from the model", show), Case: cs, Impl: strings.Join(sids, " "), Model: strings.Join(mids, " ")})
						}
						if cv := cmd([]string{"SEARCH", "strs"}, "COUNT"); cv.Kind != ':' || int(cv.Int) != len(sids) {
							r.Fail(hx.Failure{Kind: "oracle", Signature: "whereexpr-count", What: fmt.Sprintf("SEARCH strs %s COUNT = %s but IDS returns %d ids", show, cv.String(), len(sids)), Case: cs})
						}
					}
					for _, oc := range []struct {
						what string
						tail []string
					}{{"WITHIN", []string{"BOUNDS", "-90", "-180", "90", "180"}}, {"INTERSECTS", []string{"BOUNDS", "-90", "-180", "90", "180"}}, {"NEARBY", []string{"POINT", "1", "1"}}} {
						ids, ok := idsOf(cmd([]string{oc.what, "k"}, append([]string{"IDS"}, oc.tail...)...))
						if ok {
							ids = append([]string{}, ids...)
							sort.Strings(ids)
						}
						r.Dist("wxbb:" + oc.what)
						if !ok || strings.Join(ids, " ") != strings.Join(asc, " ") {
							r.Fail(hx.Failure{Kind: "oracle", Signature: "whereexpr-same-filter",
								What: fmt.Sprintf("%s k %s IDS returned %v but SCAN k with the same filter returned %v", oc.what, show, ids, asc), Case: cs})
						}
					}
				}
			}

			// WHERE f a b  =  WHERE "f >= a && f <= b" (exclusive bounds: > and <) on finite numbers / missing fields
			if numericOnly {
				for i := 0; i < 40; i++ {
					name := []string{"f", "g", "age", "zz"}[rng.Intn(4)]
					lo := numPool[rng.Intn(len(numPool))]
					if rng.Intn(2) == 0 {
						lo = int64(rng.Intn(11)-5) * 1000 // integer bounds
					}
					hi := lo + int64(rng.Intn(8))*1000
					minx, maxx := rng.Intn(2) == 0, rng.Intn(2) == 0
					cl := clause{name: name, lo: lo, hi: hi, minx: minx, maxx: maxx}
					ge, le := ">=", "<="
					if minx {
						ge = ">"
					}
					if maxx {
						le = "<"
					}
					lit := func(th int64) string {
						if th < 0 {
							return "(" + fmtTh(th) + ")"
						}
						return fmtTh(th)
					}
					e := fmt.Sprintf("%s %s %s && %s %s %s", name, ge, lit(lo), name, le, lit(hi))
					a, ok1 := idsOf(c.MustDo(append(append([]string{"SCAN", "k"}, cl.args()...), "IDS")...))
					b, ok2 := idsOf(c.MustDo("SCAN", "k", "WHERE", e, "IDS"))
					r.Dist("wxbb:range-agree")
					r.Count(fmt.Sprintf("ra%d/%s", round, e), len(a) > 0 && len(a) < len(objs))
					if !ok1 || !ok2 || strings.Join(a, " ") != strings.Join(b, " ") {
						r.Fail(hx.Failure{Kind: "oracle", Signature: "whereexpr-range-agree",
							What: fmt.Sprintf("SCAN k %q IDS returned %v but SCAN k WHERE %q IDS returned %v", cl.args(), a, e, b), Case: map[string]interface{}{"round": round, "range": cl.args(), "expr": e}})
					}
				}
			}
			if !s.Alive() {
				r.Fail(hx.Failure{Kind: "oracle", Signature: "whereexpr-server-died", What: "the server exited during WHERE expression queries: " + s.LogTail(5), Case: round})
			}
		}()
	}
}

// directed cases of the two known scanning quirks: they are reported on every run (known findings)
func quirks(r *hx.Result, cfg hx.Config) {
	s, err := srv.Start(filepath.Join(cfg.Work, "c12x-quirk"), "--appendonly", "no")
	if err != nil {
		panic(err)
	}
	defer s.Kill()
	c := s.MustDial()
	defer c.Close()
	c.MustDo("SET", "k", "a", "FIELD", "price", "25", "FIELD", "f", "5", "POINT", "1", "1")
	c.MustDo("SET", "k", "b", "FIELD", "price", "5", "FIELD", "f", "-5", "POINT", "2", "2")
	for _, q := range []struct {
		e, sig, meaning string
		want            []string
	}{
		{"price-10 > 0", "whereexpr-quirk-ident-e-sign", "price - 10 > 0", []string{"a"}},
		{"f*-1 < 3", "whereexpr-quirk-sign-after-factor", "f * (-1) < 3", []string{"a"}},
	} {
		got, ok := idsOf(c.MustDo("SCAN", "k", "WHERE", q.e, "IDS"))
		ref, _ := idsOf(c.MustDo("SCAN", "k", "WHERE", q.meaning, "IDS"))
		r.Dist("wxbb:quirk")
		r.Count("quirk/"+q.e, true)
		if strings.Join(ref, " ") != strings.Join(q.want, " ") {
			r.Fail(hx.Failure{Kind: "oracle", Signature: "whereexpr-filter", What: fmt.Sprintf("SCAN k WHERE %q IDS returned %v, expected %v", q.meaning, ref, q.want), Case: q.meaning})
		}
		if !ok || strings.Join(got, " ") != strings.Join(q.want, " ") {
			r.Fail(hx.Failure{Kind: "oracle", Signature: q.sig,
				What: fmt.Sprintf("SCAN k WHERE %q IDS returned %v although %q returns %v: the evaluator takes the sign for part of a number / refuses a sign after a factor operator, the error is swallowed and no object is kept", q.e, got, q.meaning, ref), Case: q.e})
		}
	}
}

// long and deep inputs: the evaluator re-scans the text at every nesting level (quadratic) and recurses per
// level; the server must answer and stay alive.  Only sizes that finish in well under a second are sent.
func stress(r *hx.Result, cfg hx.Config) {
	o := corpusObject()
	type tc struct{ name, e string }
	cases := []tc{
		{"nested-parens-2000", strings.Repeat("(", 2000) + "1" + strings.Repeat(")", 2000)},
		{"nested-brackets-500", strings.Repeat("[", 500) + "1" + strings.Repeat("]", 500)},
		{"unbalanced-open-5000", strings.Repeat("(", 5000)},
		{"unbalanced-close-5000", strings.Repeat(")", 5000)},
		{"bang-chain-5000", strings.Repeat("!", 5000) + "1"},
		{"and-chain-1500", strings.Repeat("1 && ", 1500) + "1"},
		{"ternary-chain-400", strings.Repeat("1 ? ", 400) + "1" + strings.Repeat(" : 0", 400)},
		{"long-string-20000", "\"" + strings.Repeat("a", 20000) + "\" == s"},
		{"backslashes-3000", "\"" + strings.Repeat("\\\\", 3000) + "\""},
		{"member-chain-1000", "j" + strings.Repeat(".a", 1000)},
		{"minus-chain-3000", strings.Repeat("- ", 3000) + "1"},
	}
	timing := map[string]float64{}
	for _, t := range cases {
		t0 := time.Now()
		_, _, _, p := verifapi.WxEval(t.e, o.Wx())
		dt := time.Since(t0).Seconds()
		timing[t.name] = math.Round(dt*1e4) / 1e4
		r.Dist("wx:stress")
		r.Count("stress/"+t.name, false)
		if p != "" {
			r.Fail(hx.Failure{Kind: "oracle", Signature: "whereexpr-panic", What: fmt.Sprintf("expr.Eval panicked on %s: %s", t.name, p), Case: t.name})
		}
		if dt > 20 {
			r.Fail(hx.Failure{Kind: "oracle", Signature: "whereexpr-slow", What: fmt.Sprintf("expr.Eval took %.1f s on %s (%d bytes)", dt, t.name, len(t.e)), Case: t.name})
		}
	}
	r.Extra["whereexpr_stress_seconds"] = timing
}

// Run: the whole WHERE "<expr>" check.
func Run(r *hx.Result, cfg hx.Config, rng *rand.Rand) {
	drv, err := model.Start("whereexpr")
	if err != nil {
		panic(err)
	}
	defer drv.Close()
	inPackage(r, cfg, rng, drv)
	blackBox(r, cfg, rng, drv)
	quirks(r, cfg)
	stress(r, cfg)
}
