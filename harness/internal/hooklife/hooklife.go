// Package hooklife ties the hook / channel life-cycle model (coq/Model/HookLife.v, extracted to
// ocaml/hooklife) to the server: random programs of SETHOOK / SETCHAN / DELHOOK / DELCHAN / PDELHOOK /
// PDELCHAN / HOOKS / CHANS / FLUSHDB (and RENAMENX for the rename guard) are run on a real server and
// on the model; every reply, the HOOKS * / CHANS * listings (RESP and JSON, ttl within the window the
// round-trip times allow), the bytes of the AOF, the state after a restart / kill -9 / a cut of the AOF
// at an arbitrary byte, and the records the hook sweeper writes are compared.
// It is used by harness/cmd/c03 (restart, crash prefix, log = model log), harness/cmd/c14 (ttl, sweeper)
// and harness/cmd/c19 (listing sizes).
package hooklife

import (
	"encoding/json"
	"fmt"
	"math/rand"
	"os"
	"path/filepath"
	"sort"
	"strconv"
	"strings"
	"sync"
	"time"
	"unicode/utf8"

	"github.com/tidwall/tile38/verifapi"

	"verifharness/internal/hx"
	"verifharness/internal/model"
	"verifharness/internal/srv"
)

// ---------- oracle tables (direct library calls, not the server path) ----------

func lowerASCII(s string) string {
	b := []byte(s)
	for i, c := range b {
		if c >= 'A' && c <= 'Z' {
			b[i] = c + 32
		}
	}
	return string(b)
}

// oracleFor builds the table the model needs for one command: TrimSpace and endpoint validation of
// every comma piece of every token, ParseFloat+Duration of every token, and the fence parse of every
// suffix that starts after a fence command word.
func oracleFor(args []string) string {
	if len(args) == 0 {
		return "."
	}
	c := lowerASCII(args[0])
	if c != "sethook" && c != "setchan" {
		return "."
	}
	var t, v, d, f []string
	seenT, seenV, seenD := map[string]bool{}, map[string]bool{}, map[string]bool{}
	for i, a := range args {
		if i == 2 && c == "sethook" {
			for _, piece := range strings.Split(a, ",") {
				tr := strings.TrimSpace(piece)
				if !seenT[piece] {
					seenT[piece] = true
					t = append(t, model.H(piece)+"="+model.H(tr))
				}
				if !seenV[tr] {
					seenV[tr] = true
					ok := "0"
					if verifapi.HookEndpointValidate(tr) == "" {
						ok = "1"
					}
					v = append(v, model.H(tr)+"="+ok)
				}
			}
		}
		if i >= 2 && !seenD[a] {
			seenD[a] = true
			x, err := strconv.ParseFloat(a, 64)
			if err != nil {
				d = append(d, model.H(a)+"=x")
			} else {
				d = append(d, model.H(a)+"="+strconv.FormatInt(int64(time.Duration(x*float64(time.Second))), 10))
			}
		}
		if i >= 2 {
			lc := lowerASCII(a)
			if lc == "nearby" || lc == "within" || lc == "intersects" {
				key, e := verifapi.HookFenceParse(lc, args[i+1:])
				n := strconv.Itoa(len(args) - i - 1)
				if e != "" {
					f = append(f, n+"=e"+model.H(e))
				} else {
					f = append(f, n+"=k"+model.H(key))
				}
			}
		}
	}
	return "t:" + strings.Join(t, "/") + ";v:" + strings.Join(v, "/") + ";d:" + strings.Join(d, "/") + ";f:" + strings.Join(f, "/")
}

// ---------- model replies ----------

type item struct {
	Name, Key string
	TTL       int64
	Eps, Args []string
	Metas     [][2]string
}

type mreply struct {
	Updated bool
	Kind    byte // 'i' 'o' 'e' 'l'
	Int     int64
	Err     string
	Items   []item
}

func unhexList(s, sep string) []string {
	if s == "" {
		return nil
	}
	var out []string
	for _, x := range strings.Split(s, sep) {
		out = append(out, model.U(x))
	}
	return out
}

func parseItem(s string) item {
	p := strings.Split(s, ",")
	if len(p) != 6 {
		panic("bad item from model: " + s)
	}
	it := item{Name: model.U(p[0]), Key: model.U(p[1]), Eps: unhexList(p[3], "+"), Args: unhexList(p[4], "+")}
	it.TTL, _ = strconv.ParseInt(p[2], 10, 64)
	if p[5] != "" {
		for _, kv := range strings.Split(p[5], "+") {
			x := strings.SplitN(kv, "=", 2)
			it.Metas = append(it.Metas, [2]string{model.U(x[0]), model.U(x[1])})
		}
	}
	return it
}

func parseReply(s string) mreply {
	if len(s) < 3 || (s[0] != '0' && s[0] != '1') || s[1] != ' ' {
		panic("bad reply from hooklife model: " + s)
	}
	r := mreply{Updated: s[0] == '1'}
	b := s[2:]
	switch {
	case b == "ok":
		r.Kind = 'o'
	case strings.HasPrefix(b, "i:"):
		r.Kind = 'i'
		r.Int, _ = strconv.ParseInt(b[2:], 10, 64)
	case strings.HasPrefix(b, "e:"):
		r.Kind = 'e'
		r.Err = model.U(b[2:])
	case strings.HasPrefix(b, "l:"):
		r.Kind = 'l'
		if b[2:] != "" {
			for _, x := range strings.Split(b[2:], "|") {
				r.Items = append(r.Items, parseItem(x))
			}
		}
	default:
		panic("bad reply from hooklife model: " + s)
	}
	return r
}

// writeErr of handleInputCommand (RESP): the text after '-'
func respErr(cmd, msg string) string {
	if msg == "invalid number of arguments" {
		return "ERR wrong number of arguments for '" + lowerASCII(cmd) + "' command"
	}
	word := strings.Split(msg, " ")[0]
	uc := len(word) > 0
	for i := 0; i < len(word); i++ {
		if word[i] < 'A' || word[i] > 'Z' {
			uc = false
		}
	}
	if !uc {
		msg = "ERR " + msg
	}
	return strings.NewReplacer("\r", " ", "\n", " ").Replace(msg)
}

func bulk(s string) string { return "$" + strconv.Quote(s) }
func bulks(l []string) string {
	q := make([]string, len(l))
	for i, x := range l {
		q[i] = bulk(x)
	}
	return "[" + strings.Join(q, " ") + "]"
}

// the RESP listing of cmdHooks in srv.Value.String() form (no ttl in RESP)
func respItem(it item) string {
	var m []string
	for _, kv := range it.Metas {
		m = append(m, kv[0], kv[1])
	}
	return "[" + bulk(it.Name) + " " + bulk(it.Key) + " " + bulks(it.Eps) + " " + bulks(it.Args) + " " + bulks(m) + "]"
}

// expected RESP reply in srv.Value.String() form
func (m mreply) resp(cmd string) string {
	switch m.Kind {
	case 'i':
		return ":" + strconv.FormatInt(m.Int, 10)
	case 'o':
		return "+OK"
	case 'e':
		return "-" + respErr(cmd, m.Err)
	}
	q := make([]string, len(m.Items))
	for i, it := range m.Items {
		q[i] = respItem(it)
	}
	return "[" + strings.Join(q, " ") + "]"
}

// ---------- JSON listing of the server ----------

type jitem struct {
	Name      string            `json:"name"`
	Key       string            `json:"key"`
	TTL       int64             `json:"ttl"`
	Endpoints []string          `json:"endpoints"`
	Command   []string          `json:"command"`
	Meta      map[string]string `json:"meta"`
}

type jreply struct {
	OK    bool    `json:"ok"`
	Err   string  `json:"err"`
	Hooks []jitem `json:"hooks"`
	Chans []jitem `json:"chans"`
}

// canonical text of a listing item without its ttl
func canonItem(name, key string, eps, args []string, metas map[string]string, withEps bool) string {
	var mk []string
	for k := range metas {
		mk = append(mk, k)
	}
	sort.Strings(mk)
	var sb strings.Builder
	fmt.Fprintf(&sb, "%q key=%q", name, key)
	if withEps {
		fmt.Fprintf(&sb, " eps=%q", eps)
	}
	fmt.Fprintf(&sb, " cmd=%q meta=", args)
	for _, k := range mk {
		fmt.Fprintf(&sb, "%q:%q,", k, metas[k])
	}
	return sb.String()
}

// jsonText is what a JSON reply can carry of a byte string: every byte that is not part of a valid
// UTF-8 sequence arrives as U+FFFD (the listings compared through JSON are compared modulo this;
// the RESP listings compare the raw bytes).
func jsonText(s string) string {
	if utf8.ValidString(s) {
		return s
	}
	var sb strings.Builder
	for i := 0; i < len(s); {
		r, n := utf8.DecodeRuneInString(s[i:])
		if r == utf8.RuneError && n == 1 {
			sb.WriteString("\uFFFD")
		} else {
			sb.WriteString(s[i : i+n])
		}
		i += n
	}
	return sb.String()
}

func jsonTexts(l []string) []string {
	out := make([]string, len(l))
	for i, x := range l {
		out[i] = jsonText(x)
	}
	return out
}

func (it item) canon(withEps bool) string {
	m := map[string]string{}
	for _, kv := range it.Metas {
		m[jsonText(kv[0])] = jsonText(kv[1])
	}
	return canonItem(jsonText(it.Name), jsonText(it.Key), jsonTexts(it.Eps), jsonTexts(it.Args), m, withEps)
}

func ttlClass(t int64) string {
	if t < 0 {
		return "none"
	}
	return "deadline"
}

// ---------- one session: a server, its two connections, the model state ----------

type session struct {
	r         *hx.Result
	mu        *sync.Mutex
	drv       *model.Driver
	sid       string
	s         *srv.Server
	c, cj     *srv.Conn
	hist      []string
	maxRT     int64 // largest round trip of a state-changing command so far (ns)
	dead      bool
	kinds     map[string]bool
	effective int
}

func (x *session) fail(kind, sig, what string, impl, mdl interface{}) {
	x.mu.Lock()
	defer x.mu.Unlock()
	h := x.hist
	if len(h) > 60 {
		h = append([]string{fmt.Sprintf("... %d earlier commands ...", len(h)-60)}, h[len(h)-60:]...)
	}
	x.r.Fail(hx.Failure{Kind: kind, Signature: sig, What: what, Case: append([]string{}, h...), Impl: impl, Model: mdl})
}

func (x *session) connect() {
	x.c = x.s.MustDial()
	x.cj = x.s.MustDial()
	x.cj.MustDo("OUTPUT", "json")
}

func hexArgs(args []string) []string {
	out := make([]string, len(args))
	for i, a := range args {
		out[i] = model.H(a)
	}
	return out
}

func (x *session) ask(now int64, args []string) mreply {
	toks := append([]string{"cmd", x.sid, strconv.FormatInt(now, 10), oracleFor(args)}, hexArgs(args)...)
	out := x.drv.Ask(toks...)
	if strings.HasPrefix(out, "!exn") || strings.HasPrefix(out, "?") {
		panic("hooklife model driver: " + out + " on " + strings.Join(toks, " "))
	}
	return parseReply(out)
}

// step runs one command on the server (RESP, or the JSON connection when viaJSON) and on the model
// and compares the replies.
func (x *session) step(args []string, viaJSON bool) bool {
	t0 := time.Now().UnixNano()
	var v srv.Value
	var err error
	if viaJSON {
		v, err = x.cj.Do(args...)
	} else {
		v, err = x.c.Do(args...)
	}
	t1 := time.Now().UnixNano()
	x.hist = append(x.hist, fmt.Sprintf("%q", args))
	if err != nil {
		x.dead = true
		x.fail("oracle", "hooklife-server-died", fmt.Sprintf("connection lost on %q: %v; log: %s", args, err, x.s.LogTail(400)), nil, nil)
		return false
	}
	m := x.ask(t0, args)
	if m.Updated {
		if t1-t0 > x.maxRT {
			x.maxRT = t1 - t0
		}
		x.effective++
		x.kinds[lowerASCII(args[0])] = true
	}
	if viaJSON {
		var j jreply
		if e := json.Unmarshal([]byte(v.Str), &j); e != nil {
			x.fail("correspondence", "hooklife-reply", fmt.Sprintf("%q in JSON mode: reply does not parse: %q", args, v.Str), v.String(), nil)
			return false
		}
		switch m.Kind {
		case 'e':
			if j.OK || j.Err != m.Err {
				x.fail("correspondence", "hooklife-reply", fmt.Sprintf("%q (JSON): server %q, model error %q", args, v.Str, m.Err), v.Str, m.Err)
				return false
			}
		case 'l':
			x.compareJSONListing(args, j, m, t0, t1)
		default:
			if !j.OK {
				x.fail("correspondence", "hooklife-reply", fmt.Sprintf("%q (JSON): server %q, model accepts", args, v.Str), v.Str, m.resp(args[0]))
				return false
			}
		}
		return true
	}
	if got, want := v.String(), m.resp(args[0]); got != want {
		x.fail("correspondence", "hooklife-reply", fmt.Sprintf("%q: server replies %s, model %s", args, got, want), got, want)
		return false
	}
	return true
}

// compareJSONListing: items (without ttl) must be equal and in the same order; each ttl must lie in
// the window [model ttl at the time the reply arrived, model ttl at the time the request left with
// every deadline moved later by the largest round trip seen].
func (x *session) compareJSONListing(args []string, j jreply, m mreply, t0, t1 int64) {
	chans := lowerASCII(args[0]) == "chans"
	items := j.Hooks
	if chans {
		items = j.Chans
	}
	var got, want []string
	for _, it := range items {
		got = append(got, canonItem(it.Name, it.Key, it.Endpoints, it.Command, it.Meta, !chans)+" "+ttlClass(it.TTL))
	}
	for _, it := range m.Items {
		want = append(want, it.canon(!chans)+" "+ttlClass(it.TTL))
	}
	if strings.Join(got, "\n") != strings.Join(want, "\n") {
		x.fail("correspondence", "hooklife-listing", fmt.Sprintf("%q (JSON): listing differs from the model's", args), got, want)
		return
	}
	lo := x.ask(t1, args)           // latest possible server clock
	hi := x.ask(t0-x.maxRT-1, args) // earliest clock, deadlines as late as a round trip allows
	for i, it := range items {
		if it.TTL < 0 {
			continue
		}
		if it.TTL < lo.Items[i].TTL || it.TTL > hi.Items[i].TTL {
			x.fail("correspondence", "hooklife-ttl", fmt.Sprintf("%q: %s reports ttl %d, the model allows %d..%d", args, it.Name, it.TTL, lo.Items[i].TTL, hi.Items[i].TTL), it.TTL, []int64{lo.Items[i].TTL, hi.Items[i].TTL})
			return
		}
	}
}

// listing returns the server's HOOKS * and CHANS * (JSON) in canonical form, ttl as a class.
func listing(cj *srv.Conn) (string, error) {
	var out []string
	for _, what := range []string{"HOOKS", "CHANS"} {
		v, err := cj.Do(what, "*")
		if err != nil {
			return "", err
		}
		var j jreply
		if e := json.Unmarshal([]byte(v.Str), &j); e != nil || !j.OK {
			return "", fmt.Errorf("%s *: %q", what, v.Str)
		}
		items := j.Hooks
		if what == "CHANS" {
			items = j.Chans
		}
		for _, it := range items {
			out = append(out, what+" "+canonItem(it.Name, it.Key, it.Endpoints, it.Command, it.Meta, what == "HOOKS")+" "+ttlClass(it.TTL))
		}
	}
	return strings.Join(out, "\n"), nil
}

// modelListing renders the model state sid the same way.
func modelListing(drv *model.Driver, sid string) string {
	var out []string
	for _, what := range []string{"hooks", "chans"} {
		m := parseReply(drv.Ask("cmd", sid, "0", ".", model.H(what), model.H("*")))
		for _, it := range m.Items {
			out = append(out, strings.ToUpper(what)+" "+it.canon(what == "hooks")+" "+ttlClass(it.TTL))
		}
	}
	return strings.Join(out, "\n")
}

// checkListings compares HOOKS * / CHANS * (RESP and JSON) with the model.
func (x *session) checkListings() bool {
	ok := true
	for _, what := range []string{"HOOKS", "CHANS"} {
		ok = x.step([]string{what, "*"}, false) && ok
		ok = x.step([]string{what, "*"}, true) && ok
	}
	return ok
}

// ---------- AOF ----------

// parseAOF reads the RESP arrays of an append-only file; ok = false when the bytes are not a
// sequence of complete arrays of bulk strings. ends[i] = offset just after record i.
func parseAOF(b []byte) (recs [][]string, ends []int, ok bool) {
	i := 0
	line := func() (string, bool) {
		j := i
		for j+1 < len(b) && !(b[j] == '\r' && b[j+1] == '\n') {
			j++
		}
		if j+1 >= len(b) {
			return "", false
		}
		s := string(b[i:j])
		i = j + 2
		return s, true
	}
	for i < len(b) {
		if b[i] != '*' {
			return recs, ends, false
		}
		i++
		l, k := line()
		if !k {
			return recs, ends, false
		}
		n, err := strconv.Atoi(l)
		if err != nil || n < 0 {
			return recs, ends, false
		}
		var rec []string
		for a := 0; a < n; a++ {
			if i >= len(b) || b[i] != '$' {
				return recs, ends, false
			}
			i++
			l, k := line()
			if !k {
				return recs, ends, false
			}
			m, err := strconv.Atoi(l)
			if err != nil || m < 0 || i+m+2 > len(b) {
				return recs, ends, false
			}
			rec = append(rec, string(b[i:i+m]))
			i += m + 2
		}
		recs = append(recs, rec)
		ends = append(ends, i)
	}
	return recs, ends, true
}

func isHookRecord(rec []string) bool {
	if len(rec) == 0 {
		return false
	}
	switch lowerASCII(rec[0]) {
	case "sethook", "setchan", "delhook", "delchan", "pdelhook", "pdelchan", "flushdb":
		return true
	}
	return false
}

func (x *session) modelLog() [][]string {
	out := x.drv.Ask("log", x.sid)
	var recs [][]string
	if out == "" {
		return recs
	}
	for _, r := range strings.Split(out, "|") {
		recs = append(recs, unhexList(r, "+"))
	}
	return recs
}

func fmtRecs(recs [][]string) []string {
	out := make([]string, len(recs))
	for i, r := range recs {
		out[i] = fmt.Sprintf("%q", r)
	}
	return out
}

// checkAOF: the hook / channel / flushdb records of appendonly.aof are exactly the model's log.
func (x *session) checkAOF() (recs [][]string, ends []int, raw []byte, ok bool) {
	raw, err := os.ReadFile(filepath.Join(x.s.Dir, "appendonly.aof"))
	if err != nil {
		x.fail("oracle", "hooklife-aof-unreadable", err.Error(), nil, nil)
		return nil, nil, nil, false
	}
	recs, ends, ok = parseAOF(raw)
	if !ok {
		x.fail("oracle", "hooklife-aof-unparsable", "appendonly.aof is not a sequence of complete RESP arrays", nil, nil)
		return nil, nil, nil, false
	}
	var hk [][]string
	for _, r := range recs {
		if isHookRecord(r) {
			hk = append(hk, r)
		}
	}
	got, want := fmtRecs(hk), fmtRecs(x.modelLog())
	if strings.Join(got, "\n") != strings.Join(want, "\n") {
		i := 0
		for i < len(got) && i < len(want) && got[i] == want[i] {
			i++
		}
		g, w := "<end of file>", "<end of log>"
		if i < len(got) {
			g = got[i]
		}
		if i < len(want) {
			w = want[i]
		}
		x.fail("correspondence", "hooklife-log", fmt.Sprintf("appendonly.aof and the model's log differ at hook record %d: file %s, model %s", i, g, w), got, want)
		return recs, ends, raw, false
	}
	return recs, ends, raw, true
}

// ---------- generator ----------

var hookNames = []string{"h0", "h1", "h2", "h10", "c0", "c1", "c2", "Hx", "a\xffb", "zz"}
var fenceKeys = []string{"fleet", "zoo"}
var urlsOK = []string{"http://127.0.0.1:1/x", "http://127.0.0.1:1/a,http://127.0.0.1:1/b", " http://127.0.0.1:1/sp ,\thttp://127.0.0.1:1/b", "redis://127.0.0.1:1/ch", "http://127.0.0.1:1/a,http://127.0.0.1:1/a"}
var urlsBad = []string{"bogus://x", "http://127.0.0.1:1/a,,http://127.0.0.1:1/b", "http://127.0.0.1:1/a, ", "", "nothing", "http://127.0.0.1:1/a,ftp://x/y"}
var patterns = []string{"*", "h*", "c*", "h1*", "?0", "[a-h]*", "h1", "zz", "H*", "*0", "a\xff*", "h[0-1]", "", "nomatch*"}

func pick(rng *rand.Rand, l []string) string { return l[rng.Intn(len(l))] }

func genFence(rng *rand.Rand) []string {
	k := pick(rng, fenceKeys)
	if rng.Intn(8) == 0 {
		// malformed / refused fence commands
		return [][]string{
			{"NEARBY", k, "FENCE", "POINT", "33"},
			{"NEARBY", k, "FENCE", "POINT", "33", "abc", "10"},
			{"WITHIN", k, "FENCE", "BOGUS", "1", "2"},
			{"WITHIN", k, "FENCE"},
			{"NEARBY"},
			{"SCAN", k},
			{"NEARBY", k, "FENCE", "DETECT", "bogus", "POINT", "1", "2", "3"},
			{"WITHIN", k, "FENCE", "BOUNDS", "0", "0", "10"},
			{"INTERSECTS", k, "FENCE", "OBJECT", `{"type":"Poi`},
			{"NEARBY", k, "LIMIT", "x", "FENCE", "POINT", "1", "2", "3"},
			{"WITHIN", k, "FENCE", "ROAM", "o", "*", "10"},
			{},
		}[rng.Intn(12)]
	}
	f := [][]string{
		{"NEARBY", k, "FENCE", "POINT", "33", "-112", "5000"},
		{"NEARBY", k, "FENCE", "DETECT", "enter,exit", "POINT", "33", "-112", "5000"},
		{"WITHIN", k, "FENCE", "BOUNDS", "0", "0", "10", "10"},
		{"INTERSECTS", k, "FENCE", "OBJECT", `{"type":"Point","coordinates":[1,2]}`},
		{"NEARBY", k, "FENCE", "ROAM", "others", "*", "100"},
		{"NEARBY", k, "MATCH", "a*", "FENCE", "NODWELL", "POINT", "1", "2", "3"},
		{"within", k, "fence", "detect", "inside,outside", "commands", "set,del", "bounds", "-5", "-5", "5", "5"},
		{"Intersects", k, "FENCE", "CIRCLE", "1", "2", "300"},
		{"WITHIN", k, "FENCE", "POINTS", "BOUNDS", "0", "0", "1", "1"},
		{"NEARBY", k, "FENCE", "DETECT", "cross", "WHERE", "speed", "1", "5", "POINT", "3", "4", "50"},
	}[rng.Intn(10)]
	return f
}

// genSet: one SETHOOK / SETCHAN; longEX: only deadlines far away (nothing expires during the run)
func genSet(rng *rand.Rand, exs []string) []string {
	name := pick(rng, hookNames)
	if rng.Intn(40) == 0 {
		name = ""
	}
	kind := "SETHOOK"
	if strings.HasPrefix(name, "c") || rng.Intn(7) == 0 {
		kind = "SETCHAN"
	}
	if rng.Intn(12) == 0 {
		kind = []string{"SETHOOK", "SETCHAN", "sethook", "SetChan"}[rng.Intn(4)]
	}
	a := []string{kind, name}
	if lowerASCII(kind) == "sethook" {
		if rng.Intn(9) == 0 {
			a = append(a, pick(rng, urlsBad))
		} else {
			a = append(a, pick(rng, urlsOK))
		}
	}
	for n := rng.Intn(4); n > 0; n-- {
		switch rng.Intn(10) {
		case 0, 1, 2, 3:
			a = append(a, []string{"META", "meta", "Meta"}[rng.Intn(3)], pick(rng, []string{"m1", "m2", "a", "zone"}), pick(rng, []string{"v1", "v2", "7", "x y"}))
		case 4, 5, 6:
			a = append(a, []string{"EX", "ex"}[rng.Intn(2)], pick(rng, exs))
		case 7:
			a = append(a, "EX", pick(rng, []string{"abc", "", "1e", "--5"}))
		case 8:
			a = append(a, "META", pick(rng, []string{"m1", ""}), "")
		case 9:
			a = append(a, "META", "m9")
			return a // truncated
		}
	}
	return append(a, genFence(rng)...)
}

func genOther(rng *rand.Rand) []string {
	switch x := rng.Intn(100); {
	case x < 30:
		a := []string{[]string{"DELHOOK", "DELCHAN", "delhook", "DelChan"}[rng.Intn(4)], pick(rng, hookNames)}
		if rng.Intn(15) == 0 {
			a = append(a, "extra")
		}
		if rng.Intn(25) == 0 {
			a = a[:1]
		}
		return a
	case x < 50:
		a := []string{[]string{"PDELHOOK", "PDELCHAN"}[rng.Intn(2)], pick(rng, patterns)}
		if rng.Intn(20) == 0 {
			a = append(a, "extra")
		}
		return a
	case x < 92:
		a := []string{[]string{"HOOKS", "CHANS", "hooks", "chans"}[rng.Intn(4)], pick(rng, patterns)}
		if rng.Intn(25) == 0 {
			a = a[:1]
		}
		return a
	case x < 96:
		return []string{"FLUSHDB"}
	default:
		return []string{"FLUSHDB", "now"}
	}
}

// toggle re-sends an earlier SETHOOK / SETCHAN with one thing changed (or nothing: the Equals path)
func toggle(rng *rand.Rand, src []string, exs []string) []string {
	a := append([]string{}, src...)
	find := func(w string) int {
		for i := 2; i < len(a); i++ {
			if lowerASCII(a[i]) == w {
				return i
			}
			lc := lowerASCII(a[i])
			if lc == "nearby" || lc == "within" || lc == "intersects" {
				return -1
			}
		}
		return -1
	}
	switch rng.Intn(8) {
	case 0, 1: // identical
	case 2, 3: // EX added / changed / removed
		if i := find("ex"); i >= 0 && i+1 < len(a) {
			if rng.Intn(2) == 0 {
				a = append(a[:i], a[i+2:]...)
			} else {
				a[i+1] = pick(rng, exs)
			}
		} else {
			at := 2
			if lowerASCII(a[0]) == "sethook" {
				at = 3
			}
			if at <= len(a) {
				a = append(a[:at], append([]string{"EX", pick(rng, exs)}, a[at:]...)...)
			}
		}
	case 4: // META value changed / added
		if i := find("meta"); i >= 0 && i+2 < len(a) {
			a[i+2] = a[i+2] + "x"
		} else {
			at := 2
			if lowerASCII(a[0]) == "sethook" {
				at = 3
			}
			if at <= len(a) {
				a = append(a[:at], append([]string{"META", "m1", "tog"}, a[at:]...)...)
			}
		}
	case 5: // the other kind under the same name
		if lowerASCII(a[0]) == "sethook" && len(a) > 2 {
			a = append([]string{"SETCHAN", a[1]}, a[3:]...)
		} else if len(a) > 1 {
			a = append([]string{"SETHOOK", a[1], "http://127.0.0.1:1/t"}, a[2:]...)
		}
	case 6: // another fence
		for i := 2; i < len(a); i++ {
			lc := lowerASCII(a[i])
			if lc == "nearby" || lc == "within" || lc == "intersects" {
				a = append(a[:i], genFence(rng)...)
				break
			}
		}
	case 7: // endpoints changed
		if lowerASCII(a[0]) == "sethook" && len(a) > 2 {
			a[2] = pick(rng, urlsOK)
		}
	}
	return a
}

var longEX = []string{"1000", "1000.5", "2e3", "5000.25", "86400", "1234.999"}

// ---------- programs ----------

// startServer starts a server on dir and makes sure the process answering on its port is the one
// just started: srv.FreePort only says the port was free a moment ago, and when several harnesses run
// at once another test's server can take it first (srv.Start would then talk to that one).
func startServer(dir string) (*srv.Server, error) {
	var lastErr error
	for attempt := 0; attempt < 6; attempt++ {
		s, err := srv.StartPort(dir, srv.FreePort())
		if err != nil {
			lastErr = err
			if s != nil && s.Alive() {
				s.Kill()
			}
			continue
		}
		if !s.Alive() {
			lastErr = fmt.Errorf("server exited during start (log %s)", s.LogTail(300))
			continue
		}
		c, err := s.Dial()
		if err == nil {
			v, err2 := c.Do("SERVER")
			c.Close()
			if err2 == nil {
				for i := 0; i+1 < len(v.Array); i += 2 {
					if v.Array[i].Str == "pid" {
						pid := v.Array[i+1].Int
						if v.Array[i+1].Kind != ':' {
							pid, _ = strconv.ParseInt(v.Array[i+1].Str, 10, 64)
						}
						if int(pid) == s.Cmd.Process.Pid {
							return s, nil
						}
					}
				}
			}
		}
		lastErr = fmt.Errorf("port %d is answered by another process", s.Port)
		s.Kill()
	}
	return nil, lastErr
}

func newSession(r *hx.Result, mu *sync.Mutex, drv *model.Driver, sid, dir string) *session {
	s, err := startServer(dir)
	if err != nil {
		panic(err)
	}
	x := &session{r: r, mu: mu, drv: drv, sid: sid, s: s, kinds: map[string]bool{}}
	x.connect()
	if out := drv.Ask("new", sid); out != "ok" {
		panic("hooklife model driver: " + out)
	}
	return x
}

func (x *session) close() {
	if x.c != nil {
		x.c.Close()
	}
	if x.cj != nil {
		x.cj.Close()
	}
	x.s.Kill()
}

// seedCollections creates the two collections the rename guard is asked about. Only called while
// the registry is empty, so no fence is ever evaluated (the endpoints are unreachable).
func (x *session) seedCollections() {
	for _, k := range fenceKeys {
		x.c.MustDo("SET", k, "o", "POINT", "1", "1")
	}
}

// renameGuard: RENAMENX between two existing collections is answered :0 (both exist) unless a hook
// or channel watches one of them; the model's rename_guard must give the same verdict.
func (x *session) renameGuard(key, newkey string) {
	v, err := x.c.Do("RENAMENX", key, newkey)
	x.hist = append(x.hist, fmt.Sprintf("%q", []string{"RENAMENX", key, newkey}))
	if err != nil {
		x.dead = true
		return
	}
	out := x.drv.Ask("guard", x.sid, model.H(key), model.H(newkey))
	want := ":0"
	if strings.HasPrefix(out, "e:") {
		want = "-" + respErr("renamenx", model.U(out[2:]))
	}
	if v.String() != want {
		x.fail("correspondence", "hooklife-rename-guard", fmt.Sprintf("RENAMENX %s %s: server %s, model %s", key, newkey, v.String(), want), v.String(), want)
	}
}

// runProgram: n random commands with far deadlines, replies and listings compared all along.
func (x *session) runProgram(rng *rand.Rand, n int) {
	x.seedCollections()
	var sets [][]string
	for k := 0; k < n && !x.dead; k++ {
		var a []string
		switch y := rng.Intn(100); {
		case y < 18 && len(sets) > 0:
			back := 1 + rng.Intn(4)
			if back > len(sets) || rng.Intn(4) == 0 {
				back = 1 + rng.Intn(len(sets))
			}
			a = toggle(rng, sets[len(sets)-back], longEX)
			x.mu.Lock()
			x.r.Dist("hooklife:resend-toggled")
			x.mu.Unlock()
		case y < 55:
			a = genSet(rng, longEX)
		case y < 60:
			x.renameGuard(pick(rng, fenceKeys), pick(rng, fenceKeys))
			continue
		default:
			a = genOther(rng)
		}
		if len(a) == 0 {
			continue
		}
		lc := lowerASCII(a[0])
		if lc == "sethook" || lc == "setchan" {
			sets = append(sets, a)
		}
		if !x.step(a, rng.Intn(6) == 0) {
			return
		}
		if lc == "flushdb" && len(a) == 1 {
			x.seedCollections()
		}
		if rng.Intn(5) == 0 {
			if !x.checkListings() {
				return
			}
		}
	}
	if !x.dead {
		x.checkListings()
	}
}

func (x *session) count(tag string) {
	x.mu.Lock()
	defer x.mu.Unlock()
	x.r.Count("hooklife:"+tag+":"+strings.Join(x.hist, ";"), x.effective >= 6 && len(x.kinds) >= 3)
	x.r.Dist("hooklife:" + tag)
	x.r.TracesImpl++
	x.r.Sample(6, map[string]interface{}{"mode": "hooklife/" + tag, "commands": len(x.hist), "logged": x.effective})
}

// restartCase (C03): program; AOF = model log; stop or kill -9; restart on the same directory: listing
// before = listing after (oracle), = listing of the model's replay of its log at the clock of the
// restart (correspondence), ttl of re-armed deadlines in the window; then the file is cut at a random
// byte, a server started on the cut copy must show the model's replay of the records wholly inside
// the cut.
func restartCase(r *hx.Result, mu *sync.Mutex, drv *model.Driver, cfg hx.Config, i int, seed int64) {
	rng := rand.New(rand.NewSource(seed))
	sid := fmt.Sprintf("r%d", i)
	dir := filepath.Join(cfg.Work, "hl-"+sid)
	x := newSession(r, mu, drv, sid, dir)
	defer func() { x.close() }()
	x.runProgram(rng, 40+rng.Intn(50))
	if x.dead {
		return
	}
	before, err := listing(x.cj)
	if err != nil {
		x.fail("oracle", "hooklife-listing-failed", err.Error(), nil, nil)
		return
	}
	if ml := modelListing(drv, sid); ml != before {
		x.fail("correspondence", "hooklife-listing", "final HOOKS * / CHANS * differ from the model's registry", strings.Split(before, "\n"), strings.Split(ml, "\n"))
	}
	x.c.Close()
	x.cj.Close()
	x.c, x.cj = nil, nil
	how := "stop"
	if rng.Intn(2) == 0 {
		how = "kill"
		x.s.Kill()
	} else {
		x.s.Stop()
	}
	x.count("restart-" + how)
	_, ends, raw, okAOF := x.checkAOF()
	tR0 := time.Now().UnixNano()
	s2, err := startServer(dir)
	if err != nil {
		x.fail("oracle", "hooklife-restart-failed", "server did not restart after "+how+": "+err.Error(), nil, nil)
		return
	}
	x.s = s2
	x.connect()
	after, err := listing(x.cj)
	if err != nil {
		x.fail("oracle", "hooklife-listing-failed", err.Error(), nil, nil)
		return
	}
	if after != before {
		x.fail("oracle", "hooklife-restart-differs", "HOOKS * / CHANS * after the restart ("+how+") differ from the acknowledged registry before it", strings.Split(after, "\n"), strings.Split(before, "\n"))
	}
	// the model's replay of its own log at the clock of the restart
	tsid := sid + "t"
	drv.Ask("replay", sid, tsid, "-1", strconv.FormatInt(tR0, 10), "1000")
	if a, b := drv.Ask("er", sid), drv.Ask("er", tsid); a != b {
		x.fail("correspondence", "hooklife-model-replay", "the model's replay of its log differs (modulo deadline values) from the model's live registry — theorem c03hk_restart_deadline_kept does not describe the extracted code", b, a)
	}
	// the restarted server against the replayed model state: deadlines are re-armed from the restart
	y := &session{r: r, mu: mu, drv: drv, sid: tsid, s: s2, c: x.c, cj: x.cj, hist: append(x.hist, "<"+how+" + restart>"), kinds: map[string]bool{}}
	y.maxRT = time.Now().UnixNano() - tR0 // the replay happened somewhere during start-up
	y.checkListings()
	x.hist = y.hist
	if !okAOF || len(ends) == 0 {
		return
	}
	// crash prefix: cut the file anywhere
	for k := 0; k < 2; k++ {
		cut := rng.Intn(len(raw) + 1)
		if k == 1 && len(ends) > 1 { // inside or at the edge of the last records
			cut = ends[len(ends)-2] + rng.Intn(len(raw)-ends[len(ends)-2]+1)
		}
		whole := 0
		for whole < len(ends) && ends[whole] <= cut {
			whole++
		}
		// number of hook records among the `whole` complete ones
		upto := 0
		if whole > 0 {
			upto = ends[whole-1]
		}
		recs, _, _ := parseAOF(raw[:upto])
		nh := 0
		for _, rc := range recs {
			if isHookRecord(rc) {
				nh++
			}
		}
		cdir := filepath.Join(cfg.Work, fmt.Sprintf("hl-%s-cut%d", sid, k))
		os.MkdirAll(cdir, 0o755)
		os.WriteFile(filepath.Join(cdir, "appendonly.aof"), raw[:cut], 0o644)
		tC0 := time.Now().UnixNano()
		s3, err := startServer(cdir)
		if err != nil {
			x.fail("oracle", "hooklife-cut-restart-failed", fmt.Sprintf("server did not start on the log cut at byte %d of %d: %v", cut, len(raw), err), nil, nil)
			continue
		}
		csid := fmt.Sprintf("%sc%d", sid, k)
		drv.Ask("replay", sid, csid, strconv.Itoa(nh), strconv.FormatInt(tC0, 10), "1000")
		z := &session{r: r, mu: mu, drv: drv, sid: csid, s: s3, hist: append(append([]string{}, x.hist...), fmt.Sprintf("<log cut at byte %d of %d: %d whole records, %d of them hook records>", cut, len(raw), whole, nh)), kinds: map[string]bool{}}
		z.connect()
		z.maxRT = time.Now().UnixNano() - tC0
		got, err := listing(z.cj)
		if err == nil {
			if want := modelListing(drv, csid); got != want {
				z.fail("correspondence", "hooklife-crash-prefix", fmt.Sprintf("log cut at byte %d: the server's registry is not the model's replay of the %d records wholly inside the cut", cut, nh), strings.Split(got, "\n"), strings.Split(want, "\n"))
			}
			z.checkListings()
		}
		mu.Lock()
		r.Dist("hooklife:crash-prefix")
		r.TracesImpl++
		mu.Unlock()
		z.close()
	}
}

// ---------- timed programs (C14): short deadlines, the real sweeper ----------

type timedDecl struct {
	name  string
	chan_ bool
}

// sweeperCase: hooks and channels with deadlines of 0.15-0.75 s (some re-declared with a far deadline,
// some made permanent, some deleted and re-created, some with a deadline already in the past), polled
// while the deadlines pass: a name whose model deadline lies in the future by more than the slack
// must be listed (never early), one whose deadline passed more than 1.5 s ago must be gone; when all
// short deadlines are over the listing must equal the model after sweep(now) and the tail of the AOF
// must be the model's DELHOOK / DELCHAN records in (deadline, name) order; after a restart nothing
// comes back.
func sweeperCase(r *hx.Result, mu *sync.Mutex, drv *model.Driver, cfg hx.Config, i int, seed int64) {
	rng := rand.New(rand.NewSource(seed))
	sid := fmt.Sprintf("w%d", i)
	dir := filepath.Join(cfg.Work, "hl-"+sid)
	x := newSession(r, mu, drv, sid, dir)
	defer func() { x.close() }()
	fence := []string{"NEARBY", "fleet", "FENCE", "DETECT", "enter,exit", "POINT", "33", "-112", "5000"}
	decl := func(name string, ch bool, ex string, meta string) {
		a := []string{"SETHOOK", name, "http://127.0.0.1:1/" + name}
		if ch {
			a = []string{"SETCHAN", name}
		}
		if meta != "" {
			a = append(a, "META", "m", meta)
		}
		if ex != "" {
			a = append(a, "EX", ex)
		}
		x.step(append(a, fence...), false)
	}
	// deadlines on a 60 ms grid so that the (deadline, name) order of the model is the order of
	// the server whenever round trips stay below ~25 ms
	short := func() string { return fmt.Sprintf("%.2f", 0.15+0.06*float64(rng.Intn(11))) }
	declStart := time.Now().UnixNano()
	nHooks := 6 + rng.Intn(5)
	for k := 0; k < nHooks && !x.dead; k++ {
		ch := rng.Intn(2) == 0
		name := fmt.Sprintf("%s%d", map[bool]string{true: "tc", false: "th"}[ch], k)
		switch rng.Intn(9) {
		case 0: // plain short deadline
			decl(name, ch, short(), "")
		case 1: // short, then moved far away (identical definition)
			decl(name, ch, short(), "")
			decl(name, ch, "1000", "")
		case 2: // permanent, then short
			decl(name, ch, "", "")
			decl(name, ch, short(), "")
		case 3: // short, then permanent
			decl(name, ch, short(), "")
			decl(name, ch, "", "")
		case 4: // short, deleted, re-created permanent: no stale timer may remove the successor
			decl(name, ch, short(), "")
			x.step([]string{map[bool]string{true: "DELCHAN", false: "DELHOOK"}[ch], name}, false)
			decl(name, ch, "", "again")
		case 5: // short, re-declared short with another definition
			decl(name, ch, short(), "a")
			decl(name, ch, short(), "b")
		case 6: // deadline already over when it is declared
			decl(name, ch, []string{"0", "-1", "0.001"}[rng.Intn(3)], "")
		case 7: // far deadline
			decl(name, ch, "1000", "")
		case 8: // short; a PDEL of the other kind naming it must not touch it
			decl(name, ch, short(), "")
			x.step([]string{map[bool]string{true: "PDELHOOK", false: "PDELCHAN"}[ch], name}, false)
		}
	}
	if x.dead {
		return
	}
	declEnd := time.Now().UnixNano()
	rt := x.maxRT
	if declEnd-declStart > int64(120*time.Millisecond) || rt > int64(50*time.Millisecond) {
		// the machine is too slow right now: the shortest deadline (150 ms) may have passed on the
		// server while the declarations were still being sent, which the model (no sweep before the
		// end of the declarations) does not follow. Nothing is asserted about this run.
		mu.Lock()
		r.Dist("hooklife:sweeper-skipped-slow-machine")
		mu.Unlock()
		return
	}
	orderDecided := declEnd-declStart <= int64(40*time.Millisecond) && rt <= int64(10*time.Millisecond)
	// model deadlines
	type dl struct {
		name     string
		deadline int64 // 0 = none
	}
	deadlines := func() []dl {
		var out []dl
		d := drv.Ask("dump", sid)
		hs := strings.SplitN(d, " ; ", 2)[0]
		if hs == "" {
			return out
		}
		for _, h := range strings.Split(hs, "|") {
			p := strings.Split(h, ",")
			e := dl{name: model.U(p[0])}
			if p[3] != "none" {
				e.deadline, _ = strconv.ParseInt(p[3], 10, 64)
			}
			out = append(out, e)
		}
		return out
	}
	dls := deadlines()
	names := func() (map[string]bool, int64, int64, bool) {
		t0 := time.Now().UnixNano()
		got := map[string]bool{}
		for _, what := range []string{"HOOKS", "CHANS"} {
			v, err := x.cj.Do(what, "*")
			if err != nil {
				x.dead = true
				return nil, 0, 0, false
			}
			var j jreply
			json.Unmarshal([]byte(v.Str), &j)
			for _, it := range append(j.Hooks, j.Chans...) {
				got[it.Name] = true
			}
		}
		return got, t0, time.Now().UnixNano(), true
	}
	const slack = int64(1500 * time.Millisecond)
	lastShort := declEnd
	for _, e := range dls {
		if e.deadline != 0 && e.deadline < declEnd+int64(100*time.Second) && e.deadline > lastShort {
			lastShort = e.deadline
		}
	}
	expired := false
	isShort := func(e dl) bool { return e.deadline != 0 && e.deadline < declEnd+int64(100*time.Second) }
	for {
		got, t0, t1, ok := names()
		if !ok {
			return
		}
		pending := false
		for _, e := range dls {
			if (e.deadline == 0 || t1 < e.deadline) && !got[e.name] {
				x.fail("oracle", "hooklife-expired-early", fmt.Sprintf("%s is not listed %d ms before its deadline (0 = it has none: %v)", e.name, (e.deadline-t1)/1e6, e.deadline == 0), nil, nil)
				return
			}
			if e.deadline != 0 && t0 > e.deadline+rt+slack && got[e.name] {
				x.fail("oracle", "hooklife-not-expired", fmt.Sprintf("%s is still listed %d ms after its deadline", e.name, (t0-e.deadline)/1e6), nil, nil)
				return
			}
			if e.deadline != 0 && !got[e.name] {
				expired = true
			}
			if isShort(e) && got[e.name] {
				pending = true
			}
		}
		if !pending && t0 > lastShort+rt {
			break
		}
		time.Sleep(40 * time.Millisecond)
	}
	// everything short is over on the server: the model sweeps at a clock after the last short deadline
	sw := drv.Ask("sweep", sid, strconv.FormatInt(lastShort+1, 10))
	x.hist = append(x.hist, "<sweeper>")
	if ml, err := listing(x.cj); err == nil {
		if want := modelListing(drv, sid); ml != want {
			x.fail("correspondence", "hooklife-sweep", "after the deadlines passed the listing is not the model's registry after sweep", strings.Split(ml, "\n"), strings.Split(want, "\n"))
		}
	}
	// the sweeper's records reach the file with the next flush (at most 1 s later): wait for them
	wantRecs := len(x.modelLog())
	for w := 0; w < 60; w++ {
		raw, _ := os.ReadFile(filepath.Join(dir, "appendonly.aof"))
		recs, _, _ := parseAOF(raw)
		n := 0
		for _, rc := range recs {
			if isHookRecord(rc) {
				n++
			}
		}
		if n >= wantRecs {
			break
		}
		time.Sleep(50 * time.Millisecond)
	}
	x.c.Close()
	x.cj.Close()
	x.c, x.cj = nil, nil
	how := "stop"
	if rng.Intn(2) == 0 {
		how = "kill"
		x.s.Kill()
	} else {
		x.s.Stop()
	}
	nontrivial := expired && strings.Contains(drv.Ask("dump", sid), ",")
	mu.Lock()
	r.Count("hooklife:sweeper:"+strings.Join(x.hist, ";"), nontrivial)
	r.Dist("hooklife:sweeper-" + how)
	r.TracesImpl++
	r.Sample(8, map[string]interface{}{"mode": "hooklife/sweeper", "commands": len(x.hist), "model_sweep": sw})
	mu.Unlock()
	// AOF: exactly the model's log; when round trips were short also in the model's order
	raw, err := os.ReadFile(filepath.Join(dir, "appendonly.aof"))
	if err == nil {
		recs, _, ok := parseAOF(raw)
		if !ok {
			x.fail("oracle", "hooklife-aof-unparsable", "appendonly.aof is not a sequence of complete RESP arrays", nil, nil)
		} else {
			var hk [][]string
			for _, rc := range recs {
				if isHookRecord(rc) {
					hk = append(hk, rc)
				}
			}
			got, want := fmtRecs(hk), fmtRecs(x.modelLog())
			if !orderDecided {
				// deadlines lie on a 60 ms grid: with all declarations sent within 40 ms and round trips
				// below 10 ms the (deadline, name) order of the model is the server's; otherwise the
				// order of near-simultaneous deadlines is not determined by the harness clock
				sort.Strings(got)
				sort.Strings(want)
			}
			if strings.Join(got, "\n") != strings.Join(want, "\n") {
				sig := "hooklife-expiry-log"
				x.fail("correspondence", sig, "the hook records of appendonly.aof (declarations, then one DELHOOK / DELCHAN per expired name in deadline order) are not the model's log", got, want)
			}
		}
	}
	before := modelListing(drv, sid)
	s2, err := startServer(dir)
	if err != nil {
		x.fail("oracle", "hooklife-restart-failed", "server did not restart after "+how+": "+err.Error(), nil, nil)
		return
	}
	x.s = s2
	x.connect()
	time.Sleep(150 * time.Millisecond) // one sweeper pass: nothing may vanish or come back
	after, err := listing(x.cj)
	if err == nil && after != before {
		x.fail("oracle", "hooklife-expired-restart-differs", "after the restart ("+how+") the registry differs from the one left by the sweeper: an expiry was not logged as DELHOOK / DELCHAN or a deadline was lost", strings.Split(after, "\n"), strings.Split(before, "\n"))
	}
}

// ---------- entry points ----------

func parallel(n int, workers int, fn func(i int)) {
	var wg sync.WaitGroup
	ch := make(chan int)
	for w := 0; w < workers; w++ {
		wg.Add(1)
		go func() {
			defer wg.Done()
			for i := range ch {
				fn(i)
			}
		}()
	}
	for i := 0; i < n; i++ {
		ch <- i
	}
	close(ch)
	wg.Wait()
}

const Rule = " hooklife: random programs of SETHOOK / SETCHAN (META, EX, malformed and refused forms, re-sent identically or with EX / META / kind / fence / endpoints changed), DELHOOK / DELCHAN, PDELHOOK / PDELCHAN, HOOKS / CHANS with patterns, FLUSHDB, RENAMENX on watched keys, run on a server and on the extracted life-cycle model (coq/Model/HookLife.v): every reply, the RESP and JSON listings (ttl inside the window the round trips allow), the hook records of appendonly.aof = the model's log; non-trivial = program with at least 6 logged commands of at least 3 kinds."

const Assumption = "hooklife: strings.TrimSpace, endpoint.parseEndpoint, strconv.ParseFloat and the fence command parser (cmdSearchArgs .. newScanWriter) are oracles answered by direct calls (verifapi.HookFenceParse / HookEndpointValidate); harness clock and server clock are the same machine clock"

// RunC03: restart, kill and crash-prefix cases.
func RunC03(r *hx.Result, cfg hx.Config) {
	drv, err := model.Start("hooklife")
	if err != nil {
		panic(err)
	}
	defer drv.Close()
	r.Rule += Rule + " C03: after the program a clean stop or kill -9 and a restart: listing before = after = the model's replay of its log at the restart clock (modulo deadline values; the model's own replay is also compared with its live registry); then the file cut at two random bytes: a server started on the cut shows the model's replay of the records wholly inside it."
	r.Assumptions = append(r.Assumptions, Assumption)
	n := 12
	if cfg.Tier == "thorough" || cfg.Search {
		n = 150
	}
	rng := rand.New(rand.NewSource(cfg.Seed ^ 0x686f6f6b))
	seeds := make([]int64, n)
	for i := range seeds {
		seeds[i] = rng.Int63()
	}
	var mu sync.Mutex
	parallel(n, 6, func(i int) { restartCase(r, &mu, drv, cfg, i, seeds[i]) })
}

// RunC14: ttl correspondence and the real sweeper.
func RunC14(r *hx.Result, cfg hx.Config) {
	drv, err := model.Start("hooklife")
	if err != nil {
		panic(err)
	}
	defer drv.Close()
	r.Rule += Rule + " C14: timed programs with deadlines of 0.15-0.75 s (moved away, made permanent, deleted and re-created, already over): never listed-then-gone before the model deadline, gone 1.5 s after it, final registry = model after sweep, DELHOOK / DELCHAN records of the AOF = the model's sweep log in (deadline, name) order, nothing comes back after a restart; non-trivial = at least one name expired and one survived."
	r.Assumptions = append(r.Assumptions, Assumption)
	n, m := 6, 6
	if cfg.Tier == "thorough" || cfg.Search {
		n, m = 60, 60
	}
	rng := rand.New(rand.NewSource(cfg.Seed ^ 0x686f6f6c))
	seeds := make([]int64, n+m)
	for i := range seeds {
		seeds[i] = rng.Int63()
	}
	var mu sync.Mutex
	parallel(n+m, 8, func(i int) {
		if i < n {
			sid := fmt.Sprintf("p%d", i)
			x := newSession(r, &mu, drv, sid, filepath.Join(cfg.Work, "hl-"+sid))
			x.runProgram(rand.New(rand.NewSource(seeds[i])), 50+int(seeds[i]%40))
			if !x.dead {
				x.count("ttl-program")
			}
			x.close()
		} else {
			sweeperCase(r, &mu, drv, cfg, i, seeds[i])
		}
	})
}

// numHooks reads num_hooks from SERVER.
func numHooks(c *srv.Conn) (int64, bool) {
	v, err := c.Do("SERVER")
	if err != nil {
		return 0, false
	}
	for i := 0; i+1 < len(v.Array); i += 2 {
		if v.Array[i].Str == "num_hooks" {
			if v.Array[i+1].Kind == ':' {
				return v.Array[i+1].Int, true
			}
			n, err := strconv.ParseInt(v.Array[i+1].Str, 10, 64)
			return n, err == nil
		}
	}
	return 0, false
}

// RunC19: SERVER num_hooks = size of the model's registry = |HOOKS *| + |CHANS *| of the model
// (theorem c19hk_list_total), all along random programs.
func RunC19(r *hx.Result, cfg hx.Config) {
	drv, err := model.Start("hooklife")
	if err != nil {
		panic(err)
	}
	defer drv.Close()
	r.Rule += Rule + " C19: after every fifth command SERVER num_hooks = number of hooks and channels in the model's registry = length of the model's HOOKS * plus CHANS * listings."
	r.Assumptions = append(r.Assumptions, Assumption)
	n := 3
	if cfg.Tier == "thorough" || cfg.Search {
		n = 40
	}
	rng := rand.New(rand.NewSource(cfg.Seed ^ 0x686f6f6d))
	seeds := make([]int64, n)
	for i := range seeds {
		seeds[i] = rng.Int63()
	}
	var mu sync.Mutex
	parallel(n, 3, func(i int) {
		sid := fmt.Sprintf("t%d", i)
		x := newSession(r, &mu, drv, sid, filepath.Join(cfg.Work, "hl-"+sid))
		defer x.close()
		lr := rand.New(rand.NewSource(seeds[i]))
		x.seedCollections()
		var sets [][]string
		for k := 0; k < 70 && !x.dead; k++ {
			var a []string
			switch y := lr.Intn(100); {
			case y < 15 && len(sets) > 0:
				a = toggle(lr, sets[lr.Intn(len(sets))], longEX)
			case y < 60:
				a = genSet(lr, longEX)
			default:
				a = genOther(lr)
			}
			if len(a) == 0 {
				continue
			}
			if lc := lowerASCII(a[0]); lc == "sethook" || lc == "setchan" {
				sets = append(sets, a)
			}
			if !x.step(a, false) {
				return
			}
			if k%5 == 4 {
				got, ok := numHooks(x.c)
				d := strings.SplitN(drv.Ask("dump", sid), " ; ", 2)[0]
				reg := int64(0)
				if d != "" {
					reg = int64(strings.Count(d, "|") + 1)
				}
				lh := parseReply(drv.Ask("cmd", sid, "0", ".", model.H("hooks"), model.H("*")))
				lc := parseReply(drv.Ask("cmd", sid, "0", ".", model.H("chans"), model.H("*")))
				if !ok || got != reg || int64(len(lh.Items)+len(lc.Items)) != reg {
					x.fail("correspondence", "hooklife-num-hooks", fmt.Sprintf("SERVER num_hooks = %d (read ok: %v), the model's registry holds %d, its HOOKS * + CHANS * list %d", got, ok, reg, len(lh.Items)+len(lc.Items)), got, reg)
					return
				}
			}
		}
		if !x.dead {
			x.checkListings()
			x.count("num-hooks")
		}
	})
}
