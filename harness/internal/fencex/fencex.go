// Package fencex holds what the C05 and C20 harnesses share: a pub/sub listener with
// write-delimiting markers, a webhook receiver, a live-fence connection reader and the
// decoding of fence notification messages.
package fencex

import (
	"bytes"
	"encoding/json"
	"fmt"
	"io"
	"net"
	"net/http"
	"strconv"
	"sync"
	"time"

	"verifharness/internal/srv"
)

// Msg is one decoded fence notification.
type Msg struct {
	Raw     string
	Channel string // pub/sub channel it arrived on ("" for webhook / live)
	Command string
	Detect  string
	Hook    string
	Key     string
	ID      string
	Group   string
	Object  json.RawMessage
	Fields  json.RawMessage
	Nearby  *Roam
	Faraway *Roam
	HasTime bool
}

type Roam struct {
	Key    string          `json:"key"`
	ID     string          `json:"id"`
	Object json.RawMessage `json:"object"`
	Meters json.Number     `json:"meters"`
	Scan   []ScanEntry     `json:"scan"`
}

// ScanEntry is one element of the "scan" member of a ROAM ... SCAN message.
type ScanEntry struct {
	ID     string          `json:"id"`
	Self   bool            `json:"self"`
	Object json.RawMessage `json:"object"`
}

// Decode parses a notification body.
func Decode(raw string) (Msg, error) {
	var v struct {
		Command string          `json:"command"`
		Detect  string          `json:"detect"`
		Hook    string          `json:"hook"`
		Key     string          `json:"key"`
		ID      string          `json:"id"`
		Group   string          `json:"group"`
		Time    *string         `json:"time"`
		Object  json.RawMessage `json:"object"`
		Fields  json.RawMessage `json:"fields"`
		Nearby  *Roam           `json:"nearby"`
		Faraway *Roam           `json:"faraway"`
	}
	dec := json.NewDecoder(bytes.NewReader([]byte(raw)))
	dec.UseNumber()
	if err := dec.Decode(&v); err != nil {
		return Msg{Raw: raw}, err
	}
	return Msg{Raw: raw, Command: v.Command, Detect: v.Detect, Hook: v.Hook, Key: v.Key, ID: v.ID, Group: v.Group,
		Object: v.Object, Fields: v.Fields, Nearby: v.Nearby, Faraway: v.Faraway, HasTime: v.Time != nil}, nil
}

// PointCoords extracts [lon, lat] of a GeoJSON Point object.
func PointCoords(obj json.RawMessage) (lat, lon float64, ok bool) {
	var p struct {
		Type        string    `json:"type"`
		Coordinates []float64 `json:"coordinates"`
	}
	if json.Unmarshal(obj, &p) != nil || p.Type != "Point" || len(p.Coordinates) < 2 {
		return 0, 0, false
	}
	return p.Coordinates[1], p.Coordinates[0], true
}

// ---- pub/sub listener ----

const SyncChannel = "vsync"

// Sub is a connection that PSUBSCRIBEd to everything.
type Sub struct {
	c    *srv.Conn
	cmd  *srv.Conn
	seq  int
	Errs []string
}

// NewSub opens the listener (PSUBSCRIBE *) and a private command connection for the markers.
func NewSub(s *srv.Server) (*Sub, error) {
	c, err := s.Dial()
	if err != nil {
		return nil, err
	}
	v, err := c.Do("PSUBSCRIBE", "*")
	if err != nil {
		return nil, err
	}
	if v.Kind != '*' || len(v.Array) != 3 || v.Array[0].Str != "psubscribe" {
		return nil, fmt.Errorf("unexpected PSUBSCRIBE reply %s", v.String())
	}
	cmd, err := s.Dial()
	if err != nil {
		return nil, err
	}
	return &Sub{c: c, cmd: cmd}, nil
}

func (s *Sub) Close() { s.c.Close(); s.cmd.Close() }

// Collect publishes a marker and returns every notification that was published before it
// (i.e. by the writes acknowledged before this call), in publication order.
func (s *Sub) Collect() ([]Msg, error) {
	s.seq++
	mark := strconv.Itoa(s.seq)
	if _, err := s.cmd.Do("PUBLISH", SyncChannel, mark); err != nil {
		return nil, err
	}
	var out []Msg
	for {
		v, err := s.c.Read()
		if err != nil {
			return out, err
		}
		if v.Kind != '*' || len(v.Array) != 4 || v.Array[0].Str != "pmessage" {
			return out, fmt.Errorf("unexpected pub/sub frame %s", v.String())
		}
		ch, body := v.Array[2].Str, v.Array[3].Str
		if ch == SyncChannel {
			if body == mark {
				return out, nil
			}
			continue
		}
		m, err := Decode(body)
		m.Channel = ch
		if err != nil {
			s.Errs = append(s.Errs, fmt.Sprintf("undecodable message on %s: %q", ch, body))
		}
		out = append(out, m)
	}
}

// ---- webhook receiver ----

type Webhook struct {
	mu     sync.Mutex
	bodies map[string][]string // by URL path
	ln     net.Listener
	srv    *http.Server
	Port   int
}

func NewWebhook() (*Webhook, error) {
	ln, err := net.Listen("tcp", "127.0.0.1:0")
	if err != nil {
		return nil, err
	}
	w := &Webhook{bodies: map[string][]string{}, ln: ln, Port: ln.Addr().(*net.TCPAddr).Port}
	w.srv = &http.Server{Handler: http.HandlerFunc(func(rw http.ResponseWriter, rq *http.Request) {
		b, _ := io.ReadAll(rq.Body)
		w.mu.Lock()
		w.bodies[rq.URL.Path] = append(w.bodies[rq.URL.Path], string(b))
		w.mu.Unlock()
		rw.WriteHeader(200)
	})}
	go w.srv.Serve(ln)
	return w, nil
}

func (w *Webhook) URL(path string) string { return fmt.Sprintf("http://127.0.0.1:%d%s", w.Port, path) }

func (w *Webhook) Close() { w.srv.Close() }

// Wait returns the bodies received on path once there are at least n of them (or after the
// timeout, plus a short settle time to catch surplus deliveries).
func (w *Webhook) Wait(path string, n int, timeout time.Duration) []Msg {
	deadline := time.Now().Add(timeout)
	for {
		w.mu.Lock()
		have := len(w.bodies[path])
		w.mu.Unlock()
		if have >= n || time.Now().After(deadline) {
			break
		}
		time.Sleep(5 * time.Millisecond)
	}
	time.Sleep(60 * time.Millisecond)
	w.mu.Lock()
	defer w.mu.Unlock()
	var out []Msg
	for _, b := range w.bodies[path] {
		m, _ := Decode(b)
		out = append(out, m)
	}
	return out
}

// ---- live fence connection ----

type Live struct {
	c *srv.Conn
}

// NewLive sends a "... FENCE ..." search on a fresh connection and waits for the +OK.
func NewLive(s *srv.Server, args ...string) (*Live, error) {
	c, err := s.Dial()
	if err != nil {
		return nil, err
	}
	v, err := c.Do(args...)
	if err != nil {
		return nil, err
	}
	if v.Kind != '+' || v.Str != "OK" {
		c.Close()
		return nil, fmt.Errorf("live fence %q refused: %s", args, v.String())
	}
	return &Live{c: c}, nil
}

func (l *Live) Close() { l.c.Close() }

// Next reads the next notification (blocking up to d).
func (l *Live) Next(d time.Duration) (Msg, error) {
	l.c.Timeout = d
	v, err := l.c.Read()
	if err != nil {
		return Msg{}, err
	}
	if v.Kind != '$' {
		return Msg{}, fmt.Errorf("unexpected live frame %s", v.String())
	}
	m, err := Decode(v.Str)
	return m, err
}
