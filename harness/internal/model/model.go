// Package model talks to the extracted OCaml model driver over a line protocol.
package model

import (
	"bufio"
	"encoding/hex"
	"fmt"
	"io"
	"os"
	"os/exec"
	"strings"
	"sync"
)

type Driver struct {
	mu  sync.Mutex
	cmd *exec.Cmd
	in  io.WriteCloser
	out *bufio.Reader
	N   int
}

// DriverPath returns the binary of the named model driver (ocaml/<name>/driver).
func DriverPath(name string) string {
	root := os.Getenv("VERIF_OCAML")
	if root == "" {
		root = "/verif/ocaml"
	}
	return root + "/" + name + "/driver"
}

// Start launches the named extracted-model driver.
func Start(name string) (*Driver, error) {
	c := exec.Command(DriverPath(name))
	in, err := c.StdinPipe()
	if err != nil {
		return nil, err
	}
	out, err := c.StdoutPipe()
	if err != nil {
		return nil, err
	}
	c.Stderr = os.Stderr
	if err := c.Start(); err != nil {
		return nil, err
	}
	return &Driver{cmd: c, in: in, out: bufio.NewReaderSize(out, 1<<20)}, nil
}

// Ask sends one request line and returns the reply line.
func (d *Driver) Ask(toks ...string) string {
	d.mu.Lock()
	defer d.mu.Unlock()
	d.N++
	line := strings.Join(toks, " ") + "\n"
	if _, err := io.WriteString(d.in, line); err != nil {
		panic(fmt.Sprintf("model driver write: %v", err))
	}
	r, err := d.out.ReadString('\n')
	if err != nil {
		panic(fmt.Sprintf("model driver read: %v (request %q)", err, line))
	}
	return strings.TrimRight(r, "\n")
}

func (d *Driver) Close() {
	d.in.Close()
	d.cmd.Wait()
}

// H encodes a byte string for the protocol ("-" is the empty string).
func H(s string) string {
	if s == "" {
		return "-"
	}
	return hex.EncodeToString([]byte(s))
}

// U decodes a protocol byte string.
func U(h string) string {
	if h == "-" {
		return ""
	}
	b, err := hex.DecodeString(h)
	if err != nil {
		panic("bad hex from model: " + h)
	}
	return string(b)
}

func B(b bool) string {
	if b {
		return "1"
	}
	return "0"
}
