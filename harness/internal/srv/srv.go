// Package srv starts and stops real tile38-server processes built from /repo
// and speaks RESP to them.
package srv

import (
	"bufio"
	"fmt"
	"io"
	"net"
	"os"
	"os/exec"
	"path/filepath"
	"strconv"
	"strings"
	"sync/atomic"
	"syscall"
	"time"
)

func ServerBin() string {
	if p := os.Getenv("VERIF_SERVER"); p != "" {
		return p
	}
	return "/verif/.work/bin/tile38-server"
}

var portCounter int32

// FreePort returns a TCP port that was free a moment ago.
func FreePort() int {
	for i := 0; i < 200; i++ {
		l, err := net.Listen("tcp", "127.0.0.1:0")
		if err != nil {
			continue
		}
		p := l.Addr().(*net.TCPAddr).Port
		l.Close()
		atomic.AddInt32(&portCounter, 1)
		return p
	}
	panic("no free port")
}

type Server struct {
	Dir   string
	Port  int
	Args  []string
	Cmd   *exec.Cmd
	done  chan struct{}
	Exit  error
	LogF  string
}

// Start launches a server on dir (created if needed) and waits until it answers PING.
func Start(dir string, extra ...string) (*Server, error) {
	return StartPort(dir, FreePort(), extra...)
}

func StartPort(dir string, port int, extra ...string) (*Server, error) {
	return StartPortHost(dir, port, "127.0.0.1", extra...)
}

// StartPortHost binds to host ("" = all interfaces, which keeps protected mode on).
func StartPortHost(dir string, port int, host string, extra ...string) (*Server, error) {
	if err := os.MkdirAll(dir, 0o755); err != nil {
		return nil, err
	}
	s := &Server{Dir: dir, Port: port, Args: extra, done: make(chan struct{})}
	args := []string{"-p", strconv.Itoa(port), "-d", dir}
	if host != "" {
		args = append([]string{"-h", host}, args...)
	}
	args = append(args, extra...)
	s.Cmd = exec.Command(ServerBin(), args...)
	s.LogF = filepath.Join(dir, "server.log")
	lf, err := os.OpenFile(s.LogF, os.O_CREATE|os.O_WRONLY|os.O_APPEND, 0o644)
	if err != nil {
		return nil, err
	}
	s.Cmd.Stdout = lf
	s.Cmd.Stderr = lf
	s.Cmd.SysProcAttr = &syscall.SysProcAttr{Pdeathsig: syscall.SIGKILL}
	if err := s.Cmd.Start(); err != nil {
		lf.Close()
		return nil, err
	}
	lf.Close()
	go func() {
		s.Exit = s.Cmd.Wait()
		close(s.done)
	}()
	deadline := time.Now().Add(20 * time.Second)
	for time.Now().Before(deadline) {
		select {
		case <-s.done:
			return s, fmt.Errorf("server exited during start: %v (log %s)", s.Exit, s.LogTail(400))
		default:
		}
		c, err := Dial(port)
		if err == nil {
			v, err := c.Do("PING")
			if err == nil && v.Str == "PONG" {
				// PING is answered while the AOF is still loading; wait for a gated command
				w, err := c.Do("TYPE", "__verif_ready__")
				if err == nil && !(w.Kind == '-' && strings.Contains(w.Str, "LOADING")) {
					c.Close()
					return s, nil
				}
			}
			c.Close()
		}
		time.Sleep(15 * time.Millisecond)
	}
	s.Kill()
	return s, fmt.Errorf("server did not come up on port %d (log %s)", port, s.LogTail(400))
}

func (s *Server) LogTail(n int) string {
	b, _ := os.ReadFile(s.LogF)
	if len(b) > n {
		b = b[len(b)-n:]
	}
	return string(b)
}

// Alive reports whether the process is still running.
func (s *Server) Alive() bool {
	select {
	case <-s.done:
		return false
	default:
		return true
	}
}

// Kill sends SIGKILL and waits.
func (s *Server) Kill() {
	if s.Cmd.Process != nil {
		s.Cmd.Process.Kill()
	}
	<-s.done
}

// Stop shuts the server down cleanly (SHUTDOWN command / SIGTERM) and waits.
func (s *Server) Stop() {
	if !s.Alive() {
		return
	}
	s.Cmd.Process.Signal(syscall.SIGTERM)
	select {
	case <-s.done:
	case <-time.After(10 * time.Second):
		s.Kill()
	}
}

func (s *Server) Signal(sig syscall.Signal) { s.Cmd.Process.Signal(sig) }

func (s *Server) WaitExit(d time.Duration) bool {
	select {
	case <-s.done:
		return true
	case <-time.After(d):
		return false
	}
}

func (s *Server) Dial() (*Conn, error) { return Dial(s.Port) }

func (s *Server) MustDial() *Conn {
	c, err := Dial(s.Port)
	if err != nil {
		panic(err)
	}
	return c
}

// ---- RESP client ----

type Value struct {
	Kind  byte // '+', '-', ':', '$', '*', or 'n' for null bulk / null array
	Str   string
	Int   int64
	Array []Value
}

func (v Value) IsErr() bool { return v.Kind == '-' }

// String renders the value canonically (used for comparisons with the model).
func (v Value) String() string {
	switch v.Kind {
	case '+':
		return "+" + v.Str
	case '-':
		return "-" + v.Str
	case ':':
		return ":" + strconv.FormatInt(v.Int, 10)
	case '$':
		return "$" + strconv.Quote(v.Str)
	case 'n':
		return "nil"
	case '*':
		var sb strings.Builder
		sb.WriteByte('[')
		for i, e := range v.Array {
			if i > 0 {
				sb.WriteByte(' ')
			}
			sb.WriteString(e.String())
		}
		sb.WriteByte(']')
		return sb.String()
	}
	return "?"
}

type Conn struct {
	C net.Conn
	R *bufio.Reader
	Timeout time.Duration
}

func Dial(port int) (*Conn, error) {
	c, err := net.DialTimeout("tcp", "127.0.0.1:"+strconv.Itoa(port), 2*time.Second)
	if err != nil {
		return nil, err
	}
	return &Conn{C: c, R: bufio.NewReaderSize(c, 1<<16), Timeout: 20 * time.Second}, nil
}

func (c *Conn) Close() { c.C.Close() }

func Encode(args ...string) []byte {
	var b []byte
	b = append(b, '*')
	b = strconv.AppendInt(b, int64(len(args)), 10)
	b = append(b, '\r', '\n')
	for _, a := range args {
		b = append(b, '$')
		b = strconv.AppendInt(b, int64(len(a)), 10)
		b = append(b, '\r', '\n')
		b = append(b, a...)
		b = append(b, '\r', '\n')
	}
	return b
}

func (c *Conn) Send(args ...string) error {
	c.C.SetWriteDeadline(time.Now().Add(c.Timeout))
	_, err := c.C.Write(Encode(args...))
	return err
}

func (c *Conn) WriteRaw(b []byte) error {
	c.C.SetWriteDeadline(time.Now().Add(c.Timeout))
	_, err := c.C.Write(b)
	return err
}

func (c *Conn) Do(args ...string) (Value, error) {
	if err := c.Send(args...); err != nil {
		return Value{}, err
	}
	return c.Read()
}

// MustDo panics on transport errors (a dead server is reported by the caller's recover).
func (c *Conn) MustDo(args ...string) Value {
	v, err := c.Do(args...)
	if err != nil {
		panic(fmt.Sprintf("transport error on %q: %v", args, err))
	}
	return v
}

func (c *Conn) readLine() (string, error) {
	line, err := c.R.ReadString('\n')
	if err != nil {
		return "", err
	}
	if len(line) < 2 || line[len(line)-2] != '\r' {
		return "", fmt.Errorf("bad RESP line %q", line)
	}
	return line[:len(line)-2], nil
}

func (c *Conn) Read() (Value, error) {
	c.C.SetReadDeadline(time.Now().Add(c.Timeout))
	return c.read()
}

func (c *Conn) read() (Value, error) {
	t, err := c.R.ReadByte()
	if err != nil {
		return Value{}, err
	}
	line, err := c.readLine()
	if err != nil {
		return Value{}, err
	}
	switch t {
	case '+', '-':
		return Value{Kind: t, Str: line}, nil
	case ':':
		n, err := strconv.ParseInt(line, 10, 64)
		if err != nil {
			return Value{}, fmt.Errorf("bad RESP integer %q", line)
		}
		return Value{Kind: ':', Int: n}, nil
	case '$':
		n, err := strconv.Atoi(line)
		if err != nil {
			return Value{}, fmt.Errorf("bad RESP bulk length %q", line)
		}
		if n < 0 {
			return Value{Kind: 'n'}, nil
		}
		buf := make([]byte, n+2)
		if _, err := io.ReadFull(c.R, buf); err != nil {
			return Value{}, err
		}
		if buf[n] != '\r' || buf[n+1] != '\n' {
			return Value{}, fmt.Errorf("bad RESP bulk terminator")
		}
		return Value{Kind: '$', Str: string(buf[:n])}, nil
	case '*':
		n, err := strconv.Atoi(line)
		if err != nil {
			return Value{}, fmt.Errorf("bad RESP array length %q", line)
		}
		if n < 0 {
			return Value{Kind: 'n'}, nil
		}
		arr := make([]Value, 0, n)
		for i := 0; i < n; i++ {
			e, err := c.read()
			if err != nil {
				return Value{}, err
			}
			arr = append(arr, e)
		}
		return Value{Kind: '*', Array: arr}, nil
	}
	return Value{}, fmt.Errorf("bad RESP type byte %q", t)
}

// StartOutput starts a server with `-o <mode>` (mode "json" or "resp").  Start cannot be used for
// -o json: its readiness probe expects RESP-mode replies; here a reply of either mode counts.
func StartOutput(dir, mode string, extra ...string) (*Server, error) {
	port := FreePort()
	if err := os.MkdirAll(dir, 0o755); err != nil {
		return nil, err
	}
	extra = append(extra, "-o", mode)
	s := &Server{Dir: dir, Port: port, Args: extra, done: make(chan struct{})}
	args := append([]string{"-h", "127.0.0.1", "-p", strconv.Itoa(port), "-d", dir}, extra...)
	s.Cmd = exec.Command(ServerBin(), args...)
	s.LogF = filepath.Join(dir, "server.log")
	lf, err := os.OpenFile(s.LogF, os.O_CREATE|os.O_WRONLY|os.O_APPEND, 0o644)
	if err != nil {
		return nil, err
	}
	s.Cmd.Stdout = lf
	s.Cmd.Stderr = lf
	s.Cmd.SysProcAttr = &syscall.SysProcAttr{Pdeathsig: syscall.SIGKILL}
	if err := s.Cmd.Start(); err != nil {
		lf.Close()
		return nil, err
	}
	lf.Close()
	go func() {
		s.Exit = s.Cmd.Wait()
		close(s.done)
	}()
	deadline := time.Now().Add(20 * time.Second)
	for time.Now().Before(deadline) {
		select {
		case <-s.done:
			return s, fmt.Errorf("server exited during start: %v (log %s)", s.Exit, s.LogTail(400))
		default:
		}
		c, err := Dial(port)
		if err == nil {
			v, err := c.Do("PING")
			if err == nil && (v.Str == "PONG" || strings.Contains(v.Str, `"ping":"pong"`)) {
				w, err := c.Do("TYPE", "__verif_ready__")
				if err == nil && !strings.Contains(w.Str, "LOADING") {
					c.Close()
					return s, nil
				}
			}
			c.Close()
		}
		time.Sleep(15 * time.Millisecond)
	}
	s.Kill()
	return s, fmt.Errorf("server did not come up on port %d (log %s)", port, s.LogTail(400))
}
