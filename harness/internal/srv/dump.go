package srv

import (
	"sort"
	"strings"
)

// Dump returns a canonical rendering of the visible dataset: collections, objects with fields,
// has-deadline per object, hooks and channels. Deadline values and timing are not included.
func Dump(c *Conn) string {
	var sb strings.Builder
	kv := c.MustDo("KEYS", "*")
	keys := []string{}
	for _, k := range kv.Array {
		keys = append(keys, k.Str)
	}
	sort.Strings(keys)
	for _, k := range keys {
		sb.WriteString("KEY " + k + "\n")
		v := c.MustDo("SCAN", k, "LIMIT", "100000000")
		if len(v.Array) == 2 {
			for _, o := range v.Array[1].Array {
				sb.WriteString("  " + o.String())
				if len(o.Array) > 0 {
					t := c.MustDo("TTL", k, o.Array[0].Str)
					if t.Kind == ':' && t.Int >= 0 {
						sb.WriteString(" +deadline")
					}
				}
				sb.WriteString("\n")
			}
		} else {
			sb.WriteString("  ?" + v.String() + "\n")
		}
	}
	for _, what := range []string{"HOOKS", "CHANS"} {
		v := c.MustDo(what, "*")
		var items []string
		for _, h := range v.Array {
			items = append(items, h.String())
		}
		sort.Strings(items)
		for _, it := range items {
			sb.WriteString(what + " " + it + "\n")
		}
	}
	return sb.String()
}
