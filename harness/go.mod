module verifharness

go 1.24.0

require github.com/tidwall/tile38 v0.0.0

replace github.com/tidwall/tile38 => /repo
