// C10 — "a webhook endpoint that fails temporarily receives every message queued meanwhile after it
// recovers (within the 30 s retention)": the retention of messages queued LATE in an outage and in a
// LATER outage.
//
// One case = one webhook of one scenario on a fresh server with two webhooks (hA, hB) on one fence:
//
//	healthy write; outage 1 (every request answered 500): a write at its start, several failed delivery
//	attempts of both hooks (the manager retries every 0.5 s), then 1-3 writes late in the outage; recovery;
//	a healthy write; outage 2 (only hB fails): a write, failed attempts, a write late in it; recovery.
//
// short form (quick tier): outage 1 lasts until hA has failed 4-6 times (about 2-3 s); nothing can expire,
// every message must arrive, in order, once.  long form (thorough tier and failing-input search): outage 1
// lasts 33 s, the late writes are 20 / 23 / 26 s into it, so at recovery they are 13 / 10 / 7 s old and must
// arrive while the first one (33 s old) is gone.
//
// Direct oracles (no model):
//   - per hook the requests answered 200 = the writes in issue order, once each, except those older than
//     the retention when the endpoint recovered            hook-lost-within-retention / hook-duplicate / ...
//   - queue.db (buntdb's append-only file: `set <key> <msg> ae <unix second of expiry>`): the first record
//     of every hook:log key -- the entry as queueHooks stored it -- expires no earlier than
//     (instant the SET was sent) + 30 s                     hook-fresh-entry-retention-short
//
// Correspondence (ocaml/queues `retention own`, Model/HookRetention.v with the shared options record as state
// and a retry path that builds its own options -- the variant c10_queued_message_retained_30s is proved for):
// the history (writes, failed attempts = take + failed send + re-insert, successful attempts) is replayed;
// the TTL the model gives every message must bracket the expiry second in queue.db, the delivered list must
// be the endpoint's; a re-inserted record keeps the expiry instant of the fresh one (Model/Queues.v).
package main

import (
	"bytes"
	"fmt"
	"math/rand"
	"os"
	"path/filepath"
	"regexp"
	"sort"
	"strconv"
	"strings"
	"time"

	"verifharness/internal/hx"
	"verifharness/internal/srv"
)

// one record of queue.db
type qrec struct {
	Op   string // set | del
	Key  string
	Hook string
	N    int
	AE   int64 // unix second of expiry (set with `ae`), 0 = no expiry
	Opt  string
}

var hookRe = regexp.MustCompile(`"hook":"([^"]+)"`)

// parseQueueDB reads buntdb's file: a sequence of RESP arrays of bulk strings. A torn record at the end
// (the server is running) ends the list.
func parseQueueDB(path string) ([]qrec, error) {
	b, err := os.ReadFile(path)
	if err != nil {
		return nil, err
	}
	var out []qrec
	line := func() (string, bool) {
		i := bytes.Index(b, []byte("\r\n"))
		if i < 0 {
			return "", false
		}
		s := string(b[:i])
		b = b[i+2:]
		return s, true
	}
	for len(b) > 0 {
		l, ok := line()
		if !ok || !strings.HasPrefix(l, "*") {
			break
		}
		n, err := strconv.Atoi(l[1:])
		if err != nil || n < 1 || n > 16 {
			break
		}
		parts := make([]string, 0, n)
		torn := false
		for i := 0; i < n; i++ {
			l, ok := line()
			if !ok || !strings.HasPrefix(l, "$") {
				torn = true
				break
			}
			k, err := strconv.Atoi(l[1:])
			if err != nil || k < 0 || len(b) < k+2 {
				torn = true
				break
			}
			parts = append(parts, string(b[:k]))
			b = b[k+2:]
		}
		if torn {
			break
		}
		r := qrec{Op: strings.ToLower(parts[0]), N: -1}
		if len(parts) > 1 {
			r.Key = parts[1]
		}
		if r.Op == "set" && len(parts) >= 3 {
			if m := hookRe.FindStringSubmatch(parts[2]); m != nil {
				r.Hook = m[1]
			}
			r.N = msgN([]byte(parts[2]))
			if len(parts) == 5 {
				r.Opt = strings.ToLower(parts[3])
				r.AE, _ = strconv.ParseInt(parts[4], 10, 64)
			}
		}
		out = append(out, r)
	}
	return out, nil
}

type owrite struct {
	N          int
	Sent, Ackd time.Time
	Phase      string
}

func (x *run) outage(name string, seed int64, long bool) {
	x.n++
	r := x.r
	rng := rand.New(rand.NewSource(seed))
	cas := map[string]interface{}{"name": name, "seed": seed, "long": long}
	fail := func(kind, sig, what string, impl, mod interface{}) {
		r.Fail(hx.Failure{Kind: kind, Signature: sig, What: what, Case: cas, Impl: impl, Model: mod})
	}
	retMs := 30000 // the 30 s of the property; the model's hook_ttl (tied to the source by c10_retention_default_constant) must agree
	if v, err := strconv.Atoi(strings.TrimSpace(x.drv.Ask("hookttl"))); err != nil || v != retMs {
		fail("correspondence", "hook-retention-model", fmt.Sprintf("the model's retention is %q ms, the property says %d ms", x.drv.Ask("hookttl"), retMs), retMs, v)
		return
	}
	ret := time.Duration(retMs) * time.Millisecond
	dir := filepath.Join(x.cfg.Work, fmt.Sprintf("c10-%d", x.n))
	s, err := srv.Start(dir)
	if err != nil {
		fail("correspondence", "server-start", err.Error(), nil, nil)
		return
	}
	defer s.Kill()
	t0 := time.Now()
	ep := &endpoint{scripts: map[string][]string{}, t0: t0, failHook: map[string]bool{}}
	if err := ep.up(); err != nil {
		fail("correspondence", "endpoint", err.Error(), nil, nil)
		return
	}
	defer ep.down()
	hooks := []string{"hA", "hB"}
	hid := map[string]string{"hA": "1", "hB": "2"}
	c := s.MustDial()
	defer c.Close()
	for _, h := range hooks {
		if v, err := c.Do("SETHOOK", h, "http://"+ep.addr+"/"+h, "WITHIN", "fleet", "FENCE", "DETECT", "inside", "BOUNDS", "0", "0", "1", "1"); err != nil || v.IsErr() {
			fail("correspondence", "setup", fmt.Sprintf("SETHOOK: %v %v", v.String(), err), nil, nil)
			return
		}
	}
	var ws []owrite
	var script []string // the scenario as it was run, for the failing-input line
	at := func() string { return fmt.Sprintf("t=%.1fs", time.Since(t0).Seconds()) }
	write := func(phase string) bool {
		n := 700001 + len(ws)
		c.Timeout = 30 * time.Second
		w := owrite{N: n, Sent: time.Now(), Phase: phase}
		v, err := c.Do("SET", "fleet", []string{"a", "b", "c"}[rng.Intn(3)], "FIELD", "n", strconv.Itoa(n), "POINT",
			strconv.FormatFloat(0.1+0.8*rng.Float64(), 'f', 6, 64), strconv.FormatFloat(0.1+0.8*rng.Float64(), 'f', 6, 64))
		w.Ackd = time.Now()
		if err != nil || v.String() != "+OK" {
			fail("correspondence", "writer", fmt.Sprintf("SET: %v %v", v.String(), err), nil, nil)
			return false
		}
		ws = append(ws, w)
		script = append(script, fmt.Sprintf("%s SET n=%d (%s)", at(), n, phase))
		return true
	}
	count := func(h, outcome string, since time.Duration) int {
		k := 0
		for _, x := range ep.hits(h) {
			if x.Outcome == outcome && x.At >= since {
				k++
			}
		}
		return k
	}
	waitFor := func(cond func() bool, d time.Duration) bool {
		dl := time.Now().Add(d)
		for time.Now().Before(dl) {
			if cond() {
				return true
			}
			time.Sleep(2 * time.Millisecond)
		}
		return cond()
	}
	delivered := func(h string) []int {
		var out []int
		for _, x := range ep.hits(h) {
			if x.Outcome == "ok" {
				out = append(out, x.N)
			}
		}
		return out
	}
	allDelivered := func(n int) func() bool {
		return func() bool {
			for _, h := range hooks {
				ok := false
				for _, m := range delivered(h) {
					if m == n {
						ok = true
					}
				}
				if !ok {
					return false
				}
			}
			return true
		}
	}
	setFail := func(all bool, hook string, on bool) {
		ep.mu.Lock()
		if all {
			ep.failing = on
		} else {
			ep.failHook[hook] = on
		}
		ep.mu.Unlock()
	}

	// phase 0: healthy
	if !write("healthy") {
		return
	}
	waitFor(allDelivered(ws[0].N), 3*time.Second)

	// outage 1: every hook fails
	setFail(true, "", true)
	out1 := time.Since(t0)
	script = append(script, at()+" endpoint answers 500 to every hook")
	if !write("start of outage 1") {
		return
	}
	start1 := ws[len(ws)-1].Sent
	var recoverAt time.Time
	if long {
		for _, d := range []time.Duration{20 * time.Second, 23 * time.Second, 26 * time.Second} {
			time.Sleep(time.Until(start1.Add(d)))
			if !write(fmt.Sprintf("%d s into outage 1", int(d.Seconds()))) {
				return
			}
		}
		time.Sleep(time.Until(start1.Add(ret + 3*time.Second)))
	} else {
		k := 4 + rng.Intn(3)
		if !waitFor(func() bool { return count("hA", "500", out1) >= k && count("hB", "500", out1) >= 2 }, 12*time.Second) {
			fail("correspondence", "endpoint", "the failing endpoint saw too few retries", nil, nil)
			return
		}
		for i, nl := 0, 1+rng.Intn(3); i < nl; i++ {
			if !write(fmt.Sprintf("late in outage 1, after %d failed attempts of hA", count("hA", "500", out1))) {
				return
			}
			time.Sleep(time.Duration(50+rng.Intn(250)) * time.Millisecond)
		}
	}
	setFail(true, "", false)
	recoverAt = time.Now()
	script = append(script, fmt.Sprintf("%s endpoint recovers (it refused %d attempts of hA, %d of hB)", at(), count("hA", "500", out1), count("hB", "500", out1)))
	lastOf1 := ws[len(ws)-1].N
	waitFor(allDelivered(lastOf1), 4*time.Second)

	// healthy again
	if !write("healthy, after outage 1") {
		return
	}
	waitFor(allDelivered(ws[len(ws)-1].N), 3*time.Second)

	// outage 2: only hB fails
	setFail(false, "hB", true)
	out2 := time.Since(t0)
	script = append(script, at()+" endpoint answers 500 to hB only")
	if !write("start of outage 2 (hB)") {
		return
	}
	k2 := 2 + rng.Intn(2)
	waitFor(func() bool { return count("hB", "500", out2) >= k2 }, 6*time.Second)
	if !write(fmt.Sprintf("late in outage 2, after %d failed attempts of hB", count("hB", "500", out2))) {
		return
	}
	if long {
		time.Sleep(1500 * time.Millisecond)
	} else {
		time.Sleep(time.Duration(100+rng.Intn(300)) * time.Millisecond)
	}
	setFail(false, "hB", false)
	recover2 := time.Now()
	script = append(script, fmt.Sprintf("%s hB recovers (it refused %d attempts)", at(), count("hB", "500", out2)))
	waitFor(allDelivered(ws[len(ws)-1].N), 4*time.Second)
	time.Sleep(800 * time.Millisecond) // longer than the retry period: extras would show up
	cas["script"] = script

	// ---- oracle 1: deliveries ----
	byN := map[int]owrite{}
	for _, w := range ws {
		byN[w.N] = w
	}
	// a write may be missing only if it was older than the retention when its hook's endpoint answered again
	optional := func(h string, w owrite) bool {
		rec := recoverAt
		if strings.Contains(w.Phase, "outage 2") {
			if h != "hB" {
				return false
			}
			rec = recover2
		} else if !strings.Contains(w.Phase, "outage 1") {
			return false
		}
		return rec.Sub(w.Sent) > ret-2*time.Second // within 2 s of the limit either outcome is accepted
	}
	mustNot := func(h string, w owrite) bool { // certainly expired before the recovery
		return strings.Contains(w.Phase, "outage 1") && recoverAt.Sub(w.Ackd) > ret+time.Second
	}
	for _, h := range hooks {
		var want, gotF []int
		for _, w := range ws {
			if !optional(h, w) {
				want = append(want, w.N)
			}
		}
		got := delivered(h)
		for _, n := range got {
			if w, ok := byN[n]; ok && optional(h, w) {
				continue
			}
			gotF = append(gotF, n)
		}
		r.Count(fmt.Sprintf("%s|%s|%v|%s", name, h, long, ints(want)), len(want) >= 2)
		r.Dist("receiver:hook-outage")
		if !eqInts(gotF, want) {
			cl := classify(gotF, want)
			sig := "hook-" + cl
			if cl == "lost" {
				sig = "hook-lost-within-retention"
			}
			var ages []string
			have := map[int]bool{}
			for _, n := range gotF {
				have[n] = true
			}
			for _, w := range ws {
				if !have[w.N] && !optional(h, w) {
					rec := recoverAt
					if strings.Contains(w.Phase, "outage 2") {
						rec = recover2
					}
					ages = append(ages, fmt.Sprintf("n=%d (%s) was %.1f s old when the endpoint answered again", w.N, w.Phase, rec.Sub(w.Sent).Seconds()))
				}
			}
			fail("oracle", sig, fmt.Sprintf("webhook %s: the endpoint accepted %s, owed (queued less than %d s before the endpoint answered again) %s; %s || scenario: %s",
				h, ints(got), retMs/1000, ints(want), strings.Join(ages, "; "), strings.Join(script, "; ")), ints(got), ints(want))
		}
	}

	// ---- oracle 2: what queueHooks stored ----
	recs, err := parseQueueDB(filepath.Join(dir, "queue.db"))
	if err != nil {
		fail("correspondence", "queue-db", "cannot read queue.db: "+err.Error(), nil, nil)
		return
	}
	type hk struct {
		h string
		n int
	}
	fresh := map[hk]qrec{}
	later := map[hk][]qrec{}
	for _, q := range recs {
		if q.Op != "set" || !strings.HasPrefix(q.Key, "hook:log:") {
			continue
		}
		k := hk{q.Hook, q.N}
		if _, ok := fresh[k]; !ok {
			fresh[k] = q
		} else {
			later[k] = append(later[k], q)
		}
	}
	floorAdd := func(t time.Time, ms int) int64 { return t.Add(time.Duration(ms) * time.Millisecond).Unix() }
	for _, w := range ws {
		for _, h := range hooks {
			q, ok := fresh[hk{h, w.N}]
			r.Dist("receiver:hook-log-entry")
			if !ok {
				fail("oracle", "hook-not-queued", fmt.Sprintf("webhook %s: the acknowledged write n=%d has no entry in the hook log (queue.db) || scenario: %s", h, w.N, strings.Join(script, "; ")), nil, w.N)
				continue
			}
			if q.Opt != "ae" {
				fail("correspondence", "queue-db", fmt.Sprintf("hook log entry %s of n=%d has no absolute expiry (%q)", q.Key, w.N, q.Opt), q, nil)
				continue
			}
			if lo := floorAdd(w.Sent, retMs); q.AE < lo {
				fail("oracle", "hook-fresh-entry-retention-short", fmt.Sprintf("webhook %s: the message of write n=%d (%s) was queued with an expiry %.1f s after the SET was sent (unix %d; sent %d.%03d): a freshly queued message must be kept %d s -- it expires %d s early and is lost if the endpoint stays down that long || scenario: %s",
					h, w.N, w.Phase, float64(q.AE)-float64(w.Sent.UnixMilli())/1000, q.AE, w.Sent.Unix(), w.Sent.UnixMilli()%1000, retMs/1000, lo-q.AE, strings.Join(script, "; ")), q.AE, lo)
			}
			// a re-inserted entry keeps the expiry instant (remaining TTL = TTL read - elapsed): Model/Queues.v
			for _, l := range later[hk{h, w.N}] {
				if l.Opt != "ae" || l.AE < q.AE-1 || l.AE > q.AE+1 {
					fail("correspondence", "hook-reinsert-expiry-model", fmt.Sprintf("webhook %s, write n=%d: queued with expiry second %d, re-inserted after a failed delivery with %s %d; the model keeps the expiry instant", h, w.N, q.AE, l.Opt, l.AE), l.AE, q.AE)
					break
				}
			}
		}
	}

	// ---- correspondence: the history through the model with the options record as state ----
	type tev struct {
		at  int64
		ord int
		s   string
	}
	var evs []tev
	ms := func(t time.Time) int64 { return t.Sub(t0).Milliseconds() }
	for _, w := range ws {
		evs = append(evs, tev{ms(w.Sent), 0, fmt.Sprintf("e%d.1.%d+2.%d", ms(w.Sent), w.N, w.N)})
	}
	for _, h := range hooks {
		for _, x := range ep.hits(h) {
			t := x.At.Milliseconds()
			if x.Outcome == "ok" {
				evs = append(evs, tev{t, 1, fmt.Sprintf("t%d.%s,f%d.%s.-", t, hid[h], t, hid[h])})
			} else {
				evs = append(evs, tev{t, 1, fmt.Sprintf("t%d.%s,f%d.%s.0", t, hid[h], t, hid[h])})
			}
		}
	}
	sort.SliceStable(evs, func(i, j int) bool {
		if evs[i].at != evs[j].at {
			return evs[i].at < evs[j].at
		}
		return evs[i].ord < evs[j].ord
	})
	var toks []string
	for _, e := range evs {
		toks = append(toks, e.s)
	}
	for _, h := range hooks {
		rep := x.drv.Ask("retention", "own", hid[h], strings.Join(toks, ","))
		ttl := map[int]int{}
		for _, f := range strings.Fields(rep) {
			if strings.HasPrefix(f, "ttls=") && f != "ttls=-" {
				for _, p := range strings.Split(f[5:], ",") {
					var n, t int
					if _, err := fmt.Sscanf(p, "%d:%d", &n, &t); err == nil {
						ttl[n] = t
					}
				}
			}
		}
		for _, w := range ws {
			q, ok := fresh[hk{h, w.N}]
			t, ok2 := ttl[w.N]
			if !ok || !ok2 || q.Opt != "ae" {
				if !ok2 {
					fail("correspondence", "hook-retention-model", "the model has no retention for write "+strconv.Itoa(w.N)+": "+rep, nil, rep)
				}
				continue
			}
			if lo, hi := floorAdd(w.Sent, t), floorAdd(w.Ackd, t); q.AE < lo || q.AE > hi {
				fail("correspondence", "hook-retention-model", fmt.Sprintf("webhook %s: write n=%d (%s): the hook log entry expires at unix second %d; the model (Hook.proc re-inserts with options of its own, the shared defaults stay at %d ms) gives the message %d ms, i.e. an expiry second in [%d, %d] || scenario: %s",
					h, w.N, w.Phase, q.AE, retMs, t, lo, hi, strings.Join(script, "; ")), q.AE, []int64{lo, hi})
				break
			}
		}
		// the model's deliveries: exact for everything that is clearly inside / clearly outside the retention
		md := parseKV(rep, "delivered")
		var gotF, mdF []int
		for _, n := range delivered(h) {
			if w, ok := byN[n]; !ok || !optional(h, w) || mustNot(h, w) {
				gotF = append(gotF, n)
			}
		}
		for _, n := range md {
			if w, ok := byN[n]; !ok || !optional(h, w) || mustNot(h, w) {
				mdF = append(mdF, n)
			}
		}
		if !eqInts(gotF, mdF) {
			fail("correspondence", "hook-retention-model", fmt.Sprintf("webhook %s: the endpoint accepted %s, the model delivers %s (pending %s) || scenario: %s", h, ints(gotF), ints(mdF), ints(parseKV(rep, "pending")), strings.Join(script, "; ")), ints(gotF), rep)
		}
	}
	r.Sample(40, map[string]interface{}{"scenario": name, "script": script, "delivered_hA": ints(delivered("hA")), "delivered_hB": ints(delivered("hB"))})
	if long {
		r.Dist("scenario:outage-retention-long")
	} else {
		r.Dist("scenario:outage-retention-short")
	}
	r.TracesImpl++
}
