// C10 — notifications and pub/sub: nothing lost, nothing duplicated, in write order.
//
// One case = one scenario on a fresh server: two webhooks (HTTP endpoint inside this process with
// scripted outcomes 200 / 500 / hang-then-close / reset / listener down), two geofence channels
// with exact, multi-channel, pattern and late subscribers, live fence connections (early and
// late), and 1-8 concurrent writers doing SET fleet <id> FIELD n <unique> POINT lat lon.
// Every notification carries the unique n of the write that caused it.
//
// Direct oracle (no model): the order of the writes is read from appendonly.aof; per receiver the
// received sequence must be exactly the writes inside its fence in that order, once each
// (webhooks: the requests answered 200; a healthy endpoint must see no other request).  Late
// receivers must get a contiguous suffix containing every write issued after their acknowledgement.
// Correspondence: the same histories are given to the extracted model (ocaml/queues): webhook
// attempts/deliveries from the observed outcome list, pub/sub and live-fence deliveries.
package main

import (
	"bytes"
	"fmt"
	"io"
	"math/rand"
	"net"
	"net/http"
	"os"
	"path/filepath"
	"regexp"
	"sort"
	"strconv"
	"strings"
	"sync"
	"sync/atomic"
	"time"

	"verifharness/internal/hx"
	"verifharness/internal/model"
	"verifharness/internal/srv"
)

func main() { hx.Main("C10", runC10) }

// ---- fences -----------------------------------------------------------------------------------

// two areas: big = lat,lon in [0,1]; small = lat in [0,0.5]
var bounds = map[string][4]string{"big": {"0", "0", "1", "1"}, "small": {"0", "0", "0.5", "1"}}

func inside(area string, lat, lon float64) bool {
	if lon <= 0 || lon >= 1 || lat <= 0 {
		return false
	}
	if area == "small" {
		return lat < 0.5
	}
	return lat < 1
}

type write struct {
	N        int
	Key      string
	ID       string
	Lat, Lon float64
	Writer   int
	Seq      int // 1-based per writer
}

// ---- HTTP endpoint ----------------------------------------------------------------------------

type hit struct {
	Hook    string
	N       int
	Outcome string
	At      time.Duration // since the endpoint was created
	From    string
	Detect  string // "detect" member of the notification (redefine.go)
}

type endpoint struct {
	mu       sync.Mutex
	addr     string
	ln       net.Listener
	srv      *http.Server
	scripts  map[string][]string
	log      []hit
	t0       time.Time
	closing  bool
	inflight int
	failing  bool            // every request is answered 500
	failHook map[string]bool // requests of these hooks are answered 500 (outage.go)
}

var nRe = regexp.MustCompile(`"fields":\{"n":(\d+)\}`)

func msgN(b []byte) int {
	m := nRe.FindSubmatch(b)
	if m == nil {
		return -1
	}
	n, _ := strconv.Atoi(string(m[1]))
	return n
}

func (e *endpoint) handler(w http.ResponseWriter, req *http.Request) {
	body, _ := io.ReadAll(req.Body)
	hook := strings.TrimPrefix(req.URL.Path, "/")
	e.mu.Lock()
	out := "ok"
	if e.closing {
		out = "down" // the listener is going away: this request is not accepted
	} else if e.failing || e.failHook[hook] {
		out = "500"
	} else if s := e.scripts[hook]; len(s) > 0 {
		out = s[0]
		e.scripts[hook] = s[1:]
	}
	det := ""
	if m := detectRe.FindSubmatch(body); m != nil {
		det = string(m[1])
	}
	e.log = append(e.log, hit{hook, msgN(body), out, time.Since(e.t0), req.RemoteAddr, det})
	if out == "ok" {
		e.inflight++
	}
	e.mu.Unlock()
	if os.Getenv("C10_DEBUG") != "" {
		fmt.Fprintf(os.Stderr, "hit %s n=%d %s at=%v from=%s\n", hook, msgN(body), out, time.Since(e.t0), req.RemoteAddr)
	}
	switch out {
	case "ok":
		// a complete response is on the wire before the request stops counting as in flight
		w.Header().Set("Content-Length", "0")
		w.WriteHeader(200)
		if f, ok := w.(http.Flusher); ok {
			f.Flush()
		}
		e.mu.Lock()
		e.inflight--
		e.mu.Unlock()
	case "500":
		w.WriteHeader(500)
	case "hang", "reset", "down":
		hj, ok := w.(http.Hijacker)
		if !ok {
			w.WriteHeader(500)
			return
		}
		c, _, err := hj.Hijack()
		if err != nil {
			return
		}
		if out == "hang" {
			time.Sleep(120 * time.Millisecond)
		} else if tc, ok := c.(*net.TCPConn); ok && out == "reset" {
			tc.SetLinger(0)
		}
		c.Close()
	}
}

func (e *endpoint) up() error {
	var ln net.Listener
	var err error
	for i := 0; i < 100; i++ {
		a := e.addr
		if a == "" {
			a = "127.0.0.1:0"
		}
		ln, err = net.Listen("tcp", a)
		if err == nil {
			break
		}
		time.Sleep(20 * time.Millisecond)
	}
	if err != nil {
		return err
	}
	e.addr = ln.Addr().String()
	e.ln = ln
	e.mu.Lock()
	e.closing = false
	e.mu.Unlock()
	e.srv = &http.Server{Handler: http.HandlerFunc(e.handler)}
	go e.srv.Serve(ln)
	return nil
}

// down closes the listener and every connection.  Requests already accepted with 200 are answered
// completely first (a request logged as 200 whose reply is cut off would be "delivered but
// reported as failed", which is outside the property); requests arriving meanwhile are refused.
func (e *endpoint) down() {
	if e.srv == nil {
		return
	}
	e.mu.Lock()
	e.closing = true
	e.mu.Unlock()
	for i := 0; i < 3000; i++ {
		e.mu.Lock()
		n := e.inflight
		e.mu.Unlock()
		if n == 0 {
			break
		}
		time.Sleep(time.Millisecond)
	}
	e.srv.Close()
	e.srv = nil
}

func (e *endpoint) hits(hook string) []hit {
	e.mu.Lock()
	defer e.mu.Unlock()
	var out []hit
	for _, h := range e.log {
		if h.Hook == hook {
			out = append(out, h)
		}
	}
	return out
}

// ---- receivers on sockets ---------------------------------------------------------------------

type receiver struct {
	Name     string
	Kind     string   // "sub" | "psub" | "live"
	Chans    []string // channels (sub), pattern (psub), area (live)
	Late     bool
	conn     *srv.Conn
	mu       sync.Mutex
	got      map[string][]int // per channel (sub/psub) or "" (live)
	ackAfter []int            // per writer: writes with Seq > ackAfter[w] were issued after the acknowledgement
	err      string
}

func (rc *receiver) loop() {
	for {
		rc.conn.Timeout = 60 * time.Second
		v, err := rc.conn.Read()
		if err != nil {
			return
		}
		rc.mu.Lock()
		switch {
		case v.Kind == '$':
			rc.got[""] = append(rc.got[""], msgN([]byte(v.Str)))
		case v.Kind == '*' && len(v.Array) == 3 && v.Array[0].Str == "message":
			rc.got[v.Array[1].Str] = append(rc.got[v.Array[1].Str], msgN([]byte(v.Array[2].Str)))
		case v.Kind == '*' && len(v.Array) == 4 && v.Array[0].Str == "pmessage":
			rc.got[v.Array[2].Str] = append(rc.got[v.Array[2].Str], msgN([]byte(v.Array[3].Str)))
		default:
			rc.err = "unexpected frame " + v.String()
		}
		rc.mu.Unlock()
	}
}

func (rc *receiver) snapshot(ch string) []int {
	rc.mu.Lock()
	defer rc.mu.Unlock()
	return append([]int{}, rc.got[ch]...)
}

// ---- scenario ---------------------------------------------------------------------------------

type scen struct {
	Name      string              `json:"name"`
	Writers   int                 `json:"writers"`
	PerWriter int                 `json:"writes_per_writer"`
	Scripts   map[string][]string `json:"endpoint_scripts"`
	DownMid   bool                `json:"endpoint_down_in_the_middle"`
	Seed      int64               `json:"seed"`
}

var hookArea = map[string]string{"hA": "big", "hB": "small"}
var chanArea = map[string]string{"c501": "big", "c502": "small"}

func ints(l []int) string {
	if len(l) == 0 {
		return "-"
	}
	s := make([]string, len(l))
	for i, x := range l {
		s[i] = strconv.Itoa(x)
	}
	return strings.Join(s, ",")
}

func parseKV(rep, k string) []int {
	for _, f := range strings.Fields(rep) {
		if strings.HasPrefix(f, k+"=") {
			v := f[len(k)+1:]
			if v == "-" {
				return nil
			}
			var out []int
			for _, x := range strings.Split(v, ",") {
				n, _ := strconv.Atoi(x)
				out = append(out, n)
			}
			return out
		}
	}
	return nil
}

func eqInts(a, b []int) bool {
	if len(a) != len(b) {
		return false
	}
	for i := range a {
		if a[i] != b[i] {
			return false
		}
	}
	return true
}

// classify a difference between what a receiver got and what the writes generated for it
func classify(got, want []int) string {
	seen := map[int]int{}
	for _, x := range got {
		seen[x]++
	}
	for _, c := range seen {
		if c > 1 {
			return "duplicate"
		}
	}
	w := map[int]bool{}
	for _, x := range want {
		w[x] = true
	}
	for _, x := range got {
		if !w[x] {
			return "unexpected"
		}
	}
	if len(got) < len(want) {
		return "lost"
	}
	return "order"
}

type run struct {
	r   *hx.Result
	cfg hx.Config
	drv *model.Driver
	n   int
}

func parseAOF(path string) ([]write, error) {
	b, err := os.ReadFile(path)
	if err != nil {
		return nil, err
	}
	var out []write
	for len(b) > 0 {
		if b[0] != '*' {
			return nil, fmt.Errorf("appendonly.aof: unexpected byte %q", b[0])
		}
		i := bytes.Index(b, []byte("\r\n"))
		na, _ := strconv.Atoi(string(b[1:i]))
		b = b[i+2:]
		args := make([]string, 0, na)
		for j := 0; j < na; j++ {
			i := bytes.Index(b, []byte("\r\n"))
			l, _ := strconv.Atoi(string(b[1:i]))
			args = append(args, string(b[i+2:i+2+l]))
			b = b[i+2+l+2:]
		}
		if len(args) == 9 && strings.EqualFold(args[0], "set") && strings.EqualFold(args[3], "field") {
			n, _ := strconv.Atoi(args[5])
			lat, _ := strconv.ParseFloat(args[7], 64)
			lon, _ := strconv.ParseFloat(args[8], 64)
			out = append(out, write{N: n, Key: args[1], ID: args[2], Lat: lat, Lon: lon})
		}
	}
	return out, nil
}

func expectedFor(ws []write, area string) []int {
	var out []int
	for _, w := range ws {
		if w.Key == "fleet" && inside(area, w.Lat, w.Lon) {
			out = append(out, w.N)
		}
	}
	return out
}

func (x *run) scenario(sc scen) {
	if only := os.Getenv("C10_ONLY"); only != "" && only != sc.Name {
		return
	}
	x.n++
	r := x.r
	rng := rand.New(rand.NewSource(sc.Seed))
	fail := func(kind, sig, what string, impl, mod interface{}) {
		r.Fail(hx.Failure{Kind: kind, Signature: sig, What: what, Case: sc, Impl: impl, Model: mod})
	}
	dir := filepath.Join(x.cfg.Work, fmt.Sprintf("c10-%d", x.n))
	s, err := srv.Start(dir)
	if err != nil {
		fail("correspondence", "server-start", err.Error(), nil, nil)
		return
	}
	defer s.Kill()
	ep := &endpoint{scripts: map[string][]string{}, t0: time.Now()}
	for k, v := range sc.Scripts {
		ep.scripts[k] = append([]string{}, v...)
	}
	if err := ep.up(); err != nil {
		fail("correspondence", "endpoint", err.Error(), nil, nil)
		return
	}
	defer ep.down()
	adm := s.MustDial()
	defer adm.Close()
	must := func(args ...string) bool {
		v, err := adm.Do(args...)
		if err != nil || v.IsErr() {
			fail("correspondence", "setup", fmt.Sprintf("%v -> %v %v", args, v.String(), err), nil, nil)
			return false
		}
		return true
	}
	for _, h := range []string{"hA", "hB"} {
		b := bounds[hookArea[h]]
		if !must("SETHOOK", h, "http://"+ep.addr+"/"+h, "WITHIN", "fleet", "FENCE", "DETECT", "inside", "BOUNDS", b[0], b[1], b[2], b[3]) {
			return
		}
	}
	for _, c := range []string{"c501", "c502"} {
		b := bounds[chanArea[c]]
		if !must("SETCHAN", c, "WITHIN", "fleet", "FENCE", "DETECT", "inside", "BOUNDS", b[0], b[1], b[2], b[3]) {
			return
		}
	}
	started := make([]int64, sc.Writers)
	var recvs []*receiver
	open := func(rc *receiver) bool {
		c, err := s.Dial()
		if err != nil {
			fail("correspondence", "setup", err.Error(), nil, nil)
			return false
		}
		rc.conn = c
		rc.got = map[string][]int{}
		nack := 1
		switch rc.Kind {
		case "sub":
			c.Send(append([]string{"SUBSCRIBE"}, rc.Chans...)...)
			nack = len(rc.Chans)
		case "psub":
			c.Send(append([]string{"PSUBSCRIBE"}, rc.Chans...)...)
		case "live":
			b := bounds[rc.Chans[0]]
			c.Send("WITHIN", "fleet", "FENCE", "DETECT", "inside", "BOUNDS", b[0], b[1], b[2], b[3])
		}
		for i := 0; i < nack; i++ {
			v, err := c.Read()
			if err != nil || v.IsErr() {
				fail("correspondence", "setup", fmt.Sprintf("%s %v: acknowledgement %v %v", rc.Kind, rc.Chans, v.String(), err), nil, nil)
				return false
			}
		}
		// acknowledged: every write issued from now on must reach this receiver
		rc.ackAfter = make([]int, sc.Writers)
		for w := range rc.ackAfter {
			rc.ackAfter[w] = int(atomic.LoadInt64(&started[w]))
		}
		go rc.loop()
		recvs = append(recvs, rc)
		return true
	}
	defer func() {
		for _, rc := range recvs {
			rc.conn.Close()
		}
	}()
	early := []*receiver{
		{Name: "S1 SUBSCRIBE c501", Kind: "sub", Chans: []string{"c501"}},
		{Name: "S2 SUBSCRIBE c501 c502", Kind: "sub", Chans: []string{"c501", "c502"}},
		{Name: "S3 PSUBSCRIBE c5*", Kind: "psub", Chans: []string{"c5*"}},
		{Name: "L1 live big", Kind: "live", Chans: []string{"big"}},
		{Name: "L2 live small", Kind: "live", Chans: []string{"small"}},
	}
	for _, rc := range early {
		if !open(rc) {
			return
		}
	}
	// writers
	total := sc.Writers * sc.PerWriter
	var done int64
	var wg sync.WaitGroup
	werr := make(chan string, sc.Writers)
	plans := make([][]write, sc.Writers)
	ids := []string{"a", "b", "c", "d", "e", "f"}
	for w := 0; w < sc.Writers; w++ {
		for j := 1; j <= sc.PerWriter; j++ {
			wr := write{N: (w+1)*100000 + j, Key: "fleet", ID: ids[rng.Intn(len(ids))], Writer: w, Seq: j}
			switch k := rng.Intn(10); {
			case k < 4:
				wr.Lat = 0.1 + 0.3*rng.Float64()
			case k < 8:
				wr.Lat = 0.6 + 0.3*rng.Float64()
			case k < 9:
				wr.Lat = 5
			default:
				wr.Key = "other"
				wr.Lat = 0.2
			}
			wr.Lon = 0.1 + 0.8*rng.Float64()
			plans[w] = append(plans[w], wr)
		}
	}
	for w := 0; w < sc.Writers; w++ {
		wg.Add(1)
		go func(w int) {
			defer wg.Done()
			c, err := s.Dial()
			if err != nil {
				werr <- err.Error()
				return
			}
			defer c.Close()
			for _, wr := range plans[w] {
				atomic.AddInt64(&started[w], 1)
				v, err := c.Do("SET", wr.Key, wr.ID, "FIELD", "n", strconv.Itoa(wr.N), "POINT",
					strconv.FormatFloat(wr.Lat, 'f', 6, 64), strconv.FormatFloat(wr.Lon, 'f', 6, 64))
				if err != nil || v.String() != "+OK" {
					werr <- fmt.Sprintf("writer %d: %v %v", w, v.String(), err)
					return
				}
				atomic.AddInt64(&done, 1)
				if wr.Seq%7 == 0 {
					time.Sleep(time.Duration(rng.Intn(3)) * time.Millisecond)
				}
			}
		}(w)
	}
	// mid-run events
	waitDone := func(n int) {
		for atomic.LoadInt64(&done) < int64(n) && len(werr) == 0 {
			time.Sleep(200 * time.Microsecond)
		}
	}
	waitDone(total / 3)
	if sc.DownMid {
		if os.Getenv("C10_DEBUG") != "" {
			fmt.Fprintf(os.Stderr, "endpoint going down at %v\n", time.Since(ep.t0))
		}
		ep.down()
		if os.Getenv("C10_DEBUG") != "" {
			fmt.Fprintf(os.Stderr, "endpoint down at %v\n", time.Since(ep.t0))
		}
	}
	// a connection in pub/sub mode that unsubscribes from channels / a pattern it never subscribed to
	// (liveSubscription hands every name to pubsub.unregister): nobody else may lose anything.
	// S2 is the only subscriber of c502 and S3 the only one of the pattern at this point.
	if xc, err := s.Dial(); err == nil {
		defer xc.Close()
		xc.Send("SUBSCRIBE", "c599")
		xc.Read()
		xc.Send("UNSUBSCRIBE", "c502", "c501")
		xc.Read()
		xc.Read()
		xc.Send("PUNSUBSCRIBE", "c5*")
		if v, err := xc.Read(); err != nil || v.IsErr() {
			fail("correspondence", "setup", fmt.Sprintf("foreign PUNSUBSCRIBE: %v %v", v.String(), err), nil, nil)
			return
		}
	}
	late := []*receiver{
		{Name: "S4 late SUBSCRIBE c501", Kind: "sub", Chans: []string{"c501"}, Late: true},
		{Name: "L3 late live big", Kind: "live", Chans: []string{"big"}, Late: true},
	}
	for _, rc := range late {
		if !open(rc) {
			return
		}
	}
	waitDone(2 * total / 3)
	if sc.DownMid {
		time.Sleep(700 * time.Millisecond) // at least one failed round of each manager while the listener is down
		if err := ep.up(); err != nil {
			fail("correspondence", "endpoint", "cannot reopen the endpoint: "+err.Error(), nil, nil)
			return
		}
	}
	wg.Wait()
	if len(werr) > 0 {
		fail("correspondence", "writer", <-werr, nil, nil)
		return
	}
	ws, err := parseAOF(filepath.Join(dir, "appendonly.aof"))
	if err != nil {
		fail("correspondence", "aof", err.Error(), nil, nil)
		return
	}
	if len(ws) != total {
		fail("oracle", "aof-missing-acknowledged-write", fmt.Sprintf("%d SETs acknowledged, %d in appendonly.aof", total, len(ws)), len(ws), total)
		return
	}
	byN := map[int]write{}
	for w := range plans {
		for _, wr := range plans[w] {
			byN[wr.N] = wr
		}
	}
	// wait until everything expected has arrived (webhook retries take 0.5 s per failure), then a grace period for extras
	want200 := map[string][]int{}
	for h, a := range hookArea {
		want200[h] = expectedFor(ws, a)
	}
	ok200 := func(h string) []int {
		var out []int
		for _, x := range ep.hits(h) {
			if x.Outcome == "ok" {
				out = append(out, x.N)
			}
		}
		return out
	}
	complete := func() bool {
		for h := range hookArea {
			if len(ok200(h)) < len(want200[h]) {
				return false
			}
		}
		for _, rc := range recvs {
			if rc.Late {
				continue
			}
			switch rc.Kind {
			case "live":
				if len(rc.snapshot("")) < len(expectedFor(ws, rc.Chans[0])) {
					return false
				}
			default:
				for c, a := range chanArea {
					if rc.Kind == "psub" || contains(rc.Chans, c) {
						if len(rc.snapshot(c)) < len(expectedFor(ws, a)) {
							return false
						}
					}
				}
			}
		}
		return true
	}
	deadline := time.Now().Add(20 * time.Second)
	for !complete() && time.Now().Before(deadline) {
		time.Sleep(5 * time.Millisecond)
	}
	time.Sleep(800 * time.Millisecond)

	check := func(kind, who string, got, want []int, nontrivial bool) {
		r.Count(fmt.Sprintf("%s|%s|%s", sc.Name, who, ints(want)), nontrivial && len(want) >= 2)
		r.Dist("receiver:" + kind)
		if !eqInts(got, want) {
			cl := classify(got, want)
			sig := kind + "-" + cl
			if cl == "lost" && (kind == "sub" || kind == "psub") {
				// other connections have sent (P)UNSUBSCRIBE for this receiver's channels without being subscribed
				sig = "pubsub-lost-after-foreign-unsubscribe"
			}
			fail("oracle", sig, fmt.Sprintf("%s: received %d notifications, the writes (in appendonly.aof order) generated %d; first difference at position %d", who, len(got), len(want), firstDiff(got, want)), ints(got), ints(want))
		}
	}
	// webhooks
	for _, h := range []string{"hA", "hB"} {
		hits := ep.hits(h)
		got := ok200(h)
		check("hook", "webhook "+h, got, want200[h], true)
		healthy := len(sc.Scripts[h]) == 0 && !sc.DownMid
		if healthy && len(hits) != len(got) {
			fail("oracle", "hook-duplicate", fmt.Sprintf("webhook %s: the endpoint answered 200 to everything but saw %d requests for %d notifications", h, len(hits), len(got)), len(hits), len(got))
		}
		// correspondence with the model: same enqueue order, observed outcome list
		var enq []string
		for _, w := range ws {
			var ms []string
			if w.Key == "fleet" && inside("big", w.Lat, w.Lon) {
				ms = append(ms, "1."+strconv.Itoa(w.N))
			}
			if w.Key == "fleet" && inside("small", w.Lat, w.Lon) {
				ms = append(ms, "2."+strconv.Itoa(w.N))
			}
			if len(ms) > 0 {
				enq = append(enq, strings.Join(ms, ","))
			}
		}
		outs := ""
		var attempts []int
		for _, x := range hits {
			attempts = append(attempts, x.N)
			if x.Outcome == "ok" {
				outs += "1"
			} else {
				outs += "0"
			}
		}
		if outs == "" {
			outs = "-"
		}
		e := "-"
		if len(enq) > 0 {
			e = strings.Join(enq, ";")
		}
		hid := map[string]string{"hA": "1", "hB": "2"}[h]
		rep := x.drv.Ask("hooksim", hid, e, outs)
		if ma, md := parseKV(rep, "attempts"), parseKV(rep, "delivered"); !eqInts(ma, attempts) || !eqInts(md, got) {
			fail("correspondence", "hook-model", fmt.Sprintf("webhook %s: the endpoint saw requests %s (200: %s); the model, given the same writes and outcomes %s, attempts %s and delivers %s",
				h, ints(attempts), ints(got), outs, ints(ma), ints(md)), ints(attempts), rep)
		}
		r.Dist(fmt.Sprintf("hook-requests-failed:%d", len(hits)-len(got)))
	}
	// subscribers and live fences
	for ti, rc := range recvs {
		if rc.err != "" {
			fail("correspondence", "receiver-frame", rc.Name+": "+rc.err, nil, nil)
		}
		type stream struct {
			ch   string
			area string
			cid  string
		}
		var streams []stream
		switch rc.Kind {
		case "live":
			streams = []stream{{"", rc.Chans[0], ""}}
		default:
			for _, c := range []string{"c501", "c502"} {
				if rc.Kind == "psub" || contains(rc.Chans, c) {
					streams = append(streams, stream{c, chanArea[c], c[1:]})
				}
			}
		}
		for _, st := range streams {
			full := expectedFor(ws, st.area)
			got := rc.snapshot(st.ch)
			want := full
			regAt := 0 // position in `full` from which this receiver is registered
			if rc.Late {
				// a late receiver gets a contiguous suffix; it must contain every write issued after the acknowledgement
				regAt = len(full)
				if len(got) > 0 {
					for i, n := range full {
						if n == got[0] {
							regAt = i
							break
						}
					}
				}
				want = full[regAt:]
				for _, n := range full[:regAt] {
					w := byN[n]
					if w.Seq > rc.ackAfter[w.Writer] {
						fail("oracle", rc.Kind+"-lost", fmt.Sprintf("%s (%s): write n=%d was issued after the subscription had been acknowledged but was not delivered", rc.Name, st.ch, n), ints(got), ints(full))
						break
					}
				}
			}
			check(rc.Kind, rc.Name+" "+st.ch, got, want, true)
			// correspondence with the model
			if rc.Kind == "live" {
				var evs []string
				k := "7"
				if regAt == 0 {
					evs = append(evs, fmt.Sprintf("r%d.%s", ti, k))
				} else {
					evs = append(evs, "r99."+k) // some other live connection exists, so the stack is fed
				}
				cnt := 0
				for _, w := range ws {
					if w.Key == "fleet" && inside(st.area, w.Lat, w.Lon) {
						if cnt == regAt && regAt > 0 {
							evs = append(evs, fmt.Sprintf("r%d.%s", ti, k))
						}
						cnt++
					}
					wk := k
					if w.Key != "fleet" || !inside(st.area, w.Lat, w.Lon) {
						wk = "8" // not for this fence: modelled as a write on another key
					}
					evs = append(evs, fmt.Sprintf("w%s.%d", wk, w.N), "p", fmt.Sprintf("v%d", ti))
				}
				rep := x.drv.Ask("live", strconv.Itoa(ti), k, strings.Join(evs, ","))
				if mo := parseKV(rep, "out"); !eqInts(mo, got) {
					fail("correspondence", "live-model", fmt.Sprintf("%s: received %s, model %s", rc.Name, ints(got), ints(mo)), ints(got), rep)
				}
			} else {
				var evs []string
				reg := fmt.Sprintf("r%s.%d", st.cid, ti)
				if rc.Kind == "psub" {
					reg = fmt.Sprintf("R5.%d", ti)
				}
				if regAt == 0 {
					evs = append(evs, reg)
				}
				evs = append(evs, "r"+st.cid+".90")                     // another subscriber of the channel
				evs = append(evs, "r599.91", "u"+st.cid+".91", "U5.91") // the foreign (P)UNSUBSCRIBE of connection X
				cnt := 0
				for _, w := range ws {
					if w.Key == "fleet" && inside(st.area, w.Lat, w.Lon) {
						if cnt == regAt && regAt > 0 {
							evs = append(evs, reg)
						}
						cnt++
						evs = append(evs, fmt.Sprintf("s%s.%d", st.cid, w.N), "a", "a", fmt.Sprintf("d%d", ti))
					}
				}
				rep := x.drv.Ask("pubsub", strconv.Itoa(ti), strings.Join(evs, ","))
				if mo := parseKV(rep, "out"); !eqInts(mo, got) {
					fail("correspondence", "pubsub-model", fmt.Sprintf("%s %s: received %s, model %s", rc.Name, st.ch, ints(got), ints(mo)), ints(got), rep)
				}
			}
		}
	}
	r.Sample(4, map[string]interface{}{"scenario": sc, "writes": total, "hA_requests": len(ep.hits("hA")), "hA_expected": len(want200["hA"])})
	r.Dist(fmt.Sprintf("scenario:writers=%d", sc.Writers))
	r.TracesImpl++
}

// ---- restart while the endpoint is failing -------------------------------------------------------------

func (e *endpoint) setFailing(b bool) {
	e.mu.Lock()
	e.failing = b
	e.mu.Unlock()
}

func (x *run) restartWhileFailing(name string, seed int64, nBefore, nAfter int) {
	x.n++
	r := x.r
	rng := rand.New(rand.NewSource(seed))
	cas := map[string]interface{}{"name": name, "seed": seed, "writes_before_restart": nBefore, "writes_after_restart": nAfter}
	fail := func(kind, sig, what string, impl, mod interface{}) {
		r.Fail(hx.Failure{Kind: kind, Signature: sig, What: what, Case: cas, Impl: impl, Model: mod})
	}
	dir := filepath.Join(x.cfg.Work, fmt.Sprintf("c10-%d", x.n))
	s, err := srv.Start(dir)
	if err != nil {
		fail("correspondence", "server-start", err.Error(), nil, nil)
		return
	}
	defer func() { s.Kill() }()
	ep := &endpoint{scripts: map[string][]string{}, t0: time.Now()}
	if err := ep.up(); err != nil {
		fail("correspondence", "endpoint", err.Error(), nil, nil)
		return
	}
	defer ep.down()
	hooks := []string{"hA", "hB"}
	adm := s.MustDial()
	for _, h := range hooks {
		b := bounds[hookArea[h]]
		if v, err := adm.Do("SETHOOK", h, "http://"+ep.addr+"/"+h, "WITHIN", "fleet", "FENCE", "DETECT", "inside", "BOUNDS", b[0], b[1], b[2], b[3]); err != nil || v.IsErr() {
			fail("correspondence", "setup", fmt.Sprintf("SETHOOK: %v %v", v.String(), err), nil, nil)
			return
		}
	}
	n := 0
	write := func(c *srv.Conn) bool {
		n++
		lat := 0.1 + 0.3*rng.Float64() // inside both areas
		if rng.Intn(3) == 0 {
			lat = 0.6 + 0.3*rng.Float64() // big only
		}
		c.Timeout = 20 * time.Second
		v, err := c.Do("SET", "fleet", []string{"a", "b", "c"}[rng.Intn(3)], "FIELD", "n", strconv.Itoa(900000+n), "POINT",
			strconv.FormatFloat(lat, 'f', 6, 64), strconv.FormatFloat(0.1+0.8*rng.Float64(), 'f', 6, 64))
		if err != nil || v.String() != "+OK" {
			fail("correspondence", "writer", fmt.Sprintf("SET: %v %v", v.String(), err), nil, nil)
			return false
		}
		return true
	}
	count := func(h, outcome string) int {
		k := 0
		for _, x := range ep.hits(h) {
			if x.Outcome == outcome {
				k++
			}
		}
		return k
	}
	waitFor := func(cond func() bool, d time.Duration) bool {
		dl := time.Now().Add(d)
		for time.Now().Before(dl) {
			if cond() {
				return true
			}
			time.Sleep(2 * time.Millisecond)
		}
		return cond()
	}
	// phase 0: healthy
	for i := 0; i < 2; i++ {
		if !write(adm) {
			return
		}
	}
	waitFor(func() bool { return count("hA", "ok") >= 2 }, 3*time.Second)
	// phase 1: the endpoint fails, writes queue up
	ep.setFailing(true)
	for i := 0; i < nBefore; i++ {
		if !write(adm) {
			return
		}
	}
	adm.Close()
	fa := count("hA", "500")
	if !waitFor(func() bool { return count("hA", "500") > fa && count("hB", "500") > 0 }, 5*time.Second) {
		fail("correspondence", "endpoint", "the failing endpoint saw no retry", nil, nil)
		return
	}
	// kill -9 while both managers sleep between two attempts (an attempt answered 500 is re-inserted
	// at once; the next one comes 0.5 s later): nothing is between its two transactions
	lastAt := func(h string) time.Duration {
		hs := ep.hits(h)
		if len(hs) == 0 {
			return 0
		}
		return hs[len(hs)-1].At
	}
	waitFor(func() bool {
		now := time.Since(ep.t0)
		for _, h := range hooks {
			d := now - lastAt(h)
			if d < 60*time.Millisecond || d > 380*time.Millisecond {
				return false
			}
		}
		return true
	}, 5*time.Second)
	s.Kill()
	beforeRestart := map[string]int{}
	for _, h := range hooks {
		beforeRestart[h] = len(ep.hits(h))
	}
	s2, err := srv.Start(dir)
	if err != nil {
		fail("oracle", "restart-failed", "server does not restart after kill -9: "+err.Error(), nil, nil)
		return
	}
	s = s2
	// the restarted process must take up the backlog (still failing)
	waitFor(func() bool { return len(ep.hits("hA")) > beforeRestart["hA"] }, 5*time.Second)
	w2 := s.MustDial()
	defer w2.Close()
	for k := 0; k < 2000; k++ { // PING is answered before the log has been replayed
		if v, err := w2.Do("GET", "fleet", "a"); err != nil || !(v.IsErr() && strings.HasPrefix(v.Str, "LOADING")) {
			break
		}
		time.Sleep(5 * time.Millisecond)
	}
	// phase 2: further writes, still failing; then the endpoint recovers
	for i := 0; i < nAfter; i++ {
		if !write(w2) {
			return
		}
	}
	ep.setFailing(false)
	ws, err := parseAOF(filepath.Join(dir, "appendonly.aof"))
	if err != nil || len(ws) != n {
		fail("oracle", "aof-missing-acknowledged-write", fmt.Sprintf("%d SETs acknowledged, %d in appendonly.aof (%v)", n, len(ws), err), len(ws), n)
		return
	}
	ok200 := func(h string) []int {
		var out []int
		for _, x := range ep.hits(h) {
			if x.Outcome == "ok" {
				out = append(out, x.N)
			}
		}
		return out
	}
	waitFor(func() bool {
		for _, h := range hooks {
			if len(ok200(h)) < len(expectedFor(ws, hookArea[h])) {
				return false
			}
		}
		return true
	}, 8*time.Second)
	time.Sleep(800 * time.Millisecond)
	restartAfter := 0 // number of notifying writes before the restart
	var enq []string
	for i, w := range ws {
		var ms []string
		if inside("big", w.Lat, w.Lon) {
			ms = append(ms, "1."+strconv.Itoa(w.N))
		}
		if inside("small", w.Lat, w.Lon) {
			ms = append(ms, "2."+strconv.Itoa(w.N))
		}
		if len(ms) > 0 {
			enq = append(enq, strings.Join(ms, ","))
			if i < 2+nBefore {
				restartAfter++
			}
		}
	}
	for _, h := range hooks {
		want := expectedFor(ws, hookArea[h])
		got := ok200(h)
		r.Count(fmt.Sprintf("%s|%s|%s", name, h, ints(want)), len(want) >= 2)
		r.Dist("receiver:hook-restart")
		if !eqInts(got, want) {
			cl := classify(got, want)
			sig := "hook-" + cl
			if cl == "lost" {
				sig = "hook-lost-after-restart"
			}
			fail("oracle", sig, fmt.Sprintf("webhook %s: the endpoint failed (500), the server was killed and restarted while it was failing, %d more writes followed, the endpoint recovered: it accepted %s; the writes generated %s", h, nAfter, ints(got), ints(want)), ints(got), ints(want))
		}
		outs := ""
		var attempts []int
		for _, x := range ep.hits(h) {
			attempts = append(attempts, x.N)
			if x.Outcome == "ok" {
				outs += "1"
			} else {
				outs += "0"
			}
		}
		rep := x.drv.Ask("hooksim", map[string]string{"hA": "1", "hB": "2"}[h], strings.Join(enq, ";"), outs, strconv.Itoa(restartAfter))
		if ma, md := parseKV(rep, "attempts"), parseKV(rep, "delivered"); !eqInts(ma, attempts) || !eqInts(md, got) {
			fail("correspondence", "hook-model", fmt.Sprintf("webhook %s with a restart after %d notifying writes: the endpoint saw requests %s (200: %s); the model attempts %s and delivers %s",
				h, restartAfter, ints(attempts), ints(got), ints(ma), ints(md)), ints(attempts), rep)
		}
	}
	r.Dist("scenario:restart-while-failing")
	r.TracesImpl++
}

// ---- many hooks per write: every notification of a healthy endpoint arrives within a bound, without a later event ----

func (x *run) manyHooks(nHooks, nWrites int) {
	x.n++
	r := x.r
	cas := map[string]interface{}{"name": "many hooks per write", "hooks": nHooks, "writes": nWrites}
	fail := func(kind, sig, what string, impl, mod interface{}) {
		r.Fail(hx.Failure{Kind: kind, Signature: sig, What: what, Case: cas, Impl: impl, Model: mod})
	}
	s, err := srv.Start(filepath.Join(x.cfg.Work, fmt.Sprintf("c10-%d", x.n)))
	if err != nil {
		fail("correspondence", "server-start", err.Error(), nil, nil)
		return
	}
	defer s.Kill()
	ep := &endpoint{scripts: map[string][]string{}, t0: time.Now()}
	if err := ep.up(); err != nil {
		fail("correspondence", "endpoint", err.Error(), nil, nil)
		return
	}
	defer ep.down()
	c := s.MustDial()
	defer c.Close()
	for i := 0; i < nHooks; i++ {
		h := fmt.Sprintf("k%03d", i)
		if v, err := c.Do("SETHOOK", h, "http://"+ep.addr+"/"+h, "WITHIN", "fleet", "FENCE", "DETECT", "inside", "BOUNDS", "0", "0", "1", "1"); err != nil || v.IsErr() {
			fail("correspondence", "setup", fmt.Sprintf("SETHOOK: %v %v", v.String(), err), nil, nil)
			return
		}
	}
	bound := 3 * time.Second
	for w := 1; w <= nWrites; w++ {
		if v, err := c.Do("SET", "fleet", "a", "FIELD", "n", strconv.Itoa(w), "POINT", "0.5", strconv.FormatFloat(0.1+0.01*float64(w), 'f', 4, 64)); err != nil || v.String() != "+OK" {
			fail("correspondence", "writer", fmt.Sprintf("SET: %v %v", v.String(), err), nil, nil)
			return
		}
		have := func() map[string]int {
			m := map[string]int{}
			ep.mu.Lock()
			for _, h := range ep.log {
				if h.N == w {
					m[h.Hook]++
				}
			}
			ep.mu.Unlock()
			return m
		}
		dl := time.Now().Add(bound)
		for time.Now().Before(dl) && len(have()) < nHooks {
			time.Sleep(2 * time.Millisecond)
		}
		m := have()
		r.Count(fmt.Sprintf("manyhooks|%d|%d", nHooks, w), true)
		r.Dist("receiver:many-hooks-write")
		if len(m) < nHooks {
			var missing []string
			for i := 0; i < nHooks && len(missing) < 8; i++ {
				if h := fmt.Sprintf("k%03d", i); m[h] == 0 {
					missing = append(missing, h)
				}
			}
			fail("oracle", "hook-not-delivered-without-later-event", fmt.Sprintf("write n=%d notifies %d healthy webhooks; %d of them had not received it %v later although no endpoint ever failed (e.g. %v): a queued notification must not wait for a later event", w, nHooks, nHooks-len(m), bound, missing), len(m), nHooks)
		}
		for h, k := range m {
			if k > 1 {
				fail("oracle", "hook-duplicate", fmt.Sprintf("webhook %s received the notification of write n=%d %d times from a healthy endpoint", h, w, k), k, 1)
				break
			}
		}
	}
	r.Dist("scenario:many-hooks")
	r.TracesImpl++
}

// ---- pub/sub churn: PUBLISH interleaved with (P)SUBSCRIBE / (P)UNSUBSCRIBE, including unsubscribing from
// names the connection is not subscribed to ------------------------------------------------------------

type pop struct {
	Op   string `json:"op"` // sub psub unsub punsub pub
	Conn int    `json:"conn,omitempty"`
	Name string `json:"name"`
	N    int    `json:"n,omitempty"`
}

type pconn struct {
	c    *srv.Conn
	mu   sync.Mutex
	got  map[string][]int // per stream: "=c701" exact, "c7*" pattern
	all  []int
	acks chan string
	bad  string
}

func (pc *pconn) loop() {
	for {
		pc.c.Timeout = 60 * time.Second
		v, err := pc.c.Read()
		if err != nil {
			return
		}
		if v.Kind != '*' || len(v.Array) < 3 {
			pc.mu.Lock()
			pc.bad = "unexpected frame " + v.String()
			pc.mu.Unlock()
			continue
		}
		switch v.Array[0].Str {
		case "message":
			n, _ := strconv.Atoi(strings.TrimPrefix(v.Array[2].Str, "m"))
			pc.mu.Lock()
			pc.got["="+v.Array[1].Str] = append(pc.got["="+v.Array[1].Str], n)
			pc.all = append(pc.all, n)
			pc.mu.Unlock()
		case "pmessage":
			n, _ := strconv.Atoi(strings.TrimPrefix(v.Array[3].Str, "m"))
			pc.mu.Lock()
			pc.got[v.Array[1].Str] = append(pc.got[v.Array[1].Str], n)
			pc.all = append(pc.all, n)
			pc.mu.Unlock()
		default:
			pc.acks <- v.Array[0].Str + " " + v.Array[1].Str
		}
	}
}

func patMatches(pat, ch string) bool { return strings.HasPrefix(ch, strings.TrimSuffix(pat, "*")) }

func (x *run) churn(name string, nconn int, ops []pop) {
	x.n++
	r := x.r
	cas := map[string]interface{}{"name": name, "connections": nconn, "ops": ops}
	fail := func(kind, sig, what string, impl, mod interface{}) {
		r.Fail(hx.Failure{Kind: kind, Signature: sig, What: what, Case: cas, Impl: impl, Model: mod})
	}
	s, err := srv.Start(filepath.Join(x.cfg.Work, fmt.Sprintf("c10-%d", x.n)), "--appendonly", "no")
	if err != nil {
		fail("correspondence", "server-start", err.Error(), nil, nil)
		return
	}
	defer s.Kill()
	pub := s.MustDial()
	defer pub.Close()
	conns := make([]*pconn, nconn)
	subs := make([]map[string]bool, nconn)  // exact
	psubs := make([]map[string]bool, nconn) // patterns
	owed := make([]map[string][]int, nconn)
	owedAll := make([][]int, nconn)
	foreign := map[string]bool{} // names that were unsubscribed by a connection not subscribed to them
	var evs []string
	for i := range conns {
		c, err := s.Dial()
		if err != nil {
			fail("correspondence", "setup", err.Error(), nil, nil)
			return
		}
		defer c.Close()
		conns[i] = &pconn{c: c, got: map[string][]int{}, acks: make(chan string, 64)}
		subs[i], psubs[i], owed[i] = map[string]bool{}, map[string]bool{}, map[string][]int{}
		// enter pub/sub mode through a private channel nobody publishes to
		c.Send("SUBSCRIBE", fmt.Sprintf("c99%d", i))
		if v, err := c.Read(); err != nil || v.IsErr() {
			fail("correspondence", "setup", fmt.Sprintf("SUBSCRIBE: %v %v", v.String(), err), nil, nil)
			return
		}
		evs = append(evs, fmt.Sprintf("r99%d.%d", i, i))
		go conns[i].loop()
	}
	ack := func(i int, want string) bool {
		select {
		case a := <-conns[i].acks:
			if a != want {
				fail("correspondence", "pubsub-ack", fmt.Sprintf("connection %d: acknowledgement %q, expected %q", i, a, want), a, want)
				return false
			}
			return true
		case <-time.After(5 * time.Second):
			fail("oracle", "pubsub-no-ack", fmt.Sprintf("connection %d: no acknowledgement %q", i, want), nil, want)
			return false
		}
	}
	cid := func(name string) string { return strings.TrimSuffix(strings.TrimPrefix(name, "c"), "*") }
	npub := 0
	for _, o := range ops {
		switch o.Op {
		case "sub":
			conns[o.Conn].c.Send("SUBSCRIBE", o.Name)
			if !ack(o.Conn, "subscribe "+o.Name) {
				return
			}
			subs[o.Conn][o.Name] = true
			evs = append(evs, fmt.Sprintf("r%s.%d", cid(o.Name), o.Conn))
		case "psub":
			conns[o.Conn].c.Send("PSUBSCRIBE", o.Name)
			if !ack(o.Conn, "psubscribe "+o.Name) {
				return
			}
			psubs[o.Conn][o.Name] = true
			evs = append(evs, fmt.Sprintf("R%s.%d", cid(o.Name), o.Conn))
		case "unsub":
			conns[o.Conn].c.Send("UNSUBSCRIBE", o.Name)
			if !ack(o.Conn, "unsubscribe "+o.Name) {
				return
			}
			if !subs[o.Conn][o.Name] {
				foreign["="+o.Name] = true
				r.Dist("churn:foreign-unsubscribe")
			}
			delete(subs[o.Conn], o.Name)
			evs = append(evs, fmt.Sprintf("u%s.%d", cid(o.Name), o.Conn))
		case "punsub":
			conns[o.Conn].c.Send("PUNSUBSCRIBE", o.Name)
			if !ack(o.Conn, "punsubscribe "+o.Name) {
				return
			}
			if !psubs[o.Conn][o.Name] {
				foreign[o.Name] = true
				r.Dist("churn:foreign-punsubscribe")
			}
			delete(psubs[o.Conn], o.Name)
			evs = append(evs, fmt.Sprintf("U%s.%d", cid(o.Name), o.Conn))
		case "pub":
			npub++
			want := 0
			for i := range conns {
				if subs[i][o.Name] {
					owed[i]["="+o.Name] = append(owed[i]["="+o.Name], o.N)
					owedAll[i] = append(owedAll[i], o.N)
					want++
				}
				for p := range psubs[i] {
					if patMatches(p, o.Name) {
						owed[i][p] = append(owed[i][p], o.N)
						owedAll[i] = append(owedAll[i], o.N)
						want++
					}
				}
			}
			v, err := pub.Do("PUBLISH", o.Name, "m"+strconv.Itoa(o.N))
			if err != nil || v.Kind != ':' {
				fail("correspondence", "pubsub-publish", fmt.Sprintf("PUBLISH %s: %v %v", o.Name, v.String(), err), nil, nil)
				return
			}
			if int(v.Int) != want {
				sig := "pubsub-publish-count"
				if int(v.Int) < want {
					sig = "pubsub-lost-after-foreign-unsubscribe"
				}
				fail("oracle", sig, fmt.Sprintf("PUBLISH %s m%d reports %d receivers; %d acknowledged subscriptions match it", o.Name, o.N, v.Int, want), v.Int, want)
			}
			evs = append(evs, fmt.Sprintf("s%s.%d", cid(o.Name), o.N))
			for k := 0; k < 2*nconn+2; k++ {
				evs = append(evs, "a")
			}
			for i := range conns {
				evs = append(evs, fmt.Sprintf("d%d", i))
			}
		}
	}
	// wait for the deliveries, then a grace period for extras
	deadline := time.Now().Add(4 * time.Second)
	for time.Now().Before(deadline) {
		done := true
		for i, pc := range conns {
			pc.mu.Lock()
			if len(pc.all) < len(owedAll[i]) {
				done = false
			}
			pc.mu.Unlock()
		}
		if done {
			break
		}
		time.Sleep(2 * time.Millisecond)
	}
	time.Sleep(60 * time.Millisecond)
	for i, pc := range conns {
		pc.mu.Lock()
		got, all, bad := pc.got, append([]int{}, pc.all...), pc.bad
		pc.mu.Unlock()
		if bad != "" {
			fail("correspondence", "receiver-frame", fmt.Sprintf("connection %d: %s", i, bad), nil, nil)
		}
		streams := map[string]bool{}
		for k := range got {
			streams[k] = true
		}
		for k := range owed[i] {
			streams[k] = true
		}
		for k := range streams {
			r.Count(fmt.Sprintf("%s|conn%d|%s|%s", name, i, k, ints(owed[i][k])), len(owed[i][k]) >= 2)
			r.Dist("receiver:churn")
			if !eqInts(got[k], owed[i][k]) {
				cl := classify(got[k], owed[i][k])
				sig := "pubsub-" + cl
				if cl == "lost" && foreign[k] {
					sig = "pubsub-lost-after-foreign-unsubscribe"
				}
				fail("oracle", sig, fmt.Sprintf("connection %d, subscription %s: received %s; the publishes made while it was subscribed (acknowledged, not unsubscribed by itself) are %s", i, strings.TrimPrefix(k, "="), ints(got[k]), ints(owed[i][k])), ints(got[k]), ints(owed[i][k]))
			}
		}
		rep := x.drv.Ask("pubsub", strconv.Itoa(i), strings.Join(evs, ","))
		if mo := parseKV(rep, "out"); !eqInts(mo, all) {
			fail("correspondence", "pubsub-model", fmt.Sprintf("churn, connection %d: received %s, the model delivers %s", i, ints(all), ints(mo)), ints(all), rep)
		}
	}
	r.Dist("scenario:churn")
	r.TracesImpl++
}

func churnCorpus() (int, []pop) {
	return 4, []pop{
		{Op: "sub", Conn: 0, Name: "c701"}, {Op: "psub", Conn: 1, Name: "c8*"}, {Op: "sub", Conn: 2, Name: "c701"}, {Op: "sub", Conn: 2, Name: "c702"},
		{Op: "pub", Name: "c701", N: 1}, {Op: "pub", Name: "c801", N: 2}, {Op: "pub", Name: "c702", N: 3},
		// X = connection 3 unsubscribes from everything it never subscribed to
		{Op: "unsub", Conn: 3, Name: "c702"}, {Op: "punsub", Conn: 3, Name: "c8*"}, {Op: "unsub", Conn: 3, Name: "c701"},
		{Op: "pub", Name: "c701", N: 4}, {Op: "pub", Name: "c801", N: 5}, {Op: "pub", Name: "c702", N: 6},
		// connection 2 leaves c701 only: connection 0 becomes its sole subscriber; then X again
		{Op: "unsub", Conn: 2, Name: "c701"}, {Op: "pub", Name: "c701", N: 7}, {Op: "pub", Name: "c702", N: 8},
		{Op: "unsub", Conn: 3, Name: "c701"}, {Op: "unsub", Conn: 2, Name: "c701"}, {Op: "pub", Name: "c701", N: 9},
		// X subscribes and unsubscribes for real; a second foreign punsubscribe by a subscriber of something else
		{Op: "sub", Conn: 3, Name: "c701"}, {Op: "pub", Name: "c701", N: 10}, {Op: "unsub", Conn: 3, Name: "c701"}, {Op: "pub", Name: "c701", N: 11},
		{Op: "punsub", Conn: 0, Name: "c8*"}, {Op: "pub", Name: "c802", N: 12}, {Op: "punsub", Conn: 1, Name: "c8*"}, {Op: "pub", Name: "c802", N: 13},
	}
}

func randomChurn(rng *rand.Rand) (int, []pop) {
	nconn := 2 + rng.Intn(3)
	chans := []string{"c701", "c702", "c801"}
	pats := []string{"c7*", "c8*"}
	var ops []pop
	n := 0
	for i := 0; i < 30+rng.Intn(30); i++ {
		c := rng.Intn(nconn)
		switch k := rng.Intn(100); {
		case k < 40:
			n++
			ops = append(ops, pop{Op: "pub", Name: chans[rng.Intn(len(chans))], N: n})
		case k < 58:
			ops = append(ops, pop{Op: "sub", Conn: c, Name: chans[rng.Intn(len(chans))]})
		case k < 68:
			ops = append(ops, pop{Op: "psub", Conn: c, Name: pats[rng.Intn(len(pats))]})
		case k < 88:
			ops = append(ops, pop{Op: "unsub", Conn: c, Name: chans[rng.Intn(len(chans))]})
		default:
			ops = append(ops, pop{Op: "punsub", Conn: c, Name: pats[rng.Intn(len(pats))]})
		}
	}
	return nconn, ops
}

func contains(l []string, x string) bool {
	for _, y := range l {
		if x == y {
			return true
		}
	}
	return false
}

func firstDiff(a, b []int) int {
	for i := 0; i < len(a) && i < len(b); i++ {
		if a[i] != b[i] {
			return i
		}
	}
	if len(a) < len(b) {
		return len(a)
	}
	return len(b)
}

func runC10(r *hx.Result, cfg hx.Config) {
	r.Rule = "one case = one receiver (webhook endpoint, SUBSCRIBE / PSUBSCRIBE connection and channel, live fence connection) of one scenario with 1-8 concurrent writers and a scripted endpoint; compared: the received sequence of write numbers against the appendonly.aof order of the writes inside the receiver's fence, and against the extracted model; non-trivial = the receiver was owed at least two notifications"
	r.Assumptions = []string{
		"the order of the SET commands in appendonly.aof is the order in which they were applied (C07)",
		"a request the endpoint answered with a non-2xx status, hung on or reset counts as not delivered (at-least-once duplicates after a delivered-but-failed request are outside `while healthy`)",
		"buntdb is an ordered map with per-key TTL; match.Match, sync.Cond and net/http are not modelled",
		"every scenario except the long outage-retention case (outage.go: 33 s outage, thorough tier / failing-input search) ends well inside the 30 s retention of the hook queue",
		"queue.db is buntdb's append-only file: `set <key> <value> ae <unix second of expiry>`; harness and server read the same clock",
	}
	drv, err := model.Start("queues")
	if err != nil {
		panic(err)
	}
	defer drv.Close()
	rng := rand.New(rand.NewSource(cfg.Seed))
	x := &run{r: r, cfg: cfg, drv: drv}
	corpus := []scen{
		{Name: "healthy endpoint, one writer", Writers: 1, PerWriter: 40},
		{Name: "healthy endpoint, eight writers", Writers: 8, PerWriter: 25},
		{Name: "500 then recovery", Writers: 3, PerWriter: 30, Scripts: map[string][]string{"hA": {"ok", "ok", "500", "ok", "500", "500"}}},
		{Name: "hang-then-close and reset", Writers: 4, PerWriter: 25, Scripts: map[string][]string{"hA": {"ok", "hang", "ok", "reset"}, "hB": {"reset", "ok", "ok", "hang"}}},
		{Name: "listener down in the middle", Writers: 4, PerWriter: 30, DownMid: true},
	}
	if v := os.Getenv("C10_MANY"); v != "" { // development aid: only the many-hooks case, "hooks,writes"
		var a, b int
		fmt.Sscanf(v, "%d,%d", &a, &b)
		x.manyHooks(a, b)
		return
	}
	if v := os.Getenv("C10_OUTAGE"); v != "" { // development aid: only the outage-retention case, "short" | "long"
		x.outage("outage-retention-"+v, cfg.Seed, v == "long")
		return
	}
	if v := os.Getenv("C10_REDEFINE"); v != "" { // development aid: only the re-definition histories
		x.redefine("redefine-corpus", redefineCorpus())
		k, _ := strconv.Atoi(v)
		for i := 0; i < k; i++ {
			x.redefine(fmt.Sprintf("redefine-%d", i), randomRedefine(rng))
		}
		return
	}
	// failing-input search: the long outage first (messages queued late in a 33 s outage and in a later one)
	if cfg.Search {
		x.outage("outage-retention-long", rng.Int63(), true)
	}
	// pub/sub churn first (fast, deterministic order of operations)
	nc, ops := churnCorpus()
	x.churn("churn: foreign and partial unsubscribes", nc, ops)
	nchurn := 25
	if cfg.Tier == "thorough" || cfg.Search {
		nchurn = 400
	}
	for i := 0; i < nchurn; i++ {
		nc, ops := randomChurn(rng)
		x.churn(fmt.Sprintf("churn-%d", i), nc, ops)
	}
	// restart while the endpoint is failing; many hooks per write
	nRestart, nh, nw := 2, 400, 4
	if cfg.Tier == "thorough" || cfg.Search {
		nRestart, nh, nw = 12, 400, 12
	}
	for i := 0; i < nRestart; i++ {
		x.restartWhileFailing(fmt.Sprintf("restart-while-failing-%d", i), rng.Int63(), 2+rng.Intn(2), 1+rng.Intn(2))
	}
	x.manyHooks(nh, nw)
	// hooks / channels re-defined and deleted between the writes (redefine.go)
	x.redefine("redefine-corpus", redefineCorpus())
	nRedef := 3
	if cfg.Tier == "thorough" || cfg.Search {
		nRedef = 60
	}
	for i := 0; i < nRedef; i++ {
		x.redefine(fmt.Sprintf("redefine-%d", i), randomRedefine(rng))
	}
	// retention of messages queued late in an outage and in a later outage (outage.go)
	nOut := 1
	if cfg.Tier == "thorough" || cfg.Search {
		nOut = 4
	}
	for i := 0; i < nOut; i++ {
		x.outage(fmt.Sprintf("outage-retention-short-%d", i), rng.Int63(), false)
	}
	if cfg.Tier == "thorough" && !cfg.Search {
		x.outage("outage-retention-long", rng.Int63(), true)
	}
	for i := range corpus {
		corpus[i].Seed = cfg.Seed + int64(i)
		x.scenario(corpus[i])
	}
	n, budget := 3, 40*time.Second
	if cfg.Tier == "thorough" {
		n, budget = 150, 12*time.Minute
	}
	if cfg.Search {
		n, budget = 60, 5*time.Minute
	}
	t0 := time.Now()
	outcomes := []string{"ok", "ok", "ok", "500", "hang", "reset"}
	for i := 0; i < n && time.Since(t0) < budget; i++ {
		sc := scen{Name: fmt.Sprintf("random-%d", i), Writers: 1 + rng.Intn(8), PerWriter: 10 + rng.Intn(30), Seed: rng.Int63(), Scripts: map[string][]string{}}
		for _, h := range []string{"hA", "hB"} {
			if rng.Intn(2) == 0 {
				k := 2 + rng.Intn(6)
				nf := 0
				for j := 0; j < k; j++ {
					o := outcomes[rng.Intn(len(outcomes))]
					if o != "ok" {
						nf++
						if nf > 3 {
							o = "ok"
						}
					}
					sc.Scripts[h] = append(sc.Scripts[h], o)
				}
			}
		}
		sc.DownMid = rng.Intn(5) == 0
		x.scenario(sc)
	}
	keys := make([]string, 0)
	for k := range r.Distribution {
		keys = append(keys, k)
	}
	sort.Strings(keys)
	r.Extra["scenarios"] = x.n
}
