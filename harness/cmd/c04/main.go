// C04 — a torn or padded log tail is repaired and loses nothing but the torn command.
package main

import (
	"fmt"
	"math/rand"
	"os"
	"path/filepath"
	"sort"
	"strconv"
	"strings"
	"sync"
	"time"

	"github.com/tidwall/tile38/verifapi"
	"verifharness/internal/hx"
	"verifharness/internal/model"
	"verifharness/internal/respgen"
	"verifharness/internal/srv"
)

func main() { hx.Main("C04", runC04) }

// ---------- generated logs ----------

type genLog struct {
	name  string
	bytes []byte
	cmds  [][]string // commands in the log, in order
	ends  []int      // ends[i] = offset just after command i
	dumps []string   // dumps[n] = dataset after the first n commands (reference server)
}

var keyAlpha = []string{"k1", "k2", "key\r\n3", "k*$", "k\x00z"}
var idAlpha = []string{"a", "b", "c", "id\r\n", "$1", "\x00", "*", "é\xff"}

func pick(rng *rand.Rand, a []string) string { return a[rng.Intn(len(a))] }

func binval(rng *rand.Rand, n int) string {
	b := make([]byte, n)
	for i := range b {
		switch rng.Intn(6) {
		case 0:
			b[i] = "\r\n*$\x00 \"'{"[rng.Intn(9)]
		default:
			b[i] = byte(rng.Intn(256))
		}
	}
	return string(b)
}

// one random write command (all the write kinds that need no clock)
func randWrite(rng *rand.Rand, big bool) []string {
	k, id := pick(rng, keyAlpha), pick(rng, idAlpha)
	if rng.Intn(5) == 0 {
		// the other record kinds a log can hold: FLUSHDB, channels, deadlines, RENAMENX, records written by a script
		ch := "ch" + strconv.Itoa(rng.Intn(3))
		switch rng.Intn(9) {
		case 0:
			return []string{"FLUSHDB"}
		case 1, 2:
			return []string{"SETCHAN", ch, "NEARBY", k, "FENCE", "POINT", strconv.Itoa(rng.Intn(80)), strconv.Itoa(rng.Intn(170)), "100000"}
		case 3:
			return []string{"DELCHAN", ch}
		case 4:
			return []string{"PDELCHAN", pick(rng, []string{"ch*", "ch1*", "*2"})}
		case 5:
			return []string{"EXPIRE", k, id, strconv.Itoa(50000 + rng.Intn(1000))}
		case 6:
			return []string{"PERSIST", k, id}
		case 7:
			return []string{"RENAMENX", k, pick(rng, keyAlpha)}
		default:
			return []string{"EVAL", "tile38.call('SET', KEYS[1], ARGV[1], 'POINT', 1, 2) return tile38.call('FSET', KEYS[1], ARGV[1], 'f1', ARGV[2])",
				"1", k, id, strconv.Itoa(rng.Intn(100))}
		}
	}
	switch rng.Intn(14) {
	case 0, 1, 2, 3:
		n := rng.Intn(12)
		if big && rng.Intn(3) == 0 {
			n = 70000 + rng.Intn(3000)
		}
		return []string{"SET", k, id, "STRING", binval(rng, n)}
	case 4, 5:
		return []string{"SET", k, id, "POINT", strconv.Itoa(rng.Intn(80)), strconv.Itoa(rng.Intn(170))}
	case 6:
		return []string{"SET", k, id, "FIELD", "f" + strconv.Itoa(rng.Intn(3)), strconv.Itoa(rng.Intn(100)), "POINT", "1", strconv.Itoa(rng.Intn(9))}
	case 7:
		return []string{"FSET", k, id, "f" + strconv.Itoa(rng.Intn(3)), strconv.Itoa(rng.Intn(100))}
	case 8:
		return []string{"DEL", k, id}
	case 9:
		return []string{"DROP", k}
	case 10:
		return []string{"RENAME", k, pick(rng, keyAlpha)}
	case 11:
		return []string{"SET", k, id, "OBJECT", `{"type":"Point","coordinates":[` + strconv.Itoa(rng.Intn(170)) + `,` + strconv.Itoa(rng.Intn(80)) + `]}`}
	case 12:
		return []string{"JSET", k, id, "a.b", strconv.Itoa(rng.Intn(50))}
	default:
		return []string{"PDEL", k, pick(rng, []string{"a*", "*", "b"})}
	}
}

func dump(c *srv.Conn) string {
	v := c.MustDo("KEYS", "*")
	var keys []string
	for _, e := range v.Array {
		keys = append(keys, e.Str)
	}
	sort.Strings(keys)
	var sb strings.Builder
	for _, k := range keys {
		s := c.MustDo("SCAN", k, "LIMIT", "1000000")
		sb.WriteString(strconv.Quote(k) + "=" + s.String() + "\n")
	}
	sb.WriteString(hooksDump(c)) // hooks and channels are replayed from the log too (directed.go)
	return sb.String()
}

// makeLog runs random writes against a live server and takes its appendonly.aof as the log.
func makeLog(rng *rand.Rand, dir, name string, nwrites int, big bool) (*genLog, error) {
	d := filepath.Join(dir, "gen-"+name)
	s, err := respgen.StartServer(d, nil)
	if err != nil {
		return nil, err
	}
	c := s.MustDial()
	for i := 0; i < nwrites; i++ {
		if big && (i == 1 || i == nwrites/2 || i == nwrites-2) {
			// at least three values longer than the loader's 0xFFFF read buffer
			c.MustDo("SET", pick(rng, keyAlpha), pick(rng, idAlpha), "STRING", binval(rng, 66000+rng.Intn(9000)))
			continue
		}
		c.MustDo(randWrite(rng, big)...)
	}
	c.Close()
	s.Stop()
	b, err := os.ReadFile(filepath.Join(d, "appendonly.aof"))
	if err != nil {
		return nil, err
	}
	os.RemoveAll(d)
	g, err := parseLog(name, b)
	if err != nil {
		return nil, err
	}
	if big {
		// binary values are arbitrary: put NUL bytes where the loader's reads begin and end
		nulAtReadBoundaries(g, func(m int) int { return rng.Intn(6) })
		return parseLog(name, g.bytes)
	}
	return g, nil
}

func parseLog(name string, b []byte) (*genLog, error) {
	g := &genLog{name: name, bytes: b}
	rest := b
	for len(rest) > 0 {
		p := verifapi.ReadNextCommand(rest)
		if p.Outcome != "complete" || p.Kind != 0 || len(p.Args) == 0 {
			return nil, fmt.Errorf("generated log does not parse at offset %d: %s", len(b)-len(rest), p.Outcome)
		}
		var args []string
		for _, a := range p.Args {
			args = append(args, string(a))
		}
		g.cmds = append(g.cmds, args)
		rest = rest[len(rest)-p.Leftover:]
		g.ends = append(g.ends, len(b)-len(rest))
	}
	return g, nil
}

const readSize = 0xFFFF // var packet [0xFFFF]byte in loadAOF

// nulAtReadBoundaries overwrites, inside the payload of `SET k id STRING v` values only (lengths and
// framing stay as they are), the bytes at file offsets m-1 / m / m+1 for every multiple m of the
// loader's read size, following variant(m): 0 none, 1 {m}, 2 {m,m+1}, 3 {m-1,m,m+1}, 4 {m-1}, 5 {m+1,m+2,m+3} + {m}.
func nulAtReadBoundaries(g *genLog, variant func(m int) int) int {
	placed := 0
	for m := readSize; m < len(g.bytes); m += readSize {
		var offs []int
		switch variant(m) {
		case 1:
			offs = []int{m}
		case 2:
			offs = []int{m, m + 1}
		case 3:
			offs = []int{m - 1, m, m + 1}
		case 4:
			offs = []int{m - 1}
		case 5:
			offs = []int{m, m + 1, m + 2, m + 3}
		}
		for _, o := range offs {
			for i, cmd := range g.cmds {
				if len(cmd) != 5 || !strings.EqualFold(cmd[0], "SET") || !strings.EqualFold(cmd[3], "STRING") {
					continue
				}
				lo := g.ends[i] - 2 - len(cmd[4])
				if o >= lo && o < g.ends[i]-2 {
					g.bytes[o] = 0
					placed++
				}
			}
		}
	}
	return placed
}

// directedLog: a fixed log whose 150 000-byte binary value has NUL bytes at its first and last byte,
// in runs of three every 1000 bytes, and at / around every file offset that is a multiple of the
// loader's read size (where a read packet starts while the carry-over buffer is non-empty).
func directedLog(name string, variant func(m int) int) (*genLog, error) {
	var b []byte
	for i := 0; i < 20; i++ {
		b = append(b, respgen.Encode("SET", "fleet", "t"+strconv.Itoa(i), "POINT", strconv.Itoa(i), strconv.Itoa(2*i))...)
	}
	v := make([]byte, 150000)
	for i := range v {
		v[i] = byte(1 + (i*7)%250)
		if i%1000 < 3 {
			v[i] = 0
		}
	}
	v[len(v)-1] = 0
	b = append(b, respgen.Encode("SET", "blobs", "b1", "STRING", string(v))...)
	b = append(b, respgen.Encode("SET", "fleet", "after", "STRING", "x\x00y")...)
	b = append(b, respgen.Encode("SET", "fleet", "torn", "FIELD", "a", "1", "FIELD", "b", "2", "POINT", "33", "-115")...)
	g, err := parseLog(name, b)
	if err != nil {
		return nil, err
	}
	if nulAtReadBoundaries(g, variant) == 0 {
		return nil, fmt.Errorf("directed log %s: no read boundary inside the value", name)
	}
	return parseLog(name, g.bytes)
}

// reference dumps: a fresh server without a log, fed the log's commands one by one
func (g *genLog) refDumps(dir string) error {
	s, err := respgen.StartServer(filepath.Join(dir, "ref-"+g.name), nil, "--appendonly", "no")
	if err != nil {
		return err
	}
	defer s.Kill()
	c := s.MustDial()
	defer c.Close()
	g.dumps = []string{dump(c)}
	for _, cmd := range g.cmds {
		c.MustDo(cmd...)
		g.dumps = append(g.dumps, dump(c))
	}
	return nil
}

// ---------- one case: a file derived from a log ----------

type fcase struct {
	log      *genLog
	desc     string
	file     []byte
	ncomp    int  // commands wholly inside the file
	validLen int  // expected size after repair (harness bookkeeping, model-free)
	torn     bool // the file ends strictly inside a command
	zeros    int
	padAfter int // NULs appended after the torn command (crash on a zero-extending file system)
}

// build a file: the first k bytes of the log with zero runs injected at command boundaries
// (zeroAt[i] = length of the zero run placed before command i; index len(cmds) = after the last)
func buildCase(g *genLog, k int, zeroAt map[int]int, desc string) fcase {
	var out []byte
	fc := fcase{log: g, desc: desc}
	trailing := zeroAt[-1] == 1
	for i := 0; i <= len(g.cmds); i++ {
		start := 0
		if i > 0 {
			start = g.ends[i-1]
		}
		if start > k {
			break
		}
		if z := zeroAt[i]; z > 0 && (start < k || trailing || i == len(g.cmds)) {
			out = append(out, make([]byte, z)...)
			fc.zeros += z
		}
		if i == len(g.cmds) || start == k {
			break
		}
		if g.ends[i] <= k {
			out = append(out, g.bytes[start:g.ends[i]]...)
			fc.ncomp++
			continue
		}
		fc.validLen = len(out)
		out = append(out, g.bytes[start:k]...)
		fc.torn = true
		break
	}
	fc.file = out
	if !fc.torn {
		fc.validLen = len(out)
	}
	return fc
}

type obs struct {
	started  bool
	startErr string
	size1    int64
	dump1    string
	ackExtra string
	size2    int64
	dump2    string
	started2 bool
}

var extraCmd = []string{"SET", "zz-extra", "x\r\n", "STRING", "after\x00recovery"}

func observe(dir string, file []byte, settle bool) (o obs) {
	os.MkdirAll(dir, 0o755)
	aof := filepath.Join(dir, "appendonly.aof")
	defer os.RemoveAll(dir)
	s, err := respgen.StartServer(dir, func() error { return os.WriteFile(aof, file, 0o644) })
	if err != nil {
		o.startErr = err.Error()
		if s != nil && s.Alive() {
			s.Kill()
		}
		return
	}
	if settle {
		// a loadAOF error lets the process answer for about a second before it exits with [FATA]
		for i := 0; i < 16 && s.Alive(); i++ {
			time.Sleep(100 * time.Millisecond)
		}
		if !s.Alive() {
			o.startErr = "server exited shortly after start: " + fatalLine(s.LogTail(600))
			return
		}
	}
	o.started = true
	if fi, err := os.Stat(aof); err == nil {
		o.size1 = fi.Size()
	}
	func() {
		defer func() {
			if r := recover(); r != nil {
				o.startErr = fmt.Sprint(r)
			}
		}()
		c := s.MustDial()
		defer c.Close()
		o.dump1 = dump(c)
		o.ackExtra = c.MustDo(extraCmd...).String()
	}()
	s.Kill() // the acknowledged write must already be in the file
	s2, err := respgen.StartServer(dir, nil)
	if err != nil {
		if s2 != nil && s2.Alive() {
			s2.Kill()
		}
		o.startErr = "second start: " + err.Error()
		return
	}
	o.started2 = true
	if fi, err := os.Stat(aof); err == nil {
		o.size2 = fi.Size()
	}
	func() {
		defer func() {
			if r := recover(); r != nil {
				o.startErr = fmt.Sprint(r)
			}
		}()
		c := s2.MustDial()
		defer c.Close()
		o.dump2 = dump(c)
	}()
	s2.Kill()
	return
}

func fatalLine(log string) string {
	if i := strings.Index(log, "[FATA]"); i >= 0 {
		return strings.TrimSpace(log[i:])
	}
	return log
}

func cmdsStr(cmds [][]string) string {
	var sb strings.Builder
	sb.WriteString(strconv.Itoa(len(cmds)))
	for _, c := range cmds {
		hs := make([]string, len(c))
		for i, a := range c {
			hs[i] = model.H(a)
		}
		sb.WriteString(" " + strings.Join(hs, ","))
	}
	return sb.String()
}

func short(b []byte) string {
	if len(b) > 300 {
		return strconv.Quote(string(b[:120])) + fmt.Sprintf("…(%d bytes)…", len(b)) + strconv.Quote(string(b[len(b)-120:]))
	}
	return strconv.Quote(string(b))
}

func runC04(r *hx.Result, cfg hx.Config) {
	r.Rule = "parser: byte strings (valid RESP encodings, 1-3 mutations of them incl. negative / 2^63-range length fields, telnet and native lines, raw alphabet soup) through redcon.ReadNextCommand and the model read_next. loader: logs written by a live server from random SET STRING/POINT/OBJECT/FIELD, FSET, JSET, DEL, PDEL, DROP, RENAME, RENAMENX, FLUSHDB, SETCHAN/DELCHAN/PDELCHAN, EXPIRE/PERSIST and EVAL scripts with binary keys/ids/values (CR LF * $ NUL, 70 kB values), cut at every offset (short logs) or sampled offsets (long logs), with zero runs at command boundaries (in big logs also reaching the end of a 0xFFFF read); directed logs first: NULs at read boundaries, every loggable command kind around a FLUSHDB, zero padding reaching the end of a read / at the tail of a 215 kB log; the real server is started on the file, then one more write, SIGKILL, second start. non-trivial = distinct (log, offset, zero layout) whose cut is strictly inside a command and at least one complete command precedes it."
	r.Assumptions = []string{
		"os.File.Read returns the file in successive chunks (the model's load_chunks is proved equal to one-shot parsing for every chunking, theorem c04_chunked_eq_whole)",
		"the effect of replayed commands on the dataset is that of a reference server fed the model's command list over a client connection; their effect on the loader's position is decided by theorem c04_replay_position_untouched over the regenerated effects table (synchronous in-package calls)",
	}
	rng := rand.New(rand.NewSource(cfg.Seed))
	drv, err := model.Start("resp")
	if err != nil {
		panic(err)
	}
	defer drv.Close()

	// ---- A. the parser model against redcon.ReadNextCommand ----
	nA := 30000
	if cfg.Tier == "thorough" {
		nA = 1000000
	}
	if cfg.Search {
		nA = 300000
	}
	for i, s := range respgen.Corpus {
		oc := respgen.DiffParser(r, drv, "corpus", []byte(s))
		r.Dist("parser:corpus:" + oc)
		r.Count("p\x00"+s, false)
		_ = i
	}
	for i := 0; i < nA; i++ {
		gen, b := respgen.RandPacket(rng)
		oc := respgen.DiffParser(r, drv, gen, b)
		r.Dist("parser:" + gen + ":" + oc)
		r.Count("p\x00"+string(b), false)
		if oc == "panic" {
			r.Sample(3, map[string]string{"parser_panics_on": strconv.Quote(string(b))})
		}
	}
	// enc model = AppendArray/AppendBulkString
	for i := 0; i < 300; i++ {
		args := respgen.RandArgs(rng)
		if i%50 == 0 {
			args = append(args, strings.Repeat("x", 9+rng.Intn(200)), strings.Repeat("y", 1000+rng.Intn(100)))
		}
		hs := make([]string, len(args))
		for j, a := range args {
			hs[j] = model.H(a)
		}
		m := model.U(drv.Ask(append([]string{"enc"}, hs...)...))
		if impl := string(respgen.Encode(args...)); impl != m {
			r.Fail(hx.Failure{Kind: "correspondence", Signature: "enc-model", What: "AppendArray/AppendBulkString and the model enc disagree",
				Case: args, Impl: strconv.Quote(impl), Model: strconv.Quote(m)})
		}
	}

	// ---- B. loadAOF: the real server on cut / padded files ----
	type spec struct {
		name    string
		writes  int
		big     bool
		offsets int // 0 = every offset
	}
	specs := []spec{{"s1", 7, false, 0}, {"s2", 9, false, 0}, {"s3", 6, false, 0}, {"big1", 8, true, 24}}
	if cfg.Tier == "thorough" || cfg.Search {
		specs = append(specs, spec{"s4", 14, false, 0}, spec{"s5", 20, false, 0}, spec{"s6", 30, false, 0}, spec{"big2", 12, true, 300}, spec{"big3", 10, true, 300}, spec{"long", 400, false, 400})
	}
	var cases []fcase
	for _, sp := range specs {
		g, err := makeLog(rng, cfg.Work, sp.name, sp.writes, sp.big)
		if err != nil {
			panic(err)
		}
		if err := g.refDumps(cfg.Work); err != nil {
			panic(err)
		}
		r.Dist("log:" + sp.name)
		var offs []int
		if sp.offsets == 0 {
			for k := 0; k <= len(g.bytes); k++ {
				offs = append(offs, k)
			}
		} else {
			// boundaries +-1, chunk boundaries +-1, and random offsets
			for _, e := range g.ends {
				offs = append(offs, e-1, e, e+1)
			}
			for c := 0xFFFF; c < len(g.bytes); c += 0xFFFF {
				offs = append(offs, c-1, c, c+1)
			}
			rng.Shuffle(len(offs), func(i, j int) { offs[i], offs[j] = offs[j], offs[i] })
			if len(offs) > sp.offsets/2 {
				offs = offs[:sp.offsets/2]
			}
			for len(offs) < sp.offsets {
				offs = append(offs, rng.Intn(len(g.bytes)+1))
			}
		}
		for _, k := range offs {
			if k < 0 || k > len(g.bytes) {
				continue
			}
			cases = append(cases, buildCase(g, k, nil, fmt.Sprintf("%s cut@%d", g.name, k)))
		}
		// zero runs at command boundaries, then cut
		nz := len(offs) / 3
		if sp.offsets != 0 {
			nz = sp.offsets / 3
		}
		for i := 0; i < nz; i++ {
			z := map[int]int{}
			for j := 0; j <= len(g.cmds); j++ {
				if rng.Intn(3) == 0 {
					z[j] = 1 + rng.Intn(5)
					if rng.Intn(10) == 0 {
						z[j] = 4096
					}
				}
			}
			k := rng.Intn(len(g.bytes) + 1)
			if rng.Intn(3) == 0 {
				k = g.ends[rng.Intn(len(g.ends))]
				z[-1] = 1 // keep the zero run that follows a cut at a boundary
			}
			if sp.big && i%2 == 0 {
				// zero runs that reach the end of a 0xFFFF read (and a little beyond), where the carry-over buffer is in use
				if i%4 == 0 {
					k = len(g.bytes)
					z[len(g.cmds)] = 1 + rng.Intn(40)
				}
				z = zerosToReadEnd(g, k, z, func(m int) int { return []int{-1, 0, 0, 1, 2, 300, 5000}[rng.Intn(7)] })
			}
			cases = append(cases, buildCase(g, k, z, fmt.Sprintf("%s cut@%d zeros=%v", g.name, k, z)))
		}
	}

	// a torn command followed by zero padding (a crash during an append on a zero-extending file system)
	{
		var padded []fcase
		pads := []int{1, 2, 7, 64, 4096}
		for _, fc := range cases {
			if !fc.torn || fc.zeros > 0 || len(fc.file) > 20000 || rng.Intn(6) != 0 {
				continue
			}
			p := fc
			p.padAfter = pads[rng.Intn(len(pads))]
			p.file = append(append([]byte{}, fc.file...), make([]byte, p.padAfter)...)
			p.desc = fmt.Sprintf("%s then %d NULs", fc.desc, p.padAfter)
			padded = append(padded, p)
		}
		if cfg.Tier == "quick" && len(padded) > 60 {
			padded = padded[:60]
		}
		cases = append(cases, padded...)
	}

	// directed regression logs (run in every tier): NUL bytes of a large binary value at the file
	// offsets where loadAOF's reads start (carry-over buffer non-empty there)
	var directed []fcase
	for vi, variant := range []func(m int) int{
		func(m int) int { return 5 },
		func(m int) int { return 1 + (m/readSize)%4 },
		func(m int) int { return 3 },
	} {
		g, err := directedLog("dir"+strconv.Itoa(vi), variant)
		if err != nil {
			panic(err)
		}
		if err := g.refDumps(cfg.Work); err != nil {
			panic(err)
		}
		r.Dist("log:directed")
		n := len(g.bytes)
		last := g.ends[len(g.ends)-2]
		offs := []int{n, n - 30, last, last + 1, last - 1, g.ends[len(g.ends)-3], readSize + 1, readSize, readSize - 1, 2 * readSize, 2*readSize + 2, 2*readSize + 700}
		if vi > 0 {
			offs = offs[:7]
		}
		for _, k := range offs {
			directed = append(directed, buildCase(g, k, nil, fmt.Sprintf("%s(NULs at read boundaries) cut@%d", g.name, k)))
		}
	}
	// directed logs holding every loggable command kind (FLUSHDB in the first read) with torn tails, and
	// logs larger than one read whose zero padding reaches the end of a read (directed.go)
	for _, big := range []bool{false, true} {
		name, max := "kinds-small", 45
		if big {
			name, max = "kinds-big", 14
		}
		g, err := kindsLog(cfg.Work, name, big)
		if err != nil {
			panic(err)
		}
		if err := g.refDumps(cfg.Work); err != nil {
			panic(err)
		}
		r.Dist("log:directed-kinds")
		directed = append(directed, kindsCases(g, rng, max)...)
	}
	{
		g, err := paddedLog("padded")
		if err != nil {
			panic(err)
		}
		if err := g.refDumps(cfg.Work); err != nil {
			panic(err)
		}
		r.Dist("log:directed-padded")
		directed = append(directed, paddedCases(g)...)
	}
	cases = append(directed, cases...)

	var mu sync.Mutex
	var wg sync.WaitGroup
	ch := make(chan int)
	workers := 8
	// the model's `load` of a 200 kB file takes a few tenths of a second: several driver processes
	ldrv := []*model.Driver{drv}
	for len(ldrv) < 4 {
		d, err := model.Start("resp")
		if err != nil {
			panic(err)
		}
		defer d.Close()
		ldrv = append(ldrv, d)
	}
	for w := 0; w < workers; w++ {
		wg.Add(1)
		go func(w int) {
			defer wg.Done()
			for i := range ch {
				fc := cases[i]
				o := observe(filepath.Join(cfg.Work, fmt.Sprintf("c-%d-%d", w, i)), fc.file, fc.padAfter > 0)
				m := ldrv[w%len(ldrv)].Ask("load", model.H(string(fc.file)))
				mu.Lock()
				judge(r, fc, o, m)
				mu.Unlock()
			}
		}(w)
	}
	for i := range cases {
		ch <- i
	}
	close(ch)
	wg.Wait()

	// chunked model = one-shot model on the same files with small chunk sizes (exercises the carry-over)
	for i := 0; i < len(cases) && i < 400; i++ {
		fc := cases[rng.Intn(len(cases))]
		if len(fc.file) > 4000 {
			continue
		}
		whole := drv.Ask("loadw", model.H(string(fc.file)))
		small := drv.Ask("loadsz", strconv.Itoa(1+rng.Intn(40)), model.H(string(fc.file)))
		if whole != small {
			r.Fail(hx.Failure{Kind: "correspondence", Signature: "model-chunked-vs-whole", What: "model load_chunks differs from load_whole",
				Case: short(fc.file), Impl: small, Model: whole})
		}
	}
	r.TracesImpl = len(cases)
	r.Extra["loader_cases"] = len(cases)
	r.Extra["parser_cases"] = nA + len(respgen.Corpus)
}

func judge(r *hx.Result, fc fcase, o obs, m string) {
	g := fc.log
	kind := "boundary"
	if fc.torn {
		kind = "torn"
	}
	if fc.zeros > 0 {
		kind += "+zeros"
	}
	if fc.padAfter > 0 {
		kind += "+padded-after"
	}
	r.Dist("load:" + kind)
	r.Count("l\x00"+fc.desc, fc.torn && fc.ncomp > 0)
	r.Sample(4, map[string]interface{}{"case": fc.desc, "file_len": len(fc.file), "complete_cmds": fc.ncomp, "expected_valid_len": fc.validLen, "size_after_start": o.size1})
	cs := map[string]interface{}{"case": fc.desc, "file": short(fc.file), "file_len": len(fc.file)}
	fail := func(kind, sig, what string, impl, mod interface{}) {
		r.Fail(hx.Failure{Kind: kind, Signature: sig, What: what + " (" + fc.desc + ")", Case: cs, Impl: impl, Model: mod})
	}
	// direct oracles (no model)
	if !o.started && fc.padAfter > 0 {
		// open known finding C04-torn-then-padded; the model must predict exactly these failures
		fail("oracle", "start-fails-torn-then-padded", fmt.Sprintf("a torn command followed by %d NUL bytes of padding is not repaired: the server refuses to start: %s", fc.padAfter, o.startErr), o.startErr, nil)
		if !strings.HasPrefix(m, "E ") {
			fail("correspondence", "load-model", "the server fails on a torn-then-padded log that the model loads", o.startErr, m)
		}
		return
	}
	if !o.started {
		fail("oracle", "start-fails", "the server does not start on a torn/padded log: "+o.startErr, o.startErr, nil)
		return
	}
	if o.startErr != "" {
		fail("oracle", "crash-after-start", "the server failed after starting on a torn/padded log: "+o.startErr, o.startErr, nil)
		return
	}
	if int(o.size1) != fc.validLen {
		fail("oracle", "size-after-repair", fmt.Sprintf("file size after start is %d, the last command boundary is %d", o.size1, fc.validLen), o.size1, fc.validLen)
	}
	if o.dump1 != g.dumps[fc.ncomp] {
		fail("oracle", "state-after-repair", "recovered dataset differs from the dataset of the complete commands before the tear", o.dump1, g.dumps[fc.ncomp])
	}
	if !strings.HasPrefix(o.ackExtra, "+OK") {
		fail("oracle", "write-after-repair", "a write after recovery was not acknowledged", o.ackExtra, "+OK")
	}
	if !o.started2 {
		fail("oracle", "second-start-fails", "second start failed", o.startErr, nil)
		return
	}
	wantSize2 := fc.validLen + len(respgen.Encode(extraCmd...))
	if int(o.size2) != wantSize2 {
		fail("oracle", "size-after-append", fmt.Sprintf("file size after the extra write and a restart is %d, want %d", o.size2, wantSize2), o.size2, wantSize2)
	}
	if !strings.HasPrefix(o.dump2, "") || !strings.Contains(o.dump2, strconv.Quote("zz-extra")) {
		fail("oracle", "acked-write-lost", "the write acknowledged after recovery is missing after the next restart", o.dump2, nil)
	}
	// everything but the extra key must be what it was
	if stripExtra(o.dump2) != g.dumps[fc.ncomp] {
		fail("oracle", "state-after-append", "dataset after the extra write and restart differs", stripExtra(o.dump2), g.dumps[fc.ncomp])
	}
	// correspondence with the model
	want := fmt.Sprintf("L %d %s", o.size1, cmdsStr(g.cmds[:fc.ncomp]))
	if m != want {
		mm := m
		if len(mm) > 300 {
			mm = mm[:300] + "…"
		}
		if len(want) > 300 {
			want = want[:300] + "…"
		}
		fail("correspondence", "load-model", "model load_aof disagrees with the observed repair (valid size / command list)", want, mm)
	}
}

func stripExtra(d string) string {
	var out []string
	for _, l := range strings.Split(d, "\n") {
		if strings.HasPrefix(l, strconv.Quote("zz-extra")+"=") {
			continue
		}
		out = append(out, l)
	}
	return strings.Join(out, "\n")
}
