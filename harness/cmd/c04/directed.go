// C04 — directed regression logs added when strengthening against seeded changes C04/7 and C04/8:
// logs that contain every command kind the server appends to its log (FLUSHDB, DROP, RENAME, hooks and
// channels, EXPIRE/PERSIST, records written by scripts, ...) with a torn tail, and logs larger than one
// 0xFFFF read whose zero padding reaches the end of a read that began inside a command.
package main

import (
	"fmt"
	"math/rand"
	"os"
	"path/filepath"
	"strconv"
	"strings"

	"verifharness/internal/respgen"
	"verifharness/internal/srv"
)

// the command names handleInputCommand hands to writeAOF (Gen/LockTable.v, arms with write = true);
// kindsLog must contain a record of each of them
var loggableKinds = []string{"set", "del", "drop", "fset", "flushdb", "setchan", "pdelchan", "delchan", "sethook",
	"pdelhook", "delhook", "expire", "persist", "jset", "jdel", "pdel", "rename", "renamenx"}

// hooksDump: the hooks and channels of the server, canonical (names, keys, endpoints, commands; no timing)
func hooksDump(c *srv.Conn) string {
	var sb strings.Builder
	for _, what := range []string{"HOOKS", "CHANS"} {
		v := c.MustDo(what, "*")
		for _, h := range v.Array {
			sb.WriteString(what + " " + h.String() + "\n")
		}
	}
	return sb.String()
}

// kindsCommands: a history that makes the server log a record of every loggable kind, before and after a
// FLUSHDB that sits in the first read of the loader. big adds values larger than the loader's read buffer
// behind the FLUSHDB, so that several reads follow the one in which FLUSHDB is replayed.
func kindsCommands(big bool) [][]string {
	setScript := "return tile38.call('SET', KEYS[1], ARGV[1], 'POINT', ARGV[2], ARGV[3])"
	delScript := "tile38.call('FSET', KEYS[1], ARGV[1], 'speed', 7) return tile38.call('DEL', KEYS[1], ARGV[2])"
	round := func(p string) [][]string {
		return [][]string{
			{"SET", p + "fleet", "t1", "POINT", "33", "-115"},
			{"SET", p + "fleet", "t2", "FIELD", "speed", "12", "POINT", "34", "-114"},
			{"SET", p + "fleet", "t3", "STRING", "x\x00\r\n*1\r\n$7\r\nFLUSHDB\r\n"},
			{"SET", p + "tmp", "a", "POINT", "1", "1"},
			{"SET", p + "tmp", "b", "POINT", "2", "2"},
			{"SET", p + "old", "o1", "OBJECT", `{"type":"Point","coordinates":[10,20]}`},
			{"FSET", p + "fleet", "t1", "speed", "55"},
			{"JSET", p + "docs", "d1", "a.b", "1"},
			{"JSET", p + "docs", "d1", "a.c", "2"},
			{"JDEL", p + "docs", "d1", "a.c"},
			{"EXPIRE", p + "fleet", "t2", "90000"},
			{"PERSIST", p + "fleet", "t2"},
			{"EXPIRE", p + "fleet", "t3", "80000"},
			{"SETCHAN", p + "ch1", "NEARBY", p + "fleet", "FENCE", "POINT", "33", "-115", "1000"},
			{"SETCHAN", p + "ch2", "WITHIN", p + "fleet", "FENCE", "BOUNDS", "30", "-120", "40", "-110"},
			{"SETCHAN", p + "cx9", "WITHIN", p + "fleet", "FENCE", "BOUNDS", "31", "-120", "40", "-110"},
			{"SETHOOK", p + "hk1", "http://127.0.0.1:9/" + p, "WITHIN", p + "hookonly", "FENCE", "BOUNDS", "0", "0", "1", "1"},
			{"SETHOOK", p + "hk2", "http://127.0.0.1:9/" + p + "2", "NEARBY", p + "hookonly", "FENCE", "POINT", "1", "1", "10"},
			{"SETHOOK", p + "hx9", "http://127.0.0.1:9/" + p + "3", "NEARBY", p + "hookonly", "FENCE", "POINT", "2", "2", "10"},
			{"EVAL", setScript, "1", p + "fleet", "viascript", "35", "-113"},
			{"EVAL", delScript, "1", p + "fleet", "t1", "viascript"},
			{"DEL", p + "tmp", "a"},
			{"PDEL", p + "tmp", "b*"},
			{"RENAME", p + "old", p + "new"},
			{"SET", p + "other", "z", "POINT", "5", "5"},
			{"RENAMENX", p + "other", p + "other2"},
			{"DROP", p + "new"},
			{"DELCHAN", p + "ch2"},
			{"DELHOOK", p + "hk2"},
			{"PDELHOOK", p + "hx*"},
			{"PDELCHAN", p + "cx*"},
		}
	}
	cmds := round("a:")
	cmds = append(cmds, []string{"SETCHAN", "gone", "NEARBY", "a:fleet", "FENCE", "POINT", "1", "1", "1"})
	cmds = append(cmds, []string{"FLUSHDB"})
	if big {
		for i := 0; i < 3; i++ {
			v := make([]byte, 66000+1500*i)
			for j := range v {
				v[j] = byte('a' + (i+j)%23)
			}
			cmds = append(cmds, []string{"SET", "blobs", "b" + strconv.Itoa(i), "STRING", string(v)})
		}
	}
	cmds = append(cmds, round("b:")...)
	if big {
		// a second FLUSHDB in a later read, then more records
		cmds = append(cmds, []string{"FLUSHDB"})
		v := strings.Repeat("tail-", 14000)
		cmds = append(cmds, []string{"SET", "blobs", "late", "STRING", v})
		cmds = append(cmds, round("c:")[:8]...)
	}
	for i := 0; i < 6; i++ {
		cmds = append(cmds, []string{"SET", "b:fleet", "after" + strconv.Itoa(i), "POINT", strconv.Itoa(i), strconv.Itoa(2 * i)})
	}
	return cmds
}

// kindsLog lets a live server write the log of kindsCommands and checks that every loggable kind is in it.
func kindsLog(dir, name string, big bool) (*genLog, error) {
	d := filepath.Join(dir, "gen-"+name)
	s, err := respgen.StartServer(d, nil)
	if err != nil {
		return nil, err
	}
	c := s.MustDial()
	for _, cmd := range kindsCommands(big) {
		if v := c.MustDo(cmd...); v.IsErr() {
			c.Close()
			s.Kill()
			return nil, fmt.Errorf("directed log %s: %q refused: %s", name, cmd[0], v.String())
		}
	}
	c.Close()
	s.Stop()
	b, err := os.ReadFile(filepath.Join(d, "appendonly.aof"))
	if err != nil {
		return nil, err
	}
	os.RemoveAll(d)
	g, err := parseLog(name, b)
	if err != nil {
		return nil, err
	}
	seen := map[string]bool{}
	for _, cmd := range g.cmds {
		seen[strings.ToLower(cmd[0])] = true
	}
	for _, k := range loggableKinds {
		if !seen[k] {
			return nil, fmt.Errorf("directed log %s has no %s record", name, k)
		}
	}
	return g, nil
}

// kindsCases: the log uncut, cut at and just inside every record after the first FLUSHDB (small log), or
// at a sample of such places (big log)
func kindsCases(g *genLog, rng *rand.Rand, max int) []fcase {
	first := -1
	for i, cmd := range g.cmds {
		if strings.EqualFold(cmd[0], "FLUSHDB") {
			first = i
			break
		}
	}
	var offs []int
	n := len(g.bytes)
	last := g.ends[len(g.ends)-2]
	offs = append(offs, n, n-1, last+1, last+(n-last)/2, last)
	var rest []int
	for i := first; i >= 0 && i < len(g.cmds)-1; i++ {
		// inside record i+1: after its first byte, in the middle, before its last byte
		lo, hi := g.ends[i], g.ends[i+1]
		rest = append(rest, lo+1, lo+(hi-lo)/2, hi-1)
	}
	for i := 0; i < first; i += 3 {
		rest = append(rest, g.ends[i]+2)
	}
	rng.Shuffle(len(rest), func(i, j int) { rest[i], rest[j] = rest[j], rest[i] })
	if len(rest) > max {
		rest = rest[:max]
	}
	offs = append(offs, rest...)
	var out []fcase
	for _, k := range offs {
		out = append(out, buildCase(g, k, nil, fmt.Sprintf("%s(every loggable kind, FLUSHDB at record %d) cut@%d", g.name, first, k)))
	}
	return out
}

// ---------- zero padding that reaches the end of a read ----------

// paddedLog: 64 records of about 3.3 kB (no NUL bytes), 215 kB in all: three read boundaries, each inside a record.
func paddedLog(name string) (*genLog, error) {
	var b []byte
	for i := 0; i < 64; i++ {
		v := make([]byte, 3300+(i*37)%200)
		for j := range v {
			v[j] = byte('A' + (i+j)%26)
		}
		b = append(b, respgen.Encode("SET", "pad", "id"+strconv.Itoa(i%8), "STRING", string(v))...)
	}
	g, err := parseLog(name, b)
	if err != nil {
		return nil, err
	}
	for _, e := range g.ends {
		if e%readSize == 0 {
			return nil, fmt.Errorf("padded log %s: a record ends at a read boundary", name)
		}
	}
	return g, nil
}

// zerosToReadEnd returns a zero layout for the first k bytes of g in which, for the read boundaries chosen by
// pickDelta (delta < 0 = leave this boundary alone), the record that would straddle the boundary is preceded by
// a zero run reaching the last byte of that read plus delta more bytes. base gives further runs (may be nil).
func zerosToReadEnd(g *genLog, k int, base map[int]int, pickDelta func(m int) int) map[int]int {
	z := map[int]int{}
	for i, n := range base {
		z[i] = n
	}
	// the extracted model's driver handles files up to about 500 kB (non-tail-recursive list functions)
	const maxFile = 440000
	total := k
	for _, n := range z {
		total += n
	}
	out := 0
	for i := 0; i < len(g.cmds); i++ {
		start := 0
		if i > 0 {
			start = g.ends[i-1]
		}
		if start >= k {
			break
		}
		out += z[i]
		m := (out/readSize + 1) * readSize
		cl := g.ends[i] - start
		if out > 0 && out+cl > m {
			if d := pickDelta(m); d >= 0 && total+m-out+d <= maxFile {
				add := m - out + d
				z[i] += add
				out += add
				total += add
			}
		}
		out += cl
	}
	return z
}

func zdesc(z map[int]int) string {
	var parts []string
	for i := -1; i < 100000 && len(parts) < len(z); i++ {
		if n, ok := z[i]; ok {
			parts = append(parts, fmt.Sprintf("%d:%d", i, n))
		}
	}
	return strings.Join(parts, ",")
}

func paddedCases(g *genLog) []fcase {
	var out []fcase
	n := len(g.bytes)
	nc := len(g.cmds)
	lastStart := g.ends[nc-2]
	add := func(k int, z map[int]int, what string) {
		out = append(out, buildCase(g, k, z, fmt.Sprintf("%s(%s) cut@%d zeros=%s", g.name, what, k, zdesc(z))))
	}
	// a zero run between two records that reaches the end of the 1st / 2nd / 3rd read (+0, +1, +3, +5000 bytes),
	// log whole or torn inside its last record
	for bi := 1; bi <= 3; bi++ {
		for _, d := range []int{0, 1, 3, 5000} {
			want := bi
			z := zerosToReadEnd(g, n, nil, func(m int) int {
				if m/readSize == want {
					return d
				}
				return -1
			})
			k := n
			if (bi+d)%2 == 1 {
				k = lastStart + 40
			}
			add(k, z, fmt.Sprintf("zero run reaching the end of read %d, +%d", bi, d))
		}
	}
	// control: the run stops one byte short of the end of the read
	{
		z := zerosToReadEnd(g, n, nil, func(m int) int {
			if m/readSize == 2 {
				return 0
			}
			return -1
		})
		for i := range z {
			z[i]--
		}
		add(n, z, "zero run one byte short of the end of read 2")
	}
	// zero padding at the tail of a log larger than one read: whole log, and cut back to earlier record ends
	for _, t := range []int{1, 4, 100, 3000, 5000} {
		add(n, map[int]int{nc: t}, fmt.Sprintf("%d zero bytes at the tail", t))
	}
	for _, jt := range [][2]int{{nc - 2, 4}, {nc - 9, 2}, {24, 7}, {20, 1}} {
		j, t := jt[0], jt[1]
		add(g.ends[j], map[int]int{j + 1: t, -1: 1}, fmt.Sprintf("%d zero bytes at the tail", t))
	}
	// both: a run reaching the end of every read, and padding at the tail
	{
		z := zerosToReadEnd(g, n, map[int]int{nc: 6}, func(m int) int { return (m / readSize) % 3 })
		add(n, z, "zero runs reaching the end of every read, 6 at the tail")
		z2 := zerosToReadEnd(g, lastStart+40, nil, func(m int) int { return 2 })
		add(lastStart+40, z2, "zero runs reaching the end of every read, torn tail")
	}
	return out
}
