package main

// CLIENT LIST in both modes (c17_client_list_fields_agree, c17_client_list_split_all_refuted;
// Model/ClientList.v).  Connections to one server are given names CLIENT SETNAME accepts — with '=',
// only '=', a trailing '=', quotes, backslashes, < > &, and names that look like numbers or booleans —
// then CLIENT LIST is read on a RESP-mode and on a JSON-mode connection of that server.
// Direct oracle (no model) client-list-modes-disagree: per connection id the JSON entry carries the
// same members as the RESP line (id, addr, name; the JSON value is what the guess int / float / bool /
// string makes of the RESP text), and the name is the one CLIENT GETNAME answers on that connection.
// Correspondence client-list-model: the entries of the JSON reply are the extracted
// Model.ClientList.json_entries cut_first of the real RESP text.

import (
	"encoding/json"
	"fmt"
	"math"
	"strconv"
	"strings"

	"verifharness/internal/hx"
	"verifharness/internal/model"
)

// guess: tryParseType of internal/server/stats.go, as JSON text
func guessJSON(s string) string {
	if v, err := strconv.ParseInt(s, 10, 64); err == nil {
		b, _ := json.Marshal(v)
		return string(b)
	}
	if v, err := strconv.ParseFloat(s, 64); err == nil && !math.IsNaN(v) && !math.IsInf(v, 0) {
		b, _ := json.Marshal(v)
		return string(b)
	}
	if v, err := strconv.ParseBool(s); err == nil {
		b, _ := json.Marshal(v)
		return string(b)
	}
	b, _ := json.Marshal(s)
	return string(b)
}

func (b *bb) clientList() {
	names := []string{"a=b", "=", "==", "x=", "=y", "k=v=w", `q"uo\te`, "plain", "<a&b>", "123", "1e3", "true", "nan", "id=7", "~!~", ""}
	type cn struct {
		c    *rconn
		name string
	}
	var conns []cn
	defer func() {
		for _, x := range conns {
			x.c.close()
		}
	}()
	for _, n := range names {
		c, err := dialRaw(b.sa.Port)
		if err != nil {
			return
		}
		conns = append(conns, cn{c, n})
		if n == "" {
			if _, err := c.do("PING"); err != nil {
				return
			}
			continue
		}
		if v, err := c.do("CLIENT", "SETNAME", n); err != nil || v.Str != "OK" {
			b.fail("client-setname", "CLIENT SETNAME refused a name made of bytes '!'..'~': "+v.String(), []string{"CLIENT", "SETNAME", n}, v.String(), nil)
			return
		}
		if v, err := c.do("CLIENT", "GETNAME"); err != nil || v.Str != n {
			b.fail("client-getname", "CLIENT GETNAME does not answer the name just set", []string{"CLIENT", "GETNAME"}, v.String(), n)
		}
	}
	rc, err := dialRaw(b.sa.Port)
	if err != nil {
		return
	}
	defer rc.close()
	rv, err := rc.do("CLIENT", "LIST")
	if err != nil || rv.Kind != '$' {
		b.fail("client-list-resp", "CLIENT LIST in RESP mode is not a bulk string", []string{"CLIENT", "LIST"}, rv.String(), nil)
		return
	}
	jv, err := b.ja.do("CLIENT", "LIST")
	if err != nil || jv.Kind != '$' {
		b.serverGone("json", []string{"CLIENT", "LIST"}, err)
		return
	}
	jd, sig, what := checkJSONDoc(jv.Str)
	if sig != "" {
		b.fail(b.classify(sig, "client", jv.Str), what+": "+trunc(jv.Str, 300), []string{"CLIENT", "LIST"}, jv.Str, nil)
		return
	}
	var entries []map[string]json.RawMessage
	if json.Unmarshal(jd.M["list"], &entries) != nil {
		b.fail("client-list-json", `the JSON reply of CLIENT LIST has no array "list"`, []string{"CLIENT", "LIST"}, jv.Str, nil)
		return
	}
	byID := map[string]map[string]json.RawMessage{}
	for _, e := range entries {
		byID[string(e["id"])] = e
	}
	// direct oracle: line by line
	for _, line := range strings.Split(strings.TrimSpace(rv.Str), "\n") {
		fields := map[string]string{}
		for _, kv := range strings.Split(line, " ") {
			if i := strings.IndexByte(kv, '='); i >= 0 {
				fields[kv[:i]] = kv[i+1:]
			}
		}
		b.r.Count("clientlist|"+fields["name"], strings.Contains(fields["name"], "="))
		b.r.Dist("clientlist:connection")
		e, ok := byID[fields["id"]]
		cs := map[string]interface{}{"resp_line": line, "json_entry": e}
		if !ok {
			// connections opened or closed between the two replies (none here) would show up as this
			b.r.Fail(hx.Failure{Kind: "oracle", Signature: "client-list-modes-disagree", What: "the connection of the RESP line " + strconv.Quote(line) + " is missing from the JSON list", Case: cs, Impl: trunc(jv.Str, 400)})
			continue
		}
		for _, k := range []string{"id", "addr", "name"} {
			raw, has := e[k]
			if !has || string(raw) != guessJSON(fields[k]) {
				b.r.Fail(hx.Failure{Kind: "oracle", Signature: "client-list-modes-disagree",
					What: fmt.Sprintf("CLIENT LIST: RESP mode shows %s=%s for connection id %s, JSON mode shows %s (member %s)", k, strconv.Quote(fields[k]), fields["id"], map[bool]string{true: string(raw), false: "no such member"}[has], k),
					Case: cs, Impl: trunc(string(raw), 200), Model: guessJSON(fields[k])})
			}
		}
	}
	for _, x := range conns {
		found := false
		for _, e := range entries {
			if string(e["name"]) == guessJSON(x.name) {
				found = true
			}
		}
		if !found {
			b.r.Fail(hx.Failure{Kind: "oracle", Signature: "client-list-modes-disagree", What: "the JSON list has no entry with the name " + strconv.Quote(x.name) + " that CLIENT SETNAME accepted and CLIENT GETNAME answers",
				Case: map[string]interface{}{"name": x.name}, Impl: trunc(jv.Str, 600)})
		}
	}
	// correspondence: the JSON entries are the model's reading of the real RESP text (ages may tick between the two replies)
	want := b.drv.Ask("clientlist", model.H(rv.Str))
	b.r.Dist("model:clientlist")
	var got []string
	for _, e := range entries {
		var kvs []string
		for _, k := range []string{"id", "addr", "name"} {
			if raw, ok := e[k]; ok {
				kvs = append(kvs, k+"="+string(raw))
			}
		}
		got = append(got, strings.Join(kvs, ","))
	}
	var exp []string
	if want != "." {
		for _, ent := range strings.Split(want, ";") {
			var kvs []string
			for _, kv := range strings.Split(ent, ",") {
				p := strings.SplitN(kv, "=", 2)
				if k := model.U(p[0]); k == "id" || k == "addr" || k == "name" {
					kvs = append(kvs, k+"="+guessJSON(model.U(p[1])))
				}
			}
			exp = append(exp, strings.Join(kvs, ","))
		}
	}
	// the JSON reply was produced one command later: the connection list is the same (nothing opened or closed in between)
	if strings.Join(got, ";") != strings.Join(exp, ";") {
		b.r.Fail(hx.Failure{Kind: "correspondence", Signature: "client-list-model", What: "the entries of CLIENT LIST in JSON mode differ from Model.ClientList.json_entries cut_first of the RESP text",
			Case: map[string]interface{}{"resp": rv.Str}, Impl: trunc(strings.Join(got, ";"), 600), Model: trunc(strings.Join(exp, ";"), 600)})
	}
}
