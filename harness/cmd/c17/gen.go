package main

// States and the command matrix (every command of core/commands.json plus the undocumented
// ones dispatched by Server.command) x valid / invalid argument shapes.

import (
	"math/rand"
	"strings"
)

// strings that need JSON escaping / are not UTF-8 / carry CR LF
var nasty = []string{
	`q"uote`, `back\slash`, "ctl\x01\x1f", "nl\nx", "cr\r\nlf", "tab\there", "\xff\xfe", "hi\xc3", "<a>&b", "u  x",
	"é", "日本", "\x7f", "a b", "{x", "'s", "\u0000z"[1:], "\xed\xa0\x80", "bell\b\f",
}

var plainIDs = []string{"truck1", "truck2", "car", "bus9"}

type state struct {
	Name  string
	Setup [][]string
	Keys  []string // existing collection names
	IDs   map[string][]string
	Flds  []string
	Hooks []string
	Chans []string
	NonFinite bool
}

func buildStates() []*state {
	empty := &state{Name: "empty", IDs: map[string][]string{}}

	pop := &state{Name: "populated", IDs: map[string][]string{}}
	add := func(st *state, key, id string, rest ...string) {
		st.Setup = append(st.Setup, append([]string{"SET", key, id}, rest...))
		found := false
		for _, k := range st.Keys {
			if k == key {
				found = true
			}
		}
		if !found {
			st.Keys = append(st.Keys, key)
		}
		st.IDs[key] = append(st.IDs[key], id)
	}
	add(pop, "fleet", "truck1", "FIELD", "speed", "55.5", "FIELD", "name", `Bob "the" driver`, "POINT", "33.5", "-112.1")
	add(pop, "fleet", "truck2", "FIELD", "speed", "0", "FIELD", "props", `{"a":[1,2,{"b":"c\"d"}]}`, "POINT", "33.6", "-112.2", "12.5")
	add(pop, "fleet", "car", "FIELD", "speed", "nan", "FIELD", "load", "inf", "FIELD", "flag", "true", "FIELD", "nul", "null", "POINT", "33.52", "-112.12")
	add(pop, "fleet", "bus9", "FIELD", `sp"eed`, "7", "FIELD", "f\x02", "ctl\x01", "FIELD", "\xfff", "\xff\xfe", "FIELD", "<t>", "<&> ", "BOUNDS", "33.4", "-112.3", "33.45", "-112.25")
	add(pop, "fleet", "zone", "OBJECT", `{"type":"Polygon","coordinates":[[[-112.2,33.4],[-112.2,33.6],[-112.0,33.6],[-112.0,33.4],[-112.2,33.4]]]}`)
	add(pop, "fleet", "feat", "FIELD", "speed", "12", "OBJECT", `{"type":"Feature","geometry":{"type":"Point","coordinates":[-112.15,33.55]},"properties":{"name":"x\"y\\z","n":1.5,"nested":{"k":[true,null]}}}`)
	add(pop, "fleet", "line", "OBJECT", `{"type":"LineString","coordinates":[[-112.1,33.5],[-112.11,33.51],[-112.12,33.5]]}`)
	add(pop, "fleet", "hash1", "HASH", "9tbnthxzr")
	for _, n := range nasty {
		add(pop, "fleet", n, "FIELD", "speed", "3", "FIELD", n, n, "POINT", "33.51", "-112.11")
	}
	add(pop, "fleet", "exp1", "EX", "100000", "POINT", "33.5", "-112.3")
	add(pop, "strs", "s1", "STRING", `he said "hi"`)
	add(pop, "strs", "s2", "FIELD", "age", "41", "STRING", "line1\nline2\r\n\xff end")
	add(pop, "strs", "s3", "STRING", `{"json":"looking","n":[1,2]}`)
	add(pop, "strs", "s4", "STRING", "")
	add(pop, "strs", "s5", "STRING", "12.5")
	add(pop, "mixed", "p", "POINT", "1", "2")
	add(pop, "mixed", "s", "STRING", "txt")
	for _, n := range nasty[:9] {
		add(pop, n, "id1", "POINT", "10", "20")
		add(pop, n, n, "STRING", n)
	}
	add(pop, "users", "u1", "OBJECT", `{"type":"Point","coordinates":[1,2]}`)
	pop.Setup = append(pop.Setup,
		[]string{"JSET", "users", "u2", "name.first", "Tom"},
		[]string{"JSET", "users", "u2", "name.last", `O"Neil`},
		[]string{"JSET", "users", "u2", "age", "31"},
		[]string{"JSET", "users", "u2", "tags", `["a","b\\c"]`, "RAW"},
		[]string{"SETCHAN", "chan1", "NEARBY", "fleet", "FENCE", "POINT", "33.5", "-112.1", "5000"},
		[]string{"SETCHAN", `ch"an`, "META", `m"k`, "v\\\x01\xff", "META", "zz", "<>", "EX", "90000", "WITHIN", "fleet", "FENCE", "DETECT", "enter,exit", "COMMANDS", "set,del", "BOUNDS", "33", "-113", "34", "-112"},
		[]string{"SETCHAN", "chobj", "INTERSECTS", "fleet", "WHERE", "speed", "1", "100", "FENCE", "OBJECT", `{"type":"Polygon","coordinates":[[[-112.2,33.4],[-112.2,33.6],[-112.0,33.6],[-112.0,33.4],[-112.2,33.4]]]}`},
		[]string{"SETHOOK", "hook1", "http://127.0.0.1:9/a?b=\"c\"", "NEARBY", "nohits", "MATCH", "truck*", "FENCE", "POINT", "33.5", "-112.1", "100"},
		[]string{"SETHOOK", "hk\xff2", "http://127.0.0.1:9/x,http://127.0.0.1:9/y", "WITHIN", "nohits", "FENCE", "BOUNDS", "1", "1", "2", "2"},
		[]string{"SETHOOK", "roamer", "http://127.0.0.1:9/r", "NEARBY", "nohits", "FENCE", "ROAM", "nohits2", "*", "1000"},
	)
	pop.IDs["users"] = append(pop.IDs["users"], "u2")
	pop.Flds = []string{"speed", "name", "props", "load", "flag", "nul", `sp"eed`, "f\x02", "\xfff", "<t>", "age", "props.a", "z", "properties.name"}
	pop.Flds = append(pop.Flds, nasty[:6]...)
	pop.Hooks = []string{"hook1", "hk\xff2", "roamer"}
	pop.Chans = []string{"chan1", `ch"an`, "chobj"}

	// non-finite coordinates (F15); kept apart so that everything else is exercised without them
	nf := &state{Name: "nonfinite", IDs: map[string][]string{}, NonFinite: true}
	add(nf, "nf", "a", "FIELD", "speed", "1", "POINT", "nan", "nan")
	add(nf, "nf", "b", "POINT", "inf", "1")
	add(nf, "nf", "c", "POINT", "1", "2", "-inf")
	add(nf, "nf", "d", "BOUNDS", "1", "2", "nan", "4")
	add(nf, "nf", "ok", "POINT", "5", "6")
	add(nf, "nf2", "r", "BOUNDS", "-inf", "-inf", "inf", "inf")
	nf.Flds = []string{"speed"}
	return []*state{empty, pop, nf}
}

// ---------- command shapes ----------

type pick struct {
	rng *rand.Rand
	st  *state
}

func (p pick) of(l []string, fallback string) string {
	if len(l) == 0 {
		return fallback
	}
	return l[p.rng.Intn(len(l))]
}

func (p pick) key() string {
	switch p.rng.Intn(10) {
	case 0:
		return "missingkey"
	case 1:
		return p.of(nasty, "x")
	}
	return p.of(p.st.Keys, "fleet")
}

func (p pick) mainKey() string {
	if len(p.st.Keys) == 0 || p.rng.Intn(12) == 0 {
		return p.key()
	}
	return p.st.Keys[0]
}

func (p pick) id(key string) string {
	switch p.rng.Intn(10) {
	case 0:
		return "missingid"
	case 1:
		return p.of(nasty, "x")
	}
	return p.of(p.st.IDs[key], "truck1")
}

func (p pick) field() string {
	switch p.rng.Intn(8) {
	case 0:
		return "nofield"
	case 1:
		return p.of(nasty, "x")
	}
	return p.of(p.st.Flds, "speed")
}

func (p pick) bad() string {
	l := []string{"", "abc", "-1", "1e999", "nan", "inf", "99999999999999999999", "0x10", "1.5.2", "-", "+"}
	l = append(l, nasty...)
	return l[p.rng.Intn(len(l))]
}

func (p pick) glob() string {
	l := []string{"*", "truck*", "*1", "t?uck[12]", "[", "\\", "nomatch*", `q"*`, "\xff*", "c*", "s[1-3]", "*\n*"}
	return l[p.rng.Intn(len(l))]
}

func (p pick) area() []string {
	switch p.rng.Intn(9) {
	case 0:
		return []string{"POINT", "33.5", "-112.1", "50000"}
	case 1:
		return []string{"BOUNDS", "33", "-113", "34", "-112"}
	case 2:
		return []string{"OBJECT", `{"type":"Polygon","coordinates":[[[-113,33],[-113,34],[-112,34],[-112,33],[-113,33]]]}`}
	case 3:
		return []string{"CIRCLE", "33.5", "-112.1", "20000"}
	case 4:
		return []string{"GET", p.mainKey(), p.id(p.mainKey())}
	case 5:
		return []string{"TILE", "3", "6", "4"}
	case 6:
		return []string{"QUADKEY", "0231"}
	case 7:
		return []string{"HASH", "9tbn"}
	}
	return []string{"BOUNDS", "-90", "-180", "90", "180"}
}

func (p pick) output() []string {
	switch p.rng.Intn(9) {
	case 0:
		return []string{"IDS"}
	case 1:
		return []string{"COUNT"}
	case 2:
		return []string{"POINTS"}
	case 3:
		return []string{"BOUNDS"}
	case 4:
		return []string{"HASHES", "7"}
	case 5:
		return []string{"OBJECTS"}
	}
	return nil
}

func (p pick) scanOpts() []string {
	var o []string
	if p.rng.Intn(4) == 0 {
		o = append(o, "CURSOR", []string{"0", "1", "3", "1000"}[p.rng.Intn(4)])
	}
	if p.rng.Intn(3) == 0 {
		o = append(o, "LIMIT", []string{"1", "2", "5", "100"}[p.rng.Intn(4)])
	}
	if p.rng.Intn(4) == 0 {
		o = append(o, "MATCH", p.glob())
	}
	if p.rng.Intn(5) == 0 {
		o = append(o, []string{"ASC", "DESC"}[p.rng.Intn(2)])
	}
	if p.rng.Intn(4) == 0 {
		o = append(o, "WHERE", p.field(), []string{"-inf", "0", "1", "3"}[p.rng.Intn(4)], []string{"+inf", "100", "3", "55.5"}[p.rng.Intn(4)])
	}
	if p.rng.Intn(8) == 0 {
		o = append(o, "WHEREIN", p.field(), "2", "3", "55.5")
	}
	if p.rng.Intn(10) == 0 {
		o = append(o, "WHEREEVAL", "return FIELDS.speed ~= nil", "0")
	}
	if p.rng.Intn(8) == 0 {
		o = append(o, "NOFIELDS")
	}
	return o
}

// shape = one argument list; Kind = "valid" (well-formed for some state) or "invalid"
type shape struct {
	Args []string
	Kind string
}

func cat(parts ...interface{}) []string {
	var out []string
	for _, p := range parts {
		switch v := p.(type) {
		case string:
			out = append(out, v)
		case []string:
			out = append(out, v...)
		}
	}
	return out
}

// validShapes returns mostly-valid argument lists of cmd (the command word(s) first).
func validShapes(cmd string, p pick) [][]string {
	k := p.mainKey()
	id := p.id(k)
	f := p.field()
	switch cmd {
	case "GET":
		return [][]string{{"GET", k, id}, {"GET", k, id, "WITHFIELDS"}, {"GET", k, id, "POINT"}, {"GET", k, id, "WITHFIELDS", "BOUNDS"},
			{"GET", k, id, "HASH", "8"}, {"GET", k, id, "OBJECT"}, {"GET", p.key(), p.id(p.key()), "WITHFIELDS"}, {"GET", "strs", p.id("strs"), "WITHFIELDS"}}
	case "SET":
		return [][]string{{"SET", k, id, "POINT", "33.1", "-112.5"}, {"SET", k, p.of(nasty, "n"), "FIELD", p.of(nasty, "f"), p.of(nasty, "v"), "POINT", "1", "2", "3"},
			{"SET", k, id, "NX", "POINT", "1", "2"}, {"SET", k, "newid", "XX", "POINT", "1", "2"}, {"SET", p.key(), "i", "STRING", p.of(nasty, "v")},
			{"SET", k, id, "EX", "50", "BOUNDS", "1", "2", "3", "4"}, {"SET", k, id, "HASH", "9tbnthx"}, {"SET", k, "o", "OBJECT", `{"type":"Point","coordinates":[5,6,7]}`},
			{"SET", k, id, "FIELD", "a", "1", "FIELD", "b", `{"x":"y"}`, "RETURN", "WITHFIELDS", "POINT", "POINT", "4", "5"},
			{"SET", k, id, "RETURN", "OBJECT", "POINT", "4", "5"}, {"SET", k, id, "RETURN", "HASH", "5", "WITHFIELDS", "POINT", "4", "5"}, {"SET", k, id, "RETURN", "BOUNDS", "STRING", "zz"},
			{"SET", k, "big", "RETURN", "OBJECT", "OBJECT", `{"type":"Point","coordinates":[1e999,-1e999]}`}, {"SET", k, "big2", "RETURN", "POINT", "POINT", "1e308", "1e308", "1e308"}}
	case "FSET":
		return [][]string{{"FSET", k, id, f, "12"}, {"FSET", k, id, f, "1", "other", p.of(nasty, "v")}, {"FSET", k, id, "XX", f, "2"},
			{"FSET", k, "truck1", f, "5", "RETURN", "WITHFIELDS"}, {"FSET", k, id, p.of(nasty, "f"), `{"j":1}`}}
	case "FGET":
		return [][]string{{"FGET", k, id, f}, {"FGET", k, id, "speed"}, {"FGET", p.key(), p.id(k), f}}
	case "FEXISTS":
		return [][]string{{"FEXISTS", k, id, f}, {"FEXISTS", k, id, "speed"}, {"FEXISTS", p.key(), p.id(k), f}}
	case "DEL":
		return [][]string{{"DEL", k, id}, {"DEL", k, id, "ERRON404"}, {"DEL", p.key(), "x"}, {"DEL", p.key(), "x", "ERRON404"}}
	case "PDEL":
		return [][]string{{"PDEL", k, p.glob()}, {"PDEL", p.key(), "*"}}
	case "DROP":
		return [][]string{{"DROP", k}, {"DROP", p.key()}}
	case "RENAME", "RENAMENX":
		return [][]string{{cmd, k, "newname"}, {cmd, k, p.key()}, {cmd, p.key(), p.of(nasty, "n")}}
	case "EXPIRE":
		return [][]string{{"EXPIRE", k, id, "1000"}, {"EXPIRE", k, id, "0.5e3"}, {"EXPIRE", p.key(), p.id(k), "10"}}
	case "PERSIST":
		return [][]string{{"PERSIST", k, id}, {"PERSIST", k, "exp1"}, {"PERSIST", p.key(), "x"}}
	case "TTL":
		return [][]string{{"TTL", k, id}, {"TTL", k, "exp1"}, {"TTL", p.key(), "x"}}
	case "EXISTS":
		return [][]string{{"EXISTS", k, id}, {"EXISTS", p.key(), p.id(k)}}
	case "TYPE":
		return [][]string{{"TYPE", k}, {"TYPE", p.key()}}
	case "BOUNDS":
		return [][]string{{"BOUNDS", k}, {"BOUNDS", p.key()}, {"BOUNDS", "strs"}}
	case "KEYS":
		return [][]string{{"KEYS", "*"}, {"KEYS", p.glob()}, {"KEYS", p.of(nasty, "n") + "*"}}
	case "STATS":
		return [][]string{{"STATS", k}, {"STATS", k, p.key(), "strs", "nokey"}}
	case "SERVER":
		return [][]string{{"SERVER"}, {"SERVER", "EXT"}}
	case "INFO":
		return [][]string{{"INFO"}, {"INFO", "server"}, {"INFO", "all"}, {"INFO", "replication", "stats"}}
	case "ROLE", "HEALTHZ", "GC", "FLUSHDB", "CONFIG REWRITE", "SCRIPT FLUSH", "AOFSHRINK":
		return [][]string{strings.Split(cmd, " ")}
	case "SCAN":
		return [][]string{cat("SCAN", k, p.scanOpts(), p.output()), cat("SCAN", p.key(), p.scanOpts(), p.output()), cat("SCAN", k, "LIMIT", "3", p.output()), cat("SCAN", "strs", p.output())}
	case "SEARCH":
		return [][]string{cat("SEARCH", "strs", p.scanOpts(), p.output()), cat("SEARCH", p.key(), p.scanOpts(), p.output()), cat("SEARCH", "strs", "MATCH", "*i*", p.output()), {"SEARCH", "strs", "DESC", "IDS"}}
	case "NEARBY":
		return [][]string{cat("NEARBY", k, p.scanOpts(), p.output(), "POINT", "33.5", "-112.1", "90000"), cat("NEARBY", k, "DISTANCE", p.output(), "POINT", "33.5", "-112.1"),
			cat("NEARBY", k, "LIMIT", "3", "DISTANCE", "IDS", "POINT", "33.5", "-112.1", "1000000"), cat("NEARBY", p.key(), p.output(), "POINT", "10", "20", "500"),
			cat("NEARBY", k, "DISTANCE", p.output(), "POINT", "nan", "nan"), cat("NEARBY", k, "DISTANCE", p.output(), "POINT", "inf", "1", "inf"), cat("NEARBY", k, "DISTANCE", "LIMIT", "2", "POINT", "33", "-112", "nan")}
	case "WITHIN", "INTERSECTS":
		return [][]string{cat(cmd, k, p.scanOpts(), p.output(), p.area()), cat(cmd, k, p.output(), p.area()), cat(cmd, p.key(), p.output(), p.area()),
			cat(cmd, k, "CLIP", p.output(), "BOUNDS", "33.45", "-112.2", "33.58", "-112.05"), cat(cmd, k, "BUFFER", "100", p.output(), p.area()),
			cat(cmd, k, p.output(), "BOUNDS", "nan", "-inf", "inf", "nan"), cat(cmd, k, p.output(), "CIRCLE", "nan", "1", "inf")}
	case "TEST":
		return [][]string{cat("TEST", p.area(), cmdWord(p, "WITHIN", "INTERSECTS"), p.area()), {"TEST", "POINT", "33.5", "-112.1", "INTERSECTS", "CLIP", "BOUNDS", "33", "-113", "34", "-112"},
			{"TEST", "GET", k, id, "WITHIN", "BOUNDS", "-90", "-180", "90", "180"}}
	case "JGET":
		return [][]string{{"JGET", "users", "u2"}, {"JGET", "users", "u2", "name.last"}, {"JGET", "users", "u2", "tags", "RAW"}, {"JGET", "users", "u2", "nopath"}, {"JGET", k, id}, {"JGET", k, id, "type"}, {"JGET", "users", "u2", "name", "RAW"}}
	case "JSET":
		return [][]string{{"JSET", "users", "u3", "a.b", p.of(nasty, "v")}, {"JSET", "users", "u2", "age", "32", "RAW"}, {"JSET", k, id, "properties.x", "1"}, {"JSET", "users", "u2", "s", "str", "STR"}, {"JSET", "users", "u2", "a", `{"bad`, "RAW"}}
	case "JDEL":
		return [][]string{{"JDEL", "users", "u2", "age"}, {"JDEL", "users", "u2", "nopath"}, {"JDEL", k, id, "type"}, {"JDEL", p.key(), "x", "p"}}
	case "HOOKS", "CHANS":
		return [][]string{{cmd, "*"}, {cmd, p.glob()}, {cmd, "h*"}, {cmd, "c*"}}
	case "SETHOOK":
		return [][]string{{"SETHOOK", p.of(nasty, "h"), "http://127.0.0.1:9/" + "h", "NEARBY", "nohits", "FENCE", "POINT", "1", "2", "3"},
			{"SETHOOK", "h2", "http://127.0.0.1:9/h", "META", p.of(nasty, "m"), p.of(nasty, "v"), "WITHIN", "nohits", "FENCE", "DETECT", "inside", "BOUNDS", "1", "2", "3", "4"}}
	case "SETCHAN":
		return [][]string{{"SETCHAN", p.of(nasty, "c"), "NEARBY", k, "FENCE", "POINT", "1", "2", "3"}, {"SETCHAN", "c2", "INTERSECTS", k, "FENCE", "NODWELL", "OBJECT", `{"type":"Point","coordinates":[1,2]}`}}
	case "DELHOOK", "PDELHOOK":
		return [][]string{{cmd, p.of(p.st.Hooks, "hook1")}, {cmd, p.glob()}}
	case "DELCHAN", "PDELCHAN":
		return [][]string{{cmd, p.of(p.st.Chans, "chan1")}, {cmd, p.glob()}}
	case "CONFIG GET":
		return [][]string{{"CONFIG", "GET", "*"}, {"CONFIG", "GET", "maxmemory"}, {"CONFIG", "GET", "keepalive"}, {"CONFIG", "GET", "requirepass"}}
	case "CONFIG SET":
		return [][]string{{"CONFIG", "SET", "keepalive", "300"}, {"CONFIG", "SET", "maxmemory", "0"}, {"CONFIG", "SET", "keepalive", "abc"}}
	case "PING":
		return [][]string{{"PING"}, {"PING", p.of(nasty, "m")}}
	case "ECHO":
		return [][]string{{"ECHO", p.of(nasty, "m")}, {"ECHO", "hello"}}
	case "EVAL", "EVALRO", "EVALNA":
		return [][]string{{cmd, "return 1", "0"}, {cmd, "return {1,'two',{3,KEYS[1]},ARGV[1]}", "1", k, p.of(nasty, "a")}, {cmd, "return tile38.call('get', KEYS[1], ARGV[1])", "1", k, id},
			{cmd, "return tile38.call('scan', KEYS[1], 'limit', 2)", "1", k}, {cmd, "return nil", "0"}, {cmd, "return true", "0"}, {cmd, "return false", "0"}, {cmd, "return 1.75", "0"},
			{cmd, "return {ok='fine'}", "0"}, {cmd, "return {err='custom failure'}", "0"}, {cmd, "return tile38.error_reply('E \"q\"')", "0"}, {cmd, "error('boom \"x\"')", "0"}, {cmd, "return ARGV[1]", "0", p.of(nasty, "a")},
			{cmd, "return tile38.pcall('nosuch')", "0"}, {cmd, "return {a=1}", "0"}, {cmd, "return tile38.sha1hex('x')", "0"}, {cmd, "return {{1,{2,{3}}},'x'}", "0"},
			{cmd, "return 0/0", "0"}, {cmd, "return {1/0, -1/0}", "0"}, {cmd, "return {ok=ARGV[1]}", "0", p.of(nasty, "a")}, {cmd, "return {err=ARGV[1]}", "0", p.of(nasty, "a")},
			{cmd, "return tostring", "0"}, {cmd, "return {f=tostring}", "0"}, {cmd, "return {[true]=1}", "0"}, {cmd, "return {[2]='x'}", "0"}, {cmd, "return {[1.5]='x'}", "0"}, {cmd, "return {[ARGV[1]]=ARGV[1]}", "0", p.of(nasty, "a")},
			{cmd, "return tile38.call('nearby', KEYS[1], 'distance', 'point', 33.5, -112.1)", "1", k}, {cmd, "return tile38.error_reply(ARGV[1])", "0", p.of(nasty, "a")}, {cmd, "return tile38.status_reply(ARGV[1])", "0", p.of(nasty, "a")}}
	case "EVALSHA", "EVALROSHA", "EVALNASHA":
		return [][]string{{cmd, "0000000000000000000000000000000000000000", "0"}, {cmd, sha1hex("return {ARGV[1], 5}"), "0", p.of(nasty, "a")}}
	case "SCRIPT LOAD":
		return [][]string{{"SCRIPT", "LOAD", "return {ARGV[1], 5}"}, {"SCRIPT", "LOAD", "this is not lua"}}
	case "SCRIPT EXISTS":
		return [][]string{{"SCRIPT", "EXISTS", sha1hex("return {ARGV[1], 5}"), "00"}, {"SCRIPT", "EXISTS", p.of(nasty, "x")}}
	case "OUTPUT":
		return [][]string{{"OUTPUT"}}
	case "TIMEOUT":
		return [][]string{{"TIMEOUT", "5", "SCAN", k, "COUNT"}, {"TIMEOUT", "0.5", "GET", k, id}, {"TIMEOUT", "2", "SET", k, id, "POINT", "1", "2"}, {"TIMEOUT", "1", "PING"}}
	case "AOFMD5":
		return [][]string{{"AOFMD5", "0", "0"}, {"AOFMD5", "0", "10"}}
	case "AOF":
		return [][]string{{"AOF", "99999999999"}}
	case "READONLY":
		return [][]string{{"READONLY", "no"}}
	case "FOLLOW":
		return [][]string{{"FOLLOW", "no", "one"}}
	case "CLIENT":
		return [][]string{{"CLIENT", "SETNAME", "nan"}, {"CLIENT", "LIST"}, {"CLIENT", "SETNAME", "-inf"}, {"CLIENT", "LIST"}, {"CLIENT", "GETNAME"}, {"CLIENT", "SETNAME", "my-name"}, {"CLIENT", "SETNAME", p.of(nasty, "n")}, {"CLIENT", "KILL", "nosuch"}, {"CLIENT", "KILL", "ID", "99999"}}
	case "PUBLISH":
		return [][]string{{"PUBLISH", p.of(nasty, "c"), p.of(nasty, "m")}, {"PUBLISH", "chan1", "hello"}}
	case "AUTH":
		return [][]string{{"AUTH", "pw"}, {"AUTH", p.of(nasty, "p")}}
	case "REPLCONF":
		return [][]string{{"REPLCONF", "listening-port", "1234"}, {"REPLCONF", "x", "y"}}
	case "HELLO", "COMMAND", "NOSUCHCMD", "SLEEP", "MASSINSERT", "SHUTDOWN":
		return [][]string{{cmd}, {cmd, "3"}, {cmd, p.of(nasty, "a")}}
	}
	return [][]string{{cmd}}
}

func cmdWord(p pick, a, b string) string {
	if p.rng.Intn(2) == 0 {
		return a
	}
	return b
}

// commands whose valid form would disturb the run (connection-level effects); only their
// invalid forms and the harmless ones listed above are sent on the shared connections.
var noValidOnShared = map[string]bool{"QUIT": true, "SUBSCRIBE": true, "PSUBSCRIBE": true, "MONITOR": true}

// invalidShapes derives malformed argument lists from a valid one.
func invalidShapes(valid []string, cmdWords int, p pick) [][]string {
	var out [][]string
	head := valid[:cmdWords]
	// no arguments / one bad argument / a trailing extra argument / truncated / one argument replaced
	out = append(out, append([]string{}, head...))
	out = append(out, cat(head, p.bad()))
	out = append(out, cat(valid, p.bad()))
	if len(valid) > cmdWords+1 {
		out = append(out, append([]string{}, valid[:len(valid)-1]...))
		i := cmdWords + p.rng.Intn(len(valid)-cmdWords)
		m := append([]string{}, valid...)
		m[i] = p.bad()
		out = append(out, m)
		j := cmdWords + p.rng.Intn(len(valid)-cmdWords)
		m2 := append([]string{}, valid...)
		m2[j] = p.of(nasty, "x")
		out = append(out, m2)
	}
	return out
}

// dangerous: inputs that are known to terminate the server process (findings owned by other
// properties: F1 nil object in FSET .. XX RETURN on a missing id, F6b WHEREIN with a huge count);
// C17 is about the shape of replies, so these are not sent.
func dangerous(args []string) bool {
	if len(args) == 0 {
		return true
	}
	c := strings.ToLower(args[0])
	has := func(w string) bool {
		for _, a := range args[1:] {
			if strings.EqualFold(a, w) {
				return true
			}
		}
		return false
	}
	switch c {
	case "fset":
		return has("XX") && has("RETURN")
	case "quit", "subscribe", "psubscribe", "monitor", "shutdown":
		return true
	case "follow", "slaveof":
		return !(len(args) == 3 && strings.EqualFold(args[1], "no") && strings.EqualFold(args[2], "one")) && len(args) == 3
	case "aof":
		return len(args) == 2 && args[1] != "99999999999" && isDigits(args[1])
	case "readonly":
		return len(args) == 2 && strings.EqualFold(args[1], "yes")
	case "config":
		if len(args) >= 3 && strings.EqualFold(args[1], "set") {
			switch strings.ToLower(args[2]) {
			case "requirepass", "leaderauth", "protected-mode", "maxmemory":
				return !(len(args) == 4 && args[3] == "0")
			}
		}
	case "jset":
		// a long all-digit path component makes sjson build an array of that length: the server
		// stops answering (observed: JSET users u3 99999999999999999999 v -> no reply in 15 s); not a C17 matter
		if len(args) > 3 {
			for _, comp := range strings.Split(args[3], ".") {
				if isDigits(comp) && len(comp) > 3 {
					return true
				}
			}
		}
	case "timeout":
		if len(args) > 2 {
			return dangerous(args[2:])
		}
	}
	for i, a := range args {
		if strings.EqualFold(a, "wherein") && i+2 < len(args) {
			if !isDigits(args[i+2]) || len(args[i+2]) > 2 {
				return true
			}
		}
		if strings.EqualFold(a, "fence") && (c == "nearby" || c == "within" || c == "intersects") {
			return true
		}
	}
	return false
}

func isDigits(s string) bool {
	if s == "" {
		return false
	}
	for i := 0; i < len(s); i++ {
		if s[i] < '0' || s[i] > '9' {
			return false
		}
	}
	return true
}
