package main

import (
	"fmt"
	"os"
	"time"

	"verifharness/internal/srv"
)

func main() {
	s, err := srv.Start("/verif/.work/c17s/benchd", "--appendonly", os.Args[1])
	if err != nil {
		panic(err)
	}
	defer s.Kill()
	c := s.MustDial()
	t := time.Now()
	for i := 0; i < 1000; i++ {
		c.MustDo("PING")
	}
	fmt.Println("ping", time.Since(t))
	t = time.Now()
	for i := 0; i < 1000; i++ {
		c.MustDo("SET", "k", fmt.Sprint(i), "POINT", "1", "2")
	}
	fmt.Println("set", time.Since(t))
	c.MustDo("SETCHAN", "c", "NEARBY", "k", "FENCE", "POINT", "1", "2", "1000")
	c.MustDo("SETHOOK", "h", "http://127.0.0.1:9/x", "NEARBY", "k", "FENCE", "POINT", "1", "2", "1000")
	t = time.Now()
	for i := 0; i < 1000; i++ {
		c.MustDo("SET", "k", fmt.Sprint(i), "POINT", "1", "2")
	}
	fmt.Println("set+hook", time.Since(t))
	fmt.Println(c.MustDo("AOFMD5", "0", "0"))
}
