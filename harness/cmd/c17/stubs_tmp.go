package main

import (
	"math/rand"

	"verifharness/internal/hx"
	"verifharness/internal/srv"
)

func agree(cmd string, args []string, j jdoc, rv srv.Value, st *state) string { return "" }
func special(b *bb)                                                          {}
func runModel(r *hx.Result, cfg hx.Config, rng *rand.Rand)                   {}
func runTemplates(r *hx.Result, cfg hx.Config)                               {}
