package main

import (
	"math/rand"

	"verifharness/internal/hx"
)

func runModel(r *hx.Result, cfg hx.Config, rng *rand.Rand) {}
func runTemplates(r *hx.Result, cfg hx.Config)             {}
