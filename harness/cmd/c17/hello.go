package main

// HELLO and the -o default (c17_mode_follows_output over PHello, c17_hello_leaves_mode,
// c17_hello_no_restore_refuted; Model/JsonMode.v).
//
// Three servers: started without -o (the JSON-side server of the black box), with `-o json` and
// with `-o resp`.  On fresh RESP-framed and telnet connections, command sequences made of HELLO
// <digits> (3, 2, 10, 0: what redis clients send first), HELLO <other> (abc, 9x, no argument),
// OUTPUT json, OUTPUT resp and ordinary commands are written packet by packet (`|` = packet boundary).
// Direct oracle (no model) hello-mode-sticks / hello-reply-mode: the connection's mode is the -o
// default, else RESP, changed only by an acknowledged OUTPUT; a HELLO never changes it — every reply
// to an ordinary command must be in that mode; the reply to HELLO <digits> is a RESP error exactly
// when the server was started with -o json, the connection is in JSON mode and RESP-framed, else an
// error in the connection's mode.  Correspondence output-mode-model: the observed modes equal the
// extracted Model.JsonMode.serve (whose HELLO branch restores or not as tmplx read it from the source).

import (
	"fmt"
	"path/filepath"
	"strings"

	"verifharness/internal/hx"
	"verifharness/internal/srv"
)

func (b *bb) helloModes() {
	type target struct {
		s    *srv.Server
		dflt byte // 'n' no -o, 'j', 'r'
	}
	targets := []target{{b.sa, 'n'}}
	for _, d := range []string{"json", "resp"} {
		s, err := srv.StartOutput(filepath.Join(b.cfg.Work, "c17-o-"+d), d, "--appendonly", "no")
		if err != nil {
			b.r.Fail(hx.Failure{Kind: "oracle", Signature: "server-start", What: "tile38-server -o " + d + " did not start: " + err.Error()})
			continue
		}
		defer s.Kill()
		targets = append(targets, target{s, d[0]})
	}
	digits := []string{"3", "2", "10", "0"}
	others := [][]string{{"HELLO", "abc"}, {"HELLO", "9x"}, {"HELLO"}, {"HELLO", "AUTH"}}
	pool := [][]string{{"GET", "hk", "a"}, {"TTL", "hk", "a"}, {"PING"}, {"TYPE", "hk"}, {"KEYS", "*"}}
	seqs := []string{"Hx", "H|x", "H|x|x", "hx", "xHx", "JHx", "RHx", "HJx", "HRx|x", "xH|xx", "HHx", "Hx|Rx|Hx|Jx|Hx", "hH|x", "JH|hx|RHx", "H"}
	for i := 0; i < 8; i++ {
		n := 2 + b.rng.Intn(7)
		var sb strings.Builder
		for k := 0; k < n; k++ {
			sb.WriteByte("HHhJRxxx"[b.rng.Intn(8)])
			if k < n-1 && b.rng.Intn(3) == 0 {
				sb.WriteByte('|')
			}
		}
		seqs = append(seqs, sb.String())
	}
	name := map[byte]string{'j': "JSON", 'r': "RESP"}
	for _, tg := range targets {
		for si, seq := range seqs {
			for _, framing := range []string{"resp", "telnet"} {
				c, err := dialRaw(tg.s.Port)
				if err != nil {
					return
				}
				mode := byte('r')
				if tg.dflt != 'n' {
					mode = tg.dflt
				}
				var obs strings.Builder
				bad := false
				n := 0
				for _, packet := range strings.Split(seq, "|") {
					var wire []byte
					var these [][]string
					for k := 0; k < len(packet); k++ {
						var args []string
						switch packet[k] {
						case 'J':
							args = []string{"OUTPUT", "json"}
						case 'R':
							args = []string{"OUTPUT", "resp"}
						case 'H':
							args = []string{"HELLO", digits[(si+n)%len(digits)]}
						case 'h':
							args = others[(si+n)%len(others)]
						default:
							args = pool[(si+n)%len(pool)]
						}
						n++
						these = append(these, args)
						if framing == "resp" {
							wire = append(wire, srv.Encode(args...)...)
						} else {
							wire = append(wire, []byte(strings.Join(args, " ")+"\r\n")...)
						}
					}
					if len(these) == 0 {
						continue
					}
					if err := c.write(wire); err != nil {
						bad = true
						break
					}
					for k, args := range these {
						v, err := c.readValue()
						cs := map[string]interface{}{"server": "-o " + string(tg.dflt), "framing": framing, "packets": seq, "command": q(args)}
						if err != nil {
							b.r.Fail(hx.Failure{Kind: "oracle", Signature: "pipeline-reply-invalid", What: "reply missing or not valid RESP framing: " + err.Error(), Case: cs})
							bad = true
							break
						}
						got := byte('r')
						if v.Kind == '$' {
							if _, sig, _ := checkJSONDoc(v.Str); sig == "" {
								got = 'j'
							}
						}
						obs.WriteByte(got)
						sym := packet[k]
						b.r.Count("hello|"+string(tg.dflt)+"|"+framing+"|"+seq+"|"+q(args), sym == 'H')
						b.r.Dist("hello:" + string(tg.dflt) + ":" + framing)
						switch sym {
						case 'J':
							mode = 'j'
						case 'R':
							mode = 'r'
						}
						want := mode
						if sym == 'H' && tg.dflt == 'j' && mode == 'j' {
							want = 'r' // the one RESP error redis clients need
						}
						if got != want {
							sig, what := "hello-mode-sticks", fmt.Sprintf("the connection is in %s mode (server started with -o %c; only OUTPUT changes it), but the reply to %s is in %s mode: %s", name[mode], tg.dflt, q(args), name[got], trunc(v.String(), 160))
							if sym == 'H' || sym == 'h' {
								sig, what = "hello-reply-mode", fmt.Sprintf("the reply to %s should be in %s mode (server -o %c, connection in %s mode, %s framing) but is in %s mode: %s", q(args), name[want], tg.dflt, name[mode], framing, name[got], trunc(v.String(), 160))
							}
							b.r.Fail(hx.Failure{Kind: "oracle", Signature: sig, What: what + fmt.Sprintf(" (packets %q)", seq), Case: cs, Impl: trunc(v.String(), 300)})
						}
					}
					if bad {
						break
					}
				}
				c.close()
				if bad {
					continue
				}
				clean := strings.Trim(strings.ReplaceAll(seq, "||", "|"), "|")
				if want := b.drv.Ask("modes", string(tg.dflt), "r", clean); want != obs.String() {
					b.r.Fail(hx.Failure{Kind: "correspondence", Signature: "output-mode-model", What: fmt.Sprintf("reply modes %s over %s framing on a server started with -o %c differ from Model.JsonMode.serve %s for the packets %q", obs.String(), framing, tg.dflt, want, seq),
						Case: map[string]interface{}{"server": "-o " + string(tg.dflt), "framing": framing, "packets": seq}, Impl: obs.String(), Model: want})
				}
				b.r.Dist("model:modes")
			}
		}
	}
}
