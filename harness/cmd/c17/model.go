package main

// Correspondence: the Coq models (extracted to OCaml, driver "json") against the Go code, and
// the regenerated template table against the committed coq/Gen/Templates.v.

import (
	"encoding/json"
	"fmt"
	"math"
	"math/rand"
	"os"
	"path/filepath"
	"strings"
	"unicode/utf8"

	"github.com/tidwall/tile38/verifapi"
	"verifharness/internal/hx"
	"verifharness/internal/model"
	"verifharness/internal/tmplx"
)

var strAlphabet = []string{"a", "b", " ", "z", `"`, `\`, "/", "\x00", "\x01", "\x08", "\x09", "\x0a", "\x0c", "\x0d", "\x1f", "\x7f", "<", ">", "&",
	"é", "\u2028", "\u2029", "\u2027", "\u202a", "日", "😀", "\xff", "\xfe", "\xc3", "\xe2\x80", "\xed\xa0\x80", "\xf4\x90\x80\x80", "\xc0\x80", "\x80", "\xbf", "~", "\u00a0", "\ufffd"}

func randStr(rng *rand.Rand, max int) string {
	n := rng.Intn(max + 1)
	var sb strings.Builder
	for i := 0; i < n; i++ {
		if rng.Intn(3) == 0 {
			sb.WriteByte(byte('a' + rng.Intn(26)))
		} else {
			sb.WriteString(strAlphabet[rng.Intn(len(strAlphabet))])
		}
	}
	return sb.String()
}

var replyCorpus []string // JSON replies seen by the black box (bounded), reused for valid_json

func keepReply(s string) {
	if len(replyCorpus) < 400 && len(s) < 1500 {
		replyCorpus = append(replyCorpus, s)
	}
}

func mutate(rng *rand.Rand, s string) string {
	if s == "" {
		return `"`
	}
	b := []byte(s)
	i := rng.Intn(len(b))
	switch rng.Intn(6) {
	case 0:
		return string(append(b[:i:i], b[i+1:]...))
	case 1:
		return string(b[:i]) + `"` + string(b[i:])
	case 2:
		alphabet := []byte(`{}[],:"\0-.eE+tfn 1`)
		b[i] = alphabet[rng.Intn(len(alphabet))]
		return string(b)
	case 3:
		return string(b[:i]) + string(b[i:]) + string(b[i:])
	case 4:
		return string(b[:i])
	}
	return string(b[:i]) + "\\" + string(b[i:])
}

func runModel(r *hx.Result, cfg hx.Config, rng *rand.Rand, drv *model.Driver) {
	n := 3000
	if cfg.Tier == "thorough" {
		n = 150000
	}
	if cfg.Search {
		n = 50000
	}
	corpus := []string{"", "plain", `q"`, `\`, "\x00", "\x1f", "\x7f", "<>&", "\u2028\u2029", "\xff", "é", "\xe2\x80", "\xe2\x80\xa8x", "a\xed\xa0\x80b", "😀", "\xf0\x9f\x98", "~\x7f\x80"}
	for i := 0; i < n+len(corpus); i++ {
		var s string
		if i < len(corpus) {
			s = corpus[i]
		} else {
			s = randStr(rng, 12)
		}
		impl := verifapi.JSONString(s)
		impl2 := string(verifapi.AppendJSONString([]byte("pre"), s))
		mod := model.U(drv.Ask("json_string", model.H(s)))
		special := strings.ContainsAny(s, "\"\\<>&\x00\x01\x08\x09\x0a\x0c\x0d\x1f") || !utf8.ValidString(s) || strings.Contains(s, "\u2028") || strings.Contains(s, "\u2029")
		r.Count("jsonString|"+s, special)
		r.Dist("model:json_string")
		if impl != mod || impl2 != "pre"+impl {
			r.Fail(hx.Failure{Kind: "correspondence", Signature: "json-string-model", What: "jsonString / appendJSONString differ from Model.Json.json_string",
				Case: fmt.Sprintf("%q", s), Impl: fmt.Sprintf("%q | %q", impl, impl2), Model: fmt.Sprintf("%q", mod)})
		}
		// direct oracle: a valid JSON string that decodes to s (invalid bytes replaced by U+FFFD)
		var back string
		if err := json.Unmarshal([]byte(impl), &back); err != nil || back != fixUTF8(s) || !utf8.ValidString(impl) {
			r.Fail(hx.Failure{Kind: "oracle", Signature: "json-string-roundtrip", What: fmt.Sprintf("jsonString(%q) = %q does not decode back to the string (err %v, got %q)", s, impl, err, back),
				Case: fmt.Sprintf("%q", s), Impl: impl})
		}
		if drv.Ask("valid_json", model.H(impl)) != "1" {
			r.Fail(hx.Failure{Kind: "correspondence", Signature: "valid-json-model", What: "Model.Json.valid_json rejects an output of jsonString",
				Case: fmt.Sprintf("%q", s), Impl: impl, Model: "0"})
		}
	}
	// appendJSONFloat: a JSON number or null
	for _, f := range []float64{0, -0.0, 1, -1.5, 1e21, 1e-9, 123456789.125, math.MaxFloat64, math.SmallestNonzeroFloat64, math.NaN(), math.Inf(1), math.Inf(-1)} {
		out := string(verifapi.AppendJSONFloat(nil, f))
		r.Count("appendJSONFloat|"+out, true)
		if !json.Valid([]byte(out)) || drv.Ask("valid_json", model.H(out)) != "1" {
			r.Fail(hx.Failure{Kind: "oracle", Signature: "json-float", What: "appendJSONFloat printed something that is not a JSON value: " + out, Case: fmt.Sprint(f), Impl: out})
		}
	}
	// the recogniser against encoding/json on real replies and on damaged replies
	fixed := []string{`{}`, `[]`, `0`, `-0`, `01`, `1.`, `1.0e+5`, `1e`, `-`, `"a`, `"\u12g4"`, `"\x"`, ` {"a" : [1 , 2 ] } `, `{"a":1,}`, `[1,]`, `{"a"}`, `{1:2}`, `tru`, `true `, `nulll`,
		`{"ok":true,"output":"json","elapsed":40ns}`, `{"ok":true,"point":{"lat":NaN,"lon":1}}`, "\"tab\there\"", "\"\x7f\xff\"", `[[[[[[]]]]]]`, `{"a":{"b":{"c":[{"d":null}]}}}`, `1 2`, ``, ` `, `"\ud800"`, `-1.5E-3`, `.5`, `+1`}
	docs := append(append([]string{}, fixed...), replyCorpus...)
	m := 2
	if cfg.Tier == "thorough" || cfg.Search {
		m = 20
	}
	for _, d := range docs {
		cands := []string{d}
		for k := 0; k < m; k++ {
			cands = append(cands, mutate(rng, d))
		}
		for _, c := range cands {
			want := json.Valid([]byte(c))
			got := drv.Ask("valid_json", model.H(c)) == "1"
			r.Count("valid_json|"+c, want && len(c) > 2)
			r.Dist(fmt.Sprintf("model:valid_json:%v", want))
			if want != got {
				r.Fail(hx.Failure{Kind: "correspondence", Signature: "valid-json-model", What: fmt.Sprintf("Model.Json.valid_json = %v but encoding/json.Valid = %v", got, want),
					Case: fmt.Sprintf("%q", c), Impl: want, Model: got})
			}
		}
	}
}

func verifRoot() string {
	if p := os.Getenv("VERIF_OCAML"); p != "" {
		return filepath.Dir(p)
	}
	return "/verif"
}

// runTemplates re-extracts the reply templates from the working tree and compares them with the
// coq/Gen/Templates.v the theorems were compiled against.
func runTemplates(r *hx.Result, cfg hx.Config) {
	o, err := tmplx.Extract(repoDir())
	if err != nil {
		r.Fail(hx.Failure{Kind: "correspondence", Signature: "tmplx-failed", What: "the template translator could not read internal/server: " + err.Error(), Case: repoDir()})
		return
	}
	holes := map[string]int{}
	for _, s := range append(append(append([]tmplx.Site{}, o.Docs...), o.Values...), o.Frags...) {
		for _, k := range []string{"HStr", "HInt", "HFloat", "HBool", "HDur", "HJson", "HRaw", "Alt", "Star"} {
			holes[k] += s.T.CountKind(k)
		}
	}
	r.Extra["templates"] = map[string]interface{}{"documents": len(o.Docs), "value_helpers": len(o.Values), "fragments": len(o.Frags),
		"unknown": len(o.Unknown), "unknown_sites": o.Unknown, "raw_holes": o.RawHoles, "constructors": holes}
	for range o.Docs {
		r.Dist("template:doc")
	}
	for range o.Frags {
		r.Dist("template:frag")
	}
	for range o.Unknown {
		r.Dist("template:unknown")
	}
	path := filepath.Join(verifRoot(), "coq", "Gen", "Templates.v")
	have, err := os.ReadFile(path)
	want := o.Coq()
	// positions (comments) move with unrelated edits; the definitions are what the theorems are about
	if err != nil || stripComments(string(have)) != stripComments(want) {
		what := "coq/Gen/Templates.v is not what harness/cmd/tmplx extracts from the working tree: c17_all_templates was not checked against the current reply expressions (run .work/bin/tmplx or `go run ./cmd/tmplx` in harness/, then ./check C17)"
		diff := firstDiff(stripComments(string(have)), stripComments(want))
		r.Fail(hx.Failure{Kind: "correspondence", Signature: "gen-templates-stale", What: what, Case: path, Impl: diff[1], Model: diff[0]})
	}
	if holes["HFloat"] > 0 {
		r.Fail(hx.Failure{Kind: "correspondence", Signature: "template-unguarded-float", What: "a JSON reply expression prints a float with strconv.FormatFloat/AppendFloat (NaN/Inf are not JSON)", Case: "see coq/Gen/Templates.v"})
	}
}

func firstDiff(a, b string) [2]string {
	la, lb := strings.Split(a, "\n"), strings.Split(b, "\n")
	for i := 0; i < len(la) || i < len(lb); i++ {
		var x, y string
		if i < len(la) {
			x = la[i]
		}
		if i < len(lb) {
			y = lb[i]
		}
		if x != y {
			return [2]string{trunc(x, 200), trunc(y, 200)}
		}
	}
	return [2]string{"", ""}
}

func stripComments(s string) string {
	var out []string
	for _, l := range strings.Split(s, "\n") {
		if strings.HasPrefix(strings.TrimSpace(l), "(*") && strings.HasSuffix(strings.TrimSpace(l), "*)") {
			continue
		}
		out = append(out, l)
	}
	return strings.Join(out, "\n")
}
