package main

// (A) Output mode under pipelining: several commands, OUTPUT switches among them, written to the
// socket in ONE packet (and split over packets in every other way): every reply after an
// acknowledged switch must be in the new mode and equal to what the same command answers alone.
// (B) Pub/sub payload classes: what JSON-mode subscribers (SUBSCRIBE and PSUBSCRIBE) and a
// RESP-mode subscriber receive for payloads that are valid JSON, look like JSON, or are plain text.

import (
	"encoding/json"
	"fmt"
	"strings"
	"unicode/utf8"

	"verifharness/internal/hx"
	"verifharness/internal/model"
	"verifharness/internal/srv"
)

type pipeCmd struct {
	sym  byte // 'J' OUTPUT json, 'R' OUTPUT resp, 'x' other
	args []string
}

func (b *bb) pipelines() {
	b.pair([]string{"SET", "pk", "a", "FIELD", "f", "2", "POINT", "1", "2"}, false, true)
	b.pair([]string{"SET", "pk", "q\"b", "STRING", "s\"t"}, false, true)
	pool := [][]string{{"GET", "pk", "a"}, {"GET", "pk", "nope"}, {"TTL", "pk", "a"}, {"EXISTS", "pk", "a"}, {"KEYS", "*"},
		{"SCAN", "pk", "IDS"}, {"PING"}, {"GET"}, {"TYPE", "pk"}, {"FGET", "pk", "a", "f"}, {"SEARCH", "pk"}, {"BOUNDS", "pk"}, {"NOSUCH"}}
	// reference replies of each command alone, per mode, on the same server
	refConn, err := dialRaw(b.sa.Port)
	if err != nil {
		return
	}
	defer refConn.close()
	refJ, refR := map[string]string{}, map[string]string{}
	for _, c := range pool {
		if v, err := b.ja.do(c...); err == nil && v.Kind == '$' {
			if d, sig, _ := checkJSONDoc(v.Str); sig == "" {
				refJ[q(c)] = stripElapsed(d)
			}
		}
		if v, err := refConn.do(c...); err == nil {
			refR[q(c)] = canonRESP(v)
		}
	}
	var seqs []string
	seqs = append(seqs, "Jxxx", "Jxx|x", "J|xx", "Rxx", "JxRxJx", "xJ|xx|Rx", "xJx|x|x", "JR|x", "JxxRxx|xx|J|x", "x|J", "JJx", "RJRx")
	for i := 0; i < 14; i++ {
		n := 2 + b.rng.Intn(8)
		var sb strings.Builder
		for k := 0; k < n; k++ {
			switch b.rng.Intn(5) {
			case 0:
				sb.WriteByte('J')
			case 1:
				sb.WriteByte('R')
			default:
				sb.WriteByte('x')
			}
			if k < n-1 && b.rng.Intn(4) == 0 {
				sb.WriteByte('|')
			}
		}
		seqs = append(seqs, sb.String())
	}
	for si, seq := range seqs {
		for _, framing := range []string{"resp", "telnet"} {
			c, err := dialRaw(b.sa.Port)
			if err != nil {
				return
			}
			var cmds []pipeCmd
			var obs strings.Builder
			mode := byte('r') // a fresh RESP / telnet connection without -o
			bad := false
			for _, packet := range strings.Split(seq, "|") {
				var wire []byte
				var these []pipeCmd
				for k := 0; k < len(packet); k++ {
					pc := pipeCmd{sym: packet[k]}
					switch packet[k] {
					case 'J':
						pc.args = []string{"OUTPUT", "json"}
					case 'R':
						pc.args = []string{"OUTPUT", "resp"}
					default:
						pc.args = pool[(si+len(cmds)+len(these))%len(pool)]
						if framing == "telnet" && !plainSafe(pc.args, false) {
							pc.args = []string{"GET", "pk", "a"}
						}
					}
					these = append(these, pc)
					if framing == "resp" {
						wire = append(wire, srv.Encode(pc.args...)...)
					} else {
						wire = append(wire, []byte(strings.Join(pc.args, " ")+"\r\n")...)
					}
				}
				if len(these) == 0 {
					continue
				}
				if err := c.write(wire); err != nil { // ONE write: the server sees the commands in one read
					bad = true
					break
				}
				for _, pc := range these {
					v, err := c.readValue()
					caseInfo := map[string]interface{}{"framing": framing, "packets": seq, "command": q(pc.args)}
					if err != nil {
						b.r.Fail(hx.Failure{Kind: "oracle", Signature: "pipeline-reply-invalid", What: "reply to a pipelined command is missing or not valid RESP framing: " + err.Error(), Case: caseInfo})
						bad = true
						break
					}
					switch pc.sym {
					case 'J':
						mode = 'j'
					case 'R':
						mode = 'r'
					}
					// observed mode: a JSON-mode reply is a bulk string holding one reply document
					got := byte('r')
					var d jdoc
					if v.Kind == '$' {
						var sig string
						if d, sig, _ = checkJSONDoc(v.Str); sig == "" {
							got = 'j'
						}
					}
					obs.WriteByte(got)
					b.r.Count("pipeline|"+framing+"|"+seq+"|"+q(pc.args), pc.sym != 'x')
					b.r.Dist("pipeline:" + framing)
					if got != mode {
						want := map[byte]string{'j': "JSON", 'r': "RESP"}
						b.r.Fail(hx.Failure{Kind: "oracle", Signature: "pipeline-output-mode",
							What: fmt.Sprintf("after the acknowledged OUTPUT switch the connection is in %s mode, but the reply to %s (packets %q, %s framing) is in %s mode: %s", want[mode], q(pc.args), seq, framing, want[got], trunc(v.String(), 160)),
							Case: caseInfo, Impl: trunc(v.String(), 300)})
						continue
					}
					if pc.sym == 'x' {
						if mode == 'j' {
							if ref, ok := refJ[q(pc.args)]; ok && stripElapsed(d) != ref {
								b.r.Fail(hx.Failure{Kind: "oracle", Signature: "pipeline-reply-differs", What: "pipelined JSON reply differs from the reply to the same command alone", Case: caseInfo, Impl: trunc(stripElapsed(d), 300), Model: trunc(ref, 300)})
							}
						} else if ref, ok := refR[q(pc.args)]; ok && canonRESP(v) != ref {
							b.r.Fail(hx.Failure{Kind: "oracle", Signature: "pipeline-reply-differs", What: "pipelined RESP reply differs from the reply to the same command alone", Case: caseInfo, Impl: trunc(canonRESP(v), 300), Model: trunc(ref, 300)})
						}
					}
				}
				cmds = append(cmds, these...)
				if bad {
					break
				}
			}
			c.close()
			if bad {
				continue
			}
			// correspondence with Model.JsonMode.serve on the same packetisation
			clean := strings.Trim(strings.ReplaceAll(seq, "||", "|"), "|")
			if want := b.drv.Ask("modes", "n", "r", clean); want != obs.String() {
				b.r.Fail(hx.Failure{Kind: "correspondence", Signature: "output-mode-model", What: fmt.Sprintf("reply modes %s over %s framing differ from Model.JsonMode.serve %s for the packets %q", obs.String(), framing, want, seq),
					Case: map[string]interface{}{"framing": framing, "packets": seq}, Impl: obs.String(), Model: want})
			}
			b.r.Dist("model:modes")
		}
	}
	b.pair([]string{"DROP", "pk"}, false, true)
}

// pubsubPayloads: JSON-mode SUBSCRIBE, JSON-mode PSUBSCRIBE and RESP-mode SUBSCRIBE connections,
// one payload class after the other.
func (b *bb) pubsubPayloads() {
	payloads := []string{
		`{"a":1}`, `[1,2,{"b":null}]`, `{"ok":true,"nested":{"x":[1.5e3,"s\"q"]}}`, ` {"ws": "around"} `, `"just a string"`, `12.5`, `true`, `null`,
		`{sensor 7 offline}`, `[warning] disk almost full [/var]`, `{"a":1}{"b":2}`, `{'single':'quotes'}`, `{"a":1,}`, `[1,2`, `{"a":`, `{"unterminated":"x}`, `[]]`, `{}}`, `{"a":01}`, `[nul]`,
		`plain text`, `q"uote and \ backslash`, "ctl\x01\n\r\nend", "\xff\xfe bytes", "{\xff}", `<tag attr="v">&amp;</tag>`, "{\"u\":\" \"}", `-`, `{`, `]`, `[}`, `{]`,
	}
	type sub struct {
		name string
		c    *rconn
		json bool
	}
	var subs []sub
	open := func(name string, jsonMode bool, args ...string) {
		c, err := dialRaw(b.sa.Port)
		if err != nil {
			return
		}
		if jsonMode {
			c.do("OUTPUT", "json")
		}
		if _, err := c.do(args...); err != nil {
			c.close()
			return
		}
		subs = append(subs, sub{name, c, jsonMode})
	}
	open("json-subscribe", true, "SUBSCRIBE", "pch")
	open("json-psubscribe", true, "PSUBSCRIBE", "pc*")
	open("resp-subscribe", false, "SUBSCRIBE", "pch")
	defer func() {
		for _, s := range subs {
			s.c.close()
		}
	}()
	if len(subs) != 3 {
		b.fail("reply-missing", "could not open the pub/sub connections", []string{"SUBSCRIBE", "pch"}, nil, nil)
		return
	}
	for _, p := range payloads {
		args := []string{"PUBLISH", "pch", p}
		if v, err := b.ja.do(args...); err != nil || !strings.Contains(v.Str, `"published":3`) {
			b.fail("reply-missing", fmt.Sprintf("PUBLISH: %v %s", err, trunc(v.String(), 100)), args, nil, nil)
			return
		}
		isJSON := json.Valid([]byte(p))
		for _, s := range subs {
			s.c.c.SetReadDeadline(deadline(3))
			v, err := readRESP(s.c.r, 0)
			b.r.Count("pubsub-payload|"+s.name+"|"+p, true)
			b.r.Dist("pubsub:" + s.name)
			if err != nil {
				b.fail("reply-missing", s.name+": published message not delivered: "+err.Error(), args, nil, nil)
				return
			}
			if !s.json {
				if v.Kind != '*' || len(v.Array) != 3 || v.Array[0].Str != "message" || v.Array[2].Str != p {
					b.fail("pubsub-message-wrong", s.name+": RESP subscriber did not receive [message, channel, payload]: "+trunc(v.String(), 200), args, v.String(), nil)
				}
				continue
			}
			if v.Kind != '$' {
				b.fail("json-framing", s.name+": pushed message is not a bulk string: "+trunc(v.String(), 200), args, v.String(), nil)
				continue
			}
			m := v.Str
			if !json.Valid([]byte(m)) || !utf8.ValidString(m) && isJSON == false {
				b.fail("pubsub-json-invalid", fmt.Sprintf("%s: the message a JSON-mode subscriber received for the payload %q is not a JSON document: %s", s.name, p, trunc(m, 200)), args, m, nil)
				continue
			}
			var asStr string
			carried := false
			if json.Unmarshal([]byte(m), &asStr) == nil && asStr == fixUTF8(p) {
				carried = true // the payload as a JSON string
			}
			if isJSON && jsonEqual(m, p) {
				carried = true // the payload embedded as JSON
			}
			if !carried {
				b.fail("pubsub-message-wrong", fmt.Sprintf("%s: the message %s does not carry the payload %q", s.name, trunc(m, 200), p), args, m, nil)
			}
			if want := model.U(b.drv.Ask("sub_msg", model.H(p))); want != m {
				b.r.Fail(hx.Failure{Kind: "correspondence", Signature: "sub-msg-model", What: fmt.Sprintf("%s: message for the payload %q differs from Model.JsonMode.sub_msg", s.name, p),
					Case: map[string]interface{}{"payload": fmt.Sprintf("%q", p)}, Impl: trunc(m, 200), Model: trunc(want, 200)})
			}
		}
	}
}
