package main

// Keyspace commands in both output modes against Model/KsReply.v (c17_ks_* theorems).
//
// Random and directed keyspace programs (SET with every option combination incl. NX / XX failures
// and RETURN variants, FSET incl. XX, DEL, PDEL, DROP, RENAME, RENAMENX, FLUSHDB, EXPIRE, PERSIST,
// TTL, GET OBJECT / POINT / BOUNDS / HASH / WITHFIELDS, FGET, EXISTS, FEXISTS, TYPE, KEYS, JGET,
// JSET, JDEL, plus a malformed-argument stream) are sent, command by command, to the two servers
// of the black box: one connection in OUTPUT json, one in OUTPUT resp (b.pair: every direct
// oracle of the black box applies — one valid UTF-8 JSON document with boolean ok / err, strict
// RESP in step, the reply is an instance of a regenerated template, the RESP bytes are in the
// image of the modelled printer, and agree(): both real replies convey the same result, judged
// without the model).  The extracted model (ocaml/ksreply: exec_k on ONE model state, oracle
// tables filled by direct library calls) then has to give
//   - resp_reply k  = the real RESP reply                       (correspondence ks-resp-model)
//   - json_doc h k d = the real JSON reply, byte for byte, d = the elapsed text of the real
//     reply                                                       (correspondence ks-json-model)
// and, inside the model, exec's reply = resp_reply k (theorem c17_ks_resp_is_c01_reply), the
// printed tree = the document and is valid (c17_ks_json_doc_is_tree, c17_ks_json_valid), and the
// two projections of the two renderings = conv_of (c17_ks_modes_agree) — evaluated on every
// result so that a hypothesis of those theorems that does not hold on real data shows up
// (ks-model-self).  What the theorems assume about library output is checked on every oracle
// answer (FormatFloat texts, geohash text, error texts never literally a "negative" text).
// Read-only commands are repeated over telnet / native / WebSocket / HTTP (b.others).

import (
	"fmt"
	"math/rand"
	"regexp"
	"strconv"
	"strings"
	"time"

	"verifharness/internal/hx"
	"verifharness/internal/ksx"
	"verifharness/internal/model"
	"verifharness/internal/srv"
)

// canonKs renders a parsed RESP reply in the format of the ks / ksreply drivers' `show`.
func canonKs(v srv.Value) string {
	switch v.Kind {
	case '+':
		return "s" + model.H(v.Str)
	case '-':
		return "e" + model.H(v.Str)
	case ':':
		return "i" + strconv.FormatInt(v.Int, 10)
	case '$':
		return "b" + model.H(v.Str)
	case 'n':
		return "n"
	case '*':
		parts := make([]string, len(v.Array))
		for i, e := range v.Array {
			parts[i] = canonKs(e)
		}
		return "a(" + strings.Join(parts, ",") + ")"
	}
	return "?"
}

func ksTTLClass(c string) string {
	if strings.HasPrefix(c, "i") && !strings.HasPrefix(c, "i-") {
		return "i>=0"
	}
	return c
}

var reElapsed = regexp.MustCompile(`"elapsed":"([^"\\]*)"\}$`)
var reTTL = regexp.MustCompile(`"ttl":[0-9]+,`)

// ---------- generator: the alphabet of harness/cmd/c01 plus strings that need care in JSON ----------

var ksKeys = []string{"fleet", "k2", "zo\"ne\\", "caf\xc3\xa9<&>", "bad\xffutf"}
var ksIDs = []string{"truck1", "a", "b", "q\"uo\\te", "nl\r\nid", "\xc3\x28", "tab\tid", "\u2028sep"}
var ksFNames = []string{"speed", "props", "props.speed", "na\"me", "f\xfe", "a.b", "<tag>"}
var ksFVals = []string{"5", "0", "1.0", "abc", "ABC", `{"speed":7,"meta":{"x":1}}`, `{"x":"a\"b"}`, "true", "false", "null", " 12 ",
	"0.0", "-3.5e2", `"quoted"`, "NaN", "+Inf", "-inf", "1e400", "99999999999999999999999", "-0", "a<b>&c", "line\nbreak",
	"\xff\xfe", "ctl\x01\x1f", "\u2029", `back\slash`, "0x10", "1_000", ".5"}
var ksObjects = [][]string{
	{"POINT", "33.5", "-112.1"},
	{"POINT", "33.5", "-112.1", "100"},
	{"POINT", "1", "1"},
	{"POINT", "0.000001", "-0.5", "0"},
	{"POINT", "1e21", "1e-7"},
	{"BOUNDS", "10", "20", "30", "40"},
	{"HASH", "9tbnwg"},
	{"OBJECT", `{"type":"Point","coordinates":[-112.2,33.4]}`},
	{"OBJECT", `{"type":"Polygon","coordinates":[[[0,0],[10,0],[10,10],[0,10],[0,0]]]}`},
	{"OBJECT", `{"type":"Feature","geometry":{"type":"Point","coordinates":[5,6]},"properties":{"name":"x\"y<z>","n":{"m":2}}}`},
	{"OBJECT", `{"type":"LineString","coordinates":[[1,2],[3,4]]}`},
	{"STRING", "hello"},
	{"STRING", `{"a":{"b":1},"c":[1,2,3],"d":"txt"}`},
	{"STRING", "he\"llo <b>&amp; \\ \x7f"},
	{"STRING", "\xff\x00bin\r\n\u2028"},
	{"STRING", ""},
	{"OBJECT", `{"type":"FeatureCollection","features":[]}`},
}
var ksJPaths = []string{"a.b", "a", "c.1", "d", "properties.name", "properties.n.m", "coordinates", "type", "x.y", "properties", "q\"p"}
var ksJVals = []string{"5", "txt", "true", `{"q":1}`, "1e3", "null", "Point", "-", "a\"b<c>", "\xff", "99999999999999999999"}
var ksPatterns = []string{"*", "truck*", "a", "?", "[ab]", "t*2", "zz*", "b*", "*1", "q\"*", "*\xff*"}
var ksDurs = []string{"100", "1e3", "250.5", "3600"}
var ksRet = [][]string{{}, {"WITHFIELDS"}, {"OBJECT"}, {"POINT"}, {"BOUNDS"}, {"HASH", "7"}, {"WITHFIELDS", "POINT"}, {"HASH", "5", "WITHFIELDS"},
	{"POINT", "WITHFIELDS"}, {"BOUNDS", "WITHFIELDS"}, {"HASH", "12"}, {"HASH", "99999999999999999999"}, {"HASH", "0"}}
var ksJunk = []string{"abc", "", "1x", "FOO", "NX", "XX", "RETURN", "HASH", "13", "0", "WITHFIELDS", "FIELD", "z", "lat", "EX", "OBJECT", "{bad json",
	"POINT", "STRING", "ERRON404", "RAW", "extra", "-", "1e999", "Inf", "key not found", "id not found", "path not found", "q\"\\", "\xff", "ctl\x02\r\n", "99999999999999999999"}

func ksPick(rng *rand.Rand, a []string) string { return a[rng.Intn(len(a))] }

// most commands hit a small part of the alphabet so that reads find what writes stored
func ksKeyID(rng *rand.Rand) (string, string) {
	k, id := ksPick(rng, ksKeys), ksPick(rng, ksIDs)
	if rng.Intn(10) < 7 {
		k = ksKeys[rng.Intn(2)]
	}
	if rng.Intn(10) < 7 {
		id = ksIDs[rng.Intn(3)]
	}
	return k, id
}

func ksGen(rng *rand.Rand) []string {
	k, id := ksKeyID(rng)
	switch x := rng.Intn(100); {
	case x < 22: // SET
		args := []string{"SET", k, id}
		for n := rng.Intn(3); n > 0; n-- {
			args = append(args, "FIELD", ksPick(rng, ksFNames), ksPick(rng, ksFVals))
		}
		if rng.Intn(5) == 0 {
			args = append(args, "EX", ksPick(rng, ksDurs))
		}
		switch rng.Intn(5) {
		case 0:
			args = append(args, "NX")
		case 1:
			args = append(args, "XX")
		}
		obj := ksObjects[rng.Intn(len(ksObjects))]
		switch rng.Intn(6) {
		case 0: // RETURN's three-token window in front of the object (it may swallow the object keyword)
			args = append(args, "RETURN")
			args = append(args, ksRet[rng.Intn(len(ksRet))]...)
			return append(args, obj...)
		case 1, 2:
			args = append(args, obj...)
			args = append(args, "RETURN")
			return append(args, ksRet[rng.Intn(len(ksRet))]...)
		}
		return append(args, obj...)
	case x < 32: // FSET
		args := []string{"FSET", k, id}
		if rng.Intn(3) == 0 {
			args = append(args, "XX")
		}
		for n := 1 + rng.Intn(2); n > 0; n-- {
			args = append(args, ksPick(rng, ksFNames), ksPick(rng, ksFVals))
		}
		if rng.Intn(3) == 0 {
			args = append(args, "RETURN")
			args = append(args, ksRet[rng.Intn(len(ksRet))]...)
		}
		return args
	case x < 37:
		if rng.Intn(3) == 0 {
			return []string{"DEL", k, id, "ERRON404"}
		}
		return []string{"DEL", k, id}
	case x < 40:
		return []string{"PDEL", k, ksPick(rng, ksPatterns)}
	case x < 42:
		return []string{"DROP", k}
	case x < 45:
		return []string{"RENAME", k, ksPick(rng, ksKeys)}
	case x < 48:
		return []string{"RENAMENX", k, ksPick(rng, ksKeys)}
	case x < 49:
		return []string{"FLUSHDB"}
	case x < 53:
		return []string{"EXPIRE", k, id, ksPick(rng, ksDurs)}
	case x < 57:
		return []string{"PERSIST", k, id}
	case x < 62: // JSET
		args := []string{"JSET", k, id, ksPick(rng, ksJPaths), ksPick(rng, ksJVals)}
		switch rng.Intn(6) {
		case 0:
			args = append(args, "RAW")
		case 1:
			args = append(args, "STR")
		}
		return args
	case x < 66:
		return []string{"JDEL", k, id, ksPick(rng, ksJPaths)}
	case x < 76: // GET
		return append([]string{"GET", k, id}, ksRet[rng.Intn(len(ksRet))]...)
	case x < 81:
		return []string{"FGET", k, id, ksPick(rng, ksFNames)}
	case x < 84:
		return []string{"EXISTS", k, id}
	case x < 87:
		return []string{"FEXISTS", k, id, ksPick(rng, ksFNames)}
	case x < 90:
		return []string{"TTL", k, id}
	case x < 92:
		return []string{"TYPE", k}
	case x < 95:
		return []string{"KEYS", ksPick(rng, append(ksPatterns, "fl*", "k?", "z*"))}
	case x < 97: // the scanWriter replies of the same data (Model/JsonScan.v through b.pair)
		return []string{"SCAN", k, ksPick(rng, []string{"IDS", "OBJECTS", "COUNT"})}
	default: // JGET
		args := []string{"JGET", k, id}
		if rng.Intn(4) > 0 {
			args = append(args, ksPick(rng, ksJPaths))
			if rng.Intn(3) == 0 {
				args = append(args, "RAW")
			}
		}
		return args
	}
}

func ksMalform(rng *rand.Rand, args []string) []string {
	out := append([]string{}, args...)
	for n := 1 + rng.Intn(2); n > 0; n-- {
		switch rng.Intn(5) {
		case 0:
			if len(out) > 1 {
				i := 1 + rng.Intn(len(out)-1)
				out = append(out[:i], out[i+1:]...)
			}
		case 1:
			if len(out) > 1 {
				out = out[:1+rng.Intn(len(out)-1)]
			}
		case 2:
			i := 1 + rng.Intn(len(out))
			out = append(out[:i], append([]string{ksPick(rng, ksJunk)}, out[i:]...)...)
		case 3:
			if len(out) > 1 {
				out[1+rng.Intn(len(out)-1)] = ksPick(rng, ksJunk)
			}
		case 4:
			out = append(out, ksPick(rng, ksJunk))
		}
	}
	if rng.Intn(3) == 0 {
		out[0] = strings.ToLower(out[0])
	}
	return out
}

// arguments that would let objects expire during the run, that the model cannot list (a collection
// named ""), or that are owned by other properties (see dangerous)
func ksRisky(args []string) bool {
	if len(args) == 0 || args[0] == "" || dangerous(args) && !strings.EqualFold(args[0], "fset") {
		return true
	}
	up := strings.ToUpper(args[0])
	if len(args) > 1 && args[1] == "" {
		return true
	}
	if (up == "RENAME" || up == "RENAMENX") && len(args) > 2 && args[2] == "" {
		return true
	}
	for i, a := range args {
		if strings.EqualFold(a, "ex") && up == "SET" && i+1 < len(args) {
			if f, err := strconv.ParseFloat(args[i+1], 64); err == nil && !(f >= 50 && f < 1e7) {
				return true
			}
		}
	}
	if up == "EXPIRE" && len(args) == 4 {
		if f, err := strconv.ParseFloat(args[3], 64); err == nil && !(f >= 50 && f < 1e7) {
			return true
		}
	}
	return false
}

var ksReadOnly = map[string]bool{"get": true, "fget": true, "exists": true, "fexists": true, "ttl": true, "type": true, "keys": true, "jget": true}

var ksNegTexts = map[string]bool{"key not found": true, "id not found": true, "id already exists": true, "path not found": true}

type ksRun struct {
	b       *bb
	m       *ksx.Mdl
	floats  map[string]bool
	nSteps  int
	nUnmod  int
	nOthers int
}

// checkOracle: what kres_wf / errs_distinct assume about library output, on every oracle answer.
func (k *ksRun) checkOracle(name string, args, val []string) {
	r := k.b.r
	bad := func(sig, what string) {
		r.Fail(hx.Failure{Kind: "correspondence", Signature: sig, What: what,
			Case: map[string]interface{}{"oracle": name, "args": args, "value": val}})
	}
	switch name {
	case "point", "bounds":
		for _, t := range val {
			if ok, seen := k.floats[t]; seen {
				if !ok {
					return
				}
				continue
			}
			ok := k.m.Drv.Ask("float_text", t) == "1"
			k.floats[t] = ok
			if !ok {
				bad("ks-assumption-float-text", fmt.Sprintf("strconv.FormatFloat(f,'f',-1,64) printed %q, which is outside the language float_text of Model/KsReply.v (c17_ks_float_is_value does not apply)", model.U(t)))
			}
		}
	case "hash":
		for _, c := range []byte(model.U(val[0])) {
			if c < 0x20 || c == '"' || c == '\\' {
				bad("ks-assumption-geohash-text", "a geohash contains a byte that cannot stand raw inside a JSON string")
			}
		}
	case "mkgeo", "sjson_set", "sjson_del":
		if val[0] == "err" && ksNegTexts[model.U(val[1])] {
			bad("ks-assumption-error-text", fmt.Sprintf("a library error text is literally %q: a JSON client reads it as a negative answer, a RESP client as an error (errs_distinct of c17_ks_step)", model.U(val[1])))
		}
	}
}

func (k *ksRun) step(args []string, label string, prog [][]string, at int) bool {
	b := k.b
	r := b.r
	cmd := strings.ToLower(args[0])
	jd, rv := b.pair(args, true, false)
	if b.dead {
		return false
	}
	k.nSteps++
	r.Dist("ks:cmd:" + cmd)
	d := ""
	if m := reElapsed.FindStringSubmatch(jd.Raw); m != nil {
		d = m[1]
	}
	toks := append([]string{"stepk", strconv.FormatInt(time.Now().UnixNano(), 10), "010", model.H(d)}, func() []string {
		out := make([]string, len(args))
		for i, a := range args {
			out[i] = model.H(a)
		}
		return out
	}()...)
	mr := k.m.Ask(toks...)
	cs := map[string]interface{}{"label": label, "args": q(args), "program": func() []string {
		lo := at - 12
		if lo < 0 {
			lo = 0
		}
		out := []string{}
		for _, c := range prog[lo : at+1] {
			out = append(out, q(c))
		}
		return out
	}()}
	fail := func(sig, what string, impl, mod interface{}) {
		r.Fail(hx.Failure{Kind: "correspondence", Signature: sig, What: what, Case: cs, Impl: impl, Model: mod})
	}
	if mr == "U" {
		k.nUnmod++
		r.Dist("ks:unmodelled")
		return true
	}
	if mr == "PANIC" {
		fail("ks-model-panic", "Model.KsReply.exec_k reaches Panic where both servers answered", trunc(jd.Raw, 300), "Panic")
		return false
	}
	f := strings.Fields(mr)
	if len(f) != 22 || f[0] != "K" {
		panic("bad ksreply answer: " + mr)
	}
	ask, mResp, mExec, mDoc, mTree, mValid, cj, cr, ck := f[2], f[5], f[7], f[9], f[11], f[13], f[15], f[17], f[19]
	r.Dist("ks:ask:" + strings.TrimRight(ask, "0123456789"))
	// RESP mode
	got, want := canonKs(rv), mResp
	if cmd == "ttl" {
		got, want = ksTTLClass(got), ksTTLClass(want)
	}
	if got != want {
		fail("ks-resp-model", "the RESP-mode reply of "+q(args)+" differs from Model.KsReply.resp_reply of the step's result", trunc(canonKs(rv), 400), trunc(mResp, 400))
		return false
	}
	// JSON mode: byte for byte
	if mDoc == "none" {
		fail("ks-json-model", "Model.KsReply.json_doc is undefined for the result of "+q(args)+" (the regenerated template no longer has the shape the instantiation expects, or the result is outside kres_wf)", trunc(jd.Raw, 400), mr)
		return false
	}
	real, mod := jd.Raw, model.U(mDoc)
	if cmd == "ttl" {
		real, mod = reTTL.ReplaceAllString(real, `"ttl":N,`), reTTL.ReplaceAllString(mod, `"ttl":N,`)
	}
	if real != mod {
		fail("ks-json-model", "the JSON-mode reply of "+q(args)+" differs from Model.KsReply.json_doc (the handler's regenerated template instantiated with the step's result)", trunc(jd.Raw, 500), trunc(model.U(mDoc), 500))
		return false
	}
	// inside the model: the theorems, evaluated on this result
	if mExec != mResp {
		fail("ks-model-self", "Model.Keyspace.exec and Model.KsReply.resp_reply differ on this step (c17_ks_resp_is_c01_reply)", mExec, mResp)
	}
	if mTree != mDoc || mValid != "1" {
		fail("ks-model-self", "the printed document tree is not the instantiated template, or is not valid JSON (c17_ks_json_doc_is_tree / c17_ks_json_valid: the result is outside kres_wf)", trunc(model.U(mTree), 400), trunc(model.U(mDoc), 400))
	}
	if cj != ck || cr != ck {
		fail("ks-model-self", "the two projections of the two renderings differ from conv_of (c17_ks_modes_agree: a hypothesis does not hold for this result)", "json:"+trunc(cj, 300)+" resp:"+trunc(cr, 300), trunc(ck, 300))
	}
	r.Dist("ks:conv:" + strings.SplitN(ck, ":", 2)[0])
	// other transports for the reads
	if ksReadOnly[cmd] && b.rng.Intn(5) == 0 && jd.M != nil {
		k.nOthers++
		b.others(args, jd, rv)
	}
	return !b.dead
}

func (k *ksRun) program(prog [][]string, label string) {
	b := k.b
	b.pair([]string{"FLUSHDB"}, false, true)
	if b.dead {
		return
	}
	k.m.Ask("reset")
	for i, args := range prog {
		if !k.step(args, label, prog, i) {
			return
		}
	}
	// the two servers and the model still hold the same dataset
	dj, dr := ksDump(b.sa), ksDump(b.sb)
	md := k.m.Ask("dump")
	if dj != dr {
		b.fail("ks-states-diverge", "after the same program the JSON-side and the RESP-side server hold different datasets (the state effect depends on the output mode)", prog[len(prog)-1], dj, dr)
	} else if dj != md {
		b.r.Fail(hx.Failure{Kind: "correspondence", Signature: "ks-dump-model", What: "full dump after the program differs from the model state",
			Case: map[string]interface{}{"label": label}, Impl: trunc(dj, 600), Model: trunc(md, 600)})
	}
}

// ksDump: KEYS, SCAN IDS, GET WITHFIELDS OBJECT, TTL class — the format of the ks drivers' `dump`.
func ksDump(s *srv.Server) string {
	c := s.MustDial()
	defer c.Close()
	keys := c.MustDo("KEYS", "*")
	var recs, counts []string
	for _, k := range keys.Array {
		ids := c.MustDo("SCAN", k.Str, "LIMIT", "100000", "IDS")
		n := 0
		if len(ids.Array) == 2 {
			for _, id := range ids.Array[1].Array {
				n++
				g := c.MustDo("GET", k.Str, id.Str, "WITHFIELDS", "OBJECT")
				ttl := c.MustDo("TTL", k.Str, id.Str)
				obj, fields := "?", ""
				if len(g.Array) >= 1 {
					obj = model.H(g.Array[0].Str)
				}
				if len(g.Array) >= 2 {
					fa := g.Array[1].Array
					var fs []string
					for i := 0; i+1 < len(fa); i += 2 {
						fs = append(fs, model.H(fa[i].Str)+":"+model.H(fa[i+1].Str))
					}
					fields = strings.Join(fs, ",")
				}
				d := "1"
				if ttl.Int == -1 {
					d = "0"
				} else if ttl.Int < 0 {
					d = "gone"
				}
				recs = append(recs, fmt.Sprintf("k=%s i=%s o=%s f=%s d=%s", model.H(k.Str), model.H(id.Str), obj, fields, d))
			}
		}
		counts = append(counts, model.H(k.Str)+":"+strconv.Itoa(n))
	}
	return strings.Join(recs, ";") + "|" + strings.Join(counts, ",")
}

func (b *bb) keyspaceModes() {
	m, err := ksx.Start("ksreply")
	if err != nil {
		panic(err)
	}
	defer m.Close()
	t0 := time.Now()
	k := &ksRun{b: b, m: m, floats: map[string]bool{}}
	m.Seen = k.checkOracle
	// hooks and scripts of the matrix states are not part of the keyspace model
	for _, args := range [][]string{{"PDELHOOK", "*"}, {"PDELCHAN", "*"}} {
		b.pair(args, false, true)
	}
	nprog, plen, nmal := 150, 32, 20
	if b.cfg.Tier == "thorough" {
		nprog, plen, nmal = 1500, 50, 300
	}
	if b.cfg.Search {
		nprog, plen, nmal = 300, 40, 60
	}
	S := func(s ...string) []string { return s }
	corpus := [][][]string{
		// every "not there" convention: nil / :0 / :-2 / +none in RESP, an error document in JSON
		{S("GET", "nokey", "x"), S("TTL", "nokey", "x"), S("TYPE", "nokey"), S("EXPIRE", "nokey", "x", "100"), S("PERSIST", "nokey", "x"), S("JGET", "nokey", "x"), S("JDEL", "nokey", "x", "a"),
			S("SET", "k", "a", "POINT", "1", "2"), S("GET", "k", "nope"), S("TTL", "k", "nope"), S("EXPIRE", "k", "nope", "100"), S("PERSIST", "k", "nope"), S("PERSIST", "k", "a"), S("EXPIRE", "k", "a", "1000"), S("PERSIST", "k", "a"), S("TTL", "k", "a"),
			S("JGET", "k", "nope"), S("JGET", "k", "a", "nopath"), S("JDEL", "k", "a", "nopath"), S("JDEL", "k", "nope", "p"), S("TYPE", "k"),
			S("FGET", "nokey", "x", "f"), S("FGET", "k", "nope", "f"), S("EXISTS", "nokey", "x"), S("EXISTS", "k", "nope"), S("FEXISTS", "k", "nope", "f"), S("DEL", "k", "nope", "ERRON404"), S("DEL", "nokey", "x", "ERRON404"), S("DEL", "k", "nope"), S("FSET", "k", "nope", "f", "1"), S("FSET", "nokey", "x", "f", "1"), S("RENAME", "nokey", "k2"), S("RENAMENX", "nokey", "k2")},
		// NX / XX with and without RETURN, FSET XX with RETURN on a missing id
		{S("SET", "k", "a", "XX", "POINT", "1", "2"), S("SET", "k", "a", "NX", "POINT", "1", "2"), S("SET", "k", "a", "NX", "POINT", "3", "4"), S("SET", "k", "a", "XX", "RETURN", "POINT", "POINT", "3", "4"), S("SET", "k", "b", "XX", "RETURN", "WITHFIELDS", "POINT", "3", "4"),
			S("SET", "k", "a", "NX", "RETURN", "WITHFIELDS", "POINT", "3", "4"), S("SET", "k", "a", "NX", "XX", "POINT", "3", "4"), S("FSET", "k", "nope", "XX", "f", "1"), S("FSET", "k", "nope", "XX", "RETURN", "WITHFIELDS", "f", "1"), S("FSET", "k", "a", "XX", "RETURN", "WITHFIELDS", "f", "1", "g", "NaN"),
			S("FSET", "k", "a", "RETURN", "HASH", "6", "f", "1"), S("FSET", "k", "a", "f", "0", "g", "0"), S("GET", "k", "a", "WITHFIELDS")},
		// every GET form on every kind of object, fields of every kind incl. NaN / Inf and strings needing escapes
		{S("SET", "k", "p", "FIELD", "n", "5", "FIELD", "s", "a\"b<c>&\\", "FIELD", "nan", "NaN", "FIELD", "inf", "+Inf", "FIELD", "ninf", "-Inf", "FIELD", "j", `{"x":[1,"y"]}`, "FIELD", "t", "true", "FIELD", "f", "false", "FIELD", "nu", "null", "FIELD", "bin", "\xff\x01", "FIELD", "qs", `"5"`, "POINT", "33.5", "-112.25", "7.5"),
			S("GET", "k", "p"), S("GET", "k", "p", "WITHFIELDS"), S("GET", "k", "p", "POINT"), S("GET", "k", "p", "WITHFIELDS", "POINT"), S("GET", "k", "p", "BOUNDS"), S("GET", "k", "p", "BOUNDS", "WITHFIELDS"), S("GET", "k", "p", "HASH", "9"), S("GET", "k", "p", "HASH", "1", "WITHFIELDS"), S("GET", "k", "p", "HASH", "13"), S("GET", "k", "p", "HASH"), S("GET", "k", "p", "HASH", "99999999999999999999"),
			S("FGET", "k", "p", "n"), S("FGET", "k", "p", "s"), S("FGET", "k", "p", "nan"), S("FGET", "k", "p", "inf"), S("FGET", "k", "p", "j"), S("FGET", "k", "p", "j.x.1"), S("FGET", "k", "p", "t"), S("FGET", "k", "p", "nu"), S("FGET", "k", "p", "bin"), S("FGET", "k", "p", "qs"), S("FGET", "k", "p", "missing"), S("FEXISTS", "k", "p", "n"), S("FEXISTS", "k", "p", "missing"),
			S("SET", "k", "s", "STRING", "he\"llo <b>&\xff\u2028"), S("GET", "k", "s"), S("GET", "k", "s", "WITHFIELDS"), S("GET", "k", "s", "POINT"), S("GET", "k", "s", "BOUNDS"), S("GET", "k", "s", "HASH", "5"),
			S("SET", "k", "poly", "OBJECT", `{"type":"Polygon","coordinates":[[[0,0],[10,0],[10,10],[0,10],[0,0]]]}`), S("GET", "k", "poly"), S("GET", "k", "poly", "POINT"), S("GET", "k", "poly", "BOUNDS"), S("GET", "k", "poly", "HASH", "4"),
			S("KEYS", "*"), S("TYPE", "k"), S("SCAN", "k"), S("SCAN", "k", "IDS")},
		// keys and ids that need escaping (json.Marshal for KEYS: < > & escaped; invalid UTF-8 -> U+FFFD) and echo in errors
		{S("SET", "a<b>&c", "i", "POINT", "1", "1"), S("SET", "q\"k\\", "i", "POINT", "1", "1"), S("SET", "bad\xff", "i", "POINT", "1", "1"), S("SET", "nl\r\nk", "i", "POINT", "1", "1"), S("SET", "\u2028", "i", "POINT", "1", "1"), S("KEYS", "*"), S("KEYS", "a*"), S("KEYS", "zz*"),
			S("GET", "k", "i", "BAD\"ARG\xff\r\n"), S("DEL", "k", "i", "x\"y"), S("SET", "k", "i", "FIELD", "z", "1", "POINT", "1", "1"), S("SET", "k", "i", "BOGUS\x01"), S("JSET", "k", "i", "a", "1", "NOPE<>"), S("GET"), S("GET", "k"), S("TTL", "k"), S("TYPE"), S("KEYS"), S("KEYS", "a", "b"), S("EXPIRE", "k", "i", "notnum"), S("EXPIRE", "k", "i"),
			S("RENAME", "a<b>&c", "q\"k\\"), S("RENAMENX", "bad\xff", "q\"k\\"), S("RENAMENX", "bad\xff", "fresh"), S("KEYS", "*"), S("DROP", "fresh"), S("DROP", "fresh"), S("PDEL", "q\"k\\", "*"), S("PDEL", "q\"k\\", "*"), S("FLUSHDB"), S("KEYS", "*")},
		// JSET / JGET / JDEL on strings and on geometries (re-entry into SET)
		{S("JSET", "j", "d", "a.b", "5"), S("JGET", "j", "d"), S("JGET", "j", "d", "a"), S("JGET", "j", "d", "a", "RAW"), S("JGET", "j", "d", "a.b"), S("JSET", "j", "d", "s", "x\"y<z>\xff"), S("JGET", "j", "d", "s"), S("JGET", "j", "d", "s", "RAW"), S("JSET", "j", "d", "n", "1e3", "STR"), S("JSET", "j", "d", "r", "{bad", "RAW"),
			S("JDEL", "j", "d", "a.b"), S("JDEL", "j", "d", "nope"), S("JGET", "j", "d", "a.b"), S("SET", "j", "g", "POINT", "1", "2"), S("JSET", "j", "g", "properties.p", "v\"w"), S("GET", "j", "g"), S("JGET", "j", "g", "properties.p"), S("JDEL", "j", "g", "properties.p"), S("JDEL", "j", "g", "properties.p"), S("JSET", "j", "g", "type", "Bogus"), S("JSET", "j", "g", "coordinates", "x"),
			S("JGET", "j", "g", "coordinates", "RAW"), S("JGET", "j", "g", "coordinates", "BAD")},
	}
	// regression case of finding C17-scan-json-path-field (repaired: 903e555; c17_scan_json_path_field_pinned_refuted):
	// the pinned JSON arm of SCAN filled the positional fields array through List.Get, which answers props.speed
	// from inside truck1's JSON field props; both modes must now show the stored fields
	corpus = append(corpus, [][]string{S("SET", "fleet", "b", "FIELD", "props.speed", "5", "POINT", "1", "1"),
		S("SET", "fleet", "truck1", "FIELD", "props", `{"speed":7,"meta":{"x":1}}`, "POINT", "2", "2"),
		S("SCAN", "fleet", "OBJECTS"), S("SCAN", "fleet", "IDS"), S("GET", "fleet", "truck1", "WITHFIELDS"), S("FGET", "fleet", "truck1", "props.speed"),
		S("FSET", "fleet", "truck1", "props.speed", "9"), S("SCAN", "fleet", "OBJECTS")})
	for i, p := range corpus {
		k.program(p, fmt.Sprintf("ks-corpus-%d", i))
		if b.dead || len(b.r.Failures) > 12 {
			return
		}
	}
	gen := func(n, plen int, label string, mal bool) {
		for i := 0; i < n && !b.dead && len(b.r.Failures) <= 12; i++ {
			prog := make([][]string, 0, plen)
			if mal {
				prog = append(prog, S("SET", "fleet", "a", "FIELD", "speed", "5", "POINT", "1", "1"), S("SET", "k2", "b", "EX", "500", "STRING", `{"a":{"b":1}}`))
			}
			for n := 2 + b.rng.Intn(3); n > 0 && !mal; n-- { // something to read
				k0, id0 := ksKeyID(b.rng)
				c := []string{"SET", k0, id0, "FIELD", ksPick(b.rng, ksFNames), ksPick(b.rng, ksFVals)}
				prog = append(prog, append(c, ksObjects[b.rng.Intn(len(ksObjects))]...))
			}
			for len(prog) < plen {
				c := ksGen(b.rng)
				if mal || b.rng.Intn(10) == 0 {
					c = ksMalform(b.rng, c)
				}
				if ksRisky(c) {
					continue
				}
				prog = append(prog, c)
			}
			b.r.Dist("ks:" + label)
			k.program(prog, fmt.Sprintf("%s-%d", label, i))
		}
	}
	gen(nprog, plen, "ks-program", false)
	gen(nmal, plen, "ks-malformed", true)
	b.r.Extra["keyspace_modes"] = map[string]interface{}{
		"wall_s": time.Since(t0).Seconds(),
		"commands_in_both_modes": k.nSteps, "outside_the_reply_model": k.nUnmod, "repeated_over_other_transports": k.nOthers,
		"oracle_lookups_resolved": m.NOrc, "model_requests": m.Drv.N,
		"note": "every command: real RESP reply = resp_reply, real JSON reply = json_doc (byte for byte, elapsed taken from the real reply), model-internal checks of c17_ks_resp_is_c01_reply / c17_ks_json_doc_is_tree / c17_ks_modes_agree, plus every black-box oracle of b.pair",
	}
}
