package main

// Correspondence for c17_modes_agree: from the two real replies of a scanWriter command the
// abstract result (ids, printed objects, fields, distances, name list, count, cursor) is
// reconstructed and handed to the extracted model; Model.JsonScan.render_resp must give exactly
// the real RESP reply and render_json the real JSON reply (modulo elapsed, invalid UTF-8 -> U+FFFD).

import (
	"encoding/hex"
	"encoding/json"
	"fmt"
	"sort"
	"strconv"
	"strings"

	"verifharness/internal/hx"
	"verifharness/internal/model"
	"verifharness/internal/srv"
)

func scanOutKind(args []string) string {
	kind := "objects"
	for i := 2; i < len(args); i++ {
		switch strings.ToUpper(args[i]) {
		case "IDS":
			kind = "ids"
		case "COUNT":
			kind = "count"
		case "OBJECTS":
			kind = "objects"
		case "POINTS", "BOUNDS", "HASHES":
			return "" // not modelled
		case "POINT", "OBJECT", "GET", "CIRCLE", "TILE", "QUADKEY", "HASH", "SECTOR":
			return kind // the area starts here (BOUNDS as an area follows an output keyword or none)
		}
	}
	return kind
}

// decodeModelJSON turns the model's tree text into plain JSON values.
func decodeModelJSON(x interface{}) (interface{}, error) {
	switch t := x.(type) {
	case map[string]interface{}:
		if h, ok := t["$s"].(string); ok && len(t) == 1 {
			return fixUTF8(model.U(orDash(h))), nil
		}
		if h, ok := t["$t"].(string); ok && len(t) == 1 {
			var v interface{}
			d := json.NewDecoder(strings.NewReader(model.U(orDash(h))))
			d.UseNumber()
			if err := d.Decode(&v); err != nil {
				return nil, fmt.Errorf("token %q is not JSON", model.U(orDash(h)))
			}
			return v, nil
		}
		out := map[string]interface{}{}
		for k, v := range t {
			kb, err := hex.DecodeString(k)
			if err != nil {
				return nil, err
			}
			d, err := decodeModelJSON(v)
			if err != nil {
				return nil, err
			}
			out[string(kb)] = d
		}
		return out, nil
	case []interface{}:
		out := make([]interface{}, len(t))
		for i, e := range t {
			d, err := decodeModelJSON(e)
			if err != nil {
				return nil, err
			}
			out[i] = d
		}
		return out, nil
	}
	return x, nil
}

func orDash(h string) string {
	if h == "" {
		return "-"
	}
	return h
}

// scanModel returns "" when the case was compared (or is outside the modelled outputs).
func (b *bb) scanModel(cmd string, args []string, jd jdoc, rv srv.Value) {
	switch cmd {
	case "scan", "search", "nearby", "within", "intersects":
	default:
		return
	}
	if !jd.OK || rv.Kind == '-' || b.st.NonFinite {
		return
	}
	kind := scanOutKind(args)
	if kind == "" {
		return
	}
	var jcount json.Number
	json.Unmarshal(jd.M["count"], &jcount)
	nofields := hasWord(args, "NOFIELDS")
	distout := hasWord(args, "DISTANCE")
	cursor := int64(0)
	var toks []string
	names := map[string]bool{}
	if kind != "count" {
		if rv.Kind != '*' || len(rv.Array) != 2 {
			return // agree() reports the shape
		}
		cursor = rv.Array[0].Int
		var jitems []json.RawMessage
		key := "objects"
		if kind == "ids" {
			key = "ids"
		}
		if json.Unmarshal(jd.M[key], &jitems) != nil || len(jitems) != len(rv.Array[1].Array) {
			return
		}
		var jnames []string
		json.Unmarshal(jd.M["fields"], &jnames)
		for i, ri := range rv.Array[1].Array {
			id, objKind, obj, dist, fields := "", "t", "", "", "."
			hasDist := false
			var jm map[string]json.RawMessage
			json.Unmarshal(jitems[i], &jm)
			if kind == "ids" {
				if ri.Kind == '*' && len(ri.Array) == 2 {
					id, dist, hasDist = ri.Array[0].Str, ri.Array[1].Str, true
				} else {
					id = ri.Str
				}
			} else {
				if ri.Kind != '*' || len(ri.Array) < 2 {
					return
				}
				id, obj = ri.Array[0].Str, ri.Array[1].Str
				if raw, ok := jm["object"]; ok && len(raw) > 0 && raw[0] == '"' {
					objKind = "s"
				}
				var jvals []json.RawMessage
				json.Unmarshal(jm["fields"], &jvals)
				for _, e := range ri.Array[2:] {
					if e.Kind == '*' {
						var fs []string
						for k := 0; k+1 < len(e.Array); k += 2 {
							n, v := e.Array[k].Str, e.Array[k+1].Str
							names[n] = true
							fk := "t"
							for x, jn := range jnames { // the JSON value at this name tells string from token
								if jn == fixUTF8(n) && x < len(jvals) && len(jvals[x]) > 0 && jvals[x][0] == '"' {
									fk = "s"
								}
							}
							fs = append(fs, model.H(n)+"="+fk+"="+model.H(v))
						}
						fields = strings.Join(fs, ";")
					} else {
						dist, hasDist = e.Str, true
					}
				}
			}
			pos := "0"
			if hasDist {
				f, err := strconv.ParseFloat(dist, 64)
				if err != nil || f != f || f > 1.7e308 || f < -1.7e308 {
					return // a non-finite distance is null in JSON and NaN / +Inf in RESP: outside the model
				}
				if f > 0 {
					pos = "1"
				}
			}
			do := "0"
			if distout {
				do = "1"
			}
			toks = append(toks, strings.Join([]string{model.H(id), objKind, model.H(obj), do, pos, model.H(dist), fields}, ":"))
		}
	}
	nameTok := "."
	if len(names) > 0 {
		var l []string
		for n := range names {
			l = append(l, n)
		}
		sort.Strings(l)
		for i := range l {
			l[i] = model.H(l[i])
		}
		nameTok = strings.Join(l, ",")
	}
	nf := "0"
	if nofields {
		nf = "1"
	}
	req := append([]string{"scan_render", kind, nf, jcount.String(), strconv.FormatInt(cursor, 10), nameTok}, toks...)
	out := strings.SplitN(b.drv.Ask(req...), " ", 3)
	b.r.Dist("model:scan_render")
	fail := func(what string, impl, mod interface{}) {
		b.r.Fail(hx.Failure{Kind: "correspondence", Signature: "scan-render-model", What: what,
			Case: map[string]interface{}{"state": b.st.Name, "args": q(args)}, Impl: impl, Model: mod})
	}
	if len(out) != 3 {
		fail("the model driver did not render the result: "+trunc(strings.Join(out, " "), 200), nil, nil)
		return
	}
if out[2] != "1" {
		fail("Model.JsonScan: proj_json / proj_resp of the renderings differ from abs_of on a real result (is the wf_res hypothesis violated?)", nil, nil)
	}
	if out[1] != canonRESP(rv) {
		fail("Model.JsonScan.render_resp differs from the real RESP reply", trunc(canonRESP(rv), 300), trunc(out[1], 300))
	}
	var mj interface{}
	d := json.NewDecoder(strings.NewReader(out[0]))
	d.UseNumber()
	if err := d.Decode(&mj); err != nil {
		fail("unreadable model JSON: "+err.Error(), nil, trunc(out[0], 200))
		return
	}
	dec, err := decodeModelJSON(mj)
	if err != nil {
		fail("model JSON: "+err.Error(), nil, trunc(out[0], 200))
		return
	}
	var real map[string]interface{}
	rd := json.NewDecoder(strings.NewReader(jd.Raw))
	rd.UseNumber()
	rd.Decode(&real)
	delete(real, "elapsed")
	a, _ := json.Marshal(dec)
	c, _ := json.Marshal(real)
	if string(a) != string(c) {
		fail("Model.JsonScan.render_json differs from the real JSON reply", trunc(string(c), 400), trunc(string(a), 400))
	}
}
