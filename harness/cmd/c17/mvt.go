package main

// Vector tiles: one tile, three transports (c17_mvt_http_delivers_tile, c17_base64_roundtrip,
// c17_mvt_std_into_raw_refuted; Model/Mvt.v).
//
// For collections of 0..7 points (tile lengths in every residue class mod 3) and a few mixed
// geometries, the MVT queries INTERSECTS / WITHIN / NEARBY .. MVT x y z are sent in RESP mode
// (the tile bytes), in JSON mode (the "mvt" member: base64) and through the HTTP routes
// GET /key/z/x/y.mvt and .pbf (which run the INTERSECTS query in JSON mode and decode the member).
// Direct oracle (no model): the three transports deliver the same tile — the member decodes
// (either base64 flavour, as a tolerant client would) to the RESP bytes; HTTP answers 200,
// application/vnd.mapbox-vector-tile, Content-Length = tile + 2 and tile CRLF.
// Correspondence: the member and the HTTP status / content type / body are what the extracted
// mvt_member / mvt_http give for the RESP tile with the encodings the source names at the two
// sites (coq/Gen/Templates.v), and Go's encoding/base64 agrees with the transcribed codec.

import (
	"encoding/base64"
	"encoding/json"
	"fmt"
	"strconv"
	"strings"

	"verifharness/internal/hx"
	"verifharness/internal/model"
)

func (b *bb) mvtTiles() {
	r := b.r
	fail := func(kind, sig, what string, cs interface{}, impl, mod interface{}) {
		r.Fail(hx.Failure{Kind: kind, Signature: sig, What: what, Case: cs, Impl: impl, Model: mod})
	}
	// base64 codec vs encoding/base64 on all short lengths and byte values that reach every alphabet range
	for n := 0; n <= 10; n++ {
		for variant := 0; variant < 4; variant++ {
			t := make([]byte, n)
			for i := range t {
				switch variant {
				case 0:
					t[i] = byte(i * 37)
				case 1:
					t[i] = 0xff - byte(i)
				case 2:
					t[i] = byte(b.rng.Intn(256))
				case 3:
					t[i] = []byte{0, 0xfb, 0xff, 0x3e, 0x3f, 0xfc}[(i+n)%6]
				}
			}
			for _, k := range []struct {
				name string
				enc  *base64.Encoding
			}{{"std", base64.StdEncoding}, {"raw", base64.RawStdEncoding}} {
				want := k.enc.EncodeToString(t)
				r.Dist("model:base64")
				if got := model.U(b.drv.Ask("b64", k.name, "enc", model.H(string(t)))); got != want {
					fail("correspondence", "base64-model", "Model.Mvt.encode differs from encoding/base64 ("+k.name+")", fmt.Sprintf("% x", t), want, got)
				}
				for _, d := range []struct {
					name string
					enc  *base64.Encoding
				}{{"std", base64.StdEncoding}, {"raw", base64.RawStdEncoding}} {
					out, err := d.enc.DecodeString(want)
					exp := "err"
					if err == nil {
						exp = "ok " + model.H(string(out))
					}
					if got := b.drv.Ask("b64", d.name, "dec", model.H(want)); got != exp {
						fail("correspondence", "base64-model", "Model.Mvt.decode ("+d.name+") differs from encoding/base64 on "+strconv.Quote(want), fmt.Sprintf("% x", t), exp, got)
					}
				}
			}
		}
	}

	setup := func(key string, cmds [][]string) bool {
		for _, s := range [][]string{{"DROP", key}} {
			b.ja.do(s...)
			b.rb.do(s...)
		}
		for _, c := range cmds {
			if _, err := b.ja.do(c...); err != nil {
				b.serverGone("json", c, err)
				return false
			}
			if _, err := b.rb.do(c...); err != nil {
				b.serverGone("resp", c, err)
				return false
			}
		}
		return true
	}
	seen := map[int]int{}
	one := func(label, key string, query []string, httpPath string) {
		cs := map[string]interface{}{"data": label, "query": q(query), "http": httpPath}
		rv, err := b.rb.do(query...)
		if err != nil {
			b.serverGone("resp", query, err)
			return
		}
		if rv.Kind != '*' || len(rv.Array) != 2 || rv.Array[1].Kind != '$' {
			fail("oracle", "mvt-resp-shape", "RESP reply of an MVT query is not [cursor, tile]: "+trunc(rv.String(), 200), cs, rv.String(), nil)
			return
		}
		tile := rv.Array[1].Str
		seen[len(tile)%3]++
		r.Dist("mvt:query")
		r.Count("mvt|"+label+"|"+q(query), len(tile) > 15)
		jv, err := b.ja.do(query...)
		if err != nil {
			b.serverGone("json", query, err)
			return
		}
		jd, sig, what := checkJSONDoc(jv.Str)
		if sig != "" {
			fail("oracle", b.classify(sig, strings.ToLower(query[0]), jv.Str), what+": "+trunc(jv.Str, 300), cs, jv.Str, nil)
			return
		}
		var member string
		if !jd.OK || json.Unmarshal(jd.M["mvt"], &member) != nil {
			fail("oracle", "mvt-json-member", `the JSON reply of an MVT query has no string member "mvt": `+trunc(jv.Str, 300), cs, jv.Str, nil)
			return
		}
		// a tolerant client: either flavour
		dec, derr := base64.RawStdEncoding.DecodeString(strings.TrimRight(member, "="))
		if derr != nil || string(dec) != tile {
			fail("oracle", "mvt-modes-disagree", fmt.Sprintf("the \"mvt\" member of the JSON reply does not decode to the tile RESP mode returns (%d bytes)", len(tile)), cs, trunc(member, 200), fmt.Sprintf("%q", trunc(tile, 120)))
		}
		// model: member and HTTP reply for this tile with the encodings the source names
		mf := strings.Fields(b.drv.Ask("mvt", model.H(tile), model.H(jv.Str)))
		r.Dist("model:mvt")
		if len(mf) != 4 {
			fail("correspondence", "mvt-model", "Model.Mvt does not know the base64 encoding named by writeFoot / handleInputCommand (coq/Gen/Templates.v mvt_json_encoding, mvt_http_decoding)", cs, nil, strings.Join(mf, " "))
			return
		}
		if model.U(mf[0]) != member {
			fail("correspondence", "mvt-member-model", "the \"mvt\" member differs from Model.Mvt.mvt_member (the encoding writeFoot names, applied to the RESP tile)", cs, trunc(member, 200), trunc(model.U(mf[0]), 200))
		}
		if httpPath == "" {
			return
		}
		rep, err := httpGetPath(b.sa.Port, httpPath)
		if err != nil {
			fail("oracle", "http-invalid", "GET "+httpPath+": "+err.Error(), cs, nil, nil)
			return
		}
		r.Dist("transport:http-mvt")
		wantCT := "application/vnd.mapbox-vector-tile"
		if !strings.HasPrefix(rep.Status, "200") || rep.ContentType != wantCT || rep.Body != tile+"\r\n" {
			fail("oracle", "mvt-http-disagree", fmt.Sprintf("GET %s does not deliver the tile RESP and JSON deliver (%d bytes, %d mod 3): status %q, content type %q, body %s", httpPath, len(tile), len(tile)%3, rep.Status, rep.ContentType, trunc(fmt.Sprintf("%q", rep.Body), 160)),
				cs, map[string]string{"status": rep.Status, "content-type": rep.ContentType, "body": trunc(fmt.Sprintf("%q", rep.Body), 300)}, trunc(fmt.Sprintf("%q", tile+"\r\n"), 300))
		}
		mct := map[string]string{"mvt": wantCT, "json": "application/json; charset=utf-8"}[mf[2]]
		if !strings.HasPrefix(rep.Status, mf[1]) || rep.ContentType != mct || rep.Body != model.U(mf[3])+"\r\n" {
			fail("correspondence", "mvt-http-model", "the HTTP .mvt reply differs from Model.Mvt.mvt_http (decoder named by handleInputCommand applied to the member)", cs,
				rep.Status+" | "+rep.ContentType+" | "+trunc(fmt.Sprintf("%q", rep.Body), 200), mf[1]+" | "+mct+" | "+trunc(fmt.Sprintf("%q", model.U(mf[3])), 200))
		}
	}
	key := "mvtfleet"
	var cmds [][]string
	for n := 0; n <= 7 && !b.dead; n++ {
		if n > 0 {
			cmds = append(cmds, []string{"SET", key, "t" + strconv.Itoa(n), "POINT", strconv.Itoa(10 + n), strconv.Itoa(20 - n)})
		}
		if !setup(key, cmds) {
			return
		}
		label := fmt.Sprintf("%d points", n)
		one(label, key, []string{"INTERSECTS", key, "LIMIT", "100000000", "MVT", "0", "0", "0"}, "/"+key+"/0/0/0.mvt")
		one(label, key, []string{"INTERSECTS", key, "LIMIT", "100000000", "MVT", "0", "0", "0"}, "/"+key+"/0/0/0.pbf")
		one(label, key, []string{"WITHIN", key, "MVT", "0", "0", "0"}, "")
		one(label, key, []string{"INTERSECTS", key, "MVT", "2", "1", "2"}, "/"+key+"/2/2/1.mvt")
		one(label, key, []string{"INTERSECTS", key, "LIMIT", "3", "MVT", "0", "0", "0"}, "/"+key+"/0/0/0.mvt?limit=3")
	}
	// other geometries and ids of several lengths: tile lengths vary freely
	mixed := [][]string{
		{"SET", key, "line", "OBJECT", `{"type":"LineString","coordinates":[[1,2],[30,40],[50,10]]}`},
		{"SET", key, "poly-with-a-longer-id", "OBJECT", `{"type":"Polygon","coordinates":[[[0,0],[40,0],[40,40],[0,40],[0,0]],[[10,10],[20,10],[20,20],[10,20],[10,10]]]}`},
		{"SET", key, "b", "BOUNDS", "5", "5", "25", "35"},
		{"SET", key, "x\"y", "POINT", "-33.5", "151.25"},
	}
	for i := range mixed {
		if b.dead || !setup(key, append(append([][]string{}, cmds...), mixed[:i+1]...)) {
			return
		}
		label := fmt.Sprintf("7 points + %d other objects", i+1)
		one(label, key, []string{"INTERSECTS", key, "LIMIT", "100000000", "MVT", "0", "0", "0"}, "/"+key+"/0/0/0.mvt")
		one(label, key, []string{"WITHIN", key, "MVT", "0", "0", "0"}, "")
	}
	b.ja.do("DROP", key)
	b.rb.do("DROP", key)
	r.Extra["mvt_tile_lengths_mod3"] = map[string]int{"0": seen[0], "1": seen[1], "2": seen[2]}
	if seen[1] == 0 || seen[2] == 0 {
		fail("correspondence", "mvt-coverage", "no tile with a length that is not a multiple of 3 was produced: the padding case of the base64 pair is not exercised", seen, nil, nil)
	}
}
