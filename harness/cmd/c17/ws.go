package main

// WebSocket transport (RFC 6455 as far as tile38 speaks it): the command travels in the path of
// the upgrade request, the server answers 101 + ONE unmasked text frame per reply / pushed
// message (WriteWebSocketMessage) and closes after a one-shot command.  The frame parser is
// strict: FIN + text opcode, no mask, minimal length form (7-bit / 16-bit / 64-bit), exactly
// the announced number of payload bytes, nothing after the frame of a one-shot connection.

import (
	"crypto/sha1"
	"encoding/base64"
	"encoding/binary"
	"encoding/json"
	"fmt"
	"io"
	"net/url"
	"strings"
	"time"
	"unicode/utf8"

	"verifharness/internal/hx"
	"verifharness/internal/model"
	"verifharness/internal/srv"
)

func hxFailure(kind, sig, what string, c, impl, mod interface{}) hx.Failure {
	return hx.Failure{Kind: kind, Signature: sig, What: what, Case: c, Impl: impl, Model: mod}
}

const wsKey = "dGhlIHNhbXBsZSBub25jZQ=="

type wsConn struct{ *rconn }

// wsOpen sends the upgrade request carrying the command and checks the 101 answer.
func wsOpen(port int, args []string) (*wsConn, error) {
	c, err := dialRaw(port)
	if err != nil {
		return nil, err
	}
	parts := make([]string, len(args))
	for i, a := range args {
		parts[i] = url.QueryEscape(a)
	}
	req := "GET /" + strings.Join(parts, "+") + " HTTP/1.1\r\nHost: x\r\nUpgrade: websocket\r\nConnection: Upgrade\r\n" +
		"Sec-WebSocket-Version: 13\r\nSec-WebSocket-Key: " + wsKey + "\r\n\r\n"
	if err := c.write([]byte(req)); err != nil {
		c.close()
		return nil, err
	}
	c.c.SetReadDeadline(time.Now().Add(10 * time.Second))
	status, err := readCRLF(c.r)
	if err != nil || !strings.HasPrefix(status, "HTTP/1.1 101") {
		c.close()
		return nil, fmt.Errorf("websocket upgrade: status line %q %v", status, err)
	}
	sum := sha1.Sum([]byte(wsKey + "258EAFA5-E914-47DA-95CA-C5AB0DC85B11"))
	want := base64.StdEncoding.EncodeToString(sum[:])
	accepted := false
	for {
		h, err := readCRLF(c.r)
		if err != nil {
			c.close()
			return nil, fmt.Errorf("websocket upgrade headers: %v", err)
		}
		if h == "" {
			break
		}
		kv := strings.SplitN(h, ":", 2)
		if len(kv) == 2 && strings.EqualFold(kv[0], "Sec-WebSocket-Accept") && strings.TrimSpace(kv[1]) == want {
			accepted = true
		}
	}
	if !accepted {
		c.close()
		return nil, fmt.Errorf("websocket upgrade: missing or wrong Sec-WebSocket-Accept")
	}
	return &wsConn{c}, nil
}

// parseFrame parses ONE server frame strictly from raw; returns header, payload, rest.
func parseFrame(raw []byte) (hdr, payload, rest []byte, err error) {
	if len(raw) < 2 {
		return nil, nil, nil, fmt.Errorf("frame shorter than 2 bytes: % x", raw)
	}
	if raw[0] != 0x81 {
		return nil, nil, nil, fmt.Errorf("first frame byte %#x, want 0x81 (FIN + text)", raw[0])
	}
	if raw[1]&0x80 != 0 {
		return nil, nil, nil, fmt.Errorf("server frame is masked")
	}
	n, h := uint64(raw[1]&0x7f), 2
	switch n {
	case 126:
		if len(raw) < 4 {
			return nil, nil, nil, fmt.Errorf("truncated 16-bit length")
		}
		n, h = uint64(binary.BigEndian.Uint16(raw[2:])), 4
		if n < 126 {
			return nil, nil, nil, fmt.Errorf("16-bit length form used for %d bytes (not minimal)", n)
		}
	case 127:
		if len(raw) < 10 {
			return nil, nil, nil, fmt.Errorf("truncated 64-bit length")
		}
		n, h = binary.BigEndian.Uint64(raw[2:]), 10
		if n < 65536 || n>>63 != 0 {
			return nil, nil, nil, fmt.Errorf("64-bit length form used for %d bytes (not minimal / top bit set)", n)
		}
	}
	if uint64(len(raw)-h) < n {
		return nil, nil, nil, fmt.Errorf("frame announces %d payload bytes but only %d arrived; header % x, then %q", n, len(raw)-h, raw[:h], trunc(string(raw[h:]), 60))
	}
	return raw[:h], raw[h : h+int(n)], raw[h+int(n):], nil
}

// wsOneShot runs one command over a fresh WebSocket connection: the raw bytes after the
// handshake up to the close of the connection must be exactly one frame.
func wsOneShot(port int, args []string) (hdr, payload []byte, err error) {
	c, err := wsOpen(port, args)
	if err != nil {
		return nil, nil, err
	}
	defer c.close()
	c.c.SetReadDeadline(time.Now().Add(10 * time.Second))
	raw, err := io.ReadAll(c.r)
	if err != nil {
		return nil, nil, fmt.Errorf("reading the reply frame: %v", err)
	}
	hdr, payload, rest, err := parseFrame(raw)
	if err != nil {
		return nil, nil, err
	}
	if len(rest) != 0 {
		return nil, nil, fmt.Errorf("%d bytes after the frame: %q", len(rest), trunc(string(rest), 60))
	}
	return hdr, payload, nil
}

// readN reads exactly n bytes of a long-lived connection (short deadline: a frame that never
// completes must not stall the run).
func (c *wsConn) readN(n int) ([]byte, error) {
	c.c.SetReadDeadline(time.Now().Add(3 * time.Second))
	buf := make([]byte, n)
	m, err := io.ReadFull(c.r, buf)
	return buf[:m], err
}

// readFrame reads one frame of a long-lived connection.
func (c *wsConn) readFrame() (hdr, payload []byte, err error) {
	h, err := c.readN(2)
	if err != nil {
		return nil, nil, err
	}
	ext := 0
	switch h[1] & 0x7f {
	case 126:
		ext = 2
	case 127:
		ext = 8
	}
	e, err := c.readN(ext)
	if err != nil {
		return nil, nil, fmt.Errorf("truncated extended length: %v", err)
	}
	h = append(h, e...)
	var n uint64
	switch ext {
	case 0:
		n = uint64(h[1] & 0x7f)
	case 2:
		n = uint64(binary.BigEndian.Uint16(h[2:]))
	default:
		n = binary.BigEndian.Uint64(h[2:])
	}
	if n > 1<<24 {
		return nil, nil, fmt.Errorf("frame announces %d payload bytes (header % x)", n, h)
	}
	p, err := c.readN(int(n))
	if err != nil {
		return nil, nil, fmt.Errorf("frame announces %d payload bytes but only %d arrived (header % x, then %q): %v", n, len(p), h, trunc(string(p), 60), err)
	}
	raw := append(append([]byte{}, h...), p...)
	hdr, payload, _, err = parseFrame(raw)
	return hdr, payload, err
}

// ---- the WebSocket part of the black box ----

// wsHeaderModel asks the extracted Coq model for ws_header n.
func wsHeaderModel(drv *model.Driver, n int) string {
	return model.U(drv.Ask("ws_header", fmt.Sprint(n)))
}

func (b *bb) wsFail(sig, what string, args []string, impl, mod interface{}) {
	kind := "oracle"
	if sig == "ws-header-model" || sig == "ws-frame-model" {
		kind = "correspondence"
	}
	b.r.Fail(hxFailure(kind, sig, what, map[string]interface{}{"transport": "websocket", "args": q(args)}, impl, mod))
}

// wsCheckDoc: frame header = model header for that payload length; payload = one reply document.
func (b *bb) wsCheckDoc(drv *model.Driver, args []string, hdr, payload []byte) (jdoc, bool) {
	if want := wsHeaderModel(drv, len(payload)); want != string(hdr) {
		b.wsFail("ws-header-model", fmt.Sprintf("WriteWebSocketMessage header for a %d byte payload is % x, Model.WsFrame.ws_header gives % x", len(payload), hdr, want), args, fmt.Sprintf("% x", hdr), fmt.Sprintf("% x", want))
	}
	d, sig, what := checkJSONDoc(string(payload))
	if sig != "" {
		b.wsFail("ws-"+sig, "websocket: "+what+": "+trunc(string(payload), 300), args, string(payload), nil)
		return d, false
	}
	return d, true
}

// wsSizes drives reply documents and pushed messages across the frame-length boundaries.
func (b *bb) wsSizes(drv *model.Driver) {
	port := b.sa.Port
	seen := map[int]int{}
	// (a) replies of ECHO around 125/126/127: the elapsed text varies, so correct the payload size
	//     after every reply until each target size has been observed a few times
	small := []int{123, 124, 125, 126, 127, 128, 129}
	pad := 80
	target := 0
	for attempt := 0; attempt < 400; attempt++ {
		done := true
		for _, t := range small {
			if seen[t] < 3 {
				done, target = false, t
				break
			}
		}
		if done {
			break
		}
		args := []string{"ECHO", strings.Repeat("x", pad)}
		hdr, payload, err := wsOneShot(port, args)
		b.r.Count(fmt.Sprintf("ws|echo|%d", pad), true)
		b.r.Dist("transport:websocket-sized")
		if err != nil {
			b.wsFail("ws-frame-invalid", fmt.Sprintf("websocket reply to ECHO with a %d byte argument (aiming at a %d byte reply) is not one well-formed frame: %v", pad, target, err), []string{"ECHO", fmt.Sprintf("x*%d", pad)}, nil, nil)
			seen[target]++ // do not insist on a size the server cannot frame
			continue
		}
		d, ok := b.wsCheckDoc(drv, []string{"ECHO", fmt.Sprintf("x*%d", pad)}, hdr, payload)
		if ok {
			if s, _ := jstr(d.M["echo"]); s != args[1] || !d.OK {
				b.wsFail("ws-reply-wrong", "websocket ECHO reply does not carry the argument", args, string(payload), nil)
			}
		}
		seen[len(payload)]++
		pad += target - len(payload)
		if seen[target] >= 3 || pad < 1 {
			pad = 80
		}
	}
	// (b) replies of GET of a string object around 65535/65536 (16-bit / 64-bit forms)
	big := []int{65533, 65534, 65535, 65536, 65537, 65538}
	n := 65490
	for attempt := 0; attempt < 60; attempt++ {
		done := true
		for _, t := range big {
			if seen[t] < 1 {
				done, target = false, t
				break
			}
		}
		if done {
			break
		}
		if v, err := b.ja.do("SET", "wsbig", "s", "STRING", strings.Repeat("y", n)); err != nil || !strings.Contains(v.Str, `"ok":true`) {
			b.wsFail("reply-missing", fmt.Sprintf("SET of a %d byte string: %v %s", n, err, trunc(v.String(), 80)), []string{"SET", "wsbig", "s", "STRING", fmt.Sprintf("y*%d", n)}, nil, nil)
			break
		}
		args := []string{"GET", "wsbig", "s"}
		hdr, payload, err := wsOneShot(port, args)
		b.r.Count(fmt.Sprintf("ws|get-big|%d", n), true)
		b.r.Dist("transport:websocket-sized")
		if err != nil {
			b.wsFail("ws-frame-invalid", fmt.Sprintf("websocket reply to GET of a %d byte string (aiming at a %d byte reply) is not one well-formed frame: %v", n, target, err), args, nil, nil)
			seen[target]++
			continue
		}
		if d, ok := b.wsCheckDoc(drv, args, hdr, payload); ok {
			if s, _ := jstr(d.M["object"]); len(s) != n {
				b.wsFail("ws-reply-wrong", "websocket GET reply does not carry the stored string", args, trunc(string(payload), 200), nil)
			}
		}
		seen[len(payload)]++
		n += target - len(payload)
	}
	b.ja.do("DROP", "wsbig")
	// (c) pushed messages of EXACT sizes on a long-lived SUBSCRIBE connection: the frame must be
	//     byte for byte the model's ws_frame of the message (a JSON document is pushed as it is)
	sub, err := wsOpen(port, []string{"SUBSCRIBE", "wschan"})
	if err != nil {
		b.wsFail("ws-frame-invalid", "SUBSCRIBE over websocket: "+err.Error(), []string{"SUBSCRIBE", "wschan"}, nil, nil)
		return
	}
	defer sub.close()
	if hdr, payload, err := sub.readFrame(); err != nil {
		b.wsFail("ws-frame-invalid", "SUBSCRIBE acknowledgement over websocket: "+err.Error(), []string{"SUBSCRIBE", "wschan"}, nil, nil)
		return
	} else {
		b.wsCheckDoc(drv, []string{"SUBSCRIBE", "wschan"}, hdr, payload)
	}
	sizes := []int{}
	for s := 20; s <= 132; s++ {
		sizes = append(sizes, s)
	}
	sizes = append(sizes, 255, 256, 257, 1000, 65534, 65535, 65536, 65537, 70000)
	skeleton := `{"ok":true,"pad":""}`
	for _, size := range sizes {
		msg := `{"ok":true,"pad":"` + strings.Repeat("p", size-len(skeleton)) + `"}`
		args := []string{"PUBLISH", "wschan", fmt.Sprintf("<%d byte JSON document>", size)}
		if v, err := b.ja.do("PUBLISH", "wschan", msg); err != nil || !strings.Contains(v.Str, `"published":1`) {
			b.wsFail("reply-missing", fmt.Sprintf("PUBLISH: %v %s", err, trunc(v.String(), 100)), args, nil, nil)
			return
		}
		want := wsHeaderModel(drv, size) + msg
		got, err := sub.readN(len(want))
		b.r.Count(fmt.Sprintf("ws|push|%d", size), true)
		b.r.Dist("transport:websocket-push")
		if err != nil || string(got) != want {
			b.wsFail("ws-frame-model", fmt.Sprintf("a pushed message of exactly %d bytes is framed as % x… (%d bytes arrived, %v); Model.WsFrame.ws_frame gives % x…", size, got[:min(len(got), 12)], len(got), err, want[:min(len(want), 12)]),
				args, fmt.Sprintf("% x", got[:min(len(got), 12)]), fmt.Sprintf("% x", want[:min(len(want), 12)]))
			// the stream is out of step now: judge it with the strict parser on a fresh connection below
			break
		}
		if _, payload, _, err := parseFrame(got); err != nil || !json.Valid(payload) || !utf8.Valid(payload) {
			b.wsFail("ws-frame-invalid", fmt.Sprintf("pushed message of %d bytes: %v", size, err), args, nil, nil)
		}
		if drv.Ask("ws_decode", model.H(string(got))) != model.H(msg) {
			b.wsFail("ws-frame-model", fmt.Sprintf("Model.WsFrame.ws_decode does not return the %d byte payload of the real frame", size), args, nil, nil)
		}
	}
	b.r.Extra["websocket_sizes_seen"] = fmt.Sprint(seen)
}

var _ = srv.Encode
