package main

// C17 — every reply is well-formed, and RESP and JSON outputs agree.
//
// Direct oracle (black box): two servers built from /repo's working tree receive the same
// command stream, one over a connection in OUTPUT json mode and one in OUTPUT resp mode.
// Every JSON reply must be ONE valid UTF-8 JSON document with a boolean "ok" (and a string
// "err" when false); every RESP reply must parse with a strict RESP2 reader and leave the
// stream in sync; the two replies must convey the same result (agree.go).  A sample of the
// read-only cases is repeated over telnet lines, the native `$n ` framing and HTTP GET/POST.
//
// Correspondence: Model/Json.v json_string (extracted OCaml) against jsonString /
// appendJSONString of internal/server; valid_json against encoding/json.Valid; and the
// reply templates regenerated from the source against the committed coq/Gen/Templates.v.

import (
	"crypto/sha1"
	"encoding/hex"
	"fmt"
	"math/rand"
	"os"
	"path/filepath"
	"sort"
	"strings"

	"verifharness/internal/hx"
	"verifharness/internal/model"
	"verifharness/internal/srv"
	"verifharness/internal/tmplx"
)

func main() { hx.Main("C17", runC17) }

func sha1hex(s string) string {
	h := sha1.Sum([]byte(s))
	return hex.EncodeToString(h[:])
}

var dump = os.Getenv("C17_DUMP") != ""

type bb struct {
	r    *hx.Result
	cfg  hx.Config
	rng  *rand.Rand
	sa   *srv.Server // JSON side
	sb   *srv.Server // RESP side
	ja   *rconn      // RESP socket, OUTPUT json, on sa
	rb   *rconn      // RESP socket, OUTPUT resp, on sb
	ta   *rconn      // telnet lines, OUTPUT json, on sa
	na   *rconn      // native framing on sa (JSON by default)
	tb   *rconn      // telnet lines on sb (RESP)
	nb   *rconn      // native framing + OUTPUT resp on sb
	st   *state
	drv  *model.Driver
	tm   *tmplx.Output
	seq  int
	dead bool
}

func q(args []string) string {
	var sb strings.Builder
	for i, a := range args {
		if i > 0 {
			sb.WriteByte(' ')
		}
		sb.WriteString(fmt.Sprintf("%q", a))
	}
	return sb.String()
}

func trunc(s string, n int) string {
	if len(s) > n {
		return s[:n] + "…"
	}
	return s
}

func (b *bb) fail(sig, what string, args []string, impl, other interface{}) {
	b.r.Fail(hx.Failure{Kind: "oracle", Signature: sig, What: what,
		Case: map[string]interface{}{"state": b.st.Name, "args": q(args)}, Impl: impl, Model: other})
}

// classify refines the signature of an invalid JSON document so that each defect class has its own.
func (b *bb) classify(sig, cmd, raw string) string {
	if sig != "json-invalid" {
		return sig
	}
	if strings.HasPrefix(cmd, "eval") {
		switch {
		case strings.Contains(raw, "Unsupported lua type"):
			return "json-invalid-script-unsupported-type"
		case hasNonFiniteToken(raw):
			return "json-invalid-script-nonfinite-number"
		}
		return "json-invalid-script-result"
	}
	if hasNonFiniteToken(raw) {
		// F15 family: a NaN / Inf token printed as a JSON number
		if b.st.NonFinite {
			return "json-invalid-nonfinite-coordinate"
		}
		return "json-invalid-nonfinite-argument-" + cmd
	}
	return "json-invalid-" + cmd
}

func (b *bb) connect() error {
	var err error
	open := func(s *srv.Server, pre ...[]byte) (*rconn, error) {
		c, err := dialRaw(s.Port)
		if err != nil {
			return nil, err
		}
		for _, p := range pre {
			if err := c.write(p); err != nil {
				return nil, err
			}
		}
		return c, nil
	}
	if b.ja, err = open(b.sa); err != nil {
		return err
	}
	if v, err := b.ja.do("OUTPUT", "json"); err != nil || v.Kind != '$' {
		return fmt.Errorf("OUTPUT json: %v %v", v, err)
	}
	if b.rb, err = open(b.sb); err != nil {
		return err
	}
	if v, err := b.rb.do("OUTPUT", "resp"); err != nil || v.Str != "OK" {
		return fmt.Errorf("OUTPUT resp: %v %v", v, err)
	}
	if b.ta, err = open(b.sa); err != nil {
		return err
	}
	if v, err := b.ta.telnet("OUTPUT", "json"); err != nil || v.Kind != '$' {
		return fmt.Errorf("telnet OUTPUT json: %v %v", v, err)
	}
	if b.na, err = open(b.sa); err != nil {
		return err
	}
	if b.tb, err = open(b.sb); err != nil {
		return err
	}
	if b.nb, err = open(b.sb); err != nil {
		return err
	}
	if body, err := b.nb.native("OUTPUT", "resp"); err != nil || body != "+OK\r\n" {
		return fmt.Errorf("native OUTPUT resp: %q %v", body, err)
	}
	return nil
}

var mutating = map[string]bool{"set": true, "fset": true, "del": true, "pdel": true, "drop": true, "flushdb": true, "rename": true,
	"renamenx": true, "expire": true, "persist": true, "jset": true, "jdel": true, "sethook": true, "setchan": true, "delhook": true,
	"delchan": true, "pdelhook": true, "pdelchan": true, "eval": true, "evalsha": true, "evalna": true, "evalnasha": true,
	"script": true, "config": true, "timeout": true, "readonly": true, "follow": true, "client": true, "evalro": false}

// reset brings both servers to the state b.st (replies of the set-up commands are checked too).
func (b *bb) reset() {
	pre := [][]string{{"FLUSHDB"}, {"PDELHOOK", "*"}, {"PDELCHAN", "*"}, {"SCRIPT", "FLUSH"}, {"SCRIPT", "LOAD", "return {ARGV[1], 5}"}}
	for _, args := range append(pre, b.st.Setup...) {
		b.pair(args, false, true)
		if b.dead {
			return
		}
	}
}

// one: send args on c (RESP framing) and return the raw reply value.
func (b *bb) serverGone(which string, args []string, err error) {
	if b.dead {
		return
	}
	b.dead = true
	s := b.sa
	if which == "resp" {
		s = b.sb
	}
	what := fmt.Sprintf("transport error on the %s-mode connection after %s: %v", which, q(args), err)
	if !s.Alive() {
		what = fmt.Sprintf("server process exited on %s (%s mode): %s", q(args), which, trunc(s.LogTail(300), 300))
	}
	b.fail("reply-missing", what, args, nil, nil)
}

// pair runs one case on both servers and applies the oracle.
func (b *bb) pair(args []string, count bool, setup bool) (jdoc, srv.Value) {
	b.seq++
	cmd := strings.ToLower(args[0])
	nonce := fmt.Sprintf("sync-%d", b.seq)

	// JSON side
	jv, err := b.ja.do(args...)
	if err != nil {
		b.serverGone("json", args, err)
		return jdoc{}, srv.Value{}
	}
	var jd jdoc
	jok := false
	if jv.Kind != '$' {
		b.fail("json-framing", "JSON-mode reply on a RESP socket is not a bulk string: "+trunc(jv.String(), 200), args, jv.String(), nil)
	} else {
		var sig, what string
		jd, sig, what = checkJSONDoc(jv.Str)
		if sig != "" {
			b.fail(b.classify(sig, cmd, jv.Str), what+": "+trunc(jv.Str, 300), args, jv.Str, nil)
		} else {
			jok = true
			keepReply(jv.Str)
		}
	}
	if ev, err := b.ja.do("ECHO", nonce); err != nil {
		b.serverGone("json", args, err)
		return jd, srv.Value{}
	} else if !strings.Contains(ev.Str, `"echo":"`+nonce+`"`) {
		b.fail("json-desync", "the JSON-mode reply stream is out of step after this command: next reply "+trunc(ev.String(), 200), args, ev.String(), nil)
		b.dead = true
		return jd, srv.Value{}
	}

	// RESP side
	rv, err := b.rb.do(args...)
	if err != nil {
		if strings.Contains(err.Error(), "RESP") {
			b.fail("resp-invalid", "RESP-mode reply is not valid RESP: "+err.Error(), args, err.Error(), nil)
			b.dead = true
		} else {
			b.serverGone("resp", args, err)
		}
		return jd, srv.Value{}
	}
	// the reply, as raw bytes, must be in the image of the modelled printer (Model/RespOut.v):
	// the extracted strict parser accepts exactly these bytes, printing the parsed value gives
	// them back, and the value is the one the harness's own reader saw
	raw := string(b.rb.cap.Bytes())
	if got := b.drv.Ask("resp_image", model.H(raw)); got != "1 "+canonRESP(rv) {
		b.r.Fail(hx.Failure{Kind: "correspondence", Signature: "resp-print-model", What: "a RESP-mode reply is not in the image of Model.RespOut.resp_print (or parses to a different value): " + trunc(fmt.Sprintf("%q", raw), 200),
			Case: map[string]interface{}{"state": b.st.Name, "args": q(args)}, Impl: trunc(canonRESP(rv), 300), Model: trunc(got, 300)})
	}
	b.r.Dist("model:resp_image")
	if ev, err := b.rb.do("ECHO", nonce); err != nil {
		b.serverGone("resp", args, err)
		return jd, rv
	} else if ev.Kind != '$' || ev.Str != nonce {
		b.fail("resp-desync", "the RESP-mode reply stream is out of step after this command: next reply "+trunc(ev.String(), 200), args, ev.String(), nil)
		b.dead = true
		return jd, rv
	}
	if dump {
		fmt.Printf("[%s] %s\n   J %s\n   R %s\n", b.st.Name, q(args), trunc(jv.Str, 600), trunc(rv.String(), 600))
	}
	if jok && b.tm != nil {
		// the reply must be an instance of one of the templates the theorems are about
		sites, what := b.tm.Docs, "whole-document templates"
		inner := cmd
		if cmd == "timeout" && len(args) > 2 && jd.OK {
			inner = strings.ToLower(args[2])
		}
		switch inner {
		case "scan", "search", "nearby", "within", "intersects":
			if jd.OK {
				sites, what = b.tm.ScanDocs, "scanWriter templates"
			}
		}
		b.r.Dist("model:inst-match")
		if tmplx.MatchAny(sites, jv.Str) < 0 {
			b.r.Fail(hx.Failure{Kind: "correspondence", Signature: "reply-not-instance-" + inner, What: "a real JSON reply is not an instance of any of the regenerated " + what + " (coq/Gen/Templates.v): " + trunc(jv.Str, 300),
				Case: map[string]interface{}{"state": b.st.Name, "args": q(args)}, Impl: trunc(jv.Str, 400)})
		}
	}
	if jok {
		b.scanModel(cmd, args, jd, rv)
	}
	if jok {
		if why := agree(cmd, args, jd, rv, b.st); why != "" {
			sig := "modes-disagree-" + cmd
			if strings.HasPrefix(why, "json-path-field: ") {
				sig = "modes-disagree-scan-json-path-field"
			} else if b.st.NonFinite && (hasNonFiniteToken(rv.String()) || strings.Contains(jd.Raw, "null")) {
				sig = "modes-disagree-nonfinite-coordinate"
			}
			b.fail(sig, "JSON and RESP replies convey different results: "+why, args, trunc(jd.Raw, 500), trunc(rv.String(), 500))
		}
	}
	if count {
		key := b.st.Name + "|" + q(args)
		nontrivial := jok && jd.OK && len(jd.M) > 2 || (jok && jd.OK && mutating[cmd])
		b.r.Count(key, nontrivial)
		kind := "reply:ok"
		if jok && !jd.OK {
			kind = "reply:err"
		}
		b.r.Dist(kind)
		b.r.Dist("cmd:" + cmd)
		if nontrivial {
			b.r.Sample(6, map[string]string{"state": b.st.Name, "args": q(args), "json": trunc(jd.Raw, 240), "resp": trunc(rv.String(), 240)})
		}
	}
	return jd, rv
}

// others repeats a read-only case over the remaining transports and compares with the
// replies obtained on the RESP sockets.
func (b *bb) others(args []string, jd jdoc, rv srv.Value) {
	cmpJSON := func(tr, body string) {
		d, sig, what := checkJSONDoc(body)
		if sig != "" {
			b.fail(b.classify(sig, strings.ToLower(args[0]), body), tr+": "+what+": "+trunc(body, 300), args, body, nil)
			return
		}
		b.r.Count(b.st.Name+"|"+tr+"|"+q(args), false)
		b.r.Dist("transport:" + tr)
		if jd.M == nil || volatileCmd(args) {
			return
		}
		if a, c := stripElapsed(d), stripElapsed(jd); a != c {
			b.fail("transport-disagree", fmt.Sprintf("%s reply differs from the RESP-socket JSON reply: %s vs %s", tr, trunc(a, 300), trunc(c, 300)), args, a, c)
		}
	}
	if plainSafe(args, false) {
		if v, err := b.ta.telnet(args...); err != nil {
			b.fail("reply-missing", "telnet (json): "+err.Error(), args, nil, nil)
			b.dead = true
			return
		} else if v.Kind != '$' {
			b.fail("json-framing", "telnet JSON-mode reply is not a bulk string: "+trunc(v.String(), 200), args, v.String(), nil)
		} else {
			cmpJSON("telnet", v.Str)
		}
		if v, err := b.tb.telnet(args...); err != nil {
			b.fail("resp-invalid", "telnet (resp): "+err.Error(), args, nil, nil)
			b.dead = true
			return
		} else {
			b.r.Count(b.st.Name+"|telnet-resp|"+q(args), false)
			b.r.Dist("transport:telnet-resp")
			if !volatileCmd(args) && v.String() != rv.String() {
				b.fail("transport-disagree", "telnet RESP reply differs from the RESP-socket reply: "+trunc(v.String(), 300)+" vs "+trunc(rv.String(), 300), args, v.String(), rv.String())
			}
		}
	}
	if plainSafe(args, true) {
		if body, err := b.na.native(args...); err != nil {
			b.fail("reply-missing", "native: "+err.Error(), args, nil, nil)
			b.dead = true
			return
		} else {
			cmpJSON("native", body)
		}
		if body, err := b.nb.native(args...); err != nil {
			b.fail("reply-missing", "native (resp): "+err.Error(), args, nil, nil)
			b.dead = true
			return
		} else if v, err := parseRESPExact([]byte(body)); err != nil {
			b.fail("resp-invalid", "native framing, OUTPUT resp: payload is not one RESP value: "+err.Error(), args, body, nil)
		} else {
			b.r.Count(b.st.Name+"|native-resp|"+q(args), false)
			b.r.Dist("transport:native-resp")
			if !volatileCmd(args) && v.String() != rv.String() {
				b.fail("transport-disagree", "native RESP reply differs from the RESP-socket reply: "+trunc(v.String(), 300)+" vs "+trunc(rv.String(), 300), args, v.String(), rv.String())
			}
		}
		if hdr, payload, err := wsOneShot(b.sa.Port, args); err != nil {
			b.wsFail("ws-frame-invalid", "websocket reply is not one well-formed frame: "+err.Error(), args, nil, nil)
		} else {
			if want := wsHeaderModel(b.drv, len(payload)); want != string(hdr) {
				b.wsFail("ws-header-model", fmt.Sprintf("frame header for a %d byte payload is % x, Model.WsFrame.ws_header gives % x", len(payload), hdr, want), args, fmt.Sprintf("% x", hdr), fmt.Sprintf("% x", want))
			}
			cmpJSON("websocket", string(payload))
		}
		for _, post := range []bool{false, true} {
			tr := "http-get"
			if post {
				tr = "http-post"
			}
			rep, err := httpDo(b.sa.Port, post, args)
			if err != nil {
				b.fail("http-invalid", tr+": "+err.Error(), args, nil, nil)
				continue
			}
			if !strings.HasSuffix(rep.Body, "\r\n") {
				b.fail("http-invalid", tr+": body does not end with CRLF", args, rep.Body, nil)
				continue
			}
			if !strings.HasPrefix(rep.ContentType, "application/json") {
				b.fail("http-invalid", tr+": content type "+rep.ContentType, args, rep.Body, nil)
			}
			cmpJSON(tr, strings.TrimSuffix(rep.Body, "\r\n"))
		}
	}
}

func stripElapsed(d jdoc) string {
	keys := make([]string, 0, len(d.M))
	for k := range d.M {
		if k != "elapsed" {
			keys = append(keys, k)
		}
	}
	sort.Strings(keys)
	var sb strings.Builder
	for _, k := range keys {
		sb.WriteString(k + "=" + string(d.M[k]) + ";")
	}
	return sb.String()
}

// replies that legitimately differ between two requests (clocks, counters, connection lists)
func volatileCmd(args []string) bool {
	switch strings.ToLower(args[0]) {
	case "server", "info", "client", "ttl", "stats", "config", "role", "aofmd5", "healthz":
		return true
	}
	return false
}

type cmdSpec struct {
	Name  string
	Words int
}

func commandTable() []cmdSpec {
	names := loadCommandsJSON()
	extra := []string{"JGET", "JSET", "JDEL", "TEST", "TYPE", "ECHO", "INFO", "ROLE", "HEALTHZ", "CLIENT", "PUBLISH", "REPLCONF",
		"HELLO", "COMMAND", "NOSUCHCMD", "SLEEP", "MASSINSERT", "MONITOR", "FEXISTS", "EXISTS", "EVALRO", "EVALROSHA"}
	seen := map[string]bool{}
	var out []cmdSpec
	for _, n := range append(names, extra...) {
		if seen[n] {
			continue
		}
		seen[n] = true
		out = append(out, cmdSpec{Name: n, Words: len(strings.Split(n, " "))})
	}
	sort.Slice(out, func(i, j int) bool { return out[i].Name < out[j].Name })
	return out
}

func runBlackBox(r *hx.Result, cfg hx.Config, rng *rand.Rand, drv *model.Driver) {
	b := &bb{r: r, cfg: cfg, rng: rng, drv: drv}
	if tm, err := tmplx.Extract(repoDir()); err == nil {
		b.tm = tm
	}
	var err error
	b.sa, err = srv.Start(filepath.Join(cfg.Work, "c17-json"), "--appendonly", "yes")
	if err != nil {
		panic(err)
	}
	defer b.sa.Kill()
	b.sb, err = srv.Start(filepath.Join(cfg.Work, "c17-resp"), "--appendonly", "yes")
	if err != nil {
		panic(err)
	}
	defer b.sb.Kill()
	if err := b.connect(); err != nil {
		panic(err)
	}
	rounds := 2
	if cfg.Tier == "thorough" {
		rounds = 25
	}
	if cfg.Search {
		rounds = 12
	}
	table := commandTable()
	r.Extra["commands"] = len(table)
	states := buildStates()
	b.st = states[0]
	special(b)
	b.wsSizes(drv)
	b.pipelines()
	b.pubsubPayloads()
	b.keyspaceModes()
	b.mvtTiles()
	b.helloModes()
	b.clientList()
	for _, st := range states {
		b.st = st
		b.reset()
		dirty := false
		for round := 0; round < rounds && !b.dead; round++ {
			for _, c := range table {
				p := pick{rng: rng, st: st}
				valids := validShapes(c.Name, p)
				var cases []shape
				for _, v := range valids {
					if !noValidOnShared[c.Name] {
						cases = append(cases, shape{v, "valid"})
					}
				}
				for _, iv := range invalidShapes(valids[rng.Intn(len(valids))], c.Words, p) {
					cases = append(cases, shape{iv, "invalid"})
				}
				for _, cs := range cases {
					if b.dead {
						break
					}
					if len(cs.Args) == 0 || cs.Args[0] == "" || dangerous(cs.Args) {
						r.Dist("skipped:dangerous-or-empty")
						continue
					}
					if dirty {
						b.reset()
						dirty = false
					}
					r.Dist("shape:" + cs.Kind)
					r.Dist("state:" + st.Name)
					jd, rv := b.pair(cs.Args, true, false)
					w := strings.ToLower(cs.Args[0])
					if mutating[w] {
						dirty = true
					} else if !b.dead && (round == 0 || rng.Intn(4) == 0) && w != "output" && w != "evalro" && w != "evalrosha" {
						b.others(cs.Args, jd, rv)
					}
				}
			}
		}
		if b.dead {
			break
		}
	}
}

func runC17(r *hx.Result, cfg hx.Config) {
	r.Rule = "black box: (state, command, argument shape) triples over the whole command table (core/commands.json + undocumented dispatch entries) sent to two identical servers, one connection in OUTPUT json and one in OUTPUT resp, plus telnet / native / HTTP GET / HTTP POST / WebSocket repeats of read-only cases; non-trivial = distinct (state, argument list) whose JSON reply is ok:true and carries a payload or changes state. model: jsonString/appendJSONString vs extracted json_string on strings over an alphabet of quotes, backslashes, control bytes, <>&, U+2028/9, DEL, multi-byte and invalid UTF-8; valid_json vs encoding/json.Valid on replies and mutated replies."
	r.Assumptions = []string{
		"encoding/json (Valid/Unmarshal) and unicode/utf8 of the Go toolchain are the independent JSON / UTF-8 judges; the harness's own strict RESP2 reader judges RESP",
		"two servers started from empty directories and fed the same commands hold the same state (no clocks involved except TTL/EX, compared as classes)",
		"library-produced JSON values (geojson AppendJSON / String, encoding/json.Marshal, gjson/sjson/pretty, field.Value.JSON) are valid JSON values for finite numbers: typed HJson in the templates, checked on every black-box reply",
	}
	rng := rand.New(rand.NewSource(cfg.Seed))
	drv, err := model.Start("json")
	if err != nil {
		panic(err)
	}
	defer drv.Close()
	runBlackBox(r, cfg, rng, drv)
	runModel(r, cfg, rng, drv)
	runTemplates(r, cfg)
}
