package main

// Transports of tile38 (RESP socket, telnet lines, native `$n payload`, HTTP GET/POST) and the
// independent parsers of the direct oracle: a strict RESP reader and the JSON document checks.

import (
	"bufio"
	"bytes"
	"encoding/json"
	"fmt"
	"io"
	"net"
	"net/url"
	"strconv"
	"strings"
	"time"
	"unicode/utf8"

	"verifharness/internal/model"
	"verifharness/internal/srv"
)

// ---------- strict RESP reader over a byte stream ----------

type rconn struct {
	c   net.Conn
	r   *bufio.Reader
	cap bytes.Buffer // every byte received since the last request (requests are answered one at a time)
}

func dialRaw(port int) (*rconn, error) {
	c, err := net.DialTimeout("tcp", "127.0.0.1:"+strconv.Itoa(port), 2*time.Second)
	if err != nil {
		return nil, err
	}
	rc := &rconn{c: c}
	rc.r = bufio.NewReaderSize(io.TeeReader(c, &rc.cap), 1<<16)
	return rc, nil
}

func (c *rconn) close() { c.c.Close() }

func (c *rconn) write(b []byte) error {
	c.c.SetWriteDeadline(time.Now().Add(10 * time.Second))
	_, err := c.c.Write(b)
	return err
}

// readLine reads up to CRLF; a bare LF or a CR not followed by LF inside the line is a RESP violation.
func readCRLF(r *bufio.Reader) (string, error) {
	line, err := r.ReadString('\n')
	if err != nil {
		return "", err
	}
	if len(line) < 2 || line[len(line)-2] != '\r' {
		return "", fmt.Errorf("RESP line terminated by bare LF: %q", line)
	}
	line = line[:len(line)-2]
	if strings.ContainsAny(line, "\r\n") {
		return "", fmt.Errorf("RESP line contains CR/LF: %q", line)
	}
	return line, nil
}

func strictInt(s string) (int64, error) {
	if s == "" {
		return 0, fmt.Errorf("empty integer")
	}
	t := s
	if t[0] == '-' || t[0] == '+' {
		t = t[1:]
	}
	if t == "" {
		return 0, fmt.Errorf("bad integer %q", s)
	}
	for i := 0; i < len(t); i++ {
		if t[i] < '0' || t[i] > '9' {
			return 0, fmt.Errorf("bad integer %q", s)
		}
	}
	return strconv.ParseInt(s, 10, 64)
}

// readRESP parses exactly one RESP2 value (strictly) from r.
func readRESP(r *bufio.Reader, depth int) (srv.Value, error) {
	if depth > 64 {
		return srv.Value{}, fmt.Errorf("RESP nesting too deep")
	}
	t, err := r.ReadByte()
	if err != nil {
		return srv.Value{}, err
	}
	switch t {
	case '+', '-', ':', '$', '*':
	default:
		rest, _ := r.Peek(min(r.Buffered(), 60))
		return srv.Value{}, fmt.Errorf("bad RESP type byte %q (followed by %q)", t, rest)
	}
	line, err := readCRLF(r)
	if err != nil {
		return srv.Value{}, err
	}
	switch t {
	case '+', '-':
		return srv.Value{Kind: t, Str: line}, nil
	case ':':
		n, err := strictInt(line)
		if err != nil {
			return srv.Value{}, fmt.Errorf("RESP integer: %v", err)
		}
		return srv.Value{Kind: ':', Int: n}, nil
	case '$':
		n, err := strictInt(line)
		if err != nil {
			return srv.Value{}, fmt.Errorf("RESP bulk length: %v", err)
		}
		if n == -1 {
			return srv.Value{Kind: 'n'}, nil
		}
		if n < 0 {
			return srv.Value{}, fmt.Errorf("RESP bulk length %d", n)
		}
		buf := make([]byte, n+2)
		if _, err := io.ReadFull(r, buf); err != nil {
			return srv.Value{}, err
		}
		if buf[n] != '\r' || buf[n+1] != '\n' {
			return srv.Value{}, fmt.Errorf("RESP bulk of length %d not terminated by CRLF", n)
		}
		return srv.Value{Kind: '$', Str: string(buf[:n])}, nil
	default:
		n, err := strictInt(line)
		if err != nil {
			return srv.Value{}, fmt.Errorf("RESP array length: %v", err)
		}
		if n == -1 {
			return srv.Value{Kind: 'n'}, nil
		}
		if n < 0 {
			return srv.Value{}, fmt.Errorf("RESP array length %d", n)
		}
		arr := make([]srv.Value, 0, n)
		for i := int64(0); i < n; i++ {
			e, err := readRESP(r, depth+1)
			if err != nil {
				return srv.Value{}, err
			}
			arr = append(arr, e)
		}
		return srv.Value{Kind: '*', Array: arr}, nil
	}
}

// parseRESPExact parses b as exactly one RESP value with nothing after it.
func parseRESPExact(b []byte) (srv.Value, error) {
	r := bufio.NewReader(bytes.NewReader(b))
	v, err := readRESP(r, 0)
	if err != nil {
		return v, err
	}
	if r.Buffered() > 0 {
		rest, _ := r.Peek(min(r.Buffered(), 60))
		return v, fmt.Errorf("bytes after the RESP value: %q", rest)
	}
	if _, err := r.ReadByte(); err != io.EOF {
		return v, fmt.Errorf("bytes after the RESP value")
	}
	return v, nil
}

func (c *rconn) readValue() (srv.Value, error) {
	c.c.SetReadDeadline(time.Now().Add(15 * time.Second))
	return readRESP(c.r, 0)
}

// do sends one RESP-framed command and reads one value.
func (c *rconn) do(args ...string) (srv.Value, error) {
	c.cap.Reset()
	if err := c.write(srv.Encode(args...)); err != nil {
		return srv.Value{}, err
	}
	return c.readValue()
}

// ---------- other transports ----------

// plainSafe says whether the argument list can be carried by the space-separated transports
// (telnet line, native payload, HTTP path) without changing its meaning.
func plainSafe(args []string, allowBrace bool) bool {
	for i, a := range args {
		if a == "" {
			return false
		}
		for j := 0; j < len(a); j++ {
			ch := a[j]
			if ch == ' ' || ch == '"' || ch == '\'' || ch == '\r' || ch == '\n' || ch == 0 {
				if allowBrace && i == len(args)-1 && a[0] == '{' && ch != '\r' && ch != '\n' && ch != 0 {
					continue
				}
				return false
			}
		}
		if a[0] == '{' && !(allowBrace && i == len(args)-1) {
			return false
		}
		if a[0] == '$' || a[0] == '*' {
			return false
		}
	}
	return len(args) > 0
}

func (c *rconn) telnet(args ...string) (srv.Value, error) {
	if err := c.write([]byte(strings.Join(args, " ") + "\r\n")); err != nil {
		return srv.Value{}, err
	}
	return c.readValue()
}

// native sends `$<n> <payload>\r\n` and reads `$<n> <body>\r\n`.
func (c *rconn) native(args ...string) (string, error) {
	p := strings.Join(args, " ")
	if err := c.write([]byte("$" + strconv.Itoa(len(p)) + " " + p + "\r\n")); err != nil {
		return "", err
	}
	c.c.SetReadDeadline(time.Now().Add(15 * time.Second))
	b, err := c.r.ReadByte()
	if err != nil {
		return "", err
	}
	if b != '$' {
		rest, _ := c.r.Peek(min(c.r.Buffered(), 60))
		return "", fmt.Errorf("native reply does not start with '$': %q%q", b, rest)
	}
	ns, err := c.r.ReadString(' ')
	if err != nil {
		return "", err
	}
	n, err := strictInt(ns[:len(ns)-1])
	if err != nil || n < 0 {
		return "", fmt.Errorf("native reply length %q", ns)
	}
	buf := make([]byte, n+2)
	if _, err := io.ReadFull(c.r, buf); err != nil {
		return "", err
	}
	if buf[n] != '\r' || buf[n+1] != '\n' {
		return "", fmt.Errorf("native reply of length %d not terminated by CRLF", n)
	}
	return string(buf[:n]), nil
}

type httpReply struct {
	Status      string
	ContentType string
	Body        string
}

// httpDo issues one HTTP/1.1 request on a fresh connection (the server closes after one reply).
func httpDo(port int, post bool, args []string) (httpReply, error) {
	c, err := dialRaw(port)
	if err != nil {
		return httpReply{}, err
	}
	defer c.close()
	var req string
	if post {
		body := strings.Join(args, " ")
		req = "POST / HTTP/1.1\r\nHost: x\r\nContent-Length: " + strconv.Itoa(len(body)) + "\r\n\r\n" + body
	} else {
		parts := make([]string, len(args))
		for i, a := range args {
			parts[i] = url.QueryEscape(a)
		}
		req = "GET /" + strings.Join(parts, "+") + " HTTP/1.1\r\nHost: x\r\n\r\n"
	}
	return httpExchange(c, req)
}

// httpGetPath issues GET <path> (already escaped) on a fresh connection: the vector-tile route /key/z/x/y.mvt
func httpGetPath(port int, path string) (httpReply, error) {
	c, err := dialRaw(port)
	if err != nil {
		return httpReply{}, err
	}
	defer c.close()
	return httpExchange(c, "GET "+path+" HTTP/1.1\r\nHost: x\r\n\r\n")
}

func httpExchange(c *rconn, req string) (httpReply, error) {
	if err := c.write([]byte(req)); err != nil {
		return httpReply{}, err
	}
	c.c.SetReadDeadline(time.Now().Add(15 * time.Second))
	status, err := readCRLF(c.r)
	if err != nil {
		return httpReply{}, fmt.Errorf("HTTP status line: %v", err)
	}
	if !strings.HasPrefix(status, "HTTP/1.1 ") {
		return httpReply{}, fmt.Errorf("bad HTTP status line %q", status)
	}
	rep := httpReply{Status: strings.TrimPrefix(status, "HTTP/1.1 ")}
	cl := -1
	for {
		h, err := readCRLF(c.r)
		if err != nil {
			return rep, fmt.Errorf("HTTP header: %v", err)
		}
		if h == "" {
			break
		}
		kv := strings.SplitN(h, ":", 2)
		if len(kv) != 2 {
			return rep, fmt.Errorf("bad HTTP header %q", h)
		}
		switch strings.ToLower(kv[0]) {
		case "content-length":
			n, err := strictInt(strings.TrimSpace(kv[1]))
			if err != nil {
				return rep, fmt.Errorf("bad Content-Length %q", kv[1])
			}
			cl = int(n)
		case "content-type":
			rep.ContentType = strings.TrimSpace(kv[1])
		}
	}
	if cl < 0 {
		return rep, fmt.Errorf("HTTP reply without Content-Length")
	}
	buf := make([]byte, cl)
	if _, err := io.ReadFull(c.r, buf); err != nil {
		return rep, fmt.Errorf("HTTP body shorter than Content-Length %d: %v", cl, err)
	}
	if extra, _ := io.ReadAll(c.r); len(extra) > 0 {
		return rep, fmt.Errorf("bytes after the HTTP body: %q", extra[:min(len(extra), 60)])
	}
	rep.Body = string(buf)
	return rep, nil
}

// ---------- JSON document oracle ----------

type jdoc struct {
	Raw string
	M   map[string]json.RawMessage
	OK  bool
	Err string
}

// checkJSONDoc: one valid JSON document (RFC 8259, UTF-8), an object with a boolean "ok",
// and a string "err" when ok is false.  Returns the class of the violation ("" = fine).
func checkJSONDoc(raw string) (jdoc, string, string) {
	d := jdoc{Raw: raw}
	if !json.Valid([]byte(raw)) {
		var x interface{}
		err := json.Unmarshal([]byte(raw), &x)
		return d, "json-invalid", fmt.Sprintf("not one valid JSON document: %v", err)
	}
	if !utf8.ValidString(raw) {
		return d, "json-not-utf8", "JSON document is not valid UTF-8"
	}
	if err := json.Unmarshal([]byte(raw), &d.M); err != nil || d.M == nil {
		return d, "json-not-object", "JSON reply is not an object"
	}
	okr, has := d.M["ok"]
	if !has {
		return d, "json-no-ok", `JSON reply has no "ok" member`
	}
	switch string(okr) {
	case "true":
		d.OK = true
	case "false":
		er, has := d.M["err"]
		if !has {
			return d, "json-no-err", `"ok":false without "err"`
		}
		if err := json.Unmarshal(er, &d.Err); err != nil {
			return d, "json-no-err", `"err" is not a string`
		}
	default:
		return d, "json-ok-not-bool", `"ok" is not a boolean: ` + string(okr)
	}
	return d, "", ""
}

// hasNonFiniteToken reports a NaN / Inf token outside JSON strings (the F15 shape).
func hasNonFiniteToken(raw string) bool {
	in := false
	for i := 0; i < len(raw); i++ {
		c := raw[i]
		if in {
			if c == '\\' {
				i++
			} else if c == '"' {
				in = false
			}
			continue
		}
		if c == '"' {
			in = true
			continue
		}
		if strings.HasPrefix(raw[i:], "NaN") || strings.HasPrefix(raw[i:], "Inf") {
			return true
		}
	}
	return false
}

// canonRESP renders a parsed reply in the format of the model driver's resp_image.
func canonRESP(v srv.Value) string {
	switch v.Kind {
	case '+':
		return "S:" + model.H(v.Str)
	case '-':
		return "E:" + model.H(v.Str)
	case ':':
		return "I:" + strconv.FormatInt(v.Int, 10)
	case '$':
		return "B:" + model.H(v.Str)
	case 'n':
		return "N"
	case '*':
		parts := make([]string, len(v.Array))
		for i, e := range v.Array {
			parts[i] = canonRESP(e)
		}
		return "A[" + strings.Join(parts, ",") + "]"
	}
	return "?"
}

func deadline(sec int) time.Time { return time.Now().Add(time.Duration(sec) * time.Second) }
