package main

import (
	"encoding/json"
	"os"
	"sort"
)

func repoDir() string {
	if p := os.Getenv("VERIF_REPO"); p != "" {
		return p
	}
	return "/repo"
}

// loadCommandsJSON returns the command names documented in /repo/core/commands.json.
func loadCommandsJSON() []string {
	b, err := os.ReadFile(repoDir() + "/core/commands.json")
	if err != nil {
		panic(err)
	}
	var m map[string]json.RawMessage
	if err := json.Unmarshal(b, &m); err != nil {
		panic(err)
	}
	var out []string
	for k := range m {
		out = append(out, k)
	}
	sort.Strings(out)
	return out
}
