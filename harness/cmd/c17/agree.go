package main

// agree: do the JSON-mode and the RESP-mode reply to the same command on the same state
// convey the same result?  Each side is projected onto what both modes carry (ids, objects,
// points, bounds, hashes, fields, distances, counts, cursors, key lists, booleans, error
// class); what only one mode carries (elapsed, the 0/1 result of DEL/PDEL/DROP/FSET/
// PERSIST/RENAMENX/DELHOOK... which JSON mode reduces to ok:true, the per-mode "not found"
// conventions nil / -2 / 0 / "none" vs an error document) is forgotten.  Returns "" or a reason.

import (
	"bytes"
	"encoding/json"
	"fmt"
	"regexp"
	"sort"
	"strconv"
	"strings"
	"unicode/utf8"

	"github.com/tidwall/tile38/verifapi"
	"verifharness/internal/srv"
)

// fixUTF8 is what encoding/json does to a Go string: every invalid byte becomes U+FFFD.
func fixUTF8(s string) string {
	if utf8.ValidString(s) {
		return s
	}
	var sb strings.Builder
	for i := 0; i < len(s); {
		r, n := utf8.DecodeRuneInString(s[i:])
		if r == utf8.RuneError && n == 1 {
			sb.WriteString("�")
		} else {
			sb.WriteString(s[i : i+n])
		}
		i += n
	}
	return sb.String()
}

var reWrongArgs = regexp.MustCompile(`^wrong number of arguments for '[^']*' command$`)

// normErr: the error text both modes should carry.
func normErr(s string, fromRESP bool) string {
	if fromRESP {
		s = strings.TrimPrefix(s, "ERR ")
		if reWrongArgs.MatchString(s) {
			s = "invalid number of arguments"
		}
	}
	b := []byte(fixUTF8(s))
	for i := range b {
		if b[i] < ' ' {
			b[i] = ' ' // resp.ErrorValue flattens control bytes to spaces (single-line contract)
		}
	}
	return string(b)
}

func hasWord(args []string, w string) bool {
	for _, a := range args[1:] {
		if strings.EqualFold(a, w) {
			return true
		}
	}
	return false
}

func jstr(raw json.RawMessage) (string, bool) {
	var s string
	if len(raw) > 0 && raw[0] == '"' && json.Unmarshal(raw, &s) == nil {
		return s, true
	}
	return "", false
}

func jsonEqual(a, b string) bool {
	var x, y interface{}
	da := json.NewDecoder(strings.NewReader(a))
	da.UseNumber()
	db := json.NewDecoder(strings.NewReader(b))
	db.UseNumber()
	if da.Decode(&x) != nil || db.Decode(&y) != nil {
		return false
	}
	xa, _ := json.Marshal(x)
	ya, _ := json.Marshal(y)
	return bytes.Equal(xa, ya)
}

func floatEq(a, b string) bool {
	if a == "null" || a == "" {
		// JSON has no NaN / Infinity: the server writes null where RESP prints NaN, +Inf, -Inf
		y, err := strconv.ParseFloat(b, 64)
		return err == nil && (y != y || y > 1.7e308 || y < -1.7e308)
	}
	x, e1 := strconv.ParseFloat(a, 64)
	y, e2 := strconv.ParseFloat(b, 64)
	return e1 == nil && e2 == nil && (x == y || (x != x && y != y))
}

// canonical text of a field value as RESP prints it (Value.Data()) from its JSON form
func fieldCanon(raw json.RawMessage) string {
	if s, ok := jstr(raw); ok {
		return s
	}
	return string(raw)
}

func bulk(v srv.Value) (string, bool) {
	if v.Kind == '$' || v.Kind == '+' {
		return v.Str, true
	}
	return "", false
}

func flatPairs(v srv.Value) (map[string]string, bool) {
	if v.Kind != '*' || len(v.Array)%2 != 0 {
		return nil, false
	}
	m := map[string]string{}
	for i := 0; i < len(v.Array); i += 2 {
		k, ok1 := bulk(v.Array[i])
		x, ok2 := bulk(v.Array[i+1])
		if !ok1 || !ok2 {
			return nil, false
		}
		m[fixUTF8(k)] = fixUTF8(x)
	}
	return m, true
}

func mapsEq(a, b map[string]string) string {
	if len(a) != len(b) {
		return fmt.Sprintf("field sets differ: %v vs %v", a, b)
	}
	for k, v := range a {
		if w, ok := b[k]; !ok || w != v {
			return fmt.Sprintf("field %q: %q vs %q", k, v, w)
		}
	}
	return ""
}

// nnum is a JSON number or null (String() == "null")
type nnum string

func (n *nnum) UnmarshalJSON(b []byte) error { *n = nnum(b); return nil }
func (n nnum) String() string               { return string(n) }

type latlon struct {
	Lat nnum            `json:"lat"`
	Lon nnum            `json:"lon"`
	Z   json.RawMessage `json:"z"`
}

func cmpPoint(raw json.RawMessage, v srv.Value) string {
	var p latlon
	if json.Unmarshal(raw, &p) != nil || v.Kind != '*' || len(v.Array) < 2 {
		return "point shapes differ"
	}
	if !floatEq(p.Lat.String(), v.Array[0].Str) || !floatEq(p.Lon.String(), v.Array[1].Str) {
		return fmt.Sprintf("point %s vs %s", raw, v.String())
	}
	if (p.Z != nil) != (len(v.Array) == 3) {
		// JSON prints z whenever the point has one, RESP only when it is non-zero
		if p.Z != nil && floatEq(string(p.Z), "0") && len(v.Array) == 2 {
			return ""
		}
		return fmt.Sprintf("point z presence %s vs %s", raw, v.String())
	}
	if p.Z != nil && len(v.Array) == 3 && !floatEq(string(p.Z), v.Array[2].Str) {
		return fmt.Sprintf("point z %s vs %s", raw, v.String())
	}
	return ""
}

func cmpBounds(raw json.RawMessage, v srv.Value) string {
	var b struct{ Sw, Ne latlon }
	if json.Unmarshal(raw, &b) != nil || v.Kind != '*' || len(v.Array) != 2 || len(v.Array[0].Array) != 2 || len(v.Array[1].Array) != 2 {
		return "bounds shapes differ"
	}
	if !floatEq(b.Sw.Lat.String(), v.Array[0].Array[0].Str) || !floatEq(b.Sw.Lon.String(), v.Array[0].Array[1].Str) ||
		!floatEq(b.Ne.Lat.String(), v.Array[1].Array[0].Str) || !floatEq(b.Ne.Lon.String(), v.Array[1].Array[1].Str) {
		return fmt.Sprintf("bounds %s vs %s", raw, v.String())
	}
	return ""
}

func cmpObject(raw json.RawMessage, v srv.Value) string {
	s, ok := bulk(v)
	if !ok {
		return "object: RESP side is not a bulk string"
	}
	if js, isStr := jstr(raw); isStr {
		if js != fixUTF8(s) {
			return fmt.Sprintf("string object %q vs %q", js, s)
		}
		return ""
	}
	if !jsonEqual(string(raw), s) {
		return fmt.Sprintf("object %s vs %s", raw, s)
	}
	return ""
}

// payload of GET / SET..RETURN / FSET..RETURN / one scan item
func cmpPayload(m map[string]json.RawMessage, v srv.Value) (string, bool) {
	if raw, ok := m["object"]; ok {
		return cmpObject(raw, v), true
	}
	if raw, ok := m["point"]; ok {
		return cmpPoint(raw, v), true
	}
	if raw, ok := m["bounds"]; ok {
		return cmpBounds(raw, v), true
	}
	if raw, ok := m["hash"]; ok {
		s, _ := jstr(raw)
		if b, ok := bulk(v); !ok || b != s {
			return fmt.Sprintf("hash %s vs %s", raw, v.String()), true
		}
		return "", true
	}
	return "", false
}

func cmpGet(args []string, j jdoc, rv srv.Value) string {
	why := cmpGetAs(args, j, rv, hasWord(args, "WITHFIELDS"))
	if why != "" && !strings.EqualFold(args[0], "get") && hasWord(args, "WITHFIELDS") {
		// SET / FSET: the word may be a key, an id, a field name or a field value (e.g. FSET k id null
		// RETURN POINT WITHFIELDS RETURN stores the fields null=RETURN and POINT=WITHFIELDS), not the option
		if cmpGetAs(args, j, rv, false) == "" {
			return ""
		}
	}
	return why
}

func cmpGetAs(args []string, j jdoc, rv srv.Value, withfields bool) string {
	payload := rv
	var rfields map[string]string
	if withfields {
		if rv.Kind != '*' || len(rv.Array) < 1 || len(rv.Array) > 2 {
			return "WITHFIELDS: RESP reply is not [object, fields]"
		}
		payload = rv.Array[0]
		if len(rv.Array) == 2 {
			var ok bool
			if rfields, ok = flatPairs(rv.Array[1]); !ok {
				return "WITHFIELDS: RESP fields are not name/value pairs"
			}
		}
	}
	why, found := cmpPayload(j.M, payload)
	if !found {
		return "JSON reply carries no object/point/bounds/hash"
	}
	if why != "" {
		return why
	}
	jf := map[string]string{}
	if raw, ok := j.M["fields"]; ok {
		var fm map[string]json.RawMessage
		if json.Unmarshal(raw, &fm) != nil {
			return "JSON fields is not an object"
		}
		for k, v := range fm {
			jf[k] = fieldCanon(v)
		}
	}
	if rfields == nil {
		rfields = map[string]string{}
	}
	if !withfields {
		if len(jf) > 0 {
			return "JSON reply carries fields, RESP reply does not"
		}
		return ""
	}
	return mapsEq(jf, rfields)
}

func cmpScan(args []string, j jdoc, rv srv.Value) string {
	var cursor, count json.Number
	if json.Unmarshal(j.M["cursor"], &cursor) != nil || json.Unmarshal(j.M["count"], &count) != nil {
		return "JSON reply lacks numeric count/cursor"
	}
	kinds := []string{"ids", "objects", "points", "bounds", "hashes"}
	kind := ""
	for _, k := range kinds {
		if _, ok := j.M[k]; ok {
			if kind != "" {
				return "JSON reply has two result lists"
			}
			kind = k
		}
	}
	if kind == "" { // COUNT
		if rv.Kind != ':' {
			return "COUNT: RESP reply is not an integer"
		}
		if strconv.FormatInt(rv.Int, 10) != count.String() {
			return fmt.Sprintf("count %s vs %d", count, rv.Int)
		}
		return ""
	}
	if rv.Kind != '*' || len(rv.Array) != 2 || rv.Array[0].Kind != ':' || rv.Array[1].Kind != '*' {
		return "RESP reply is not [cursor, items]"
	}
	if strconv.FormatInt(rv.Array[0].Int, 10) != cursor.String() {
		return fmt.Sprintf("cursor %s vs %d", cursor, rv.Array[0].Int)
	}
	var items []json.RawMessage
	if json.Unmarshal(j.M[kind], &items) != nil {
		return "JSON result list is not an array"
	}
	ritems := rv.Array[1].Array
	if len(items) != len(ritems) {
		return fmt.Sprintf("%d items vs %d items", len(items), len(ritems))
	}
	if strconv.Itoa(len(items)) != count.String() {
		return fmt.Sprintf("JSON count %s but %d items", count, len(items))
	}
	var names []string
	if raw, ok := j.M["fields"]; ok {
		if json.Unmarshal(raw, &names) != nil {
			return "JSON top-level fields is not an array of strings"
		}
	}
	for i, it := range items {
		ri := ritems[i]
		if kind == "ids" {
			if id, ok := jstr(it); ok {
				if b, ok := bulk(ri); !ok || fixUTF8(b) != id {
					return fmt.Sprintf("item %d: id %q vs %s", i, id, ri.String())
				}
				continue
			}
			var o struct {
				ID       string
				Distance nnum
			}
			if json.Unmarshal(it, &o) != nil || ri.Kind != '*' || len(ri.Array) != 2 {
				return fmt.Sprintf("item %d: id/distance shapes differ: %s vs %s", i, it, ri.String())
			}
			if fixUTF8(ri.Array[0].Str) != o.ID || !floatEq(o.Distance.String(), ri.Array[1].Str) {
				return fmt.Sprintf("item %d: %s vs %s", i, it, ri.String())
			}
			continue
		}
		var m map[string]json.RawMessage
		if json.Unmarshal(it, &m) != nil || ri.Kind != '*' || len(ri.Array) < 2 {
			return fmt.Sprintf("item %d: shapes differ: %s vs %s", i, it, ri.String())
		}
		id, _ := jstr(m["id"])
		if fixUTF8(ri.Array[0].Str) != id {
			return fmt.Sprintf("item %d: id %q vs %q", i, id, ri.Array[0].Str)
		}
		if why, found := cmpPayload(m, ri.Array[1]); !found || why != "" {
			return fmt.Sprintf("item %d (%q): %s", i, id, why)
		}
		rest := ri.Array[2:]
		rf := map[string]string{}
		if len(rest) > 0 && rest[0].Kind == '*' {
			var ok bool
			if rf, ok = flatPairs(rest[0]); !ok {
				return fmt.Sprintf("item %d: RESP fields are not pairs", i)
			}
			rest = rest[1:]
		}
		jf := map[string]string{}
		if raw, ok := m["fields"]; ok {
			var arr []json.RawMessage
			var obj map[string]json.RawMessage
			if json.Unmarshal(raw, &arr) == nil {
				if len(arr) != len(names) {
					return fmt.Sprintf("item %d: %d field values for %d field names", i, len(arr), len(names))
				}
				for k, v := range arr {
					if string(v) != "0" {
						jf[names[k]] = fieldCanon(v)
					}
				}
			} else if json.Unmarshal(raw, &obj) == nil {
				for k, v := range obj {
					if string(v) != "0" {
						jf[k] = fieldCanon(v)
					}
				}
			} else {
				return fmt.Sprintf("item %d: fields is neither array nor object", i)
			}
		}
		if why := mapsEq(jf, rf); why != "" {
			if jsonPathExplains(jf, rf) {
				// finding C17-scan-json-path-field (fixed in 903e555): a regression keeps its own signature
				return fmt.Sprintf("json-path-field: item %d (%q): %s", i, id, why)
			}
			return fmt.Sprintf("item %d (%q): %s", i, id, why)
		}
		if d, ok := m["distance"]; ok {
			if len(rest) != 1 || !floatEq(string(d), rest[0].Str) {
				return fmt.Sprintf("item %d: distance %s vs %v", i, d, ri.String())
			}
		} else if len(rest) != 0 {
			return fmt.Sprintf("item %d: RESP carries an extra element %s", i, ri.String())
		}
	}
	return ""
}

// jsonPathExplains: every difference between the fields a JSON item shows (jf) and the fields the
// RESP item lists (rf) is a dotted name j.p whose JSON value is what gjson finds at p inside the
// stored JSON-valued field j (field.List.Get resolves the path before the stored name).
func jsonPathExplains(jf, rf map[string]string) bool {
	n := 0
	for k, v := range jf {
		if w, ok := rf[k]; ok && w == v {
			continue
		}
		dot := strings.IndexByte(k, '.')
		if dot < 0 {
			return false
		}
		// rf holds UTF-8-sanitised names and data; the finding needs a plain JSON field anyway
		jv, ok := rf[k[:dot]]
		if !ok {
			return false
		}
		if kind, _ := verifapi.KsValueOf(jv); kind != 5 {
			return false
		}
		exists, kind, str, _ := verifapi.KsGjsonGet(jv, k[dot+1:])
		if !exists {
			return false
		}
		switch kind {
		case 0:
			str = "null"
		case 1:
			str = "false"
		case 4:
			str = "true"
		}
		if fixUTF8(str) != v {
			return false
		}
		n++
	}
	for k, w := range rf {
		if v, ok := jf[k]; !ok {
			// a stored non-zero field the JSON item does not show: only when the JSON path shadows it with 0
			dot := strings.IndexByte(k, '.')
			if dot < 0 {
				return false
			}
			jv, has := rf[k[:dot]]
			if !has {
				return false
			}
			exists, _, str, _ := verifapi.KsGjsonGet(jv, k[dot+1:])
			if !exists || str != "0" {
				return false
			}
			n++
		} else if v != w && strings.IndexByte(k, '.') < 0 {
			return false
		}
	}
	return n > 0
}

// script results: ConvertToJSON vs ConvertToRESP
func cmpLua(raw json.RawMessage, v srv.Value, depth int) string {
	var x interface{}
	d := json.NewDecoder(bytes.NewReader(raw))
	d.UseNumber()
	if d.Decode(&x) != nil {
		return "result is not JSON"
	}
	return cmpLuaVal(x, v)
}

func cmpLuaVal(x interface{}, v srv.Value) string {
	switch t := x.(type) {
	case nil:
		if v.Kind != 'n' {
			return "null vs " + v.String()
		}
	case bool:
		if (t && !(v.Kind == ':' && v.Int == 1)) || (!t && v.Kind != 'n') {
			return fmt.Sprintf("%v vs %s", t, v.String())
		}
	case json.Number:
		f, _ := strconv.ParseFloat(t.String(), 64)
		if v.Kind != ':' || float64(v.Int) > f || float64(v.Int) <= f-1 {
			return fmt.Sprintf("number %s vs %s", t, v.String())
		}
	case string:
		if b, ok := bulk(v); !ok || fixUTF8(b) != t {
			return fmt.Sprintf("string %q vs %s", t, v.String())
		}
	case []interface{}:
		if v.Kind != '*' || len(v.Array) != len(t) {
			return fmt.Sprintf("array of %d vs %s", len(t), v.String())
		}
		for i := range t {
			if why := cmpLuaVal(t[i], v.Array[i]); why != "" {
				return why
			}
		}
	case map[string]interface{}:
		if len(t) == 1 {
			if s, ok := t["ok"].(string); ok {
				// status replies are single-line in RESP (control bytes flattened to spaces)
				if v.Kind == '+' && normErr(v.Str, false) == normErr(s, false) {
					return ""
				}
				return fmt.Sprintf("{ok=%q} vs %s", s, v.String())
			}
			if s, ok := t["err"].(string); ok {
				// convention: a Lua table {err=...} is an error reply in RESP and the value {"err":...} in JSON
				if v.Kind == '-' && normErr(v.Str, true) == normErr(s, false) {
					return ""
				}
				return fmt.Sprintf("{err=%q} vs %s", s, v.String())
			}
		}
		if v.Kind != '*' || len(v.Array) != len(t) {
			return fmt.Sprintf("map of %d vs %s", len(t), v.String())
		}
	}
	return ""
}

var notFoundErrs = map[string]bool{"key not found": true, "id not found": true, "id already exists": true, "path not found": true}

func respNotFound(cmd string, rv srv.Value) bool {
	switch cmd {
	case "get", "bounds", "jget", "set":
		return rv.Kind == 'n'
	case "ttl":
		return rv.Kind == ':' && rv.Int == -2
	case "type":
		return rv.Kind == '+' && rv.Str == "none"
	case "persist", "expire", "jdel":
		return rv.Kind == ':' && rv.Int == 0
	}
	return false
}

func agree(cmd string, args []string, j jdoc, rv srv.Value, st *state) string {
	if cmd == "timeout" && len(args) > 2 {
		return agree(strings.ToLower(args[2]), args[2:], j, rv, st)
	}
	if cmd == "config" || cmd == "script" || cmd == "client" {
		if len(args) > 1 {
			cmd = cmd + " " + strings.ToLower(args[1])
		}
	}
	// ----- error classes -----
	if !j.OK {
		if rv.Kind == '-' {
			a, b := normErr(j.Err, false), normErr(rv.Str, true)
			if a != b {
				return fmt.Sprintf("error texts differ: %q vs %q", a, b)
			}
			return ""
		}
		if notFoundErrs[j.Err] && respNotFound(cmd, rv) {
			return ""
		}
		return fmt.Sprintf("JSON mode reports the error %q, RESP mode replies %s", j.Err, trunc(rv.String(), 120))
	}
	if rv.Kind == '-' {
		if strings.HasPrefix(cmd, "eval") {
			if raw, ok := j.M["result"]; ok {
				return cmpLua(raw, rv, 0)
			}
		}
		return fmt.Sprintf("RESP mode reports the error %q, JSON mode replies ok:true", rv.Str)
	}
	// ----- both succeeded: payloads -----
	switch cmd {
	case "get":
		return cmpGet(args, j, rv)
	case "set", "fset":
		if hasWord(args, "RETURN") {
			if _, found := cmpPayload(j.M, srv.Value{}); found {
				return cmpGet(args, j, rv)
			}
		}
		return ""
	case "scan", "search", "nearby", "within", "intersects":
		return cmpScan(args, j, rv)
	case "keys":
		var keys []string
		if json.Unmarshal(j.M["keys"], &keys) != nil || rv.Kind != '*' || len(keys) != len(rv.Array) {
			return "key lists differ in shape/length"
		}
		for i := range keys {
			if fixUTF8(rv.Array[i].Str) != keys[i] {
				return fmt.Sprintf("key %d: %q vs %q", i, keys[i], rv.Array[i].Str)
			}
		}
	case "exists", "fexists":
		want := map[string]int64{"true": 1, "false": 0}
		if n, ok := want[string(j.M["exists"])]; !ok || rv.Kind != ':' || rv.Int != n {
			return fmt.Sprintf("exists %s vs %s", j.M["exists"], rv.String())
		}
	case "fget":
		if b, ok := bulk(rv); !ok || fixUTF8(b) != fieldCanon(j.M["value"]) {
			return fmt.Sprintf("value %s vs %s", j.M["value"], rv.String())
		}
	case "ttl":
		var n json.Number
		if json.Unmarshal(j.M["ttl"], &n) != nil || rv.Kind != ':' {
			return "ttl shapes differ"
		}
		jn, _ := n.Int64()
		if (jn == -1) != (rv.Int == -1) || (jn >= 0) != (rv.Int >= 0) || jn < -1 || rv.Int < -1 {
			return fmt.Sprintf("ttl class %d vs %d", jn, rv.Int)
		}
	case "type":
		if s, _ := jstr(j.M["type"]); rv.Kind != '+' || s != rv.Str {
			return fmt.Sprintf("type %s vs %s", j.M["type"], rv.String())
		}
	case "bounds":
		var g struct {
			Type        string
			Coordinates [][][]nnum
		}
		if json.Unmarshal(j.M["bounds"], &g) != nil || rv.Kind != '*' || len(rv.Array) != 2 {
			return "bounds shapes differ"
		}
		if g.Type == "Polygon" && len(g.Coordinates) == 1 && len(g.Coordinates[0]) == 5 {
			c := g.Coordinates[0]
			if !floatEq(c[0][0].String(), rv.Array[0].Array[0].Str) || !floatEq(c[0][1].String(), rv.Array[0].Array[1].Str) ||
				!floatEq(c[2][0].String(), rv.Array[1].Array[0].Str) || !floatEq(c[2][1].String(), rv.Array[1].Array[1].Str) {
				return fmt.Sprintf("bounds %s vs %s", j.M["bounds"], rv.String())
			}
		}
	case "stats":
		var arr []map[string]json.Number
		if json.Unmarshal(j.M["stats"], &arr) != nil || rv.Kind != '*' || len(arr) != len(rv.Array) {
			return "stats shapes differ"
		}
		for i, m := range arr {
			r := rv.Array[i]
			if (m == nil) != (r.Kind == 'n') {
				return fmt.Sprintf("stats entry %d: null vs non-null", i)
			}
			if m == nil {
				continue
			}
			rm, ok := flatPairs(r)
			if !ok || len(rm) != len(m) {
				return fmt.Sprintf("stats entry %d differs", i)
			}
			for k, v := range m {
				if rm[k] != v.String() {
					return fmt.Sprintf("stats entry %d: %s = %s vs %s", i, k, v, rm[k])
				}
			}
		}
	case "server", "config get":
		member := "stats"
		if cmd == "config get" {
			member = "properties"
		}
		var m map[string]json.RawMessage
		rm, ok := flatPairs(rv)
		if json.Unmarshal(j.M[member], &m) != nil || !ok {
			return "shapes differ"
		}
		var a, b []string
		for k := range m {
			a = append(a, k)
		}
		for k := range rm {
			b = append(b, k)
		}
		sort.Strings(a)
		sort.Strings(b)
		if strings.Join(a, ",") != strings.Join(b, ",") {
			return fmt.Sprintf("member sets differ: %v vs %v", a, b)
		}
		if cmd == "config get" {
			for k, v := range m {
				if s, _ := jstr(v); s != rm[k] {
					return fmt.Sprintf("property %s: %s vs %q", k, v, rm[k])
				}
			}
		}
	case "info":
		var m map[string]json.RawMessage
		txt, ok := bulk(rv)
		if json.Unmarshal(j.M["info"], &m) != nil || !ok {
			return "shapes differ"
		}
		n := 0
		for _, line := range strings.Split(txt, "\r\n") {
			line = strings.TrimSpace(line)
			if line == "" || strings.HasPrefix(line, "#") {
				continue
			}
			kv := strings.SplitN(line, ":", 2)
			if len(kv) != 2 {
				continue
			}
			n++
			if _, ok := m[kv[0]]; !ok {
				return "info key " + kv[0] + " missing from the JSON reply"
			}
		}
		if n != len(m) {
			return fmt.Sprintf("info: %d keys vs %d keys", len(m), n)
		}
	case "hooks", "chans":
		var hs []struct {
			Name, Key string
			Endpoints []string
			Command   []string
			Meta      map[string]string
		}
		if json.Unmarshal(j.M[cmd], &hs) != nil || rv.Kind != '*' || len(hs) != len(rv.Array) {
			return "hook lists differ in shape/length"
		}
		for i, h := range hs {
			r := rv.Array[i]
			if r.Kind != '*' || len(r.Array) != 5 {
				return "RESP hook entry is not a 5-tuple"
			}
			if fixUTF8(r.Array[0].Str) != h.Name || fixUTF8(r.Array[1].Str) != h.Key {
				return fmt.Sprintf("hook %d: name/key %q/%q vs %q/%q", i, h.Name, h.Key, r.Array[0].Str, r.Array[1].Str)
			}
			if cmd == "hooks" {
				if len(h.Endpoints) != len(r.Array[2].Array) {
					return fmt.Sprintf("hook %d: endpoints differ", i)
				}
				for k := range h.Endpoints {
					if fixUTF8(r.Array[2].Array[k].Str) != h.Endpoints[k] {
						return fmt.Sprintf("hook %d: endpoint %d differs", i, k)
					}
				}
			}
			if len(h.Command) != len(r.Array[3].Array) {
				return fmt.Sprintf("hook %d: command lengths differ", i)
			}
			for k := range h.Command {
				if fixUTF8(r.Array[3].Array[k].Str) != h.Command[k] {
					return fmt.Sprintf("hook %d: command word %d: %q vs %q", i, k, h.Command[k], r.Array[3].Array[k].Str)
				}
			}
			rm, ok := flatPairs(r.Array[4])
			if !ok {
				return "RESP meta is not pairs"
			}
			if h.Meta == nil {
				h.Meta = map[string]string{}
			}
			if why := mapsEq(h.Meta, rm); why != "" {
				return fmt.Sprintf("hook %d meta: %s", i, why)
			}
		}
	case "jget":
		raw, has := j.M["value"]
		if !has {
			if rv.Kind != 'n' {
				return "JSON has no value, RESP replies " + rv.String()
			}
			return ""
		}
		s, _ := jstr(raw)
		if b, ok := bulk(rv); !ok || fixUTF8(b) != s {
			return fmt.Sprintf("value %s vs %s", raw, rv.String())
		}
	case "test":
		res := rv
		if rv.Kind == '*' && len(rv.Array) == 2 {
			res = rv.Array[0]
			if why := cmpObject(j.M["object"], rv.Array[1]); why != "" {
				return why
			}
		} else if _, has := j.M["object"]; has {
			return "JSON carries a clipped object, RESP does not"
		}
		want := map[string]int64{"true": 1, "false": 0}
		if n, ok := want[string(j.M["result"])]; !ok || res.Kind != ':' || res.Int != n {
			return fmt.Sprintf("result %s vs %s", j.M["result"], rv.String())
		}
	case "eval", "evalro", "evalna", "evalsha", "evalrosha", "evalnasha", "script exists":
		return cmpLua(j.M["result"], rv, 0)
	case "script load":
		if s, _ := jstr(j.M["result"]); rv.Str != s {
			return fmt.Sprintf("sha %s vs %s", j.M["result"], rv.String())
		}
	case "ping", "echo":
		s, _ := jstr(j.M[cmd])
		if len(args) == 1 {
			if s != "pong" || rv.Str != "PONG" {
				return "bare ping differs"
			}
		} else if b, ok := bulk(rv); !ok || fixUTF8(b) != s {
			return fmt.Sprintf("%s %q vs %s", cmd, s, rv.String())
		}
	case "aofmd5":
		// the two servers' logs differ (connection-level cases run on one of them only): shape only
		if s, _ := jstr(j.M["md5"]); len(s) != 32 || len(rv.Str) != 32 {
			return fmt.Sprintf("md5 %q vs %s", s, rv.String())
		}
	case "publish":
		if string(j.M["published"]) != strconv.FormatInt(rv.Int, 10) || rv.Kind != ':' {
			return fmt.Sprintf("published %s vs %s", j.M["published"], rv.String())
		}
	case "client getname":
		if s, _ := jstr(j.M["name"]); rv.Kind == '$' && fixUTF8(rv.Str) != s {
			return fmt.Sprintf("name %q vs %s", s, rv.String())
		}
	case "output":
		// the reply names the mode it is in: nothing to compare
	case "role":
		var role struct{ Role string }
		json.Unmarshal(j.M["role"], &role)
		if rv.Kind != '*' || len(rv.Array) == 0 || rv.Array[0].Str != role.Role {
			return "role differs"
		}
	}
	return ""
}
