package main

// Connection-level cases that cannot run on the shared connections: protocol errors, pub/sub
// mode, live fences, QUIT.  Each uses its own connection on the JSON-side server (and the
// RESP-side server where the two modes are compared).

import (
	"encoding/json"
	"fmt"
	"strings"
	"unicode/utf8"

	"verifharness/internal/srv"
)

func (b *bb) jsonBulk(tag string, args []string, v srv.Value, err error) (jdoc, bool) {
	if err != nil {
		b.fail("reply-missing", tag+": "+err.Error(), args, nil, nil)
		return jdoc{}, false
	}
	if v.Kind != '$' {
		b.fail("json-framing", tag+": JSON-mode reply is not a bulk string: "+trunc(v.String(), 200), args, v.String(), nil)
		return jdoc{}, false
	}
	d, sig, what := checkJSONDoc(v.Str)
	b.r.Count("special|"+tag+"|"+q(args), sig == "" && d.OK)
	b.r.Dist("special:" + tag)
	if sig != "" {
		b.fail(sig, tag+": "+what+": "+trunc(v.Str, 300), args, v.Str, nil)
		return d, false
	}
	return d, true
}

func special(b *bb) {
	// 1. protocol error while in JSON mode / RESP mode: one error document / one error line, then close
	for _, junk := range []string{"*1\r\nX\r\n", "*x\r\n", "*2\r\n$1\r\na\r\n:1\r\n", "\"unbalanced\r\n"} {
		args := []string{"<raw>", junk}
		if c, err := dialRaw(b.sa.Port); err == nil {
			c.do("OUTPUT", "json")
			c.write([]byte(junk))
			v, err := c.readValue()
			if d, ok := b.jsonBulk("protocol-error-json", args, v, err); ok && d.OK {
				b.fail("modes-disagree-protocol", "protocol error acknowledged with ok:true", args, d.Raw, nil)
			}
			c.close()
		}
		if c, err := dialRaw(b.sb.Port); err == nil {
			c.do("PING") // the error line is only written once the connection is known to speak RESP
			c.write([]byte(junk))
			v, err := c.readValue()
			if err != nil {
				b.fail("resp-invalid", "protocol error in RESP mode: "+err.Error(), args, nil, nil)
			} else if v.Kind != '-' {
				b.fail("modes-disagree-protocol", "protocol error not reported as a RESP error: "+v.String(), args, v.String(), nil)
			}
			b.r.Count("special|protocol-error-resp|"+q(args), false)
			c.close()
		}
	}

	// 2. pub/sub mode: every document written in JSON mode, every push in RESP mode
	chanName, pat, payload := `ch"q`+"\x01\xff", `ch*`, "m\"sg\r\n\xff<&>"
	cj, err1 := dialRaw(b.sa.Port)
	cr, err2 := dialRaw(b.sb.Port)
	if err1 == nil && err2 == nil {
		cj.do("OUTPUT", "json")
		for _, args := range [][]string{{"SUBSCRIBE", chanName, "plain"}, {"PSUBSCRIBE", pat}, {"PING"}, {"PING", payload}, {"GET", "k", "id"}, {"SUBSCRIBE"}} {
			n := 1
			if strings.HasSuffix(args[0], "SUBSCRIBE") && len(args) > 1 {
				n = len(args) - 1
			}
			if err := cj.write(srv.Encode(args...)); err != nil {
				break
			}
			cr.write(srv.Encode(args...))
			for i := 0; i < n; i++ {
				v, err := cj.readValue()
				b.jsonBulk("pubsub-json", args, v, err)
				if _, err := cr.readValue(); err != nil {
					b.fail("resp-invalid", "pub/sub mode: "+err.Error(), args, nil, nil)
				}
			}
		}
		for _, s := range []*srv.Server{b.sa, b.sb} {
			if p, err := dialRaw(s.Port); err == nil {
				p.do("PUBLISH", chanName, payload)
				p.close()
			}
		}
		// two deliveries each (channel + pattern)
		for i := 0; i < 2; i++ {
			args := []string{"<message>", chanName, payload}
			v, err := cj.readValue()
			rv, err2 := cr.readValue()
			if err != nil || err2 != nil || v.Kind != '$' {
				b.fail("reply-missing", fmt.Sprintf("pub/sub message not delivered: %v %v %s", err, err2, v.String()), args, nil, nil)
				continue
			}
			// a pushed message is not a reply document: it must be one JSON value (the payload itself
			// when it is JSON, else a JSON string)
			if !json.Valid([]byte(v.Str)) || !utf8.ValidString(v.Str) {
				b.fail("json-invalid", "pub/sub message in JSON mode is not a JSON value: "+trunc(v.Str, 200), args, v.Str, nil)
				continue
			}
			b.r.Count("special|pubsub-message", true)
			var js string
			json.Unmarshal([]byte(v.Str), &js)
			if rv.Kind != '*' || len(rv.Array) < 3 || fixUTF8(rv.Array[len(rv.Array)-1].Str) != js {
				b.fail("modes-disagree-pubsub", fmt.Sprintf("published message differs: %q vs %s", js, rv.String()), args, v.Str, rv.String())
			}
		}
		cj.close()
		cr.close()
	}

	// 3. live fence in JSON mode: the {"ok":true,"live":true} document and one event document
	if cj, err := dialRaw(b.sa.Port); err == nil {
		cj.do("OUTPUT", "json")
		args := []string{"NEARBY", "livekey", "FENCE", "POINT", "10", "10", "10000"}
		v, err := cj.do(args...)
		if d, ok := b.jsonBulk("live-json", args, v, err); ok && d.OK {
			if p, err := dialRaw(b.sa.Port); err == nil {
				set := []string{"SET", "livekey", "i\"d\x01\xff", "FIELD", "f\"\xfe", "v\"\n", "FIELD", "n", "1.5", "POINT", "10", "10"}
				p.do(set...)
				v, err := cj.readValue()
				// a pushed event is not a reply document (no "ok"): it must be one JSON value
				if err != nil || v.Kind != '$' {
					b.fail("reply-missing", fmt.Sprintf("live fence event not delivered: %v %s", err, v.String()), set, nil, nil)
				} else if !json.Valid([]byte(v.Str)) || !utf8.ValidString(v.Str) {
					b.fail("json-invalid", "live fence event in JSON mode is not a JSON value: "+trunc(v.Str, 300), set, v.Str, nil)
				} else {
					b.r.Count("special|live-event", true)
				}
				p.do("DROP", "livekey")
				p.close()
			}
		}
		cj.close()
	}

	// 3b. the same live fence over WebSocket: every frame one JSON value, the first the live document
	if ws, err := wsOpen(b.sa.Port, []string{"NEARBY", "livekey", "FENCE", "POINT", "10", "10", "10000"}); err == nil {
		args := []string{"NEARBY", "livekey", "FENCE", "POINT", "10", "10", "10000"}
		if _, payload, err := ws.readFrame(); err != nil {
			b.wsFail("ws-frame-invalid", "live fence over websocket: "+err.Error(), args, nil, nil)
		} else if d, sig, what := checkJSONDoc(string(payload)); sig != "" || !d.OK {
			b.wsFail("ws-live-"+sig, "live fence over websocket, first frame: "+what+": "+trunc(string(payload), 200), args, string(payload), nil)
		} else {
			b.r.Count("special|ws-live", true)
			if p, err := dialRaw(b.sa.Port); err == nil {
				p.do("SET", "livekey", "w\"s\x01", "FIELD", "n", "2", "POINT", "10", "10")
				if _, payload, err := ws.readFrame(); err != nil {
					b.wsFail("ws-frame-invalid", "live fence event over websocket: "+err.Error(), args, nil, nil)
				} else if !json.Valid(payload) || !utf8.Valid(payload) {
					b.wsFail("ws-json-invalid", "live fence event over websocket is not a JSON value: "+trunc(string(payload), 200), args, string(payload), nil)
				} else {
					b.r.Count("special|ws-live-event", true)
				}
				p.do("DROP", "livekey")
				p.close()
			}
		}
		ws.close()
	}

	// 3c. and over the native framing
	if c, err := dialRaw(b.sa.Port); err == nil {
		args := []string{"NEARBY", "livekey", "FENCE", "POINT", "10", "10", "10000"}
		if body, err := c.native(args...); err != nil {
			b.fail("reply-missing", "live fence over the native framing: "+err.Error(), args, nil, nil)
		} else if d, sig, what := checkJSONDoc(body); sig != "" || !d.OK {
			b.fail("native-live-"+sig, "live fence over the native framing, first message: "+what+": "+trunc(body, 200), args, body, nil)
		} else {
			b.r.Count("special|native-live", true)
		}
		c.close()
	}

	// 4. QUIT: RESP mode answers +OK, both close
	if c, err := dialRaw(b.sb.Port); err == nil {
		v, err := c.do("QUIT")
		if err != nil || v.Kind != '+' || v.Str != "OK" {
			b.fail("resp-invalid", fmt.Sprintf("QUIT in RESP mode: %v %v", v.String(), err), []string{"QUIT"}, nil, nil)
		}
		b.r.Count("special|quit", false)
		c.close()
	}
}
