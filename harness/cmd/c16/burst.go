// C16: netServe's socket read size against the pipeline reader's buffer.
//   - source check: the two literals of internal/server/server.go must be the constants of the model
//     (sock_read_size, pipeline_buf_size) for which c16_in_b_dead / c16_source_read_size_fits are proved;
//   - black box: bursts of an exact length at and just below multiples of 64 KiB, written with ONE write while
//     the connection is busy (SLEEP in --dev mode, so that a single socket read returns a full buffer), must get
//     the same replies as the same bytes sent in small paced segments.
package main

import (
	"bytes"
	"fmt"
	"net"
	"os"
	"path/filepath"
	"regexp"
	"strconv"
	"strings"
	"time"

	"verifharness/internal/hx"
	"verifharness/internal/model"
	"verifharness/internal/respgen"
)

func parseLit(s string) int {
	n, err := strconv.ParseInt(s, 0, 64)
	if err != nil {
		return -1
	}
	return int(n)
}

func checkReadSizes(r *hx.Result, drv *model.Driver) {
	repo := os.Getenv("VERIF_REPO")
	if repo == "" {
		repo = "/repo"
	}
	src, err := os.ReadFile(filepath.Join(repo, "internal", "server", "server.go"))
	if err != nil {
		r.Fail(hx.Failure{Kind: "correspondence", Signature: "netserve-read-size-model", What: "cannot read internal/server/server.go: " + err.Error()})
		return
	}
	// netServe: packet := make([]byte, <lit>) ... conn.Read(packet)
	reSock := regexp.MustCompile(`packet := make\(\[\]byte, ([0-9A-Fa-fxX]+)\)\s*\n\s*for \{\s*\n\s*var close bool\s*\n\s*n, err := conn\.Read\(packet\)`)
	// type PipelineReader struct { ... packet [<lit>]byte
	rePipe := regexp.MustCompile(`type PipelineReader struct \{[^}]*?\n\s*packet\s+\[([0-9A-Fa-fxX]+)\]byte`)
	ms, mp := reSock.FindSubmatch(src), rePipe.FindSubmatch(src)
	if ms == nil || mp == nil {
		r.Fail(hx.Failure{Kind: "correspondence", Signature: "netserve-read-size-model", What: "the socket read buffer of netServe / the packet array of PipelineReader no longer have the shape the model was read from (obligation broken: Model/Pipeline.v sock_read_size, pipeline_buf_size)"})
		return
	}
	sock, pipe := parseLit(string(ms[1])), parseLit(string(mp[1]))
	f := strings.Fields(drv.Ask("sizes"))
	msock, _ := strconv.Atoi(f[0])
	mpipe, _ := strconv.Atoi(f[1])
	r.Extra["source_sock_read_size"] = sock
	r.Extra["source_pipeline_buf_size"] = pipe
	if sock != msock || pipe != mpipe {
		what := fmt.Sprintf("netServe reads up to %d bytes per socket read and PipelineReader.packet holds %d; the model (c16_in_b_dead, c16_source_read_size_fits) was proved for %d and %d", sock, pipe, msock, mpipe)
		if sock > pipe {
			what += fmt.Sprintf("; a socket read can now exceed what the single Read of ReadMessages takes: the hypothesis read size <= pipeline buffer size of c16_in_b_dead is false and up to %d byte(s) per full read are parked in client.in until the next socket read", sock-pipe)
		}
		r.Fail(hx.Failure{Kind: "correspondence", Signature: "netserve-read-size-model", What: what,
			Impl: map[string]int{"sock_read_size": sock, "pipeline_buf_size": pipe}, Model: map[string]int{"sock_read_size": msock, "pipeline_buf_size": mpipe}})
	}
}

// payload length p with len(Encode("ECHO", p bytes)) == total, or -1
func echoFit(total int) int {
	for d := 1; d <= 6; d++ {
		p := total - 19 - d
		if p >= 0 && len(strconv.Itoa(p)) == d {
			return p
		}
	}
	return -1
}

// an ECHO pipeline of exactly n bytes (n >= 400); returns the bytes, the number of commands and the
// number of reply bytes a complete answer has
func echoBurst(n int) ([]byte, int, int) {
	var b []byte
	cmds, replyLen := 0, 0
	add := func(p int) {
		b = append(b, respgen.Encode("ECHO", strings.Repeat(string(rune('a'+cmds%26)), p))...)
		cmds++
		replyLen += 1 + len(strconv.Itoa(p)) + 2 + p + 2
	}
	for n-len(b) > 9000 {
		add(4000)
	}
	left := n - len(b)
	for p1 := 100; p1 < 400; p1++ { // two closing commands so that an exact fit always exists
		rest := left - (19 + len(strconv.Itoa(p1)) + p1)
		if p2 := echoFit(rest); p2 >= 0 {
			add(p1)
			add(p2)
			break
		}
	}
	return b, cmds, replyLen
}

func readReplies(c net.Conn, want int, quiet time.Duration) []byte {
	var all []byte
	buf := make([]byte, 1<<16)
	for len(all) < want {
		c.SetReadDeadline(time.Now().Add(quiet))
		n, err := c.Read(buf)
		all = append(all, buf[:n]...)
		if err != nil {
			return all
		}
	}
	c.SetReadDeadline(time.Now().Add(100 * time.Millisecond)) // anything beyond the expected replies
	n, _ := c.Read(buf)
	return append(all, buf[:n]...)
}

func runBursts(r *hx.Result, cfg hx.Config) {
	s, err := respgen.StartServer(filepath.Join(cfg.Work, "burst"), nil, "--appendonly", "no", "--dev")
	if err != nil {
		panic(err)
	}
	defer s.Kill()
	lens := []int{0x10000, 0x10000 - 1, 0x10000 - 2, 2 * 0x10000, 2*0x10000 - 1, 2*0x10000 - 2, 3 * 0x10000, 100000}
	if cfg.Tier == "thorough" || cfg.Search {
		lens = append(lens, 0x10000-3, 2*0x10000-3, 3*0x10000-1, 3*0x10000-3, 4*0x10000, 0xFFFF*2, 0xFFFF, 150000, 0x10000+1)
	}
	sleepCmd := respgen.Encode("SLEEP", "0.35")
	for _, n := range lens {
		burst, cmds, replyLen := echoBurst(n)
		if len(burst) != n {
			panic(fmt.Sprintf("burst generator: wanted %d bytes, built %d", n, len(burst)))
		}
		run := func(oneWrite bool) []byte {
			c, err := net.DialTimeout("tcp", "127.0.0.1:"+strconv.Itoa(s.Port), 2*time.Second)
			if err != nil {
				return nil
			}
			defer c.Close()
			if tc, ok := c.(*net.TCPConn); ok {
				tc.SetNoDelay(true)
			}
			c.Write(sleepCmd)
			if oneWrite {
				time.Sleep(30 * time.Millisecond) // the server is inside SLEEP; the whole burst queues up in the socket
				go c.Write(burst)
			} else {
				go func() {
					for o := 0; o < len(burst); o += 8192 {
						c.Write(burst[o:min(o+8192, len(burst))])
						time.Sleep(2 * time.Millisecond)
					}
				}()
			}
			return readReplies(c, len("+OK\r\n")+replyLen, 1500*time.Millisecond)
		}
		ref := run(false)
		for rep := 0; rep < 2; rep++ {
			got := run(true)
			r.Count(fmt.Sprintf("burst\x00%d\x00%d", n, rep), true)
			r.Dist("bb:burst")
			if !bytes.Equal(got, ref) {
				r.Fail(hx.Failure{Kind: "oracle", Signature: "bb-burst-replies",
					What: fmt.Sprintf("a pipeline of %d commands, exactly %d bytes, written in one burst while the connection was busy got %d reply bytes; the same bytes in 8 KiB segments got %d (the last command is complete on the server and is not answered)", cmds, n, len(got), len(ref)),
					Case: map[string]interface{}{"burst_bytes": n, "commands": cmds, "first": "SLEEP 0.35 (--dev), then the ECHO pipeline in ONE write"},
					Impl: fmt.Sprintf("%d replies", bytes.Count(got, []byte("\r\n$"))), Model: fmt.Sprintf("%d replies", bytes.Count(ref, []byte("\r\n$")))})
				break
			}
		}
	}
}
