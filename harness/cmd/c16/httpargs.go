// C16, the HTTP request path after framing:
//   - in-package: mvtFilterHTTPArgs (the tile-path rewrite of handleInputCommand) against the model
//     Model/MvtArgs.v on generated paths of EVERY segment count 0..8, with .mvt / .pbf / .json / no extension,
//     empty and short segments, percent-escapes valid and invalid, invalid UTF-8 (oracle: no run-time panic on
//     a path the call site lets through; correspondence: same outcome / same rewritten arguments);
//   - black box: the same paths as `GET /<path> HTTP/1.1` requests (and POST with the path tail in the body), one
//     connection each, with a liveness check of the process and of a bystander;
//   - the metrics endpoint: a server started with --metrics-addr gets keys, ids and command words with invalid
//     UTF-8 (label values of the prometheus collectors), then is scraped; it must survive and answer the scrape.
package main

import (
	"fmt"
	"io"
	"math/rand"
	"net"
	"net/http"
	"path/filepath"
	"strconv"
	"strings"
	"time"

	"github.com/tidwall/tile38/verifapi"
	"verifharness/internal/hx"
	"verifharness/internal/model"
	"verifharness/internal/respgen"
	"verifharness/internal/srv"
)

var httpSegPool = []string{"", "a", "ab", "abc", "abcd", "abcde", "fleet", "k", "tiles", "10", "193", "413", "0", "-1", "1e3",
	"9223372036854775808", "%2F", "%41", "%zz", "%25zz", "%252F", "%2541", "%", "%4", "a%2fb", ".mvt", ".pbf", "x.mvt", "..", ".", "viewer", "\xff", "\xff\xfe\xfd\xfc", "k\x00", "{", "*"}
var httpExts = []string{".mvt", ".pbf", ".json", "", ".MVT", ".mv", "mvt"}
var httpQueries = []string{"", "", "", "?limit=5", "?sparse=3", "?limit=", "?sparse=x&limit=-1", "?%zz", "?a;b", "?limit=5?x.mvt", "?"}

// a path with n segments
func httpPath(rng *rand.Rand, n int, ext string, kind int) string {
	var segs []string
	for i := 0; i < n; i++ {
		switch kind {
		case 0:
			segs = append(segs, strconv.Itoa(rng.Intn(1000))) // short numeric segments
		case 1:
			segs = append(segs, "")
		case 2:
			segs = append(segs, []string{"fleet", "10", "193", "413", "tiles", "abcd", "abcde"}[rng.Intn(7)])
		default:
			segs = append(segs, httpSegPool[rng.Intn(len(httpSegPool))])
		}
	}
	return strings.Join(segs, "/") + ext + httpQueries[rng.Intn(len(httpQueries))]
}

func httpPathCorpus(rng *rand.Rand, perCell int) []string {
	out := []string{
		"fleet/10/193/413.mvt", "tiles/fleet/10/193/413.mvt", "a/b/c/d/e.pbf", "a/b/c/.mvt", ".mvt", "//.mvt", "///.mvt", "////.mvt", "/////.pbf",
		"a/b/c/d.mvt?limit=1", "a/b/c/d.mvt?sparse=2", "a/b/c.mvt", "a/b/c/dddd/e.mvt", "x/1/2/3/4/5/6/7.mvt", "k/%zz/1/2.mvt", "k/1/2/%4.mvt", "k/1/2/3.mvt?%zz",
		"viewer", "viewer/", "viewer/x.mvt", "viewer/../x", "\xff/1/2/3.mvt", "k/1/2/3.mvt.mvt", "k/1/2/mvt", "k/1/2/.pbf", "?x.mvt", "a?b/c/d/e.mvt", "",
	}
	for n := 0; n <= 8; n++ {
		for _, ext := range httpExts {
			for kind := 0; kind < 4; kind++ {
				reps := 1
				if kind == 3 {
					reps = perCell
				}
				for j := 0; j < reps; j++ {
					out = append(out, httpPath(rng, n, ext, kind))
				}
			}
		}
	}
	return out
}

// ---------- in-package: the rewrite against the model ----------

func runMvtModel(r *hx.Result, cfg hx.Config, rng *rand.Rand) {
	drv, err := model.Start("pipelive")
	if err != nil {
		r.Fail(hx.Failure{Kind: "correspondence", Signature: "mvt-model-missing", What: "the model driver of Model/MvtArgs.v does not start: " + err.Error()})
		return
	}
	defer drv.Close()
	per := 6
	if cfg.Tier == "thorough" || cfg.Search {
		per = 80
	}
	hexOr := func(s string) string {
		if s == "" {
			return "_"
		}
		return model.H(s)
	}
	for _, arg0 := range httpPathCorpus(rng, per) {
		if strings.ContainsAny(arg0, " \r\n") {
			continue
		}
		// (1) the callee alone, on the path as it is (no query): outcome and rewritten arguments
		path := arg0
		if i := strings.IndexByte(path, '?'); i >= 0 {
			path = path[:i]
		}
		mod, args, pan := verifapi.MvtFilterHTTPArgs(path, "")
		impl := "N"
		switch {
		case pan != "":
			impl = "P"
		case mod:
			if len(args) != 8 {
				impl = fmt.Sprintf("Y?%q", args)
			} else {
				impl = "Y " + strings.Join([]string{model.H(args[1]), model.H(args[7]), model.H(args[5]), model.H(args[6])}, ",")
			}
		}
		m := drv.Ask("mvtf", "e", hexOr(path))
		segs := strings.Count(path, "/") + 1
		r.Count("mvt\x00"+path, segs >= 4 && (strings.HasSuffix(path, ".mvt") || strings.HasSuffix(path, ".pbf")))
		r.Dist(fmt.Sprintf("mvt:segments=%d:%s", min(segs, 9), impl[:1]))
		if m != impl {
			r.Fail(hx.Failure{Kind: "correspondence", Signature: "mvt-filter-model", What: fmt.Sprintf("mvtFilterHTTPArgs(%q) and the model mvt_filter disagree (a run-time panic is outcome P)", path),
				Case: map[string]string{"path": strconv.Quote(path)}, Impl: impl + " " + pan, Model: m})
		}
		// (2) through the call site (query split off, suffix test): never a panic
		if strings.HasSuffix(path, ".mvt") || strings.HasSuffix(path, ".pbf") {
			me := drv.Ask("mvte", "e", hexOr(arg0))
			if pan != "" {
				r.Fail(hx.Failure{Kind: "oracle", Signature: "mvt-filter-panic", What: fmt.Sprintf("HTTP request path %q (GET /%s): mvtFilterHTTPArgs panics: %s — raised in handleInputCommand on the connection goroutine, the process exits", arg0, arg0, pan),
					Case: map[string]string{"arg0": strconv.Quote(arg0)}, Impl: pan})
			}
			if (me == "P") != (pan != "") || (me == "N") != (impl == "N") {
				r.Fail(hx.Failure{Kind: "correspondence", Signature: "mvt-entry-model", What: fmt.Sprintf("the call site on %q: model mvt_entry and the code disagree", arg0),
					Case: map[string]string{"arg0": strconv.Quote(arg0)}, Impl: impl + " " + pan, Model: me})
			}
		}
	}
}

// ---------- black box: HTTP paths ----------

func httpOnce(port int, req []byte, wait time.Duration) string {
	c, err := net.DialTimeout("tcp", "127.0.0.1:"+strconv.Itoa(port), 2*time.Second)
	if err != nil {
		return "dial: " + err.Error()
	}
	defer c.Close()
	c.SetDeadline(time.Now().Add(wait))
	c.Write(req)
	b, _ := io.ReadAll(io.LimitReader(c, 1<<16))
	return string(b)
}

func (a *argFuzz) runHTTPPaths(cfg hx.Config, rng *rand.Rand) {
	per := 3
	if cfg.Tier == "thorough" || cfg.Search {
		per = 40
	}
	var reqs [][]byte
	var names []string
	for _, p := range httpPathCorpus(rng, per) {
		if strings.ContainsAny(p, " \r\n") {
			continue
		}
		reqs = append(reqs, []byte("GET /"+p+" HTTP/1.1\r\nHost: x\r\n\r\n"))
		names = append(names, "GET /"+p)
		if rng.Intn(6) == 0 && len(p) > 2 { // the tail of the path arrives as the POST body
			cut := 1 + rng.Intn(len(p)-1)
			if !strings.Contains(p[:cut], "?") {
				reqs = append(reqs, []byte(fmt.Sprintf("POST /%s HTTP/1.1\r\nContent-Length: %d\r\n\r\n%s", p[:cut], len(p)-cut, p[cut:])))
				names = append(names, "POST /"+p[:cut]+" body "+p[cut:])
			}
		}
	}
	const batch = 25
	for i := 0; i < len(reqs); i += batch {
		hi := min(i+batch, len(reqs))
		for j := i; j < hi; j++ {
			httpOnce(a.s.Port, reqs[j], 400*time.Millisecond)
			a.r.Count("httppath\x00"+names[j], true)
			a.r.Dist("http-path")
		}
		if a.state() == "" {
			continue
		}
		// name the culprit: one request at a time on a fresh server
		culprit, logt := "", tail(a.s.LogTail(900))
		for j := i; j < hi; j++ {
			a.start()
			httpOnce(a.s.Port, reqs[j], 400*time.Millisecond)
			if st := a.state(); st != "" {
				culprit, logt = names[j]+" ("+st+")", tail(a.s.LogTail(900))
				break
			}
		}
		if culprit == "" {
			culprit = fmt.Sprintf("one of the %d requests %q … (not reproduced alone)", hi-i, names[i])
		}
		a.r.Fail(hx.Failure{Kind: "oracle", Signature: "crash-on-http-path", What: "a well-framed HTTP request kills the server and every other connection: " + strconv.Quote(culprit) + " | " + logt,
			Case: map[string]string{"request": strconv.Quote(culprit)}})
		a.start()
	}
	a.r.Extra["http_path_requests"] = len(reqs)
}

// ---------- black box: the metrics endpoint ----------

func runMetricsScrape(r *hx.Result, cfg hx.Config, rng *rand.Rand) {
	var s *srv.Server
	mport := 0
	start := func() bool {
		if s != nil {
			s.Kill()
		}
		mport = srv.FreePort()
		var err error
		s, err = respgen.StartServer(filepath.Join(cfg.Work, fmt.Sprintf("metrics-%d", mport)), nil, "--appendonly", "no", "--metrics-addr", "127.0.0.1:"+strconv.Itoa(mport))
		if err != nil {
			r.Fail(hx.Failure{Kind: "oracle", Signature: "metrics-server-start", What: "server with --metrics-addr does not start: " + err.Error()})
			return false
		}
		return true
	}
	if !start() {
		return
	}
	defer func() { s.Kill() }()
	scrape := func() (int, string) {
		cl := &http.Client{Timeout: 4 * time.Second}
		resp, err := cl.Get("http://127.0.0.1:" + strconv.Itoa(mport) + "/metrics")
		if err != nil {
			return 0, err.Error()
		}
		defer resp.Body.Close()
		b, _ := io.ReadAll(io.LimitReader(resp.Body, 1<<20))
		return resp.StatusCode, string(b)
	}
	bad := []string{"\xff\xfe", "\xc3", "k\xffz", "\xed\xa0\x80", "\xf8\x88\x80\x80\x80", "\x00", "caf\xe9", "ok-key", "\xef\xbf\xbd", "a\x80", "\xc0\xaf"}
	n := 14
	if cfg.Tier == "thorough" || cfg.Search {
		n = 120
	}
	tok := func() string {
		if rng.Intn(3) == 0 {
			return respgen.RandArg(rng, 1+rng.Intn(5))
		}
		return bad[rng.Intn(len(bad))]
	}
	var cases [][]string
	cases = append(cases, []string{"SET", "\xff\xfe", "id", "POINT", "1", "1"}, []string{"SET", "k", "\xff\xfe", "POINT", "1", "1"}, []string{"\xff\xfe", "k"}, []string{"PI\xffNG"},
		[]string{"SET", "k\xff", "s", "STRING", "\xff"}, []string{"JSET", "\xfe", "j", "a", "1"}, []string{"SETCHAN", "\xff", "NEARBY", "\xfe", "FENCE", "POINT", "1", "1", "1"}, []string{"RENAME", "k", "\xc3"})
	for i := 0; i < n; i++ {
		switch rng.Intn(5) {
		case 0:
			cases = append(cases, []string{tok(), tok()})
		case 1:
			cases = append(cases, []string{"SET", tok(), tok(), "STRING", tok()})
		case 2:
			cases = append(cases, []string{"FSET", tok(), tok(), tok(), "1"})
		default:
			cases = append(cases, []string{"SET", tok(), tok(), "POINT", "1", "1"})
		}
	}
	if code, body := scrape(); code != 200 {
		r.Fail(hx.Failure{Kind: "oracle", Signature: "metrics-scrape-fails", What: fmt.Sprintf("GET /metrics on a fresh server: status %d %s", code, body[:min(len(body), 200)])})
		return
	}
	for _, cmd := range cases {
		c, err := s.Dial()
		if err != nil {
			break
		}
		c.Timeout = 3 * time.Second
		c.Do(cmd...)
		c.Close()
		code, body := scrape()
		time.Sleep(2 * time.Millisecond)
		r.Count("metrics\x00"+strings.Join(cmd, "\x00"), true)
		r.Dist("metrics-scrape")
		if !s.Alive() || !alive(s) {
			r.Fail(hx.Failure{Kind: "oracle", Signature: "crash-on-metrics-scrape", What: "after " + qargs(cmd) + " one GET /metrics on the --metrics-addr port kills the server: " + tail(s.LogTail(6000)),
				Case: map[string]string{"command": qargs(cmd)}, Impl: fmt.Sprintf("scrape: %d %s", code, body[:min(len(body), 120)])})
			if !start() {
				return
			}
			continue
		}
		if code != 200 {
			// a scrape that is refused (two keys with the same sanitised label) is not a crash; recorded only
			r.Dist("metrics-scrape:status-" + strconv.Itoa(code))
			if c2, err := s.Dial(); err == nil {
				c2.Do("FLUSHDB")
				c2.Close()
			}
		}
	}
}
