// C16 across the hand-over to live mode: streams that contain SUBSCRIBE / PSUBSCRIBE / a live
// NEARBY ... FENCE (after OUTPUT switches and ordinary commands) followed by further commands, sent over
// real TCP cut at EVERY byte offset (2-way), byte-at-a-time and at random k-way cuts, in RESP and telnet
// framing. The reply bytes must be those of the same stream sent one command per segment.
//
// Model tie: coq/Model/PipelineLive.v (driver ocaml/pipelive). The source's hand-over is ho_repaired
// (c16_live_chunking_source): every segmentation must give the reference replies. A reply stream that
// differs is first compared with what the model predicts for the hand-over BEFORE the repairs
// C16-live-handover-drops-rest / C16-live-error-drops-read (ho_pinned: rest of the hand-over read
// forgotten, a live loop drops the messages of a read that ends in a malformed frame) on the segmentation
// that was sent or a coarsening of it (two segments written a few ms apart may reach the server in one
// read): if exactly the commands that model leaves unhandled are missing, the failure gets the signature
// of that (fixed) defect — a regression of the repair —, otherwise bb-live-segmentation-replies. Either
// way it is a failure with the stream and the cut as the failing input.
package main

import (
	"bytes"
	"fmt"
	"math/rand"
	"net"
	"path/filepath"
	"regexp"
	"sort"
	"strconv"
	"strings"
	"sync"
	"time"

	"verifharness/internal/hx"
	"verifharness/internal/model"
	"verifharness/internal/respgen"
)

type lvItem struct {
	wire []byte
	cmd  bool // false: a malformed frame (yields an error, no message)
	text string
}

type lvStream struct {
	name  string
	items []lvItem
}

func (s lvStream) bytes() []byte {
	var b []byte
	for _, it := range s.items {
		b = append(b, it.wire...)
	}
	return b
}

func (s lvStream) String() string {
	var t []string
	for _, it := range s.items {
		t = append(t, it.text)
	}
	return strings.Join(t, " | ")
}

// every exchange ends with this segment of its own: it closes the connection in every mode
var lvTerminator = lvItem{wire: []byte("QUIT\r\n"), cmd: true, text: "QUIT"}

func lvCmd(form string, args ...string) lvItem {
	if form == "telnet" {
		if t, ok := telnetForm(args); ok {
			return lvItem{wire: []byte(t), cmd: true, text: strings.Join(args, " ")}
		}
	}
	return lvItem{wire: respgen.Encode(args...), cmd: true, text: "*" + strings.Join(args, " ")}
}

func lvBad(wire string) lvItem { return lvItem{wire: []byte(wire), cmd: false, text: strconv.Quote(wire)} }

func lvDirected() []lvStream {
	var out []lvStream
	fence := []string{"NEARBY", "c16livefleet", "FENCE", "POINT", "33", "-115", "1000"}
	for _, f := range []string{"resp", "telnet"} {
		out = append(out,
			lvStream{f + ":subscribe", []lvItem{lvCmd(f, "SUBSCRIBE", "ch"), lvCmd(f, "PING", "hello"), lvCmd(f, "QUIT")}},
			lvStream{f + ":psubscribe", []lvItem{lvCmd(f, "PING", "pre"), lvCmd(f, "PSUBSCRIBE", "ch*"), lvCmd(f, "PING", "hello"), lvCmd(f, "SUBSCRIBE", "x"), lvCmd(f, "BOGUS", "y")}},
			lvStream{f + ":output-json-subscribe", []lvItem{lvCmd(f, "OUTPUT", "json"), lvCmd(f, "SUBSCRIBE", "ch"), lvCmd(f, "PING", "hello"), lvCmd(f, "UNSUBSCRIBE", "ch")}},
			lvStream{f + ":output-switches-psubscribe", []lvItem{lvCmd(f, "OUTPUT", "json"), lvCmd(f, "GET", "c16nokey", "noid"), lvCmd(f, "OUTPUT", "resp"), lvCmd(f, "PSUBSCRIBE", "a*", "b*"), lvCmd(f, "PING"), lvCmd(f, "PUNSUBSCRIBE", "a*")}},
			lvStream{f + ":fence", []lvItem{lvCmd(f, "PING", "pre"), lvCmd(f, fence...), lvCmd(f, "QUIT")}},
			lvStream{f + ":output-json-fence", []lvItem{lvCmd(f, "OUTPUT", "json"), lvCmd(f, fence...), lvCmd(f, "PING", "x")}},
			lvStream{f + ":subscribe-then-malformed", []lvItem{lvCmd(f, "SUBSCRIBE", "ch"), lvCmd(f, "PING", "a"), lvBad("*x\r\n")}},
		)
	}
	// framing changes at the switch
	out = append(out, lvStream{"mixed:subscribe", []lvItem{lvCmd("resp", "SUBSCRIBE", "ch"), lvCmd("telnet", "PING", "hello"), lvCmd("resp", "PING", "again")}})
	return out
}

func lvRandom(rng *rand.Rand, i int) lvStream {
	form := func() string { return []string{"resp", "telnet"}[rng.Intn(2)] }
	var items []lvItem
	for n := rng.Intn(3); n > 0; n-- {
		switch rng.Intn(5) {
		case 0:
			items = append(items, lvCmd(form(), "OUTPUT", []string{"json", "resp"}[rng.Intn(2)]))
		case 1:
			items = append(items, lvCmd(form(), "GET", "c16nokey", ids[rng.Intn(2)]))
		case 2:
			items = append(items, lvCmd(form(), "BOGUS", respgen.RandArg(rng, 3)))
		default:
			items = append(items, lvCmd(form(), "PING", "p"+strconv.Itoa(rng.Intn(100))))
		}
	}
	kind := rng.Intn(5)
	switch kind {
	case 0:
		items = append(items, lvCmd(form(), "NEARBY", "c16livefleet", "FENCE", "POINT", strconv.Itoa(rng.Intn(80)), strconv.Itoa(rng.Intn(170)), "500"))
	case 1, 2:
		items = append(items, lvCmd(form(), "PSUBSCRIBE", "c"+strconv.Itoa(rng.Intn(9))+"*"))
	default:
		items = append(items, lvCmd(form(), "SUBSCRIBE", "c"+strconv.Itoa(rng.Intn(9)), "d"))
	}
	for n := 1 + rng.Intn(3); n > 0; n-- {
		switch rng.Intn(6) {
		case 0:
			items = append(items, lvCmd(form(), "SUBSCRIBE", "s"+strconv.Itoa(rng.Intn(9))))
		case 1:
			items = append(items, lvCmd(form(), "UNSUBSCRIBE", "d"))
		case 2:
			items = append(items, lvCmd(form(), "BOGUS"))
		case 3:
			items = append(items, lvCmd(form(), "PING"))
		default:
			items = append(items, lvCmd(form(), "PING", respgen.RandArg(rng, 1+rng.Intn(6))))
		}
	}
	if rng.Intn(8) == 0 {
		items = append(items, lvBad("*1\r\n$-5\r\n"))
	}
	return lvStream{fmt.Sprintf("random-%d", i), items}
}

// one exchange: the segments, then the terminator as a segment of its own; every reply byte up to the close
func lvExchange(port int, segs [][]byte, pace, settle time.Duration, waitQuiet bool) (string, error) {
	c, err := net.DialTimeout("tcp", "127.0.0.1:"+strconv.Itoa(port), 2*time.Second)
	if err != nil {
		return "", err
	}
	defer c.Close()
	if tc, ok := c.(*net.TCPConn); ok {
		tc.SetNoDelay(true)
	}
	var mu sync.Mutex
	var all []byte
	last := time.Now()
	done := make(chan bool)
	go func() {
		buf := make([]byte, 1<<16)
		c.SetReadDeadline(time.Now().Add(800 * time.Millisecond))
		for {
			n, err := c.Read(buf)
			mu.Lock()
			all = append(all, buf[:n]...)
			last = time.Now()
			mu.Unlock()
			if err != nil {
				ne, ok := err.(net.Error)
				done <- !(ok && ne.Timeout())
				return
			}
		}
	}()
	quiesce := func(d time.Duration) {
		// wait until nothing has arrived for d (at most 40 d)
		for i := 0; i < 40; i++ {
			time.Sleep(d)
			mu.Lock()
			idle := time.Since(last)
			mu.Unlock()
			if idle >= d {
				return
			}
		}
	}
	for i, sg := range segs {
		c.SetWriteDeadline(time.Now().Add(3 * time.Second))
		if _, err := c.Write(sg); err != nil {
			break
		}
		if i == len(segs)-1 {
			break
		}
		if waitQuiet {
			quiesce(pace)
		} else {
			time.Sleep(pace)
		}
	}
	if waitQuiet {
		quiesce(settle)
	} else {
		time.Sleep(settle)
	}
	c.SetWriteDeadline(time.Now().Add(3 * time.Second))
	c.Write(lvTerminator.wire)
	closed := <-done
	mu.Lock()
	defer mu.Unlock()
	tag := "<closed>"
	if !closed {
		tag = "<left open>"
	}
	return lvCanon(all) + tag, nil
}

var lvBulkJSON = regexp.MustCompile(`\$[0-9]+\r\n\{`)

// reply bytes without what legitimately varies: "elapsed" members and, with them, the length prefix of a
// JSON document sent as a RESP bulk string
func lvCanon(b []byte) string {
	return lvBulkJSON.ReplaceAllString(stripElapsed(b), "$$#\r\n{")
}

// what the model says is handled: indices of the command items (the terminator is the last one) and
// whether the malformed frame was acted on
type lvPred struct {
	key      string
	handled  []int
	errActed bool
	dropHO   bool // something was left unhandled at the hand-over
	dropErr  bool // a live loop dropped the messages of a read because of its error
}

func lvParse(out string, ncmd int) (lvPred, bool) {
	f := strings.Fields(out)
	if len(f) < 8 || (f[0] != "O" && f[0] != "X") {
		return lvPred{}, false
	}
	num := func(s string) int { n, _ := strconv.Atoi(s); return n }
	n, l, dho, pe, de := num(f[2]), num(f[3]), num(f[4]), f[5] == "1", num(f[6])
	var p lvPred
	idx := 0
	for i := 0; i < n && idx < ncmd; i++ {
		p.handled = append(p.handled, idx)
		idx++
	}
	idx += dho
	for i := 0; i < l && idx < ncmd; i++ {
		p.handled = append(p.handled, idx)
		idx++
	}
	p.errActed = f[0] == "X"
	p.dropHO = dho > 0 || pe
	p.dropErr = de > 0
	p.key = fmt.Sprint(p.handled, p.errActed)
	return p, true
}

// all coarsenings of a segmentation (adjacent segments merged) when it is short, every single merged run
// of up to 6 segments otherwise
func lvCoarsenings(segs [][]byte) [][][]byte {
	k := len(segs)
	var out [][][]byte
	join := func(a [][]byte) []byte { return bytes.Join(a, nil) }
	if k <= 6 {
		for mask := 0; mask < 1<<(k-1); mask++ { // bit i set: boundary after segment i is merged away
			var cur [][]byte
			start := 0
			for i := 0; i < k; i++ {
				if i == k-1 || mask&(1<<i) == 0 {
					cur = append(cur, join(segs[start:i+1]))
					start = i + 1
				}
			}
			out = append(out, cur)
		}
		return out
	}
	out = append(out, segs)
	for i := 0; i < k; i++ {
		for j := i + 1; j < k && j < i+6; j++ {
			var cur [][]byte
			cur = append(cur, segs[:i]...)
			cur = append(cur, join(segs[i:j+1]))
			cur = append(cur, segs[j+1:]...)
			out = append(out, cur)
		}
	}
	return out
}

func runLiveHandover(r *hx.Result, cfg hx.Config, rng *rand.Rand) {
	drv, err := model.Start("pipelive")
	if err != nil {
		r.Fail(hx.Failure{Kind: "correspondence", Signature: "live-model-missing", What: "the model driver of Model/PipelineLive.v does not start: " + err.Error()})
		return
	}
	defer drv.Close()
	s, err := respgen.StartServer(filepath.Join(cfg.Work, "live"), nil, "--appendonly", "no")
	if err != nil {
		panic(err)
	}
	defer func() { s.Kill() }()

	streams := lvDirected()
	nRand := 6
	if cfg.Tier == "thorough" {
		nRand = 60
	} else if cfg.Search {
		nRand = 24
	}
	for i := 0; i < nRand; i++ {
		streams = append(streams, lvRandom(rng, i))
	}

	type job struct {
		si   int
		offs []int
		kind string
		got  string
	}
	var jobs []job
	for si, st := range streams {
		b := st.bytes()
		directed := si < len(streams)-nRand
		step := 1
		if !directed && cfg.Tier == "quick" && !cfg.Search {
			step = 1 + len(b)/14
		}
		first := 1
		if step > 1 {
			first = 1 + rng.Intn(step)
		}
		jobs = append(jobs, job{si: si, offs: nil, kind: "whole"})
		for o := first; o < len(b); o += step {
			jobs = append(jobs, job{si: si, offs: []int{o}, kind: "cut2"})
		}
		all := make([]int, 0, len(b))
		for o := 1; o < len(b); o++ {
			all = append(all, o)
		}
		jobs = append(jobs, job{si: si, offs: all, kind: "bytewise"})
		for j := 0; j < 3; j++ {
			jobs = append(jobs, job{si: si, offs: randCuts(rng, len(b)-1, 2+rng.Intn(3)), kind: "kway"})
		}
	}

	// references: one command per segment, waiting for the replies of each before the next is written
	refCache := map[string]string{}
	subRef := func(st lvStream, p lvPred) string {
		key := st.name + "\x00" + p.key
		if v, ok := refCache[key]; ok {
			return v
		}
		var segs [][]byte
		ci := 0
		h := map[int]bool{}
		for _, i := range p.handled {
			h[i] = true
		}
		for _, it := range st.items {
			if it.cmd {
				if h[ci] {
					segs = append(segs, it.wire)
				}
				ci++
			} else if p.errActed {
				segs = append(segs, it.wire)
			}
		}
		v, _ := lvExchange(s.Port, segs, 12*time.Millisecond, 12*time.Millisecond, true)
		refCache[key] = v
		return v
	}
	fullRef := make([]string, len(streams))
	{
		fullRef2 := make([]string, len(streams))
		var wg sync.WaitGroup
		for si := range streams {
			wg.Add(1)
			go func(si int) {
				defer wg.Done()
				var segs [][]byte
				for _, it := range streams[si].items {
					segs = append(segs, it.wire)
				}
				fullRef[si], _ = lvExchange(s.Port, segs, 12*time.Millisecond, 12*time.Millisecond, true)
				fullRef2[si], _ = lvExchange(s.Port, segs, 25*time.Millisecond, 25*time.Millisecond, true)
			}(si)
		}
		wg.Wait()
		for si, st := range streams {
			if fullRef[si] != fullRef2[si] {
				r.Fail(hx.Failure{Kind: "oracle", Signature: "bb-live-reference-unstable", What: "the same stream sent twice, one command per segment, got two different reply streams", Case: st.String(), Impl: strconv.Quote(fullRef[si]), Model: strconv.Quote(fullRef2[si])})
			}
		}
	}
	segsOf := func(j job) [][]byte { return cutAt(streams[j.si].bytes(), j.offs) }
	paceOf := func(j job, slow int) (time.Duration, time.Duration) {
		pace := 3 * time.Millisecond
		if len(j.offs) > 20 {
			pace = 400 * time.Microsecond
		}
		return pace * time.Duration(slow), 15 * time.Millisecond * time.Duration(slow)
	}
	// the exchanges of one stream, in parallel (each on a connection of its own; the streams do not write data)
	exchangeStream := func(si int) {
		var wg sync.WaitGroup
		ch := make(chan int)
		for w := 0; w < 16; w++ {
			wg.Add(1)
			go func() {
				defer wg.Done()
				for ji := range ch {
					pace, settle := paceOf(jobs[ji], 1)
					jobs[ji].got, _ = lvExchange(s.Port, segsOf(jobs[ji]), pace, settle, false)
				}
			}()
		}
		for ji := range jobs {
			if jobs[ji].si == si {
				ch <- ji
			}
		}
		close(ch)
		wg.Wait()
	}

	ncmdOf := func(st lvStream) int {
		n := 1 // the terminator
		for _, it := range st.items {
			if it.cmd {
				n++
			}
		}
		return n
	}
	ask := func(flags string, segs [][]byte) string {
		req := []string{"live", flags}
		for _, c := range segs {
			req = append(req, model.H(string(c)))
		}
		return drv.Ask(req...)
	}
	// does the pinned model explain `got` by commands it leaves unhandled?
	explain := func(st lvStream, segs [][]byte, got string) (lvPred, bool) {
		full := append(append([][]byte{}, segs...), lvTerminator.wire)
		for _, cs := range lvCoarsenings(full) {
			p, ok := lvParse(ask("100", cs), ncmdOf(st))
			if !ok || !(p.dropHO || p.dropErr) {
				continue
			}
			if subRef(st, p) == got {
				return p, true
			}
		}
		return lvPred{}, false
	}
	known := map[string]int{}
	unexplained, lastSi := 0, -1
	for ji := range jobs {
		j := &jobs[ji]
		st := streams[j.si]
		if unexplained >= 4 { // enough failing inputs: the rest of the sweep would only repeat them
			r.Extra["live_handover_stopped_at_job"] = ji
			break
		}
		if j.si != lastSi {
			exchangeStream(j.si)
			lastSi = j.si
		}
		segs := segsOf(*j)
		inside := false // a cut strictly inside a command at or after the live command
		{
			pos, live := 0, false
			for _, it := range st.items {
				t := strings.ToUpper(it.text)
				if strings.Contains(t, "SUBSCRIBE") || strings.Contains(t, "FENCE") {
					live = true
				}
				if live {
					for _, o := range j.offs {
						if o > pos && o < pos+len(it.wire) {
							inside = true
						}
					}
				}
				pos += len(it.wire)
			}
		}
		r.Count(fmt.Sprintf("live\x00%s\x00%x\x00%v", st.name, st.bytes(), j.offs), inside)
		r.Dist("bb-live:" + strings.SplitN(st.name, ":", 2)[0] + ":" + j.kind)
		verdict := ""
		var pred lvPred
		for attempt := 0; attempt < 3 && verdict == ""; attempt++ {
			if attempt > 0 { // once more, slower: a transient scheduling effect does not repeat
				pace, settle := paceOf(*j, 3*attempt)
				j.got, _ = lvExchange(s.Port, segs, pace, settle, false)
				r.Dist("bb-live:retry")
			}
			if j.got == fullRef[j.si] {
				verdict = "ok"
			} else if p, ok := explain(st, segs, j.got); ok {
				verdict, pred = "known", p
			}
		}
		switch verdict {
		case "ok":
		case "known":
			sig := "bb-live-handover-drops-rest"
			what := "commands that arrive in the same read as the command that switches the connection to live mode are not handled (regression of the repair C16-live-handover-drops-rest: the model with the hand-over before the repair, ho_pinned, predicts exactly these replies)"
			if pred.dropErr && !pred.dropHO {
				sig = "bb-live-error-drops-read"
				what = "a live connection does not handle the commands parsed before a malformed frame of the same read (regression of the repair C16-live-error-drops-read: the model with the live loop before the repair predicts exactly these replies)"
			}
			what = fmt.Sprintf("stream %s cut at %v (%s): replies %s, but %s when sent one command per segment — %s", q(st.bytes()), j.offs, j.kind, strconv.Quote(j.got), strconv.Quote(fullRef[j.si]), what)
			known[sig]++
			r.Fail(hx.Failure{Kind: "oracle", Signature: sig, What: what,
				Case: map[string]interface{}{"stream": st.String(), "bytes": q(st.bytes()), "cuts": j.offs, "handled": pred.handled}, Impl: strconv.Quote(j.got), Model: strconv.Quote(fullRef[j.si])})
		default:
			unexplained++
			exact, _ := lvParse(ask("100", append(append([][]byte{}, segs...), lvTerminator.wire)), ncmdOf(st))
			r.Fail(hx.Failure{Kind: "oracle", Signature: "bb-live-segmentation-replies",
				What: fmt.Sprintf("stream %s cut at %v (%s): replies %s, but %s when sent one command per segment — across the hand-over to live mode the reply bytes depend on where the request stream was cut (nor is it what the hand-over before the repairs would have answered)",
					q(st.bytes()), j.offs, j.kind, strconv.Quote(j.got), strconv.Quote(fullRef[j.si])),
				Case: map[string]interface{}{"stream": st.String(), "bytes": q(st.bytes()), "cuts": j.offs, "kind": j.kind, "model_handled": exact.handled},
				Impl: strconv.Quote(j.got), Model: strconv.Quote(fullRef[j.si])})
		}
		if !s.Alive() {
			r.Fail(hx.Failure{Kind: "oracle", Signature: "crash-on-input", What: "the server died during the live hand-over sweep: " + tail(s.LogTail(600)), Case: st.String()})
			return
		}
	}
	r.TracesImpl += len(streams)
	ks := []string{}
	for k, v := range known {
		ks = append(ks, fmt.Sprintf("%s=%d", k, v))
	}
	sort.Strings(ks)
	r.Extra["live_handover_jobs"] = len(jobs)
	r.Extra["live_handover_known"] = strings.Join(ks, " ")
	r.Sample(6, map[string]interface{}{"live_stream": streams[0].String(), "reference": fullRef[0], "jobs": len(jobs)})
}
