// C16, argument-level malformed stream: well-framed RESP arrays whose ARGUMENTS are hostile.
// Every command of core/commands.json plus the undocumented ones, built from valid skeletons that are
// truncated at every position and mutated with hostile tokens (empty string, parentheses, huge /
// negative / non-numeric numbers, invalid UTF-8, JSON fragments, glob metacharacters, other keywords).
// Oracle (black-box, no model): the process and a bystander connection stay alive and every command gets
// exactly one reply.
package main

import (
	"encoding/json"
	"fmt"
	"math/rand"
	"os"
	"path/filepath"
	"sort"
	"strconv"
	"strings"
	"time"

	"verifharness/internal/hx"
	"verifharness/internal/respgen"
	"verifharness/internal/srv"
)

const gjPoint = `{"type":"Point","coordinates":[-115,33]}`
const gjPoly = `{"type":"Polygon","coordinates":[[[-116,32],[-114,32],[-114,34],[-116,34],[-116,32]]]}`

// valid skeletons (one or more per command); "live" ones change the connection mode and get a connection of their own
var skeletons = [][]string{
	{"SET", "k", "id1", "POINT", "33", "-115"},
	{"SET", "k", "id1", "FIELD", "f", "5", "FIELD", "g", "2.5", "EX", "10", "NX", "POINT", "33", "-115", "7"},
	{"SET", "k", "id2", "XX", "BOUNDS", "1", "1", "2", "2"},
	{"SET", "k", "id3", "HASH", "9q"},
	{"SET", "k", "s1", "STRING", "v"},
	{"SET", "k", "o1", "FIELD", "f", `{"a":1}`, "OBJECT", gjPoly},
	{"FSET", "k", "id1", "XX", "f", "5", "g", "6"},
	{"GET", "k", "id1", "WITHFIELDS", "POINT"},
	{"GET", "k", "id1", "HASH", "5"},
	{"GET", "k", "id1", "BOUNDS"},
	{"GET", "k", "id1", "OBJECT"},
	{"DEL", "k", "id1", "ERRON404"},
	{"PDEL", "k", "id*"},
	{"DROP", "k2"},
	{"RENAME", "k", "k3"},
	{"RENAMENX", "k3", "k"},
	{"EXPIRE", "k", "id1", "10"},
	{"PERSIST", "k", "id1"},
	{"TTL", "k", "id1"},
	{"EXISTS", "k", "id1"},
	{"FEXISTS", "k", "id1", "f"},
	{"FGET", "k", "id1", "f"},
	{"BOUNDS", "k"},
	{"KEYS", "*"},
	{"STATS", "k", "k2"},
	{"TYPE", "k"},
	{"SCAN", "k", "WHERE", "f", "1", "5", "WHEREIN", "f", "2", "1", "2", "WHEREEVAL", "return true", "0", "MATCH", "id*", "CURSOR", "0", "LIMIT", "5", "NOFIELDS", "ASC", "IDS"},
	{"SCAN", "k", "WHERE", "f > 1 && (g < 5 || f == 2)", "DESC", "COUNT"},
	{"SCAN", "k", "WHEREEVALSHA", "da39a3ee5e6b4b0d3255bfef95601890afd80709", "1", "a", "HASHES", "5"},
	{"SCAN", "k", "FIELDS", "2", "f", "g", "POINTS"},
	{"SEARCH", "k", "MATCH", "s*", "DESC", "LIMIT", "5", "WHERE", "f", "-inf", "+inf"},
	{"NEARBY", "k", "SPARSE", "2", "DISTANCE", "LIMIT", "5", "POINT", "33", "-115", "1000"},
	{"NEARBY", "k", "WHERE", "f", "0", "9", "NOFIELDS", "BOUNDS", "POINT", "33", "-115"},
	{"WITHIN", "k", "CLIP", "BOUNDS", "1", "1", "40", "-100"},
	{"WITHIN", "k", "BUFFER", "10", "CIRCLE", "33", "-115", "1000"},
	{"WITHIN", "k", "SECTOR", "33", "-115", "1000", "0", "90"},
	{"WITHIN", "k", "TILE", "1", "1", "2"},
	{"WITHIN", "k", "QUADKEY", "0231"},
	{"WITHIN", "k", "HASH", "9q"},
	{"WITHIN", "k", "OBJECT", gjPoly},
	{"WITHIN", "k", "GET", "k", "o1"},
	{"INTERSECTS", "k", "CLIPBY", "BOUNDS", "1", "1", "40", "-100", "OBJECT", gjPoly},
	{"INTERSECTS", "k", "MATCH", "*", "IDS", "CIRCLE", "33", "-115", "1000"},
	{"TEST", "POINT", "1", "1", "WITHIN", "BOUNDS", "0", "0", "2", "2"},
	{"TEST", "GET", "k", "id1", "INTERSECTS", "CLIP", "CIRCLE", "33", "-115", "100"},
	{"TEST", "OBJECT", gjPoint, "WITHIN", "SECTOR", "33", "-115", "1000", "0", "90"},
	{"JSET", "k", "j1", "a.b", "5", "RAW"},
	{"JSET", "k", "j1", "a.c", "x", "STR"},
	{"JGET", "k", "j1", "a.b", "RAW"},
	{"JDEL", "k", "j1", "a.b"},
	{"SETHOOK", "h1", "http://127.0.0.1:9/x", "META", "m", "v", "EX", "10", "NEARBY", "k", "FENCE", "DETECT", "enter,exit", "COMMANDS", "set,del", "NODWELL", "POINT", "33", "-115", "1000"},
	{"SETHOOK", "h2", "http://127.0.0.1:9/y", "NEARBY", "k", "FENCE", "ROAM", "k2", "*", "100"},
	{"SETHOOK", "h3", "kafka://127.0.0.1:9/t,redis://127.0.0.1:9/c", "INTERSECTS", "k", "WHERE", "f", "1", "2", "FENCE", "OBJECT", gjPoly},
	{"SETCHAN", "c1", "WITHIN", "k", "FENCE", "DETECT", "inside,outside,cross", "BOUNDS", "1", "1", "2", "2"},
	{"DELHOOK", "h1"}, {"PDELHOOK", "h*"}, {"HOOKS", "*"}, {"CHANS", "*"}, {"DELCHAN", "c1"}, {"PDELCHAN", "*"},
	{"TIMEOUT", "1", "SCAN", "k", "LIMIT", "2"},
	{"TIMEOUT", "0.5", "WITHIN", "k", "BOUNDS", "1", "1", "2", "2"},
	{"CLIENT", "LIST"}, {"CLIENT", "GETNAME"}, {"CLIENT", "SETNAME", "n"},
	{"CONFIG", "GET", "keepalive"}, {"CONFIG", "SET", "keepalive", "10"}, {"CONFIG", "REWRITE"},
	{"EVAL", "return 1", "0"},
	{"EVAL", "return tile38.call('GET', KEYS[1], ARGV[1])", "1", "k", "id1"},
	{"EVALRO", "return tile38.pcall('SCAN', KEYS[1], 'LIMIT', ARGV[1])", "1", "k", "2"},
	{"EVALNA", "return {1,2,{3,'x'}}", "0"},
	{"EVALSHA", "da39a3ee5e6b4b0d3255bfef95601890afd80709", "0"},
	{"EVALROSHA", "da39a3ee5e6b4b0d3255bfef95601890afd80709", "1", "k"},
	{"EVALNASHA", "da39a3ee5e6b4b0d3255bfef95601890afd80709", "0"},
	{"SCRIPT", "LOAD", "return 1"}, {"SCRIPT", "EXISTS", "da39a3ee5e6b4b0d3255bfef95601890afd80709", "x"}, {"SCRIPT", "FLUSH"},
	{"OUTPUT", "json"}, {"OUTPUT", "resp"}, {"PING"}, {"ECHO", "x"}, {"AUTH", "p"},
	{"SERVER", "EXT"}, {"INFO"}, {"ROLE"}, {"HEALTHZ"}, {"GC"}, {"AOFMD5", "0", "10"}, {"AOFSHRINK"},
	{"READONLY", "no"}, {"FLUSHDB"}, {"PUBLISH", "c", "m"}, {"REPLCONF", "listening-port", "1"},
}

// commands that change the mode of their connection: each on a connection of its own, liveness only
var liveSkeletons = [][]string{
	{"QUIT"},
	{"SUBSCRIBE", "c1", "c2"},
	{"PSUBSCRIBE", "c*"},
	{"NEARBY", "k", "FENCE", "DETECT", "enter,exit", "POINT", "33", "-115", "1000"},
	{"NEARBY", "k", "FENCE", "ROAM", "k2", "*", "100"},
	{"WITHIN", "k", "FENCE", "NODWELL", "BOUNDS", "1", "1", "2", "2"},
	{"INTERSECTS", "k", "WHERE", "f", "1", "2", "FENCE", "COMMANDS", "set", "OBJECT", gjPoly},
}

// never sent: they stop / re-role the server, switch it to raw log streaming, or block
var skipped = map[string]bool{"SHUTDOWN": true, "FOLLOW": true, "SLAVEOF": true, "AOF": true, "MONITOR": true, "SLEEP": true, "MASSINSERT": true}

var keywords = []string{"WHERE", "WHEREIN", "WHEREEVAL", "WHEREEVALSHA", "MATCH", "CURSOR", "LIMIT", "SPARSE", "FIELD", "FIELDS", "EX", "NX", "XX",
	"NOFIELDS", "WITHFIELDS", "DISTANCE", "DETECT", "COMMANDS", "ROAM", "NODWELL", "CLIP", "CLIPBY", "BUFFER", "POINT", "BOUNDS", "OBJECT", "STRING",
	"HASH", "TILE", "QUADKEY", "CIRCLE", "SECTOR", "GET", "IDS", "COUNT", "OBJECTS", "POINTS", "HASHES", "ASC", "DESC", "RAW", "STR", "META",
	"WITHIN", "INTERSECTS", "NEARBY", "SET", "LOAD", "EXISTS", "FLUSH", "LIST", "REWRITE", "json", "resp", "yes", "no", "ERRON404"}

var hostile = []string{"", "", " ", "(", ")", "(5", "5)", "()", "((((", "-", "+", ".", ",", "*", "?", "[", "]", "[a-", "\\", "a\\", "{", "}", "[1,", `{"a":`, `{"type":"Point"}`,
	`{"type":"Polygon","coordinates":[]}`, `{"type":"Point","coordinates":[1e400,1]}`, `"`, "'", "null", "true",
	"9223372036854775808", "9223372036854775807", "-9223372036854775809", "18446744073709551616", "4611686018427387904", "-1", "0", "-0", "1e400", "-1e400", "1e-400",
	"nan", "NaN", "inf", "-inf", "+inf", "Infinity", "0x10", "1_0", "1.", ".5", "1,5", "٣", "00000000000000000001",
	"\xff", "\xc3", "\xe2\x82", "a\x00b", "\x00", "é", "\r\n", "a b", "a\tb",
	"&&", "||", "!", "==", "f >", "f > 1 &&", "1 +", "f == (", "f in", "f ==== 1", "f > 1 && (g <", "'unterminated", "f.", ".f", "f..g", "z", "lat", "lon",
	"enter,", ",", "enter,bogus", "set,", "bogus",
	"http://", "://", "grpc://[::1", "mqtt://127.0.0.1:9", "local://", "amqp://u:p@127.0.0.1:9/q?x=%zz",
}

func longTokens() []string {
	return []string{strings.Repeat("a", 70000), strings.Repeat("(", 3000), strings.Repeat("9", 400), strings.Repeat("0231", 40), strings.Repeat("[", 2000), strings.Repeat("{\"a\":", 500)}
}

// all command names: commands.json + the undocumented ones handled by Server.command
func allCommandNames() []string {
	names := map[string]bool{}
	repo := os.Getenv("VERIF_REPO")
	if repo == "" {
		repo = "/repo"
	}
	if b, err := os.ReadFile(filepath.Join(repo, "core", "commands.json")); err == nil {
		var m map[string]json.RawMessage
		if json.Unmarshal(b, &m) == nil {
			for k := range m {
				names[strings.ToUpper(k)] = true
			}
		}
	}
	for _, n := range []string{"JSET", "JGET", "JDEL", "TEST", "TIMEOUT", "CLIENT", "CONFIG", "SCRIPT", "TYPE", "INFO", "ROLE", "HEALTHZ", "ECHO", "PUBLISH", "REPLCONF",
		"EVALRO", "EVALROSHA", "EVALNA", "EVALNASHA", "AOFMD5", "SEARCH", "RENAMENX", "PDELCHAN", "READONLY"} {
		names[n] = true
	}
	var out []string
	for n := range names {
		out = append(out, n)
	}
	sort.Strings(out)
	return out
}

func pickTok(rng *rand.Rand, long []string) string {
	switch rng.Intn(20) {
	case 0:
		return long[rng.Intn(len(long))]
	case 1, 2, 3, 4:
		return keywords[rng.Intn(len(keywords))]
	case 5:
		return []string{"k", "k2", "id1", "f", "5", "33", "-115", gjPoint}[rng.Intn(8)]
	}
	return hostile[rng.Intn(len(hostile))]
}

// the mutants of one skeleton: every truncation, and n random single/double mutations
func mutants(rng *rand.Rand, sk []string, n int, long []string) [][]string {
	var out [][]string
	out = append(out, append([]string{}, sk...))
	for i := 1; i < len(sk); i++ {
		out = append(out, append([]string{}, sk[:i]...))
	}
	// the empty token at every argument position (the class of the detectExprToken crash)
	for i := 1; i < len(sk); i++ {
		m := append([]string{}, sk...)
		m[i] = ""
		out = append(out, m)
	}
	for j := 0; j < n; j++ {
		m := append([]string{}, sk...)
		for k := 1 + rng.Intn(2); k > 0; k-- {
			if len(m) < 2 {
				m = append(m, pickTok(rng, long))
				continue
			}
			i := 1 + rng.Intn(len(m)-1)
			switch rng.Intn(5) {
			case 0, 1: // replace
				m[i] = pickTok(rng, long)
			case 2: // insert
				m = append(m[:i], append([]string{pickTok(rng, long)}, m[i:]...)...)
			case 3: // delete
				m = append(m[:i], m[i+1:]...)
			case 4: // truncate after a hostile replacement
				m[i] = pickTok(rng, long)
				m = m[:i+1+rng.Intn(len(m)-i)]
			}
		}
		out = append(out, m)
	}
	return out
}

func words(cmd []string) string {
	if len(cmd) > 1 {
		switch strings.ToUpper(cmd[0]) {
		case "CONFIG", "SCRIPT":
			return strings.ToUpper(cmd[0] + " " + cmd[1])
		}
	}
	return strings.ToUpper(cmd[0])
}

// commands that must not reach the server from the pipelined stream
func unsafeForBatch(cmd []string) bool {
	if len(cmd) == 0 || cmd[0] == "" {
		return true
	}
	up := strings.ToUpper(cmd[0])
	if skipped[up] {
		return true
	}
	switch up {
	case "QUIT", "SUBSCRIBE", "PSUBSCRIBE":
		return true
	case "NEARBY", "WITHIN", "INTERSECTS": // FENCE switches the connection to live mode
		for _, a := range cmd[1:] {
			if strings.EqualFold(a, "FENCE") {
				return true
			}
		}
	case "TIMEOUT": // TIMEOUT n <cmd ...>: the wrapped command
		if len(cmd) > 2 {
			return unsafeForBatch(cmd[2:])
		}
	case "CONFIG": // a password or a memory limit would mask every later command
		for _, a := range cmd[1:] {
			l := strings.ToLower(a)
			if l == "requirepass" || l == "maxmemory" || l == "leaderauth" {
				return true
			}
		}
	case "CLIENT":
		for _, a := range cmd[1:] {
			if strings.EqualFold(a, "KILL") {
				return true
			}
		}
	case "JSET":
		return jsetHugeIndex(cmd)
	}
	return false
}

// JSET with a huge numeric path component makes sjson build an array of that many nulls (open known
// finding C16-jset-index): the generator steers around it, the thorough tier replays the witness.
func jsetHugeIndex(cmd []string) bool {
	if len(cmd) < 4 || !strings.EqualFold(cmd[0], "JSET") {
		return false
	}
	for _, part := range strings.Split(cmd[3], ".") {
		if len(part) >= 7 && strings.Trim(part, "0123456789") == "" {
			return true
		}
	}
	return false
}

func qargs(cmd []string) string {
	var sb strings.Builder
	sb.WriteByte('[')
	for i, a := range cmd {
		if i > 0 {
			sb.WriteByte(' ')
		}
		if len(a) > 80 {
			sb.WriteString(strconv.Quote(a[:24]) + fmt.Sprintf("…(%d bytes)", len(a)))
		} else {
			sb.WriteString(strconv.Quote(a))
		}
	}
	sb.WriteByte(']')
	return sb.String()
}

type argFuzz struct {
	readTimeout time.Duration
	lastErr     string
	r           *hx.Result
	dir         string
	s           *srv.Server
	by          *srv.Conn
	restart     int
}

func (a *argFuzz) start() {
	if a.by != nil {
		a.by.Close()
	}
	if a.s != nil {
		a.s.Kill()
	}
	a.restart++
	s, err := respgen.StartServer(filepath.Join(a.dir, fmt.Sprintf("args-%d", a.restart)), nil, "--appendonly", "no")
	if err != nil {
		panic(err)
	}
	a.s = s
	a.by, _ = s.Dial()
}

// aliveNow: the process runs, the bystander's PING is answered, and a write and a read from the
// bystander (which need the server's lock) are answered too: a command that spins while holding the lock
// "affects other connections" just as a crash does.
func (a *argFuzz) aliveNow() bool { return a.state() == "" }

func (a *argFuzz) state() string {
	if !a.s.Alive() || a.by == nil {
		return "dead"
	}
	a.by.Timeout = 6 * time.Second
	v, err := a.by.Do("PING")
	if err != nil || !strings.Contains(v.Str, "PONG") || !a.s.Alive() {
		return "dead"
	}
	wedged := func() string {
		time.Sleep(300 * time.Millisecond) // a process that is going down may still have answered the PING
		if !a.s.Alive() {
			return "dead"
		}
		return "wedged"
	}
	if _, err := a.by.Do("SET", "bystander", "b", "POINT", "1", "1"); err != nil {
		return wedged()
	}
	if _, err := a.by.Do("GET", "bystander", "b"); err != nil {
		return wedged()
	}
	return ""
}

var seedData = [][]string{
	{"READONLY", "no"},
	{"SET", "k", "id1", "FIELD", "f", "3", "FIELD", "g", "1.5", "POINT", "33", "-115"},
	{"SET", "k", "id2", "FIELD", "f", "7", "BOUNDS", "1", "1", "2", "2"},
	{"SET", "k", "o1", "OBJECT", gjPoly},
	{"SET", "k", "s1", "STRING", "v"},
	{"SET", "k2", "r1", "POINT", "33.01", "-115.01"},
	{"JSET", "k", "j1", "a.b", "5"},
}

// one pipelined batch on a fresh connection; returns the number of replies seen before the end marker
// (-1 when the connection broke) and whether the marker was seen
func (a *argFuzz) sendBatch(batch [][]string) (int, bool) {
	c, err := a.s.Dial()
	if err != nil {
		return -1, false
	}
	defer c.Close()
	c.Timeout = a.readTimeout
	marker := "end-of-batch-7f3a"
	var buf []byte
	for _, cmd := range seedData {
		buf = append(buf, respgen.Encode(cmd...)...)
	}
	for _, cmd := range batch {
		buf = append(buf, respgen.Encode(cmd...)...)
	}
	buf = append(buf, respgen.Encode("ECHO", marker)...)
	done := make(chan error, 1)
	go func() { done <- c.WriteRaw(buf) }()
	n := 0
	for {
		v, err := c.Read()
		if err != nil {
			a.lastErr = fmt.Sprintf("after %d replies: %v", n, err)
			c.Close()
			<-done
			return -1, false
		}
		if strings.Contains(v.Str, marker) { // RESP: $marker, JSON output mode: {"ok":true,"echo":"marker",...}
			<-done
			return n - len(seedData), true
		}
		n++
		if n > len(seedData)+len(batch)+5 {
			<-done
			return n - len(seedData), false
		}
	}
}

// replay the commands of a failed batch one by one to name the culprit
func (a *argFuzz) culprit(batch [][]string, wantDown bool) ([]string, string) {
	a.start()
	a.readTimeout = 4 * time.Second
	defer func() { a.readTimeout = 10 * time.Second }()
	for _, cmd := range batch {
		n, ok := a.sendBatch([][]string{cmd})
		st := a.state()
		if wantDown && st != "" {
			return cmd, st
		}
		if !wantDown && st == "" && (!ok || n != 1) {
			return cmd, ""
		}
		if st != "" {
			a.start()
		}
	}
	return nil, ""
}

func (a *argFuzz) fail(sig, what string, cmd []string, extra string) {
	cs := map[string]interface{}{"args": cmd, "args_quoted": qargs(cmd)}
	a.r.Fail(hx.Failure{Kind: "oracle", Signature: sig, What: what + ": " + qargs(cmd) + extra, Case: cs})
}

func (a *argFuzz) runBatch(batch [][]string) {
	if len(batch) == 0 {
		return
	}
	n, ok := a.sendBatch(batch)
	st := a.state()
	for _, cmd := range batch {
		a.r.Count("a\x00"+strings.Join(cmd, "\x01"), false)
		a.r.Dist("args:" + words(cmd))
	}
	switch {
	case st != "":
		log := tail(a.s.LogTail(4000))
		cmd, cst := a.culprit(batch, true)
		if cmd == nil {
			a.r.Fail(hx.Failure{Kind: "oracle", Signature: "crash-on-arguments", What: "a batch of well-framed commands leaves the server " + st + " (no single command of it does): " + log, Case: batch})
		} else if cst == "wedged" && jsetHugeIndex(cmd) {
			a.fail("hang-on-arguments-jset-index", "JSET with a huge array index never returns (sjson pads the array with nulls) and blocks every other connection", cmd, "")
		} else if cst == "wedged" {
			a.fail("hang-on-arguments", "well-framed command with hostile arguments never returns and blocks every other connection (reads and writes of a bystander are no longer answered)", cmd, "")
		} else {
			a.fail("crash-on-arguments", "well-framed command with hostile arguments kills the server and every other connection", cmd, " | "+log)
		}
		a.start()
	case !ok || n != len(batch):
		lastErr := a.lastErr
		cmd, _ := a.culprit(batch, false)
		if cmd != nil {
			a.fail("reply-count-on-arguments", "a command did not get exactly one reply", cmd, "")
		} else {
			a.r.Fail(hx.Failure{Kind: "oracle", Signature: "reply-count-on-arguments", What: fmt.Sprintf("batch of %d commands: %d replies, end marker seen=%v, %s (not reproducible one by one)", len(batch), n, ok, lastErr), Case: batch})
		}
		if !a.aliveNow() {
			a.start()
		}
	}
}

// a mode-changing command on a connection of its own: liveness only
func (a *argFuzz) runLive(cmd []string) {
	c, err := a.s.Dial()
	if err == nil {
		var buf []byte
		for _, sd := range seedData {
			buf = append(buf, respgen.Encode(sd...)...)
		}
		buf = append(buf, respgen.Encode(cmd...)...)
		// something for a live connection to chew on afterwards
		buf = append(buf, respgen.Encode("PING")...)
		c.WriteRaw(buf)
		c.C.SetReadDeadline(time.Now().Add(60 * time.Millisecond))
		tmp := make([]byte, 4096)
		for {
			if _, err := c.C.Read(tmp); err != nil {
				break
			}
		}
		// a write from another connection while the fence / subscription may be live
		if w, err := a.s.Dial(); err == nil {
			w.Timeout = 5 * time.Second
			w.Do("SET", "k", "mv", "POINT", "33.001", "-115.001")
			w.Do("PUBLISH", "c1", "m")
			w.Close()
		}
		c.Close()
	}
	a.r.Count("a\x00live\x00"+strings.Join(cmd, "\x01"), false)
	a.r.Dist("args-live:" + words(cmd))
	if st := a.state(); st == "wedged" {
		a.fail("hang-on-arguments", "well-framed command with hostile arguments blocks every other connection", cmd, "")
		a.start()
	} else if st != "" {
		a.fail("crash-on-arguments", "well-framed command with hostile arguments kills the server and every other connection", cmd, " | "+tail(a.s.LogTail(4000)))
		a.start()
	}
}

func runArgFuzz(r *hx.Result, cfg hx.Config, rng *rand.Rand) {
	a := &argFuzz{r: r, dir: cfg.Work, readTimeout: 10 * time.Second}
	a.start()
	defer func() {
		if a.by != nil {
			a.by.Close()
		}
		a.s.Kill()
	}()
	long := longTokens()
	perSkeleton := 22
	randomPerName := 12
	if cfg.Tier == "thorough" {
		perSkeleton, randomPerName = 500, 300
	}
	if cfg.Search {
		perSkeleton, randomPerName = 1500, 800
	}

	// fixed corpus first: each alone, must be answered (with an error) and leave everybody alive
	corpus := [][]string{
		{"SCAN", "k", "WHERE", "f", "", "5"},
		{"SCAN", "k", "WHERE", "f", ""},
		{"SCAN", "k", "WHERE", "", "", ""},
		{"SCAN", "k", "WHERE", "f", "(", "5"},
		{"SCAN", "k", "WHERE", ""},
		{"SCAN", "k", "WHEREIN", "f", "4611686018427387904", "1"},
		{"SCAN", "k", "WHEREIN", "f", "18446744073709551615", "1"},
		{"FSET", "k", "missingid", "XX", "RETURN", "a", "1"},
		{"SET", "k", "n", "POINT", "nan", "nan"},
		{"SEARCH", "k", "MATCH", "", "LIMIT", ""},
		{"NEARBY", "k", "POINT", "", "", ""},
		{"WITHIN", "k", "TILE", "1", "1", "-1"},
		{"WITHIN", "k", "QUADKEY", ""},
		{"WITHIN", "k", "HASH", ""},
		{"WITHIN", "k", "OBJECT", ""},
		{"WITHIN", "k", "SECTOR", "33", "-115", "1000", "90", "0"},
		{"WITHIN", "k", "SECTOR", "33", "-115", "1000", "nan", "90"},
		{"WITHIN", "k", "SECTOR", "33", "-115", "1000", "0", "inf"},
		{"TEST", "POINT", "33", "-115", "WITHIN", "SECTOR", "33", "-115", "1000", "-inf", "90"},
		{"JSET", "k", "j1", "", "5"},
		{"JGET", "k", "j1", ""},
		{"EVAL", "", "0"},
		{"EVAL", "return 1", "-1"},
		{"EVAL", "return 1", "9223372036854775808"},
		{"TIMEOUT", "", "PING"},
		{"TIMEOUT", "1"},
		{"SETHOOK", "h", "", "NEARBY", "k", "FENCE", "POINT", "1", "1", "1"},
		{"SETHOOK", "h", "http://127.0.0.1:9/x", "NEARBY", "k", "FENCE", "DETECT", "", "POINT", "1", "1", "1"},
		{"AOFMD5", "-1", "-1"},
		{"AOFMD5", "0", "0"},
		{"AOFMD5", "0", "-0"},
		{"NEARBY", "k", "BUFFER", "9", "POINT", "33", "-115"},
		{"NEARBY", "k", "WHERE", "f", "BUFFER", "9", "NOFIELDS", "BOUNDS", "POINT", "33", "-115"},
		{"EVAL", "return 1", "4611686018427387904"},
		{"EVALNA", "return 1", "9223372036854775807"},
		{"EVALROSHA", "da39a3ee5e6b4b0d3255bfef95601890afd80709", "18446744073709551615", "k"},
		{"CONFIG", "SET", "", ""},
		{"CLIENT", ""},
		{"OUTPUT", ""},
	}
	if cfg.Tier == "thorough" || cfg.Search {
		corpus = append(corpus, []string{"JSET", "k", "jnew", "9223372036854775807", "x"}) // open known finding C16-jset-index
	}
	for _, cmd := range corpus {
		a.runBatch([][]string{cmd})
	}
	// HTTP request paths of every segment count, with and without tile extensions
	a.runHTTPPaths(cfg, rand.New(rand.NewSource(cfg.Seed^0x19)))

	// skeleton mutants, pipelined
	covered := map[string]bool{}
	var stream [][]string
	for _, sk := range skeletons {
		covered[words(sk)] = true
		covered[strings.ToUpper(sk[0])] = true
		for _, m := range mutants(rng, sk, perSkeleton, long) {
			if !unsafeForBatch(m) {
				stream = append(stream, m)
			}
		}
	}
	// every command name (documented + undocumented) with random argument lists; names without a skeleton get more
	for _, name := range allCommandNames() {
		parts := strings.Fields(name)
		if skipped[parts[0]] {
			continue
		}
		n := randomPerName
		if !covered[name] && !covered[parts[0]] {
			n *= 3
		}
		for j := 0; j < n; j++ {
			cmd := append([]string{}, parts...)
			for k := rng.Intn(7); k > 0; k-- {
				cmd = append(cmd, pickTok(rng, long))
			}
			if !unsafeForBatch(cmd) {
				stream = append(stream, cmd)
			}
		}
	}
	rng.Shuffle(len(stream), func(i, j int) { stream[i], stream[j] = stream[j], stream[i] })
	const batchSize = 120
	for i := 0; i < len(stream); i += batchSize {
		a.runBatch(stream[i:min(i+batchSize, len(stream))])
	}

	// mode-changing commands, one connection each
	nLive := 10
	if cfg.Tier == "thorough" || cfg.Search {
		nLive = 150
	}
	for _, sk := range liveSkeletons {
		for _, m := range mutants(rng, sk, nLive, long) {
			if len(m) == 0 || m[0] == "" || skipped[strings.ToUpper(m[0])] {
				continue
			}
			a.runLive(m)
		}
	}
	r.Extra["argument_level_commands"] = len(stream) + len(corpus)
}
