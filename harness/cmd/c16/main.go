// C16 — replies depend on the bytes sent, not on packetisation; bad input is contained.
package main

import (
	"bytes"
	"fmt"
	"math/rand"
	"net"
	"os"
	"path/filepath"
	"strconv"
	"strings"
	"time"

	"github.com/tidwall/tile38/verifapi"
	"verifharness/internal/hx"
	"verifharness/internal/model"
	"verifharness/internal/respgen"
	"verifharness/internal/srv"
)

func main() { hx.Main("C16", runC16) }

const maxRead = 0xFFFF

// ---------- streams ----------

func telnetForm(args []string) (string, bool) {
	var parts []string
	for _, a := range args {
		if a == "" || strings.ContainsAny(a, "\r\n\"'\\ ") {
			return "", false
		}
		parts = append(parts, a)
	}
	return strings.Join(parts, " ") + "\r\n", true
}

func nativeForm(args []string) (string, bool) {
	t, ok := telnetForm(args)
	if !ok || strings.ContainsAny(t, "{") {
		return "", false
	}
	line := strings.TrimSuffix(t, "\r\n")
	return "$" + strconv.Itoa(len(line)) + " " + line + "\r\n", true
}

var keys = []string{"fleet", "k2", "k\r\n3"}
var ids = []string{"a", "b", "truck1", "$9", "*x"}

func randCmd(rng *rand.Rand, big bool) []string {
	k, id := keys[rng.Intn(len(keys))], ids[rng.Intn(len(ids))]
	switch rng.Intn(9) {
	case 0, 1:
		n := rng.Intn(10)
		if big && rng.Intn(4) == 0 {
			n = 66000 + rng.Intn(9000)
		}
		return []string{"SET", k, id, "STRING", respgen.RandArg(rng, n)}
	case 2:
		return []string{"SET", k, id, "POINT", strconv.Itoa(rng.Intn(80)), strconv.Itoa(rng.Intn(170))}
	case 3:
		return []string{"GET", k, id}
	case 4:
		return []string{"SCAN", k, "IDS"}
	case 5:
		return []string{"PING"}
	case 6:
		return []string{"DEL", k, id}
	case 7:
		return []string{"BOGUS", respgen.RandArg(rng, 3)}
	default:
		return []string{"TTL", k, id}
	}
}

// a stream of commands in mixed wire forms; proto = "resp" forces RESP framing only
func randStream(rng *rand.Rand, n int, proto string, big bool) []byte {
	var b []byte
	for i := 0; i < n; i++ {
		args := randCmd(rng, big)
		form := 0
		if proto == "mixed" {
			form = rng.Intn(4)
		}
		switch form {
		case 1:
			if t, ok := telnetForm(args); ok {
				b = append(b, t...)
				continue
			}
		case 2:
			if t, ok := nativeForm(args); ok {
				b = append(b, t...)
				continue
			}
		}
		b = append(b, respgen.Encode(args...)...)
	}
	return b
}

// cut b at the given sorted offsets, each piece at most maxRead bytes
func cutAt(b []byte, offs []int) [][]byte {
	var out [][]byte
	prev := 0
	add := func(p []byte) {
		for len(p) > maxRead {
			out = append(out, p[:maxRead])
			p = p[maxRead:]
		}
		if len(p) > 0 {
			out = append(out, p)
		}
	}
	for _, o := range offs {
		if o > prev && o < len(b) {
			add(b[prev:o])
			prev = o
		}
	}
	add(b[prev:])
	return out
}

func randCuts(rng *rand.Rand, n, k int) []int {
	m := map[int]bool{}
	for i := 0; i < k; i++ {
		m[1+rng.Intn(n)] = true
	}
	var out []int
	for o := range m {
		out = append(out, o)
	}
	for i := range out {
		for j := i + 1; j < len(out); j++ {
			if out[j] < out[i] {
				out[i], out[j] = out[j], out[i]
			}
		}
	}
	return out
}

// ---------- in-package: PipelineReader.ReadMessages ----------

func kindClass(connType int) string {
	switch connType {
	case 3:
		return "1" // native
	case 4, 5:
		return "9999"
	}
	return "R"
}

func modelKindClass(k string) string {
	switch k {
	case "0", "2":
		return "R"
	}
	return k
}

// feed the chunks to a fresh PipelineReader the way netServe does; canonical result string
func implRun(chunks [][]byte) string {
	p := verifapi.NewPipe()
	var msgs []string
	for _, c := range chunks {
		ms, errs, pan := p.Feed(c)
		if pan != "" {
			return "P"
		}
		for _, m := range ms {
			hs := make([]string, len(m.Args))
			for i, a := range m.Args {
				hs[i] = model.H(a)
			}
			msgs = append(msgs, kindClass(m.ConnType)+":"+strings.Join(hs, ","))
		}
		if errs != "" {
			return "X " + canonErr(errs) + " " + joinMsgs(msgs)
		}
	}
	return fmt.Sprintf("O %d %s", len(p.Buffered()), joinMsgs(msgs))
}

func joinMsgs(ms []string) string {
	if len(ms) == 0 {
		return "."
	}
	return strings.Join(ms, " ")
}

func modelErrText(e string) string {
	switch {
	case e == "recovered":
		return "Protocol error: invalid request"
	case e == "http:0":
		return "invalid HTTP request"
	case e == "http:1":
		return "strconv.ParseUint: invalid syntax"
	case e == "http:2":
		return "strconv.ParseUint: value out of range"
	}
	return strings.TrimPrefix(respgen.CanonModel("E "+e), "E ")
}

// strconv errors quote their input: keep the class only
func canonErr(e string) string {
	if strings.HasPrefix(e, "strconv.ParseUint:") {
		if strings.HasSuffix(e, "invalid syntax") {
			return "strconv.ParseUint: invalid syntax"
		}
		return "strconv.ParseUint: value out of range"
	}
	return e
}

func modelRun(drv *model.Driver, chunks [][]byte) string {
	req := []string{"conn", "1"}
	for _, c := range chunks {
		req = append(req, model.H(string(c)))
	}
	out := drv.Ask(req...)
	f := strings.Fields(out)
	canonMsgs := func(ms []string) string {
		if len(ms) == 1 && ms[0] == "." {
			return "."
		}
		var o []string
		for _, m := range ms {
			i := strings.IndexByte(m, ':')
			o = append(o, modelKindClass(m[:i])+m[i:])
		}
		return strings.Join(o, " ")
	}
	switch f[0] {
	case "O":
		return "O " + f[1] + " " + canonMsgs(f[2:])
	case "X":
		return "X " + modelErrText(f[1]) + " " + canonMsgs(f[2:])
	}
	return out
}

// strip the part of an outcome that legitimately depends on where the stream stops being fed
func outcomeCore(s string) string { return s }

// ---------- black box ----------

// send the chunks as separate TCP segments and return every reply byte until the server goes quiet
func exchange(port int, chunks [][]byte, pace time.Duration, quiet time.Duration) ([]byte, error) {
	c, err := net.DialTimeout("tcp", "127.0.0.1:"+strconv.Itoa(port), 2*time.Second)
	if err != nil {
		return nil, err
	}
	defer c.Close()
	if tc, ok := c.(*net.TCPConn); ok {
		tc.SetNoDelay(true)
	}
	done := make(chan []byte)
	go func() {
		var all []byte
		buf := make([]byte, 1<<16)
		for {
			c.SetReadDeadline(time.Now().Add(quiet))
			n, err := c.Read(buf)
			all = append(all, buf[:n]...)
			if err != nil {
				done <- all
				return
			}
		}
	}()
	for _, ch := range chunks {
		c.SetWriteDeadline(time.Now().Add(10 * time.Second))
		if _, err := c.Write(ch); err != nil {
			break
		}
		if pace > 0 {
			time.Sleep(pace)
		}
	}
	// a final PING marks the end of the replies
	return <-done, nil
}

func alive(s *srv.Server) bool {
	if !s.Alive() {
		return false
	}
	c, err := s.Dial()
	if err != nil {
		return false
	}
	defer c.Close()
	c.Timeout = 3 * time.Second
	v, err := c.Do("PING")
	return err == nil && v.Str == "PONG"
}

func q(b []byte) string {
	if len(b) > 240 {
		return strconv.Quote(string(b[:100])) + fmt.Sprintf("…(%d bytes)…", len(b)) + strconv.Quote(string(b[len(b)-100:]))
	}
	return strconv.Quote(string(b))
}

func runC16(r *hx.Result, cfg hx.Config) {
	r.Rule = "in-package: command streams (RESP, telnet and native forms mixed, binary-safe arguments, values above the 64 KiB read buffer, occasional malformed frames) fed to PipelineReader.ReadMessages whole, at every 2-way cut (short streams), at random k-way cuts and byte-at-a-time, against the extracted model conn_run and against the whole-stream run; the tile38-level parser readNextCommand and the HTTP sniff on random/mutated packets. black-box: the same streams over real TCP segments (TCP_NODELAY, paced writes), reply byte streams compared between segmentations; malformed inputs (fixed crash corpus + mutations) each followed by a liveness check of the process and of a bystander connection; argument-level malformed stream: every command of core/commands.json and the undocumented ones as well-framed RESP arrays built from valid skeletons truncated at every position and mutated with hostile tokens (empty string, parentheses, huge/negative/non-numeric numbers, invalid UTF-8, JSON fragments, glob metacharacters, other keywords, 70 kB tokens), pipelined in batches of 120 with a bystander PING after each batch and exactly one reply required per command; mode-changing commands (FENCE searches, SUBSCRIBE, QUIT) on connections of their own; across the hand-over to live mode: streams with SUBSCRIBE / PSUBSCRIBE / a live NEARBY FENCE after OUTPUT switches and ordinary commands, followed by further commands (RESP and telnet framing, a malformed frame in some), sent over TCP whole, cut at every byte offset, byte-at-a-time and at random k-way cuts, reply bytes compared with the same stream sent one command per segment; any difference is a failure (classified with the model live_run: the signature of the repaired defects C16-live-handover-drops-rest / C16-live-error-drops-read when the hand-over before the repair predicts exactly the missing commands, bb-live-segmentation-replies otherwise). non-trivial = distinct (stream, segmentation) with a cut strictly inside a command and at least two parsed commands."
	r.Assumptions = []string{
		"readNextHTTPCommand is not modelled: its stability under appended bytes is a hypothesis of c16_cmd_stable / c16_chunking_partial, exercised black-box (HTTP requests cut at every offset)",
		"a network read delivers at most 0xFFFF bytes to one ReadMessages call (netServe's buffer size)",
	}
	rng := rand.New(rand.NewSource(cfg.Seed))
	drv, err := model.Start("resp")
	if err != nil {
		panic(err)
	}
	defer drv.Close()
	scale := 1
	if cfg.Tier == "thorough" || cfg.Search {
		scale = 12
	}
	if os.Getenv("VERIF_C16_ONLY") == "args" { // replay aid: only the argument-level stream
		runArgFuzz(r, cfg, rng)
		return
	}
	if os.Getenv("VERIF_C16_ONLY") == "http" { // replay aid: the HTTP path / metrics parts
		runMvtModel(r, cfg, rand.New(rand.NewSource(cfg.Seed^0x17)))
		runMetricsScrape(r, cfg, rand.New(rand.NewSource(cfg.Seed^0x18)))
		a := &argFuzz{r: r, dir: cfg.Work, readTimeout: 10 * time.Second}
		a.start()
		a.runHTTPPaths(cfg, rand.New(rand.NewSource(cfg.Seed^0x19)))
		a.s.Kill()
		return
	}
	if os.Getenv("VERIF_C16_ONLY") == "live" { // replay aid: only the live hand-over sweep
		runLiveHandover(r, cfg, rand.New(rand.NewSource(cfg.Seed^0x16)))
		return
	}

	// ---- A1. the tile38-level parser and the sniff against the model (pinned entry point: rc 0) ----
	packets := append([]string{}, respgen.Corpus...)
	packets = append(packets, "GET / HTTP/1.1\r\n\r\n", "GET /ping HTTP/1.1\r\n", "GET k id\r\n", "GET k id\n", "G\n\r\n", "PING\r\n", "P\r\n", "OUTPUT json\r\n",
		"GET /SET+k+id+STRING+\" HTTP/1.1\r\n\r\n", "POST /x HTTP/1.0\r\n", "GETX HTTP/1.1\r\n", "G HTTP/1.1\r\n", "GE HTTP/1.1\r\n", "O\r HTTP/1.1\n HTTP/1.1\r\n")
	nA := 8000 * scale
	for i := 0; i < nA+len(packets); i++ {
		var b []byte
		gen := "corpus"
		if i < len(packets) {
			b = []byte(packets[i])
		} else {
			gen, b = respgen.RandPacket(rng)
			if rng.Intn(4) == 0 {
				b = append([]byte{"GPO"[rng.Intn(3)]}, b...)
				gen = "gpo+" + gen
			} else if rng.Intn(3) == 0 {
				gen, b = "http", respgen.RandHTTP(rng)
			}
		}
		if len(b) == 0 {
			continue
		}
		impl := verifapi.ServerReadNextCommand(b)
		m := drv.Ask("rc", "0", model.H(string(b)))
		var ic string
		switch impl.Outcome {
		case "complete":
			hs := make([]string, len(impl.Args))
			for j, a := range impl.Args {
				hs[j] = model.H(a)
			}
			as := "_"
			if len(hs) > 0 {
				as = strings.Join(hs, ",")
			}
			ic = fmt.Sprintf("C %d %d %s", impl.Kind, impl.Leftover, as)
		case "incomplete":
			ic = "I"
		case "panic":
			ic = "P"
		default:
			ic = "E " + canonErr(impl.Err)
		}
		mc := m
		if strings.HasPrefix(m, "E ") {
			mc = "E " + modelErrText(m[2:])
		}
		ok := ic == mc
		if impl.Kind == 9999 {
			r.Dist("cmd:http:" + impl.Outcome)
		}
		r.Dist("cmd:" + gen + ":" + impl.Outcome)
		r.Count("c\x00"+string(b), false)
		if !ok {
			r.Fail(hx.Failure{Kind: "correspondence", Signature: "read-cmd-model", What: "readNextCommand and the model read_cmd disagree",
				Case: map[string]string{"gen": gen, "packet": q(b)}, Impl: ic, Model: mc})
		}
	}

	// ---- A2. ReadMessages under segmentation ----
	nStreams := 60 * scale
	for si := 0; si < nStreams; si++ {
		proto := "mixed"
		if si%3 == 0 {
			proto = "resp"
		}
		big := si%10 == 9
		n := 2 + rng.Intn(6)
		if si%15 == 14 {
			n = 1500 + rng.Intn(1000) // a long pipeline
		}
		stream := randStream(rng, n, proto, big)
		if si%5 == 4 { // an HTTP request after the commands
			stream = append(stream, respgen.RandHTTP(rng)...)
		}
		if si%4 == 3 { // a malformed frame somewhere
			_, junk := respgen.RandPacket(rng)
			at := 0
			if rng.Intn(2) == 0 {
				at = len(stream)
			}
			stream = append(append(append([]byte{}, stream[:at]...), junk...), stream[at:]...)
		}
		whole := cutAt(stream, nil)
		implWhole := implRun(whole)
		var segs [][]int
		if len(stream) <= 260 {
			for o := 1; o < len(stream); o++ {
				segs = append(segs, []int{o})
			}
			all := make([]int, 0, len(stream))
			for o := 1; o < len(stream); o++ {
				all = append(all, o)
			}
			segs = append(segs, all) // byte at a time
		} else {
			for j := 0; j < 6; j++ {
				segs = append(segs, []int{1 + rng.Intn(len(stream)-1)})
			}
		}
		for j := 0; j < 8; j++ {
			segs = append(segs, randCuts(rng, len(stream)-1, 2+rng.Intn(6)))
		}
		modelChecked := 0
		for gi, offs := range append([][]int{nil}, segs...) {
			chunks := cutAt(stream, offs)
			impl := implRun(chunks)
			nmsgs := strings.Count(impl, ":")
			r.Count(fmt.Sprintf("s\x00%x\x00%v", stream[:min(len(stream), 64)], offs), len(offs) > 0 && nmsgs >= 2)
			r.Dist("seg:" + proto + ":" + impl[:1])
			if impl != implWhole {
				r.Fail(hx.Failure{Kind: "oracle", Signature: "readmessages-segmentation", What: "ReadMessages yields different messages / error point for two segmentations of the same stream",
					Case: map[string]interface{}{"stream": q(stream), "cuts": offs}, Impl: impl, Model: implWhole})
			}
			if impl == "P" {
				r.Fail(hx.Failure{Kind: "oracle", Signature: "readmessages-panic", What: "ReadMessages panics on input (the connection goroutine has no recover: the server exits)",
					Case: map[string]interface{}{"stream": q(stream), "cuts": offs}, Impl: impl})
			}
			// the model on the same chunks (bounded: the model costs O(buffer) per command)
			if len(stream) < 6000 && (gi < 12 || gi%7 == 0) || gi == 0 && len(stream) < 200000 {
				m := modelRun(drv, chunks)
				modelChecked++
				if m != impl {
					r.Fail(hx.Failure{Kind: "correspondence", Signature: "conn-run-model", What: "ReadMessages and the model conn_run disagree",
						Case: map[string]interface{}{"stream": q(stream), "cuts": offs}, Impl: impl, Model: m})
				}
			}
		}
		r.Sample(3, map[string]interface{}{"stream": q(stream), "segmentations": len(segs) + 1, "model_checked": modelChecked, "whole": implWhole[:min(len(implWhole), 200)]})
	}

	// ---- B. black box over TCP ----
	s, err := respgen.StartServer(filepath.Join(cfg.Work, "bb"), nil, "--appendonly", "no")
	if err != nil {
		panic(err)
	}
	defer func() { s.Kill() }()
	restart := func() {
		s.Kill()
		s, err = respgen.StartServer(filepath.Join(cfg.Work, "bb"), nil, "--appendonly", "no")
		if err != nil {
			panic(err)
		}
	}
	nBB := 6 * scale
	for si := 0; si < nBB; si++ {
		proto := "resp"
		if si%2 == 1 {
			proto = "mixed"
		}
		n := 3 + rng.Intn(5)
		big := si%3 == 2
		if si%6 == 5 {
			n = 3000
		}
		body := randStream(rng, n, proto, big)
		// every run starts from the same dataset and ends with a marker
		stream := append(respgen.Encode("FLUSHDB"), body...)
		stream = append(stream, respgen.Encode("ECHO", "end-of-stream")...)
		ref, err := exchange(s.Port, cutAt(stream, nil), 0, 400*time.Millisecond)
		if err != nil || !bytes.Contains(ref, []byte("end-of-stream")) {
			r.Fail(hx.Failure{Kind: "oracle", Signature: "bb-no-reply", What: "whole stream did not get all its replies", Case: q(stream), Impl: q(ref)})
			if !alive(s) {
				restart()
			}
			continue
		}
		var segs [][]int
		for j := 0; j < 5; j++ {
			segs = append(segs, []int{1 + rng.Intn(len(stream)-1)})
		}
		for j := 0; j < 3; j++ {
			segs = append(segs, randCuts(rng, len(stream)-1, 2+rng.Intn(8)))
		}
		if len(stream) < 400 {
			all := []int{}
			for o := 1; o < len(stream); o++ {
				all = append(all, o)
			}
			segs = append(segs, all)
		}
		for _, offs := range segs {
			pace := 2 * time.Millisecond
			if len(offs) > 20 {
				pace = 300 * time.Microsecond
			}
			got, _ := exchange(s.Port, cutAt(stream, offs), pace, 400*time.Millisecond)
			r.Count(fmt.Sprintf("b\x00%x\x00%v", stream[:min(len(stream), 64)], offs), true)
			r.Dist("bb:" + proto)
			if !bytes.Equal(got, ref) {
				r.Fail(hx.Failure{Kind: "oracle", Signature: "bb-segmentation-replies", What: "reply byte stream differs between two TCP segmentations of the same request stream",
					Case: map[string]interface{}{"stream": q(stream), "cuts": offs}, Impl: q(got), Model: q(ref)})
			}
		}
		r.TracesImpl++
	}
	// HTTP requests cut at every offset (the unmodelled parser's stability hypothesis)
	for _, req := range []string{"GET /ping HTTP/1.1\r\nHost: x\r\n\r\n", "POST /set HTTP/1.1\r\nContent-Length: 22\r\n\r\n+fleet+h1+POINT+10+20", "GET /SET+fleet+h2+STRING+\"a+b\" HTTP/1.0\r\nAuthorization: none\r\n\r\n"} {
		ref, _ := exchange(s.Port, [][]byte{[]byte(req)}, 0, 300*time.Millisecond)
		step := 1
		if cfg.Tier == "quick" {
			step = 5
		}
		for o := 1; o < len(req); o += step {
			got, _ := exchange(s.Port, cutAt([]byte(req), []int{o}), 2*time.Millisecond, 300*time.Millisecond)
			r.Count("h\x00"+req+strconv.Itoa(o), true)
			r.Dist("bb:http")
			if stripElapsed(got) != stripElapsed(ref) {
				r.Fail(hx.Failure{Kind: "oracle", Signature: "bb-http-segmentation", What: "HTTP reply differs when the request is cut", Case: map[string]interface{}{"req": req, "cut": o}, Impl: q(got), Model: q(ref)})
			}
		}
	}

	// ---- C. malformed input: the process and a bystander survive ----
	crash := []string{"*1\r\n$-100\r\n", "*1\r\n$-2\r\n", "*2\r\n$1\r\na\r\n$-3\r\n", "$17 SET k id STRING \"\r\n", "GET /SET+k+id+STRING+\" HTTP/1.1\r\n\r\n",
		"$9223372036854775807 a\r\n", "*1\r\n$9223372036854775807\r\n", "*1\r\n$9223372036854775806\r\nab", "*1\r\n$18446744073709551615\r\nabc",
		string(respgen.Encode("SCAN", "k", "WHEREIN", "f", "4611686018427387904", "1")), string(respgen.Encode("SCAN", "k", "WHEREIN", "f", "18446744073709551615", "1")),
		"*-1\r\n", "*1\r\n$-1\r\nx", "\x00\x00\x00", "*1\r\n$3\r\nab", "'\\\r\n"}
	nC := 150 * scale
	by, _ := s.Dial()
	for i := 0; i < len(crash)+nC; i++ {
		var b []byte
		gen := "crash-corpus"
		if i < len(crash) {
			b = []byte(crash[i])
		} else {
			gen, b = respgen.RandPacket(rng)
			for j := rng.Intn(3); j > 0; j-- {
				b = respgen.Mutate(rng, b)
			}
		}
		if len(b) == 0 {
			continue
		}
		exchange(s.Port, [][]byte{b}, 0, 40*time.Millisecond)
		r.Count("m\x00"+string(b), false)
		r.Dist("malformed:" + gen)
		ok := s.Alive()
		if ok && by != nil {
			by.Timeout = 3 * time.Second
			v, err := by.Do("PING")
			ok = err == nil && v.Str == "PONG"
		}
		if !ok || !alive(s) {
			sig := "crash-on-input"
			if strings.Contains(string(b), "WHEREIN") {
				sig = "crash-wherein-makeslice"
			}
			r.Fail(hx.Failure{Kind: "oracle", Signature: sig, What: "malformed input kills the server / the bystander connection: " + q(b) + " log: " + tail(s.LogTail(600)),
				Case: map[string]string{"gen": gen, "input": q(b)}})
			restart()
			by, _ = s.Dial()
		}
	}
	if by != nil {
		by.Close()
	}

	// ---- B2. socket read size vs pipeline buffer: source constants, exact-length bursts ----
	checkReadSizes(r, drv)
	runBursts(r, cfg)

	// ---- B3. across the hand-over to live mode: SUBSCRIBE / PSUBSCRIBE / live FENCE followed by commands, every cut ----
	runLiveHandover(r, cfg, rand.New(rand.NewSource(cfg.Seed^0x16)))

	// ---- B4. the HTTP tile-path rewrite against its model; the metrics endpoint under invalid UTF-8 ----
	runMvtModel(r, cfg, rand.New(rand.NewSource(cfg.Seed^0x17)))
	runMetricsScrape(r, cfg, rand.New(rand.NewSource(cfg.Seed^0x18)))

	// ---- D. argument-level malformed stream (well-framed commands, hostile arguments) ----
	runArgFuzz(r, cfg, rng)
}

func tail(s string) string {
	if i := strings.Index(s, "panic:"); i >= 0 {
		s = s[i:]
		if len(s) > 160 {
			s = s[:160]
		}
		return strings.ReplaceAll(s, "\n", " | ")
	}
	return ""
}

func stripElapsed(b []byte) string {
	s := string(b)
	if i := strings.Index(s, "Content-Length: "); i >= 0 {
		if j := strings.Index(s[i:], "\r\n"); j >= 0 {
			s = s[:i] + s[i+j:]
		}
	}
	for {
		i := strings.Index(s, `"elapsed":"`)
		if i < 0 {
			return s
		}
		j := strings.Index(s[i+11:], `"`)
		if j < 0 {
			return s
		}
		s = s[:i] + s[i+11+j+1:]
	}
}
