package main

// C02 (v) — from the search result to the reply (Model/SearchReply.v, Props/C02reply.v): nothing between
// the exact predicate and the reply of WITHIN / INTERSECTS drops an object except the command's own
// filters and LIMIT — in particular not the object's deadline: an object past its TTL is in the
// collection and in the index until the sweeper deletes it, TEST resolves it, so the search lists it.
//
//  (a) in-package, no clock involved: a private Server value (verifapi.AreaEnv: no sweeper, no goroutine)
//      holding objects without deadline, with a far deadline and with a deadline that has already passed;
//      the real cmdWITHINorINTERSECTS against the real cmdTEST evaluated for every id (direct oracle:
//      ids of the reply = ids for which TEST answers 1), and against Model/Cursor.page (ocaml/cursor;
//      correspondence: with cursor 0 the number of items and "reply cursor is 0").
//  (b) black-box, atomic: objects with short EX on a real server; ONE EVALRO script per probe evaluates
//      TEST GET key id WITHIN|INTERSECTS area for every id and runs the two searches, all under the
//      script's read lock (the sweeper needs the write lock, so it cannot run in between); probes are
//      repeated across the deadlines; in every snapshot the search must list exactly the ids for which
//      the predicate holds.

import (
	"fmt"
	"math"
	"math/rand"
	"path/filepath"
	"sort"
	"strconv"
	"strings"
	"time"

	"github.com/tidwall/tile38/verifapi"
	"verifharness/internal/hx"
	"verifharness/internal/model"
	"verifharness/internal/srv"
)

type replyObj struct {
	ID   string `json:"id"`
	JSON string `json:"object"`
	Ex   string `json:"deadline"` // none | future | past
}

func replyArea(rng *rand.Rand) []string {
	la, lo := float64(rng.Intn(40)-20), float64(rng.Intn(40)-20)
	switch rng.Intn(3) {
	case 0:
		return []string{"BOUNDS", fmt.Sprint(la), fmt.Sprint(lo), fmt.Sprint(la + float64(1+rng.Intn(30))), fmt.Sprint(lo + float64(1+rng.Intn(30)))}
	case 1:
		return []string{"CIRCLE", fmt.Sprint(la), fmt.Sprint(lo), strconv.Itoa(10000 + rng.Intn(2500000))}
	}
	return []string{"OBJECT", `{"type":"Polygon","coordinates":[` + ringAt(lo, la, float64(2+rng.Intn(30)), float64(2+rng.Intn(30))) + `]}`}
}

func replyGeo(rng *rand.Rand) string {
	x, y := float64(rng.Intn(600)-300)/10, float64(rng.Intn(600)-300)/10
	switch rng.Intn(4) {
	case 0:
		return `{"type":"Polygon","coordinates":[` + ringAt(x, y, float64(1+rng.Intn(8)), float64(1+rng.Intn(8))) + `]}`
	case 1:
		return fmt.Sprintf(`{"type":"LineString","coordinates":[[%v,%v],[%v,%v]]}`, x, y, x+float64(rng.Intn(9)), y+float64(rng.Intn(9)))
	}
	return fmt.Sprintf(`{"type":"Point","coordinates":[%v,%v]}`, x, y)
}

// a directed dataset: points around the east / west extremes of a circle (and the given extra points), or,
// for a tiny circle, the centre and points a few centimetres away
type replyDirected struct {
	lat, lon, meters float64
	tiny             bool
	extra            [][2]float64
}

func (d replyDirected) point(rng *rand.Rand, i int) string {
	if i < len(d.extra) {
		return fmt.Sprintf(`{"type":"Point","coordinates":[%v,%v]}`, d.extra[i][1], d.extra[i][0])
	}
	if d.tiny {
		if i%7 == 0 {
			return fmt.Sprintf(`{"type":"Point","coordinates":[%v,%v]}`, d.lon, d.lat)
		}
		return fmt.Sprintf(`{"type":"Point","coordinates":[%v,%v]}`, d.lon+(rng.Float64()-0.5)*1e-4*d.meters, d.lat+(rng.Float64()-0.5)*1e-4*d.meters)
	}
	// angular radius in degrees; the longitude extent at the centre's latitude is about deg / cos(lat)
	deg := d.meters / 6371000 * 180 / math.Pi
	ext := deg / cosDeg(d.lat)
	side := float64(1 - 2*(i%2))
	lon := d.lon + side*ext*(0.93+0.1*rng.Float64())
	lat := d.lat + (rng.Float64()*2-0.6)*deg*0.35*sign(d.lat)
	if lon > 180 {
		lon -= 360
	}
	if lon < -180 {
		lon += 360
	}
	return fmt.Sprintf(`{"type":"Point","coordinates":[%v,%v]}`, lon, lat)
}

func cosDeg(d float64) float64 { return math.Cos(d * math.Pi / 180) }
func sign(x float64) float64 {
	if x < 0 {
		return -1
	}
	return 1
}

func replyInPackage(r *hx.Result, cfg hx.Config, rng *rand.Rand) {
	drv, err := model.Start("cursor")
	if err != nil {
		r.Fail(hx.Failure{Kind: "correspondence", Signature: "reply-driver", What: "model driver ocaml/cursor does not start: " + err.Error()})
		return
	}
	defer drv.Close()
	rounds, queries := 12, 25
	if cfg.Tier == "thorough" || cfg.Search {
		rounds, queries = 150, 40
	}
	now := time.Now().UnixNano()
	// directed rounds first (quick tier too): points in the east / west slivers of large circles, where the
	// bounding box of the circle's polygon approximation is narrower than the haversine disc (finding
	// C02-circle-search-rect; witness SET k o014 POINT 19.6 17.7, WITHIN k IDS CIRCLE 18 -1 1977520), and
	// tiny circles around stored points
	directed := []replyDirected{
		{lat: 18, lon: -1, meters: 1977520, extra: [][2]float64{{19.6, 17.7}}},
		{lat: -35, lon: 120, meters: 3.1e6},
		{lat: 60, lon: 10, meters: 1.2e6},
		{lat: 0, lon: 175, meters: 2.5e6},
		{lat: 45, lon: -100, meters: 0.25, tiny: true},
		{lat: 10, lon: 20, meters: 3, tiny: true},
	}
	for round := -len(directed); round < rounds; round++ {
		env := verifapi.NewAreaEnv()
		var objs []replyObj
		n := 5 + rng.Intn(60)
		var dir *replyDirected
		if round < 0 {
			dir = &directed[round+len(directed)]
			n = 70
		}
		for i := 0; i < n; i++ {
			o := replyObj{ID: fmt.Sprintf("o%03d", i), JSON: replyGeo(rng)}
			if dir != nil {
				o.JSON = dir.point(rng, i)
			}
			g, ok := verifapi.AreaBuildObject(env, o.JSON)
			if !ok {
				panic("reply: generated object does not parse: " + o.JSON)
			}
			var ex int64
			switch rng.Intn(3) {
			case 0:
				o.Ex = "none"
			case 1:
				o.Ex, ex = "future", now+int64(time.Hour)
			default:
				// passed long ago, a moment ago, or the smallest deadline there is
				o.Ex, ex = "past", []int64{1, now - int64(time.Second), now - 1, now - int64(200*time.Millisecond)}[rng.Intn(4)]
			}
			env.SetEx("fleet", o.ID, g, ex)
			objs = append(objs, o)
		}
		for qi := 0; qi < queries; qi++ {
			cmd := []string{"within", "intersects"}[rng.Intn(2)]
			area := replyArea(rng)
			if dir != nil {
				area = []string{"CIRCLE", fmt.Sprint(dir.lat), fmt.Sprint(dir.lon), strconv.FormatFloat(dir.meters*(1+float64(qi%5-2)/400), 'f', -1, 64)}
			}
			limit := 100000
			if rng.Intn(3) == 0 {
				limit = 1 + rng.Intn(n)
			}
			// the per-object predicate, index-free
			var want []string
			mask := make([]byte, len(objs))
			pastHit := false
			for i, o := range objs {
				res, e := env.TestGet("fleet", o.ID, cmd, area)
				mask[i] = 'r'
				if e != "" {
					r.Fail(hx.Failure{Kind: "oracle", Signature: "reply-test-error", What: "TEST GET fails for a stored object: " + e, Case: []interface{}{o, cmd, area}})
					continue
				}
				if res == 1 {
					want = append(want, o.ID)
					mask[i] = 'a'
					if o.Ex == "past" {
						pastHit = true
					}
				}
			}
			cursor, got, e := env.SearchIDs(cmd, "fleet", append([]string{"LIMIT", strconv.Itoa(limit), "IDS"}, area...))
			c := map[string]interface{}{"objects": objs, "cmd": cmd, "limit": limit, "area": area}
			r.Dist("reply:in-package")
			if dir != nil {
				r.Dist("reply:in-package-directed-circle")
			}
			if pastHit {
				r.Dist("reply:in-package-past-deadline-hit")
			}
			r.Count(fmt.Sprintf("reply|%d|%d|%s|%v|%d", round, qi, cmd, area, limit), len(want) > 0 && len(want) < len(objs))
			if e != "" {
				r.Fail(hx.Failure{Kind: "oracle", Signature: "reply-search-error", What: "the search fails: " + e, Case: c})
				continue
			}
			sort.Strings(got)
			sort.Strings(want)
			if limit > len(want) {
				if lost := diff(want, got); len(lost) > 0 {
					sig := "reply-loses"
					if dir != nil {
						sig = "reply-loses-circle-sliver"
					}
					for _, id := range lost {
						for _, o := range objs {
							if o.ID == id && o.Ex == "past" {
								sig = "reply-loses-past-deadline"
							}
						}
					}
					r.Fail(hx.Failure{Kind: "oracle", Signature: sig, What: "an object for which TEST GET key id " + cmd + " area answers 1 is not in the reply of the search (no MATCH / WHERE, LIMIT above the result size)", Case: c,
						Impl: map[string]interface{}{"lost": lost, "reply": got, "predicate-holds": want}})
				}
			}
			if inv := diff(got, want); len(inv) > 0 {
				r.Fail(hx.Failure{Kind: "oracle", Signature: "reply-invents", What: "the reply of the search holds an id for which TEST answers 0", Case: c,
					Impl: map[string]interface{}{"invented": inv, "reply": got, "predicate-holds": want}})
			}
			// Model/Cursor.page on the same accept mask: number of items, and whether the reply cursor is 0
			rep := strings.Fields(drv.Ask("page", strconv.Itoa(limit), "0", string(mask)))
			if len(rep) == 2 {
				mn := 0
				if rep[1] != "-" {
					mn = len(strings.Split(rep[1], ","))
				}
				if mn != len(got) || (rep[0] == "0") != (cursor == 0) {
					r.Fail(hx.Failure{Kind: "correspondence", Signature: "reply-page-model", What: "the number of replied items / the zero reply cursor differ from Model/Cursor.page on the predicate mask", Case: c,
						Impl: map[string]interface{}{"items": len(got), "cursor": cursor}, Model: rep})
				}
			}
		}
	}
}

// one probe: for both commands the predicate of every id and the search, under one read lock.
// Reply: "<p1p2…pn>|id,id,…;<p1…pn>|id,…" (p = 1 holds, 0 does not, x = TEST answered an error: id gone)
const replyProbe = `
local key = KEYS[1]
local out = ''
for ci = 1, 2 do
	local cmd = 'WITHIN'
	if ci == 2 then cmd = 'INTERSECTS' end
	local preds = ''
	for i = 5, #ARGV do
		local t = tile38.pcall('TEST', 'GET', key, ARGV[i], cmd, 'BOUNDS', ARGV[1], ARGV[2], ARGV[3], ARGV[4])
		if t == 1 then preds = preds .. '1' elseif t == 0 then preds = preds .. '0' else preds = preds .. 'x' end
	end
	local r = tile38.call(cmd, key, 'LIMIT', '100000', 'IDS', 'BOUNDS', ARGV[1], ARGV[2], ARGV[3], ARGV[4])
	local ids = ''
	for i = 1, #r[2] do
		if i > 1 then ids = ids .. ',' end
		ids = ids .. r[2][i]
	end
	if ci == 2 then out = out .. ';' end
	out = out .. preds .. '|' .. ids
end
return out
`

func replyBlackBox(r *hx.Result, cfg hx.Config, rng *rand.Rand) {
	rounds := 1
	if cfg.Tier == "thorough" || cfg.Search {
		rounds = 6
	}
	for round := 0; round < rounds; round++ {
		s, err := srv.Start(filepath.Join(cfg.Work, fmt.Sprintf("c02-reply-%d", round)), "--appendonly", "no")
		if err != nil {
			panic(err)
		}
		func() {
			defer s.Kill()
			c := s.MustDial()
			defer c.Close()
			area := []string{"BOUNDS", "30", "-115", "36", "-110"}
			var ids []string
			ttl := map[string]time.Duration{}
			var hist []string
			set := func(id string, lat, lon float64, ex time.Duration) {
				args := []string{"SET", "fleet", id}
				if ex > 0 {
					args = append(args, "EX", strconv.FormatFloat(ex.Seconds(), 'f', 3, 64))
					ttl[id] = ex
				}
				args = append(args, "POINT", fmt.Sprint(lat), fmt.Sprint(lon))
				hist = append(hist, strings.Join(args, " "))
				c.MustDo(args...)
				ids = append(ids, id)
			}
			start := time.Now()
			set("depot", 33, -112, 0)
			set("far", 10, 10, 0)
			for i := 0; i < 10; i++ {
				// inside the area, deadlines spread over 0.25 … 1.15 s; two of them outside the area
				la, lo := 31+float64(rng.Intn(40))/10, -114+float64(rng.Intn(30))/10
				if i >= 8 {
					la = -40
				}
				set(fmt.Sprintf("truck%d", i), la, lo, time.Duration(250+100*i+rng.Intn(60))*time.Millisecond)
			}
			argv := []string{"EVALRO", replyProbe, "1", "fleet"}
			argv = append(argv, area[1:]...)
			argv = append(argv, ids...)
			probes, lingering := 0, 0
			for time.Since(start) < 1700*time.Millisecond {
				at := time.Since(start)
				v, err := c.Do(argv...)
				if err != nil || v.Kind != '$' {
					r.Fail(hx.Failure{Kind: "oracle", Signature: "reply-probe-error", What: fmt.Sprintf("the EVALRO probe failed: %v %s", err, v.String()), Case: hist})
					return
				}
				probes++
				for ci, part := range strings.Split(v.Str, ";") {
					cmd := []string{"WITHIN", "INTERSECTS"}[ci]
					f := strings.SplitN(part, "|", 2)
					if len(f) != 2 || len(f[0]) != len(ids) {
						r.Fail(hx.Failure{Kind: "oracle", Signature: "reply-probe-error", What: "unexpected probe reply " + v.Str, Case: hist})
						return
					}
					listed := map[string]bool{}
					if f[1] != "" {
						for _, id := range strings.Split(f[1], ",") {
							listed[id] = true
						}
					}
					for i, id := range ids {
						holds := f[0][i] == '1'
						if holds && ttl[id] > 0 && at > ttl[id] {
							lingering++ // past its TTL, not yet swept: still there for TEST
						}
						if holds != listed[id] {
							sig, what := "reply-snapshot-loses", "the predicate TEST evaluates holds for an id that the search, under the same read lock, does not list"
							if !holds {
								sig, what = "reply-snapshot-invents", "the search lists an id for which TEST, under the same read lock, does not answer 1"
							}
							if holds && ttl[id] > 0 && at > ttl[id] {
								sig = "reply-snapshot-loses-past-deadline"
							}
							r.Fail(hx.Failure{Kind: "oracle", Signature: sig, What: what,
								Case: map[string]interface{}{"history": hist, "probe": cmd + " fleet LIMIT 100000 IDS " + strings.Join(area, " "), "id": id,
									"seconds-after-first-SET": at.Seconds(), "ttl-seconds": ttl[id].Seconds()},
								Impl: map[string]interface{}{"predicates": f[0], "listed": f[1]}})
						}
					}
				}
				r.Count(fmt.Sprintf("reply-bb|%d|%d", round, probes), true)
				r.Dist("reply:atomic-snapshot")
			}
			r.Extra["reply_snapshots_with_lingering_expired_object"] = lingering
			r.TracesImpl += probes
		}()
	}
}

func replyStage(r *hx.Result, cfg hx.Config) {
	r.Rule += " reply: one case = one (dataset incl. objects whose deadline has passed, WITHIN|INTERSECTS, area, LIMIT) comparison of the ids replied by the real command with TEST evaluated for every id (in-package, no sweeper), or one atomic EVALRO snapshot (both commands, every id) on a server whose objects' TTLs run out during the probes; non-trivial = the predicate holds for a non-empty strict subset."
	r.Assumptions = append(r.Assumptions,
		"reply stage: pushObject is Model/Cursor.push_object (C11/C12): the droppers between predicate and reply are testObject (MATCH / WHERE*) and LIMIT; the deterministic in-package oracle and the atomic EVALRO snapshots check on the implementation that nothing else (e.g. the deadline) drops an object",
	)
	rng := rand.New(rand.NewSource(cfg.Seed*104729 + 77))
	replyInPackage(r, cfg, rng)
	replyBlackBox(r, cfg, rng)
}
