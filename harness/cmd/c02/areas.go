package main

// C02 (iv) — the query area.  WITHIN / INTERSECTS / NEARBY (search.go cmdSearchArgs + parseRectArea) and
// TEST (test.go parseArea behind token.go parseAreaExpression and cmdTEST) each have their own parser from
// area tokens to a geojson object.  Model/AreaParse.v transcribes both; Props/C02ar.v proves that they
// build the same object from the same tokens (and where they do not).  Here, on the same token lists:
//
//   correspondence  model search_area  vs  cmdSearchArgs          (verifapi.AreaEnv.SearchArea)
//                   model parse_area   vs  parseArea              (AreaEnv.ParseArea)
//                   model test_tail    vs  cmdTEST + parseAreaExpression (AreaEnv.TestTail)
//                   model quadkey_to_tilexy / tilexy_to_quadkey / parse_int64 / parse_uint64 / float
//                   predicates vs internal/bing, strconv and Go's float comparisons
//   oracle          (no model) the object cmdSearchArgs built = the object TEST built from the same
//                   tokens; both refuse => same error text; the accepted search object is not nil
//                   (regression of C02-within-geo-nil, fixed in /repo 1d3bf59); CLIP is never accepted
//                   with GET (regression of C02-clip-get-clipby, fixed in /repo 7096363); no parser
//                   panics or hangs.
//
// The model's oracles (strings.ToLower, strconv.ParseFloat, geojson.Parse of OBJECT and of the sector
// polygon, the keyspace lookup of GET) are computed here by calling the library directly and sent with
// every request; the object a model term stands for is built by direct library calls (verifapi.AreaBuild*).

import (
	"fmt"
	"math"
	"math/rand"
	"strconv"
	"strings"
	"sync/atomic"
	"time"

	"github.com/tidwall/tile38/verifapi"
	"verifharness/internal/hx"
	"verifharness/internal/model"
)

type areaRun struct {
	r        *hx.Result
	drv      *model.Driver
	env      *verifapi.AreaEnv
	rng      *rand.Rand
	progress int64 // cases finished (watchdog)
}

type areaCase struct {
	Class string   `json:"class"`
	Cmd   string   `json:"cmd"`
	Fence bool     `json:"fence,omitempty"`
	Clip  bool     `json:"clip,omitempty"`
	OutB  bool     `json:"outb,omitempty"`
	Toks  []string `json:"tokens"`
}

func (c areaCase) key() string {
	return fmt.Sprintf("%s|%v%v%v|%q", c.Cmd, c.Fence, c.Clip, c.OutB, c.Toks)
}

// ---------------------------------------------------------------- oracle tables for the model

func (a *areaRun) oracleEntries(toks []string) []string {
	seen := map[string]bool{}
	var out []string
	add := func(t string) {
		if seen[t] {
			return
		}
		seen[t] = true
		f := "-"
		if v, err := strconv.ParseFloat(t, 64); err == nil {
			f = strconv.FormatUint(math.Float64bits(v), 10)
		}
		_, ok := verifapi.AreaBuildObject(a.env, t)
		out = append(out, "T:"+model.H(t)+":"+model.H(strings.ToLower(t))+":"+f+":"+model.B(ok))
	}
	add("BOUNDS")
	add("")
	for _, t := range toks {
		add(t)
	}
	for i, t := range toks {
		switch strings.ToLower(t) {
		case "sector":
			if i+5 < len(toks) {
				var v [5]float64
				ok := true
				for j := 0; j < 5; j++ {
					f, err := strconv.ParseFloat(toks[i+1+j], 64)
					if err != nil {
						ok = false
					}
					v[j] = f
				}
				fin := func(f float64) bool { return !math.IsNaN(f) && !math.IsInf(f, 0) }
				if ok && fin(v[3]) && fin(v[4]) && v[3] != v[4] {
					_, sok := verifapi.AreaBuildSector(a.env, v[0], v[1], v[2], v[3], v[4])
					e := "S"
					for j := 0; j < 5; j++ {
						e += ":" + strconv.FormatUint(math.Float64bits(v[j]), 10)
					}
					out = append(out, e+":"+model.B(sok))
				}
			}
		case "get":
			if i+2 < len(toks) {
				st, _ := a.env.Lookup(toks[i+1], toks[i+2])
				out = append(out, "G:"+model.H(toks[i+1])+":"+model.H(toks[i+2])+":"+[]string{"K", "I", "F"}[st])
			}
		}
	}
	return out
}

func (a *areaRun) ask(mode, cmd string, b1, b2, b3 bool, toks []string) string {
	req := []string{"area", mode, cmd, model.B(b1), model.B(b2), model.B(b3), strconv.Itoa(len(toks))}
	for _, t := range toks {
		req = append(req, model.H(t))
	}
	ent := a.oracleEntries(toks)
	req = append(req, strconv.Itoa(len(ent)))
	req = append(req, ent...)
	return a.drv.Ask(req...)
}

// ---------------------------------------------------------------- a model term -> the object it stands for

type termParser struct {
	s   string
	pos int
	a   *areaRun
}

func (p *termParser) expect(c byte) {
	if p.pos >= len(p.s) || p.s[p.pos] != c {
		panic(fmt.Sprintf("area term %q: expected %q at %d", p.s, c, p.pos))
	}
	p.pos++
}

func (p *termParser) word(stop string) string {
	st := p.pos
	for p.pos < len(p.s) && !strings.ContainsRune(stop, rune(p.s[p.pos])) {
		p.pos++
	}
	return p.s[st:p.pos]
}

func (p *termParser) args(n int) []string {
	p.expect('(')
	out := make([]string, n)
	for i := 0; i < n; i++ {
		if i > 0 {
			p.expect(',')
		}
		out[i] = p.word(",)")
	}
	p.expect(')')
	return out
}

func fbits(s string) float64 {
	u, err := strconv.ParseUint(s, 10, 64)
	if err != nil {
		panic("bad float bits from model: " + s)
	}
	return math.Float64frombits(u)
}

func i64(s string) int64 {
	v, err := strconv.ParseInt(s, 10, 64)
	if err != nil {
		panic("bad int64 from model: " + s)
	}
	return v
}

func u64(s string) uint64 {
	v, err := strconv.ParseUint(s, 10, 64)
	if err != nil {
		panic("bad uint64 from model: " + s)
	}
	return v
}

// build returns the object and whether every library call the term needs succeeded.
func (p *termParser) build() (verifapi.AreaObj, bool) {
	name := p.word("(,;)")
	switch name {
	case "nil":
		return nil, true
	case "point":
		v := p.args(2)
		return verifapi.AreaBuildPoint(fbits(v[0]), fbits(v[1])), true
	case "circle":
		v := p.args(3)
		return verifapi.AreaBuildCircle(fbits(v[0]), fbits(v[1]), fbits(v[2])), true
	case "sector":
		v := p.args(5)
		return verifapi.AreaBuildSector(p.a.env, fbits(v[0]), fbits(v[1]), fbits(v[2]), fbits(v[3]), fbits(v[4]))
	case "bounds":
		v := p.args(4)
		return verifapi.AreaBuildBounds(fbits(v[0]), fbits(v[1]), fbits(v[2]), fbits(v[3])), true
	case "hash":
		v := p.args(1)
		return verifapi.AreaBuildHash(model.U(v[0])), true
	case "tile":
		v := p.args(3)
		return verifapi.AreaBuildTile(i64(v[0]), i64(v[1]), u64(v[2])), true
	case "mvt":
		v := p.args(3)
		return verifapi.AreaBuildMvt(i64(v[0]), i64(v[1]), u64(v[2])), true
	case "object":
		v := p.args(1)
		return verifapi.AreaBuildObject(p.a.env, model.U(v[0]))
	case "get":
		v := p.args(2)
		st, o := p.a.env.Lookup(model.U(v[0]), model.U(v[1]))
		return o, st == 2
	case "clip":
		p.expect('(')
		x, ok1 := p.build()
		p.expect(';')
		c, ok2 := p.build()
		p.expect(')')
		return verifapi.AreaBuildClip(p.a.env, x, c), ok1 && ok2
	}
	panic(fmt.Sprintf("area term %q: unknown constructor %q", p.s, name))
}

func (a *areaRun) describeTerm(term string) string {
	p := &termParser{s: term, a: a}
	o, ok := p.build()
	if p.pos != len(term) {
		panic("area term not consumed: " + term)
	}
	if !ok {
		return "!library-call-failed"
	}
	return verifapi.AreaDescribe(o)
}

// ---------------------------------------------------------------- comparisons

func errOfModel(rep string) (isErr bool, text string, lib bool) {
	if rep == "err-lib" {
		return true, "", true
	}
	if strings.HasPrefix(rep, "err ") {
		return true, model.U(strings.TrimPrefix(rep, "err ")), false
	}
	return false, "", false
}

func firstWord(toks []string) string {
	if len(toks) == 0 {
		return "<none>"
	}
	w := strings.ToUpper(strings.ToLower(toks[0]))
	switch w {
	case "POINT", "CIRCLE", "OBJECT", "SECTOR", "BOUNDS", "HASH", "TILE", "MVT", "QUADKEY", "GET", "GEO", "ROAM", "CLIP":
		return w
	}
	return "OTHER"
}

func (a *areaRun) corr(sig, what string, c areaCase, impl, mod interface{}) {
	a.r.Fail(hx.Failure{Kind: "correspondence", Signature: sig, What: what, Case: c, Impl: impl, Model: mod})
}

func (a *areaRun) oracle(sig, what string, c areaCase, impl interface{}) {
	a.r.Fail(hx.Failure{Kind: "oracle", Signature: sig, What: what, Case: c, Impl: impl})
}

func descRoam(s verifapi.SearchAreaResult) string {
	if !s.RoamOn {
		return "-"
	}
	return fmt.Sprintf("roam(%s,%s,%d,%s)", model.H(s.RoamKey), model.H(s.RoamID), math.Float64bits(s.RoamMeters), model.H(s.RoamScan))
}

// searchCase: model search_area vs cmdSearchArgs; returns the real result.
func (a *areaRun) searchCase(c areaCase) verifapi.SearchAreaResult {
	real := a.env.SearchArea(c.Cmd, c.Fence, c.Clip, c.OutB, c.Toks)
	rep := a.ask("search", c.Cmd, c.Fence, c.Clip, c.OutB, c.Toks)
	if real.Panic != "" {
		a.oracle("search-parser-panic", "cmdSearchArgs panicked: "+real.Panic, c, real.Panic)
	}
	if isErr, text, lib := errOfModel(rep); isErr {
		if real.Panic == "" && (real.Err == "" || (!lib && real.Err != text)) {
			a.corr("area-search-model", "cmdSearchArgs and Model/AreaParse.search_area disagree (error)", c,
				map[string]interface{}{"err": real.Err, "obj": verifapi.AreaDescribe(real.Obj)}, rep)
		}
		return real
	}
	f := strings.Fields(rep)
	if len(f) != 7 || f[0] != "ok" {
		a.corr("area-search-model", "Model/AreaParse.search_area: "+rep, c, real.Err, rep)
		return real
	}
	if real.Panic != "" {
		return real
	}
	want := strings.Join([]string{a.describeTerm(f[1]), f[2], f[3], f[4], f[5], f[6]}, " ")
	got := strings.Join([]string{verifapi.AreaDescribe(real.Obj), model.B(real.OutReset),
		fmt.Sprintf("%d,%d,%d", real.TileX, real.TileY, real.TileZ), model.B(real.Mvt), model.B(real.Clip), descRoam(real)}, " ")
	if real.Err != "" || want != got {
		a.corr("area-search-model", "cmdSearchArgs and Model/AreaParse.search_area disagree", c,
			map[string]interface{}{"err": real.Err, "result": got}, map[string]interface{}{"reply": rep, "result": want})
	}
	return real
}

type tailResult struct {
	doClip             bool
	obj                verifapi.AreaObj
	shape, err, panicT string
}

func (a *areaRun) tailCase(c areaCase, isect, a1nil bool) tailResult {
	lTest := "within"
	if isect {
		lTest = "intersects"
	}
	var t tailResult
	t.doClip, t.obj, t.shape, t.err, t.panicT = a.env.TestTail(lTest, a1nil, c.Toks)
	rep := a.ask("tail", "-", isect, a1nil, false, c.Toks)
	cc := c
	cc.Cmd = "test-" + lTest
	if t.panicT != "" {
		a.oracle("test-parser-panic", "cmdTEST / parseAreaExpression panicked: "+t.panicT, cc, t.panicT)
		return t
	}
	if rep == "outside" {
		a.r.Dist("area:tail-expression")
		return t
	}
	if isErr, text, lib := errOfModel(rep); isErr {
		if t.err == "" || (!lib && t.err != text) {
			a.corr("area-test-model", "cmdTEST and Model/AreaParse.test_tail disagree (error)", cc,
				map[string]interface{}{"err": t.err, "shape": t.shape, "obj": verifapi.AreaDescribe(t.obj)}, rep)
		}
		return t
	}
	f := strings.Fields(rep)
	if len(f) != 3 || f[0] != "ok" {
		a.corr("area-test-model", "Model/AreaParse.test_tail: "+rep, cc, t.err, rep)
		return t
	}
	want := f[1] + " leaf " + a.describeTerm(f[2])
	got := model.B(t.doClip) + " " + t.shape + " " + verifapi.AreaDescribe(t.obj)
	if t.err != "" || want != got {
		a.corr("area-test-model", "cmdTEST and Model/AreaParse.test_tail disagree", cc,
			map[string]interface{}{"err": t.err, "result": got}, map[string]interface{}{"reply": rep, "result": want})
	}
	return t
}

func (a *areaRun) parseCase(c areaCase, doClip bool) {
	rest, obj, errT, panicT := a.env.ParseArea(doClip, c.Toks)
	rep := a.ask("parse", "-", doClip, false, false, c.Toks)
	cc := c
	cc.Cmd = "parseArea"
	cc.Clip = doClip
	if panicT != "" {
		a.oracle("test-parser-panic", "parseArea panicked: "+panicT, cc, panicT)
		return
	}
	if isErr, text, lib := errOfModel(rep); isErr {
		if errT == "" || (!lib && errT != text) {
			a.corr("area-parsearea-model", "parseArea and Model/AreaParse.parse_area disagree (error)", cc, errT, rep)
		}
		return
	}
	f := strings.Fields(rep)
	if len(f) != 3 || f[0] != "ok" {
		a.corr("area-parsearea-model", "Model/AreaParse.parse_area: "+rep, cc, errT, rep)
		return
	}
	want := a.describeTerm(f[1]) + " " + f[2]
	got := verifapi.AreaDescribe(obj) + " " + strconv.Itoa(rest)
	if errT != "" || want != got {
		a.corr("area-parsearea-model", "parseArea and Model/AreaParse.parse_area disagree", cc,
			map[string]interface{}{"err": errT, "result": got}, map[string]interface{}{"reply": rep, "result": want})
	}
}

// ---------------------------------------------------------------- parser against parser (no model)

func hasWord(toks []string, words ...string) bool {
	for _, t := range toks {
		l := strings.ToLower(t)
		for _, w := range words {
			if l == w {
				return true
			}
		}
	}
	return false
}

// tileOutsideSearchRange: TILE x y z that TEST evaluates and search refuses (x < 0, y < 0, z > 23 or
// beyond int64), or whose z has a sign (Atoi reads it, ParseUint does not).
func tileSpecial(toks []string) (outOfRange, signedZ bool) {
	if len(toks) < 4 || strings.ToLower(toks[0]) != "tile" {
		return
	}
	x, e1 := strconv.ParseInt(toks[1], 10, 64)
	y, e2 := strconv.ParseInt(toks[2], 10, 64)
	z, e3 := strconv.ParseUint(toks[3], 10, 64)
	if e1 == nil && e2 == nil && e3 == nil && (x < 0 || y < 0 || z > 23) {
		outOfRange = true
	}
	if len(toks[3]) > 0 && (toks[3][0] == '+' || toks[3][0] == '-') {
		signedZ = true
	}
	return
}

// crossCase: the property itself on the two real parsers — the same tokens, no CLIP, BOUNDS not taken
// for the output format.  strict = the token list is one area (possibly damaged), nothing after it.
func (a *areaRun) crossCase(c areaCase, s verifapi.SearchAreaResult, t tailResult, strict bool) {
	if s.Panic != "" || t.panicT != "" {
		return
	}
	w := firstWord(c.Toks)
	shared := map[string]bool{"POINT": true, "CIRCLE": true, "OBJECT": true, "SECTOR": true, "BOUNDS": true,
		"HASH": true, "QUADKEY": true, "GET": true}[w]
	expr := hasWord(c.Toks, "(", ")", "not", "and", "or")
	clipby := hasWord(c.Toks, "clipby")
	outOfRange, signedZ := tileSpecial(c.Toks)
	sOK, tOK := s.Err == "", t.err == ""
	switch {
	case sOK && s.Obj == nil && !s.RoamOn:
		a.oracle("search-area-nil-"+w, "WITHIN / INTERSECTS accepted the area tokens and left no search object (the command then dereferences nil)", c,
			map[string]interface{}{"obj": "nil"})
	case sOK && tOK:
		if t.shape != "leaf" {
			if !expr {
				a.oracle("area-parsers-differ-"+w, "search accepted one object where TEST built an expression", c, t.shape)
			}
			return
		}
		ds, dt := verifapi.AreaDescribe(s.Obj), verifapi.AreaDescribe(t.obj)
		if ds != dt {
			a.oracle("area-parsers-differ-"+w, "the same area tokens denote different objects for WITHIN/INTERSECTS and for TEST", c,
				map[string]interface{}{"search": ds, "test": dt})
		}
	case sOK && !tOK:
		// only the search side knows MVT and CLIPBY; a signed tile level is read by Atoi only
		if w == "MVT" || clipby || expr || signedZ {
			return
		}
		a.oracle("area-search-only-"+w, "WITHIN/INTERSECTS accept area tokens that TEST refuses", c,
			map[string]interface{}{"search": verifapi.AreaDescribe(s.Obj), "test-error": t.err})
	case !sOK && tOK:
		// only TEST knows expressions (and CLIP in this position); TEST evaluates any TILE numbers; TEST
		// ignores areas after the first
		if expr || w == "CLIP" || outOfRange || (!strict && s.Err == "invalid number of arguments") {
			return
		}
		a.oracle("area-test-only-"+w, "TEST accepts area tokens that WITHIN/INTERSECTS refuse", c,
			map[string]interface{}{"search-error": s.Err, "test": verifapi.AreaDescribe(t.obj)})
	default:
		if strict && shared && !expr && !clipby && s.Err != t.err {
			a.oracle("area-error-text-"+w, "the same damaged area is refused with different error texts", c,
				map[string]interface{}{"search-error": s.Err, "test-error": t.err})
		}
	}
}

// ---------------------------------------------------------------- generators

var areaNumbers = []string{"0", "1", "-1", "33.5", "-112.25", "90", "-90", "91", "180", "-180", "181", "360", "361",
	"720", "-45", "1e3", "1e-7", "1e999", "-1e999", "nan", "NaN", "inf", "+Inf", "-inf", "Infinity", "-0", "+5", ".5", "5.", "0x10",
	"0x1p4", "1_000", "", "abc", "1e", "--1", " 1", "1 ", "１", "4.9e-324", "1.7976931348623157e308", "33.50", "3.35e1"}

var areaInts = []string{"0", "1", "2", "3", "5", "7", "22", "23", "24", "63", "64", "65", "-1", "-0", "+0", "+1", "+23", "+24",
	"9223372036854775807", "9223372036854775808", "-9223372036854775808", "-9223372036854775809",
	"18446744073709551615", "18446744073709551616", "00000000000000000000001", "0000000000000000000000024", "1_0", "0x1", "1.0", "1e1", "", "x", " 1", "4294967296", "1048576"}

var areaMeters = []string{"0", "-1", "-0", "1000", "250000.5", "1e7", "1e308", "nan", "inf", "-inf", "-1e-300", "4.9e-324", "-4.9e-324", "abc", ""}

var areaBearings = []string{"0", "90", "90.0", "9e1", "180", "270", "359.9", "360", "361", "-10", "-350", "720.5", "1e6", "-0", "nan", "inf", "-Inf", "x", ""}

func mixCase(rng *rand.Rand, w string) string {
	switch rng.Intn(6) {
	case 0:
		return strings.ToLower(w)
	case 1:
		b := []byte(w)
		for i := range b {
			if rng.Intn(2) == 0 {
				b[i] = byte(strings.ToLower(string(b[i]))[0])
			}
		}
		return string(b)
	case 2:
		if rng.Intn(8) == 0 {
			// U+212A KELVIN SIGN lower-cases to "k", U+0130 to "i" + U+0307
			return strings.NewReplacer("K", "K", "I", "İ").Replace(w)
		}
	}
	return w
}

func pick(rng *rand.Rand, l []string) string { return l[rng.Intn(len(l))] }

func coord(rng *rand.Rand, span float64) string {
	switch rng.Intn(5) {
	case 0:
		return strconv.Itoa(rng.Intn(int(2*span)+1) - int(span))
	case 1:
		return pick(rng, areaNumbers)
	}
	return strconv.FormatFloat((rng.Float64()*2-1)*span, 'f', rng.Intn(7), 64)
}

func quadkeyTok(rng *rand.Rand) string {
	n := []int{1, 2, 3, 5, 8, 12, 18, 22, 23, 24, 30, 62, 63, 64, 65, 66, 70, 100}[rng.Intn(18)]
	b := make([]byte, n)
	for i := range b {
		b[i] = byte('0' + rng.Intn(4))
	}
	switch rng.Intn(10) {
	case 0:
		b[rng.Intn(n)] = []byte{'4', 'a', ' ', 0, '/', '9', 0xff}[rng.Intn(7)]
	case 1:
		return ""
	}
	return string(b)
}

func hashTok(rng *rand.Rand) string {
	const alpha = "0123456789bcdefghjkmnpqrstuvwxyz"
	n := []int{1, 2, 4, 5, 7, 9, 12, 13, 20}[rng.Intn(9)]
	b := make([]byte, n)
	for i := range b {
		b[i] = alpha[rng.Intn(32)]
	}
	switch rng.Intn(10) {
	case 0:
		b[rng.Intn(n)] = []byte{'a', 'i', 'l', 'o', 'B', ' ', 0xc3}[rng.Intn(7)]
	case 1:
		return ""
	}
	return string(b)
}

var areaObjects = []string{
	`{"type":"Point","coordinates":[-112.2,33.4]}`,
	`{"type":"Polygon","coordinates":[[[0,0],[10,0],[10,10],[0,10],[0,0]]]}`,
	`{"type":"LineString","coordinates":[[0,0],[5,5],[10,0]]}`,
	`{"type":"Feature","geometry":{"type":"Point","coordinates":[1,2]},"properties":{"a":1}}`,
	`{"type":"FeatureCollection","features":[]}`,
	`{"type":"MultiPoint","coordinates":[[1,1],[2,2]]}`,
	`{"type":"GeometryCollection","geometries":[{"type":"Point","coordinates":[3,3]}]}`,
	`{"type":"Polygon","coordinates":[[[0,0],[10,0],[10,10],[0,0]]],"bbox":[0,0,10,10]}`,
	`{"type":"Point","coordinates":[1]}`, `{"type":"Foo"}`, `{}`, `{`, `"str"`, `[1,2]`, `null`, ``, `{"type":"Point","coordinates":[1,2,3,4,5]}`,
}

var areaKinds = []string{"POINT", "CIRCLE", "SECTOR", "BOUNDS", "HASH", "TILE", "MVT", "QUADKEY", "OBJECT", "GET", "GEO", "ROAM"}

// one area of the given kind, mostly valid
func (a *areaRun) genArea(kind string) []string {
	rng := a.rng
	kw := mixCase(rng, kind)
	switch kind {
	case "POINT":
		t := []string{kw, coord(rng, 90), coord(rng, 180)}
		if rng.Intn(3) == 0 {
			t = append(t, pick(rng, areaMeters))
		}
		return t
	case "CIRCLE":
		m := pick(rng, areaMeters)
		if rng.Intn(2) == 0 {
			m = strconv.Itoa(rng.Intn(2000000))
		}
		return []string{kw, coord(rng, 90), coord(rng, 180), m}
	case "SECTOR":
		b1, b2 := pick(rng, areaBearings), pick(rng, areaBearings)
		if rng.Intn(2) == 0 {
			b1, b2 = strconv.Itoa(rng.Intn(800)-200), strconv.Itoa(rng.Intn(800)-200)
		}
		m := strconv.Itoa(rng.Intn(500000))
		if rng.Intn(4) == 0 {
			m = pick(rng, areaMeters)
		}
		return []string{kw, coord(rng, 90), coord(rng, 180), m, b1, b2}
	case "BOUNDS":
		return []string{kw, coord(rng, 90), coord(rng, 180), coord(rng, 90), coord(rng, 180)}
	case "HASH":
		return []string{kw, hashTok(rng)}
	case "TILE", "MVT":
		z := rng.Intn(24)
		x, y, zs := strconv.Itoa(rng.Intn(1<<uint(z))), strconv.Itoa(rng.Intn(1<<uint(z))), strconv.Itoa(z)
		for i := 0; i < 3; i++ {
			if rng.Intn(4) == 0 {
				v := pick(rng, areaInts)
				switch i {
				case 0:
					x = v
				case 1:
					y = v
				default:
					zs = v
				}
			}
		}
		return []string{kw, x, y, zs}
	case "QUADKEY":
		return []string{kw, quadkeyTok(rng)}
	case "OBJECT":
		return []string{kw, pick(rng, areaObjects)}
	case "GET":
		return []string{kw, pick(rng, []string{"fleet", "fleet", "fleet", "other", "nokey", ""}), pick(rng, []string{"a", "b", "s", "e", "c", "missing", ""})}
	case "GEO":
		return []string{kw}
	case "ROAM":
		t := []string{kw, "fleet", pick(rng, []string{"*", "a", "tr*ck?", ""}), pick(rng, areaMeters)}
		switch rng.Intn(4) {
		case 0:
			t = append(t, mixCase(rng, "SCAN"), pick(rng, []string{"b*", "", "x"}))
		case 1:
			t = append(t, "SCAM", "b*")
		case 2:
			t = append(t, "scan")
		}
		return t
	}
	return []string{kw}
}

func (a *areaRun) genClipby() []string {
	rng := a.rng
	t := []string{mixCase(rng, "CLIPBY")}
	switch rng.Intn(12) {
	case 0:
		return t
	case 1:
		return append(t, "")
	case 2:
		return append(t, a.genArea(pick(rng, []string{"CIRCLE", "POINT", "OBJECT", "GET", "MVT", "SECTOR", "GEO"}))...)
	case 3:
		return append([]string{"CLIPPY"}, a.genArea("BOUNDS")...)
	}
	return append(t, a.genArea(pick(rng, []string{"BOUNDS", "BOUNDS", "HASH", "TILE", "QUADKEY"}))...)
}

// damage one area: arity, values, empty tokens
func (a *areaRun) damage(t []string) []string {
	rng := a.rng
	t = append([]string(nil), t...)
	switch rng.Intn(6) {
	case 0:
		if len(t) > 0 {
			t = t[:rng.Intn(len(t))]
		}
	case 1:
		if len(t) > 1 {
			t[1+rng.Intn(len(t)-1)] = pick(rng, areaNumbers)
		}
	case 2:
		if len(t) > 1 {
			t[1+rng.Intn(len(t)-1)] = ""
		}
	case 3:
		if len(t) > 1 {
			i := 1 + rng.Intn(len(t)-1)
			t = append(t[:i], t[i+1:]...)
		}
	case 4:
		if len(t) > 0 {
			t[0] = pick(rng, []string{"", "CIRCL", "POINTS", "bound", "CLIP", "CLIPBY", "IDS", "LIMIT", "WHERE", "FENCE", "(", "NOT", "1", "33.5"})
		}
	case 5:
		if len(t) > 1 {
			t[1+rng.Intn(len(t)-1)] = pick(rng, areaInts)
		}
	}
	return t
}

var areaCorpus = []areaCase{
	// regression cases of the two repaired findings: refused by the code and by the model
	{Class: "corpus", Cmd: "within", Toks: []string{"GEO"}},
	{Class: "corpus", Cmd: "intersects", Toks: []string{"geo", "CLIPBY", "BOUNDS", "0", "0", "1", "1"}},
	{Class: "corpus", Cmd: "within", Fence: true, Toks: []string{"Geo"}},
	{Class: "corpus", Cmd: "intersects", Clip: true, Toks: []string{"GET", "fleet", "a"}},
	{Class: "corpus", Cmd: "intersects", Clip: true, Toks: []string{"GET", "fleet", "a", "CLIPBY", "BOUNDS", "-90", "-180", "90", "180"}},
	{Class: "corpus", Cmd: "within", Clip: true, Toks: []string{"get", "fleet", "b", "clipby", "QUADKEY", "0", "CLIPBY", "HASH", "9"}},
	{Class: "corpus", Cmd: "within", Toks: []string{"TILE", "0", "0", "+1"}},
	{Class: "corpus", Cmd: "within", Toks: []string{"TILE", "-1", "0", "5"}},
	{Class: "corpus", Cmd: "within", Toks: []string{"TILE", "0", "0", "24"}},
	{Class: "corpus", Cmd: "within", Toks: []string{"TILE", "-1", "abc", "3"}},
	{Class: "corpus", Cmd: "within", Toks: []string{"BOUNDS", "0", "0", "1", "1", "BOUNDS", "5", "5", "5", "5"}},
	{Class: "corpus", Cmd: "within", Toks: []string{"FOO"}},
	{Class: "corpus", Cmd: "within", Toks: []string{}},
	{Class: "corpus", Cmd: "within", Toks: []string{""}},
	{Class: "corpus", Cmd: "within", OutB: true, Toks: []string{"33", "-115", "34", "-114"}},
	{Class: "corpus", Cmd: "within", OutB: true, Toks: []string{"BOUNDS", "33", "-115", "34", "-114"}},
	{Class: "corpus", Cmd: "intersects", OutB: true, Toks: []string{"nan"}},
	{Class: "corpus", Cmd: "nearby", OutB: true, Toks: []string{"33", "-115"}},
	{Class: "corpus", Cmd: "within", Toks: []string{"SECTOR", "33", "-115", "1000", "90", "0"}},
	{Class: "corpus", Cmd: "within", Toks: []string{"SECTOR", "33", "-115", "1000", "0", "90"}},
	{Class: "corpus", Cmd: "within", Toks: []string{"SECTOR", "33", "-115", "1000", "90", "9e1"}},
	{Class: "corpus", Cmd: "within", Toks: []string{"SECTOR", "33", "-115", "1000", "0", "-0"}},
	{Class: "corpus", Cmd: "within", Toks: []string{"SECTOR", "33", "-115", "1000", "nan", "10"}},
	{Class: "corpus", Cmd: "within", Toks: []string{"SECTOR", "33", "-115", "-1000", "370", "-20"}},
	{Class: "corpus", Cmd: "within", Toks: []string{"SECTOR", "nan", "-115", "1000", "10", "20"}},
	{Class: "corpus", Cmd: "within", Toks: []string{"CIRCLE", "33", "-115", "-0"}},
	{Class: "corpus", Cmd: "within", Toks: []string{"CIRCLE", "33", "-115", "-4.9e-324"}},
	{Class: "corpus", Cmd: "within", Toks: []string{"CIRCLE", "33", "-115", "nan"}},
	{Class: "corpus", Cmd: "within", Toks: []string{"QUADKEY", "0231"}},
	{Class: "corpus", Cmd: "within", Toks: []string{"QUADKEY", strings.Repeat("3", 64)}},
	{Class: "corpus", Cmd: "within", Toks: []string{"QUADKEY", strings.Repeat("1", 65)}},
	{Class: "corpus", Cmd: "within", Toks: []string{"QUADKEY", "0123", "CLIPBY", "QUADKEY", "01"}},
	{Class: "corpus", Cmd: "intersects", Toks: []string{"MVT", "1", "2", "3", "CLIPBY", "BOUNDS", "0", "0", "1", "1"}},
	{Class: "corpus", Cmd: "intersects", Toks: []string{"MVT", "0", "0", "0"}},
	{Class: "corpus", Cmd: "nearby", Toks: []string{"POINT", "33", "-115"}},
	{Class: "corpus", Cmd: "nearby", Toks: []string{"POINT", "33", "-115", ""}},
	{Class: "corpus", Cmd: "nearby", Toks: []string{"POINT", "33", "-115", "-1"}},
	{Class: "corpus", Cmd: "nearby", Fence: true, Toks: []string{"ROAM", "fleet", "*", "1000"}},
	{Class: "corpus", Cmd: "nearby", Fence: true, Toks: []string{"roam", "fleet", "*", "1000", "SCAN", "b*"}},
	{Class: "corpus", Cmd: "nearby", Toks: []string{"ROAM", "fleet", "*", "1000"}},
	{Class: "corpus", Cmd: "within", Toks: []string{"CLIP", "BOUNDS", "0", "0", "1", "1"}},
	{Class: "corpus", Cmd: "intersects", Toks: []string{"CLIP", "CIRCLE", "0", "0", "1"}},
	{Class: "corpus", Cmd: "intersects", Toks: []string{"(", "BOUNDS", "0", "0", "1", "1", ")"}},
	{Class: "corpus", Cmd: "intersects", Toks: []string{"BOUNDS", "0", "0", "1", "1", ")"}},
	{Class: "corpus", Cmd: "intersects", Toks: []string{"AND", "BOUNDS", "0", "0", "1", "1"}},
	{Class: "corpus", Cmd: "within", Toks: []string{"HASH", "9tbnthxzr"}},
	{Class: "corpus", Cmd: "within", Toks: []string{"HASH", "AIlo"}},
	{Class: "corpus", Cmd: "within", Toks: []string{"GET", "fleet", "e"}},
	{Class: "corpus", Cmd: "within", Toks: []string{"GET", "fleet", "s"}},
	{Class: "corpus", Cmd: "within", Toks: []string{"GET", "nokey", "a"}},
	{Class: "corpus", Cmd: "within", Toks: []string{"GET", "fleet", "zz"}},
	{Class: "corpus", Cmd: "within", Clip: true, Toks: []string{"CIRCLE", "0", "0", "1"}},
	{Class: "corpus", Cmd: "within", Clip: true, Toks: []string{"Sector", "0", "0", "1", "1", "2"}},
	{Class: "corpus", Cmd: "within", Clip: true, Toks: []string{"OBJECT", `{"type":"Point","coordinates":[1,2]}`}},
}

func (a *areaRun) genCase() (areaCase, bool) {
	rng := a.rng
	c := areaCase{Cmd: []string{"within", "intersects", "within", "intersects", "nearby"}[rng.Intn(5)]}
	c.Fence = rng.Intn(5) == 0
	c.Clip = rng.Intn(6) == 0
	c.OutB = rng.Intn(8) == 0
	kind := pick(rng, areaKinds)
	if c.Cmd == "nearby" && rng.Intn(3) != 0 {
		kind = pick(rng, []string{"POINT", "POINT", "ROAM"})
		if kind == "ROAM" {
			c.Fence = rng.Intn(4) != 0
		}
	}
	area := a.genArea(kind)
	strict := true
	switch n := rng.Intn(20); {
	case n < 9:
		c.Class = "valid"
	case n < 14:
		c.Class = "damaged"
		area = a.damage(area)
	case n < 17:
		c.Class = "clipby"
		strict = false
		for i := 0; i <= rng.Intn(3); i++ {
			area = append(area, a.genClipby()...)
		}
	case n < 18:
		c.Class = "trailing"
		strict = false
		switch rng.Intn(3) {
		case 0:
			area = append(area, a.genArea(pick(rng, areaKinds))...)
		case 1:
			area = append(area, pick(rng, []string{"", "x", "0", "LIMIT", "clip"}))
		default:
			area = append(area, a.damage(a.genArea(pick(rng, areaKinds)))...)
		}
	case n < 19:
		c.Class = "expression"
		strict = false
		w := pick(rng, []string{"(", ")", "NOT", "not", "AND", "and", "OR", "Or"})
		switch rng.Intn(3) {
		case 0:
			area = append([]string{w}, area...)
		case 1:
			area = append(area, w)
		default:
			area = append(append(area, w), a.genArea(pick(rng, areaKinds))...)
		}
	default:
		c.Class = "test-clip"
		strict = false
		area = append([]string{mixCase(rng, "CLIP")}, area...)
	}
	c.Toks = area
	return c, strict
}

// ---------------------------------------------------------------- bing / strconv / float predicates

func (a *areaRun) small() {
	rng := a.rng
	r := a.r
	// quadkeys
	n := 400
	for i := 0; i < n; i++ {
		k := quadkeyTok(rng)
		x, y, z, pt := verifapi.BingQuadKeyToTileXY(k)
		impl := fmt.Sprintf("%d %d %d", x, y, z)
		if pt != "" {
			impl = "panic"
		}
		mod := a.drv.Ask("qk", model.H(k))
		atomic.AddInt64(&a.progress, 1)
		r.Count("qk|"+k, len(k) > 1)
		r.Dist("area:quadkey")
		if impl != mod {
			r.Fail(hx.Failure{Kind: "correspondence", Signature: "area-quadkey-model", What: "bing.QuadKeyToTileXY and Model/AreaParse.quadkey_to_tilexy disagree",
				Case: k, Impl: impl, Model: mod})
			continue
		}
		// QuadKeyToBounds: validation first, never a panic
		_, okb, ptb := verifapi.BingQuadKeyToBounds(k)
		if ptb != "" {
			r.Fail(hx.Failure{Kind: "oracle", Signature: "quadkey-bounds-panic", What: "bing.QuadKeyToBounds panicked: " + ptb, Case: k})
			continue
		}
		mb := a.drv.Ask("qkb", model.H(k))
		if (okb && !strings.HasPrefix(mb, "ok ")) || (!okb && mb != "invalid") {
			r.Fail(hx.Failure{Kind: "correspondence", Signature: "area-quadkey-model", What: "bing.QuadKeyToBounds and Model/AreaParse.quadkey_to_bounds disagree",
				Case: k, Impl: okb, Model: mb})
		}
		if pt == "" && len(k) <= 63 {
			back := verifapi.BingTileXYToQuadKey(x, y, z)
			if back != k {
				r.Fail(hx.Failure{Kind: "oracle", Signature: "quadkey-roundtrip", What: "TileXYToQuadKey(QuadKeyToTileXY(k)) != k", Case: k, Impl: back})
			}
			if m := model.U(a.drv.Ask("qkinv", strconv.FormatUint(z, 10), strconv.FormatInt(x, 10), strconv.FormatInt(y, 10))); m != back {
				r.Fail(hx.Failure{Kind: "correspondence", Signature: "area-quadkey-model", What: "bing.TileXYToQuadKey and Model/AreaParse.tilexy_to_quadkey disagree",
					Case: []interface{}{x, y, z}, Impl: back, Model: m})
			}
			if x < 0 || y < 0 || (z < 63 && (x >= 1<<z || y >= 1<<z)) {
				r.Fail(hx.Failure{Kind: "oracle", Signature: "quadkey-range", What: "QuadKeyToTileXY left the tile range of its level", Case: k, Impl: impl})
			}
		}
	}
	// integers: Atoi / ParseInt / ParseUint against the value semantics of the model
	ints := append([]string(nil), areaInts...)
	for i := 0; i < 200; i++ {
		s := strconv.FormatInt(rng.Int63()-rng.Int63(), 10)
		switch rng.Intn(5) {
		case 0:
			s = "+" + s
		case 1:
			s = s + pick(rng, []string{"0", "9", "a", " ", "_1"})
		case 2:
			s = strings.Repeat("0", rng.Intn(25)) + strings.TrimPrefix(s, "-")
		}
		ints = append(ints, s)
	}
	for _, s := range ints {
		want := "err"
		atomic.AddInt64(&a.progress, 1)
		v1, e1 := strconv.Atoi(s)
		v2, e2 := strconv.ParseInt(s, 10, 64)
		if (e1 == nil) != (e2 == nil) || (e1 == nil && int64(v1) != v2) {
			r.Fail(hx.Failure{Kind: "oracle", Signature: "strconv-atoi-parseint", What: "Atoi and ParseInt(s, 10, 64) differ", Case: s})
		}
		if e2 == nil {
			want = strconv.FormatInt(v2, 10)
		}
		r.Count("int|"+s, e2 == nil)
		r.Dist("area:strconv")
		if got := a.drv.Ask("pint", model.H(s)); got != want {
			r.Fail(hx.Failure{Kind: "correspondence", Signature: "area-strconv-model", What: "strconv.ParseInt and Model/AreaParse.parse_int64 disagree", Case: s, Impl: want, Model: got})
		}
		want = "err"
		if v, e := strconv.ParseUint(s, 10, 64); e == nil {
			want = strconv.FormatUint(v, 10)
		}
		if got := a.drv.Ask("puint", model.H(s)); got != want {
			r.Fail(hx.Failure{Kind: "correspondence", Signature: "area-strconv-model", What: "strconv.ParseUint and Model/AreaParse.parse_uint64 disagree", Case: s, Impl: want, Model: got})
		}
	}
	// float predicates on bit patterns
	var fl []float64
	for _, s := range append(append(append([]string(nil), areaNumbers...), areaMeters...), areaBearings...) {
		if f, err := strconv.ParseFloat(s, 64); err == nil {
			fl = append(fl, f)
		}
	}
	fl = append(fl, math.Float64frombits(0x7ff0000000000001), math.Float64frombits(0xfff8000000000000), math.Copysign(0, -1), -math.SmallestNonzeroFloat64)
	for i := 0; i < 300; i++ {
		x, y := fl[rng.Intn(len(fl))], fl[rng.Intn(len(fl))]
		if i%3 == 0 {
			x = math.Float64frombits(rng.Uint64())
		}
		want := model.B(x < 0) + " " + model.B(!math.IsNaN(x) && !math.IsInf(x, 0)) + " " + model.B(x == y)
		got := a.drv.Ask("fcmp", strconv.FormatUint(math.Float64bits(x), 10), strconv.FormatUint(math.Float64bits(y), 10))
		r.Count(fmt.Sprintf("f|%x|%x", math.Float64bits(x), math.Float64bits(y)), true)
		r.Dist("area:float-predicates")
		if got != want {
			r.Fail(hx.Failure{Kind: "correspondence", Signature: "area-float-model", What: "x < 0 / finiteArg(x) / x == y on Go floats and on the model's bit patterns disagree",
				Case: []uint64{math.Float64bits(x), math.Float64bits(y)}, Impl: want, Model: got})
		}
	}
}

// ---------------------------------------------------------------- entry

func areas(r *hx.Result, cfg hx.Config) {
	drv, err := model.Start("area")
	if err != nil {
		r.Fail(hx.Failure{Kind: "correspondence", Signature: "area-driver", What: "model driver ocaml/area does not start: " + err.Error()})
		return
	}
	defer drv.Close()
	r.Rule += " areas: one case = one (command, FENCE/CLIP/output flags, area token list) run through cmdSearchArgs, parseArea and cmdTEST and through the extracted Model/AreaParse functions, token lists generated per area word (valid, damaged arity/values, CLIPBY chains, trailing tokens, expression words, CLIP prefix, mixed-case and non-ASCII keywords) after a fixed corpus; non-trivial = at least one of the two parsers accepted the tokens. Plus quadkey strings, integer tokens and float bit patterns against internal/bing, strconv and Go's comparisons."
	r.Assumptions = append(r.Assumptions,
		"area parsers: strings.ToLower, strconv.ParseFloat, geojson.Parse (OBJECT and the sector polygon) and the keyspace lookup of GET are oracles of Model/AreaParse, computed by direct library calls for every request; strconv.Atoi / ParseInt / ParseUint are modelled by their value semantics (sampled against strconv)",
		"area parsers: the object a model constructor term stands for is built by direct library calls (verifapi.AreaBuild*: geojson.NewPoint/NewCircle/NewRect, geohash.BoundingBox, bing.TileXYToBounds, sectr.NewSector + geojson.Parse, clip.Clip); the float arithmetic of TileXYToBounds and of the MVT margin is not modelled",
		"area parsers: parseSearchScanBaseTokens and BUFFER are outside Model/AreaParse (FENCE, CLIP and 'BOUNDS read as output format' enter as flags); AND/OR/NOT/parenthesis expressions of TEST answer TOutside and are only cross-checked parser against parser",
	)
	a := &areaRun{r: r, drv: drv, env: verifapi.NewAreaEnv(), rng: rand.New(rand.NewSource(cfg.Seed*7919 + 20201))}
	for _, kv := range [][3]string{
		{"fleet", "a", `{"type":"Point","coordinates":[-112.2,33.4]}`},
		{"fleet", "b", `{"type":"Polygon","coordinates":[[[0,0],[10,0],[10,10],[0,10],[0,0]]]}`},
		{"fleet", "e", `{"type":"FeatureCollection","features":[]}`},
		{"other", "a", `{"type":"LineString","coordinates":[[0,0],[5,5],[10,0]]}`},
	} {
		o, ok := verifapi.AreaBuildObject(a.env, kv[2])
		if !ok {
			panic("areas: seed object does not parse")
		}
		a.env.Set(kv[0], kv[1], o)
	}
	a.env.SetString("fleet", "s", "a plain string value")

	n := 6000
	if cfg.Tier == "thorough" || cfg.Search {
		n = 60000
	}
	run := func(c areaCase, strict bool) {
		r.Dist("area:" + c.Class)
		r.Dist("area-kind:" + firstWord(c.Toks))
		s := a.searchCase(c)
		isect := c.Cmd == "intersects"
		t := a.tailCase(c, isect, a.rng.Intn(25) == 0 && c.Class != "corpus")
		a.parseCase(c, c.Clip)
		if c.Clip && s.Err == "" && s.Panic == "" && firstWord(c.Toks) == "GET" {
			a.oracle("search-clip-get-accepted", "CLIP was accepted together with GET (\"cannot clip with get\" must be returned whatever follows the area)", c,
				map[string]interface{}{"obj": verifapi.AreaDescribe(s.Obj)})
		}
		accepted := s.Err == "" || t.err == ""
		if c.Cmd != "nearby" {
			// the cross check needs the search side without CLIP and without the output shorthand
			s0 := s
			if c.Clip || c.OutB || c.Fence {
				c0 := c
				c0.Clip, c0.OutB, c0.Fence = false, false, false
				s0 = a.env.SearchArea(c0.Cmd, false, false, false, c0.Toks)
				a.crossCase(c0, s0, a.plainTail(c0, isect), strict)
			} else {
				a.crossCase(c, s0, a.plainTail(c, isect), strict)
			}
		}
		r.Count(c.key(), accepted)
		if accepted {
			r.Sample(6, c)
		}
	}
	// a parser that does not return (e.g. a sector whose bearings were not checked for Inf) must end
	// the run with its input, not hang it: the cases run in a goroutine watched from here
	var current atomic.Value
	done := make(chan struct{})
	go func() {
		defer close(done)
		step := func(c areaCase, strict bool) {
			current.Store(c)
			run(c, strict)
			atomic.AddInt64(&a.progress, 1)
		}
		for _, c := range areaCorpus {
			step(c, len(c.Toks) < 7 && !hasWord(c.Toks, "clipby", "(", ")", "and", "or", "not", "clip"))
		}
		for i := 0; i < n; i++ {
			c, strict := a.genCase()
			step(c, strict)
		}
		a.small()
	}()
	last, lastT := int64(-1), time.Now()
	for {
		select {
		case <-done:
			r.TracesImpl += n + len(areaCorpus)
			return
		case <-time.After(500 * time.Millisecond):
			if p := atomic.LoadInt64(&a.progress); p != last {
				last, lastT = p, time.Now()
			} else if time.Since(lastT) > 20*time.Second {
				c, _ := current.Load().(areaCase)
				// the worker is stuck inside a parser call and touches r no more
				r.Fail(hx.Failure{Kind: "oracle", Signature: "area-parser-hang", What: "an area parser did not return within 20 s", Case: c})
				return
			}
		}
	}
}

// plainTail: TEST on the tokens with area1 = POINT 0 0 (no model involved)
func (a *areaRun) plainTail(c areaCase, isect bool) tailResult {
	lTest := "within"
	if isect {
		lTest = "intersects"
	}
	var t tailResult
	t.doClip, t.obj, t.shape, t.err, t.panicT = a.env.TestTail(lTest, false, c.Toks)
	return t
}
